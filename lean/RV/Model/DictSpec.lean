/-
  Specification side of C16: what a dictionary text SAYS, independent of how it is laid out.

    AD            abstract dictionary: the declarations in order (attributes, values, vendors,
                  vendor blocks with their nested declarations)
    toDictionary  the Dictionary an AD denotes (declared items in declaration order, declarations
                  of a block attached to that block's vendor)
    Layout        everything the property calls layout: leading / trailing / inter-field white
                  space (runs of blanks and tabs), trailing comments, interleaved blank /
                  whitespace-only / comment lines, `\n` vs `\r\n`, final newline or not, letter case
                  of type names
    render        Layout → AD → text
    WF            well-formedness of an AD (names are tokens, numbers in the ranges the Go types
                  hold, names new in their scope, vendor blocks of declared vendors)

  Core Lean only.
-/
import RV.Model.DictParser
namespace RV.DictParser.Spec
open RV RV.Dict RV.DictParser

/-! ### Abstract dictionaries -/

inductive Flag where
  | encrypt (n : Int)
  | hasTag
  | concat
deriving DecidableEq, Repr

structure AAttr where
  name : Bytes
  /-- dotted number -/
  oid : List Nat
  typ : AttrType
  /-- `octets[n]` -/
  size : Option Int := none
  /-- in the order written -/
  flags : List Flag := []
deriving DecidableEq, Repr

structure AValue where
  attr : Bytes
  name : Bytes
  number : Nat
  /-- written as `0x…` -/
  hex : Bool := false
deriving DecidableEq, Repr

structure AVendor where
  name : Bytes
  number : Int
  /-- `format=t,l` -/
  format : Option (Nat × Nat) := none
deriving DecidableEq, Repr

inductive Item where
  | attr (a : AAttr)
  | value (v : AValue)
deriving DecidableEq, Repr

inductive Decl where
  | item (i : Item)
  | vendor (v : AVendor)
  /-- `BEGIN-VENDOR vendor` … `END-VENDOR vendor` -/
  | block (vendor : Bytes) (items : List Item)
deriving Repr

abbrev AD := List Decl

/-! ### The dictionary an AD denotes -/

def applyFlag (a : Attribute) : Flag → Attribute
  | .encrypt n => { a with encrypt := some n }
  | .hasTag => { a with hasTag := some true }
  | .concat => { a with isConcat := some true }

def AAttr.toAttribute (a : AAttr) : Attribute :=
  a.flags.foldl applyFlag { name := a.name, oid := a.oid.map Int.ofNat, typ := a.typ, size := a.size }

def AValue.toValue (v : AValue) : Value := { attrName := v.attr, name := v.name, number := v.number }

def AVendor.toVendor (v : AVendor) : Vendor :=
  { name := v.name, number := v.number,
    typeOctets := v.format.map fun f => (f.1 : Int), lengthOctets := v.format.map fun f => (f.2 : Int) }

/-- a declaration in scope `vb` (`none` = top level, `some v` = inside the block of vendor `v`):
    appended to the top-level lists, or to the lists of the (first) vendor of that name -/
def addItem (vb : Option Bytes) (d : Dictionary) : Item → Dictionary
  | .attr a => addAttr d a.toAttribute vb
  | .value v => addValue d v.toValue vb

def addDecl (d : Dictionary) : Decl → Dictionary
  | .item i => addItem none d i
  | .vendor v => { d with vendors := d.vendors ++ [v.toVendor] }
  | .block n items => items.foldl (addItem (some n)) d

def toDictionary (ad : AD) : Dictionary := ad.foldl addDecl {}

/-! ### Well-formedness -/

def isBlank (b : UInt8) : Bool := b == 32 || b == 9

/-- a byte that can be part of a field: not the first byte of any white-space rune, not `#` -/
def isPlain (b : UInt8) : Bool :=
  !(b == 9 || b == 10 || b == 11 || b == 12 || b == 13 || b == 32 || b == 0xC2 || b == 0xE1 || b == 0xE2 || b == 0xE3 || b == 35)

/-- a name: a non-empty string of field bytes -/
def tokenOK (s : Bytes) : Bool := !s.isEmpty && s.all isPlain

def int32OK (n : Int) : Bool := decide (-(2 ^ 31 : Int) ≤ n) && decide (n < 2 ^ 31)

/-- no flag kind twice (relative to the flags already in `a`), `encrypt=` values in range -/
def flagsOK : Attribute → List Flag → Bool
  | _, [] => true
  | a, .encrypt n :: fs => a.encrypt.isNone && int32OK n && flagsOK { a with encrypt := some n } fs
  | a, .hasTag :: fs => a.hasTag.isNone && flagsOK { a with hasTag := some true } fs
  | a, .concat :: fs => a.isConcat.isNone && flagsOK { a with isConcat := some true } fs

def AAttr.ok (a : AAttr) : Bool :=
  tokenOK a.name && !a.oid.isEmpty && a.oid.all (fun c => decide (c < 2 ^ 63)) &&
  (match a.size with
   | none => true
   | some n => a.typ == .octets && int32OK n) &&
  flagsOK { name := a.name, oid := a.oid.map Int.ofNat, typ := a.typ, size := a.size } a.flags

def AValue.ok (v : AValue) : Bool := tokenOK v.attr && tokenOK v.name && decide (v.number < 2 ^ 32)

def AVendor.ok (v : AVendor) : Bool :=
  tokenOK v.name && int32OK v.number &&
  (match v.format with
   | none => true
   | some (t, l) => (t == 1 || t == 2 || t == 4) && (l == 0 || l == 1 || l == 2))

/-- the item is well-formed and, for an attribute, its name is new in the scope -/
def itemOK (vb : Option Bytes) (d : Dictionary) : Item → Bool
  | .attr a => a.ok && (attributeByName (scopeAttrs d vb) a.name).isNone
  | .value v => v.ok

def itemsOK (vb : Option Bytes) : Dictionary → List Item → Bool
  | _, [] => true
  | d, i :: is => itemOK vb d i && itemsOK vb (addItem vb d i) is

def declOK (d : Dictionary) : Decl → Bool
  | .item i => itemOK none d i
  | .vendor v => v.ok && (vendorByNameOrNumber d.vendors v.name v.number).isNone
  | .block n items => tokenOK n && (vendorByName d.vendors n).isSome && itemsOK (some n) d items

def wfFrom : Dictionary → AD → Bool
  | _, [] => true
  | d, x :: xs => declOK d x && wfFrom (addDecl d x) xs

/-- every declaration is well-formed where it stands -/
def WF (ad : AD) : Prop := wfFrom {} ad = true

instance (ad : AD) : Decidable (WF ad) := inferInstanceAs (Decidable (_ = true))

/-! ### Spelling of numbers and names -/

/-- decimal digits, most significant first -/
def showDec (n : Nat) : Bytes :=
  if n < 10 then [UInt8.ofNat (48 + n)] else showDec (n / 10) ++ [UInt8.ofNat (48 + n % 10)]
decreasing_by omega

def showInt (i : Int) : Bytes := if i < 0 then 45 :: showDec i.natAbs else showDec i.toNat

def hexDigit (d : Nat) : UInt8 := if d < 10 then UInt8.ofNat (48 + d) else UInt8.ofNat (87 + d)

/-- lower-case hexadecimal digits -/
def showHex (n : Nat) : Bytes :=
  if n < 16 then [hexDigit n] else showHex (n / 16) ++ [hexDigit (n % 16)]
decreasing_by omega

def intercalate (sep : UInt8) : List Bytes → Bytes
  | [] => []
  | [x] => x
  | x :: y :: rest => x ++ sep :: intercalate sep (y :: rest)

def showOID (o : List Nat) : Bytes := intercalate 46 (o.map showDec)

def typeName : AttrType → Bytes
  | .string => nmString | .octets => nmOctets
  | .ipaddr => [105,112,97,100,100,114] | .date => [100,97,116,101] | .integer => [105,110,116,101,103,101,114]
  | .ipv6addr => [105,112,118,54,97,100,100,114] | .ipv6prefix => [105,112,118,54,112,114,101,102,105,120]
  | .ifid => [105,102,105,100] | .integer64 => [105,110,116,101,103,101,114,54,52] | .vsa => [118,115,97]
  | .ether => [101,116,104,101,114] | .abinary => [97,98,105,110,97,114,121] | .byte => [98,121,116,101]
  | .short => [115,104,111,114,116] | .signed => [115,105,103,110,101,100] | .tlv => [116,108,118]
  | .ipv4prefix => [105,112,118,52,112,114,101,102,105,120]

/-- letter case chosen per byte: `true` = upper case (only letters change) -/
def applyCase : List Bool → Bytes → Bytes
  | _, [] => []
  | [], s => s
  | u :: m, c :: s => (if u && 97 ≤ c && c ≤ 122 then c - 32 else c) :: applyCase m s

def typeToken (mask : List Bool) (a : AAttr) : Bytes :=
  match a.size with
  | none => applyCase mask (typeName a.typ)
  | some n => applyCase mask kwOctetsBr ++ showInt n ++ [93]

def flagToken : Flag → Bytes
  | .encrypt n => kwEncrypt ++ showInt n
  | .hasTag => kwHasTag
  | .concat => kwConcat

def attrTokens (mask : List Bool) (a : AAttr) : List Bytes :=
  [kwATTRIBUTE, a.name, showOID a.oid, typeToken mask a] ++
  (if a.flags.isEmpty then [] else [intercalate 44 (a.flags.map flagToken)])

def valueTokens (v : AValue) : List Bytes :=
  [kwVALUE, v.attr, v.name, if v.hex then kw0x ++ showHex v.number else showDec v.number]

def vendorTokens (v : AVendor) : List Bytes :=
  [kwVENDOR, v.name, showInt v.number] ++
  (match v.format with
   | none => []
   | some (t, l) => [kwFormat ++ [UInt8.ofNat (48 + t), 44, UInt8.ofNat (48 + l)]])

/-! ### Lines and layouts -/

/-- the declaration lines of a text -/
inductive ALine where
  | attr (a : AAttr)
  | value (v : AValue)
  | vendor (v : AVendor)
  | beginV (n : Bytes)
  | endV (n : Bytes)
deriving Repr

def Item.line : Item → ALine
  | .attr a => .attr a
  | .value v => .value v

def Decl.lines : Decl → List ALine
  | .item i => [i.line]
  | .vendor v => [.vendor v]
  | .block n items => [.beginV n] ++ items.map Item.line ++ [.endV n]

def flatten (ad : AD) : List ALine := ad.flatMap Decl.lines

def ALine.tokens (mask : List Bool) : ALine → List Bytes
  | .attr a => attrTokens mask a
  | .value v => valueTokens v
  | .vendor v => vendorTokens v
  | .beginV n => [kwBEGIN, n]
  | .endV n => [kwEND, n]

/-- a line that declares nothing: white space, optionally a comment -/
structure Filler where
  ws : Bytes := []
  comment : Option Bytes := none
  crlf : Bool := false
deriving Repr

/-- layout of one declaration line -/
structure LineLayout where
  /-- lines that declare nothing, placed before this line -/
  before : List Filler := []
  lead : Bytes := []
  /-- white space after field `i` (a single blank where the list is too short) -/
  seps : List Bytes := []
  trail : Bytes := []
  comment : Option Bytes := none
  crlf : Bool := false
  /-- letter case of the type name -/
  caseMask : List Bool := []

structure Layout where
  /-- layout of the k-th declaration line -/
  line : Nat → LineLayout := fun _ => {}
  /-- lines that declare nothing, after the last declaration -/
  after : List Filler := []
  finalNewline : Bool := true

def commentPart : Option Bytes → Bytes
  | none => []
  | some c => 35 :: c

def Filler.content (f : Filler) : Bytes := f.ws ++ commentPart f.comment

def joinFields (seps : Nat → Bytes) : Nat → List Bytes → Bytes
  | _, [] => []
  | _, [t] => t
  | i, t :: u :: ts => t ++ seps i ++ joinFields seps (i + 1) (u :: ts)

def LineLayout.sep (ll : LineLayout) (i : Nat) : Bytes := ll.seps.getD i [32]

def LineLayout.content (ll : LineLayout) (toks : List Bytes) : Bytes :=
  ll.lead ++ joinFields ll.sep 0 toks ++ ll.trail ++ commentPart ll.comment

/-- physical lines (content, terminated by CRLF?) of the declaration lines from index `k` on -/
def physFrom (ℓ : Layout) : Nat → List ALine → List (Bytes × Bool)
  | _, [] => ℓ.after.map fun f => (f.content, f.crlf)
  | k, l :: ls =>
    let ll := ℓ.line k
    ll.before.map (fun f => (f.content, f.crlf)) ++ (ll.content (l.tokens ll.caseMask), ll.crlf) :: physFrom ℓ (k + 1) ls

def physLines (ℓ : Layout) (ad : AD) : List (Bytes × Bool) := physFrom ℓ 0 (flatten ad)

def eol (crlf : Bool) : Bytes := if crlf then [13, 10] else [10]

/-- the text: every line with its terminator, except that the last line has none when `final = false` -/
def joinPhys : List (Bytes × Bool) → Bool → Bytes
  | [], _ => []
  | [p], final => if final then p.1 ++ eol p.2 else p.1
  | p :: q :: rest, final => p.1 ++ eol p.2 ++ joinPhys (q :: rest) final

def render (ℓ : Layout) (ad : AD) : Bytes := joinPhys (physLines ℓ ad) ℓ.finalNewline

/-! ### Well-formed layouts -/

def blanks (w : Bytes) : Bool := w.all isBlank
def commentOK : Option Bytes → Bool
  | none => true
  | some c => c.all fun b => b != 10 && b != 13

def Filler.ok (f : Filler) : Bool := blanks f.ws && commentOK f.comment
def LineLayout.ok (ll : LineLayout) : Bool :=
  ll.before.all Filler.ok && blanks ll.lead && blanks ll.trail && commentOK ll.comment &&
  ll.seps.all fun w => blanks w && !w.isEmpty

def layoutOKFrom (ℓ : Layout) : Nat → List ALine → Bool
  | _, [] => ℓ.after.all Filler.ok
  | k, _ :: ls => (ℓ.line k).ok && layoutOKFrom ℓ (k + 1) ls

/-- white-space runs are blanks/tabs, separators non-empty, comments free of CR and LF; every
    physical line (with a CR) is shorter than bufio's 64 KiB token limit; and if the final newline
    is omitted the last physical line is not empty (an empty last line without terminator is no line) -/
def LayoutOK (ℓ : Layout) (ad : AD) : Prop :=
  layoutOKFrom ℓ 0 (flatten ad) = true ∧
  (∀ p ∈ physLines ℓ ad, p.1.length + 1 < Lex.maxTokenSize) ∧
  (ℓ.finalNewline = false → ∀ p, (physLines ℓ ad).getLast? = some p → p.1 ≠ [])

/-- no whitespace-only line and no indented comment line (a filler is empty or starts with `#`) -/
def Filler.flush (f : Filler) : Bool := f.ws.isEmpty
def noIndentFrom (ℓ : Layout) : Nat → List ALine → Bool
  | _, [] => ℓ.after.all Filler.flush
  | k, _ :: ls => (ℓ.line k).before.all Filler.flush && noIndentFrom ℓ (k + 1) ls
def NoIndentedFillers (ℓ : Layout) (ad : AD) : Prop := noIndentFrom ℓ 0 (flatten ad) = true

/-! ### Declaration lines as a state machine (used to talk about texts that stop in the middle of a
    dictionary: the well-formed lines before a fault) -/

/-- the tokens of the line are well-formed -/
def lineOK : ALine → Bool
  | .attr a => a.ok
  | .value v => v.ok
  | .vendor v => v.ok
  | .beginV n => tokenOK n
  | .endV n => tokenOK n


/-- what a declaration line does to (open vendor block, dictionary) -/
def applyLine (s : Option Bytes × Dictionary) : ALine → Option Bytes × Dictionary
  | .attr a => (s.1, addAttr s.2 a.toAttribute s.1)
  | .value v => (s.1, addValue s.2 v.toValue s.1)
  | .vendor v => (s.1, { s.2 with vendors := s.2.vendors ++ [v.toVendor] })
  | .beginV n => (some n, s.2)
  | .endV _ => (none, s.2)

/-- the line is well-formed where it stands -/
def stepOK (s : Option Bytes × Dictionary) : ALine → Bool
  | .attr a => a.ok && (attributeByName (scopeAttrs s.2 s.1) a.name).isNone
  | .value v => v.ok
  | .vendor v => v.ok && (vendorByNameOrNumber s.2.vendors v.name v.number).isNone
  | .beginV n => tokenOK n && s.1.isNone && (vendorByName s.2.vendors n).isSome
  | .endV n => tokenOK n && s.1 == some n

def linesOK : Option Bytes × Dictionary → List ALine → Bool
  | _, [] => true
  | s, l :: ls => stepOK s l && linesOK (applyLine s l) ls


/-- the state (open vendor block, dictionary) after the lines -/
def stateAfter (ls : List ALine) : Option Bytes × Dictionary := ls.foldl applyLine (none, {})

/-- the text of the lines, every line terminated -/
def textOfLines (ℓ : Layout) (ls : List ALine) : Bytes := joinPhys (physFrom ℓ 0 ls) true

end RV.DictParser.Spec
