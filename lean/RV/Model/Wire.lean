/-
  Model of packet.go (Parse, MarshalBinary) and attributes.go (ParseAttributes, Add/Del/Get/Lookup/Set,
  encodeTo, AttributesEncodedLen).  Control structure mirrors the Go code: same guards, same loop
  shape (index walks with in-place removal), same order of checks.

  Outcomes are three-valued: `ok v`, `err` (the Go function returned an error) and `fault`
  (the Go function would have panicked: index or slice out of range).
-/
import RV.Model.Bytes
namespace RV

inductive Res (α : Type) where
  | ok (a : α)
  | err
  | fault
deriving Repr, DecidableEq

namespace Res
def bind {α β} (x : Res α) (f : α → Res β) : Res β :=
  match x with
  | ok a => f a
  | err => err
  | fault => fault
instance : Monad Res where
  pure := ok
  bind := bind
def isOk {α} : Res α → Bool
  | ok _ => true
  | _ => false
end Res

/-- attribute-value pair; `typ` is Go's `Type int`, so out-of-range values exist -/
structure AVP where
  typ : Int
  val : Bytes
deriving Repr, DecidableEq

abbrev Attrs := List AVP

/-- packet.go: MaxPacketLength.  The four limits below are re-probed from the code on every run
    (`RV.Facts.Generated`) and tied to these constants in `RV.Facts.Tie`. -/
abbrev maxPacketLength : Nat := 4096
/-- packet.go: header size / smallest acceptable datagram and Length field -/
abbrev minPacketLength : Nat := 20
/-- attributes.go: largest attribute value -/
abbrev maxAttrValue : Nat := 253
/-- attributes.go: smallest attribute length octet -/
abbrev minAttrLength : Nat := 2

structure Packet where
  code : Int
  id : UInt8
  auth : Bytes          -- always 16 bytes in Go ([16]byte)
  secret : Bytes
  attrs : Attrs
deriving Repr, DecidableEq

/-! ### attributes.go: ParseAttributes -/

/-- `for len(b) > 0 { if len(b) < 2 {err}; length := b[1]; if length > len(b) || length < 2 {err};
    value := b[2:length]; b = b[length:] }` -/
def parseAttrs : Bytes → Res Attrs
  | [] => .ok []
  | [_] => .err
  | t :: l :: rest =>
    if l.toNat < minAttrLength ∨ l.toNat - 2 > rest.length then .err
    else
      match parseAttrs (rest.drop (l.toNat - 2)) with
      | .ok as => .ok (⟨t.toNat, rest.take (l.toNat - 2)⟩ :: as)
      | .err => .err
      | .fault => .fault
termination_by b => b.length
decreasing_by simp; omega

/-! ### packet.go: Parse -/

def lengthField (b : Bytes) : Nat := be16 (b.getD 2 0) (b.getD 3 0)

def parse (b secret : Bytes) : Res Packet :=
  if b.length < minPacketLength then .err
  else
    let length := lengthField b
    if length < minPacketLength ∨ length > maxPacketLength ∨ b.length < length then .err
    else
      match parseAttrs ((b.take length).drop 20) with
      | .ok as => .ok ⟨(b.getD 0 0).toNat, b.getD 1 0, (b.drop 4).take 16, secret, as⟩
      | .err => .err
      | .fault => .fault

/-! ### attributes.go: AttributesEncodedLen / encodeTo -/

def validType (a : AVP) : Bool := decide (0 ≤ a.typ) && decide (a.typ ≤ 255)

/-- left-to-right accumulation; error at the first over-long value of a valid type -/
def encodedLenFrom (n : Nat) : Attrs → Res Nat
  | [] => .ok n
  | a :: as =>
    if !validType a then encodedLenFrom n as
    else if a.val.length > maxAttrValue then .err
    else encodedLenFrom (n + (2 + a.val.length)) as

def encodedLen (as : Attrs) : Res Nat := encodedLenFrom 0 as

/-- bytes of one attribute on the wire -/
def avpBytes (a : AVP) : Bytes :=
  UInt8.ofNat a.typ.toNat :: UInt8.ofNat (2 + a.val.length) :: a.val

/-- `encodeTo` over a buffer in checked-slice semantics: `b[0]`, `b[1]` fault when the buffer is
    shorter than 2, `copy` silently truncates, `b = b[size:]` faults when `size > len(b)`.
    Returns the buffer after the writes. -/
def encodeTo : Attrs → Bytes → Res Bytes
  | [], buf => .ok buf
  | a :: as, buf =>
    if !validType a || decide (a.val.length > maxAttrValue) then encodeTo as buf
    else
      let size := 2 + a.val.length
      if buf.length < size then .fault
      else
        match encodeTo as (buf.drop size) with
        | .ok rest => .ok (avpBytes a ++ rest)
        | .err => .err
        | .fault => .fault

/-- what a correct encoder writes: valid-type attributes in list order -/
def encodeBytes : Attrs → Bytes
  | [] => []
  | a :: as => if validType a then avpBytes a ++ encodeBytes as else encodeBytes as

/-! ### packet.go: MarshalBinary -/

def codeByte (c : Int) : UInt8 := UInt8.ofNat (c % 256).toNat

def header (code : Int) (id : UInt8) (size : Nat) (auth : Bytes) : Bytes :=
  [codeByte code, id, UInt8.ofNat (size / 256), UInt8.ofNat (size % 256)] ++ auth

def marshal (p : Packet) : Res Bytes :=
  match encodedLen p.attrs with
  | .ok n =>
    let size := 20 + n
    if size > maxPacketLength then .err
    else
      match encodeTo p.attrs (zeros n) with
      | .ok body => .ok (header p.code p.id size p.auth ++ body)
      | .err => .err
      | .fault => .fault
  | .err => .err
  | .fault => .fault

/-! ### attributes.go: Add / Del / Get / Lookup / Set as the Go loops -/

def Attrs.add (as : Attrs) (k : Int) (v : Bytes) : Attrs := as ++ [⟨k, v⟩]

/-- `for i := 0; i < len(a); { if a[i].Type == key { a = append(a[:i], a[i+1:]...) } else { i++ } }` -/
def delLoop (k : Int) (as : Attrs) (i : Nat) : Attrs :=
  if h : i < as.length then
    if as[i].typ = k then delLoop k (as.eraseIdx i) i
    else delLoop k as (i + 1)
  else as
termination_by as.length - i
decreasing_by
  · simp [List.length_eraseIdx, h]; omega
  · omega

def Attrs.del (as : Attrs) (k : Int) : Attrs := delLoop k as 0

def Attrs.lookup : Attrs → Int → Option Bytes
  | [], _ => none
  | a :: as, k => if a.typ = k then some a.val else Attrs.lookup as k

/-- Get returns nil (= empty) when absent -/
def Attrs.get (as : Attrs) (k : Int) : Bytes := (as.lookup k).getD []

/-- the Set loop: first match replaced, later matches removed in place -/
def setLoop (k : Int) (v : Bytes) (as : Attrs) (i : Nat) (found : Bool) : Attrs × Bool :=
  if h : i < as.length then
    if as[i].typ = k then
      if found then setLoop k v (as.eraseIdx i) i found
      else setLoop k v (as.set i ⟨k, v⟩) (i + 1) true
    else setLoop k v as (i + 1) found
  else (as, found)
termination_by as.length - i
decreasing_by
  · simp [List.length_eraseIdx, h]; omega
  · simp; omega
  · omega

def Attrs.set (as : Attrs) (k : Int) (v : Bytes) : Attrs :=
  let (as', found) := setLoop k v as 0 false
  if found then as' else as'.add k v

/-! ### Specification side (ordered multimap) -/

def Spec.del (as : Attrs) (k : Int) : Attrs := as.filter (fun a => a.typ ≠ k)

/-- replace the first occurrence, drop the others, append when absent -/
def Spec.setAux (k : Int) (v : Bytes) : Attrs → Attrs
  | [] => []
  | a :: as => if a.typ = k then ⟨k, v⟩ :: as.filter (fun a => a.typ ≠ k) else a :: Spec.setAux k v as

def Spec.set (as : Attrs) (k : Int) (v : Bytes) : Attrs :=
  if as.any (fun a => a.typ = k) then Spec.setAux k v as else as ++ [⟨k, v⟩]

/-- gap-free TLV region: declarative well-formedness used by the acceptance theorem -/
inductive WellFormedTLV : Bytes → Prop where
  | nil : WellFormedTLV []
  | cons (t l : UInt8) (v rest : Bytes) :
      2 ≤ l.toNat → v.length = l.toNat - 2 → WellFormedTLV rest → WellFormedTLV (t :: l :: (v ++ rest))

/-- executable version of `WellFormedTLV` for the driver's oracle -/
def wellFormedTLV : Bytes → Bool
  | [] => true
  | [_] => false
  | _ :: l :: rest =>
    if l.toNat < 2 ∨ l.toNat - 2 > rest.length then false
    else wellFormedTLV (rest.drop (l.toNat - 2))
termination_by b => b.length
decreasing_by simp; omega

end RV
