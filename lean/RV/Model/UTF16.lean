/-
  UTF-8 → UTF-16LE.

  `decode1` is the syntax of RFC 3629 §4 (UTF8-1 … UTF8-4 with the restricted second octets after
  E0, ED, F0, F4: no over-long forms, no surrogates, nothing above U+10FFFF).

  * `Spec.utf16le?`  — the specification: defined only for valid UTF-8; each scalar is encoded per
    RFC 2781 §2.1, each 16-bit unit low octet first.
  * `goEncodeLE`     — what `unicode.UTF16(LittleEndian, IgnoreBOM).NewEncoder().Bytes` of
    golang.org/x/text v0.13.0 does (probed on the real code): it never fails; every octet that does
    not start a valid sequence (`utf8.DecodeRune` ⇒ `(RuneError, 1)`) becomes U+FFFD and the scan
    advances by ONE octet; no BOM is written and U+FEFF in the input is encoded like any scalar.
-/
import RV.Model.Bytes
namespace RV.UTF16

def isTail (b : UInt8) : Bool := 0x80 ≤ b && b ≤ 0xBF

/-- permitted range of the second octet after lead octet `b0` of a 3- or 4-octet sequence -/
def second (b0 : UInt8) : UInt8 × UInt8 :=
  if b0 = 0xE0 then (0xA0, 0xBF)
  else if b0 = 0xED then (0x80, 0x9F)
  else if b0 = 0xF0 then (0x90, 0xBF)
  else if b0 = 0xF4 then (0x80, 0x8F)
  else (0x80, 0xBF)

/-- RFC 3629 §4: the first scalar value of `b` and the remaining octets; `none` if `b` does not
    start with a well-formed sequence -/
def decode1 : Bytes → Option (Nat × Bytes)
  | [] => none
  | b0 :: rest =>
    if b0 ≤ 0x7F then some (b0.toNat, rest)
    else if 0xC2 ≤ b0 ∧ b0 ≤ 0xDF then
      match rest with
      | b1 :: rest =>
        if isTail b1 then some ((b0.toNat - 0xC0) * 64 + (b1.toNat - 0x80), rest) else none
      | _ => none
    else if 0xE0 ≤ b0 ∧ b0 ≤ 0xEF then
      match rest with
      | b1 :: b2 :: rest =>
        if (second b0).1 ≤ b1 ∧ b1 ≤ (second b0).2 ∧ isTail b2 then
          some ((b0.toNat - 0xE0) * 4096 + (b1.toNat - 0x80) * 64 + (b2.toNat - 0x80), rest)
        else none
      | _ => none
    else if 0xF0 ≤ b0 ∧ b0 ≤ 0xF4 then
      match rest with
      | b1 :: b2 :: b3 :: rest =>
        if (second b0).1 ≤ b1 ∧ b1 ≤ (second b0).2 ∧ isTail b2 ∧ isTail b3 then
          some ((b0.toNat - 0xF0) * 262144 + (b1.toNat - 0x80) * 4096 + (b2.toNat - 0x80) * 64
                + (b3.toNat - 0x80), rest)
        else none
      | _ => none
    else none

/-- a 16-bit unit, low octet first -/
def le16 (w : Nat) : Bytes := [UInt8.ofNat (w % 256), UInt8.ofNat (w / 256)]

namespace Spec

/-- the scalar values of a valid UTF-8 string (`fuel ≥ length` suffices) -/
def scalars? : Nat → Bytes → Option (List Nat)
  | _, [] => some []
  | 0, _ :: _ => none
  | fuel+1, b0 :: rest =>
    match decode1 (b0 :: rest) with
    | some (u, rest') =>
      match scalars? fuel rest' with
      | some us => some (u :: us)
      | none => none
    | none => none

/-- RFC 2781 §2.1: U < 0x10000 ⇒ one unit; otherwise U' = U − 0x10000 (20 bits), W1 = 0xD800 + the
    10 high-order bits of U', W2 = 0xDC00 + the 10 low-order bits -/
def units (u : Nat) : List Nat :=
  if u < 0x10000 then [u]
  else
    let u' := u - 0x10000
    [0xD800 + u' / 1024 % 1024, 0xDC00 + u' % 1024]

def encodeLE (us : List Nat) : Bytes := us.flatMap fun u => (units u).flatMap le16

/-- UTF-16LE form of a valid UTF-8 string; `none` for invalid UTF-8 -/
def utf16le? (b : Bytes) : Option Bytes := (scalars? b.length b).map encodeLE

def validUTF8 (b : Bytes) : Bool := (scalars? b.length b).isSome

end Spec

/-- the runes the Go encoder sees: invalid octet ⇒ U+FFFD, advance by one -/
def goRunes : Nat → Bytes → List Nat
  | _, [] => []
  | 0, _ :: _ => []
  | fuel+1, b0 :: rest =>
    match decode1 (b0 :: rest) with
    | some (r, rest') => r :: goRunes fuel rest'
    | none => 0xFFFD :: goRunes fuel rest

/-- the Go encoder's per-rune output (big-endian in the library, swapped at the end; here LE directly):
    `r <= 0xffff` ⇒ one unit, else `utf16.EncodeRune`: `r -= 0x10000; 0xd800 + (r>>10)&0x3ff, 0xdc00 + r&0x3ff` -/
def goUnits (r : Nat) : List Nat :=
  if r ≤ 0xffff then [r]
  else
    let r' := r - 0x10000
    [0xd800 + ((r' >>> 10) &&& 0x3ff), 0xdc00 + (r' &&& 0x3ff)]

def goEncodeLE (b : Bytes) : Bytes := (goRunes b.length b).flatMap fun r => (goUnits r).flatMap le16

end RV.UTF16
