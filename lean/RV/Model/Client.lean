/-
  Model of client.go: `(*Client).Exchange`.

  Part 1 (`RV.Client`, property C05): the receive loop of client.go:97-129 as a fold over the
  history of datagrams that `conn.Read` delivers, with the error counter, in the code's own order of
  checks (Parse first; then IsAuthenticResponse on the *datagram bytes* unless InsecureSkipVerify; the
  budget test `MaxPacketErrors > 0 && packetErrorCount >= MaxPacketErrors` after the increment, written
  out once per branch as in the code).

  Part 2 (`RV.Exchange`, property C08): the whole call as an event-driven logic machine
  (dial, first write, retransmission helper, context, read completions, deferred clean-up) built on the
  same per-datagram step.

  Core Lean only.  The hash is a parameter `H` (the driver instantiates MD5).

  Go facts mirrored here and validated by the correspondence run, not proved:
    * `var incoming [MaxPacketLength]byte; n, err := conn.Read(incoming[:])` on a UDP socket delivers
      the first 4096 bytes of a longer datagram and silently drops the rest (`readBuf`);
    * `packetErrorCount` is a Go `int`; the model uses `Int` (no wrap-around after 2^63 datagrams).
-/
import RV.Model.Auth
namespace RV.Client

/-- the two `Client` fields the receive loop consults -/
structure Cfg where
  /-- `MaxPacketErrors` (Go `int`; zero and negative values exist) -/
  maxErrors : Int
  /-- `InsecureSkipVerify` -/
  skipVerify : Bool
deriving Repr, DecidableEq

/-- which error a skipped datagram stands for: the error `Parse` returned, or
    `*NonAuthenticResponseError` -/
inductive ErrClass where
  | parseErr
  | nonAuthentic
deriving Repr, DecidableEq

/-- what the loop has done after consuming a history of datagrams: returned the parse of datagram
    `i`, returned datagram `i`'s error, or is blocked in `conn.Read` again -/
inductive Outcome where
  | returned (i : Nat) (p : Packet)
  | failed (i : Nat) (e : ErrClass)
  | waiting
deriving Repr, DecidableEq

/-- `conn.Read(incoming[:])` with `incoming [4096]byte`: what the loop sees of a datagram -/
def readBuf (d : Bytes) : Bytes := d.take maxPacketLength

/-- `c.MaxPacketErrors > 0 && packetErrorCount >= c.MaxPacketErrors` -/
def budgetReached (cfg : Cfg) (count : Int) : Bool :=
  decide (cfg.maxErrors > 0) && decide (count ≥ cfg.maxErrors)

/-- result of one loop iteration on a successfully read datagram -/
inductive Step where
  | ret (p : Packet)            -- `return received, nil`
  | fail (e : ErrClass)         -- `return nil, err` / `return nil, &NonAuthenticResponseError{}`
  | cont (count : Int)          -- `continue` with the incremented counter
deriving Repr, DecidableEq

/-- one iteration of the `for` loop body after a successful `conn.Read` (client.go:111-128).
    `Parse` cannot panic (`RV.parse_ne_fault`); the `fault` arm is written like the error arm only to
    keep the function total. -/
def stepDatagram (H : Hash) (cfg : Cfg) (wire secret : Bytes) (count : Int) (d : Bytes) : Step :=
  let b := readBuf d
  match parse b secret with
  | .ok received =>
    if !cfg.skipVerify && !isAuthenticResponse H b wire secret then
      let count := count + 1
      if budgetReached cfg count then .fail .nonAuthentic else .cont count
    else .ret received
  | _ =>
    let count := count + 1
    if budgetReached cfg count then .fail .parseErr else .cont count

/-- the loop from datagram number `i` with `count` errors so far -/
def recvLoopFrom (H : Hash) (cfg : Cfg) (wire secret : Bytes) : Nat → Int → List Bytes → Outcome
  | _, _, [] => .waiting
  | i, count, d :: ds =>
    match stepDatagram H cfg wire secret count d with
    | .ret p => .returned i p
    | .fail e => .failed i e
    | .cont count' => recvLoopFrom H cfg wire secret (i + 1) count' ds

/-- client.go:97-129 over the history of datagrams read so far -/
def recvLoop (H : Hash) (cfg : Cfg) (wire secret : Bytes) (hist : List Bytes) : Outcome :=
  recvLoopFrom H cfg wire secret 0 0 hist

/-! ### Specification side (C05), independent of the loop -/
namespace Spec

/-- the datagram (as read) parses and carries a valid response authenticator for the request actually
    sent (`wire`) and the packet's secret — or verification is explicitly disabled -/
def acceptable (H : Hash) (cfg : Cfg) (wire secret d : Bytes) : Bool :=
  (parse (readBuf d) secret).isOk &&
    (cfg.skipVerify || isAuthenticResponse H (readBuf d) wire secret)

/-- the error an unacceptable datagram stands for -/
def errClass (secret d : Bytes) : ErrClass :=
  if (parse (readBuf d) secret).isOk then .nonAuthentic else .parseErr

/-- number of leading unacceptable datagrams = index of the first acceptable one (or the length) -/
def leadingBad (H : Hash) (cfg : Cfg) (wire secret : Bytes) (hist : List Bytes) : Nat :=
  (hist.takeWhile (fun d => !acceptable H cfg wire secret d)).length

/-- the outcome the property demands, written without the loop.  Every datagram before the first
    acceptable one is unacceptable, so the `maxErrors`-th unacceptable datagram preceding it (if any)
    is datagram number `maxErrors - 1`: fail there, with that datagram's error, when the budget is
    positive; otherwise return the parse of the first acceptable datagram; otherwise keep waiting. -/
def outcome (H : Hash) (cfg : Cfg) (wire secret : Bytes) (hist : List Bytes) : Outcome :=
  let n := leadingBad H cfg wire secret hist
  if cfg.maxErrors > 0 ∧ cfg.maxErrors ≤ n then
    .failed (cfg.maxErrors.toNat - 1) (errClass secret (hist.getD (cfg.maxErrors.toNat - 1) []))
  else
    match hist[n]? with
    | some d =>
      match parse (readBuf d) secret with
      | .ok p => .returned n p
      | _ => .waiting          -- unreachable: `hist[n]` is acceptable, hence parses
    | none => .waiting

end Spec
end RV.Client

/-! ## C08: the Exchange call as a logic machine -/
namespace RV.Exchange
open RV.Client

/-- how `Exchange` can return -/
inductive Result where
  | reply (p : Packet)          -- `return received, nil`
  | encodeErr                   -- `packet.Encode()` failed (before dialing)
  | ctxErr                      -- `return nil, ctx.Err()` (context.Canceled / DeadlineExceeded: the context's own error)
  | dialErr                     -- the error of `DialContext`
  | netErr                      -- the error of `conn.Read`
  | pktErr (e : ErrClass)       -- parse error / NonAuthenticResponseError once the budget is reached
deriving Repr, DecidableEq

inductive Phase where
  | dialing                     -- inside `c.Dialer.DialContext`
  | waiting                     -- in the receive loop (blocked in `conn.Read` between events)
  | returned (r : Result)
deriving Repr, DecidableEq

/-- things that happen to a running call -/
inductive Event where
  | dialOk                      -- DialContext returned a conn
  | dialFail                    -- DialContext returned an error
  | tick                        -- the retry ticker fires and the helper's `select` takes that case
  | ctxDone                     -- the caller's context is cancelled or its deadline passes
  | datagram (d : Bytes)        -- `conn.Read` completes with a datagram
  | readError                   -- `conn.Read` completes with an error (ICMP, closed conn, …)
  | helperObservesCtx           -- the helper's `select` takes `<-ctx.Done()`: it closes the conn and exits
deriving Repr, DecidableEq

/-- the call's parameters -/
structure Params where
  cfg : Cfg
  /-- `Client.Retry` (a duration; only its sign matters to the logic) -/
  retry : Int
  /-- `packet.Encode()`: the bytes, or the refusal -/
  wire : Res Bytes
  secret : Bytes

structure State where
  phase : Phase
  /-- every `conn.Write` argument so far, in order -/
  sent : List Bytes
  /-- this call holds no open socket (true before the dial and after every close) -/
  connClosed : Bool
  /-- the retransmission goroutine has been started and has not returned -/
  helperAlive : Bool
  /-- the caller's context is done -/
  ctxDone : Bool
  /-- `packetErrorCount` -/
  errCount : Int
deriving Repr, DecidableEq

/-- the parameters of the call `c.Exchange(ctx, pk, addr)`: the wire bytes are `pk.Encode()` (client.go:51), the
    secret is `pk.Secret` (client.go:102, :120) - this is how the drivers of C05 and C08 build them -/
def Params.ofPacket (H : Hash) (cfg : Cfg) (retry : Int) (pk : Packet) : Params := ⟨cfg, retry, encode H pk, pk.secret⟩

/-- the bytes `Encode` produced (`[]` when it refused; then nothing is ever written) -/
def Params.wireBytes (P : Params) : Bytes :=
  match P.wire with
  | .ok w => w
  | _ => []

/-- client.go:51-54: an Encode error returns before anything else happens -/
def init (P : Params) : State :=
  match P.wire with
  | .ok _ => { phase := .dialing, sent := [], connClosed := true, helperAlive := false, ctxDone := false, errCount := 0 }
  | _ => { phase := .returned .encodeErr, sent := [], connClosed := true, helperAlive := false, ctxDone := false, errCount := 0 }

/-- the context the helper selects on is the derived one (`context.WithCancel(ctx)` + `defer cancel()`):
    done when the caller's context is done or when `Exchange` has returned -/
def helperCtxDone (s : State) : Bool :=
  s.ctxDone || (match s.phase with | .returned _ => true | _ => false)

/-- return from the receive loop: the deferred `retry.Stop()`, `cancel()`, `conn.Close()` run -/
def finish (s : State) (r : Result) : State :=
  { s with phase := .returned r, connClosed := true }

def step (H : Hash) (P : Params) (s : State) (e : Event) : State :=
  match s.phase with
  | .dialing =>
    match e with
    | .dialOk =>
      -- `defer conn.Close(); conn.Write(wire)`; then the derived context, the ticker (only if
      -- `c.Retry > 0`) and `go func() {…}()`
      { s with phase := .waiting, sent := s.sent ++ [P.wireBytes], connClosed := false, helperAlive := true }
    | .dialFail =>
      -- `select { case <-ctx.Done(): return nil, ctx.Err(); default: }; return nil, err`
      { s with phase := .returned (if s.ctxDone then .ctxErr else .dialErr) }
    | .ctxDone => { s with ctxDone := true }
    | _ => s            -- no conn, no ticker, no helper yet: these events cannot occur
  | .waiting =>
    match e with
    | .tick =>
      -- helper: `case <-retryTimer: conn.Write(wire)`; `retryTimer` is nil unless `c.Retry > 0`
      if P.retry > 0 ∧ s.helperAlive = true then { s with sent := s.sent ++ [P.wireBytes] } else s
    | .ctxDone => { s with ctxDone := true }
    | .helperObservesCtx =>
      -- helper: `case <-ctx.Done(): return` with `defer conn.Close()`
      if s.helperAlive = true ∧ helperCtxDone s = true then { s with helperAlive := false, connClosed := true } else s
    | .datagram d =>
      -- a Read on a closed conn does not deliver datagrams
      if s.connClosed then s else
      match stepDatagram H P.cfg P.wireBytes P.secret s.errCount d with
      | .ret p => finish s (.reply p)
      | .fail err => finish s (.pktErr err)
      | .cont c => { s with errCount := c }
    | .readError =>
      -- `select { case <-ctx.Done(): return nil, ctx.Err(); default: }; return nil, err`
      finish s (if s.ctxDone then .ctxErr else .netErr)
    | _ => s
  | .returned _ =>
    match e with
    | .ctxDone => { s with ctxDone := true }
    | .helperObservesCtx =>
      -- the deferred `cancel()` has run, so the helper's `<-ctx.Done()` is ready
      if s.helperAlive = true then { s with helperAlive := false, connClosed := true } else s
    -- a tick the helper still takes after the return writes to a conn that the deferred
    -- `conn.Close()` has closed: nothing is sent.  No Read is outstanding.
    | _ => s

def run (H : Hash) (P : Params) (s : State) (evs : List Event) : State :=
  evs.foldl (step H P) s

/-- every state the call can be in: the initial state followed by any event sequence -/
def reach (H : Hash) (P : Params) (evs : List Event) : State := run H P (init P) evs

def isReturned (s : State) : Bool :=
  match s.phase with
  | .returned _ => true
  | _ => false

/-! ### Observation used by C05 at machine level -/

/-- the datagram (if any) that event `e` makes `conn.Read` deliver to the receive loop in state `s`:
    a `datagram` event counts when the call is in the receive loop and its conn is open (every other
    `datagram` event is a no-op of `step`: nothing is read before the dial, on a closed conn, or after
    the return) -/
def deliveredBy (s : State) (e : Event) : List Bytes :=
  match e with
  | .datagram d => if s.phase = .waiting ∧ s.connClosed = false then [d] else []
  | _ => []

/-- the datagrams read by the receive loop, in order, during the run `evs` from `s` -/
def deliveredFrom (H : Hash) (P : Params) (s : State) : List Event → List Bytes
  | [] => []
  | e :: es => deliveredBy s e ++ deliveredFrom H P (step H P s e) es

/-- … during a whole call -/
def delivered (H : Hash) (P : Params) (evs : List Event) : List Bytes :=
  deliveredFrom H P (init P) evs

/-- the phase a call is in when its receive loop has produced outcome `o` -/
def phaseOf : Outcome → Phase
  | .returned _ p => .returned (.reply p)
  | .failed _ e => .returned (.pktErr e)
  | .waiting => .waiting

end RV.Exchange
