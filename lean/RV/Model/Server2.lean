/-
  The read loop of `PacketServer.Serve` at the granularity of the code (second audit of C07).

  `RV.Model.Server`'s label `serveRecv` takes three code steps at once:
      n, remoteAddr, err := conn.ReadFrom(buff[:])       server-packet.go:133   (returns a datagram)
      s.activeAdd()                                       :146
      go func(buff, remoteAddr) {…}(copy, remoteAddr)     :147
  A Shutdown (or anything else) can run between the first and the second.  Here they are two labels:

    `serveRead i peer d`  — `ReadFrom` of Serve call `i` returned datagram `d` from `peer`; the Serve
                            call now HOLDS it (`St2.held`), it is no longer blocked in `ReadFrom`;
    `serveSpawn i`        — `activeAdd` + `go` for the datagram it holds (`RV.Server.spawn`, the same
                            function the coarse machine uses); back to `ReadFrom`.

  `serveSpawn` has NO guard beyond "holds a datagram": the code tests nothing between :133 and :147, in
  particular not `shutdownRequested` and not whether the conn has been closed.  Every other step is the
  coarse machine's (`Label2.base`), except that the steps of the read loop of a Serve call
  (`serveRecv`, `serveReadErr`, `serveReadFail`: "`ReadFrom` of `i` returns") are not enabled while that
  call holds a datagram — it is not in `ReadFrom` then.  `base (.serveRecv ..)` is the adjacent pair.

  What makes the late `activeAdd` of `serveSpawn` safe is that the Serve call itself is counted in
  `activeCount` from its registration (under `s.mu`) until its deferred cleanup, so `lastActive` cannot
  be closed while it holds a datagram: `RV.C07.spawn_after_shutdown_is_counted`.  The two variant
  machines at the end (`step2NoSelfCount`, `step2LateAdd`) are NEGATIVE CONTROLS: with the count of
  the Serve call removed, or with `activeAdd` moved into the goroutine, "Shutdown returned nil, then a
  handler starts" is reachable.
-/
import RV.Model.Server
namespace RV.Server

structure St2 where
  base : St
  /-- per Serve call: the datagram `ReadFrom` has returned (source, octets) that has not yet been handed
      to a goroutine -/
  held : List (Option (Nat × Bytes)) := []
deriving Repr

/-- the datagram Serve call `i` holds between `ReadFrom` and `go` -/
def St2.holds (s : St2) (i : Nat) : Option (Nat × Bytes) := s.held.getD i none

inductive Label2 where
  | serveRead (i peer : Nat) (d : Bytes)   -- `ReadFrom` returned a datagram (server-packet.go:133)
  | serveSpawn (i : Nat)                   -- `s.activeAdd(); go func…` (:146-147)
  | base (l : Label)                       -- any step of the coarse machine
deriving DecidableEq, Repr

/-- the Serve call whose `ReadFrom` returns in a step of the coarse machine -/
def Label.readLoopOf : Label → Option Nat
  | .serveRecv i _ _ | .serveReadErr i | .serveReadFail i _ => some i
  | _ => none

def initWith2 (conns : List Nat) (nDowns : Nat) : St2 :=
  { base := initWith conns nDowns, held := List.replicate conns.length none }

/-- one step of the fine machine; `none` = not enabled -/
def step2 (H : Hash) (cfg : Cfg) (s : St2) : Label2 → Option St2
  | .serveRead i peer d =>
    match s.base.serves[i]?, s.holds i with
    | some .running, none =>
      -- a closed conn delivers no datagram
      if s.base.connClosed.getD (s.base.connOf.getD i 0) 0 > 0 then none
      else some { s with held := s.held.set i (some (peer, d)) }
    | _, _ => none
  | .serveSpawn i =>
    match s.holds i with
    | some (peer, d) => some { base := spawn H cfg s.base i peer d, held := s.held.set i none }
    | none => none
  | .base l =>
    match l.readLoopOf with
    | some i =>
      -- `ReadFrom` of Serve call `i` can return only while `i` is in `ReadFrom`
      if (s.holds i).isSome then none
      else (step H cfg s.base l).map fun b => { s with base := b }
    | none => (step H cfg s.base l).map fun b => { s with base := b }

/-- run a schedule of the fine machine; labels that are not enabled are skipped -/
def run2 (H : Hash) (cfg : Cfg) (s : St2) : List Label2 → St2
  | [] => s
  | l :: ls => match step2 H cfg s l with
    | some s' => run2 H cfg s' ls
    | none => run2 H cfg s ls

/-- number of Serve calls that hold a datagram -/
def heldCount (s : St2) : Nat := (s.held.filter Option.isSome).length

/-- a schedule of the coarse machine as a schedule of the fine one: `serveRecv` becomes the adjacent
    pair `serveRead`, `serveSpawn` -/
def refine : List Label → List Label2
  | [] => []
  | .serveRecv i peer d :: ls => .serveRead i peer d :: .serveSpawn i :: refine ls
  | l :: ls => .base l :: refine ls

/-- the schedules of the fine machine in which every `serveRead` is immediately followed by the `serveSpawn`
    of the same Serve call (and no `serveSpawn` stands alone) -/
inductive PairsAdjacent : List Label2 → Prop where
  | nil : PairsAdjacent []
  | pair (i peer : Nat) (d : Bytes) {ls : List Label2} :
      PairsAdjacent ls → PairsAdjacent (.serveRead i peer d :: .serveSpawn i :: ls)
  | base (l : Label) {ls : List Label2} : PairsAdjacent ls → PairsAdjacent (.base l :: ls)

/-- the schedule of the coarse machine that a fine schedule with adjacent pairs stands for: the pair
    becomes `serveRecv` -/
def coarsen : List Label2 → List Label
  | [] => []
  | .serveRead i peer d :: ls => .serveRecv i peer d :: coarsen ls
  | .serveSpawn _ :: ls => coarsen ls
  | .base l :: ls => l :: coarsen ls

/-! ### Negative controls: two variant machines that differ from `step2` in ONE respect each -/

/-- the deferred cleanup of a returning Serve call WITHOUT its `activeDone` (unregister only) -/
def leaveUncounted (s : St) (i : Nat) (r : ServeRes) : St :=
  let c := s.connOf.getD i 0
  { s with serves := s.serves.set i (.returned r),
           listeners := s.listeners.set c (s.listeners.getD c 0 - 1),
           log := s.log ++ [.serveReturned i] }

/-- NEGATIVE CONTROL 1.  `step2`, except that a Serve call does NOT hold a count of its own: no
    `activeAdd` at registration, no `activeDone` in the deferred cleanup (the listener bookkeeping is
    unchanged).  Only the three labels spelled out below differ from `step2`. -/
def step2NoSelfCount (H : Hash) (cfg : Cfg) (s : St2) : Label2 → Option St2
  | .base (.serveEnter i) =>
    match s.base.serves[i]? with
    | some .notStarted =>
      if s.base.sd then step2 H cfg s (.base (.serveEnter i))
      else
        let c := s.base.connOf.getD i 0
        some { s with base := { s.base with listeners := s.base.listeners.set c (s.base.listeners.getD c 0 + 1),
                                            serves := s.base.serves.set i .running } }
    | _ => none
  | .base (.serveReadErr i) =>
    match s.base.serves[i]?, s.holds i with
    | some .running, none =>
      if s.base.connClosed.getD (s.base.connOf.getD i 0) 0 > 0 ∧ s.base.sd then
        some { s with base := leaveUncounted s.base i .errShutdown }
      else none
    | _, _ => none
  | .base (.serveReadFail i k) =>
    match s.base.serves[i]?, s.holds i with
    | some .running, none =>
      if s.base.sd then some { s with base := leaveUncounted s.base i .errShutdown }
      else if k = .nonTemporary then some { s with base := leaveUncounted s.base i .readError }
      else some s
    | _, _ => none
  | l => step2 H cfg s l

/-- NEGATIVE CONTROL 2.  `step2`, except that `activeAdd` has moved from the Serve call (before `go`)
    into the goroutine (its first statement): spawning does not count, `taskRun` counts first. -/
def step2LateAdd (H : Hash) (cfg : Cfg) (s : St2) : Label2 → Option St2
  | .serveSpawn i =>
    (step2 H cfg s (.serveSpawn i)).map fun s' => { s' with base := { s'.base with active := s.base.active } }
  | .base (.serveRecv i peer d) =>
    (step2 H cfg s (.base (.serveRecv i peer d))).map fun s' =>
      { s' with base := { s'.base with active := s.base.active } }
  | .base (.taskRun t) => step2 H cfg { s with base := activeAdd s.base } (.base (.taskRun t))
  | l => step2 H cfg s l

/-- NEGATIVE CONTROL 3.  `step2`, except that the read loop tests `shutdownRequested` after EVERY `ReadFrom`,
    before it looks at the error (seeded change C06-r9-3): a Serve call that holds a datagram when the flag is
    set returns `ErrServerShutdown` (with the deferred cleanup of any return) and the datagram is dropped. -/
def step2FlagAfterRead (H : Hash) (cfg : Cfg) (s : St2) : Label2 → Option St2
  | .serveSpawn i =>
    match s.holds i with
    | some _ =>
      if s.base.sd then
        let c := s.base.connOf.getD i 0
        some { base := activeDone { s.base with serves := s.base.serves.set i (.returned .errShutdown),
                                                 listeners := s.base.listeners.set c (s.base.listeners.getD c 0 - 1),
                                                 log := s.base.log ++ [.serveReturned i] },
               held := s.held.set i none }
      else step2 H cfg s (.serveSpawn i)
    | none => none
  | l => step2 H cfg s l

/-- run a schedule with any step function -/
def runWith (stp : St2 → Label2 → Option St2) (s : St2) : List Label2 → St2
  | [] => s
  | l :: ls => match stp s l with
    | some s' => runWith stp s' ls
    | none => runWith stp s ls

end RV.Server
