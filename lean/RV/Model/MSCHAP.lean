/-
  C19 — MS-CHAPv2 (RFC 2759 §8) and MPPE key derivation (RFC 3079 §3.4, RFC 2548 §2.4.2).

  * `Spec.Rfc2759.*`, `Spec.Rfc3079.*`, `Spec.Rfc2548.*` transcribe the RFCs' pseudo-code.
  * `Model.MSCHAP.*` mirrors the Go composition in /repo/rfc2759/mschapv2.go and /repo/rfc3079/mppe.go
    (same guards, same order, `fault` where the Go code panics).

  Both are parameterised over the primitives `P : Prims` (SHA-1, MD4, single-block DES); theorems
  hold for every `P` with the right output lengths (`Prims.WF`), and the driver instantiates
  `Prims.concrete`: the Lean SHA-1 / MD4 / DES written from FIPS 180-4 / RFC 1320 / FIPS 46-3.
-/
import RV.Model.Wire
import RV.Model.MD4
import RV.Model.SHA1
import RV.Model.DES
import RV.Model.UTF16
namespace RV

/-- the primitives: `des key block` encrypts one 8-octet block under an 8-octet key -/
structure Prims where
  sha1 : Bytes → Bytes
  md4 : Bytes → Bytes
  des : Bytes → Bytes → Bytes

structure Prims.WF (P : Prims) : Prop where
  sha1_len : ∀ x, (P.sha1 x).length = 20
  md4_len : ∀ x, (P.md4 x).length = 16
  des_len : ∀ k b, (P.des k b).length = 8

def Prims.concrete : Prims := ⟨SHA1.sha1, MD4.md4, DES.encryptBlock⟩

theorem Prims.concrete_wf : Prims.concrete.WF :=
  ⟨SHA1.sha1_length, MD4.md4_length, DES.encryptBlock_length⟩

/-! ## Specification -/
namespace Spec

namespace Rfc2759

/-- §8.7 `Magic1` = "Magic server to client signing constant" -/
def magic1 : Bytes := [
  0x4D, 0x61, 0x67, 0x69, 0x63, 0x20, 0x73, 0x65, 0x72, 0x76,
  0x65, 0x72, 0x20, 0x74, 0x6F, 0x20, 0x63, 0x6C, 0x69, 0x65,
  0x6E, 0x74, 0x20, 0x73, 0x69, 0x67, 0x6E, 0x69, 0x6E, 0x67,
  0x20, 0x63, 0x6F, 0x6E, 0x73, 0x74, 0x61, 0x6E, 0x74]

/-- §8.7 `Magic2` = "Pad to make it do more than one iteration" -/
def magic2 : Bytes := [
  0x50, 0x61, 0x64, 0x20, 0x74, 0x6F, 0x20, 0x6D, 0x61, 0x6B,
  0x65, 0x20, 0x69, 0x74, 0x20, 0x64, 0x6F, 0x20, 0x6D, 0x6F,
  0x72, 0x65, 0x20, 0x74, 0x68, 0x61, 0x6E, 0x20, 0x6F, 0x6E,
  0x65, 0x20, 0x69, 0x74, 0x65, 0x72, 0x61, 0x74, 0x69, 0x6F,
  0x6E]

/-- §8.2 ChallengeHash: the first 8 octets of SHA1(PeerChallenge ‖ AuthenticatorChallenge ‖ UserName) -/
def challengeHash (P : Prims) (peerChallenge authChallenge userName : Bytes) : Bytes :=
  (P.sha1 (peerChallenge ++ authChallenge ++ userName)).take 8

/-- §8.3 NtPasswordHash: MD4 of the Unicode (UTF-16LE) password -/
def ntPasswordHash (P : Prims) (unicodePassword : Bytes) : Bytes := P.md4 unicodePassword

/-- §8.4 HashNtPasswordHash -/
def hashNtPasswordHash (P : Prims) (passwordHash : Bytes) : Bytes := P.md4 passwordHash

/-- bit `n` of an octet string, bit 0 being the most significant bit of the first octet -/
def bitAt (b : Bytes) (n : Nat) : Bool := (b.getD (n / 8) 0).toNat / 2 ^ (7 - n % 8) % 2 == 1

/-- the parity bit that makes the number of one bits odd -/
def oddParityBit (bits : List Bool) : Bool := bits.count true % 2 == 0

/-- the octet whose bits, most significant first, are `bits` -/
def byteOfBits (bits : List Bool) : UInt8 :=
  UInt8.ofNat (bits.foldl (fun a b => 2 * a + (if b then 1 else 0)) 0)

/-- §8.6: the 56-bit key is given without parity bits; octet `i` of the DES key holds key bits
    `7i … 7i+6` in its seven high-order bits and a parity bit (odd parity) in its low-order bit -/
def expandKey (key : Bytes) : Bytes :=
  (List.range 8).map fun i =>
    let g := (List.range 7).map fun j => bitAt key (7 * i + j)
    byteOfBits (g ++ [oddParityBit g])

/-- §8.6 DesEncrypt(Clear, Key): DES-ECB of the 8-octet `clear` under the 7-octet `key` -/
def desEncrypt (P : Prims) (clear key : Bytes) : Bytes := P.des (expandKey key) clear

/-- §8.5 ChallengeResponse (8-octet challenge, 16-octet password hash ⇒ 24 octets) -/
def challengeResponse (P : Prims) (challenge passwordHash : Bytes) : Bytes :=
  let z := passwordHash ++ zeros (21 - passwordHash.length)
  desEncrypt P challenge (z.take 7) ++
  desEncrypt P challenge ((z.drop 7).take 7) ++
  desEncrypt P challenge ((z.drop 14).take 7)

/-- §8.1 GenerateNTResponse on the Unicode password -/
def generateNTResponseU (P : Prims) (authChallenge peerChallenge userName unicodePassword : Bytes) : Bytes :=
  challengeResponse P (challengeHash P peerChallenge authChallenge userName) (ntPasswordHash P unicodePassword)

/-- … on a password given as UTF-8 (the Go API): defined for valid UTF-8 only -/
def generateNTResponse (P : Prims) (authChallenge peerChallenge userName password : Bytes) : Option Bytes :=
  (UTF16.Spec.utf16le? password).map (generateNTResponseU P authChallenge peerChallenge userName)

def upperHexDigits : List Char :=
  ['0', '1', '2', '3', '4', '5', '6', '7', '8', '9', 'A', 'B', 'C', 'D', 'E', 'F']

def hexUpper (b : Bytes) : List Char :=
  b.flatMap fun x => [upperHexDigits.getD (x.toNat / 16) '?', upperHexDigits.getD (x.toNat % 16) '?']

/-- §8.7 GenerateAuthenticatorResponse on the Unicode password: "S=" followed by the 40 upper-case
    hexadecimal digits of the second digest -/
def generateAuthenticatorResponseU (P : Prims)
    (authChallenge peerChallenge ntResponse userName unicodePassword : Bytes) : List Char :=
  let passwordHashHash := hashNtPasswordHash P (ntPasswordHash P unicodePassword)
  let digest := P.sha1 (passwordHashHash ++ ntResponse ++ magic1)
  let challenge := challengeHash P peerChallenge authChallenge userName
  let digest := P.sha1 (digest ++ challenge ++ magic2)
  'S' :: '=' :: hexUpper digest

def generateAuthenticatorResponse (P : Prims)
    (authChallenge peerChallenge ntResponse userName password : Bytes) : Option (List Char) :=
  (UTF16.Spec.utf16le? password).map
    (generateAuthenticatorResponseU P authChallenge peerChallenge ntResponse userName)

end Rfc2759

namespace Rfc3079

/-- §3.4 `SHSpad1`, `SHSpad2` -/
def shsPad1 : Bytes := [
  0x00, 0x00, 0x00, 0x00, 0x00, 0x00, 0x00, 0x00, 0x00, 0x00,
  0x00, 0x00, 0x00, 0x00, 0x00, 0x00, 0x00, 0x00, 0x00, 0x00,
  0x00, 0x00, 0x00, 0x00, 0x00, 0x00, 0x00, 0x00, 0x00, 0x00,
  0x00, 0x00, 0x00, 0x00, 0x00, 0x00, 0x00, 0x00, 0x00, 0x00]

def shsPad2 : Bytes := [
  0xF2, 0xF2, 0xF2, 0xF2, 0xF2, 0xF2, 0xF2, 0xF2, 0xF2, 0xF2,
  0xF2, 0xF2, 0xF2, 0xF2, 0xF2, 0xF2, 0xF2, 0xF2, 0xF2, 0xF2,
  0xF2, 0xF2, 0xF2, 0xF2, 0xF2, 0xF2, 0xF2, 0xF2, 0xF2, 0xF2,
  0xF2, 0xF2, 0xF2, 0xF2, 0xF2, 0xF2, 0xF2, 0xF2, 0xF2, 0xF2]

/-- §3.4 `Magic1` = "This is the MPPE Master Key" -/
def magic1 : Bytes := [
  0x54, 0x68, 0x69, 0x73, 0x20, 0x69, 0x73, 0x20, 0x74, 0x68,
  0x65, 0x20, 0x4D, 0x50, 0x50, 0x45, 0x20, 0x4D, 0x61, 0x73,
  0x74, 0x65, 0x72, 0x20, 0x4B, 0x65, 0x79]

/-- §3.4 `Magic2` = "On the client side, this is the send key; on the server side, it is the receive key." -/
def magic2 : Bytes := [
  0x4F, 0x6E, 0x20, 0x74, 0x68, 0x65, 0x20, 0x63, 0x6C, 0x69,
  0x65, 0x6E, 0x74, 0x20, 0x73, 0x69, 0x64, 0x65, 0x2C, 0x20,
  0x74, 0x68, 0x69, 0x73, 0x20, 0x69, 0x73, 0x20, 0x74, 0x68,
  0x65, 0x20, 0x73, 0x65, 0x6E, 0x64, 0x20, 0x6B, 0x65, 0x79,
  0x3B, 0x20, 0x6F, 0x6E, 0x20, 0x74, 0x68, 0x65, 0x20, 0x73,
  0x65, 0x72, 0x76, 0x65, 0x72, 0x20, 0x73, 0x69, 0x64, 0x65,
  0x2C, 0x20, 0x69, 0x74, 0x20, 0x69, 0x73, 0x20, 0x74, 0x68,
  0x65, 0x20, 0x72, 0x65, 0x63, 0x65, 0x69, 0x76, 0x65, 0x20,
  0x6B, 0x65, 0x79, 0x2E]

/-- §3.4 `Magic3` = "On the client side, this is the receive key; on the server side, it is the send key." -/
def magic3 : Bytes := [
  0x4F, 0x6E, 0x20, 0x74, 0x68, 0x65, 0x20, 0x63, 0x6C, 0x69,
  0x65, 0x6E, 0x74, 0x20, 0x73, 0x69, 0x64, 0x65, 0x2C, 0x20,
  0x74, 0x68, 0x69, 0x73, 0x20, 0x69, 0x73, 0x20, 0x74, 0x68,
  0x65, 0x20, 0x72, 0x65, 0x63, 0x65, 0x69, 0x76, 0x65, 0x20,
  0x6B, 0x65, 0x79, 0x3B, 0x20, 0x6F, 0x6E, 0x20, 0x74, 0x68,
  0x65, 0x20, 0x73, 0x65, 0x72, 0x76, 0x65, 0x72, 0x20, 0x73,
  0x69, 0x64, 0x65, 0x2C, 0x20, 0x69, 0x74, 0x20, 0x69, 0x73,
  0x20, 0x74, 0x68, 0x65, 0x20, 0x73, 0x65, 0x6E, 0x64, 0x20,
  0x6B, 0x65, 0x79, 0x2E]

/-- §3.4 GetMasterKey: the first 16 octets of SHA1(PasswordHashHash ‖ NTResponse ‖ Magic1) -/
def getMasterKey (P : Prims) (passwordHashHash ntResponse : Bytes) : Bytes :=
  (P.sha1 (passwordHashHash ++ ntResponse ++ magic1)).take 16

/-- §3.4 GetAsymmetricStartKey: the first `sessionKeyLength` octets of
    SHA1(MasterKey ‖ SHSpad1 ‖ s ‖ SHSpad2), where `s` is Magic3 for (send, server) and
    (receive, client), Magic2 for (send, client) and (receive, server) -/
def getAsymmetricStartKey (P : Prims) (masterKey : Bytes) (sessionKeyLength : Nat)
    (isSend isServer : Bool) : Bytes :=
  let s :=
    if isSend then (if isServer then magic3 else magic2)
    else (if isServer then magic2 else magic3)
  (P.sha1 (masterKey ++ shsPad1 ++ s ++ shsPad2)).take sessionKeyLength

end Rfc3079

namespace Rfc2548

/-- §2.4.2 / §2.4.3: the MS-MPPE-Send-Key / -Recv-Key a server derives for an MS-CHAPv2 session is the
    128-bit server-side send / receive start key of RFC 3079 §3.4 (Unicode password) -/
def mppeKeyU (P : Prims) (ntResponse unicodePassword : Bytes) (isSend : Bool) : Bytes :=
  let passwordHashHash := Rfc2759.hashNtPasswordHash P (Rfc2759.ntPasswordHash P unicodePassword)
  Rfc3079.getAsymmetricStartKey P (Rfc3079.getMasterKey P passwordHashHash ntResponse) 16 isSend true

def mppeKey (P : Prims) (ntResponse password : Bytes) (isSend : Bool) : Option Bytes :=
  (UTF16.Spec.utf16le? password).map fun u => mppeKeyU P ntResponse u isSend

end Rfc2548
end Spec

/-! ## Model of the Go code -/
namespace Model.MSCHAP

/-- rfc2759 `magic1`, `magic2` as written in mschapv2.go -/
def magic1 : Bytes := [
  0x4D, 0x61, 0x67, 0x69, 0x63, 0x20, 0x73, 0x65, 0x72, 0x76,
  0x65, 0x72, 0x20, 0x74, 0x6F, 0x20, 0x63, 0x6C, 0x69, 0x65,
  0x6E, 0x74, 0x20, 0x73, 0x69, 0x67, 0x6E, 0x69, 0x6E, 0x67,
  0x20, 0x63, 0x6F, 0x6E, 0x73, 0x74, 0x61, 0x6E, 0x74]

def magic2 : Bytes := [
  0x50, 0x61, 0x64, 0x20, 0x74, 0x6F, 0x20, 0x6D, 0x61, 0x6B,
  0x65, 0x20, 0x69, 0x74, 0x20, 0x64, 0x6F, 0x20, 0x6D, 0x6F,
  0x72, 0x65, 0x20, 0x74, 0x68, 0x61, 0x6E, 0x20, 0x6F, 0x6E,
  0x65, 0x20, 0x69, 0x74, 0x65, 0x72, 0x61, 0x74, 0x69, 0x6F,
  0x6E]

/-- `ToUTF16`: the x/text encoder never fails (see `UTF16.goEncodeLE`); the `err != nil` branch is dead -/
def toUTF16 (inp : Bytes) : Res Bytes := .ok (UTF16.goEncodeLE inp)

/-- `ChallengeHash`: three `Write`s then `sha.Sum(nil)[:8]` -/
def challengeHash (P : Prims) (peerChallenge authChallenge userName : Bytes) : Bytes :=
  (P.sha1 (peerChallenge ++ authChallenge ++ userName)).take 8

/-- `NTPasswordHash` -/
def ntPasswordHash (P : Prims) (password : Bytes) : Bytes := P.md4 password

/-- `bits.OnesCount(uint(x))` for a byte -/
def popCount (x : UInt8) : Nat := (List.range 8).foldl (fun n i => n + (x.toNat >>> i) % 2) 0

/-- first loop of `parityPadDESKey`: `in |= uint64(inBytes[i]) << (8*(len-i-1))` over a `uint64`
    (a Go shift by 64 or more yields 0, whence the `% 2^64`) -/
def padAccum : Bytes → Nat → Nat
  | [], acc => acc
  | b :: rest, acc => padAccum rest (acc ||| (b.toNat <<< (8 * rest.length)) % 2 ^ 64)

/-- `if bits.OnesCount(uint(x))%2 == 0 { x |= 1 }` -/
def fixParity (x : UInt8) : UInt8 := if popCount x % 2 == 0 then x ||| 1 else x

/-- second loop body: `outBytes[i] = byte(in>>(7*(8-i-1))) << 1`, then the parity fix -/
def padByte (inp : Nat) (i : Nat) : UInt8 := fixParity (UInt8.ofNat (inp >>> (7 * (8 - i - 1))) <<< 1)

/-- `parityPadDESKey` (any input length; `DESCrypt` calls it with 7 octets only) -/
def parityPadDESKey (inBytes : Bytes) : Bytes := (List.range 8).map (padByte (padAccum inBytes 0))

/-- `DESCrypt`: 7-octet keys are parity-padded, 8-octet keys are used as they are, any other key
    length makes `des.NewCipher` fail and the function panics; `cipher.Encrypt` panics on a clear text
    shorter than one block and encrypts the first 8 octets of a longer one -/
def desCrypt (P : Prims) (key clear : Bytes) : Res Bytes :=
  let k := if key.length = 7 then parityPadDESKey key else key
  if k.length ≠ 8 then .fault
  else if clear.length < 8 then .fault
  else .ok (P.des k (clear.take 8))

/-- `ChallengeResponse`: `zPasswordHash := make([]byte, 21); copy(zPasswordHash, passwordHash)`, three
    `DESCrypt`s in order, each result copied to its 8-octet slot of the 24-octet response -/
def challengeResponse (P : Prims) (challenge passwordHash : Bytes) : Res Bytes :=
  let z := passwordHash.take 21 ++ zeros (21 - passwordHash.length)
  match desCrypt P (z.take 7) challenge with
  | .ok r0 =>
    match desCrypt P ((z.drop 7).take 7) challenge with
    | .ok r1 =>
      match desCrypt P ((z.drop 14).take 7) challenge with
      | .ok r2 => .ok (r0 ++ r1 ++ r2)
      | .err => .err
      | .fault => .fault
    | .err => .err
    | .fault => .fault
  | .err => .err
  | .fault => .fault

/-- `GenerateNTResponse` -/
def generateNTResponse (P : Prims) (authChallenge peerChallenge userName password : Bytes) : Res Bytes :=
  let challenge := challengeHash P peerChallenge authChallenge userName
  match toUTF16 password with
  | .ok ucs2Password => challengeResponse P challenge (ntPasswordHash P ucs2Password)
  | .err => .err
  | .fault => .fault

def lowerHexDigits : List Char :=
  ['0', '1', '2', '3', '4', '5', '6', '7', '8', '9', 'a', 'b', 'c', 'd', 'e', 'f']

/-- `hex.EncodeToString` -/
def hexLower (b : Bytes) : List Char :=
  b.flatMap fun x => [lowerHexDigits.getD (x.toNat / 16) '?', lowerHexDigits.getD (x.toNat % 16) '?']

/-- `strings.ToUpper` on an ASCII string -/
def toUpper (c : Char) : Char := if 'a' ≤ c ∧ c ≤ 'z' then Char.ofNat (c.toNat - 32) else c

/-- `GenerateAuthenticatorResponse` (no length check on `ntResponse`) -/
def generateAuthenticatorResponse (P : Prims)
    (authChallenge peerChallenge ntResponse userName password : Bytes) : Res (List Char) :=
  match toUTF16 password with
  | .ok ucs2Password =>
    let passwordHash := ntPasswordHash P ucs2Password
    let passwordHashHash := ntPasswordHash P passwordHash
    let digest := P.sha1 (passwordHashHash ++ ntResponse ++ magic1)
    let challenge := challengeHash P peerChallenge authChallenge userName
    let digest := P.sha1 (digest ++ challenge ++ magic2)
    .ok ('S' :: '=' :: (hexLower digest).map toUpper)
  | .err => .err
  | .fault => .fault

/-! ### rfc3079/mppe.go -/

def shaPad1 : Bytes := [
  0x00, 0x00, 0x00, 0x00, 0x00, 0x00, 0x00, 0x00, 0x00, 0x00,
  0x00, 0x00, 0x00, 0x00, 0x00, 0x00, 0x00, 0x00, 0x00, 0x00,
  0x00, 0x00, 0x00, 0x00, 0x00, 0x00, 0x00, 0x00, 0x00, 0x00,
  0x00, 0x00, 0x00, 0x00, 0x00, 0x00, 0x00, 0x00, 0x00, 0x00]

def shaPad2 : Bytes := [
  0xf2, 0xf2, 0xf2, 0xf2, 0xf2, 0xf2, 0xf2, 0xf2, 0xf2, 0xf2,
  0xf2, 0xf2, 0xf2, 0xf2, 0xf2, 0xf2, 0xf2, 0xf2, 0xf2, 0xf2,
  0xf2, 0xf2, 0xf2, 0xf2, 0xf2, 0xf2, 0xf2, 0xf2, 0xf2, 0xf2,
  0xf2, 0xf2, 0xf2, 0xf2, 0xf2, 0xf2, 0xf2, 0xf2, 0xf2, 0xf2]

def mppeMagic1 : Bytes := [
  0x54, 0x68, 0x69, 0x73, 0x20, 0x69, 0x73, 0x20, 0x74,
  0x68, 0x65, 0x20, 0x4d, 0x50, 0x50, 0x45, 0x20, 0x4d,
  0x61, 0x73, 0x74, 0x65, 0x72, 0x20, 0x4b, 0x65, 0x79]

def mppeMagic2 : Bytes := [
  0x4f, 0x6e, 0x20, 0x74, 0x68, 0x65, 0x20, 0x63, 0x6c, 0x69,
  0x65, 0x6e, 0x74, 0x20, 0x73, 0x69, 0x64, 0x65, 0x2c, 0x20,
  0x74, 0x68, 0x69, 0x73, 0x20, 0x69, 0x73, 0x20, 0x74, 0x68,
  0x65, 0x20, 0x73, 0x65, 0x6e, 0x64, 0x20, 0x6b, 0x65, 0x79,
  0x3b, 0x20, 0x6f, 0x6e, 0x20, 0x74, 0x68, 0x65, 0x20, 0x73,
  0x65, 0x72, 0x76, 0x65, 0x72, 0x20, 0x73, 0x69, 0x64, 0x65,
  0x2c, 0x20, 0x69, 0x74, 0x20, 0x69, 0x73, 0x20, 0x74, 0x68,
  0x65, 0x20, 0x72, 0x65, 0x63, 0x65, 0x69, 0x76, 0x65, 0x20,
  0x6b, 0x65, 0x79, 0x2e]

def mppeMagic3 : Bytes := [
  0x4f, 0x6e, 0x20, 0x74, 0x68, 0x65, 0x20, 0x63, 0x6c, 0x69,
  0x65, 0x6e, 0x74, 0x20, 0x73, 0x69, 0x64, 0x65, 0x2c, 0x20,
  0x74, 0x68, 0x69, 0x73, 0x20, 0x69, 0x73, 0x20, 0x74, 0x68,
  0x65, 0x20, 0x72, 0x65, 0x63, 0x65, 0x69, 0x76, 0x65, 0x20,
  0x6b, 0x65, 0x79, 0x3b, 0x20, 0x6f, 0x6e, 0x20, 0x74, 0x68,
  0x65, 0x20, 0x73, 0x65, 0x72, 0x76, 0x65, 0x72, 0x20, 0x73,
  0x69, 0x64, 0x65, 0x2c, 0x20, 0x69, 0x74, 0x20, 0x69, 0x73,
  0x20, 0x74, 0x68, 0x65, 0x20, 0x73, 0x65, 0x6e, 0x64, 0x20,
  0x6b, 0x65, 0x79, 0x2e]

/-- `GetMasterKey` (no length checks) -/
def getMasterKey (P : Prims) (passwordHashHash ntResponse : Bytes) : Bytes :=
  (P.sha1 (passwordHashHash ++ ntResponse ++ mppeMagic1)).take 16

/-- Go's `digest[:n]` on the result of `sha.Sum(nil)`: a 20-octet slice whose capacity is 24 with
    go1.23 (allocation size class; probed), the spare capacity being zero.  `n ≤ 20` is the exact
    language semantics; `20 < n ≤ 24` and the panic beyond are what the runtime was OBSERVED to do. -/
def sliceDigest (digest : Bytes) (n : Nat) : Res Bytes :=
  if n ≤ digest.length then .ok (digest.take n)
  else if n ≤ 24 then .ok (digest ++ zeros (n - digest.length))
  else .fault

/-- `GetAsymmetricStartKey` -/
def getAsymmetricStartKey (P : Prims) (masterKey : Bytes) (sessionKeyLength : Nat) (isSend : Bool) : Res Bytes :=
  if masterKey.length ≠ 16 then .err
  else
    let s := if isSend then mppeMagic3 else mppeMagic2
    sliceDigest (P.sha1 (masterKey ++ shaPad1 ++ s ++ shaPad2)) sessionKeyLength

/-- `MakeKey` -/
def makeKey (P : Prims) (ntResponse password : Bytes) (isSend : Bool) : Res Bytes :=
  if ntResponse.length ≠ 24 then .err
  else
    match toUTF16 password with
    | .ok ucs2Password =>
      let passwordHash := ntPasswordHash P ucs2Password
      let passwordHashHash := ntPasswordHash P passwordHash
      let masterKey := getMasterKey P passwordHashHash ntResponse
      getAsymmetricStartKey P masterKey 16 isSend
    | .err => .err
    | .fault => .fault

end Model.MSCHAP
end RV
