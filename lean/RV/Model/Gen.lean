/-
  Model of dictionarygen.Generator.Generate (dictionarygen/generator.go, attributes.go, vendor.go,
  util.go, sort.go and dictionary/sort.go): which dictionaries are accepted, which identifiers,
  top-level declarations (with their signature shapes) and imports the emitted file has, in
  which order.  Template *bodies* are not modelled (that they type-check is observed on the Go side).

  The model is parameterised by `Cfg`: one flag per proposed repair of /repo, so that the behaviour
  of the code as found (`Cfg.asIs`) and of the repaired code (`Cfg.repaired`) are both stated and
  the theorems in Props/C17 can speak about either.  `Cfg.current` is what the driver compares
  the working tree with.

  Names are byte strings; `identifier` is modelled on ASCII (bytes >= 0x80 are treated as
  separators, which is what Go does for invalid UTF-8 but not for non-ASCII letters: the driver
  refuses such cases and the harness runs them under the Go-side oracle only).
-/
import RV.Model.Dict
namespace RV.Gen
open RV.Dict

/-- ASCII string literal as bytes (reduces in the kernel) -/
def bs (s : String) : Bytes := s.toList.map (fun c => c.toNat.toUInt8)

instance {ε α} [DecidableEq ε] [DecidableEq α] : DecidableEq (Except ε α)
  | .ok a, .ok b => if h : a = b then isTrue (by rw [h]) else isFalse (by intro e; cases e; exact h rfl)
  | .error a, .error b => if h : a = b then isTrue (by rw [h]) else isFalse (by intro e; cases e; exact h rfl)
  | .ok _, .error _ => isFalse (by intro e; cases e)
  | .error _, .ok _ => isFalse (by intro e; cases e)

/-! ## Configuration: which repairs are modelled -/

structure Cfg where
  /-- proposed_fixes/01: `Less` compares `s[i]` with `s[j]` (not with itself), ties by name;
      vendors by number, ties by name -/
  sortFixed : Bool
  /-- proposed_fixes/02 (#15): VALUE identifiers of one attribute and vendor identifiers must be distinct -/
  rejectDupIdents : Bool
  /-- proposed_fixes/02 (#18): `encrypt=` only on kinds whose template implements it -/
  rejectUnimplEncrypt : Bool
  /-- proposed_fixes/02: attribute names must normalise to an exported Go identifier -/
  rejectBadIdent : Bool
  /-- proposed_fixes/02: vendor attribute numbers 0..255, vendor numbers 0..2^32-1, VALUE numbers fit the type;
      and (fix 07e31b9, found by the second audit) top-level attribute numbers 0..255: the Type octet -/
  rejectRanges : Bool
  /-- proposed_fixes/03: ignored vendor attributes are not emitted -/
  dropIgnoredVendorAttrs : Bool
deriving DecidableEq, Repr

def Cfg.asIs : Cfg := ⟨false, false, false, false, false, false⟩
def Cfg.repaired : Cfg := ⟨true, true, true, true, true, true⟩
/-- the behaviour the working tree is expected to have -/
def Cfg.current : Cfg := Cfg.repaired

/-! ## Identifier normalisation (util.go), ASCII -/

def isDigit (b : UInt8) : Bool := 48 ≤ b && b ≤ 57
def isUpper (b : UInt8) : Bool := 65 ≤ b && b ≤ 90
def isLower (b : UInt8) : Bool := 97 ≤ b && b ≤ 122
def isAlnum (b : UInt8) : Bool := isDigit b || isUpper b || isLower b
def toUpper (b : UInt8) : UInt8 := if isLower b then b - 32 else b

/-- firstCharacterReplacements -/
def digitWord (b : UInt8) : Bytes :=
  match b.toNat - 48 with
  | 0 => bs "Zero" | 1 => bs "One" | 2 => bs "Two" | 3 => bs "Three" | 4 => bs "Four"
  | 5 => bs "Five" | 6 => bs "Six" | 7 => bs "Seven" | 8 => bs "Eight" | _ => bs "Nine"

/-- characterReplacer: `+` ↦ `Plus` -/
def replacePlus : Bytes → Bytes
  | [] => []
  | b :: r => if b == 43 then bs "Plus" ++ replacePlus r else b :: replacePlus r

/-- strings.FieldsFunc(name, not letter-or-number); `cur` is the current field, reversed -/
def fieldsAux : Bytes → Bytes → List Bytes
  | [], cur => if cur.isEmpty then [] else [cur.reverse]
  | b :: r, cur =>
    if isAlnum b then fieldsAux r (b :: cur)
    else if cur.isEmpty then fieldsAux r [] else cur.reverse :: fieldsAux r []

def fields (s : Bytes) : List Bytes := fieldsAux s []

/-- strings.Title on an ASCII alphanumeric field: only the first character can follow a separator -/
def title : Bytes → Bytes
  | [] => []
  | b :: r => toUpper b :: r

/-- commonInitialisms (from golint) -/
def initialisms : List Bytes :=
  ["ACL", "API", "ASCII", "CPU", "CSS", "DNS", "EOF", "GUID", "HTML", "HTTP", "HTTPS", "ID", "IP", "JSON",
   "LHS", "QPS", "RAM", "RHS", "RPC", "SLA", "SMTP", "SQL", "SSH", "TCP", "TLS", "TTL", "UDP", "UI", "UID",
   "UUID", "URI", "URL", "UTF8", "VM", "XML", "XMPP", "XSRF", "XSS"].map bs

def fieldIdent (f : Bytes) : Bytes :=
  let u := f.map toUpper
  if initialisms.contains u then u else title f

def identifier (name : Bytes) : Bytes :=
  match name with
  | [] => []
  | b :: r =>
    let name := if isDigit b then digitWord b ++ r else b :: r
    ((fields (replacePlus name)).map fieldIdent).flatten

/-- `token.IsIdentifier ∧ token.IsExported` for the output of `identifier` (alphanumeric ASCII):
    non-empty and starting with an upper-case letter. -/
def exportedIdent (id : Bytes) : Bool :=
  match id with
  | [] => false
  | b :: _ => isUpper b

/-- the emitted text `<id>_…` lexes as one Go identifier (else go/format rejects the file) -/
def lexesAsIdent (id : Bytes) : Bool :=
  match id with
  | [] => true          -- `_Type`, `_Add`: fine
  | b :: _ => !isDigit b

/-! ## Sorting (dictionary/sort.go, dictionarygen/sort.go) -/

/-- sort.Stable: stable insertion sort by a `less` relation -/
def insertStable {α} (less : α → α → Bool) (a : α) : List α → List α
  | [] => [a]
  | b :: l => if less b a then b :: insertStable less a l else a :: b :: l

def sortStable {α} (less : α → α → Bool) : List α → List α
  | [] => []
  | a :: l => insertStable less a (sortStable less l)

/-- the loop of `sortAttributes.Less` on two OIDs: component-wise, the shorter padded with zeros -/
def oidLessNil : List Int → Bool       -- [] against b
  | [] => false
  | y :: b => if 0 ≠ y then 0 < y else oidLessNil b
def oidNilLess : List Int → Bool       -- a against []
  | [] => false
  | x :: a => if x ≠ 0 then x < 0 else oidNilLess a
def oidLess : List Int → List Int → Bool
  | [], b => oidLessNil b
  | x :: a, [] => if x ≠ 0 then x < 0 else oidNilLess a
  | x :: a, y :: b => if x ≠ y then x < y else oidLess a b

/-- Go string `<` : byte-wise lexicographic -/
def bytesLt : Bytes → Bytes → Bool
  | _, [] => false
  | [], _ :: _ => true
  | x :: a, y :: b => x < y || (x == y && bytesLt a b)

/-- `sortAttributes.Less(i, j)`.  As found: `a := s[i].OID; b := s[i].OID` — the element is compared
    with itself.  Repaired: `b := s[j].OID`, ties by name. -/
def attrLess (cfg : Cfg) (a b : Attribute) : Bool :=
  if cfg.sortFixed then
    oidLess a.oid b.oid || (!oidLess b.oid a.oid && bytesLt a.name b.name)
  else
    oidLess a.oid a.oid

def sortAttrs (cfg : Cfg) (as : List Attribute) : List Attribute := sortStable (attrLess cfg) as

def sortValues (vs : List Value) : List Value := sortStable (fun a b => a.number < b.number) vs

/-! ## Declarations -/

inductive Ty where
  | packet        -- *radius.Packet
  | byte | str | ip | hw | ipnet | time | error | radiusType | untyped
  | u16 | u32 | u64
  | named (id : Bytes)      -- the attribute's value type
  | mapStr (id : Bytes)     -- map[<id>]string
  | slice (t : Ty)
  | attribute     -- radius.Attribute
  | bool
deriving DecidableEq, Repr

abbrev Ty.bytes : Ty := .slice .byte

inductive DKind where | const | type | var | func | method
deriving DecidableEq, Repr

/-- what a declaration is for (determines the suffix of its name) -/
inductive Role where
  | typeConst | vendorId | extInit | extValue
  | valueType | valueConst | strings | stringer
  | add | addString | get | getString | gets | getStrings | lookup | lookupString | set | setString | del
  | newVendor | addVendor | getsVendor | lookupVendor | setVendor | delVendor
deriving DecidableEq, Repr

def Role.suffix : Role → String
  | .typeConst => "_Type" | .vendorId => "_VendorID" | .extInit => "init" | .extValue => "_Value_"
  | .valueType => "" | .valueConst => "_Value_" | .strings => "_Strings" | .stringer => ".String"
  | .add => "_Add" | .addString => "_AddString" | .get => "_Get" | .getString => "_GetString"
  | .gets => "_Gets" | .getStrings => "_GetStrings" | .lookup => "_Lookup" | .lookupString => "_LookupString"
  | .set => "_Set" | .setString => "_SetString" | .del => "_Del"
  | .newVendor => "_NewVendor" | .addVendor => "_AddVendor" | .getsVendor => "_GetsVendor" | .lookupVendor => "_LookupVendor"
  | .setVendor => "_SetVendor" | .delVendor => "_DelVendor"

def Role.isReader : Role → Bool
  | .get | .getString | .gets | .getStrings | .lookup | .lookupString => true
  | _ => false

def Role.isWriter : Role → Bool
  | .add | .addString | .set | .setString => true
  | _ => false

/-- a top-level declaration of the generated file with its signature shape.
    const/type/var: `results = [declared type]`; method: `name = <receiver type>.<method>` -/
structure Decl where
  kind : DKind
  role : Role
  name : Bytes
  params : List Ty := []
  results : List Ty := []
deriving DecidableEq, Repr

/-- where a group of declarations comes from -/
inductive Origin where
  | attr (vendor : Bool) (a : Attribute)   -- an ATTRIBUTE declaration (top-level / inside a vendor)
  | vendor (name : Bytes)                  -- a VENDOR declaration
  | ext (attrName : Bytes)                 -- an external attribute (-ref) and its VALUEs
deriving DecidableEq, Repr

inductive Imp where
  | std (path : Bytes)      -- "errors", "net", "time", "strconv", "crypto/rand"
  | radius                  -- "layeh.com/radius"
  | rfc2865                 -- "layeh.com/radius/rfc2865"
  | dot (path : Bytes)      -- . "<path>" (external attribute's package)
deriving DecidableEq, Repr

structure Options where
  ignore : List Bytes
  /-- ExternalAttributes: attribute name ↦ import path (a Go map: names are distinct) -/
  refs : List (Bytes × Bytes)
deriving Repr

inductive Err where
  | collision | invalid | unknownValue | vendorFormat | duplicate | range | badIdent
  | format      -- go/format rejects the emitted text
  | panic       -- Generate panics
deriving DecidableEq, Repr

structure Output where
  imports : List Imp
  /-- the declarations in emission order, grouped by origin -/
  sections : List (Origin × List Decl)
deriving DecidableEq, Repr

def Output.decls (o : Output) : List Decl := o.sections.flatMap (·.2)

/-! ## Attribute kinds and validity rules (generator.go) -/

def stringy (t : AttrType) : Bool := t == .string || t == .octets
def intBits : AttrType → Option Nat
  | .short => some 16 | .integer => some 32 | .integer64 => some 64 | _ => none
def isIntKind (t : AttrType) : Bool := (intBits t).isSome
def isIPKind (t : AttrType) : Bool := t == .ipaddr || t == .ipv6addr

def tagged (a : Attribute) : Bool := a.hasTag == some true
def salted (a : Attribute) : Bool := a.encrypt == some 2
def concatenated (a : Attribute) : Bool := a.isConcat == some true

/-- types with a template; `vsa` only at top level (it gets a `_Type` constant and nothing else) -/
def hasTemplate (t : AttrType) : Bool :=
  stringy t || isIPKind t || t == .ipv6prefix || t == .ifid || t == .date || isIntKind t || t == .byte

/-- proposed fix for #18: `encryptSupported` -/
def encryptSupported (a : Attribute) : Bool :=
  match a.encrypt with
  | none => true
  | some e =>
    if stringy a.typ then true
    else if isIPKind a.typ then e == 2
    else if isIntKind a.typ then e == 2 && !tagged a
    else false

/-- the `invalid` flag of the validity block; `vendor` selects the vendor-attribute variant -/
def invalidAttr (cfg : Cfg) (vendor : Bool) (a : Attribute) : Bool :=
  a.oid.length != 1
  || (cfg.rejectRanges && (match a.oid with | [n] => n < 0 || n > 255 | _ => false))
  || (a.size.isSome && !stringy a.typ)
  || (match a.encrypt with | some e => e != 1 && e != 2 | none => false)
  || (cfg.rejectUnimplEncrypt && !encryptSupported a)
  || (if vendor then concatenated a
      else concatenated a && (!stringy a.typ || a.encrypt.isSome || a.hasTag.isSome || a.size.isSome))
  || (tagged a && !(stringy a.typ || a.typ == .integer))
  || !(hasTemplate a.typ || (!vendor && a.typ == .vsa))

/-- what the validity block adds to `baseImports` for an attribute it accepts -/
def declaredImports (a : Attribute) : List Imp :=
  (if (a.size.isSome && stringy a.typ) || a.typ == .byte || (tagged a && stringy a.typ) then [Imp.std (bs "errors")] else [])
  ++ (if salted a then [Imp.std (bs "crypto/rand")] else [])
  ++ (if isIPKind a.typ || a.typ == .ipv6prefix || a.typ == .ifid then [Imp.std (bs "net")] else [])
  ++ (if a.typ == .date then [Imp.std (bs "time")] else [])
  ++ (if isIntKind a.typ then [Imp.std (bs "strconv")] else [])

/-- what the template bodies of an emitted attribute refer to (read off attributes.go):
    `errors` in the size checks, in the "value too long" check of tagged text, and in the byte template, `rand` in genNewTunnelPassword
    (string/octets and ipaddr kinds; integer kinds only when untagged), `net`/`time` in the value
    types, `strconv` in `String()`. -/
def usedImports (vendor : Bool) (a : Attribute) : List Imp :=
  if stringy a.typ then
    (if (a.size.isSome || tagged a) && !(concatenated a && !vendor) then [Imp.std (bs "errors")] else [])
    ++ (if salted a && !(concatenated a && !vendor) then [Imp.std (bs "crypto/rand")] else [])
  else if isIPKind a.typ then
    [Imp.std (bs "net")] ++ (if salted a then [Imp.std (bs "crypto/rand")] else [])
  else if a.typ == .ipv6prefix || a.typ == .ifid then [Imp.std (bs "net")]
  else if a.typ == .date then [Imp.std (bs "time")]
  else if isIntKind a.typ then
    [Imp.std (bs "strconv")] ++ (if salted a && !tagged a then [Imp.std (bs "crypto/rand")] else [])
  else if a.typ == .byte then [Imp.std (bs "errors")]
  else []

/-- one pass of the validity loop over the non-ignored attributes: identifier collision check
    (across everything seen so far, vendor attributes included) BEFORE the `invalid` check -/
def checkAttrs (cfg : Cfg) (vendor : Bool) : List Bytes → List Attribute → Except Err (List Bytes)
  | seen, [] => .ok seen
  | seen, a :: rest =>
    let id := identifier a.name
    if cfg.rejectBadIdent && !exportedIdent id then .error .badIdent
    else if seen.contains id then .error .collision
    else if invalidAttr cfg vendor a then .error .invalid
    else checkAttrs cfg vendor (id :: seen) rest

def kept (o : Options) (as : List Attribute) : List Attribute := as.filter (fun a => !o.ignore.contains a.name)

/-! ## VALUEs -/

/-- the loop at the head of genAttributeInteger (`attributeValues` after the repair): the VALUEs of
    one attribute out of a list sorted by number; of consecutive equal numbers the last wins -/
def attrValues (attrName : Bytes) (all : List Value) : List Value :=
  all.foldl (fun acc v =>
    if v.attrName == attrName then
      match acc.getLast? with
      | some l => if l.number == v.number then acc.dropLast ++ [v] else acc ++ [v]
      | none => [v]
    else acc) []

/-- how each top-level VALUE is routed: local attribute, external attribute, or unknown -/
inductive Route where | loc | ext (name : Bytes) | unknown
deriving DecidableEq

def route (attrs : List Attribute) (exts : List (Bytes × Bytes)) (v : Value) : Route :=
  if attrs.any (·.name == v.attrName) then .loc
  else match exts.find? (·.1 == v.attrName) with
    | some e => .ext e.1
    | none => .unknown

/-- proposed `checkValues`: constants of one attribute have distinct identifiers and fit the type -/
def valuesOK (cfg : Cfg) (bits : Option Nat) (vals : List Value) : Except Err Unit :=
  if cfg.rejectRanges && (match bits with | some n => vals.any (fun v => v.number ≥ 2 ^ n) | none => false) then .error .range
  else if cfg.rejectDupIdents && !((vals.map (fun v => identifier v.name)).Nodup) then .error .duplicate
  else .ok ()

def checkAttrValues (cfg : Cfg) (attrs : List Attribute) (sortedValues : List Value) : Except Err Unit :=
  attrs.forM (fun a =>
    match intBits a.typ with
    | some n => valuesOK cfg (some n) (attrValues a.name sortedValues)
    | none => .ok ())

/-! ## Templates: declarations per attribute (attributes.go, vendor.go) -/

def fn (id : Bytes) (r : Role) (ps rs : List Ty) : Decl := ⟨.func, r, id ++ bs r.suffix, ps, rs⟩

/-- packet parameters of the reading helpers: `(p, q *radius.Packet)` when salt-encrypted -/
def pk (a : Attribute) : List Ty := if salted a then [.packet, .packet] else [.packet]
def tg (a : Attribute) (t : Ty) : List Ty := if tagged a then [t] else []

def stringDecls (id : Bytes) (a : Attribute) : List Decl :=
  [ fn id .add ([.packet] ++ tg a .byte ++ [.bytes]) [.error],
    fn id .addString ([.packet] ++ tg a .byte ++ [.str]) [.error],
    fn id .get (pk a) (tg a .byte ++ [.bytes]),
    fn id .getString (pk a) (tg a .byte ++ [.str]),
    fn id .gets (pk a) (tg a .bytes ++ [.slice .bytes, .error]),
    fn id .getStrings (pk a) (tg a .bytes ++ [.slice .str, .error]),
    fn id .lookup (pk a) (tg a .byte ++ [.bytes, .error]),
    fn id .lookupString (pk a) (tg a .byte ++ [.str, .error]),
    fn id .set ([.packet] ++ tg a .byte ++ [.bytes]) [.error],
    fn id .setString ([.packet] ++ tg a .byte ++ [.str]) [.error],
    fn id .del [.packet] [] ]

def concatDecls (id : Bytes) : List Decl :=
  [ fn id .get [.packet] [.bytes],
    fn id .getString [.packet] [.str],
    fn id .lookup [.packet] [.bytes, .error],
    fn id .lookupString [.packet] [.str, .error],
    fn id .set [.packet, .bytes] [.error],
    fn id .setString [.packet, .str] [.error],
    fn id .del [.packet] [] ]

/-- ipaddr / ipv6addr (`q` when salt-encrypted); ifid, ipv6prefix, date, byte (never `q`) -/
def simpleDecls (id : Bytes) (t : Ty) (pkts : List Ty) : List Decl :=
  [ fn id .add [.packet, t] [.error],
    fn id .get pkts [t],
    fn id .gets pkts [.slice t, .error],
    fn id .lookup pkts [t, .error],
    fn id .set [.packet, t] [.error],
    fn id .del [.packet] [] ]

def intDecls (id : Bytes) (a : Attribute) (bits : Nat) (vals : List Value) : List Decl :=
  [ (⟨.type, .valueType, id, [], [if bits == 64 then .u64 else if bits == 16 then .u16 else .u32]⟩ : Decl) ]
  ++ vals.map (fun v => (⟨.const, .valueConst, id ++ bs "_Value_" ++ identifier v.name, [], [.named id]⟩ : Decl))
  ++ [ (⟨.var, .strings, id ++ bs "_Strings", [], [.mapStr id]⟩ : Decl),
       (⟨.method, .stringer, id ++ bs ".String", [], [.str]⟩ : Decl),
       fn id .add ([.packet] ++ tg a .byte ++ [.named id]) [.error],
       fn id .get (pk a) (tg a .byte ++ [.named id]),
       fn id .gets (pk a) (tg a .bytes ++ [.slice (.named id), .error]),
       fn id .lookup (pk a) (tg a .byte ++ [.named id, .error]),
       fn id .set ([.packet] ++ tg a .byte ++ [.named id]) [.error],
       fn id .del [.packet] [] ]

/-- the two `switch attr.Type` blocks of Generate; `sortedValues` = the list handed to
    genAttributeInteger (top-level: the local VALUEs; vendor: the vendor's VALUEs) -/
def attrDecls (vendor : Bool) (a : Attribute) (sortedValues : List Value) : List Decl :=
  let id := identifier a.name
  match a.typ with
  | .string | .octets => if concatenated a && !vendor then concatDecls id else stringDecls id a
  | .ipaddr | .ipv6addr => simpleDecls id .ip (pk a)
  | .ipv6prefix => simpleDecls id .ipnet [.packet]
  | .ifid => simpleDecls id .hw [.packet]
  | .date => simpleDecls id .time [.packet]
  | .byte => simpleDecls id .byte [.packet]
  | .short => intDecls id a 16 (attrValues a.name sortedValues)
  | .integer => intDecls id a 32 (attrValues a.name sortedValues)
  | .integer64 => intDecls id a 64 (attrValues a.name sortedValues)
  | _ => []

def vendorHelperDecls (vid : Bytes) : List Decl :=
  let n (s : String) := bs "_" ++ vid ++ bs s
  [ ⟨.func, .newVendor, n "_NewVendor", [.byte, .attribute], [.attribute, .error]⟩,
    ⟨.func, .addVendor, n "_AddVendor", [.packet, .byte, .attribute], [.error]⟩,
    ⟨.func, .getsVendor, n "_GetsVendor", [.packet, .byte], [.slice .attribute]⟩,
    ⟨.func, .lookupVendor, n "_LookupVendor", [.packet, .byte], [.attribute, .bool]⟩,
    ⟨.func, .setVendor, n "_SetVendor", [.packet, .byte, .attribute], [.error]⟩,
    ⟨.func, .delVendor, n "_DelVendor", [.packet, .byte], []⟩ ]

/-- does the attribute get any text beyond a `_Type` constant (vendor attributes: any text at all) -/
def emitsText (vendor : Bool) (a : Attribute) : Bool := hasTemplate a.typ || (!vendor && a.typ == .vsa)

/-! ## Vendors -/

/-- a vendor as emitted: sorted attribute and value lists -/
structure EVendor where
  name : Bytes
  number : Int
  attrs : List Attribute
  values : List Value
deriving DecidableEq, Repr

/-- the vendor loop of Generate; `seen` = identifiers taken so far, `vseen` = vendor identifiers
    taken so far (repair #15) -/
def checkVendors (cfg : Cfg) (o : Options) :
    List Bytes → List Bytes → List Vendor → Except Err (List EVendor × List Imp)
  | _, _, [] => .ok ([], [])
  | seen, vseen, v :: rest => do
    if v.lengthOctets.getD 1 != 1 || v.typeOctets.getD 1 != 1 then throw .vendorFormat
    if cfg.rejectRanges && (v.number < 0 || v.number > 4294967295) then throw .range
    let vid := identifier v.name
    if cfg.rejectDupIdents && vseen.contains vid then throw .duplicate
    let checked := kept o v.attributes
    let seen' ← checkAttrs cfg true seen checked
    let emitted := sortAttrs cfg (if cfg.dropIgnoredVendorAttrs then checked else v.attributes)
    let values := sortValues v.values
    checkAttrValues cfg emitted values
    let (evs, imps) ← checkVendors cfg o seen' (vid :: vseen) rest
    pure (⟨v.name, v.number, emitted, values⟩ :: evs, checked.flatMap declaredImports ++ imps)

/-- `sortVendors.Less`: by number; repaired: ties by name -/
def evendorLess (cfg : Cfg) (a b : EVendor) : Bool :=
  if cfg.sortFixed then a.number < b.number || (a.number == b.number && bytesLt a.name b.name)
  else a.number < b.number

def sortVendors (cfg : Cfg) (vs : List EVendor) : List EVendor := sortStable (evendorLess cfg) vs

/-! ## Generate -/

/-- the standard-library imports the validity loops can put into `baseImports` (a Go map, printed in
    map order and then sorted by go/format: this is the sorted order) -/
def stdImports : List Imp :=
  [Imp.std (bs "crypto/rand"), Imp.std (bs "errors"), Imp.std (bs "net"), Imp.std (bs "strconv"), Imp.std (bs "time")]

def dedupBytes : List Bytes → List Bytes
  | [] => []
  | p :: l => p :: (dedupBytes l).filter (· != p)

/-- (as found) an emitted vendor attribute whose OID is empty: `attr.OID[0]` panics -/
def vendorAttrPanics (a : Attribute) : Bool := hasTemplate a.typ && a.oid.isEmpty

/-- Known limits of the model (see Props/C17 `dot_imports_exact`):
    * `imports` lists the dot imports in the order of the (sorted) external attributes, de-duplicated;
      go/format then sorts that import group by path.  As a set it is the same (the driver compares the
      sorted rendering). -/
def generate (cfg : Cfg) (d : Dictionary) (o : Options) : Except Err Output := do
  -- top-level attributes
  let checked := kept o d.attributes
  let seen ← checkAttrs cfg false [] checked
  let attrs := sortAttrs cfg checked
  -- external attributes, sorted by name
  let exts := sortStable (fun a b => bytesLt a.1 b.1) o.refs
  -- VALUEs
  let vals := d.values.filter (fun v => !o.ignore.contains v.attrName)
  if vals.any (fun v => route attrs exts v == .unknown) then throw .unknownValue
  let locals := sortValues (vals.filter (fun v => route attrs exts v == .loc))
  let extVals (e : Bytes × Bytes) := vals.filter (fun v => route attrs exts v == .ext e.1)
  checkAttrValues cfg attrs locals
  exts.forM (fun e => valuesOK cfg none (extVals e))
  -- vendors
  let (evs, vimps) ← checkVendors cfg o seen [] d.vendors
  let evs := sortVendors cfg evs
  -- does go/format accept the text?
  if evs.any (fun v => v.attrs.any vendorAttrPanics) then throw .panic
  if attrs.any (fun a => !lexesAsIdent (identifier a.name) || (isIntKind a.typ && (identifier a.name).isEmpty)) then throw .format
  if evs.any (fun v => v.attrs.any (fun a => hasTemplate a.typ &&
      (!lexesAsIdent (identifier a.name) || (isIntKind a.typ && (identifier a.name).isEmpty)))) then throw .format
  -- an external attribute (`-ref NAME=path`) with at least one VALUE gets `<id>_Strings[<id>_Value_<v>] = "…"` and
  -- `<id>_Value_<v> <id> = n`: not Go when `<id>` starts with a digit (`-ref -1=p`: `1_Strings[…`).  An EMPTY
  -- `<id>` (`-ref -=p`) is accepted: `_Strings[_Value_X] = "x"`, `_Value_X = 1`.  Without VALUEs nothing but
  -- `func init() {}` / `const ()` is emitted, whatever the name.
  if exts.any (fun e => !(extVals e).isEmpty && !lexesAsIdent (identifier e.1)) then throw .format
  -- emission
  -- `if len(vendors) > 0 { baseImports["errors"] }`: the vendor helpers report malformed attributes
  let declared := checked.flatMap declaredImports ++ vimps ++ (if !evs.isEmpty then [Imp.std (bs "errors")] else [])
  let imports :=
    stdImports.filter declared.contains
    ++ (if !attrs.isEmpty || !evs.isEmpty then [Imp.radius] else [])
    ++ (if !evs.isEmpty then [Imp.rfc2865] else [])
    ++ (dedupBytes ((exts.filter (fun e => !(extVals e).isEmpty)).map (·.2))).map Imp.dot
  let sections : List (Origin × List Decl) :=
    attrs.map (fun a => (Origin.attr false a, [(⟨.const, .typeConst, identifier a.name ++ bs "_Type", [], [.radiusType]⟩ : Decl)]))
    ++ evs.map (fun v => (Origin.vendor v.name, [(⟨.const, .vendorId, bs "_" ++ identifier v.name ++ bs "_VendorID", [], [.untyped]⟩ : Decl)]))
    ++ exts.map (fun e => (Origin.ext e.1,
        (⟨.func, .extInit, bs "init", [], []⟩ : Decl)
        :: (extVals e).map (fun v => (⟨.const, .extValue, identifier v.attrName ++ bs "_Value_" ++ identifier v.name, [], [.named (identifier v.attrName)]⟩ : Decl))))
    ++ attrs.map (fun a => (Origin.attr false a, attrDecls false a locals))
    ++ evs.flatMap (fun v => (Origin.vendor v.name, vendorHelperDecls (identifier v.name))
        :: v.attrs.map (fun a => (Origin.attr true a, attrDecls true a v.values)))
  pure ⟨imports, sections⟩

def inventory (cfg : Cfg) (d : Dictionary) (o : Options) : Except Err (List Decl) :=
  (generate cfg d o).map (·.decls)

def imports (cfg : Cfg) (d : Dictionary) (o : Options) : Except Err (List Imp) :=
  (generate cfg d o).map (·.imports)

def accept (cfg : Cfg) (d : Dictionary) (o : Options) : Bool :=
  match generate cfg d o with | .ok _ => true | .error _ => false

/-! ## Specification side: what the property documents (used by Props/C17 and by the driver's oracle) -/
namespace Spec

/-- the helper functions documented for an attribute kind: typed Add/Get/Gets/Lookup/Set/Del, String
    variants for text and octets, only Get/Lookup/Set/Del (and String variants) for concat attributes,
    nothing for kinds without helpers (vsa and unsupported types) -/
def helperRoles (vendor : Bool) (a : Attribute) : List Role :=
  if stringy a.typ then
    if concatenated a && !vendor then [.get, .getString, .lookup, .lookupString, .set, .setString, .del]
    else [.add, .addString, .get, .getString, .gets, .getStrings, .lookup, .lookupString, .set, .setString, .del]
  else if hasTemplate a.typ then [.add, .get, .gets, .lookup, .set, .del]
  else []

/-- the declaration carries a tag: a `tag byte` parameter after the packet (writers), a leading
    `tag byte` result (Get/Lookup), a leading `tags []byte` result (Gets) -/
def hasTagParam (d : Decl) : Bool :=
  if d.role.isWriter then d.params.length == 3 && d.params[1]? == some Ty.byte
  else match d.role with
    | .get | .getString => d.results.length == 2 && d.results.head? == some Ty.byte
    | .lookup | .lookupString => d.results.length == 3 && d.results.head? == some Ty.byte
    | .gets | .getStrings => d.results.length == 3 && d.results.head? == some Ty.bytes
    | _ => false

/-- the declaration takes the request packet as a second packet parameter `q` -/
def hasRequestParam (d : Decl) : Bool := d.params == [Ty.packet, Ty.packet]

/-- imports the emitted sections refer to (dot imports aside) -/
def neededImports (secs : List (Origin × List Decl)) : List Imp :=
  secs.flatMap fun s =>
    match s.1 with
    | .attr vendor a => Imp.radius :: (if s.2.all (·.role == .typeConst) then [] else usedImports vendor a)
    | .vendor _ => [Imp.radius, Imp.rfc2865, Imp.std (bs "errors")]
    | .ext _ => []

/-- same vendor up to the order of its ATTRIBUTE declarations -/
def VendorEquiv (v w : Vendor) : Prop :=
  v.name = w.name ∧ v.number = w.number ∧ v.typeOctets = w.typeOctets ∧ v.lengthOctets = w.lengthOctets
  ∧ v.values = w.values ∧ v.attributes.Perm w.attributes

/-- element-wise `VendorEquiv` -/
inductive VendorsEquiv : List Vendor → List Vendor → Prop
  | nil : VendorsEquiv [] []
  | cons {v w vs ws} : VendorEquiv v w → VendorsEquiv vs ws → VendorsEquiv (v :: vs) (w :: ws)

/-- `d₂` is `d₁` with its ATTRIBUTE and VENDOR declarations permuted (VALUE lines keep their order) -/
def PermRel (d₁ d₂ : Dictionary) : Prop :=
  d₁.attributes.Perm d₂.attributes ∧ d₁.values = d₂.values
  ∧ ∃ vs : List Vendor, VendorsEquiv d₁.vendors vs ∧ vs.Perm d₂.vendors

/-- names that must be pairwise distinct in a Go file: everything except the `init` functions -/
def declaredNames (out : Output) : List Bytes :=
  (out.decls.filter (fun d => d.role != .extInit)).map (·.name)

end Spec

end RV.Gen
