/-
  C02 — the *checked* mirror of the decode surface.

  The models in Wire/Auth/Codec/Password/Vendor/Helper are written with total list operations
  (`take`, `drop`, `getD`) behind the same guards as the Go code, so "never panics" holds of them
  almost by construction.  This file is a second, lower-level mirror in which every index
  expression `b[i]` and every slice expression `b[i:j]` of the Go source is a *partial* operation
  that yields `Res.fault` exactly when the Go runtime would panic, and every loop is a
  well-founded recursion accepted by Lean without fuel (so each function returns after finitely
  many steps on every input).  RV/Proofs/Checked.lean proves that under the code's own guards
  nothing faults and that the checked mirror computes what the total models compute.

  Conventions.
  * `idx b i`        Go `b[i]`        fault iff `i ≥ len(b)`
  * `slice b i j`    Go `b[i:j]`      fault iff `i > j ∨ j > len(b)` (only `len` is modelled)
  * `sliceFrom b i`  Go `b[i:]`       = `b[i:len(b)]`
  * `sliceTo b j`    Go `b[:j]`       = `b[0:j]`
  * `store b i v`    Go `b[i] = v`    fault iff `i ≥ len(b)`
  * `goCopy dst src` Go `copy(dst, src)` — total in Go (copies `min(len)` bytes)
  * `a ++ x`         Go `append(a, x...)` / `hash.Sum(a)` — total in Go
  * `forLoop step hi body i s`   Go `for i := i; i < hi; i += step { s = body(i, s) }`
  * integer shifts and ors of disjoint byte lanes are written with `*` and `+`.

  Core Lean only.
-/
import RV.Model.Helper
set_option linter.unusedVariables false  -- `h : …` binders of `match h : e with` are used by `decreasing_by`
namespace RV

namespace Res
@[simp] theorem pure_eq {α} (a : α) : (pure a : Res α) = .ok a := rfl
@[simp] theorem ok_bind {α β} (a : α) (f : α → Res β) : (Res.ok a >>= f) = f a := rfl
@[simp] theorem err_bind {α β} (f : α → Res β) : ((Res.err : Res α) >>= f) = .err := rfl
@[simp] theorem fault_bind {α β} (f : α → Res β) : ((Res.fault : Res α) >>= f) = .fault := rfl
end Res

namespace Checked

/-! ### primitives that can fail -/

/-- Go `b[i]` -/
def idx (b : Bytes) (i : Nat) : Res UInt8 := if i < b.length then .ok (b.getD i 0) else .fault

/-- Go `b[i:j]` -/
def slice (b : Bytes) (i j : Nat) : Res Bytes :=
  if i ≤ j ∧ j ≤ b.length then .ok ((b.drop i).take (j - i)) else .fault

/-- Go `b[i:]` -/
def sliceFrom (b : Bytes) (i : Nat) : Res Bytes := slice b i b.length

/-- Go `b[:j]` -/
def sliceTo (b : Bytes) (j : Nat) : Res Bytes := slice b 0 j

/-- Go `b[i] = v` -/
def store (b : Bytes) (i : Nat) (v : UInt8) : Res Bytes :=
  if i < b.length then .ok (b.set i v) else .fault

theorem idx_ok {b : Bytes} {i : Nat} (h : i < b.length) : idx b i = .ok (b.getD i 0) := by
  simp [idx, h]
theorem idx_fault {b : Bytes} {i : Nat} (h : b.length ≤ i) : idx b i = .fault := by
  simp [idx]; omega
theorem slice_ok {b : Bytes} {i j : Nat} (h1 : i ≤ j) (h2 : j ≤ b.length) :
    slice b i j = .ok ((b.drop i).take (j - i)) := by
  simp [slice, h1, h2]
theorem slice_fault {b : Bytes} {i j : Nat} (h : j < i ∨ b.length < j) : slice b i j = .fault := by
  simp [slice]; omega
theorem sliceFrom_ok {b : Bytes} {i : Nat} (h : i ≤ b.length) : sliceFrom b i = .ok (b.drop i) := by
  simp [sliceFrom, slice, h, List.take_of_length_le]
theorem sliceFrom_fault {b : Bytes} {i : Nat} (h : b.length < i) : sliceFrom b i = .fault := by
  simp [sliceFrom, slice]; omega
theorem sliceTo_ok {b : Bytes} {j : Nat} (h : j ≤ b.length) : sliceTo b j = .ok (b.take j) := by
  simp [sliceTo, slice, h]
theorem store_ok {b : Bytes} {i : Nat} (v : UInt8) (h : i < b.length) : store b i v = .ok (b.set i v) := by
  simp [store, h]

/-- Go `copy(dst, src)`: never panics, copies `min(len(dst), len(src))` bytes; result is `dst` after the copy -/
def goCopy (dst src : Bytes) : Bytes := src.take dst.length ++ dst.drop src.length

/-- `binary.BigEndian.Uint16(b)`: `_ = b[1]; uint16(b[1]) | uint16(b[0])<<8` -/
def be16 (b : Bytes) : Res Nat := do
  let _ ← idx b 1
  let b1 ← idx b 1
  let b0 ← idx b 0
  pure (b1.toNat + b0.toNat * 2 ^ 8)

/-- `binary.BigEndian.Uint32(b)`: `_ = b[3]; uint32(b[3]) | uint32(b[2])<<8 | uint32(b[1])<<16 | uint32(b[0])<<24` -/
def be32 (b : Bytes) : Res Nat := do
  let _ ← idx b 3
  let b3 ← idx b 3
  let b2 ← idx b 2
  let b1 ← idx b 1
  let b0 ← idx b 0
  pure (b3.toNat + b2.toNat * 2 ^ 8 + b1.toNat * 2 ^ 16 + b0.toNat * 2 ^ 24)

/-- `binary.BigEndian.Uint64(b)`: `_ = b[7]; uint64(b[7]) | uint64(b[6])<<8 | … | uint64(b[0])<<56` -/
def be64 (b : Bytes) : Res Nat := do
  let _ ← idx b 7
  let b7 ← idx b 7
  let b6 ← idx b 6
  let b5 ← idx b 5
  let b4 ← idx b 4
  let b3 ← idx b 3
  let b2 ← idx b 2
  let b1 ← idx b 1
  let b0 ← idx b 0
  pure (b7.toNat + b6.toNat * 2 ^ 8 + b5.toNat * 2 ^ 16 + b4.toNat * 2 ^ 24 + b3.toNat * 2 ^ 32 +
        b2.toNat * 2 ^ 40 + b1.toNat * 2 ^ 48 + b0.toNat * 2 ^ 56)

/-! ### the counting loop -/

/-- `for i := i; i < hi; i += step { s, err = body(i, s); if err … return }` with `step > 0`.
    Well-founded on `hi - i`: Lean accepts the definition, so the loop ends on every input. -/
def forLoop {σ : Type} (step : Nat) (hstep : 0 < step) (hi : Nat) (body : Nat → σ → Res σ)
    (i : Nat) (s : σ) : Res σ :=
  if i < hi then
    match body i s with
    | .ok s' => forLoop step hstep hi body (i + step) s'
    | .err => .err
    | .fault => .fault
  else .ok s
termination_by hi - i
decreasing_by omega

/-! ### attributes.go: ParseAttributes -/

/-- one iteration of `for len(b) > 0 { … }`: the parsed attribute and the new `b` -/
def parseStep (b : Bytes) : Res (AVP × Bytes) :=
  if b.length < 2 then .err
  else do
    let l ← idx b 1                               -- length := int(b[1])
    let length := l.toNat
    if length > b.length ∨ length < 2 ∨ length > 255 then .err
    else do
      let t ← idx b 0                             -- Type: Type(b[0])
      let value ← (if length > 2 then slice b 2 length else pure [])   -- append(Attribute(nil), b[2:length]...)
      let rest ← sliceFrom b length               -- b = b[length:]
      pure (⟨t.toNat, value⟩, rest)

theorem parseStep_lt {b : Bytes} {avp : AVP} {rest : Bytes} (h : parseStep b = .ok (avp, rest)) :
    rest.length < b.length := by
  unfold parseStep at h
  by_cases h1 : b.length < 2
  · rw [if_pos h1] at h; cases h
  · rw [if_neg h1, idx_ok (by omega), Res.ok_bind] at h
    by_cases h2 : (b.getD 1 0).toNat > b.length ∨ (b.getD 1 0).toNat < 2 ∨ (b.getD 1 0).toNat > 255
    · rw [if_pos h2] at h; cases h
    · rw [if_neg h2, idx_ok (by omega), Res.ok_bind, sliceFrom_ok (by omega)] at h
      split at h
      · rw [slice_ok (by omega) (by omega)] at h
        simp only [Res.ok_bind, Res.pure_eq, Res.ok.injEq, Prod.mk.injEq] at h
        rw [← h.2, List.length_drop]; omega
      · simp only [Res.ok_bind, Res.pure_eq, Res.ok.injEq, Prod.mk.injEq] at h
        rw [← h.2, List.length_drop]; omega

/-- `var attrs Attributes; for len(b) > 0 { …; attrs = append(attrs, avp); b = b[length:] }; return attrs` -/
def parseAttrsLoop (b : Bytes) (attrs : Attrs) : Res Attrs :=
  if b.length > 0 then
    match h : parseStep b with
    | .ok (avp, rest) => parseAttrsLoop rest (attrs ++ [avp])
    | .err => .err
    | .fault => .fault
  else .ok attrs
termination_by b.length
decreasing_by exact parseStep_lt h

def parseAttrs (b : Bytes) : Res Attrs := parseAttrsLoop b []

/-! ### packet.go: Parse -/

def parse (b secret : Bytes) : Res Packet :=
  if b.length < 20 then .err
  else do
    let lf ← slice b 2 4                          -- b[2:4]
    let length ← be16 lf                          -- int(binary.BigEndian.Uint16(…))
    if length < 20 ∨ length > maxPacketLength ∨ b.length < length then .err
    else do
      let body ← slice b 20 length                -- b[20:length]
      let attrs ← parseAttrs body
      let code ← idx b 0                          -- Code(b[0])
      let id ← idx b 1                            -- b[1]
      let auth ← slice b 4 20                     -- copy(packet.Authenticator[:], b[4:20])
      pure ⟨code.toNat, id, auth, secret, attrs⟩

/-! ### packet.go: IsAuthenticResponse / IsAuthenticRequest -/

def isAuthenticResponse (H : Hash) (response request secret : Bytes) : Res Bool :=
  if response.length < 20 ∨ request.length < 20 ∨ secret.length = 0 then pure false
  else do
    let p1 ← sliceTo response 4                   -- hash.Write(response[:4])
    let p2 ← slice request 4 20                   -- hash.Write(request[4:20])
    let p3 ← sliceFrom response 20                -- hash.Write(response[20:])
    let want ← slice response 4 20                -- response[4:20]
    pure (H (p1 ++ p2 ++ p3 ++ secret) == want)

def isAuthenticRequest (H : Hash) (request secret : Bytes) : Res Bool :=
  if request.length < 20 ∨ secret.length = 0 then pure false
  else do
    let c ← idx request 0                         -- switch Code(request[0])
    if c.toNat = 1 ∨ c.toNat = 12 then pure true
    else if c.toNat = 4 ∨ c.toNat = 40 ∨ c.toNat = 43 then do
      let p1 ← sliceTo request 4                  -- hash.Write(request[:4])
      let nul := zeros 16                         -- var nul [16]byte
      let p3 ← sliceFrom request 20               -- hash.Write(request[20:])
      let want ← slice request 4 20               -- request[4:20]
      pure (H (p1 ++ nul ++ p3 ++ secret) == want)
    else pure false

/-! ### attribute.go: the typed decoders -/

def integer (a : Bytes) : Res Nat := if a.length ≠ 4 then .err else be32 a
def integer64 (a : Bytes) : Res Nat := if a.length ≠ 8 then .err else be64 a
def short (a : Bytes) : Res Nat := if a.length ≠ 2 then .err else be16 a

/-- `b := make([]byte, len(a)); copy(b, a)` -/
def bytesOf (a : Bytes) : Bytes := goCopy (zeros a.length) a

def ipAddr (a : Bytes) : Res Bytes := if a.length ≠ 4 then .err else pure (goCopy (zeros 4) a)
def ipv6Addr (a : Bytes) : Res Bytes := if a.length ≠ 16 then .err else pure (goCopy (zeros 16) a)
def ifid (a : Bytes) : Res Bytes := if a.length ≠ 8 then .err else pure (goCopy (zeros a.length) a)

def date (a : Bytes) : Res Int :=
  if a.length ≠ 4 then .err else do
    let sec ← be32 a
    pure (sec : Int)                              -- time.Unix(int64(sec), 0)

def vendorSpecific (a : Bytes) : Res (Nat × Bytes) :=
  if a.length < 5 then .err
  else do
    let h ← sliceTo a 4                           -- a[:4]
    let vendorID ← be32 h
    let t ← sliceFrom a 4                         -- a[4:]
    pure (vendorID, goCopy (zeros (a.length - 4)) t)

def tlv (a : Bytes) : Res (UInt8 × Bytes) :=
  if a.length < 3 ∨ a.length > 255 then .err      -- `||` short-circuits: a[1] is read only past these
  else do
    let l ← idx a 1
    if l.toNat ≠ a.length then .err
    else do
      let t ← idx a 0
      let v ← sliceFrom a 2
      pure (t, goCopy (zeros (a.length - 2)) v)

/-- `for ; bit < 8; bit++ { if ip[octet]&(1<<(7-bit)) != 0 { return err } }` -/
def prefixBits (ip : Bytes) (octet : Nat) (bit : Nat) : Res Unit :=
  forLoop 1 (by decide) 8 (fun bit _ => do
    let x ← idx ip octet
    if x &&& ((1 : UInt8) <<< UInt8.ofNat (7 - bit)) ≠ 0 then .err else pure ()) bit ()

def ipv6Prefix (a : Bytes) : Res (Bytes × Bytes) :=
  if a.length < 2 ∨ a.length > 18 then .err
  else do
    let pl ← idx a 1                              -- prefixLength := int(a[1])
    let prefixLength := pl.toNat
    if prefixLength > 128 then .err
    else do
      let src ← sliceFrom a 2                     -- a[2:]
      let ip := goCopy (zeros 16) src             -- ip := make(net.IP, 16); copy(ip, a[2:])
      -- bit := uint(prefixLength % 8); for octet := prefixLength / 8; octet < len(ip); octet++ { …; bit = 0 }
      let _ ← forLoop 1 (by decide) ip.length (fun octet bit => do
                prefixBits ip octet bit
                pure 0) (prefixLength / 8) (prefixLength % 8)
      pure (ip, cidrMask prefixLength)

/-! ### attribute.go: UserPassword -/

/-- `for j, b := range blk { dec[base+j] ^= b }` (load, xor, store) -/
def xorRange (base : Nat) : Bytes → Nat → Bytes → Res Bytes
  | [], _, dec => pure dec
  | b :: bs, j, dec => do
    let x ← idx dec (base + j)
    let dec ← store dec (base + j) (x ^^^ b)
    xorRange base bs (j + 1) dec

/-- `bytes.IndexByte` -/
def indexByte : Bytes → UInt8 → Option Nat
  | [], _ => none
  | x :: xs, c => if x = c then some 0 else (indexByte xs c).map (· + 1)

def userPassword (H : Hash) (a secret ra : Bytes) : Res Bytes :=
  if a.length < 16 ∨ a.length > 128 ∨ a.length % 16 ≠ 0 then .err
  else if secret.length = 0 then .err
  else if ra.length ≠ 16 then .err
  else do
    let dec : Bytes := []                         -- make([]byte, 0, len(a))
    let dec := dec ++ H (secret ++ ra)            -- dec = hash.Sum(dec)
    let first ← sliceTo a 16                      -- a[:16]
    let dec ← xorRange 0 first 0 dec              -- for i, b := range a[:16] { dec[i] ^= b }
    let dec ← forLoop 16 (by decide) a.length (fun i dec => do
      let prev ← slice a (i - 16) i               -- a[i-16 : i]
      let dec := dec ++ H (secret ++ prev)        -- dec = hash.Sum(dec)
      let blk ← slice a i (i + 16)                -- a[i : i+16]
      xorRange i blk 0 dec) 16 dec                -- dec[i+j] ^= b
    match indexByte dec 0 with                    -- if i := bytes.IndexByte(dec, 0); i > -1 { return dec[:i] }
    | some i => sliceTo dec i
    | none => pure dec

/-! ### attribute.go: TunnelPassword -/

/-- the block loop; `b` is the `[16]byte` the digest is summed into -/
def tpChunks (H : Hash) (a secret ra salt : Bytes) (chunks : Nat) (plaintext : Bytes) : Res Bytes :=
  forLoop 1 (by decide) chunks (fun chunk plaintext => do
    let iv ← (if chunk = 0 then pure (ra ++ salt)  -- hash.Write(requestAuthenticator); hash.Write(salt)
              else slice a ((chunk - 1) * 16) (chunk * 16))  -- a[(chunk-1)*16 : chunk*16]
    let b := H (secret ++ iv)                     -- hash.Sum(b[:0])
    forLoop 1 (by decide) 16 (fun i plaintext => do
      let x ← idx a (chunk * 16 + i)              -- a[chunk*16+i]
      let y ← idx b i                             -- b[i]
      store plaintext (chunk * 16 + i) (x ^^^ y)) 0 plaintext) 0 plaintext

def tunnelPassword (H : Hash) (a secret ra : Bytes) : Res (Bytes × Bytes) :=
  if a.length > 252 ∨ a.length < 18 ∨ (a.length - 2) % 16 ≠ 0 then .err
  else if secret.length = 0 then .err
  else if ra.length ≠ 16 then .err
  else do
    let a0 ← idx a 0
    if a0 &&& 0x80 ≠ 0x80 then .err
    else do
      let s ← sliceTo a 2
      let salt := [] ++ s                         -- append([]byte(nil), a[:2]...)
      let a ← sliceFrom a 2                       -- a = a[2:]
      let chunks := a.length / 16
      let plaintext := zeros (chunks * 16)        -- make([]byte, chunks*16)
      let plaintext ← tpChunks H a secret ra salt chunks plaintext
      let passwordLength ← idx plaintext 0        -- plaintext[0]
      if (passwordLength.toNat : Int) > (plaintext.length : Int) - 1 then .err
      else do
        -- `1+passwordLength` is evaluated in `byte` arithmetic
        let password ← slice plaintext 1 ((1 : UInt8) + passwordLength).toNat
        pure (password, salt)

/-- NEGATIVE CONTROL: TunnelPassword with the embedded-length check removed -/
def tunnelPasswordNoLenCheck (H : Hash) (a secret ra : Bytes) : Res (Bytes × Bytes) :=
  if a.length > 252 ∨ a.length < 18 ∨ (a.length - 2) % 16 ≠ 0 then .err
  else if secret.length = 0 then .err
  else if ra.length ≠ 16 then .err
  else do
    let a0 ← idx a 0
    if a0 &&& 0x80 ≠ 0x80 then .err
    else do
      let s ← sliceTo a 2
      let salt := [] ++ s
      let a ← sliceFrom a 2
      let chunks := a.length / 16
      let plaintext := zeros (chunks * 16)
      let plaintext ← tpChunks H a secret ra salt chunks plaintext
      let passwordLength ← idx plaintext 0
      let password ← slice plaintext 1 ((1 : UInt8) + passwordLength).toNat
      pure (password, salt)

/-! ### dictionarygen/vendor.go: `_GetsVendor`, `_LookupVendor`

    `guarded = true` is the shipped template.  `guarded = false` removes the test
    `int(vsaLen) > len(vsa)` and exists only for the negative control. -/

/-- `vsaTyp, vsaLen := vsa[0], vsa[1]; if int(vsaLen) > len(vsa) || vsaLen < 3 { break }`
    (`none` = `break`) -/
def vsaHdr (guarded : Bool) (vsa : Bytes) : Res (Option (UInt8 × Nat)) := do
  let vsaTyp ← idx vsa 0
  let vsaLen ← idx vsa 1
  if (guarded = true ∧ vsaLen.toNat > vsa.length) ∨ vsaLen.toNat < 3 then pure none
  else pure (some (vsaTyp, vsaLen.toNat))

theorem vsaHdr_ge {g : Bool} {vsa : Bytes} {t : UInt8} {l : Nat} (h : vsaHdr g vsa = .ok (some (t, l))) :
    3 ≤ l := by
  unfold vsaHdr idx at h
  split at h
  · split at h
    · simp only [Res.ok_bind] at h
      split at h
      · cases h
      · simp only [Res.pure_eq, Res.ok.injEq, Option.some.injEq, Prod.mk.injEq] at h
        omega
    · cases h
  · cases h

theorem sliceFrom_lt {vsa rest : Bytes} {l : Nat} (h : sliceFrom vsa l = .ok rest) (hl : 3 ≤ l) :
    rest.length < vsa.length := by
  unfold sliceFrom slice at h
  split at h
  · cases h; simp only [List.length_take, List.length_drop]; omega
  · cases h

/-- one payload of `_GetsVendor`:
    `for len(vsa) >= 3 { …; if vsaTyp == typ { values = append(values, vsa[2:int(vsaLen)]) }; vsa = vsa[int(vsaLen):] }` -/
def vsaGetsLoop (guarded : Bool) (typ : UInt8) (vsa : Bytes) (values : List Bytes) : Res (List Bytes) :=
  if vsa.length ≥ 3 then
    match h0 : vsaHdr guarded vsa with
    | .ok none => .ok values
    | .ok (some (vsaTyp, vsaLen)) =>
      match (if vsaTyp = typ then (do let v ← slice vsa 2 vsaLen; pure (values ++ [v])) else pure values) with
      | .ok values =>
        match h1 : sliceFrom vsa vsaLen with
        | .ok rest => vsaGetsLoop guarded typ rest values
        | .err => .err
        | .fault => .fault
      | .err => .err
      | .fault => .fault
    | .err => .err
    | .fault => .fault
  else .ok values
termination_by vsa.length
decreasing_by exact sliceFrom_lt h1 (vsaHdr_ge h0)

/-- one payload of `_LookupVendor`: the same walk with `return vsa[2:int(vsaLen)], true` on a hit -/
def vsaLookupLoop (guarded : Bool) (typ : UInt8) (vsa : Bytes) : Res (Option Bytes) :=
  if vsa.length ≥ 3 then
    match h0 : vsaHdr guarded vsa with
    | .ok none => .ok none
    | .ok (some (vsaTyp, vsaLen)) =>
      if vsaTyp = typ then do
        let v ← slice vsa 2 vsaLen
        pure (some v)
      else
        match h1 : sliceFrom vsa vsaLen with
        | .ok rest => vsaLookupLoop guarded typ rest
        | .err => .err
        | .fault => .fault
    | .err => .err
    | .fault => .fault
  else .ok none
termination_by vsa.length
decreasing_by exact sliceFrom_lt h1 (vsaHdr_ge h0)

/-- `for _, avp := range p.Attributes { if avp.Type != 26 {continue}; vendorID, vsa, err := radius.VendorSpecific(attr);
    if err != nil || vendorID != V {continue}; <walk> }` -/
def getsVendorLoop (guarded : Bool) (vid : Nat) (typ : UInt8) : Attrs → List Bytes → Res (List Bytes)
  | [], values => .ok values
  | avp :: rest, values =>
    if avp.typ ≠ vsaType then getsVendorLoop guarded vid typ rest values
    else
      match vendorSpecific avp.val with
      | .fault => .fault
      | .err => getsVendorLoop guarded vid typ rest values
      | .ok (vendorID, vsa) =>
        if vendorID ≠ vid then getsVendorLoop guarded vid typ rest values
        else
          match vsaGetsLoop guarded typ vsa values with
          | .ok values => getsVendorLoop guarded vid typ rest values
          | .err => .err
          | .fault => .fault

def getsVendor (vid : Nat) (typ : UInt8) (as : Attrs) : Res (List Bytes) := getsVendorLoop true vid typ as []

def lookupVendorLoop (guarded : Bool) (vid : Nat) (typ : UInt8) : Attrs → Res (Option Bytes)
  | [] => .ok none
  | avp :: rest =>
    if avp.typ ≠ vsaType then lookupVendorLoop guarded vid typ rest
    else
      match vendorSpecific avp.val with
      | .fault => .fault
      | .err => lookupVendorLoop guarded vid typ rest
      | .ok (vendorID, vsa) =>
        if vendorID ≠ vid then lookupVendorLoop guarded vid typ rest
        else
          match vsaLookupLoop guarded typ vsa with
          | .ok (some v) => .ok (some v)
          | .ok none => lookupVendorLoop guarded vid typ rest
          | .err => .err
          | .fault => .fault

def lookupVendor (vid : Nat) (typ : UInt8) (as : Attrs) : Res (Option Bytes) := lookupVendorLoop true vid typ as

/-- the shipped walker on one payload -/
def vsaGets (typ : UInt8) (vsa : Bytes) : Res (List Bytes) := vsaGetsLoop true typ vsa []
/-- NEGATIVE CONTROL: the walker without `int(vsaLen) > len(vsa)` -/
def vsaGetsNoLenCheck (typ : UInt8) (vsa : Bytes) : Res (List Bytes) := vsaGetsLoop false typ vsa []

/-! ### dictionarygen/attributes.go: the parts of `X_Lookup` / `X_Gets` that index or slice -/

/-- string / octets with `has_tag`: `if len(a) >= 1 && a[0] <= 0x1F { tag = a[0]; a = a[1:] }` -/
def tagStrip (a : Bytes) : Res (UInt8 × Bytes) :=
  if a.length ≥ 1 then do                         -- `&&` short-circuits
    let a0 ← idx a 0
    if a0.toNat ≤ 0x1F then do
      let tag ← idx a 0
      let rest ← sliceFrom a 1
      pure (tag, rest)
    else pure (0, a)
  else pure (0, a)

/-- integer kinds with `has_tag`: `if len(a) >= 1 && a[0] <= 0x1F { tag = a[0]; a = append(radius.Attribute{0x00}, a[1:]...) }` -/
def tagStripInt (a : Bytes) : Res (UInt8 × Bytes) :=
  if a.length ≥ 1 then do
    let a0 ← idx a 0
    if a0.toNat ≤ 0x1F then do
      let tag ← idx a 0
      let rest ← sliceFrom a 1
      pure (tag, [0x00] ++ rest)
    else pure (0, a)
  else pure (0, a)

/-- byte kind: `if len(a) != 1 { err }; value = a[0]` -/
def byteKind (a : Bytes) : Res UInt8 := if a.length ≠ 1 then .err else idx a 0

/-- `value, _, err = radius.TunnelPassword(a, p.Secret, q.Authenticator[:])` -/
def tpPlain (H : Hash) (a secret auth : Bytes) : Res Bytes := do
  let r ← tunnelPassword H a secret auth
  pure r.1

/-- `radius.Integer` / `radius.Integer64` / `radius.Short` chosen by the template's bit size -/
def intOf (w : Nat) (a : Bytes) : Res Nat :=
  if w = 2 then short a else if w = 8 then integer64 a else integer a

/-- body of `X_Lookup` after the attribute was found, assembled from the checked pieces; same case
    structure as `RV.decodeValue` -/
def decodeValue (H : Hash) (d : Desc) (a secret auth : Bytes) : Res (UInt8 × GVal) :=
  match d.kind with
  | .string | .octets | .concat => do
    let ta ← (if d.hasTag then tagStrip a else pure (0, a))
    let v ← (match d.encrypt with
             | 1 => userPassword H ta.2 secret auth
             | 2 => tpPlain H ta.2 secret auth
             | _ => pure (bytesOf ta.2))
    if d.size.isSome ∧ d.size ≠ some v.length then .err else pure (ta.1, .bytes v)
  | .ipaddr | .ipv6addr => do
    let a ← (if d.usesSalt then tpPlain H a secret auth else pure a)
    let ip ← (if d.kind = .ipaddr then ipAddr a else ipv6Addr a)
    pure (0, .bytes ip)
  | .ifid => do let x ← ifid a; pure (0, .bytes x)
  | .ipv6prefix => do let p ← ipv6Prefix a; pure (0, .pfx (some p))
  | .date => do let u ← date a; pure (0, .time u)
  | .byte => do let v ← byteKind a; pure (0, .nat v.toNat)
  | k =>
    match k.intBytes with
    | none => .err
    | some w =>
      if d.hasTag then do
        let ta ← tagStripInt a
        let v ← intOf w ta.2
        pure (ta.1, .nat v)
      else do
        let a ← (if d.usesSalt then tpPlain H a secret auth else pure a)
        let v ← intOf w a
        pure (0, .nat v)

/-! ### debug/debug.go: dumpAttrs — which decodings are attempted under which length guards -/

/-- `dictAttr.Type` as far as the `switch` distinguishes it; `none` = attribute not in the dictionary -/
inductive DumpType where
  | text (encrypt1 : Bool)   -- AttributeString, AttributeOctets (+ FlagEncrypt == 1)
  | date | integer | ip | ifid | other
deriving DecidableEq, Repr

/-- what is formatted (the formatting itself — `%q`, RFC3339, `net.IP.String`, hex — is total) -/
inductive DumpVal where
  | quoted (b : Bytes) | date (sec : Nat) | int (n : Nat) | ip (b : Bytes) | hw (b : Bytes) | hex (b : Bytes)
deriving DecidableEq, Repr

def dumpAttr (H : Hash) (dt : Option DumpType) (secret auth : Bytes) (avp : AVP) : Res DumpVal :=
  match dt with
  | none => pure (.hex avp.val)
  | some (.text enc) =>
    if enc then
      match userPassword H avp.val secret auth with   -- radius.UserPassword(avp.Attribute, p.Secret, p.Authenticator[:])
      | .ok v => pure (.quoted v)
      | .err => pure (.quoted avp.val)
      | .fault => .fault
    else pure (.quoted avp.val)
  | some .date =>
    if avp.val.length = 4 then do                 -- if len(avp.Attribute) == 4 { binary.BigEndian.Uint32(avp.Attribute) }
      let s ← be32 avp.val
      pure (.date s)
    else pure (.hex avp.val)
  | some .integer =>
    if avp.val.length = 4 then do                 -- case 4: binary.BigEndian.Uint32(avp.Attribute)
      let n ← be32 avp.val
      pure (.int n)
    else if avp.val.length = 8 then do            -- case 8: binary.BigEndian.Uint64(avp.Attribute)
      let n ← be64 avp.val
      pure (.int n)
    else pure (.hex avp.val)
  | some .ip =>
    if avp.val.length = 4 ∨ avp.val.length = 16 then pure (.ip avp.val) else pure (.hex avp.val)
  | some .ifid =>
    if avp.val.length = 8 then pure (.hw avp.val) else pure (.hex avp.val)
  | some .other => pure (.hex avp.val)

/-- `for _, avp := range p.Attributes { … }`; `dict` is `dictionary.AttributeByOID` -/
def dumpAttrs (H : Hash) (dict : Int → Option DumpType) (secret auth : Bytes) : Attrs → Res (List DumpVal)
  | [] => pure []
  | avp :: rest => do
    let v ← dumpAttr H (dict avp.typ) secret auth avp
    let vs ← dumpAttrs H dict secret auth rest
    pure (v :: vs)

end Checked
end RV
