/-
  Common byte-string vocabulary of the model.  Core-only (no Mathlib), so the driver links.
-/
namespace RV

abbrev Bytes := List UInt8

/-- big-endian 16-bit value of two bytes -/
def be16 (hi lo : UInt8) : Nat := hi.toNat * 256 + lo.toNat

/-- `n` zero bytes -/
def zeros (n : Nat) : Bytes := List.replicate n 0

/-- bytewise xor, truncating to the shorter argument -/
def xorBytes : Bytes → Bytes → Bytes
  | a :: as, b :: bs => (a ^^^ b) :: xorBytes as bs
  | _, _ => []

@[simp] theorem xorBytes_nil_left (b : Bytes) : xorBytes [] b = [] := by
  cases b <;> rfl

@[simp] theorem xorBytes_nil_right (a : Bytes) : xorBytes a [] = [] := by
  cases a <;> rfl

@[simp] theorem xorBytes_cons (a b : UInt8) (as bs : Bytes) :
    xorBytes (a :: as) (b :: bs) = (a ^^^ b) :: xorBytes as bs := rfl

theorem xorBytes_length (a b : Bytes) : (xorBytes a b).length = min a.length b.length := by
  induction a generalizing b with
  | nil => simp
  | cons x xs ih =>
    cases b with
    | nil => simp
    | cons y ys => simp [ih, Nat.succ_min_succ]

/-- big-endian encoding of a natural number into exactly `n` bytes (truncating high part) -/
def beBytes : Nat → Nat → Bytes
  | 0, _ => []
  | n+1, v => UInt8.ofNat (v / 256 ^ n % 256) :: beBytes n v

/-- big-endian value of a byte string -/
def beNat : Bytes → Nat
  | [] => 0
  | b :: bs => b.toNat * 256 ^ bs.length + beNat bs

theorem beBytes_length (n v : Nat) : (beBytes n v).length = n := by
  induction n with
  | zero => rfl
  | succ n ih => simp [beBytes, ih]

end RV
