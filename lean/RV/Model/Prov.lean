/-
  C13 — a heap model of Go slices, and mirrors of the observers in it.

  The models in Wire/Auth/Codec/Password/Vendor/Helper work on immutable values, so "reading never
  writes" and "results do not alias the packet" hold of them by construction.  Here a slice is a
  *view* `(buffer, offset, length)` into a heap of mutable buffers, exactly as in Go:
    * re-slicing `s[i:j]` (`Slice.sub`) stays in the same buffer;
    * `make`+`copy`, `append(nil, …)`, `append(Attribute{0}, a[1:]...)`, `hash.Sum(fresh)` and the
      string conversion allocate a NEW buffer (`copyNew`);
    * `s[i] = v` (`writeS`) and `append` within capacity (`appendS`) change a buffer in place, and
      every other slice that views this buffer sees the change.
  A packet is a list of `(type, Slice)`.  Each observer of the library is mirrored as a heap
  transformer `M α = Heap → α × Heap` that uses these primitives where the Go code slices, copies or
  stores.  WHICH bytes are computed is taken from the total models (that the Go expressions compute
  them without running out of range is C02's business, RV/Model/Checked.lean); WHERE the bytes live
  — packet buffer, input buffer, or a buffer allocated by the call — is what this file mirrors.
  RV/Proofs/Prov.lean proves that no observer changes a buffer that existed before the call, and
  that typed decoders and generated getters return only slices of buffers allocated by the call.

  Core Lean only.
-/
import RV.Model.Helper
set_option linter.unusedVariables false  -- `h : …` binders of `match h : e with` are used by `decreasing_by`
namespace RV
namespace Prov

/-! ### heap, slices, the heap monad -/

abbrev Heap := List Bytes

structure Slice where
  buf : Nat
  off : Nat
  len : Nat
deriving DecidableEq, Repr

/-- contents of buffer `k` (empty when there is no such buffer) -/
def Heap.buffer (h : Heap) (k : Nat) : Bytes := h.getD k []

/-- the bytes a slice currently shows -/
def Heap.read (h : Heap) (s : Slice) : Bytes := ((h.buffer s.buf).drop s.off).take s.len

/-- Go `s[i:j]`: the same buffer -/
def Slice.sub (s : Slice) (i j : Nat) : Slice := ⟨s.buf, s.off + i, j - i⟩

/-- Go `s[i] = v` (nothing happens outside the slice's length — Go would panic, see C02) -/
def Heap.write (h : Heap) (s : Slice) (i : Nat) (v : UInt8) : Heap :=
  if i < s.len then h.set s.buf ((h.buffer s.buf).set (s.off + i) v) else h

/-- the slice lies inside its buffer -/
def Slice.valid (h : Heap) (s : Slice) : Prop := s.buf < h.length ∧ s.off + s.len ≤ (h.buffer s.buf).length

abbrev M (α : Type) := Heap → α × Heap

instance : Monad M where
  pure a := fun h => (a, h)
  bind m f := fun h => let r := m h; f r.1 r.2

/-- read through a slice -/
def readS (s : Slice) : M Bytes := fun h => (h.read s, h)

/-- allocate a new buffer holding `data` and return the slice of all of it -/
def copyNew (data : Bytes) : M Slice := fun h => (⟨h.length, 0, data.length⟩, h ++ [data])

/-- in-place store -/
def writeS (s : Slice) (i : Nat) (v : UInt8) : M Unit := fun h => ((), h.write s i v)

/-- `for j, b := range data { s[base+j] = b }` -/
def writeRange (s : Slice) (base : Nat) : Bytes → M Unit
  | [] => pure ()
  | b :: bs => do
    writeS s base b
    writeRange s (base + 1) bs

/-- `append(s, data...)` within capacity / `hash.Sum(s)`: the buffer of `s` is extended in place -/
def appendS (s : Slice) (data : Bytes) : M Slice := fun h =>
  (⟨s.buf, s.off, s.len + data.length⟩,
   h.set s.buf ((h.buffer s.buf).take (s.off + s.len) ++ data))

/-! ### packets over the heap -/

structure HPacket where
  code : Int
  id : UInt8
  auth : Bytes                    -- `Authenticator [16]byte`: an array, held by value
  secret : Slice                  -- `Secret []byte`: the caller's slice
  attrs : List (Int × Slice)      -- `Attributes []*AVP`

/-- every buffer the packet refers to exists below `n` -/
def HPacket.below (p : HPacket) (n : Nat) : Prop :=
  p.secret.buf < n ∧ ∀ ts ∈ p.attrs, ts.2.buf < n

/-- the packet value currently stored -/
def HPacket.view (p : HPacket) (h : Heap) : Packet :=
  ⟨p.code, p.id, p.auth, h.read p.secret, p.attrs.map fun ts => ⟨ts.1, h.read ts.2⟩⟩

/-! ### slices contained in a result -/

class HasSlices (α : Type) where
  slices : α → List Slice
export HasSlices (slices)

instance : HasSlices Slice := ⟨fun s => [s]⟩
instance : HasSlices Nat := ⟨fun _ => []⟩
instance : HasSlices Int := ⟨fun _ => []⟩
instance : HasSlices UInt8 := ⟨fun _ => []⟩
instance : HasSlices Bool := ⟨fun _ => []⟩
instance : HasSlices Unit := ⟨fun _ => []⟩
instance {α β} [HasSlices α] [HasSlices β] : HasSlices (α × β) := ⟨fun p => slices p.1 ++ slices p.2⟩
instance {α} [HasSlices α] : HasSlices (Option α) := ⟨fun o => match o with | some a => slices a | none => []⟩
instance {α} [HasSlices α] : HasSlices (List α) := ⟨fun l => l.flatMap slices⟩
instance {α} [HasSlices α] : HasSlices (Res α) := ⟨fun r => match r with | .ok a => slices a | _ => []⟩

/-! ### packet.go / attributes.go -/

/-- ParseAttributes: each value is `append(Attribute(nil), b[2:length]...)` — a new buffer
    (a `nil` value is modelled as a new empty buffer: it cannot be written through either way) -/
def parseAttrsH (b : Slice) (acc : List (Int × Slice)) : M (Res (List (Int × Slice))) := fun h =>
  if b.len = 0 then (.ok acc, h)
  else if b.len < 2 then (.err, h)
  else if ((h.read b).getD 1 0).toNat > b.len ∨ ((h.read b).getD 1 0).toNat < 2 then (.err, h)
  else
    let r := copyNew (h.read (b.sub 2 ((h.read b).getD 1 0).toNat)) h
    parseAttrsH (b.sub ((h.read b).getD 1 0).toNat b.len)
      (acc ++ [((((h.read b).getD 0 0).toNat : Int), r.1)]) r.2
termination_by b.len
decreasing_by simp only [Slice.sub]; omega

/-- Parse: `Secret: secret` keeps the caller's slice (by design); the authenticator is copied into
    an array; the attribute values are new buffers -/
def parseH (b secret : Slice) : M (Res HPacket) := do
  let bv ← readS b
  if b.len < 20 then pure .err
  else
    let length := lengthField bv
    if length < 20 ∨ length > maxPacketLength ∨ b.len < length then pure .err
    else do
      let r ← parseAttrsH (b.sub 20 length) []
      match r with
      | .ok attrs =>
        let auth ← readS (b.sub 4 20)
        pure (.ok ⟨(bv.getD 0 0).toNat, bv.getD 1 0, auth, secret, attrs⟩)
      | .err => pure .err
      | .fault => pure .fault

/-- MarshalBinary: reads the packet, writes a new buffer `b := make([]byte, size)` -/
def marshalH (p : HPacket) : M (Res Slice) := fun h =>
  match marshal (p.view h) with
  | .ok w => let r := copyNew w h; (.ok r.1, r.2)
  | .err => (.err, h)
  | .fault => (.fault, h)

/-- Encode: MarshalBinary, then `hash.Sum(b[4:4:20])` stores the digest INTO the new buffer -/
def encodeH (H : Hash) (p : HPacket) : M (Res Slice) := do
  let pv ← (fun h => (p.view h, h) : M Packet)
  let r ← marshalH p
  match r with
  | .ok b =>
    let bv ← readS b
    match encodeClass p.code with
    | .verbatim => pure (.ok b)
    | .hashReqAuth => do
      writeRange b 4 (H (authInput bv pv.auth pv.secret))
      pure (.ok b)
    | .hashZero => do
      writeRange b 4 (H (authInput bv (zeros 16) pv.secret))
      pure (.ok b)
    | .refused => pure .err
  | .err => pure .err
  | .fault => pure .fault

/-- IsAuthenticResponse: reads three slices; `hash.Sum(sum[:0])` goes to a local array -/
def isAuthenticResponseH (H : Hash) (response request secret : Slice) : M Bool := do
  let rv ← readS response
  let qv ← readS request
  let sv ← readS secret
  pure (isAuthenticResponse H rv qv sv)

def isAuthenticRequestH (H : Hash) (request secret : Slice) : M Bool := do
  let qv ← readS request
  let sv ← readS secret
  pure (isAuthenticRequest H qv sv)

/-- Attributes.Lookup / Get: returns the stored slice itself — a view of the packet -/
def lookupRaw : List (Int × Slice) → Int → Option Slice
  | [], _ => none
  | ts :: rest, k => if ts.1 = k then some ts.2 else lookupRaw rest k

/-! ### attribute.go: typed decoders -/

/-- `radius.Bytes`: `b := make([]byte, len(a)); copy(b, a)` -/
def bytesH (a : Slice) : M Slice := do
  let av ← readS a
  copyNew av

/-- `radius.String`: `string(a)` — a new immutable string -/
def stringH (a : Slice) : M Slice := do
  let av ← readS a
  copyNew av

def integerH (a : Slice) : M (Res Nat) := do let av ← readS a; pure (integer av)
def integer64H (a : Slice) : M (Res Nat) := do let av ← readS a; pure (integer64 av)
def shortH (a : Slice) : M (Res Nat) := do let av ← readS a; pure (short av)
def dateH (a : Slice) : M (Res Int) := do let av ← readS a; pure (date av)

/-- decoders of the form `if len(a) != N { err }; b := make(N); copy(b, a); return b` -/
def copyDecH (dec : Bytes → Res Bytes) (a : Slice) : M (Res Slice) := do
  let av ← readS a
  match dec av with
  | .ok v => do let s ← copyNew v; pure (.ok s)
  | .err => pure .err
  | .fault => pure .fault

def ipAddrH (a : Slice) : M (Res Slice) := copyDecH ipAddr a
def ipv6AddrH (a : Slice) : M (Res Slice) := copyDecH ipv6Addr a
def ifidH (a : Slice) : M (Res Slice) := copyDecH ifid a

/-- VendorSpecific: `value = make([]byte, len(a)-4); copy(value, a[4:])` -/
def vendorSpecificH (a : Slice) : M (Res (Nat × Slice)) := do
  let av ← readS a
  match vendorSpecific av with
  | .ok (id, v) => do let s ← copyNew v; pure (.ok (id, s))
  | .err => pure .err
  | .fault => pure .fault

/-- TLV: `tlvValue = make(Attribute, len(a)-2); copy(tlvValue, a[2:])` -/
def tlvH (a : Slice) : M (Res (UInt8 × Slice)) := do
  let av ← readS a
  match tlv av with
  | .ok (t, v) => do let s ← copyNew v; pure (.ok (t, s))
  | .err => pure .err
  | .fault => pure .fault

/-- IPv6Prefix: `ip := make(net.IP, 16)` and `net.CIDRMask(…)` are both new -/
def ipv6PrefixH (a : Slice) : M (Res (Slice × Slice)) := do
  let av ← readS a
  match ipv6Prefix av with
  | .ok (ip, mask) => do
    let ips ← copyNew ip
    let ms ← copyNew mask
    pure (.ok (ips, ms))
  | .err => pure .err
  | .fault => pure .fault

/-- the decryption loop of UserPassword at the level of where bytes are stored:
    `dec = hash.Sum(dec)` appends IN PLACE to `dec`, `dec[i+j] ^= b` stores IN PLACE into `dec` -/
def upBlocksH (H : Hash) (sv : Bytes) (dec : Slice) (i : Nat) : Bytes → List Bytes → M Slice
  | _, [] => pure dec
  | prev, blk :: rest => do
    let dec ← appendS dec (H (sv ++ prev))
    let cur ← readS (dec.sub i (i + 16))
    writeRange dec i (xorBytes cur blk)
    upBlocksH H sv dec (i + 16) blk rest

/-- UserPassword: `dec := make([]byte, 0, len(a))` is a new buffer; all stores go to it; the result
    `dec[:i]` is a view of it -/
def userPasswordH (H : Hash) (a secret : Slice) (ra : Bytes) : M (Res Slice) := do
  let av ← readS a
  let sv ← readS secret
  if av.length < 16 ∨ av.length > 128 ∨ av.length % 16 ≠ 0 then pure .err
  else if sv.length = 0 then pure .err
  else if ra.length ≠ 16 then pure .err
  else do
    let dec ← copyNew []
    let dec ← upBlocksH H sv dec 0 ra (Rfc2865.blocks av)
    let dv ← readS dec
    pure (.ok (dec.sub 0 (cutAtNul dv).length))

/-- TunnelPassword: `salt = append([]byte(nil), a[:2]...)` is new; `plaintext := make(…)` is new and
    receives all the stores; `password = plaintext[1:1+n]` is a view of it -/
def tunnelPasswordH (H : Hash) (a secret : Slice) (ra : Bytes) : M (Res (Slice × Slice)) := do
  let av ← readS a
  let sv ← readS secret
  match tunnelPassword H av sv ra with
  | .ok (pw, _) => do
    let salt ← copyNew (av.take 2)
    let plaintext ← copyNew (zeros (av.length - 2))
    writeRange plaintext 0 (tpDecLoop H sv (ra ++ av.take 2) (av.drop 2))
    pure (.ok (plaintext.sub 1 (1 + pw.length), salt))
  | .err => pure .err
  | .fault => pure .fault

/-! ### dictionarygen/vendor.go: `_GetsVendor`, `_LookupVendor`

    `radius.VendorSpecific` copies the payload; the walkers return sub-slices OF THAT COPY. -/

/-- sub-slices `vsa[2:vsaLen]` of the matching sub-attributes; recursion on the bytes read, the
    slice is advanced by `vsa = vsa[vsaLen:]` -/
def vsaGetsH (typ : UInt8) (vsa : Slice) (bytes : Bytes) : List Slice :=
  match h : vsaHead bytes with
  | none => []
  | some (t, sub, rest) =>
    if t = typ then vsa.sub 2 sub.length :: vsaGetsH typ (vsa.sub sub.length vsa.len) rest
    else vsaGetsH typ (vsa.sub sub.length vsa.len) rest
termination_by bytes.length
decreasing_by all_goals exact vsaHead_rest_lt h

def getsVendorH (vid : Nat) (typ : UInt8) : List (Int × Slice) → M (List Slice)
  | [] => pure []
  | ts :: rest =>
    if ts.1 ≠ vsaType then getsVendorH vid typ rest
    else do
      let r ← vendorSpecificH ts.2
      match r with
      | .ok (id, vsa) =>
        if id ≠ vid then getsVendorH vid typ rest
        else do
          let bytes ← readS vsa
          let tl ← getsVendorH vid typ rest
          pure (vsaGetsH typ vsa bytes ++ tl)
      | _ => getsVendorH vid typ rest

def lookupVendorH (vid : Nat) (typ : UInt8) (attrs : List (Int × Slice)) : M (Option Slice) := do
  let vs ← getsVendorH vid typ attrs
  pure vs.head?

/-! ### dictionarygen/attributes.go: the generated getters -/

/-- values with slices in place of byte strings -/
inductive GValH where
  | bytes (s : Slice)
  | nat (n : Nat)
  | time (unix : Int)
  | pfx (ip mask : Slice)

instance : HasSlices GValH :=
  ⟨fun v => match v with | .bytes s => [s] | .pfx ip mask => [ip, mask] | _ => []⟩

/-- what the caller sees when reading the result -/
def GValH.view (h : Heap) : GValH → GVal
  | .bytes s => .bytes (h.read s)
  | .nat n => .nat n
  | .time u => .time u
  | .pfx ip mask => .pfx (some (h.read ip, h.read mask))

/-- string / octets with `has_tag`: `tag = a[0]; a = a[1:]` — a re-slice of the packet's buffer -/
def tagStripH (av : Bytes) (a : Slice) : UInt8 × Slice :=
  if av.length ≥ 1 ∧ (av.getD 0 0).toNat ≤ 0x1F then (av.getD 0 0, a.sub 1 a.len) else (0, a)

/-- integer kinds with `has_tag`, CURRENT template:
    `tag = a[0]; a = append(radius.Attribute{0x00}, a[1:]...)` — a new buffer, then decoded -/
def tagStripIntH (a : Slice) : M (UInt8 × Slice) := do
  let av ← readS a
  if av.length ≥ 1 ∧ (av.getD 0 0).toNat ≤ 0x1F then do
    let rest ← readS (a.sub 1 a.len)
    let c ← copyNew ((0 : UInt8) :: rest)
    pure (av.getD 0 0, c)
  else pure (0, a)

def tpPlainH (H : Hash) (a secret : Slice) (auth : Bytes) : M (Res Slice) := do
  let r ← tunnelPasswordH H a secret auth
  match r with
  | .ok (pw, _) => pure (.ok pw)
  | .err => pure .err
  | .fault => pure .fault

def okBytes (tag : UInt8) (r : Res Slice) : Res (UInt8 × GValH) :=
  match r with
  | .ok s => .ok (tag, .bytes s)
  | .err => .err
  | .fault => .fault

/-- body of `X_Lookup` after the attribute `a` was found (same case structure as `RV.decodeValue`) -/
def decodeValueH (H : Hash) (d : Desc) (a secret : Slice) (auth : Bytes) : M (Res (UInt8 × GValH)) :=
  match d.kind with
  | .string | .octets | .concat => do
    let av ← readS a
    let ta := if d.hasTag then tagStripH av a else (0, a)
    let r ← (match d.encrypt with
             | 1 => userPasswordH H ta.2 secret auth
             | 2 => tpPlainH H ta.2 secret auth
             | _ => (do let s ← bytesH ta.2; pure (.ok s) : M (Res Slice)))
    match r with
    | .ok s =>
      if d.size.isSome ∧ d.size ≠ some s.len then pure .err else pure (.ok (ta.1, .bytes s))
    | .err => pure .err
    | .fault => pure .fault
  | .ipaddr | .ipv6addr => do
    let r ← (if d.usesSalt then tpPlainH H a secret auth else (pure (.ok a) : M (Res Slice)))
    match r with
    | .ok a => do
      let ip ← (if d.kind = .ipaddr then ipAddrH a else ipv6AddrH a)
      pure (okBytes 0 ip)
    | .err => pure .err
    | .fault => pure .fault
  | .ifid => do let x ← ifidH a; pure (okBytes 0 x)
  | .ipv6prefix => do
    let r ← ipv6PrefixH a
    match r with
    | .ok (ip, mask) => pure (.ok (0, .pfx ip mask))
    | .err => pure .err
    | .fault => pure .fault
  | .date => do
    let r ← dateH a
    match r with
    | .ok u => pure (.ok (0, .time u))
    | .err => pure .err
    | .fault => pure .fault
  | .byte => do
    let av ← readS a
    if av.length ≠ 1 then pure .err else pure (.ok (0, .nat (av.getD 0 0).toNat))
  | k =>
    match k.intBytes with
    | none => pure .err
    | some w =>
      if d.hasTag then do
        let ta ← tagStripIntH a
        let av ← readS ta.2
        if av.length ≠ w then pure .err else pure (.ok (ta.1, .nat (beNat av)))
      else do
        let r ← (if d.usesSalt then tpPlainH H a secret auth else (pure (.ok a) : M (Res Slice)))
        match r with
        | .ok a => do
          let av ← readS a
          if av.length ≠ w then pure .err else pure (.ok (0, .nat (beNat av)))
        | .err => pure .err
        | .fault => pure .fault

/-- the stored slices of this attribute, in packet order: the packet's own slices for a plain
    attribute, sub-slices of `radius.VendorSpecific`'s copies for a vendor attribute -/
def rawSlicesH (d : Desc) (p : HPacket) : M (List Slice) :=
  if d.vendorID = 0 then pure ((p.attrs.filter (fun ts => ts.1 = d.typ)).map (·.2))
  else getsVendorH d.vendorID d.vendorType p.attrs

inductive LookupResH where
  | noAttr
  | err
  | val (tag : UInt8) (v : GValH)

instance : HasSlices LookupResH := ⟨fun r => match r with | .val _ v => slices v | _ => []⟩

def LookupResH.view (h : Heap) : LookupResH → LookupRes
  | .noAttr => .noAttr
  | .err => .err
  | .val t v => .val t (v.view h)

/-- the loop of a concat `X_Lookup`:
      `for … { i = radius.Bytes(attr); value = append(value, i...) }`
    `radius.Bytes` allocates a copy `i` each round; `append(value, i...)` writes into `value`'s own
    buffer.  (Go's `append` extends in place within capacity and otherwise moves the contents to a
    larger new buffer; either way the bytes live in a buffer allocated by this call.  The mirror keeps
    ONE buffer and extends it in place — the choice under which a stray alias would be visible.) -/
def concatLoopH : List Slice → Slice → M Slice
  | [], value => pure value
  | a :: rest, value => do
    let i ← bytesH a
    let iv ← readS i
    let value ← appendS value iv
    concatLoopH rest value

/-- `X_Lookup`.  Concat template: `var value []byte` starts nil, the first `append` allocates —
    modelled as a new empty buffer that the loop extends; no occurrence ⇒ `ErrNoAttribute`.
    Every other kind: first occurrence, then the decode body. -/
def hLookupH (H : Hash) (d : Desc) (p : HPacket) (auth : Bytes) : M LookupResH := do
  let raws ← rawSlicesH d p
  if d.kind = .concat then
    match raws with
    | [] => pure .noAttr
    | _ => do
      let value ← copyNew []
      let value ← concatLoopH raws value
      pure (.val 0 (.bytes value))
  else
  match raws.head? with
  | none => pure .noAttr
  | some a => do
    let r ← decodeValueH H d a p.secret auth
    match r with
    | .ok (t, v) => pure (.val t v)
    | _ => pure .err

/-- `X_Gets`: stops at the first undecodable value -/
def hGetsGoH (H : Hash) (d : Desc) (secret : Slice) (auth : Bytes) : List Slice → M (List (UInt8 × GValH) × Bool)
  | [] => pure ([], true)
  | a :: rest => do
    let r ← decodeValueH H d a secret auth
    match r with
    | .ok tv => do
      let tl ← hGetsGoH H d secret auth rest
      pure (tv :: tl.1, tl.2)
    | _ => pure ([], false)

def hGetsH (H : Hash) (d : Desc) (p : HPacket) (auth : Bytes) : M (List (UInt8 × GValH) × Bool) := do
  let raws ← rawSlicesH d p
  hGetsGoH H d p.secret auth raws

/-! ### `X_Get`, `X_LookupString`, `X_GetString`, `X_GetStrings`

    `X_Get` is emitted as `value, _ = X_Lookup(p)` (resp. `tag, value, _ = …`): what it returns are
    the NAMED RESULTS of `X_Lookup` at its `return`, error dropped (RV/Model/Helper.lean,
    `lookupResults`).  On an error path the value result is the zero value of its Go type — a nil
    slice, `""`, a nil `*net.IPNet`, `time.Time{}`, 0 — which refers to no buffer at all: `none`. -/

/-- what the caller sees of a getter's `(tag, value)` results; `none` reads as the zero value -/
def getView (k : Kind) (h : Heap) (r : UInt8 × Option GValH) : UInt8 × GVal :=
  (r.1, match r.2 with | some v => v.view h | none => GVal.zero k)

/-- the named results `(tag, value)` of `X_Lookup` at `return` once the attribute `a` was found
    (same case structure as `RV.lookupResults`; same slicing / copying as `decodeValueH`).  A text
    value of the wrong fixed size is KEPT (the `octets[n]` check only sets `err`), and so is the tag
    octet stripped before a failing decode. -/
def lookupResultsH (H : Hash) (d : Desc) (a secret : Slice) (auth : Bytes) : M (UInt8 × Option GValH) :=
  match d.kind with
  | .string | .octets | .concat => do
    let av ← readS a
    let ta := if d.hasTag then tagStripH av a else (0, a)
    let r ← (match d.encrypt with
             | 1 => userPasswordH H ta.2 secret auth
             | 2 => tpPlainH H ta.2 secret auth
             | _ => (do let s ← bytesH ta.2; pure (.ok s) : M (Res Slice)))
    match r with
    | .ok s => pure (ta.1, some (.bytes s))
    | .err => pure (ta.1, none)
    | .fault => pure (ta.1, none)
  | .ipaddr | .ipv6addr => do
    let r ← (if d.usesSalt then tpPlainH H a secret auth else (pure (.ok a) : M (Res Slice)))
    match r with
    | .ok a => do
      let ip ← (if d.kind = .ipaddr then ipAddrH a else ipv6AddrH a)
      match ip with
      | .ok s => pure (0, some (.bytes s))
      | .err => pure (0, none)
      | .fault => pure (0, none)
    | .err => pure (0, none)
    | .fault => pure (0, none)
  | .ifid => do
    let x ← ifidH a
    match x with
    | .ok s => pure (0, some (.bytes s))
    | .err => pure (0, none)
    | .fault => pure (0, none)
  | .ipv6prefix => do
    let r ← ipv6PrefixH a
    match r with
    | .ok (ip, mask) => pure (0, some (.pfx ip mask))
    | .err => pure (0, none)
    | .fault => pure (0, none)
  | .date => do
    let r ← dateH a
    match r with
    | .ok u => pure (0, some (.time u))
    | .err => pure (0, none)
    | .fault => pure (0, none)
  | .byte => do
    let av ← readS a
    if av.length ≠ 1 then pure (0, none) else pure (0, some (.nat (av.getD 0 0).toNat))
  | k =>
    match k.intBytes with
    | none => pure (0, none)
    | some w =>
      if d.hasTag then do
        let ta ← tagStripIntH a
        let av ← readS ta.2
        if av.length ≠ w then pure (ta.1, none) else pure (ta.1, some (.nat (beNat av)))
      else do
        let r ← (if d.usesSalt then tpPlainH H a secret auth else (pure (.ok a) : M (Res Slice)))
        match r with
        | .ok a => do
          let av ← readS a
          if av.length ≠ w then pure (0, none) else pure (0, some (.nat (beNat av)))
        | .err => pure (0, none)
        | .fault => pure (0, none)

/-- `X_Get`: `tag, value, _ = X_Lookup(p)`.  Concat template: `var value []byte` stays nil when there
    is no occurrence, otherwise the loop's buffer; every other kind: zero results when the attribute
    is absent (`err = radius.ErrNoAttribute; return`), else the results of the decode body. -/
def hGetH (H : Hash) (d : Desc) (p : HPacket) (auth : Bytes) : M (UInt8 × Option GValH) := do
  let raws ← rawSlicesH d p
  if d.kind = .concat then
    match raws with
    | [] => pure (0, none)
    | _ => do
      let value ← copyNew []
      let value ← concatLoopH raws value
      pure (0, some (.bytes value))
  else
  match raws.head? with
  | none => pure (0, none)
  | some a => lookupResultsH H d a p.secret auth

/-- `value = string(b)` after a successful decryption: a new immutable string -/
def strOfResH (r : Res Slice) : M (Res Slice) :=
  match r with
  | .ok b => do let s ← stringH b; pure (.ok s)
  | .err => pure .err
  | .fault => pure .fault

/-- the body of `X_LookupString` (string / octets templates) after the attribute `a` was found, also
    one round of `X_GetStrings`: the named results `(tag, value)` at `return` and whether
    `err != nil` (`RV.lookupStringBody`).  `radius.String(a)` in place of `radius.Bytes(a)`;
    `b, err = radius.UserPassword(…); if err == nil { value = string(b) }` — the decryption buffer,
    then a string made from it. -/
def lookupStringBodyH (H : Hash) (d : Desc) (a secret : Slice) (auth : Bytes) :
    M ((UInt8 × Option GValH) × Bool) := do
  let av ← readS a
  let ta := if d.hasTag then tagStripH av a else (0, a)
  let r ← (match d.encrypt with
           | 1 => (do let b ← userPasswordH H ta.2 secret auth; strOfResH b : M (Res Slice))
           | 2 => (do let b ← tpPlainH H ta.2 secret auth; strOfResH b : M (Res Slice))
           | _ => (do let s ← stringH ta.2; pure (.ok s) : M (Res Slice)))
  match r with
  | .ok s => pure ((ta.1, some (.bytes s)), decide (d.size.isSome ∧ d.size ≠ some s.len))
  | .err => pure ((ta.1, none), true)
  | .fault => pure ((ta.1, none), true)

/-- the loop of a concat `X_LookupString`: `i = radius.String(attr); value += i` — strings are
    immutable, every round makes a new one -/
def concatStrLoopH : List Slice → Slice → M Slice
  | [], value => pure value
  | a :: rest, value => do
    let i ← stringH a
    let iv ← readS i
    let vv ← readS value
    let value ← copyNew (vv ++ iv)
    concatStrLoopH rest value

/-- `X_LookupString` -/
def hLookupStringH (H : Hash) (d : Desc) (p : HPacket) (auth : Bytes) : M LookupResH := do
  let raws ← rawSlicesH d p
  if d.kind = .concat then
    match raws with
    | [] => pure .noAttr
    | _ => do
      let value ← copyNew []
      let value ← concatStrLoopH raws value
      pure (.val 0 (.bytes value))
  else
  match raws.head? with
  | none => pure .noAttr
  | some a => do
    let r ← lookupStringBodyH H d a p.secret auth
    match r with
    | ((t, some v), false) => pure (.val t v)
    | _ => pure .err

/-- `X_GetString`: `tag, value, _ = X_LookupString(p)` -/
def hGetStringH (H : Hash) (d : Desc) (p : HPacket) (auth : Bytes) : M (UInt8 × Option GValH) := do
  let raws ← rawSlicesH d p
  if d.kind = .concat then
    match raws with
    | [] => pure (0, none)
    | _ => do
      let value ← copyNew []
      let value ← concatStrLoopH raws value
      pure (0, some (.bytes value))
  else
  match raws.head? with
  | none => pure (0, none)
  | some a => do
    let r ← lookupStringBodyH H d a p.secret auth
    pure r.1

/-- `X_GetStrings`: stops at the first undecodable value -/
def hGetStringsGoH (H : Hash) (d : Desc) (secret : Slice) (auth : Bytes) :
    List Slice → M (List (UInt8 × GValH) × Bool)
  | [] => pure ([], true)
  | a :: rest => do
    let r ← lookupStringBodyH H d a secret auth
    match r with
    | ((t, some v), false) => do
      let tl ← hGetStringsGoH H d secret auth rest
      pure ((t, v) :: tl.1, tl.2)
    | _ => pure ([], false)

def hGetStringsH (H : Hash) (d : Desc) (p : HPacket) (auth : Bytes) : M (List (UInt8 × GValH) × Bool) := do
  let raws ← rawSlicesH d p
  hGetStringsGoH H d p.secret auth raws

/-! ### debug.Dump: reads, formats into its own writer -/

def dumpAttrsH (H : Hash) (p : HPacket) : List (Int × Slice) → M (List Bytes)
  | [] => pure []
  | ts :: rest => do
    let av ← readS ts.2
    let _ ← userPasswordH H ts.2 p.secret p.auth   -- attempted for encrypt=1 text attributes
    let tl ← dumpAttrsH H p rest
    pure (av :: tl)

/-! ### History: the tagged-integer getter BEFORE the repair

    `if len(a) >= 1 && a[0] <= 0x1F { tag = a[0]; a[0] = 0x00 }` — the tag octet was cleared
    through the slice `p.Lookup` returned, i.e. in the packet's own buffer. -/
def oldTagStripIntH (a : Slice) : M (UInt8 × Slice) := do
  let av ← readS a
  if av.length ≥ 1 ∧ (av.getD 0 0).toNat ≤ 0x1F then do
    writeS a 0 0x00
    pure (av.getD 0 0, a)
  else pure (0, a)

def oldTaggedIntLookupH (typ : Int) (w : Nat) (p : HPacket) : M (Res (UInt8 × Nat)) :=
  match lookupRaw p.attrs typ with
  | none => pure .err
  | some a => do
    let ta ← oldTagStripIntH a
    let av ← readS ta.2
    if av.length ≠ w then pure .err else pure (.ok (ta.1, beNat av))

/-- the repaired getter, same interface -/
def taggedIntLookupH (typ : Int) (w : Nat) (p : HPacket) : M (Res (UInt8 × Nat)) :=
  match lookupRaw p.attrs typ with
  | none => pure .err
  | some a => do
    let ta ← tagStripIntH a
    let av ← readS ta.2
    if av.length ≠ w then pure .err else pure (.ok (ta.1, beNat av))

end Prov
end RV
