/-
  DES single-block encryption written from FIPS 46-3 (the tables below are typed in from the
  standard: IP, IP⁻¹, E, P, S1..S8, PC-1, PC-2 and the left-shift schedule).  The key is 64 bits of
  which bits 8, 16, …, 64 (the parity bits) are not used by the algorithm (PC-1 does not select them).
  Blocks and keys are held in `UInt64`; bit 1 of the standard is the most significant bit.
  Known-answer tests are in `RV/Model/CryptoTest.lean`; the driver compares this function with Go's
  crypto/des (through `rfc2759.DESCrypt` / `ChallengeResponse`) on every C19 case.
-/
import RV.Model.Bytes
namespace RV.DES

def IP : List Nat := [
  58, 50, 42, 34, 26, 18, 10, 2,
  60, 52, 44, 36, 28, 20, 12, 4,
  62, 54, 46, 38, 30, 22, 14, 6,
  64, 56, 48, 40, 32, 24, 16, 8,
  57, 49, 41, 33, 25, 17, 9, 1,
  59, 51, 43, 35, 27, 19, 11, 3,
  61, 53, 45, 37, 29, 21, 13, 5,
  63, 55, 47, 39, 31, 23, 15, 7]

def FP : List Nat := [
  40, 8, 48, 16, 56, 24, 64, 32,
  39, 7, 47, 15, 55, 23, 63, 31,
  38, 6, 46, 14, 54, 22, 62, 30,
  37, 5, 45, 13, 53, 21, 61, 29,
  36, 4, 44, 12, 52, 20, 60, 28,
  35, 3, 43, 11, 51, 19, 59, 27,
  34, 2, 42, 10, 50, 18, 58, 26,
  33, 1, 41, 9, 49, 17, 57, 25]

def E : List Nat := [
  32, 1, 2, 3, 4, 5,
  4, 5, 6, 7, 8, 9,
  8, 9, 10, 11, 12, 13,
  12, 13, 14, 15, 16, 17,
  16, 17, 18, 19, 20, 21,
  20, 21, 22, 23, 24, 25,
  24, 25, 26, 27, 28, 29,
  28, 29, 30, 31, 32, 1]

def P : List Nat := [
  16, 7, 20, 21,
  29, 12, 28, 17,
  1, 15, 23, 26,
  5, 18, 31, 10,
  2, 8, 24, 14,
  32, 27, 3, 9,
  19, 13, 30, 6,
  22, 11, 4, 25]

def S1 : Array UInt64 := #[
  14, 4, 13, 1, 2, 15, 11, 8, 3, 10, 6, 12, 5, 9, 0, 7,
  0, 15, 7, 4, 14, 2, 13, 1, 10, 6, 12, 11, 9, 5, 3, 8,
  4, 1, 14, 8, 13, 6, 2, 11, 15, 12, 9, 7, 3, 10, 5, 0,
  15, 12, 8, 2, 4, 9, 1, 7, 5, 11, 3, 14, 10, 0, 6, 13]

def S2 : Array UInt64 := #[
  15, 1, 8, 14, 6, 11, 3, 4, 9, 7, 2, 13, 12, 0, 5, 10,
  3, 13, 4, 7, 15, 2, 8, 14, 12, 0, 1, 10, 6, 9, 11, 5,
  0, 14, 7, 11, 10, 4, 13, 1, 5, 8, 12, 6, 9, 3, 2, 15,
  13, 8, 10, 1, 3, 15, 4, 2, 11, 6, 7, 12, 0, 5, 14, 9]

def S3 : Array UInt64 := #[
  10, 0, 9, 14, 6, 3, 15, 5, 1, 13, 12, 7, 11, 4, 2, 8,
  13, 7, 0, 9, 3, 4, 6, 10, 2, 8, 5, 14, 12, 11, 15, 1,
  13, 6, 4, 9, 8, 15, 3, 0, 11, 1, 2, 12, 5, 10, 14, 7,
  1, 10, 13, 0, 6, 9, 8, 7, 4, 15, 14, 3, 11, 5, 2, 12]

def S4 : Array UInt64 := #[
  7, 13, 14, 3, 0, 6, 9, 10, 1, 2, 8, 5, 11, 12, 4, 15,
  13, 8, 11, 5, 6, 15, 0, 3, 4, 7, 2, 12, 1, 10, 14, 9,
  10, 6, 9, 0, 12, 11, 7, 13, 15, 1, 3, 14, 5, 2, 8, 4,
  3, 15, 0, 6, 10, 1, 13, 8, 9, 4, 5, 11, 12, 7, 2, 14]

def S5 : Array UInt64 := #[
  2, 12, 4, 1, 7, 10, 11, 6, 8, 5, 3, 15, 13, 0, 14, 9,
  14, 11, 2, 12, 4, 7, 13, 1, 5, 0, 15, 10, 3, 9, 8, 6,
  4, 2, 1, 11, 10, 13, 7, 8, 15, 9, 12, 5, 6, 3, 0, 14,
  11, 8, 12, 7, 1, 14, 2, 13, 6, 15, 0, 9, 10, 4, 5, 3]

def S6 : Array UInt64 := #[
  12, 1, 10, 15, 9, 2, 6, 8, 0, 13, 3, 4, 14, 7, 5, 11,
  10, 15, 4, 2, 7, 12, 9, 5, 6, 1, 13, 14, 0, 11, 3, 8,
  9, 14, 15, 5, 2, 8, 12, 3, 7, 0, 4, 10, 1, 13, 11, 6,
  4, 3, 2, 12, 9, 5, 15, 10, 11, 14, 1, 7, 6, 0, 8, 13]

def S7 : Array UInt64 := #[
  4, 11, 2, 14, 15, 0, 8, 13, 3, 12, 9, 7, 5, 10, 6, 1,
  13, 0, 11, 7, 4, 9, 1, 10, 14, 3, 5, 12, 2, 15, 8, 6,
  1, 4, 11, 13, 12, 3, 7, 14, 10, 15, 6, 8, 0, 5, 9, 2,
  6, 11, 13, 8, 1, 4, 10, 7, 9, 5, 0, 15, 14, 2, 3, 12]

def S8 : Array UInt64 := #[
  13, 2, 8, 4, 6, 15, 11, 1, 10, 9, 3, 14, 5, 0, 12, 7,
  1, 15, 13, 8, 10, 3, 7, 4, 12, 5, 6, 11, 0, 14, 9, 2,
  7, 11, 4, 1, 9, 12, 14, 2, 0, 6, 10, 13, 15, 3, 5, 8,
  2, 1, 14, 7, 4, 10, 8, 13, 15, 12, 9, 0, 3, 5, 6, 11]

def SBoxes : Array (Array UInt64) := #[S1, S2, S3, S4, S5, S6, S7, S8]

def PC1 : List Nat := [
  57, 49, 41, 33, 25, 17, 9,
  1, 58, 50, 42, 34, 26, 18,
  10, 2, 59, 51, 43, 35, 27,
  19, 11, 3, 60, 52, 44, 36,
  63, 55, 47, 39, 31, 23, 15,
  7, 62, 54, 46, 38, 30, 22,
  14, 6, 61, 53, 45, 37, 29,
  21, 13, 5, 28, 20, 12, 4]

def PC2 : List Nat := [
  14, 17, 11, 24, 1, 5,
  3, 28, 15, 6, 21, 10,
  23, 19, 12, 4, 26, 8,
  16, 7, 27, 20, 13, 2,
  41, 52, 31, 37, 47, 55,
  30, 40, 51, 45, 33, 48,
  44, 49, 39, 56, 34, 53,
  46, 42, 50, 36, 29, 32]

/-- number of left shifts of C and D in iterations 1..16 -/
def shifts : List UInt64 := [1, 1, 2, 2, 2, 2, 2, 2, 1, 2, 2, 2, 2, 2, 2, 1]

/-- output bit `j` (from the left) is input bit `tbl[j]` (from the left) of an `inW`-bit word -/
def permute (tbl : List Nat) (inW : Nat) (x : UInt64) : UInt64 :=
  tbl.foldl (fun acc p => (acc <<< 1) ||| ((x >>> UInt64.ofNat (inW - p)) &&& 1)) 0

/-- rotate a 28-bit half left by `n` (1 or 2) -/
def rotl28 (x n : UInt64) : UInt64 := ((x <<< n) ||| (x >>> (28 - n))) &&& 0xFFFFFFF

/-- the sixteen 48-bit round keys K1..K16 -/
def keySchedule (key : UInt64) : List UInt64 :=
  let cd := permute PC1 64 key
  let c0 := cd >>> 28
  let d0 := cd &&& 0xFFFFFFF
  (shifts.foldl
    (fun (acc : UInt64 × UInt64 × List UInt64) n =>
      let c := rotl28 acc.1 n
      let d := rotl28 acc.2.1 n
      (c, d, permute PC2 56 ((c <<< 28) ||| d) :: acc.2.2))
    (c0, d0, [])).2.2.reverse

/-- the cipher function f(R, K) -/
def f (r k : UInt64) : UInt64 :=
  let x := permute E 32 r ^^^ k
  let s := (List.range 8).foldl
    (fun (acc : UInt64) i =>
      let six := (x >>> UInt64.ofNat (42 - 6 * i)) &&& 0x3f
      let row := ((six >>> 4) &&& 2) ||| (six &&& 1)
      let col := (six >>> 1) &&& 0xf
      (acc <<< 4) ||| SBoxes[i]![(row * 16 + col).toNat]!)
    0
  permute P 32 s

def encrypt (key block : UInt64) : UInt64 :=
  let ip := permute IP 64 block
  let l0 := ip >>> 32
  let r0 := ip &&& 0xFFFFFFFF
  let (l, r) := (keySchedule key).foldl
    (fun (lr : UInt64 × UInt64) k => (lr.2, lr.1 ^^^ f lr.2 k)) (l0, r0)
  permute FP 64 ((r <<< 32) ||| l)

def ofBytes (b : Bytes) : UInt64 :=
  (b.take 8 ++ zeros (8 - b.length)).foldl (fun a x => (a <<< 8) ||| x.toUInt64) 0

def toBytes (x : UInt64) : Bytes :=
  [(x >>> 56).toUInt8, (x >>> 48).toUInt8, (x >>> 40).toUInt8, (x >>> 32).toUInt8,
   (x >>> 24).toUInt8, (x >>> 16).toUInt8, (x >>> 8).toUInt8, x.toUInt8]

/-- DES encryption of the 8-byte block `block` under the 8-byte key `key` (parity bits ignored) -/
def encryptBlock (key block : Bytes) : Bytes := toBytes (encrypt (ofBytes key) (ofBytes block))

theorem encryptBlock_length (key block : Bytes) : (encryptBlock key block).length = 8 := by
  simp [encryptBlock, toBytes]

end RV.DES
