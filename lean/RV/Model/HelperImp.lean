/-
  Imperative (state-passing) mirror of the generated setters.

  RV/Model/Helper.lean models `X_Set` / `X_Add` as pure functions `Attrs → Res Attrs`; there an error
  carries no packet, so "on failure the packet is unchanged" holds by construction.  The Go code
  mutates `p.Attributes` IN PLACE, statement by statement.  Here a helper is

      Imp α  =  Attrs → Res α × Attrs

  — the result AND the packet's attribute list afterwards, ALSO when the result is an error or a
  panic.  `bind` is Go's `x, err := …; if err != nil { return }`: after an error nothing more is
  executed and the state stays as it is AT THAT MOMENT (there is no roll-back).  A helper that
  mutates the packet before a later statement fails therefore returns `(.err, changed packet)`;
  `setVendorOldImp` below (the order of the template before the repair) does exactly that.

  The bodies follow the statement order of dictionarygen/attributes.go and dictionarygen/vendor.go:

    X_Set / X_Add (every kind except concat)
        [size check; a, err = radius.NewXxx(value…); (tag octet); (salt encryption)]   — only locals
        if err != nil { return }
        p.Set(X_Type, a)  /  p.Add(X_Type, a)  /  return _V_SetVendor(p, n, a)  /  _V_AddVendor(p, n, a)
    X_Set (concat)
        for len(value) > 0 { a, err = radius.NewBytes(value[:n]); if err != nil { return };
                             attrs = append(attrs, &AVP{X_Type, a}); value = value[n:] }
        p.Attributes.Del(X_Type)
        p.Attributes = append(p.Attributes, attrs...)
    _V_AddVendor     vsa, err = _V_NewVendor(typ, attr); if err != nil { return }; p.Add(26, vsa)
    _V_SetVendor     vsa, err = _V_NewVendor(typ, attr); if err != nil { return };
                     _V_DelVendor(p, typ); p.Add(26, vsa)
    X_Del            p.Attributes.Del(X_Type)  /  _V_DelVendor(p, n)

  The statements in square brackets read `value`, `tag`, `p.Secret`, `p.Authenticator` and the
  random source and assign locals only; they are `encodeValue` of the pure model, lifted with
  `liftRes` (which does not touch the state).  The primitive mutations are `setAttr`, `addAttr`,
  `delAttr`, `appendAttrs`, `delVendorS`: the list operations of attributes.go (`Attrs.set`,
  `Attrs.add`, `Attrs.del` — the Go loops of RV/Model/Wire.lean) and `_V_DelVendor`
  (`delVendor` of RV/Model/Vendor.lean) applied to the state.
-/
import RV.Model.Helper
namespace RV
namespace Imp

/-- result and the attribute list afterwards — also on error -/
abbrev Imp (α : Type) := Attrs → Res α × Attrs

/-- `return` of a value without touching the packet -/
def ret {α} (a : α) : Imp α := fun as => (.ok a, as)

/-- sequencing with Go's `if err != nil { return }`: on an error (or panic) the rest is skipped and
    the state is whatever the statements so far made of it -/
def bind {α β} (m : Imp α) (f : α → Imp β) : Imp β := fun as =>
  match m as with
  | (.ok a, as') => f a as'
  | (.err, as') => (.err, as')
  | (.fault, as') => (.fault, as')

instance : Monad Imp where
  pure := ret
  bind := bind

/-- a computation on locals: its outcome, the packet untouched -/
def liftRes {α} (r : Res α) : Imp α := fun as => (r, as)

/-! ### the primitive mutations of `p.Attributes` -/

/-- `p.Set(k, v)` -/
def setAttr (k : Int) (v : Bytes) : Imp Unit := fun as => (.ok (), as.set k v)
/-- `p.Add(k, v)` -/
def addAttr (k : Int) (v : Bytes) : Imp Unit := fun as => (.ok (), as.add k v)
/-- `p.Attributes.Del(k)` -/
def delAttr (k : Int) : Imp Unit := fun as => (.ok (), as.del k)
/-- `p.Attributes = append(p.Attributes, attrs...)` -/
def appendAttrs (l : Attrs) : Imp Unit := fun as => (.ok (), as ++ l)
/-- `_V_DelVendor(p, typ)` -/
def delVendorS (vid : Nat) (typ : UInt8) : Imp Unit := fun as => (.ok (), delVendor vid typ as)

/-! ### dictionarygen/vendor.go -/

/-- `_V_AddVendor`: encode, then `p.Add` -/
def addVendorImp (vid : Nat) (typ : UInt8) (attr : Bytes) : Imp Unit := do
  let vsa ← liftRes (vendorAttr vid typ attr)
  addAttr vsaType vsa

/-- `_V_SetVendor` as it is now: encode FIRST, then `_V_DelVendor`, then `p.Add` -/
def setVendorImp (vid : Nat) (typ : UInt8) (attr : Bytes) : Imp Unit := do
  let vsa ← liftRes (vendorAttr vid typ attr)
  delVendorS vid typ
  addAttr vsaType vsa

/-- `_V_SetVendor` in the statement order it had BEFORE the repair: the removal loop first, then
    `return _V_AddVendor(p, typ, attr)` (whose encoding can fail) -/
def setVendorOldImp (vid : Nat) (typ : UInt8) (attr : Bytes) : Imp Unit := do
  delVendorS vid typ
  addVendorImp vid typ attr

/-! ### dictionarygen/attributes.go -/

/-- the chunk loop of a concat `X_Set`: only the local `attrs` grows -/
def chunkLoopImp (typ : Int) (value : Bytes) (attrs : Attrs) : Imp Attrs :=
  if h : value = [] then ret attrs
  else do
    let a ← liftRes (newBytes (value.take 253))
    chunkLoopImp typ (value.drop 253) (attrs ++ [⟨typ, a⟩])
termination_by value.length
decreasing_by
  cases value with
  | nil => exact absurd rfl h
  | cons x xs => simp; omega

section
variable (H : Hash)

/-- `X_Add` -/
def hAddImp (d : Desc) (tag : UInt8) (v : GVal) (secret auth salt : Bytes) : Imp Unit :=
  if d.kind = .concat then liftRes .err   -- the concat template has no `_Add`
  else do
    let a ← liftRes (encodeValue H d tag v secret auth salt)
    if d.vendorID = 0 then addAttr d.typ a else addVendorImp d.vendorID d.vendorType a

/-- `X_Set` -/
def hSetImp (d : Desc) (tag : UInt8) (v : GVal) (secret auth salt : Bytes) : Imp Unit :=
  if d.kind = .concat then
    match v with
    | .bytes b => do
      let attrs ← chunkLoopImp d.typ b []
      delAttr d.typ
      appendAttrs attrs
    | _ => liftRes .err   -- not a value of the helper's parameter type
  else do
    let a ← liftRes (encodeValue H d tag v secret auth salt)
    if d.vendorID = 0 then setAttr d.typ a else setVendorImp d.vendorID d.vendorType a

/-- `X_Set` of a vendor attribute over the OLD `_V_SetVendor` (negative control) -/
def hSetOldImp (d : Desc) (tag : UInt8) (v : GVal) (secret auth salt : Bytes) : Imp Unit := do
  let a ← liftRes (encodeValue H d tag v secret auth salt)
  if d.vendorID = 0 then setAttr d.typ a else setVendorOldImp d.vendorID d.vendorType a

end

/-- `X_Del` -/
def hDelImp (d : Desc) : Imp Unit :=
  if d.vendorID = 0 then delAttr d.typ else delVendorS d.vendorID d.vendorType

end Imp
end RV
