/-
  Model of the vendor-specific helper functions emitted by dictionarygen/vendor.go
  (_V_AddVendor, _V_GetsVendor, _V_LookupVendor, _V_SetVendor, _V_DelVendor), over the attribute
  list model of RV.Model.Wire and `vendorSpecific` of RV.Model.Codec.

  A Vendor-Specific attribute value is  vendor-id(4) ++ payload ; the payload is walked as
  sub-attributes  type(1) length(1) value(length-2)  while `3 ≤ length ≤ remaining`; the first
  malformed length stops the walk and everything from there on is the *residue*.
-/
import RV.Model.Codec
namespace RV

/-- rfc2865.VendorSpecific_Type -/
abbrev vsaType : Int := 26

/-- one step of the walkers' loop: `some (typ, whole sub-attribute bytes, rest)` or `none` when
    fewer than 3 bytes remain or the length octet is malformed -/
def vsaHead (vsa : Bytes) : Option (UInt8 × Bytes × Bytes) :=
  match vsa with
  | t :: l :: _ =>
    if vsa.length < 3 ∨ l.toNat > vsa.length ∨ l.toNat < 3 then none
    else some (t, vsa.take l.toNat, vsa.drop l.toNat)
  | _ => none

theorem vsaHead_rest_lt {vsa : Bytes} {t : UInt8} {sub rest : Bytes}
    (h : vsaHead vsa = some (t, sub, rest)) : rest.length < vsa.length := by
  unfold vsaHead at h
  split at h
  · split at h
    · cases h
    · cases h
      simp only [List.length_drop]
      omega
  · cases h

/-- values of the sub-attributes of type `typ` in the well-formed prefix of a payload, in order -/
def vsaGets (typ : UInt8) (vsa : Bytes) : List Bytes :=
  match h : vsaHead vsa with
  | none => []
  | some (t, sub, rest) =>
    if t = typ then sub.drop 2 :: vsaGets typ rest else vsaGets typ rest
termination_by vsa.length
decreasing_by all_goals exact vsaHead_rest_lt h

/-- payload with every well-formed-prefix sub-attribute of type `typ` removed; all other bytes
    (other sub-attributes and the residue) kept in order.  Second component: something was removed. -/
def vsaDel (typ : UInt8) (vsa : Bytes) : Bytes × Bool :=
  match h : vsaHead vsa with
  | none => (vsa, false)
  | some (t, sub, rest) =>
    let (k, r) := vsaDel typ rest
    if t = typ then (k, true) else (sub ++ k, r)
termination_by vsa.length
decreasing_by all_goals exact vsaHead_rest_lt h

/-- this vendor's payload of an attribute, if it is a Vendor-Specific attribute of vendor `vid`
    that `radius.VendorSpecific` accepts (at least 5 bytes) -/
def vendorPayload (vid : Nat) (a : AVP) : Option Bytes :=
  if a.typ ≠ vsaType then none
  else match vendorSpecific a.val with
    | .ok (id, payload) => if id = vid then some payload else none
    | _ => none

def getsVendor (vid : Nat) (typ : UInt8) (as : Attrs) : List Bytes :=
  as.flatMap fun a => match vendorPayload vid a with
    | some payload => vsaGets typ payload
    | none => []

def lookupVendor (vid : Nat) (typ : UInt8) (as : Attrs) : Option Bytes :=
  (getsVendor vid typ as).head?

/-- `_V_NewVendor`: one Vendor-Specific attribute value holding exactly one sub-attribute; an empty
    value is refused (the readers treat a 2-octet sub-attribute as malformed) -/
def vendorAttr (vid : Nat) (typ : UInt8) (attr : Bytes) : Res Bytes :=
  if attr.length = 0 then .err
  else newVendorSpecific vid (typ :: UInt8.ofNat (2 + attr.length) :: attr)

def addVendor (vid : Nat) (typ : UInt8) (attr : Bytes) (as : Attrs) : Res Attrs :=
  match vendorAttr vid typ attr with
  | .ok vsa => .ok (as.add vsaType vsa)
  | .err => .err
  | .fault => .fault

/-- `_V_DelVendor`: remove every sub-attribute of type `typ` from this vendor's attributes; an
    attribute whose payload becomes empty is removed; attributes in which nothing was removed are
    left untouched -/
def delVendor (vid : Nat) (typ : UInt8) : Attrs → Attrs
  | [] => []
  | a :: as =>
    match vendorPayload vid a with
    | none => a :: delVendor vid typ as
    | some payload =>
      let (kept, removed) := vsaDel typ payload
      if !removed then a :: delVendor vid typ as
      else if kept = [] then delVendor vid typ as
      else ⟨a.typ, a.val.take 4 ++ kept⟩ :: delVendor vid typ as

/-- `_V_SetVendor`: encode first (so a failure leaves the packet unchanged), then delete, then add -/
def setVendor (vid : Nat) (typ : UInt8) (attr : Bytes) (as : Attrs) : Res Attrs :=
  match vendorAttr vid typ attr with
  | .ok vsa => .ok ((delVendor vid typ as).add vsaType vsa)
  | .err => .err
  | .fault => .fault

end RV
