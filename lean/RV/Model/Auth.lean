/-
  Model of packet.go: Encode, IsAuthenticResponse, IsAuthenticRequest, Response, New.
  The hash is a parameter `H`; theorems hold for every `H` whose output is 16 bytes, and the driver
  instantiates `H := MD5.md5`.
-/
import RV.Model.Wire
import RV.Spec.Authenticator
namespace RV

abbrev Hash := Bytes → Bytes

/-- how `Encode` treats the authenticator field for a given code (the `switch p.Code`) -/
inductive EncClass where
  | verbatim      -- Access-Request, Status-Server: authenticator sent as is
  | hashReqAuth   -- replies: MD5 over the request authenticator
  | hashZero      -- Accounting-/Disconnect-/CoA-Request: MD5 over sixteen zero octets
  | refused       -- unknown code
deriving DecidableEq, Repr

def EncClass.toNat : EncClass → Nat
  | .verbatim => 0 | .hashReqAuth => 1 | .hashZero => 2 | .refused => 3

/-- packet.go Encode: `switch p.Code` (Code is a Go int, so the argument is an Int) -/
def encodeClass (c : Int) : EncClass :=
  if c = 1 ∨ c = 12 then .verbatim
  else if c = 4 ∨ c = 40 ∨ c = 43 then .hashZero
  else if c = 2 ∨ c = 3 ∨ c = 5 ∨ c = 11 ∨ c = 41 ∨ c = 42 ∨ c = 44 ∨ c = 45 then .hashReqAuth
  else .refused

/-- `hash.Write(b[:4]); hash.Write(A); hash.Write(b[20:]); hash.Write(secret)` -/
def authInput (b a secret : Bytes) : Bytes := b.take 4 ++ a ++ b.drop 20 ++ secret

/-- `hash.Sum(b[4:4:20])` overwrites bytes 4..20 of `b` with the digest -/
def putAuth (b h : Bytes) : Bytes := b.take 4 ++ h ++ b.drop 20

def encode (H : Hash) (p : Packet) : Res Bytes :=
  match marshal p with
  | .ok b =>
    match encodeClass p.code with
    | .verbatim => .ok b
    | .hashReqAuth => .ok (putAuth b (H (authInput b p.auth p.secret)))
    | .hashZero => .ok (putAuth b (H (authInput b (zeros 16) p.secret)))
    | .refused => .err
  | .err => .err
  | .fault => .fault

def isAuthenticResponse (H : Hash) (response request secret : Bytes) : Bool :=
  if response.length < 20 ∨ request.length < 20 ∨ secret.length = 0 then false
  else H (authInput response ((request.drop 4).take 16) secret) == (response.drop 4).take 16

/-- `IsAuthenticRequest`'s switch on `Code(request[0])` -/
inductive ReqClass where
  | always | hashZero | never
deriving DecidableEq, Repr

def ReqClass.toNat : ReqClass → Nat
  | .always => 0 | .hashZero => 1 | .never => 2

def requestClass (c : Nat) : ReqClass :=
  if c = 1 ∨ c = 12 then .always
  else if c = 4 ∨ c = 40 ∨ c = 43 then .hashZero
  else .never

def isAuthenticRequest (H : Hash) (request secret : Bytes) : Bool :=
  if request.length < 20 ∨ secret.length = 0 then false
  else
    match requestClass (request.getD 0 0).toNat with
    | .always => true
    | .hashZero => H (authInput request (zeros 16) secret) == (request.drop 4).take 16
    | .never => false

/-- `Packet.Response` -/
def response (p : Packet) (code : Int) : Packet := ⟨code, p.id, p.auth, p.secret, []⟩

/-- `New`: 17 bytes from crypto/rand are a parameter -/
def newPacket (rnd : Bytes) (code : Int) (secret : Bytes) : Packet :=
  ⟨code, rnd.getD 0 0, (rnd.drop 1).take 16, secret, []⟩

/-! ### RFC side -/
namespace Rfc

/-- RFC 2865 §3 / RFC 2866 §3 / RFC 5176 §2.3:
    MD5(Code+ID+Length+A+Attributes+Secret) over the datagram `w` -/
def replyAuth (H : Hash) (w a secret : Bytes) : Bytes :=
  H (w.take 4 ++ a ++ w.drop 20 ++ secret)

/-- the codes' treatment written from the RFCs: Access-Request (1) and Status-Server (12) keep
    their own authenticator; Accounting-Request (4), Disconnect-Request (40), CoA-Request (43) hash
    sixteen zero octets; Access-Accept (2), Access-Reject (3), Accounting-Response (5),
    Access-Challenge (11), Disconnect-ACK/NAK (41, 42), CoA-ACK/NAK (44, 45) hash the request
    authenticator; every other code is refused. -/
def encClass : Int → EncClass
  | 1 | 12 => .verbatim
  | 4 | 40 | 43 => .hashZero
  | 2 | 3 | 5 | 11 | 41 | 42 | 44 | 45 => .hashReqAuth
  | _ => .refused

def reqClass : Nat → ReqClass
  | 1 | 12 => .always
  | 4 | 40 | 43 => .hashZero
  | _ => .never

end Rfc
/-! ### Datagram ↔ fields (the link between byte offsets and the field-level RFC specification
    `RV.Rfc2865` of RV/Spec/Authenticator.lean; justified against `parse`, `marshal` and
    `Rfc2865.serialize` in RV/Proofs/Auth.lean) -/

/-- the fields of a datagram: Code = octet 0, Identifier = octet 1, Authenticator = octets 4..19,
    Attributes = octets 20..Length-1 (Length = octets 2..3, big-endian).  Exactly what `parse` reads. -/
def wireFields (w : Bytes) : Rfc2865.Fields :=
  ⟨w.getD 0 0, w.getD 1 0, (w.drop 4).take 16, (w.take (lengthField w)).drop 20⟩

/-- the octets beyond the Length field ("padding", RFC 2865 §3) -/
def padding (w : Bytes) : Bytes := w.drop (lengthField w)

/-! ### `New` reading from an entropy source -/

/-- `New` on a source that can still yield the octets `src` (`crypto/rand.Read(buff[:])` with
    `buff [17]byte` either fills the buffer or returns an error, and `New` panics on the error):
    the packet and the unread rest of the source. -/
def newFrom (src : Bytes) (code : Int) (secret : Bytes) : Res (Packet × Bytes) :=
  if src.length < 17 then .fault
  else .ok (newPacket (src.take 17) code secret, src.drop 17)

/-- successive calls `New(code₀, secret₀)`, `New(code₁, secret₁)`, … on one source -/
def newMany : List (Int × Bytes) → Bytes → Res (List Packet × Bytes)
  | [], src => .ok ([], src)
  | (c, s) :: calls, src =>
    match newFrom src c s with
    | .ok (p, rest) =>
      match newMany calls rest with
      | .ok (ps, r) => .ok (p :: ps, r)
      | .err => .err
      | .fault => .fault
    | .err => .err
    | .fault => .fault

/-- packet number `k` of a stream of calls, read off the source directly: its 17 octets are the
    stream positions `17 k … 17 k + 16` -/
def newStream (src : Bytes) (k : Nat) (code : Int) (secret : Bytes) : Res Packet :=
  match newFrom (src.drop (17 * k)) code secret with
  | .ok (p, _) => .ok p
  | .err => .err
  | .fault => .fault

/-! ### The entropy source as an `io.Reader`: short reads

  `crypto/rand.Read(b)` on a replaced `Reader` is `io.ReadFull(Reader, b)`: `Read` is called again and again
  for what is still missing.  One `Read(p)` may deliver FEWER octets than `len p` without an error
  (`io.Reader`'s contract); it delivers at least one, or fails.  `lims` is the source's behaviour: call
  number `k` delivers at most `lims[k]` octets (a limit of 0 counts as 1). -/

/-- `io.ReadFull` for `need` octets from a source that still holds `src` and answers its successive `Read`
    calls with at most `lims[0]`, `lims[1]`, … octets: what was read and what the source still holds;
    `none`: the source ran dry (an error: `New` panics) or `lims` has no entry left for a call. -/
def readFull : List Nat → Nat → Bytes → Option (Bytes × Bytes)
  | _, 0, src => some ([], src)
  | [], _ + 1, _ => none
  | l :: ls, need + 1, src =>
    let n := min (max l 1) (need + 1)
    if src.length < n then none
    else match readFull ls (need + 1 - n) (src.drop n) with
      | some (got, rest) => some (src.take n ++ got, rest)
      | none => none

/-- `New` on an entropy source that answers its `Read` calls as `lims` says -/
def newFromReader (lims : List Nat) (src : Bytes) (code : Int) (secret : Bytes) : Res (Packet × Bytes) :=
  match readFull lims 17 src with
  | some (got, rest) => .ok (newPacket got code secret, rest)
  | none => .fault

end RV
