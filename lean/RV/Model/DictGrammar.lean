/-
  The dictionary LANGUAGE of C16, written down as a grammar: which tokens, which lines and which
  texts are dictionary text, and what they declare.  Nothing here calls the parser of
  RV.Model.DictParser: the predicates are the reading of the property text / of the FreeRADIUS
  dictionary format; the theorems of RV.Proofs.DictTokens (token level, L1), RV.Proofs.DictLines
  (line level, L2; whole text, L3) say that the parser accepts exactly this language.

  Shared with the parser model are only data (the keyword byte strings, the `Dictionary` types and
  the three "append to scope" functions `addAttr`, `addValue`, `scopeAttrs`) and, in L3, the lexer
  (`Lex.lines`, `Lex.stripComment`, `Lex.fields` = bufio.ScanLines, IndexByte('#'), strings.Fields,
  which are library functions, not parser logic).

  Core Lean only.
-/
import RV.Model.DictSpec
namespace RV.DictParser.Grammar
open RV RV.Dict RV.DictParser RV.DictParser.Spec

/-! ### Numbers -/

/-- a non-empty string of the bytes `0`…`9` -/
def Decimal (s : Bytes) : Prop := s ≠ [] ∧ ∀ b ∈ s, 48 ≤ b ∧ b ≤ 57

instance (s : Bytes) : Decidable (Decimal s) := inferInstanceAs (Decidable (_ ∧ _))

/-- positional value of a digit string: Σ dᵢ·10^(k−1−i) -/
def decValue : Bytes → Nat
  | [] => 0
  | d :: ds => (d.toNat - 48) * 10 ^ ds.length + decValue ds

/-- `0`…`9`, `a`…`f`, `A`…`F` -/
def HexDigit (b : UInt8) : Prop := (48 ≤ b ∧ b ≤ 57) ∨ (97 ≤ b ∧ b ≤ 102) ∨ (65 ≤ b ∧ b ≤ 70)

instance (b : UInt8) : Decidable (HexDigit b) := inferInstanceAs (Decidable (_ ∨ _))

/-- value of a hexadecimal digit (either letter case) -/
def hexDigitValue (b : UInt8) : Nat :=
  if b ≤ 57 then b.toNat - 48 else if b ≤ 70 then b.toNat - 55 else b.toNat - 87

def Hexadecimal (s : Bytes) : Prop := s ≠ [] ∧ ∀ b ∈ s, HexDigit b

instance (s : Bytes) : Decidable (Hexadecimal s) := inferInstanceAs (Decidable (_ ∧ _))

/-- Σ dᵢ·16^(k−1−i) -/
def hexValue : Bytes → Nat
  | [] => 0
  | d :: ds => hexDigitValue d * 16 ^ ds.length + hexValue ds

/-- a signed 32-bit decimal literal: optional `+` or `-`, digits, value in −2³¹ … 2³¹−1
    (vendor numbers, `encrypt=` values, the `n` of `octets[n]`) -/
def Int32Lit (s : Bytes) (n : Int) : Prop :=
  ∃ digits, Decimal digits ∧
    (((s = digits ∨ s = 43 :: digits) ∧ n = (decValue digits : Int)) ∨ (s = 45 :: digits ∧ n = -(decValue digits : Int))) ∧
    -(2 ^ 31 : Int) ≤ n ∧ n < 2 ^ 31

/-- the number of a VALUE: `0x` and hexadecimal digits, or decimal digits; below 2³² -/
def ValueNumber (num : Bytes) (n : Nat) : Prop :=
  (∃ h, num = kw0x ++ h ∧ Hexadecimal h ∧ hexValue h = n ∧ n < 2 ^ 32) ∨
  (Decimal num ∧ decValue num = n ∧ n < 2 ^ 32)

/-- a dotted number: one or more digit strings joined by `.` -/
def DottedNumber (s : Bytes) (comps : List Bytes) : Prop :=
  comps ≠ [] ∧ (∀ c ∈ comps, Decimal c) ∧ s = Spec.intercalate 46 comps

/-- the OID a dotted number denotes -/
def oidOf (comps : List Bytes) : List Int := comps.map fun c => (decValue c : Int)

/-! ### Type names -/

/-- `tok` spells `name` up to letter case, as `strings.EqualFold` sees it: byte for byte the same, or
    an ASCII capital letter for its small letter, or U+017F (bytes C5 BF, LATIN SMALL LETTER LONG S)
    for `s`, or U+212A (bytes E2 84 AA, KELVIN SIGN) for `k` -/
inductive FoldsTo : Bytes → Bytes → Prop
  | nil : FoldsTo [] []
  | same (c : UInt8) {s t : Bytes} : FoldsTo s t → FoldsTo (c :: s) (c :: t)
  | upper (c : UInt8) {s t : Bytes} : 65 ≤ c → c ≤ 90 → FoldsTo s t → FoldsTo (c :: s) ((c + 32) :: t)
  | longS {s t : Bytes} : FoldsTo s t → FoldsTo (0xC5 :: 0xBF :: s) (115 :: t)
  | kelvin {s t : Bytes} : FoldsTo s t → FoldsTo (0xE2 :: 0x84 :: 0xAA :: s) (107 :: t)

/-- a type token: one of the 17 type names in any letter case (no size), or `octets[` in any ASCII
    letter case, a signed 32-bit literal and `]` -/
def TypeTok (t : Bytes) (ty : AttrType) (size : Option Int) : Prop :=
  (size = none ∧ FoldsTo t (typeName ty)) ∨
  (ty = .octets ∧ ∃ p lit n, t = p ++ lit ++ [93] ∧ p.length = 7 ∧ FoldsTo p kwOctetsBr ∧ Int32Lit lit n ∧ size = some n)

/-! ### Flags -/

/-- one item of the flag field -/
inductive FlagItem : Bytes → Flag → Prop
  | hasTag : FlagItem kwHasTag .hasTag
  | concat : FlagItem kwConcat .concat
  | encrypt (lit : Bytes) (n : Int) : Int32Lit lit n → FlagItem (kwEncrypt ++ lit) (.encrypt n)

/-- item by item -/
inductive FlagItems : List Bytes → List Flag → Prop
  | nil : FlagItems [] []
  | cons {t : Bytes} {f : Flag} {ts : List Bytes} {fs : List Flag} :
      FlagItem t f → FlagItems ts fs → FlagItems (t :: ts) (f :: fs)

/-- the flag field is its items joined by `,` (items contain no comma; an item may be empty, which is
    no `FlagItem`) -/
def FlagField (field : Bytes) (items : List Bytes) : Prop :=
  items ≠ [] ∧ (∀ t ∈ items, ∀ b ∈ t, b ≠ 44) ∧ field = Spec.intercalate 44 items

/-- no flag kind is given twice (`flagsOK` of RV.Model.DictSpec also asks the `encrypt=` values to be
    32-bit, which `FlagItem` already says) -/
def FlagsOnce (a : Attribute) (fl : List Flag) : Prop := flagsOK a fl = true

/-! ### VENDOR format -/

/-- `format=t,l` with t ∈ {1,2,4} and l ∈ {0,1,2} -/
def FormatTok (f : Bytes) (t l : Nat) : Prop :=
  (t = 1 ∨ t = 2 ∨ t = 4) ∧ (l = 0 ∨ l = 1 ∨ l = 2) ∧ f = kwFormat ++ [UInt8.ofNat (48 + t), 44, UInt8.ofNat (48 + l)]

/-! ### The arguments of the three declaring directives -/

/-- `ATTRIBUTE name oid type [flags]` declares `a` -/
def AttrArgs (name oid typ : Bytes) (flags : Option Bytes) (a : Attribute) : Prop :=
  ∃ comps ty size fl,
    DottedNumber oid comps ∧ (∀ c ∈ comps, decValue c < 2 ^ 63) ∧ TypeTok typ ty size ∧
    (match flags with
     | none => fl = []
     | some field => ∃ items, FlagField field items ∧ FlagItems items fl) ∧
    FlagsOnce { name := name, oid := oidOf comps, typ := ty, size := size } fl ∧
    a = fl.foldl applyFlag { name := name, oid := oidOf comps, typ := ty, size := size }

/-- `VALUE attr name number` declares `v` -/
def ValueArgs (attr name num : Bytes) (v : Value) : Prop :=
  v.attrName = attr ∧ v.name = name ∧ ValueNumber num v.number

/-- `VENDOR name number [format=t,l]` declares `v` (a vendor without attributes and values yet) -/
def VendorArgs (name num : Bytes) (fmt : Option Bytes) (v : Vendor) : Prop :=
  v.name = name ∧ Int32Lit num v.number ∧ v.attributes = [] ∧ v.values = [] ∧
  ((fmt = none ∧ v.typeOctets = none ∧ v.lengthOctets = none) ∨
   (∃ f t l, fmt = some f ∧ FormatTok f t l ∧ v.typeOctets = some (t : Int) ∧ v.lengthOctets = some (l : Int)))

/-! ### Lines -/

/-- state between two lines: the open vendor block (if any) and the dictionary so far -/
abbrev LState := Option Bytes × Dictionary

/-- What a line with these fields declares, where it stands (`s` before, `s'` after).  `ign` is
    `Parser.IgnoreIdenticalAttributes`.  `$INCLUDE` is not part of this relation (C15). -/
inductive LineDecl (ign : Bool) : LState → List Bytes → LState → Prop
  /-- an attribute whose name is new in the scope (top level, or the open vendor block) -/
  | attr {vb d} (name oid typ : Bytes) (flags : Option Bytes) (a : Attribute) :
      AttrArgs name oid typ flags a → attributeByName (scopeAttrs d vb) a.name = none →
      LineDecl ign (vb, d) ([kwATTRIBUTE, name, oid, typ] ++ flags.toList) (vb, addAttr d a vb)
  /-- with IgnoreIdenticalAttributes, a repetition identical in every part declares nothing -/
  | attrAgain {vb d} (name oid typ : Bytes) (flags : Option Bytes) (a : Attribute) :
      AttrArgs name oid typ flags a → ign = true → attributeByName (scopeAttrs d vb) a.name = some a →
      LineDecl ign (vb, d) ([kwATTRIBUTE, name, oid, typ] ++ flags.toList) (vb, d)
  | value {vb d} (attr name num : Bytes) (v : Value) :
      ValueArgs attr name num v →
      LineDecl ign (vb, d) [kwVALUE, attr, name, num] (vb, addValue d v vb)
  /-- a vendor whose name and number are both new -/
  | vendor {vb d} (name num : Bytes) (fmt : Option Bytes) (v : Vendor) :
      VendorArgs name num fmt v → (∀ w ∈ d.vendors, w.name ≠ v.name ∧ w.number ≠ v.number) →
      LineDecl ign (vb, d) ([kwVENDOR, name, num] ++ fmt.toList) (vb, { d with vendors := d.vendors ++ [v] })
  /-- `BEGIN-VENDOR n`: no block is open, `n` is a declared vendor -/
  | beginVendor {d} (n : Bytes) :
      (∃ w ∈ d.vendors, w.name = n) →
      LineDecl ign (none, d) [kwBEGIN, n] (some n, d)
  /-- `END-VENDOR n`: closes the open block of `n` -/
  | endVendor {d} (n : Bytes) :
      LineDecl ign (some n, d) [kwEND, n] (none, d)

/-- a text as the list of its lines' field lists: lines without fields declare nothing -/
inductive LinesDecl (ign : Bool) : LState → List (List Bytes) → LState → Prop
  | nil {s} : LinesDecl ign s [] s
  | blank {s rest s'} : LinesDecl ign s rest s' → LinesDecl ign s ([] :: rest) s'
  | line {s fields s1 rest s'} : LineDecl ign s fields s1 → LinesDecl ign s1 rest s' →
      LinesDecl ign s (fields :: rest) s'

/-- the field lists of the lines of a text: split at `\n` (one `\r` before it dropped), cut at the
    first `#`, split at white space -/
def fieldLines (text : Bytes) : List (List Bytes) :=
  (Lex.lines text).1.map fun raw => Lex.fields (Lex.stripComment raw)

/-- THE LANGUAGE: `text` is a dictionary text (without `$INCLUDE`) that declares `d`: no line is
    longer than the scanner's limit, every line is blank or a declaration valid where it stands, and
    no vendor block is open at the end -/
def Accepts (ign : Bool) (text : Bytes) (d : Dictionary) : Prop :=
  (Lex.lines text).2 = false ∧ LinesDecl ign (none, {}) (fieldLines text) (none, d)

end RV.DictParser.Grammar
