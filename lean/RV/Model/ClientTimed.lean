/-
  Timed refinement of the Exchange machine (`RV.Exchange`, Model/Client.lean) — property C08, clause
  "while it waits it retransmits … AT THE CONFIGURED INTERVAL".

  The untimed machine has one event `tick` = "the retry ticker fires and the helper's select takes
  that case".  Here that is split into what really happens, with time stamps:

    * client.go:72-83   `conn.Write(wire)`, then (only if `c.Retry > 0`) `retry := time.NewTicker(c.Retry)`.
      Both happen at the timed event `dialOk`; its time stamp is `t0`.  (The ticker is created AFTER
      the first write returns, so the real creation instant is ≥ the instant the first datagram left;
      the model identifies the two, which only makes the model's resends EARLIER than the real ones
      can be — every lower bound on a write time proved here holds a fortiori for the code.)
    * `time.Ticker`: firing number k (k = 1, 2, …) is DUE at `t0 + k·d` (d = `Retry`).  The runtime's
      timer code performs a non-blocking send on `retry.C`, a channel of capacity 1, at some instant
      ≥ the due time (`TEv.fire k`; how late is the environment's choice); a send that finds the channel
      full is dropped; the runtime may skip firings altogether when it is late by more than a period
      (`fire k` with `k > next`).  Firings are delivered in increasing order.  After `Exchange` has
      returned (`defer retry.Stop()`) nothing is delivered any more.
    * the helper goroutine's `select` receives from `retry.C` at some instant ≥ the send
      (`TEv.ev .tick`; how late is again the environment's choice) — possible only if a value is in
      the channel and the helper still runs.  Receiving empties the channel.  A tick that fires while
      the helper is inside `conn.Write` simply waits in the channel (or is dropped if one waits already).

  `wellTimed` says that a time-stamped event sequence respects these rules (time stamps non-decreasing,
  `fire`/`tick` only when enabled).  With `Retry ≤ 0` no ticker exists, so neither is ever enabled.
  Ghost components record when each `conn.Write` happened and which firing caused it.

  The punctual ticker (every firing delivered exactly when due, none skipped) is the special case the
  lower bound `resend_count_ge_under_latency` is about; the upper bounds hold for every well-timed
  sequence, punctual or not.

  Core Lean only (the driver imports this file).  Time is a `Nat` in arbitrary units (the driver uses
  milliseconds).
-/
import RV.Model.Client
namespace RV.Exchange.Timed
open RV RV.Client RV.Exchange

/-- what can happen at an instant: the runtime delivers firing number `k` of the ticker, or one of the
    events of the untimed machine -/
inductive TEv where
  | fire (k : Nat)
  | ev (e : Event)
deriving Repr, DecidableEq

/-- a time-stamped event -/
abbrev TEvent := Nat × TEv

/-- `time.Ticker` as client.go uses it -/
structure Ticker where
  /-- firings 1 … next-1 have been delivered (or skipped); the next one to be delivered has number ≥ next -/
  next : Nat
  /-- `retry.C`, capacity 1: the number of the firing waiting in it -/
  chan : Option Nat
  /-- ghost: how many values the helper has received -/
  taken : Nat
  /-- ghost: firings that never became a value in the channel (channel full, or skipped by the runtime) -/
  lost : Nat
deriving Repr, DecidableEq

/-- `time.NewTicker(d)` -/
def Ticker.fresh : Ticker := { next := 1, chan := none, taken := 0, lost := 0 }

/-- the runtime's non-blocking send of firing `k` (firings `next … k-1` are skipped) -/
def Ticker.deliver (tk : Ticker) (k : Nat) : Ticker :=
  match tk.chan with
  | none => { tk with next := k + 1, chan := some k, lost := tk.lost + (k - tk.next) }
  | some _ => { tk with next := k + 1, lost := tk.lost + (k - tk.next) + 1 }

/-- `case <-retryTimer:` -/
def Ticker.take (tk : Ticker) : Ticker :=
  match tk.chan with
  | some _ => { tk with chan := none, taken := tk.taken + 1 }
  | none => tk

structure TState where
  /-- the state of the untimed machine -/
  logic : State
  /-- time stamp of the last event -/
  now : Nat
  /-- time stamp of `dialOk` (first write, ticker creation); 0 before -/
  t0 : Nat
  /-- exists from `dialOk` on, iff `Retry > 0` -/
  ticker : Option Ticker
  /-- ghost, parallel to `logic.sent`: (time, number of the firing that caused it) of every `conn.Write`;
      the first write has firing number 0 -/
  writes : List (Nat × Nat)
deriving Repr, DecidableEq

/-- the interval in the model's time unit -/
def period (P : Params) : Nat := P.retry.toNat

/-- when firing number `k` is due -/
def due (P : Params) (s : TState) (k : Nat) : Nat := s.t0 + k * period P

def tinit (P : Params) : TState :=
  { logic := init P, now := 0, t0 := 0, ticker := none, writes := [] }

/-- number of the firing in the channel (0 if none) -/
def pendingIdx (s : TState) : Nat :=
  match s.ticker with
  | some tk => tk.chan.getD 0
  | none => 0

/-- one time-stamped event.  Total (an event that is not enabled still has an effect here, so that the
    refinement `timed_refines` needs no hypothesis); `wellTimed` rules such events out. -/
def tstep (H : Hash) (P : Params) (s : TState) (te : TEvent) : TState :=
  match te.2 with
  | .fire k => { s with now := te.1, ticker := s.ticker.map (fun tk => tk.deliver k) }
  | .ev e =>
    let l' := step H P s.logic e
    let grew : Bool := decide (l'.sent.length ≠ s.logic.sent.length)
    let dialled : Bool := decide (e = .dialOk ∧ s.logic.phase = .dialing)
    let isTick : Bool := decide (e = .tick)
    { logic := l'
      now := te.1
      t0 := if dialled then te.1 else s.t0
      ticker :=
        if dialled then (if P.retry > 0 then some Ticker.fresh else none)
        else if isTick then s.ticker.map Ticker.take
        else s.ticker
      writes := if grew then s.writes ++ [(te.1, if isTick then pendingIdx s else 0)] else s.writes }

def trun (H : Hash) (P : Params) (s : TState) (evs : List TEvent) : TState :=
  evs.foldl (tstep H P) s

def treach (H : Hash) (P : Params) (evs : List TEvent) : TState := trun H P (tinit P) evs

/-- forget the time stamps and the runtime's deliveries -/
def erase : List TEvent → List Event
  | [] => []
  | (_, .fire _) :: es => erase es
  | (_, .ev e) :: es => e :: erase es

/-- may `te` happen in state `s`?  Time does not run backwards; a firing is delivered only by a live
    ticker (created, not stopped by the return), in order, not before it is due; the helper receives a
    tick only if one is in the channel and the helper still runs.  Everything else is as permissive as
    the untimed machine. -/
def enabled (P : Params) (s : TState) (te : TEvent) : Bool :=
  decide (s.now ≤ te.1) &&
  match te.2 with
  | .fire k =>
    match s.ticker with
    | some tk => !isReturned s.logic && decide (tk.next ≤ k) && decide (due P s k ≤ te.1)
    | none => false
  | .ev .tick =>
    match s.ticker with
    | some tk => tk.chan.isSome && s.logic.helperAlive
    | none => false
  | .ev _ => true

def wellTimedFrom (H : Hash) (P : Params) : TState → List TEvent → Bool
  | _, [] => true
  | s, te :: es => enabled P s te && wellTimedFrom H P (tstep H P s te) es

/-- the time-stamped sequence is a possible history of a call -/
def wellTimed (H : Hash) (P : Params) (evs : List TEvent) : Bool := wellTimedFrom H P (tinit P) evs

/-! ### the hypothesis of the lower bound: a punctual runtime and a helper with latency ≤ L -/

/-- at instant `t`, looking at state `s`: nothing is overdue by more than `L` — the next firing to be
    delivered, and the tick waiting in the channel -/
def onTime (P : Params) (L : Nat) (s : TState) (t : Nat) : Bool :=
  match s.ticker with
  | none => true
  | some tk =>
    decide (t ≤ due P s tk.next + L) &&
    match tk.chan with
    | some k => decide (t ≤ due P s k + L)
    | none => true

/-- no firing is skipped -/
def noSkip (s : TState) (te : TEvent) : Bool :=
  match te.2, s.ticker with
  | .fire k, some tk => decide (k = tk.next)
  | _, _ => true

/-- whenever something happens, nothing is overdue by more than `L` at that instant, and the runtime
    skips no firing -/
def responsiveFrom (H : Hash) (P : Params) (L : Nat) : TState → List TEvent → Bool
  | _, [] => true
  | s, te :: es => onTime P L s te.1 && noSkip s te && responsiveFrom H P L (tstep H P s te) es

def responsive (H : Hash) (P : Params) (L : Nat) (evs : List TEvent) : Bool :=
  responsiveFrom H P L (tinit P) evs

/-- at the instant `T` of the observation (after everything that happened up to `T`) the deadline
    `due + L` of what is still outstanding has not been reached -/
def settled (P : Params) (L : Nat) (s : TState) (T : Nat) : Bool :=
  match s.ticker with
  | none => true
  | some tk =>
    decide (T < due P s tk.next + L) &&
    match tk.chan with
    | some k => decide (T < due P s k + L)
    | none => true

/-! ### the model's bounds as predicates on an observation (used by the driver)

  An observation is a list of instants `arr` at which the request datagrams were seen (the first one
  included) and an instant `fin` by which the call had returned, on a clock whose origin is not later
  than `t0`; `tol` is an explicit allowance.  `Proofs/ClientTimed.lean` proves that every observation
  that is consistent with a well-timed run satisfies both predicates with `tol = 0`. -/

/-- the i-th datagram is not seen before `i·d` -/
def obsNotEarlyFrom (d tol : Nat) : Nat → List Nat → Bool
  | _, [] => true
  | i, a :: as => decide (i * d ≤ a + tol) && obsNotEarlyFrom d tol (i + 1) as

def obsNotEarly (d tol : Nat) (arr : List Nat) : Bool := obsNotEarlyFrom d tol 0 arr

/-- not more resends than intervals that have begun -/
def obsCountOk (d tol fin : Nat) (arr : List Nat) : Bool :=
  decide (arr.length ≤ 1 + (fin + tol) / d)

/-- The LOWER bound of `resend_count_ge_under_latency` as a predicate on an observation: with interval `d`,
    latency bound `L`, `t0` an instant NOT BEFORE the model's `t0` on the observer's clock (for instance the
    arrival of the first datagram — the opposite direction to the origin of the upper bounds, which must
    not be after it) and `fin` an instant of observation while the call still waits, at least
    `(fin - t0 - L) / d` retransmissions (plus the first write) have been seen.
    This is what would be asserted on a quiet machine.  The driver does NOT evaluate it: a loaded sandbox
    does not meet the latency hypothesis (`responsive L`, `settled`) under which
    `observation_lower_bound_under_latency` proves it, so it would alarm on the unchanged code.  A ticker
    that is merely SLOWER than `Retry` (the change this bound would catch) is covered by the regenerated
    fact `tickerPeriodIsRetry` (Facts/TieC08.lean) instead. -/
def obsCountGe (d L t0 fin : Nat) (arr : List Nat) : Bool :=
  decide ((fin - t0 - L) / d + 1 ≤ arr.length)

end RV.Exchange.Timed
