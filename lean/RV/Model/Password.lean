/-
  Model of attribute.go: NewUserPassword / UserPassword (RFC 2865 §5.2) and
  NewTunnelPassword / TunnelPassword (RFC 2868 §3.5), for an arbitrary 16-byte hash `H`.
-/
import RV.Model.Auth
namespace RV

/-- xor the bytes of `p` (at most 16) into the front of the 16-byte digest `h`, leaving the rest
    of `h` unchanged: `for j := 0; j < 16 && i+j < len(plaintext); j++ { enc[i+j] ^= plaintext[i+j] }` -/
def xorInto (h p : Bytes) : Bytes := xorBytes (h.take p.length) p ++ h.drop p.length

/-- the loop `for i := 16; i < len(plaintext); i += 16 { enc = H(secret ++ enc[i-16:i]) ^ plaintext[i:i+16] }` -/
def upEncLoop (H : Hash) (secret prev rest : Bytes) : Bytes :=
  if h : rest = [] then []
  else
    let c := xorInto (H (secret ++ prev)) (rest.take 16)
    c ++ upEncLoop H secret c (rest.drop 16)
termination_by rest.length
decreasing_by
  cases rest with
  | nil => exact absurd rfl h
  | cons x xs => simp; omega

def newUserPassword (H : Hash) (plain secret ra : Bytes) : Res Bytes :=
  if plain.length > 128 then .err
  else if secret.length = 0 then .err
  else if ra.length ≠ 16 then .err
  else
    let c0 := xorInto (H (secret ++ ra)) (plain.take 16)
    .ok (c0 ++ upEncLoop H secret c0 (plain.drop 16))

/-- decryption loop: `dec = append(dec, H(secret ++ a[i-16:i]) ^ a[i:i+16])` -/
def upDecLoop (H : Hash) (secret prev rest : Bytes) : Bytes :=
  if h : rest = [] then []
  else
    xorBytes (H (secret ++ prev)) (rest.take 16) ++ upDecLoop H secret (rest.take 16) (rest.drop 16)
termination_by rest.length
decreasing_by
  cases rest with
  | nil => exact absurd rfl h
  | cons x xs => simp; omega

/-- `bytes.IndexByte(dec, 0)` cut -/
def cutAtNul (b : Bytes) : Bytes := b.takeWhile (· ≠ 0)

def userPassword (H : Hash) (a secret ra : Bytes) : Res Bytes :=
  if a.length < 16 ∨ a.length > 128 ∨ a.length % 16 ≠ 0 then .err
  else if secret.length = 0 then .err
  else if ra.length ≠ 16 then .err
  else .ok (cutAtNul (upDecLoop H secret ra a))

/-! ### RFC 2865 §5.2 as written -/
namespace Rfc2865

/-- pad with NULs to a multiple of 16 octets, at least one block -/
def pad16 (p : Bytes) : Bytes :=
  if p = [] then zeros 16 else p ++ zeros ((16 - p.length % 16) % 16)

/-- split into 16-octet blocks (the input is a multiple of 16 long) -/
def blocks (b : Bytes) : List Bytes :=
  if h : b = [] then [] else b.take 16 :: blocks (b.drop 16)
termination_by b.length
decreasing_by
  cases b with
  | nil => exact absurd rfl h
  | cons x xs => simp; omega

/-- c(1) = p(1) xor H(S + RA), c(i) = p(i) xor H(S + c(i-1)) -/
def hide (H : Hash) (secret : Bytes) (prev : Bytes) : List Bytes → List Bytes
  | [] => []
  | p :: ps => let c := xorBytes p (H (secret ++ prev)); c :: hide H secret c ps

def userPasswordCipher (H : Hash) (plain secret ra : Bytes) : Bytes :=
  (hide H secret ra (blocks (pad16 plain))).flatten

end Rfc2865

/-! ### Tunnel-Password (RFC 2868 §3.5) -/

/-- attribute.go: NewTunnelPassword's length limit -/
abbrev tunnelPasswordMax : Nat := 239

/-- encryption of successive 16-byte blocks: b(1) = H(S + R + A), c(i) = p(i) xor b(i), b(i+1) = H(S + c(i)) -/
def tpEncLoop (H : Hash) (secret : Bytes) (iv : Bytes) (rest : Bytes) : Bytes :=
  if h : rest = [] then []
  else
    let c := xorBytes (rest.take 16) (H (secret ++ iv))
    c ++ tpEncLoop H secret c (rest.drop 16)
termination_by rest.length
decreasing_by
  cases rest with
  | nil => exact absurd rfl h
  | cons x xs => simp; omega

def newTunnelPassword (H : Hash) (password salt secret ra : Bytes) : Res Bytes :=
  if password.length > tunnelPasswordMax then .err
  else if salt.length ≠ 2 then .err
  else if (salt.getD 0 0) &&& 0x80 ≠ 0x80 then .err
  else if secret.length = 0 then .err
  else if ra.length ≠ 16 then .err
  else
    let chunks := (1 + password.length + 15) / 16
    let plain := UInt8.ofNat password.length :: password ++ zeros (chunks * 16 - 1 - password.length)
    .ok (salt ++ tpEncLoop H secret (ra ++ salt) plain)

def tpDecLoop (H : Hash) (secret : Bytes) (iv : Bytes) (rest : Bytes) : Bytes :=
  if h : rest = [] then []
  else
    xorBytes (rest.take 16) (H (secret ++ iv)) ++ tpDecLoop H secret (rest.take 16) (rest.drop 16)
termination_by rest.length
decreasing_by
  cases rest with
  | nil => exact absurd rfl h
  | cons x xs => simp; omega

/-- returns (password, salt) -/
def tunnelPassword (H : Hash) (a secret ra : Bytes) : Res (Bytes × Bytes) :=
  if a.length > 252 ∨ a.length < 18 ∨ (a.length - 2) % 16 ≠ 0 then .err
  else if secret.length = 0 then .err
  else if ra.length ≠ 16 then .err
  else if (a.getD 0 0) &&& 0x80 ≠ 0x80 then .err
  else
    let salt := a.take 2
    let plaintext := tpDecLoop H secret (ra ++ salt) (a.drop 2)
    let n := (plaintext.getD 0 0).toNat
    if n > plaintext.length - 1 then .err
    else .ok ((plaintext.drop 1).take n, salt)

namespace Rfc2868

/-- RFC 2868 §3.5: plaintext = length octet, password, padding to a multiple of 16 -/
def plaintext (password : Bytes) : Bytes :=
  let body := UInt8.ofNat password.length :: password
  body ++ zeros ((16 - body.length % 16) % 16)

/-- b(1) = H(S + R + A) ; c(1) = p(1) xor b(1) ; b(i) = H(S + c(i-1)) ; c(i) = p(i) xor b(i) -/
def encrypt (H : Hash) (secret : Bytes) (iv : Bytes) : List Bytes → List Bytes
  | [] => []
  | p :: ps => let c := xorBytes p (H (secret ++ iv)); c :: encrypt H secret c ps

def tunnelPasswordCipher (H : Hash) (password salt secret ra : Bytes) : Bytes :=
  salt ++ (encrypt H secret (ra ++ salt) (Rfc2865.blocks (plaintext password))).flatten

end Rfc2868
end RV
