/- Helper lemmas about RV.Model.Wire used by RV.Props.C01 and RV.Props.C09. -/
import RV.Model.Wire
namespace RV

/-! ### Del / Set loops -/

theorem delLoop_append (k : Int) (post pre : Attrs) :
    delLoop k (pre ++ post) pre.length = pre ++ post.filter (fun a => a.typ ≠ k) := by
  induction post generalizing pre with
  | nil => unfold delLoop; simp
  | cons a post ih =>
    unfold delLoop
    have h : pre.length < (pre ++ a :: post).length := by simp
    rw [dif_pos h]
    have hget : (pre ++ a :: post)[pre.length] = a := by simp
    rw [hget]
    by_cases hk : a.typ = k
    · rw [if_pos hk]
      have : (pre ++ a :: post).eraseIdx pre.length = pre ++ post := by
        simp [List.eraseIdx_append_of_length_le]
      rw [this, ih]; simp [hk]
    · rw [if_neg hk]
      have := ih (pre ++ [a])
      simp at this
      simp [this, hk]

theorem del_eq_filter (as : Attrs) (k : Int) : as.del k = as.filter (fun a => a.typ ≠ k) := by
  have := delLoop_append k as []
  simpa [Attrs.del] using this

theorem filter_ne_idem (as : Attrs) (k : Int) :
    (as.filter (fun a => a.typ ≠ k)).filter (fun a => a.typ ≠ k) = as.filter (fun a => a.typ ≠ k) := by
  rw [List.filter_filter]; simp only [Bool.and_self]

theorem setLoop_append (k : Int) (v : Bytes) (post pre : Attrs) (found : Bool) :
    setLoop k v (pre ++ post) pre.length found =
      if found then (pre ++ post.filter (fun a => a.typ ≠ k), true)
      else if post.any (fun a => a.typ = k) then (pre ++ Spec.setAux k v post, true)
      else (pre ++ post, false) := by
  induction post generalizing pre found with
  | nil => unfold setLoop; cases found <;> simp
  | cons a post ih =>
    unfold setLoop
    have h : pre.length < (pre ++ a :: post).length := by simp
    rw [dif_pos h]
    have hget : (pre ++ a :: post)[pre.length] = a := by simp
    rw [hget]
    by_cases hk : a.typ = k
    · rw [if_pos hk]
      cases found with
      | true =>
        have : (pre ++ a :: post).eraseIdx pre.length = pre ++ post := by
          simp [List.eraseIdx_append_of_length_le]
        simp only [if_true, this, ih]; simp [hk]
      | false =>
        have hs : List.set (pre ++ a :: post) pre.length ⟨k, v⟩ = (pre ++ [⟨k, v⟩]) ++ post := by
          simp [List.set_append_right]
        have := ih (pre ++ [⟨k, v⟩]) true
        simp at this
        simp [hs, this, hk, Spec.setAux]
    · rw [if_neg hk]
      have := ih (pre ++ [a]) found
      simp at this
      cases found <;> simp_all [Spec.setAux]

theorem set_eq_spec (as : Attrs) (k : Int) (v : Bytes) : as.set k v = Spec.set as k v := by
  have := setLoop_append k v as [] false
  simp only [List.nil_append, List.length_nil, Bool.false_eq_true, if_false] at this
  unfold Attrs.set Spec.set
  rw [this]
  by_cases h : as.any (fun a => a.typ = k) = true
  · simp only [h, if_true]
  · simp only [h, Attrs.add]; simp

theorem lookup_eq_find (as : Attrs) (k : Int) :
    as.lookup k = (as.find? (fun a => a.typ = k)).map (·.val) := by
  induction as with
  | nil => rfl
  | cons a as ih =>
    by_cases h : a.typ = k <;> simp [Attrs.lookup, List.find?, h, ih]

theorem setAux_filter_eq (k : Int) (v : Bytes) (as : Attrs) (h : as.any (fun a => a.typ = k) = true) :
    (Spec.setAux k v as).filter (fun a => a.typ = k) = [⟨k, v⟩] := by
  induction as with
  | nil => simp at h
  | cons a as ih =>
    by_cases hk : a.typ = k
    · simp [Spec.setAux, hk, List.filter_filter]
    · simp [hk] at h
      simp [Spec.setAux, hk, ih, h]

theorem setAux_filter_ne (k : Int) (v : Bytes) (as : Attrs) :
    (Spec.setAux k v as).filter (fun a => a.typ ≠ k) = as.filter (fun a => a.typ ≠ k) := by
  induction as with
  | nil => rfl
  | cons a as ih =>
    by_cases hk : a.typ = k
    · simp [Spec.setAux, hk, List.filter_filter]
    · simp at ih
      simp [Spec.setAux, hk, ih]

theorem specSet_filter_eq (as : Attrs) (k : Int) (v : Bytes) :
    (Spec.set as k v).filter (fun a => a.typ = k) = [⟨k, v⟩] := by
  unfold Spec.set
  by_cases h : as.any (fun a => a.typ = k) = true
  · rw [if_pos h]; exact setAux_filter_eq k v as h
  · rw [if_neg h]
    simp at h
    simp [List.filter_append]
    intro a ha; exact h a ha

theorem specSet_filter_ne (as : Attrs) (k : Int) (v : Bytes) :
    (Spec.set as k v).filter (fun a => a.typ ≠ k) = as.filter (fun a => a.typ ≠ k) := by
  unfold Spec.set
  by_cases h : as.any (fun a => a.typ = k) = true
  · rw [if_pos h]; exact setAux_filter_ne k v as
  · rw [if_neg h]; simp [List.filter_append]

theorem lookup_of_filter (as : Attrs) (k : Int) :
    as.lookup k = ((as.filter (fun a => a.typ = k)).head?).map (·.val) := by
  induction as with
  | nil => rfl
  | cons a as ih =>
    by_cases h : a.typ = k <;> simp [Attrs.lookup, h, ih]

/-! ### Byte facts -/

theorem u8_lt (x : UInt8) : x.toNat < 256 := x.toNat_lt

theorem u8_ofNat_toNat_lt {n : Nat} (h : n < 256) : (UInt8.ofNat n).toNat = n :=
  UInt8.toNat_ofNat_of_lt' h

theorem be16_div (hi lo : UInt8) : UInt8.ofNat (be16 hi lo / 256) = hi := by
  have := u8_lt lo
  have h : be16 hi lo / 256 = hi.toNat := by unfold be16; omega
  rw [h, UInt8.ofNat_toNat]

theorem be16_mod (hi lo : UInt8) : UInt8.ofNat (be16 hi lo % 256) = lo := by
  have := u8_lt lo
  have h : be16 hi lo % 256 = lo.toNat := by unfold be16; omega
  rw [h, UInt8.ofNat_toNat]

theorem be16_ofNat {n : Nat} (h : n < 65536) :
    be16 (UInt8.ofNat (n / 256)) (UInt8.ofNat (n % 256)) = n := by
  unfold be16
  rw [u8_ofNat_toNat_lt (by omega), u8_ofNat_toNat_lt (by omega)]
  omega

theorem codeByte_toNat (x : UInt8) : codeByte (x.toNat : Int) = x := by
  have := u8_lt x
  have h : ((x.toNat : Int) % 256).toNat = x.toNat := by omega
  unfold codeByte
  rw [h, UInt8.ofNat_toNat]

theorem codeByte_cast {c : Int} (h0 : 0 ≤ c) (h1 : c ≤ 255) : ((codeByte c).toNat : Int) = c := by
  unfold codeByte
  rw [u8_ofNat_toNat_lt (by omega)]
  omega

/-! ### Encoder -/

/-- every valid-type value fits the one-octet length -/
def okLens (as : Attrs) : Bool :=
  as.all (fun a => !validType a || decide (a.val.length ≤ 253))

theorem okLens_iff (as : Attrs) :
    okLens as = true ↔ ∀ a ∈ as, validType a = true → a.val.length ≤ 253 := by
  unfold okLens
  simp only [List.all_eq_true, Bool.or_eq_true, Bool.not_eq_true', decide_eq_true_eq]
  constructor
  · intro h a ha hv
    cases h a ha with
    | inl h => rw [hv] at h; cases h
    | inr h => exact h
  · intro h a ha
    cases hv : validType a with
    | false => exact Or.inl rfl
    | true => exact Or.inr (h a ha hv)

@[simp] theorem okLens_nil : okLens [] = true := rfl

theorem okLens_cons (a : AVP) (as : Attrs) :
    okLens (a :: as) = ((!validType a || decide (a.val.length ≤ 253)) && okLens as) := by
  simp [okLens]

theorem avpBytes_length (a : AVP) : (avpBytes a).length = 2 + a.val.length := by
  simp [avpBytes]; omega

theorem encodeBytes_eq_flatten (as : Attrs) :
    encodeBytes as = ((as.filter validType).map avpBytes).flatten := by
  induction as with
  | nil => rfl
  | cons a as ih =>
    cases h : validType a <;> simp [encodeBytes, h, ih]

theorem encodeBytes_length (as : Attrs) :
    (encodeBytes as).length = ((as.filter validType).map (fun a => 2 + a.val.length)).sum := by
  induction as with
  | nil => rfl
  | cons a as ih =>
    cases h : validType a <;> simp [encodeBytes, h, ih, avpBytes_length]

theorem encodedLenFrom_eq (as : Attrs) (m : Nat) :
    encodedLenFrom m as =
      if okLens as then .ok (m + (encodeBytes as).length) else .err := by
  induction as generalizing m with
  | nil => simp [encodedLenFrom, encodeBytes]
  | cons a as ih =>
    unfold encodedLenFrom
    cases hv : validType a with
    | false => simp [ih, okLens_cons, hv, encodeBytes]
    | true =>
      by_cases hl : a.val.length ≤ 253
      · have : ¬ a.val.length > maxAttrValue := by simp only [maxAttrValue]; omega
        simp [ih, okLens_cons, hv, encodeBytes, this, hl, avpBytes_length]
        cases okLens as <;> simp; omega
      · have : a.val.length > maxAttrValue := by simp only [maxAttrValue]; omega
        simp [okLens_cons, hv, this, hl]

theorem encodedLen_eq (as : Attrs) :
    encodedLen as = if okLens as then .ok (encodeBytes as).length else .err := by
  simp [encodedLen, encodedLenFrom_eq]

theorem encodeTo_exact (as : Attrs) (buf : Bytes) (hok : okLens as = true)
    (hlen : buf.length = (encodeBytes as).length) : encodeTo as buf = .ok (encodeBytes as) := by
  induction as generalizing buf with
  | nil =>
    simp [encodeBytes] at hlen
    simp [encodeTo, encodeBytes, hlen]
  | cons a as ih =>
    rw [okLens_cons] at hok
    simp only [Bool.and_eq_true] at hok
    obtain ⟨h1, h2⟩ := hok
    unfold encodeTo
    cases hv : validType a with
    | false =>
      simp only [encodeBytes, hv] at hlen ⊢
      simpa using ih buf h2 hlen
    | true =>
      simp [hv] at h1
      have hle : ¬ a.val.length > maxAttrValue := by simp only [maxAttrValue]; omega
      simp only [encodeBytes, hv, if_true, List.length_append, avpBytes_length] at hlen ⊢
      have hd : (buf.drop (2 + a.val.length)).length = (encodeBytes as).length := by
        simp; omega
      have hlt : ¬ buf.length < 2 + a.val.length := by omega
      simp [hle, hlt, ih _ h2 hd]

theorem encodeTo_of_encodedLen (as : Attrs) (n : Nat) (h : encodedLen as = .ok n) :
    encodeTo as (zeros n) = .ok (encodeBytes as) ∧ (encodeBytes as).length = n := by
  rw [encodedLen_eq] at h
  cases hok : okLens as with
  | false => simp [hok] at h
  | true =>
    simp [hok] at h
    exact ⟨encodeTo_exact as _ hok (by simp [zeros, h]), h⟩

/-! ### ParseAttributes -/

theorem parseAttrs_ne_fault (b : Bytes) : parseAttrs b ≠ .fault := by
  fun_induction parseAttrs b <;> simp_all

theorem parseAttrs_cons_ok (t l : UInt8) (v rest : Bytes) (as : Attrs)
    (h2 : 2 ≤ l.toNat) (hv : v.length = l.toNat - 2) (hr : parseAttrs rest = .ok as) :
    parseAttrs (t :: l :: (v ++ rest)) = .ok (⟨t.toNat, v⟩ :: as) := by
  unfold parseAttrs
  have hg : ¬ (l.toNat < minAttrLength ∨ l.toNat - 2 > (v ++ rest).length) := by
    simp only [minAttrLength, List.length_append]; omega
  rw [if_neg hg, ← hv, List.drop_left, List.take_left, hr]

theorem parseAttrs_of_wf (b : Bytes) (h : WellFormedTLV b) : ∃ as, parseAttrs b = .ok as := by
  induction h with
  | nil => exact ⟨[], by simp [parseAttrs]⟩
  | cons t l v rest h2 hv _ ih =>
    obtain ⟨as, has⟩ := ih
    exact ⟨_, parseAttrs_cons_ok t l v rest as h2 hv has⟩

theorem wf_of_parseAttrs (b : Bytes) (as : Attrs) (h : parseAttrs b = .ok as) : WellFormedTLV b := by
  fun_induction parseAttrs b generalizing as with
  | case1 => exact .nil
  | case2 => simp at h
  | case3 t l rest hg =>  simp at h
  | case4 t l rest hg as' has ih =>
    have hg' : 2 ≤ l.toNat ∧ l.toNat - 2 ≤ rest.length := by
      simp only [minAttrLength] at hg; omega
    have := WellFormedTLV.cons t l (rest.take (l.toNat - 2)) (rest.drop (l.toNat - 2)) hg'.1
      (by simp; omega) (ih as' has)
    rwa [List.take_append_drop] at this
  | case5 => simp_all
  | case6 => simp_all

theorem parseAttrs_ok_iff_wf (b : Bytes) : (∃ as, parseAttrs b = .ok as) ↔ WellFormedTLV b :=
  ⟨fun ⟨as, h⟩ => wf_of_parseAttrs b as h, parseAttrs_of_wf b⟩

theorem validType_nat (t : UInt8) (v : Bytes) : validType ⟨(t.toNat : Int), v⟩ = true := by
  have := u8_lt t
  simp [validType]; omega

theorem encode_parseAttrs (b : Bytes) (as : Attrs) (h : parseAttrs b = .ok as) :
    encodeBytes as = b ∧ okLens as = true := by
  fun_induction parseAttrs b generalizing as with
  | case1 => simp at h; subst h; simp [encodeBytes]
  | case2 => simp at h
  | case3 t l rest hg => simp at h
  | case4 t l rest hg as' has ih =>
    simp at h; subst h
    have hl := u8_lt l
    have hg' : 2 ≤ l.toNat ∧ l.toNat - 2 ≤ rest.length := by
      simp only [minAttrLength] at hg; omega
    obtain ⟨ih1, ih2⟩ := ih as' has
    have hlen : (rest.take (l.toNat - 2)).length = l.toNat - 2 := by simp; omega
    constructor
    · have h2 : 2 + (l.toNat - 2) = l.toNat := by omega
      simp only [encodeBytes, validType_nat, if_true, avpBytes, hlen, h2, ih1,
        Int.toNat_natCast, UInt8.ofNat_toNat, List.cons_append, List.take_append_drop]
    · rw [okLens_cons, ih2, hlen]
      simp; omega
  | case5 => simp_all
  | case6 => simp_all

theorem parseAttrs_encodeBytes (as : Attrs) (hok : okLens as = true) :
    parseAttrs (encodeBytes as) = .ok (as.filter validType) := by
  induction as with
  | nil => simp [encodeBytes, parseAttrs]
  | cons a as ih =>
    rw [okLens_cons] at hok
    simp only [Bool.and_eq_true] at hok
    obtain ⟨h1, h2⟩ := hok
    cases hv : validType a with
    | false => simp [encodeBytes, hv, ih h2]
    | true =>
      simp [hv] at h1
      have hvt := hv
      simp [validType] at hvt
      have ht : (UInt8.ofNat a.typ.toNat).toNat = a.typ.toNat := u8_ofNat_toNat_lt (by omega)
      have hl : (UInt8.ofNat (2 + a.val.length)).toNat = 2 + a.val.length :=
        u8_ofNat_toNat_lt (by omega)
      have := parseAttrs_cons_ok (UInt8.ofNat a.typ.toNat) (UInt8.ofNat (2 + a.val.length))
        a.val (encodeBytes as) _ (by omega) (by omega) (ih h2)
      simp only [encodeBytes, hv, if_true, avpBytes, List.cons_append, this, List.filter_cons]
      have ha : (⟨((UInt8.ofNat a.typ.toNat).toNat : Int), a.val⟩ : AVP) = a := by
        rw [ht]; cases a; simp at hvt ⊢; omega
      rw [ha]

/-! ### Parse / MarshalBinary -/

theorem marshal_eq (p : Packet) :
    marshal p =
      if okLens p.attrs = true ∧ 20 + (encodeBytes p.attrs).length ≤ 4096 then
        .ok (header p.code p.id (20 + (encodeBytes p.attrs).length) p.auth ++ encodeBytes p.attrs)
      else .err := by
  unfold marshal
  rw [encodedLen_eq]
  cases hok : okLens p.attrs with
  | false => simp
  | true =>
    simp only [if_true, true_and]
    by_cases hs : 20 + (encodeBytes p.attrs).length ≤ 4096
    · have : ¬ 20 + (encodeBytes p.attrs).length > maxPacketLength := by
        simp only [maxPacketLength]; omega
      rw [if_neg this, if_pos hs, encodeTo_exact _ _ hok (by simp [zeros])]
    · have : 20 + (encodeBytes p.attrs).length > maxPacketLength := by
        simp only [maxPacketLength]; omega
      rw [if_pos this, if_neg hs]

theorem parse_ok_iff (b s : Bytes) (p : Packet) :
    parse b s = .ok p ↔
      20 ≤ b.length ∧ 20 ≤ lengthField b ∧ lengthField b ≤ 4096 ∧ lengthField b ≤ b.length ∧
      ∃ as, parseAttrs ((b.take (lengthField b)).drop 20) = .ok as ∧
        p = ⟨(b.getD 0 0).toNat, b.getD 1 0, (b.drop 4).take 16, s, as⟩ := by
  unfold parse
  simp only [minPacketLength, maxPacketLength]
  by_cases h1 : b.length < 20
  · rw [if_pos h1]
    constructor
    · intro h; cases h
    · intro h; omega
  · rw [if_neg h1]
    by_cases h2 : lengthField b < 20 ∨ lengthField b > 4096 ∨ b.length < lengthField b
    · rw [if_pos h2]
      constructor
      · intro h; cases h
      · intro h; omega
    · rw [if_neg h2]
      cases hp : parseAttrs ((b.take (lengthField b)).drop 20) with
      | ok as =>
        constructor
        · intro h
          simp only [Res.ok.injEq] at h
          exact ⟨by omega, by omega, by omega, by omega, as, rfl, h.symm⟩
        · rintro ⟨_, _, _, _, as', h, rfl⟩
          cases h; rfl
      | err =>
        constructor
        · intro h; cases h
        · rintro ⟨_, _, _, _, as', h, _⟩; cases h
      | fault =>
        constructor
        · intro h; cases h
        · rintro ⟨_, _, _, _, as', h, _⟩; cases h

theorem parse_ne_fault (b s : Bytes) : parse b s ≠ .fault := by
  unfold parse
  have := parseAttrs_ne_fault ((b.take (lengthField b)).drop 20)
  split
  · simp
  · simp only []
    split
    · simp
    · split <;> simp_all

theorem take4_eq (b : Bytes) (h : 4 ≤ b.length) :
    b.take 4 = [b.getD 0 0, b.getD 1 0, b.getD 2 0, b.getD 3 0] := by
  match b, h with
  | a :: b :: c :: d :: rest, _ => simp

theorem header_length (c : Int) (i : UInt8) (n : Nat) (auth : Bytes) :
    (header c i n auth).length = 4 + auth.length := by
  simp [header]; omega

theorem take20_eq_header (b : Bytes) (h : 20 ≤ b.length) :
    b.take 20 = header ((b.getD 0 0).toNat : Int) (b.getD 1 0) (lengthField b) ((b.drop 4).take 16) := by
  have : b.take 20 = b.take 4 ++ (b.drop 4).take 16 := List.take_add (i := 4) (j := 16)
  rw [this, take4_eq b (by omega)]
  simp only [header, lengthField, codeByte_toNat, be16_div, be16_mod]

theorem lengthField_append (b pad : Bytes) (h : 4 ≤ b.length) :
    lengthField (b ++ pad) = lengthField b := by
  match b, h with
  | a :: b :: c :: d :: rest, _ => simp [lengthField]

theorem lengthField_take (b : Bytes) (n : Nat) (h : 4 ≤ b.length) (hn : 4 ≤ n) :
    lengthField (b.take n) = lengthField b := by
  match b, n, h, hn with
  | a :: b :: c :: d :: rest, n + 4, _, _ => simp [lengthField]

theorem lengthField_header (c : Int) (i : UInt8) (n : Nat) (auth rest : Bytes) (h : n < 65536) :
    lengthField (header c i n auth ++ rest) = n := by
  simp [lengthField, header, be16_ofNat h]

theorem getD_append_left (b pad : Bytes) (i : Nat) (h : i < b.length) :
    (b ++ pad).getD i 0 = b.getD i 0 := by
  simp [List.getD_eq_getElem?_getD, List.getElem?_append_left h]

theorem getD_take (b : Bytes) (i n : Nat) (h : i < n) : (b.take n).getD i 0 = b.getD i 0 := by
  simp [List.getD_eq_getElem?_getD, h]

theorem auth_append (b pad : Bytes) (h : 20 ≤ b.length) :
    ((b ++ pad).drop 4).take 16 = (b.drop 4).take 16 := by
  rw [List.drop_append_of_le_length (by omega), List.take_append_of_le_length (by simp; omega)]

theorem auth_take (b : Bytes) (n : Nat) (h : 20 ≤ n) :
    ((b.take n).drop 4).take 16 = (b.drop 4).take 16 := by
  rw [List.drop_take, List.take_take, Nat.min_eq_left (by omega)]

theorem marshal_of_parse (b s : Bytes) (p : Packet) (h : parse b s = .ok p) :
    marshal p = .ok (b.take (lengthField b)) := by
  obtain ⟨h1, h2, h3, h4, as, hp, rfl⟩ := (parse_ok_iff b s p).1 h
  obtain ⟨he, hok⟩ := encode_parseAttrs _ _ hp
  rw [marshal_eq]
  simp only [he, hok]
  have hlen : 20 + ((b.take (lengthField b)).drop 20).length = lengthField b := by
    simp; omega
  rw [hlen, if_pos ⟨trivial, h3⟩, ← take20_eq_header b h1]
  have : b.take 20 = (b.take (lengthField b)).take 20 := by
    rw [List.take_take, Nat.min_eq_left h2]
  rw [this, List.take_append_drop]

theorem parse_padding (b pad s : Bytes) (p : Packet) (h : parse b s = .ok p) :
    parse (b ++ pad) s = .ok p ∧ parse (b.take (lengthField b)) s = .ok p := by
  obtain ⟨h1, h2, h3, h4, as, hp, rfl⟩ := (parse_ok_iff b s p).1 h
  constructor
  · rw [parse_ok_iff, lengthField_append b pad (by omega)]
    refine ⟨by simp; omega, h2, h3, by simp; omega, as, ?_, ?_⟩
    · rw [List.take_append_of_le_length h4]; exact hp
    · rw [getD_append_left b pad 0 (by omega), getD_append_left b pad 1 (by omega),
        auth_append b pad h1]
  · rw [parse_ok_iff, lengthField_take b _ (by omega) (by omega)]
    refine ⟨by simp; omega, h2, h3, by simp; omega, as, ?_, ?_⟩
    · rw [List.take_take, Nat.min_self]; exact hp
    · rw [getD_take b 0 _ (by omega), getD_take b 1 _ (by omega), auth_take b _ h2]

theorem parse_of_marshal (p : Packet) (w s : Bytes) (hm : marshal p = .ok w)
    (hc : 0 ≤ p.code ∧ p.code ≤ 255) (ha : p.auth.length = 16) :
    parse w s = .ok { code := p.code, id := p.id, auth := p.auth, secret := s,
                      attrs := p.attrs.filter validType } := by
  rw [marshal_eq] at hm
  by_cases hcond : okLens p.attrs = true ∧ 20 + (encodeBytes p.attrs).length ≤ 4096
  · rw [if_pos hcond] at hm
    simp only [Res.ok.injEq] at hm
    obtain ⟨hok, hsz⟩ := hcond
    have hhl := header_length p.code p.id (20 + (encodeBytes p.attrs).length) p.auth
    rw [ha] at hhl
    have hwl : w.length = 20 + (encodeBytes p.attrs).length := by
      rw [← hm, List.length_append, hhl]
    have hlf : lengthField w = 20 + (encodeBytes p.attrs).length := by
      rw [← hm]; exact lengthField_header _ _ _ _ _ (by omega)
    rw [parse_ok_iff, hlf]
    refine ⟨by omega, by omega, hsz, by omega, p.attrs.filter validType, ?_, ?_⟩
    · rw [← hwl, List.take_length, ← hm, List.drop_left' hhl]
      exact parseAttrs_encodeBytes _ hok
    · rw [← hm]
      have h0 : (header p.code p.id (20 + (encodeBytes p.attrs).length) p.auth ++
          encodeBytes p.attrs).getD 0 0 = codeByte p.code := by simp [header]
      have h1 : (header p.code p.id (20 + (encodeBytes p.attrs).length) p.auth ++
          encodeBytes p.attrs).getD 1 0 = p.id := by simp [header]
      have h4 : ((header p.code p.id (20 + (encodeBytes p.attrs).length) p.auth ++
          encodeBytes p.attrs).drop 4).take 16 = p.auth := by
        simp [header, ← ha]
      rw [h0, h1, h4, codeByte_cast hc.1 hc.2]
  · rw [if_neg hcond] at hm; cases hm

theorem parse_accepts_iff_wf (b s : Bytes) :
    (∃ p, parse b s = .ok p) ↔
      20 ≤ b.length ∧ 20 ≤ lengthField b ∧ lengthField b ≤ 4096 ∧ lengthField b ≤ b.length ∧
      WellFormedTLV ((b.take (lengthField b)).drop 20) := by
  constructor
  · rintro ⟨p, h⟩
    obtain ⟨h1, h2, h3, h4, as, hp, _⟩ := (parse_ok_iff b s p).1 h
    exact ⟨h1, h2, h3, h4, (parseAttrs_ok_iff_wf _).1 ⟨as, hp⟩⟩
  · rintro ⟨h1, h2, h3, h4, hw⟩
    obtain ⟨as, hp⟩ := (parseAttrs_ok_iff_wf _).2 hw
    exact ⟨_, (parse_ok_iff b s _).2 ⟨h1, h2, h3, h4, as, hp, rfl⟩⟩

/-- the encoder's acceptance condition, with the wire length spelled out -/
def marshalCond (p : Packet) : Prop :=
  (∀ a ∈ p.attrs, validType a = true → a.val.length ≤ 253) ∧
    20 + ((p.attrs.filter validType).map (fun a => 2 + a.val.length)).sum ≤ 4096

theorem marshalCond_iff (p : Packet) :
    marshalCond p ↔ (okLens p.attrs = true ∧ 20 + (encodeBytes p.attrs).length ≤ 4096) := by
  unfold marshalCond
  rw [okLens_iff, encodeBytes_length]

theorem marshal_ok_iff_cond (p : Packet) : (∃ w, marshal p = .ok w) ↔ marshalCond p := by
  rw [marshalCond_iff, marshal_eq]
  constructor
  · rintro ⟨w, h⟩
    by_cases hc : okLens p.attrs = true ∧ 20 + (encodeBytes p.attrs).length ≤ 4096
    · exact hc
    · rw [if_neg hc] at h; cases h
  · intro hc
    rw [if_pos hc]
    exact ⟨_, rfl⟩

theorem marshal_ne_fault (p : Packet) : marshal p ≠ .fault := by
  rw [marshal_eq]
  split <;> simp

theorem marshal_err_of_not_cond (p : Packet) (h : ¬ marshalCond p) : marshal p = .err := by
  rw [marshalCond_iff] at h
  rw [marshal_eq, if_neg h]

theorem marshal_length_cond (p : Packet) (w : Bytes) (hm : marshal p = .ok w)
    (ha : p.auth.length = 16) :
    w.length = 20 + ((p.attrs.filter validType).map (fun a => 2 + a.val.length)).sum ∧
      lengthField w = w.length ∧ w.length ≤ 4096 := by
  rw [← encodeBytes_length]
  rw [marshal_eq] at hm
  by_cases hcond : okLens p.attrs = true ∧ 20 + (encodeBytes p.attrs).length ≤ 4096
  · rw [if_pos hcond] at hm
    simp only [Res.ok.injEq] at hm
    obtain ⟨hok, hsz⟩ := hcond
    have hhl := header_length p.code p.id (20 + (encodeBytes p.attrs).length) p.auth
    rw [ha] at hhl
    have hwl : w.length = 20 + (encodeBytes p.attrs).length := by
      rw [← hm, List.length_append, hhl]
    have hlf : lengthField w = 20 + (encodeBytes p.attrs).length := by
      rw [← hm]; exact lengthField_header _ _ _ _ _ (by omega)
    exact ⟨hwl, by omega, by omega⟩
  · rw [if_neg hcond] at hm; cases hm

/-! ### algebraic laws of the ordered multimap (C09, added last) -/

theorem setAux_setAux (k : Int) (v w : Bytes) (as : Attrs) :
    Spec.setAux k w (Spec.setAux k v as) = Spec.setAux k w as := by
  induction as with
  | nil => rfl
  | cons a as ih =>
    by_cases hk : a.typ = k
    · simp [Spec.setAux, hk, List.filter_filter]
    · simp [Spec.setAux, hk, ih]

theorem setAux_any (k : Int) (v : Bytes) (as : Attrs) (h : as.any (fun a => a.typ = k) = true) :
    (Spec.setAux k v as).any (fun a => a.typ = k) = true := by
  induction as with
  | nil => simp at h
  | cons a as ih =>
    by_cases hk : a.typ = k
    · simp [Spec.setAux, hk]
    · simp [hk] at h
      simp [Spec.setAux, hk]
      have := ih (by simpa using h)
      simpa using this

theorem setAux_append_absent (k : Int) (v w : Bytes) (as : Attrs)
    (h : as.any (fun a => a.typ = k) = false) :
    Spec.setAux k w (as ++ [⟨k, v⟩]) = as ++ [⟨k, w⟩] := by
  induction as with
  | nil => simp [Spec.setAux]
  | cons a as ih =>
    have hk : ¬ a.typ = k := by
      intro e; simp [e] at h
    have h' : as.any (fun a => a.typ = k) = false := by
      simp [hk] at h; simpa using h
    simp [Spec.setAux, hk, ih h']

theorem lookup_other_of_filter_ne (as bs : Attrs) (j k : Int) (hjk : j ≠ k)
    (h : bs.filter (fun a => a.typ ≠ k) = as.filter (fun a => a.typ ≠ k)) :
    bs.lookup j = as.lookup j := by
  rw [lookup_of_filter, lookup_of_filter]
  have e : ∀ (l : Attrs), l.filter (fun a => a.typ = j) =
      (l.filter (fun a => a.typ ≠ k)).filter (fun a => a.typ = j) := by
    intro l; rw [List.filter_filter]; congr 1; funext a
    by_cases ha : a.typ = j
    · simp [ha, hjk]
    · simp [ha]
  rw [e bs, e as, h]

theorem attrsFilter_eq_of_filter_ne (as bs : Attrs) (j k : Int) (hjk : j ≠ k)
    (h : bs.filter (fun a => a.typ ≠ k) = as.filter (fun a => a.typ ≠ k)) :
    bs.filter (fun a => a.typ = j) = as.filter (fun a => a.typ = j) := by
  have e : ∀ (l : Attrs), l.filter (fun a => a.typ = j) =
      (l.filter (fun a => a.typ ≠ k)).filter (fun a => a.typ = j) := by
    intro l; rw [List.filter_filter]; congr 1; funext a
    by_cases ha : a.typ = j
    · simp [ha, hjk]
    · simp [ha]
  rw [e bs, e as, h]

end RV
