/- Helper lemmas about RV.Model.Wire used by RV.Props.C01 and RV.Props.C09. -/
import RV.Model.Wire
namespace RV
end RV
