/-
  Helper lemmas for C13: a small frame logic for the heap model of RV/Model/Prov.lean.

  `Ext n h h'`   the heap only grew and every buffer below `n` is unchanged.
  `Tr n m Q`     started in any heap with at least `n` buffers, `m` leaves the buffers below `n`
                 unchanged and its result satisfies `Q`.
  `Fr n a`       every slice contained in `a` points into a buffer numbered `≥ n`.
  With `n :=` the size of the heap at the call, `Tr n m (Fr n)` says: `m` is pure with respect to
  everything that existed before the call, and whatever it returns lives in buffers it allocated.
-/
import RV.Model.Prov
namespace RV
namespace Prov

/-! ### slices of results -/

@[simp] theorem slices_slice (s : Slice) : slices s = [s] := rfl
@[simp] theorem slices_nat (n : Nat) : slices n = [] := rfl
@[simp] theorem slices_int (n : Int) : slices n = [] := rfl
@[simp] theorem slices_u8 (n : UInt8) : slices n = [] := rfl
@[simp] theorem slices_bool (n : Bool) : slices n = [] := rfl
@[simp] theorem slices_unit (n : Unit) : slices n = [] := rfl
@[simp] theorem slices_pair {α β} [HasSlices α] [HasSlices β] (a : α) (b : β) :
    slices (a, b) = slices a ++ slices b := rfl
@[simp] theorem slices_some {α} [HasSlices α] (a : α) : slices (some a) = slices a := rfl
@[simp] theorem slices_none {α} [HasSlices α] : slices (none : Option α) = [] := rfl
@[simp] theorem slices_nil {α} [HasSlices α] : slices ([] : List α) = [] := rfl
@[simp] theorem slices_cons {α} [HasSlices α] (a : α) (l : List α) : slices (a :: l) = slices a ++ slices l := rfl
@[simp] theorem slices_append {α} [HasSlices α] (l₁ l₂ : List α) : slices (l₁ ++ l₂) = slices l₁ ++ slices l₂ := by
  show (l₁ ++ l₂).flatMap slices = l₁.flatMap slices ++ l₂.flatMap slices
  simp
@[simp] theorem slices_ok {α} [HasSlices α] (a : α) : slices (Res.ok a) = slices a := rfl
@[simp] theorem slices_err {α} [HasSlices α] : slices (Res.err : Res α) = [] := rfl
@[simp] theorem slices_fault {α} [HasSlices α] : slices (Res.fault : Res α) = [] := rfl
@[simp] theorem slices_gbytes (s : Slice) : slices (GValH.bytes s) = [s] := rfl
@[simp] theorem slices_gnat (n : Nat) : slices (GValH.nat n) = [] := rfl
@[simp] theorem slices_gtime (n : Int) : slices (GValH.time n) = [] := rfl
@[simp] theorem slices_gpfx (a b : Slice) : slices (GValH.pfx a b) = [a, b] := rfl
@[simp] theorem slices_lnoAttr : slices LookupResH.noAttr = [] := rfl
@[simp] theorem slices_lerr : slices LookupResH.err = [] := rfl
@[simp] theorem slices_lval (t : UInt8) (v : GValH) : slices (LookupResH.val t v) = slices v := rfl

/-- all slices contained in `a` live in buffers `≥ n` -/
def Fr {α} [HasSlices α] (n : Nat) (a : α) : Prop := ∀ s ∈ slices a, n ≤ s.buf

/-! ### heap extension -/

def Ext (n : Nat) (h h' : Heap) : Prop := h.length ≤ h'.length ∧ ∀ k, k < n → h'.buffer k = h.buffer k

theorem Ext.refl (n : Nat) (h : Heap) : Ext n h h := ⟨Nat.le_refl _, fun _ _ => rfl⟩

theorem Ext.trans {n : Nat} {h₁ h₂ h₃ : Heap} (a : Ext n h₁ h₂) (b : Ext n h₂ h₃) : Ext n h₁ h₃ :=
  ⟨Nat.le_trans a.1 b.1, fun k hk => (b.2 k hk).trans (a.2 k hk)⟩

theorem Ext.read {n : Nat} {h h' : Heap} (e : Ext n h h') (s : Slice) (hs : s.buf < n) :
    h'.read s = h.read s := by
  unfold Heap.read; rw [e.2 _ hs]

theorem Ext.view {n : Nat} {h h' : Heap} (e : Ext n h h') (p : HPacket) (hp : p.below n) :
    p.view h' = p.view h := by
  unfold HPacket.view
  rw [e.read _ hp.1]
  congr 1
  apply List.map_congr_left
  intro ts hts
  rw [e.read _ (hp.2 ts hts)]

theorem buffer_append_left (h e : Heap) (k : Nat) (hk : k < h.length) : (h ++ e).buffer k = h.buffer k := by
  unfold Heap.buffer
  simp [List.getD_eq_getElem?_getD, List.getElem?_append_left hk]

theorem buffer_set_ne (h : Heap) (j k : Nat) (b : Bytes) (hne : k ≠ j) : Heap.buffer (h.set j b) k = h.buffer k := by
  unfold Heap.buffer
  simp [List.getD_eq_getElem?_getD, List.getElem?_set_ne hne.symm]

theorem ext_append (n : Nat) (h e : Heap) (hn : n ≤ h.length) : Ext n h (h ++ e) :=
  ⟨by simp, fun k hk => buffer_append_left h e k (by omega)⟩

theorem ext_set (n : Nat) (h : Heap) (j : Nat) (b : Bytes) (hj : n ≤ j) : Ext n h (h.set j b) :=
  ⟨by simp, fun k hk => buffer_set_ne h j k b (by omega)⟩

theorem ext_write (n : Nat) (h : Heap) (s : Slice) (i : Nat) (v : UInt8) (hs : n ≤ s.buf) :
    Ext n h (h.write s i v) := by
  unfold Heap.write
  split
  · exact ext_set n h _ _ hs
  · exact Ext.refl n h

/-! ### the frame rules -/

def Tr {α} (n : Nat) (m : M α) (Q : α → Prop) : Prop :=
  ∀ h, n ≤ h.length → Ext n h (m h).2 ∧ Q (m h).1

theorem tr_pure {α} {n : Nat} {a : α} {Q : α → Prop} (hq : Q a) : Tr n (pure a : M α) Q :=
  fun h _ => ⟨Ext.refl n h, hq⟩

theorem tr_bind {α β} {n : Nat} {m : M α} {f : α → M β} {Q : α → Prop} {R : β → Prop}
    (hm : Tr n m Q) (hf : ∀ a, Q a → Tr n (f a) R) : Tr n (m >>= f) R := by
  intro h hn
  obtain ⟨e1, q⟩ := hm h hn
  obtain ⟨e2, r⟩ := hf (m h).1 q (m h).2 (Nat.le_trans hn e1.1)
  exact ⟨e1.trans e2, r⟩

theorem tr_conseq {α} {n : Nat} {m : M α} {Q R : α → Prop} (hm : Tr n m Q) (hqr : ∀ a, Q a → R a) :
    Tr n m R :=
  fun h hn => ⟨(hm h hn).1, hqr _ (hm h hn).2⟩

theorem tr_true {α} {n : Nat} {m : M α} {Q : α → Prop} (hm : Tr n m Q) : Tr n m (fun _ => True) :=
  tr_conseq hm (fun _ _ => trivial)

theorem tr_readS (n : Nat) (s : Slice) : Tr n (readS s) (fun _ => True) :=
  fun h _ => ⟨Ext.refl n h, trivial⟩

theorem tr_copyNew (n : Nat) (d : Bytes) : Tr n (copyNew d) (fun s => n ≤ s.buf) :=
  fun h hn => ⟨ext_append n h [d] hn, hn⟩

theorem tr_writeS (n : Nat) (s : Slice) (i : Nat) (v : UInt8) (hs : n ≤ s.buf) :
    Tr n (writeS s i v) (fun _ => True) :=
  fun h _ => ⟨ext_write n h s i v hs, trivial⟩

theorem tr_writeRange (n : Nat) (s : Slice) (hs : n ≤ s.buf) (data : Bytes) (base : Nat) :
    Tr n (writeRange s base data) (fun _ => True) := by
  induction data generalizing base with
  | nil => exact tr_pure trivial
  | cons b bs ih => exact tr_bind (tr_writeS n s base b hs) (fun _ _ => ih (base + 1))

theorem tr_appendS (n : Nat) (s : Slice) (d : Bytes) (hs : n ≤ s.buf) :
    Tr n (appendS s d) (fun s' => n ≤ s'.buf) :=
  fun h _ => ⟨ext_set n h _ _ hs, hs⟩

theorem fr_sub {n : Nat} {s : Slice} (hs : n ≤ s.buf) (i j : Nat) : n ≤ (s.sub i j).buf := hs

/-! ### typed decoders -/

theorem tr_bytesH (n : Nat) (a : Slice) : Tr n (bytesH a) (fun s => n ≤ s.buf) :=
  tr_bind (tr_readS n a) (fun av _ => tr_copyNew n av)

theorem tr_stringH (n : Nat) (a : Slice) : Tr n (stringH a) (fun s => n ≤ s.buf) :=
  tr_bind (tr_readS n a) (fun av _ => tr_copyNew n av)

theorem tr_scalar {β} (n : Nat) (a : Slice) (f : Bytes → β) (Q : β → Prop) (hq : ∀ b, Q (f b)) :
    Tr n (do let av ← readS a; pure (f av) : M β) Q :=
  tr_bind (tr_readS n a) (fun av _ => tr_pure (hq av))

theorem tr_copyDecH (n : Nat) (dec : Bytes → Res Bytes) (a : Slice) : Tr n (copyDecH dec a) (Fr n) := by
  unfold copyDecH
  refine tr_bind (tr_readS n a) (fun av _ => ?_)
  split
  · exact tr_bind (tr_copyNew n _) (fun s hs => tr_pure (by intro x hx; simp at hx; subst hx; exact hs))
  · exact tr_pure (by intro x hx; simp at hx)
  · exact tr_pure (by intro x hx; simp at hx)

theorem tr_vendorSpecificH (n : Nat) (a : Slice) : Tr n (vendorSpecificH a) (Fr n) := by
  unfold vendorSpecificH
  refine tr_bind (tr_readS n a) (fun av _ => ?_)
  split
  · exact tr_bind (tr_copyNew n _) (fun s hs => tr_pure (by intro x hx; simp at hx; subst hx; exact hs))
  · exact tr_pure (by intro x hx; simp at hx)
  · exact tr_pure (by intro x hx; simp at hx)

theorem tr_tlvH (n : Nat) (a : Slice) : Tr n (tlvH a) (Fr n) := by
  unfold tlvH
  refine tr_bind (tr_readS n a) (fun av _ => ?_)
  split
  · exact tr_bind (tr_copyNew n _) (fun s hs => tr_pure (by intro x hx; simp at hx; subst hx; exact hs))
  · exact tr_pure (by intro x hx; simp at hx)
  · exact tr_pure (by intro x hx; simp at hx)

theorem tr_ipv6PrefixH (n : Nat) (a : Slice) : Tr n (ipv6PrefixH a) (Fr n) := by
  unfold ipv6PrefixH
  refine tr_bind (tr_readS n a) (fun av _ => ?_)
  split
  · exact tr_bind (tr_copyNew n _) (fun s hs => tr_bind (tr_copyNew n _) (fun s' hs' =>
      tr_pure (by intro x hx; simp at hx; rcases hx with rfl | rfl <;> assumption)))
  · exact tr_pure (by intro x hx; simp at hx)
  · exact tr_pure (by intro x hx; simp at hx)

/-! ### passwords -/

theorem tr_upBlocksH (n : Nat) (H : Hash) (sv : Bytes) (blocks : List Bytes) :
    ∀ (dec : Slice) (i : Nat) (prev : Bytes), n ≤ dec.buf →
      Tr n (upBlocksH H sv dec i prev blocks) (fun s => n ≤ s.buf) := by
  induction blocks with
  | nil => intro dec i prev hd; exact tr_pure hd
  | cons blk rest ih =>
    intro dec i prev hd
    unfold upBlocksH
    refine tr_bind (tr_appendS n dec _ hd) (fun dec' hd' => ?_)
    refine tr_bind (tr_readS n _) (fun cur _ => ?_)
    refine tr_bind (tr_writeRange n dec' hd' _ i) (fun _ _ => ?_)
    exact ih dec' (i + 16) blk hd'

theorem tr_userPasswordH (n : Nat) (H : Hash) (a secret : Slice) (ra : Bytes) :
    Tr n (userPasswordH H a secret ra) (Fr n) := by
  unfold userPasswordH
  refine tr_bind (tr_readS n a) (fun av _ => ?_)
  refine tr_bind (tr_readS n secret) (fun sv _ => ?_)
  have herr : Fr n (Res.err : Res Slice) := by intro x hx; simp at hx
  split
  · exact tr_pure herr
  split
  · exact tr_pure herr
  split
  · exact tr_pure herr
  refine tr_bind (tr_copyNew n []) (fun dec hd => ?_)
  refine tr_bind (tr_upBlocksH n H sv _ dec 0 ra hd) (fun dec' hd' => ?_)
  refine tr_bind (tr_readS n dec') (fun dv _ => ?_)
  exact tr_pure (by intro x hx; simp at hx; subst hx; exact hd')

theorem tr_tunnelPasswordH (n : Nat) (H : Hash) (a secret : Slice) (ra : Bytes) :
    Tr n (tunnelPasswordH H a secret ra) (Fr n) := by
  unfold tunnelPasswordH
  refine tr_bind (tr_readS n a) (fun av _ => ?_)
  refine tr_bind (tr_readS n secret) (fun sv _ => ?_)
  split
  · refine tr_bind (tr_copyNew n _) (fun salt hs => ?_)
    refine tr_bind (tr_copyNew n _) (fun pt hp => ?_)
    refine tr_bind (tr_writeRange n pt hp _ 0) (fun _ _ => ?_)
    exact tr_pure (by intro x hx; simp at hx; rcases hx with rfl | rfl <;> assumption)
  · exact tr_pure (by intro x hx; simp at hx)
  · exact tr_pure (by intro x hx; simp at hx)

theorem tr_tpPlainH (n : Nat) (H : Hash) (a secret : Slice) (ra : Bytes) :
    Tr n (tpPlainH H a secret ra) (Fr n) := by
  unfold tpPlainH
  refine tr_bind (tr_tunnelPasswordH n H a secret ra) (fun r hr => ?_)
  split
  · exact tr_pure (by intro x hx; simp at hx; subst hx; exact hr _ (by simp))
  · exact tr_pure (by intro x hx; simp at hx)
  · exact tr_pure (by intro x hx; simp at hx)

/-! ### vendor getters -/

theorem vsaGetsH_buf (typ : UInt8) (vsa : Slice) (bytes : Bytes) :
    ∀ s ∈ vsaGetsH typ vsa bytes, s.buf = vsa.buf := by
  fun_induction vsaGetsH typ vsa bytes with
  | case1 => intro s hs; simp at hs
  | case2 vsa bytes sub rest hh ih =>
    intro s hs
    simp only [List.mem_cons] at hs
    rcases hs with rfl | hs
    · rfl
    · exact ih s hs
  | case3 vsa bytes t sub rest hh ht ih =>
    intro s hs
    exact ih s hs

theorem tr_getsVendorH (n : Nat) (vid : Nat) (typ : UInt8) (attrs : List (Int × Slice)) :
    Tr n (getsVendorH vid typ attrs) (Fr n) := by
  induction attrs with
  | nil => exact tr_pure (by intro x hx; simp at hx)
  | cons ts rest ih =>
    unfold getsVendorH
    split
    · exact ih
    · refine tr_bind (tr_vendorSpecificH n ts.2) (fun r hr => ?_)
      split
      · rename_i id vsa
        have hv : n ≤ vsa.buf := hr vsa (by simp)
        split
        · exact ih
        · refine tr_bind (tr_readS n vsa) (fun bytes _ => ?_)
          refine tr_bind ih (fun tl htl => ?_)
          refine tr_pure ?_
          intro x hx
          simp only [slices_append, List.mem_append] at hx
          rcases hx with hx | hx
          · have : x ∈ vsaGetsH typ vsa bytes := by
              simpa [HasSlices.slices] using hx
            rw [vsaGetsH_buf typ vsa bytes x this]; exact hv
          · exact htl x hx
      · exact ih

theorem tr_lookupVendorH (n : Nat) (vid : Nat) (typ : UInt8) (attrs : List (Int × Slice)) :
    Tr n (lookupVendorH vid typ attrs) (Fr n) := by
  unfold lookupVendorH
  refine tr_bind (tr_getsVendorH n vid typ attrs) (fun vs hvs => tr_pure ?_)
  intro x hx
  cases vs with
  | nil => simp at hx
  | cons v rest => simp at hx; subst hx; exact hvs _ (by simp)

/-! ### generated getters -/

theorem fr_err {α} [HasSlices α] (n : Nat) : Fr n (Res.err : Res α) := by intro x hx; simp at hx
theorem fr_fault {α} [HasSlices α] (n : Nat) : Fr n (Res.fault : Res α) := by intro x hx; simp at hx

theorem fr_okBytes {n : Nat} {r : Res Slice} (t : UInt8) (hr : Fr n r) : Fr n (okBytes t r) := by
  unfold okBytes
  cases r with
  | ok s => intro x hx; simp at hx; subst hx; exact hr _ (by simp)
  | err => exact fr_err n
  | fault => exact fr_fault n

theorem tr_tagStripIntH (n : Nat) (a : Slice) :
    Tr n (tagStripIntH a) (fun ta => n ≤ ta.2.buf ∨ ta.2 = a) := by
  unfold tagStripIntH
  refine tr_bind (tr_readS n a) (fun av _ => ?_)
  split
  · refine tr_bind (tr_readS n _) (fun rest _ => ?_)
    exact tr_bind (tr_copyNew n _) (fun c hc => tr_pure (Or.inl hc))
  · exact tr_pure (Or.inr rfl)

theorem tr_intTail (n : Nat) (w : Nat) (t : UInt8) (a : Slice) :
    Tr n (do
      let av ← readS a
      if av.length ≠ w then pure .err else pure (.ok (t, GValH.nat (beNat av))) : M (Res (UInt8 × GValH))) (Fr n) := by
  refine tr_bind (tr_readS n a) (fun av _ => ?_)
  split
  · exact tr_pure (fr_err n)
  · exact tr_pure (by intro x hx; simp at hx)

theorem tr_decodeValueH (n : Nat) (H : Hash) (d : Desc) (a secret : Slice) (auth : Bytes) :
    Tr n (decodeValueH H d a secret auth) (Fr n) := by
  unfold decodeValueH
  cases hk : d.kind <;> simp only []
  case string | octets | concat =>
    refine tr_bind (tr_readS n a) (fun av _ => ?_)
    have hinner : Tr n (match d.encrypt with
             | 1 => userPasswordH H (if d.hasTag = true then tagStripH av a else (0, a)).2 secret auth
             | 2 => tpPlainH H (if d.hasTag = true then tagStripH av a else (0, a)).2 secret auth
             | _ => (do let s ← bytesH (if d.hasTag = true then tagStripH av a else (0, a)).2; pure (.ok s) : M (Res Slice)))
             (Fr n) := by
      split
      · exact tr_userPasswordH n H _ secret auth
      · exact tr_tpPlainH n H _ secret auth
      · exact tr_bind (tr_bytesH n _) (fun s hs => tr_pure (by intro x hx; simp at hx; subst hx; exact hs))
    refine tr_bind hinner (fun r hr => ?_)
    split
    · split
      · exact tr_pure (fr_err n)
      · exact tr_pure (by intro x hx; simp at hx; subst hx; exact hr _ (by simp))
    · exact tr_pure (fr_err n)
    · exact tr_pure (fr_fault n)
  case ipaddr | ipv6addr =>
    have hfirst : Tr n (if d.usesSalt = true then tpPlainH H a secret auth else (pure (.ok a) : M (Res Slice)))
        (fun _ => True) := by
      split
      · exact tr_true (tr_tpPlainH n H a secret auth)
      · exact tr_pure trivial
    refine tr_bind hfirst (fun r _ => ?_)
    split
    · rename_i a'
      have hip : ∀ (c : Prop) [Decidable c], Tr n (if c then ipAddrH a' else ipv6AddrH a') (Fr n) := by
        intro c _
        split
        · exact tr_copyDecH n _ a'
        · exact tr_copyDecH n _ a'
      exact tr_bind (hip _) (fun ip hip => tr_pure (fr_okBytes 0 hip))
    · exact tr_pure (fr_err n)
    · exact tr_pure (fr_fault n)
  case ifid =>
    exact tr_bind (tr_copyDecH n _ a) (fun x hx => tr_pure (fr_okBytes 0 hx))
  case ipv6prefix =>
    refine tr_bind (tr_ipv6PrefixH n a) (fun r hr => ?_)
    split
    · exact tr_pure (by intro x hx; simp at hx; exact hr x (by simp; exact hx))
    · exact tr_pure (fr_err n)
    · exact tr_pure (fr_fault n)
  case date =>
    refine tr_bind (tr_scalar n a date (fun _ => True) (fun _ => trivial)) (fun r _ => ?_)
    split
    · exact tr_pure (by intro x hx; simp at hx)
    · exact tr_pure (fr_err n)
    · exact tr_pure (fr_fault n)
  case byte =>
    refine tr_bind (tr_readS n a) (fun av _ => ?_)
    split
    · exact tr_pure (fr_err n)
    · exact tr_pure (by intro x hx; simp at hx)
  case integer | integer64 | short =>
    simp only [Kind.intBytes]
    split
    · refine tr_bind (tr_tagStripIntH n a) (fun ta _ => ?_)
      exact tr_intTail n _ ta.1 ta.2
    · have hfirst : Tr n (if d.usesSalt = true then tpPlainH H a secret auth else (pure (.ok a) : M (Res Slice)))
          (fun _ => True) := by
        split
        · exact tr_true (tr_tpPlainH n H a secret auth)
        · exact tr_pure trivial
      refine tr_bind hfirst (fun r _ => ?_)
      split
      · exact tr_intTail n _ 0 _
      · exact tr_pure (fr_err n)
      · exact tr_pure (fr_fault n)

theorem tr_rawSlicesH (n : Nat) (d : Desc) (p : HPacket) : Tr n (rawSlicesH d p) (fun _ => True) := by
  unfold rawSlicesH
  split
  · exact tr_pure trivial
  · exact tr_true (tr_getsVendorH n _ _ _)

theorem tr_concatLoopH (n : Nat) (raws : List Slice) :
    ∀ (value : Slice), n ≤ value.buf → Tr n (concatLoopH raws value) (fun s => n ≤ s.buf) := by
  induction raws with
  | nil => intro value hv; exact tr_pure hv
  | cons a rest ih =>
    intro value hv
    unfold concatLoopH
    refine tr_bind (tr_bytesH n a) (fun i _ => ?_)
    refine tr_bind (tr_readS n i) (fun iv _ => ?_)
    refine tr_bind (tr_appendS n value iv hv) (fun value' hv' => ?_)
    exact ih value' hv'

theorem tr_hLookupH (n : Nat) (H : Hash) (d : Desc) (p : HPacket) (auth : Bytes) :
    Tr n (hLookupH H d p auth) (Fr n) := by
  unfold hLookupH
  refine tr_bind (tr_rawSlicesH n d p) (fun raws _ => ?_)
  split
  · split
    · exact tr_pure (by intro x hx; simp at hx)
    · refine tr_bind (tr_copyNew n []) (fun value hv => ?_)
      refine tr_bind (tr_concatLoopH n raws value hv) (fun value' hv' => ?_)
      exact tr_pure (by intro x hx; simp at hx; subst hx; exact hv')
  · split
    · exact tr_pure (by intro x hx; simp at hx)
    · refine tr_bind (tr_decodeValueH n H d _ p.secret auth) (fun r hr => ?_)
      split
      · exact tr_pure (by intro x hx; simp at hx; exact hr x (by simpa using hx))
      · exact tr_pure (by intro x hx; simp at hx)

theorem tr_hGetsGoH (n : Nat) (H : Hash) (d : Desc) (secret : Slice) (auth : Bytes) (raws : List Slice) :
    Tr n (hGetsGoH H d secret auth raws) (Fr n) := by
  induction raws with
  | nil => exact tr_pure (by intro x hx; simp at hx)
  | cons a rest ih =>
    unfold hGetsGoH
    refine tr_bind (tr_decodeValueH n H d a secret auth) (fun r hr => ?_)
    split
    · rename_i tv
      refine tr_bind ih (fun tl htl => tr_pure ?_)
      intro x hx
      simp only [slices_pair, slices_cons, slices_bool, List.append_nil, List.mem_append] at hx
      rcases hx with hx | hx
      · exact hr x (by simpa using hx)
      · exact htl x (show x ∈ slices tl.1 ++ slices tl.2 from List.mem_append_left _ hx)
    · exact tr_pure (by intro x hx; simp at hx)

theorem tr_hGetsH (n : Nat) (H : Hash) (d : Desc) (p : HPacket) (auth : Bytes) :
    Tr n (hGetsH H d p auth) (Fr n) := by
  unfold hGetsH
  exact tr_bind (tr_rawSlicesH n d p) (fun raws _ => tr_hGetsGoH n H d p.secret auth raws)


/-! ### Parse, MarshalBinary, Encode, the predicates, the dumper -/

theorem tr_parseAttrsH (n : Nat) (b : Slice) (acc : List (Int × Slice))
    (hacc : ∀ ts ∈ acc, n ≤ ts.2.buf) :
    Tr n (parseAttrsH b acc) (fun r => ∀ attrs, r = .ok attrs → ∀ ts ∈ attrs, n ≤ ts.2.buf) := by
  intro h hn
  fun_induction parseAttrsH b acc h with
  | case1 b acc h hz =>
    exact ⟨Ext.refl n h, by intro attrs e; cases e; exact hacc⟩
  | case2 b acc h hz h2 => exact ⟨Ext.refl n h, by intro attrs e; cases e⟩
  | case3 b acc h hz h2 hg => exact ⟨Ext.refl n h, by intro attrs e; cases e⟩
  | case4 b acc h hz h2 hg r ih =>
    have hc := tr_copyNew n (h.read (b.sub 2 ((h.read b).getD 1 0).toNat)) h hn
    have := ih (by
      intro ts hts
      simp only [List.mem_append, List.mem_singleton] at hts
      rcases hts with hts | rfl
      · exact hacc ts hts
      · exact hc.2) (Nat.le_trans hn hc.1.1)
    exact ⟨hc.1.trans this.1, this.2⟩

theorem tr_parseH (n : Nat) (b secret : Slice) :
    Tr n (parseH b secret) (fun r => ∀ p, r = .ok p → p.secret = secret ∧ ∀ ts ∈ p.attrs, n ≤ ts.2.buf) := by
  unfold parseH
  refine tr_bind (tr_readS n b) (fun bv _ => ?_)
  split
  · exact tr_pure (by intro p e; cases e)
  · simp only []
    split
    · exact tr_pure (by intro p e; cases e)
    · refine tr_bind (tr_parseAttrsH n _ [] (by intro ts hts; simp at hts)) (fun r hr => ?_)
      split
      · rename_i attrs
        refine tr_bind (tr_readS n _) (fun auth _ => tr_pure ?_)
        intro p e; cases e
        exact ⟨rfl, hr attrs rfl⟩
      · exact tr_pure (by intro p e; cases e)
      · exact tr_pure (by intro p e; cases e)

theorem tr_marshalH (n : Nat) (p : HPacket) : Tr n (marshalH p) (Fr n) := by
  intro h hn
  unfold marshalH
  split
  · rename_i w _
    have hc := tr_copyNew n w h hn
    exact ⟨hc.1, by intro x hx; simp at hx; subst hx; exact hc.2⟩
  · exact ⟨Ext.refl n h, fr_err n⟩
  · exact ⟨Ext.refl n h, fr_fault n⟩

theorem tr_encodeH (n : Nat) (H : Hash) (p : HPacket) : Tr n (encodeH H p) (Fr n) := by
  unfold encodeH
  refine tr_bind (Q := fun _ => True) (fun h _ => ⟨Ext.refl n h, trivial⟩) (fun pv _ => ?_)
  refine tr_bind (tr_marshalH n p) (fun r hr => ?_)
  split
  · rename_i b
    have hb : n ≤ b.buf := hr b (by simp)
    have hfr : Fr n (Res.ok b) := by intro x hx; simp at hx; subst hx; exact hb
    refine tr_bind (tr_readS n b) (fun bv _ => ?_)
    split
    · exact tr_pure hfr
    · exact tr_bind (tr_writeRange n b hb _ 4) (fun _ _ => tr_pure hfr)
    · exact tr_bind (tr_writeRange n b hb _ 4) (fun _ _ => tr_pure hfr)
    · exact tr_pure (fr_err n)
  · exact tr_pure (fr_err n)
  · exact tr_pure (fr_fault n)

theorem tr_isAuthenticResponseH (n : Nat) (H : Hash) (response request secret : Slice) :
    Tr n (isAuthenticResponseH H response request secret) (fun _ => True) :=
  tr_bind (tr_readS n _) (fun _ _ => tr_bind (tr_readS n _) (fun _ _ => tr_bind (tr_readS n _) (fun _ _ =>
    tr_pure trivial)))

theorem tr_isAuthenticRequestH (n : Nat) (H : Hash) (request secret : Slice) :
    Tr n (isAuthenticRequestH H request secret) (fun _ => True) :=
  tr_bind (tr_readS n _) (fun _ _ => tr_bind (tr_readS n _) (fun _ _ => tr_pure trivial))

theorem tr_dumpAttrsH (n : Nat) (H : Hash) (p : HPacket) (attrs : List (Int × Slice)) :
    Tr n (dumpAttrsH H p attrs) (fun _ => True) := by
  induction attrs with
  | nil => exact tr_pure trivial
  | cons ts rest ih =>
    unfold dumpAttrsH
    refine tr_bind (tr_readS n _) (fun av _ => ?_)
    refine tr_bind (tr_userPasswordH n H _ _ _) (fun _ _ => ?_)
    exact tr_bind ih (fun _ _ => tr_pure trivial)

/-! ### from the frame rules to statements about one call -/

/-- what `Tr` gives for a call made in heap `h`: everything that existed is unchanged -/
theorem tr_call {α} {m : M α} {Q : α → Prop} (h : Heap) (hm : Tr h.length m Q) :
    Ext h.length h (m h).2 ∧ Q (m h).1 := hm h (Nat.le_refl _)

/-- writing through a slice of a buffer the call allocated cannot change anything older -/
theorem write_fresh_ext (n : Nat) (h : Heap) (s : Slice) (i : Nat) (v : UInt8) (hs : n ≤ s.buf) :
    Ext n h (h.write s i v) := ext_write n h s i v hs

/-! ### purity and freshness of a call -/

/-- the call leaves every buffer that existed before it unchanged -/
def PureObs {α} (m : M α) : Prop := ∀ h, Ext h.length h (m h).2

/-- every slice in the result points into a buffer allocated by the call -/
def FreshObs {α} [HasSlices α] (m : M α) : Prop := ∀ h, ∀ s ∈ slices (m h).1, h.length ≤ s.buf

theorem pure_of_tr {α} {m : M α} {Q : Nat → α → Prop} (hm : ∀ n, Tr n m (Q n)) : PureObs m :=
  fun h => (hm h.length h (Nat.le_refl _)).1

theorem fresh_of_tr {α} [HasSlices α] {m : M α} (hm : ∀ n, Tr n m (Fr n)) : FreshObs m :=
  fun h => (hm h.length h (Nat.le_refl _)).2

theorem PureObs.packet_unchanged {α} {m : M α} (hm : PureObs m) (h : Heap) (p : HPacket)
    (hp : p.below h.length) : p.view (m h).2 = p.view h := (hm h).view p hp

theorem PureObs.input_unchanged {α} {m : M α} (hm : PureObs m) (h : Heap) (s : Slice)
    (hs : s.buf < h.length) : (m h).2.read s = h.read s := (hm h).read s hs

/-- writing through a returned fresh slice changes neither the packet nor any older slice -/
theorem FreshObs.write_preserves {α} [HasSlices α] {m : M α} (hf : FreshObs m) (h : Heap)
    (s : Slice) (hs : s ∈ slices (m h).1) (i : Nat) (v : UInt8) (p : HPacket) (hp : p.below h.length)
    (old : Slice) (hold : old.buf < h.length) :
    p.view ((m h).2.write s i v) = p.view (m h).2 ∧ ((m h).2.write s i v).read old = (m h).2.read old := by
  have e := ext_write h.length (m h).2 s i v (hf h s hs)
  exact ⟨e.view p hp, e.read old hold⟩

/-! ### value-level agreement with the total models -/

@[simp] theorem bind_apply {α β} (m : M α) (f : α → M β) (h : Heap) : (m >>= f) h = f (m h).1 (m h).2 := rfl
@[simp] theorem pure_apply {α} (a : α) (h : Heap) : (pure a : M α) h = (a, h) := rfl
@[simp] theorem readS_apply (s : Slice) (h : Heap) : readS s h = (h.read s, h) := rfl
@[simp] theorem copyNew_apply (d : Bytes) (h : Heap) : copyNew d h = (⟨h.length, 0, d.length⟩, h ++ [d]) := rfl

@[simp] theorem ite_app {α} (c : Prop) [Decidable c] (m₁ m₂ : M α) (h : Heap) :
    (if c then m₁ else m₂) h = if c then m₁ h else m₂ h := by split <;> rfl

theorem read_new (h : Heap) (d : Bytes) (e : Heap) : Heap.read (h ++ d :: e) ⟨h.length, 0, d.length⟩ = d := by
  simp [Heap.read, Heap.buffer, List.getD_eq_getElem?_getD]

@[simp] theorem read_new1 (h : Heap) (d : Bytes) : Heap.read (h ++ [d]) ⟨h.length, 0, d.length⟩ = d :=
  read_new h d []

@[simp] theorem read_new2 (h : Heap) (d e : Bytes) : Heap.read (h ++ [d] ++ [e]) ⟨h.length, 0, d.length⟩ = d := by
  rw [List.append_assoc]; exact read_new h d [e]

@[simp] theorem read_new2' (h : Heap) (d e : Bytes) :
    Heap.read (h ++ [d] ++ [e]) ⟨(h ++ [d]).length, 0, e.length⟩ = e := read_new (h ++ [d]) e []

theorem read_sub_from (h : Heap) (s : Slice) (i : Nat) : h.read (s.sub i s.len) = (h.read s).drop i := by
  simp [Heap.read, Slice.sub, List.drop_take, List.drop_drop, Nat.add_comm]

/-- reading a result -/
def viewRes (h : Heap) : Res Slice → Res Bytes
  | .ok s => .ok (h.read s)
  | .err => .err
  | .fault => .fault

/-- `radius.Bytes` returns a copy holding the bytes of `a` -/
theorem bytesH_view (a : Slice) (h : Heap) : (bytesH a h).2.read (bytesH a h).1 = bytesOf (h.read a) := by
  simp [bytesH, bytesOf]

theorem copyDecH_view (dec : Bytes → Res Bytes) (a : Slice) (h : Heap) :
    viewRes (copyDecH dec a h).2 (copyDecH dec a h).1 = dec (h.read a) := by
  simp only [copyDecH, bind_apply, readS_apply]
  cases hd : dec (h.read a) <;> simp [viewRes]

theorem ipAddrH_view (a : Slice) (h : Heap) : viewRes (ipAddrH a h).2 (ipAddrH a h).1 = ipAddr (h.read a) :=
  copyDecH_view _ a h

/-- tag stripping is a re-slice of the same buffer showing the bytes after the tag -/
theorem tagStripH_view (a : Slice) (h : Heap) :
    (tagStripH (h.read a) a).2.buf = a.buf ∧
    ((tagStripH (h.read a) a).1, h.read (tagStripH (h.read a) a).2) =
      (if (h.read a).length ≥ 1 ∧ ((h.read a).getD 0 0).toNat ≤ 0x1F then ((h.read a).getD 0 0, (h.read a).drop 1)
       else (0, h.read a)) := by
  unfold tagStripH
  split
  · exact ⟨rfl, by rw [read_sub_from]⟩
  · exact ⟨rfl, rfl⟩

theorem tagStripIntH_apply (a : Slice) (h : Heap) :
    tagStripIntH a h =
      if (h.read a).length ≥ 1 ∧ ((h.read a).getD 0 0).toNat ≤ 0x1F then
        (((h.read a).getD 0 0, ⟨h.length, 0, ((0 : UInt8) :: (h.read a).drop 1).length⟩),
         h ++ [(0 : UInt8) :: (h.read a).drop 1])
      else ((0, a), h) := by
  by_cases hc : (h.read a).length ≥ 1 ∧ ((h.read a).getD 0 0).toNat ≤ 0x1F
  · rw [if_pos hc]
    show (if (h.read a).length ≥ 1 ∧ ((h.read a).getD 0 0).toNat ≤ 0x1F then _ else _ : M (UInt8 × Slice)) h = _
    rw [if_pos hc]
    simp only [bind_apply, readS_apply, copyNew_apply, pure_apply, read_sub_from]
  · rw [if_neg hc]
    show (if (h.read a).length ≥ 1 ∧ ((h.read a).getD 0 0).toNat ≤ 0x1F then _ else _ : M (UInt8 × Slice)) h = _
    rw [if_neg hc]; rfl

theorem intTail_apply (w : Nat) (t : UInt8) (a : Slice) (h : Heap) :
    (do let av ← readS a
        if av.length ≠ w then pure .err else pure (.ok (t, beNat av)) : M (Res (UInt8 × Nat))) h =
      (if (h.read a).length ≠ w then .err else .ok (t, beNat (h.read a)), h) := by
  show (if (h.read a).length ≠ w then _ else _ : M (Res (UInt8 × Nat))) h = _
  split <;> rfl

/-- the repaired tagged-integer getter computes the model's tag and 24-bit value -/
theorem taggedIntLookupH_view (typ : Int) (w : Nat) (p : HPacket) (h : Heap) :
    (taggedIntLookupH typ w p h).1 =
      match lookupRaw p.attrs typ with
      | none => .err
      | some a =>
        let av := h.read a
        let ta := if av.length ≥ 1 ∧ (av.getD 0 0).toNat ≤ 0x1F then (av.getD 0 0, (0 : UInt8) :: av.drop 1) else (0, av)
        if ta.2.length ≠ w then .err else .ok (ta.1, beNat ta.2) := by
  unfold taggedIntLookupH
  cases lookupRaw p.attrs typ with
  | none => rfl
  | some a =>
    simp only []
    rw [bind_apply, tagStripIntH_apply]
    split
    · rw [intTail_apply]
      simp only [read_new1]
    · rw [intTail_apply]

/-- list `Lookup` returns the packet's own slice (a view), showing the model's bytes -/
theorem lookupRaw_view (p : HPacket) (h : Heap) (k : Int) :
    (lookupRaw p.attrs k).map h.read = (p.view h).attrs.lookup k := by
  unfold HPacket.view
  simp only
  induction p.attrs with
  | nil => rfl
  | cons ts rest ih =>
    simp only [lookupRaw, List.map_cons, Attrs.lookup]
    split
    · rfl
    · exact ih

theorem lookupRaw_mem (attrs : List (Int × Slice)) (k : Int) (s : Slice) (h : lookupRaw attrs k = some s) :
    (k, s) ∈ attrs := by
  induction attrs with
  | nil => cases h
  | cons ts rest ih =>
    unfold lookupRaw at h
    split at h
    · rename_i hk; cases h; subst hk; exact List.mem_cons_self
    · exact List.mem_cons_of_mem _ (ih h)


/-! ### consequences for one call -/

theorem read_write_other (h : Heap) (s t : Slice) (i : Nat) (v : UInt8) (hne : s.buf ≠ t.buf) :
    (h.write t i v).read s = h.read s := by
  unfold Heap.write
  split
  · unfold Heap.read; rw [buffer_set_ne _ _ _ _ hne]
  · rfl

/-- Parse: the attribute slices of the result are in buffers allocated by the call -/
theorem parseH_fresh (b secret : Slice) (h : Heap) (p : HPacket) (hp : (parseH b secret h).1 = .ok p) :
    p.secret = secret ∧ ∀ ts ∈ p.attrs, h.length ≤ ts.2.buf :=
  (tr_parseH h.length b secret h (Nat.le_refl _)).2 p hp

/-- … hence overwriting the datagram buffer afterwards does not change any parsed attribute -/
theorem parseH_no_alias (b secret : Slice) (h : Heap) (hb : b.buf < h.length) (p : HPacket)
    (hp : (parseH b secret h).1 = .ok p) (i : Nat) (v : UInt8) :
    ∀ ts ∈ p.attrs, ts.2.buf ≠ b.buf ∧
      ((parseH b secret h).2.write b i v).read ts.2 = (parseH b secret h).2.read ts.2 := by
  intro ts hts
  have := (parseH_fresh b secret h p hp).2 ts hts
  have hne : ts.2.buf ≠ b.buf := by omega
  exact ⟨hne, read_write_other _ _ _ _ _ hne⟩

theorem tr_taggedIntLookupH (n : Nat) (typ : Int) (w : Nat) (p : HPacket) :
    Tr n (taggedIntLookupH typ w p) (fun _ => True) := by
  unfold taggedIntLookupH
  cases lookupRaw p.attrs typ with
  | none => exact tr_pure trivial
  | some a =>
    exact tr_bind (tr_tagStripIntH n a) (fun ta _ => tr_bind (tr_readS _ _) (fun av _ =>
      (by split <;> exact tr_pure trivial : Tr n _ (fun _ => True))))

theorem taggedIntLookupH_pure (typ : Int) (w : Nat) (p : HPacket) : PureObs (taggedIntLookupH typ w p) :=
  pure_of_tr (fun n => tr_taggedIntLookupH n typ w p)

/-- repeating the repaired tagged-integer read gives the same answer -/
theorem taggedIntLookupH_repeat (typ : Int) (w : Nat) (p : HPacket) (h : Heap) (hp : p.below h.length) :
    (taggedIntLookupH typ w p (taggedIntLookupH typ w p h).2).1 = (taggedIntLookupH typ w p h).1 := by
  have hpure : Ext h.length h (taggedIntLookupH typ w p h).2 := taggedIntLookupH_pure typ w p h
  rw [taggedIntLookupH_view, taggedIntLookupH_view]
  cases hl : lookupRaw p.attrs typ with
  | none => rfl
  | some a =>
    have ha : a.buf < h.length := hp.2 _ (lookupRaw_mem _ _ _ hl)
    simp only [hpure.read a ha]

/-- `radius.Bytes` twice gives equal bytes, in two different new buffers -/
theorem bytesH_repeat (a : Slice) (h : Heap) (ha : a.buf < h.length) :
    let r₁ := bytesH a h
    let r₂ := bytesH a r₁.2
    r₂.2.read r₂.1 = r₁.2.read r₁.1 ∧ r₂.1.buf ≠ r₁.1.buf := by
  intro r₁ r₂
  have hp : Ext h.length h r₁.2 := (tr_bytesH h.length a h (Nat.le_refl _)).1
  refine ⟨?_, ?_⟩
  · show (bytesH a r₁.2).2.read (bytesH a r₁.2).1 = (bytesH a h).2.read (bytesH a h).1
    rw [bytesH_view, bytesH_view, hp.read a ha]
  · show (bytesH a (bytesH a h).2).1.buf ≠ (bytesH a h).1.buf
    simp [bytesH]

/-! ### History: the tagged-integer getter before the repair -/

/-- a packet with one attribute 64 = `05 00 00 07` (tag 5, value 7); buffer 0 is the secret -/
def histHeap : Heap := [[0x73], [0x05, 0x00, 0x00, 0x07]]
def histPacket : HPacket := ⟨2, 1, zeros 16, ⟨0, 0, 1⟩, [(64, ⟨1, 0, 4⟩)]⟩

theorem histPacket_below : histPacket.below histHeap.length := by
  refine ⟨by decide, ?_⟩
  intro ts hts
  simp [histPacket] at hts
  subst hts
  decide

/-- the old getter returned the right answer … -/
theorem old_lookup_answer : (oldTaggedIntLookupH 64 4 histPacket histHeap).1 = .ok (5, 7) := by decide

/-- … but cleared the tag octet in the packet's own buffer -/
theorem old_lookup_heap :
    (oldTaggedIntLookupH 64 4 histPacket histHeap).2 = [[0x73], [0x00, 0x00, 0x00, 0x07]] := by decide

theorem old_lookup_changes_view :
    histPacket.view (oldTaggedIntLookupH 64 4 histPacket histHeap).2 ≠ histPacket.view histHeap := by decide

/-- so a second read saw tag 0 -/
theorem old_lookup_second_read :
    (oldTaggedIntLookupH 64 4 histPacket (oldTaggedIntLookupH 64 4 histPacket histHeap).2).1 = .ok (0, 7) := by decide

/-- the repaired getter on the same packet: same answer, packet untouched, second read equal -/
theorem new_lookup_on_hist :
    (taggedIntLookupH 64 4 histPacket histHeap).1 = .ok (5, 7) ∧
    histPacket.view (taggedIntLookupH 64 4 histPacket histHeap).2 = histPacket.view histHeap ∧
    (taggedIntLookupH 64 4 histPacket (taggedIntLookupH 64 4 histPacket histHeap).2).1 = .ok (5, 7) := by decide

/-- list `Get`/`Lookup` hands out a view: storing through it changes the packet (allowed by the
    property, which demands copies only from typed decoders and generated getters) -/
theorem raw_lookup_is_view :
    lookupRaw histPacket.attrs 64 = some ⟨1, 0, 4⟩ ∧
    histPacket.view (histHeap.write ⟨1, 0, 4⟩ 3 9) ≠ histPacket.view histHeap := by decide

/-! ### value-level agreement of the generated getter (descriptors without `encrypt=`) -/

def viewDec (h : Heap) : Res (UInt8 × GValH) → Res (UInt8 × GVal)
  | .ok (t, v) => .ok (t, v.view h)
  | .err => .err
  | .fault => .fault

theorem bytesH_apply (a : Slice) (h : Heap) :
    bytesH a h = (⟨h.length, 0, (h.read a).length⟩, h ++ [h.read a]) := rfl

theorem copyDecH_apply (dec : Bytes → Res Bytes) (a : Slice) (h : Heap) :
    copyDecH dec a h =
      match dec (h.read a) with
      | .ok v => (.ok ⟨h.length, 0, v.length⟩, h ++ [v])
      | .err => (.err, h)
      | .fault => (.fault, h) := by
  simp only [copyDecH, bind_apply, readS_apply]
  cases dec (h.read a) <;> rfl

theorem ipv6PrefixH_apply (a : Slice) (h : Heap) :
    ipv6PrefixH a h =
      match ipv6Prefix (h.read a) with
      | .ok (ip, mask) => (.ok (⟨h.length, 0, ip.length⟩, ⟨(h ++ [ip]).length, 0, mask.length⟩), h ++ [ip] ++ [mask])
      | .err => (.err, h)
      | .fault => (.fault, h) := by
  simp only [ipv6PrefixH, bind_apply, readS_apply]
  cases ipv6Prefix (h.read a) with
  | ok r => obtain ⟨ip, mask⟩ := r; rfl
  | err => rfl
  | fault => rfl

theorem usesSalt_of_enc0 (d : Desc) (h : d.encrypt = 0) : d.usesSalt = false := by
  simp [Desc.usesSalt, h]

theorem textTail_apply (d : Desc) (ta : UInt8 × Slice) (h : Heap) :
    (do
      let r ← (do let s ← bytesH ta.2; pure (.ok s) : M (Res Slice))
      match r with
      | .ok s =>
        if d.size.isSome ∧ d.size ≠ some s.len then pure .err else pure (.ok (ta.1, GValH.bytes s))
      | .err => pure .err
      | .fault => pure .fault : M (Res (UInt8 × GValH))) h =
    (if d.size.isSome ∧ d.size ≠ some (h.read ta.2).length then .err
     else .ok (ta.1, GValH.bytes ⟨h.length, 0, (h.read ta.2).length⟩), h ++ [h.read ta.2]) := by
  show (if d.size.isSome ∧ d.size ≠ some (h.read ta.2).length then _ else _ : M (Res (UInt8 × GValH)))
    (h ++ [h.read ta.2]) = _
  split <;> rfl

theorem viewDec_text (d : Desc) (t : UInt8) (v : Bytes) (h : Heap) :
    viewDec (h ++ [v]) (if d.size.isSome ∧ d.size ≠ some v.length then .err
      else .ok (t, GValH.bytes ⟨h.length, 0, v.length⟩)) =
    if d.size.isSome ∧ d.size ≠ some v.length then .err else .ok (t, GVal.bytes v) := by
  split
  · rfl
  · simp only [viewDec, GValH.view, read_new1]

theorem tagIfH (d : Desc) (a : Slice) (h : Heap) :
    ((if d.hasTag = true then tagStripH (h.read a) a else (0, a)).1,
      h.read (if d.hasTag = true then tagStripH (h.read a) a else (0, a)).2) =
    (if d.hasTag = true ∧ (h.read a).length ≥ 1 ∧ ((h.read a).getD 0 0).toNat ≤ 0x1F then
       ((h.read a).getD 0 0, (h.read a).drop 1) else (0, h.read a)) := by
  by_cases ht : d.hasTag = true
  · rw [if_pos ht, (tagStripH_view a h).2]
    simp only [ht, true_and]
  · rw [if_neg ht, if_neg (fun hc => ht hc.1)]

theorem textCase_view (d : Desc) (a : Slice) (h : Heap) :
    viewDec
      ((readS a >>= fun av => (do
            let r ← (do let s ← bytesH (if d.hasTag = true then tagStripH av a else (0, a)).2; pure (.ok s) : M (Res Slice))
            match r with
              | .ok s =>
                if d.size.isSome ∧ d.size ≠ some s.len then pure .err
                else pure (.ok ((if d.hasTag = true then tagStripH av a else (0, a)).1, GValH.bytes s))
              | .err => pure .err
              | .fault => pure .fault : M (Res (UInt8 × GValH)))) h).2
      ((readS a >>= fun av => (do
            let r ← (do let s ← bytesH (if d.hasTag = true then tagStripH av a else (0, a)).2; pure (.ok s) : M (Res Slice))
            match r with
              | .ok s =>
                if d.size.isSome ∧ d.size ≠ some s.len then pure .err
                else pure (.ok ((if d.hasTag = true then tagStripH av a else (0, a)).1, GValH.bytes s))
              | .err => pure .err
              | .fault => pure .fault : M (Res (UInt8 × GValH)))) h).1 =
    (let ta := if d.hasTag = true ∧ (h.read a).length ≥ 1 ∧ ((h.read a).getD 0 0).toNat ≤ 0x1F then
        ((h.read a).getD 0 0, (h.read a).drop 1) else (0, h.read a)
     if d.size.isSome ∧ d.size ≠ some ta.2.length then .err else .ok (ta.1, GVal.bytes ta.2)) := by
  rw [bind_apply, readS_apply]
  simp only []
  rw [textTail_apply, viewDec_text]
  have := tagIfH d a h
  rw [Prod.ext_iff] at this
  simp only [] at this
  rw [this.1, this.2]

theorem ipCase_view (dec : Bytes → Res Bytes) (a : Slice) (h : Heap) :
    viewDec ((copyDecH dec a >>= fun ip => (pure (okBytes 0 ip) : M (Res (UInt8 × GValH)))) h).2
      ((copyDecH dec a >>= fun ip => (pure (okBytes 0 ip) : M (Res (UInt8 × GValH)))) h).1 =
    match dec (h.read a) with
    | .ok ip => .ok (0, GVal.bytes ip)
    | .err => .err
    | .fault => .fault := by
  rw [bind_apply, copyDecH_apply]
  cases dec (h.read a) <;> simp [viewDec, okBytes, GValH.view]

theorem intTailG_apply (w : Nat) (t : UInt8) (a : Slice) (h : Heap) :
    (do let av ← readS a
        if av.length ≠ w then pure .err else pure (.ok (t, GValH.nat (beNat av))) : M (Res (UInt8 × GValH))) h =
      (if (h.read a).length ≠ w then .err else .ok (t, GValH.nat (beNat (h.read a))), h) := by
  show (if (h.read a).length ≠ w then _ else _ : M (Res (UInt8 × GValH))) h = _
  split <;> rfl

theorem viewDec_int (w : Nat) (t : UInt8) (v : Bytes) (h : Heap) :
    viewDec h (if v.length ≠ w then .err else .ok (t, GValH.nat (beNat v))) =
      if v.length ≠ w then .err else .ok (t, GVal.nat (beNat v)) := by
  split <;> rfl

theorem intCase_view (H : Hash) (d : Desc) (hsalt : d.usesSalt = false) (w : Nat) (a secret : Slice) (auth : Bytes) (h : Heap) :
    viewDec
      ((if d.hasTag = true then (do
          let ta ← tagStripIntH a
          let av ← readS ta.2
          if av.length ≠ w then pure .err else pure (.ok (ta.1, GValH.nat (beNat av))) : M (Res (UInt8 × GValH)))
        else do
          let r ← (if d.usesSalt = true then tpPlainH H a secret auth else (pure (.ok a) : M (Res Slice)))
          match r with
          | .ok a => do
            let av ← readS a
            if av.length ≠ w then pure .err else pure (.ok (0, GValH.nat (beNat av)))
          | .err => pure .err
          | .fault => pure .fault) h).2
      ((if d.hasTag = true then (do
          let ta ← tagStripIntH a
          let av ← readS ta.2
          if av.length ≠ w then pure .err else pure (.ok (ta.1, GValH.nat (beNat av))) : M (Res (UInt8 × GValH)))
        else do
          let r ← (if d.usesSalt = true then tpPlainH H a secret auth else (pure (.ok a) : M (Res Slice)))
          match r with
          | .ok a => do
            let av ← readS a
            if av.length ≠ w then pure .err else pure (.ok (0, GValH.nat (beNat av)))
          | .err => pure .err
          | .fault => pure .fault) h).1 =
    (if d.hasTag = true then
        let ta := if (h.read a).length ≥ 1 ∧ ((h.read a).getD 0 0).toNat ≤ 0x1F then
          ((h.read a).getD 0 0, (0 : UInt8) :: (h.read a).drop 1) else (0, h.read a)
        if ta.2.length ≠ w then .err else .ok (ta.1, GVal.nat (beNat ta.2))
      else
        match (if d.usesSalt = true then tpPlain H (h.read a) (h.read secret) auth else (.ok (h.read a) : Res Bytes)) with
        | .ok a => if a.length ≠ w then .err else .ok (0, GVal.nat (beNat a))
        | .err => .err
        | .fault => .fault) := by
  by_cases ht : d.hasTag = true
  · rw [if_pos ht, if_pos ht, bind_apply, tagStripIntH_apply]
    split
    · rw [intTailG_apply, viewDec_int, read_new1]
    · rw [intTailG_apply, viewDec_int]
  · rw [if_neg ht, if_neg ht, if_neg (by simp [hsalt]), if_neg (by simp [hsalt]), bind_apply, pure_apply]
    simp only []
    rw [intTailG_apply, viewDec_int]

theorem decodeValueH_view (H : Hash) (d : Desc) (henc : d.encrypt = 0) (a secret : Slice) (auth : Bytes) (h : Heap) :
    viewDec (decodeValueH H d a secret auth h).2 (decodeValueH H d a secret auth h).1 =
      decodeValue H d (h.read a) (h.read secret) auth := by
  have hsalt := usesSalt_of_enc0 d henc
  unfold decodeValueH decodeValue
  cases hk : d.kind <;> simp only [henc]
  case string => exact textCase_view d a h
  case octets => exact textCase_view d a h
  case concat => exact textCase_view d a h
  case ipaddr =>
    simp only [hsalt, Bool.false_eq_true, if_false, if_true]
    exact ipCase_view ipAddr a h
  case ipv6addr =>
    simp only [hsalt, Bool.false_eq_true, if_false, reduceCtorEq]
    exact ipCase_view ipv6Addr a h
  case ifid => exact ipCase_view ifid a h
  case ipv6prefix =>
    rw [bind_apply, ipv6PrefixH_apply]
    cases ipv6Prefix (h.read a) with
    | ok r =>
      obtain ⟨ip, mask⟩ := r
      have e1 := read_new h ip [mask]
      have e2 := read_new (h ++ [ip]) mask []
      simp only [List.append_assoc, List.cons_append, List.nil_append] at e2
      simp only [viewDec, GValH.view, pure_apply, List.append_assoc, List.cons_append, List.nil_append, e1, e2]
    | err => rfl
    | fault => rfl
  case date =>
    have e : dateH a h = (date (h.read a), h) := rfl
    rw [bind_apply, e]
    cases date (h.read a) <;> rfl
  case byte =>
    rw [bind_apply, readS_apply]
    by_cases hc : (h.read a).length ≠ 1
    · rw [if_pos hc, if_pos hc]; rfl
    · rw [if_neg hc, if_neg hc]; rfl
  case integer => simp only [Kind.intBytes]; exact intCase_view H d hsalt 4 a secret auth h
  case integer64 => simp only [Kind.intBytes]; exact intCase_view H d hsalt 8 a secret auth h
  case short => simp only [Kind.intBytes]; exact intCase_view H d hsalt 2 a secret auth h

/-! ### `X_Lookup` of a plain (non-vendor, unencrypted, non-concat) attribute at value level -/

theorem rawHead_view (d : Desc) (p : HPacket) (h : Heap) :
    (((p.attrs.filter (fun ts => ts.1 = d.typ)).map (·.2)).head?).map h.read =
      (((p.view h).attrs.filter (fun a => a.typ = d.typ)).map (·.val)).head? := by
  unfold HPacket.view
  simp only
  induction p.attrs with
  | nil => rfl
  | cons ts rest ih =>
    simp only [List.filter_cons, List.map_cons]
    by_cases hk : ts.1 = d.typ
    · simp [hk]
    · simp only [hk, decide_false, Bool.false_eq_true, if_false]
      exact ih

theorem hLookupH_view (H : Hash) (d : Desc) (henc : d.encrypt = 0) (hv : d.vendorID = 0) (hc : d.kind ≠ .concat)
    (p : HPacket) (auth : Bytes) (h : Heap) :
    (hLookupH H d p auth h).1.view (hLookupH H d p auth h).2 =
      hLookup H d (p.view h).attrs (h.read p.secret) auth := by
  unfold hLookupH hLookup rawSlicesH rawValues
  rw [if_neg hc, if_pos hv, if_pos hv, bind_apply, pure_apply, if_neg hc]
  have hh := rawHead_view d p h
  simp only []
  cases hr : ((p.attrs.filter (fun ts => ts.1 = d.typ)).map (·.2)).head? with
  | none =>
    rw [hr] at hh
    simp only [Option.map_none] at hh
    rw [← hh]; rfl
  | some a =>
    rw [hr] at hh
    simp only [Option.map_some] at hh
    rw [← hh]
    simp only []
    rw [bind_apply]
    have hd := decodeValueH_view H d henc a p.secret auth h
    cases hres : (decodeValueH H d a p.secret auth h).1 with
    | ok tv =>
      obtain ⟨t, v⟩ := tv
      rw [hres] at hd
      simp only [viewDec] at hd
      rw [← hd]; rfl
    | err =>
      rw [hres] at hd
      simp only [viewDec] at hd
      rw [← hd]; rfl
    | fault =>
      rw [hres] at hd
      simp only [viewDec] at hd
      rw [← hd]; rfl

/-- two `X_Lookup` calls in a row show the caller the same value -/
theorem hLookupH_repeat (H : Hash) (d : Desc) (henc : d.encrypt = 0) (hv : d.vendorID = 0) (hc : d.kind ≠ .concat)
    (p : HPacket) (auth : Bytes) (h : Heap) (hp : p.below h.length) :
    let r₁ := hLookupH H d p auth h
    let r₂ := hLookupH H d p auth r₁.2
    r₂.1.view r₂.2 = r₁.1.view r₁.2 := by
  intro r₁ r₂
  have hpure : Ext h.length h r₁.2 := (tr_hLookupH h.length H d p auth h (Nat.le_refl _)).1
  show (hLookupH H d p auth r₁.2).1.view (hLookupH H d p auth r₁.2).2 = (hLookupH H d p auth h).1.view (hLookupH H d p auth h).2
  rw [hLookupH_view H d henc hv hc, hLookupH_view H d henc hv hc, hpure.view p hp, hpure.read _ hp.1]

/-! ### Parse at value level -/

theorem read_append (h e : Heap) (s : Slice) (hs : s.buf < h.length) : (h ++ e).read s = h.read s := by
  unfold Heap.read; rw [buffer_append_left h e _ hs]

theorem valid_read_length (h : Heap) (s : Slice) (hv : s.valid h) : (h.read s).length = s.len := by
  unfold Heap.read
  simp only [List.length_take, List.length_drop]
  have := hv.2
  omega

theorem read_sub (h : Heap) (s : Slice) (i j : Nat) (hj : j ≤ s.len) :
    h.read (s.sub i j) = ((h.read s).drop i).take (j - i) := by
  simp only [Heap.read, Slice.sub, List.drop_take, List.drop_drop, List.take_take]
  congr 1
  omega

def viewAttrs (h : Heap) (l : List (Int × Slice)) : Attrs := l.map fun ts => ⟨ts.1, h.read ts.2⟩

theorem viewAttrs_append_heap (h e : Heap) (l : List (Int × Slice)) (hl : ∀ ts ∈ l, ts.2.buf < h.length) :
    viewAttrs (h ++ e) l = viewAttrs h l := by
  unfold viewAttrs
  apply List.map_congr_left
  intro ts hts
  rw [read_append h e _ (hl ts hts)]

theorem parseAttrsH_view (b : Slice) (acc : List (Int × Slice)) (h : Heap) :
    b.valid h → (∀ ts ∈ acc, ts.2.buf < h.length) →
    ∃ ext, (parseAttrsH b acc h).2 = h ++ ext ∧
      (match (parseAttrsH b acc h).1 with
       | .ok attrs => ∃ as, RV.parseAttrs (h.read b) = .ok as ∧ viewAttrs (h ++ ext) attrs = viewAttrs h acc ++ as
       | .err => RV.parseAttrs (h.read b) = .err
       | .fault => False) := by
  fun_induction parseAttrsH b acc h with
  | case1 b acc h hz =>
    intro hv hacc
    refine ⟨[], by simp, ?_⟩
    have hl := valid_read_length h b hv
    have : h.read b = [] := List.eq_nil_of_length_eq_zero (by omega)
    refine ⟨[], by rw [this, RV.parseAttrs], by simp⟩
  | case2 b acc h hz h2 =>
    intro hv hacc
    refine ⟨[], by simp, ?_⟩
    have hl := valid_read_length h b hv
    show RV.parseAttrs (h.read b) = .err
    rcases hb : h.read b with _ | ⟨t, _ | ⟨l, rest⟩⟩
    · rw [hb] at hl; simp at hl; omega
    · rw [RV.parseAttrs]
    · rw [hb] at hl; simp at hl; omega
  | case3 b acc h hz h2 hg =>
    intro hv hacc
    refine ⟨[], by simp, ?_⟩
    have hl := valid_read_length h b hv
    show RV.parseAttrs (h.read b) = .err
    rcases hb : h.read b with _ | ⟨t, _ | ⟨l, rest⟩⟩
    · rw [hb] at hl; simp at hl; omega
    · rw [hb] at hl; simp at hl; omega
    · rw [hb] at hl hg
      simp only [List.length_cons] at hl
      have : (t :: l :: rest).getD 1 0 = l := rfl
      rw [this] at hg
      rw [RV.parseAttrs, if_pos (by simp only [minAttrLength]; omega)]
  | case4 b acc h hz h2 hg r ih =>
    intro hv hacc
    have hl := valid_read_length h b hv
    rcases hb : h.read b with _ | ⟨t, _ | ⟨l, rest⟩⟩
    · rw [hb] at hl; simp at hl; omega
    · rw [hb] at hl; simp at hl; omega
    · have e1 : (t :: l :: rest).getD 1 0 = l := rfl
      have e0 : (t :: l :: rest).getD 0 0 = t := rfl
      simp only [hb, e1, e0] at ih hg ⊢
      rw [hb] at hl
      simp only [List.length_cons] at hl
      have hg' : 2 ≤ l.toNat ∧ l.toNat ≤ b.len := by omega
      -- the value read for this attribute
      have hval : h.read (b.sub 2 l.toNat) = rest.take (l.toNat - 2) := by
        rw [read_sub h b 2 l.toNat hg'.2, hb]; rfl
      -- the heap after the allocation, and the remaining slice in it
      have hr2 : r.2 = h ++ [h.read (b.sub 2 ((h.read b).getD 1 0).toNat)] := rfl
      have hr1 : r.1 = ⟨h.length, 0, (h.read (b.sub 2 ((h.read b).getD 1 0).toNat)).length⟩ := rfl
      rw [hb, e1] at hr1 hr2
      have hrest : r.2.read (b.sub l.toNat b.len) = rest.drop (l.toNat - 2) := by
        rw [hr2, read_append h _ (b.sub l.toNat b.len) hv.1, read_sub h b l.toNat b.len (Nat.le_refl _), hb]
        have : l.toNat = (l.toNat - 2) + 1 + 1 := by omega
        rw [List.take_of_length_le (by simp; omega)]
        rw [this]; simp
      have hv' : (b.sub l.toNat b.len).valid r.2 := by
        refine ⟨by rw [hr2]; simp; exact Nat.lt_succ_of_lt hv.1, ?_⟩
        have hbuf : r.2.buffer (b.sub l.toNat b.len).buf = h.buffer b.buf := by
          rw [hr2]; exact buffer_append_left h _ _ hv.1
        rw [hbuf]
        have := hv.2
        simp only [Slice.sub]; omega
      have hacc' : ∀ ts ∈ acc ++ [((t.toNat : Int), r.1)], ts.2.buf < r.2.length := by
        intro ts hts
        simp only [List.mem_append, List.mem_singleton] at hts
        rw [hr2]; simp only [List.length_append, List.length_singleton]
        rcases hts with hts | rfl
        · exact Nat.lt_succ_of_lt (hacc ts hts)
        · rw [hr1]; exact Nat.lt_succ_self _
      obtain ⟨ext, hext, hres⟩ := ih hv' hacc'
      refine ⟨[h.read (b.sub 2 l.toNat)] ++ ext, by rw [hext, hr2, List.append_assoc], ?_⟩
      have hpa : ∀ r, RV.parseAttrs (rest.drop (l.toNat - 2)) = r → RV.parseAttrs (t :: l :: rest) =
          match r with
          | .ok as => .ok (⟨t.toNat, rest.take (l.toNat - 2)⟩ :: as)
          | .err => .err
          | .fault => .fault := by
        intro r hr
        rw [RV.parseAttrs, if_neg (by simp only [minAttrLength]; omega), hr]
        cases r <;> rfl
      rw [hrest] at hres
      split at hres
      · rename_i attrs hok
        obtain ⟨as, has, hview⟩ := hres
        refine ⟨_, hpa _ has, ?_⟩
        rw [← List.append_assoc, ← hr2, hview]
        have : viewAttrs r.2 (acc ++ [((t.toNat : Int), r.1)]) =
            viewAttrs h acc ++ [⟨t.toNat, rest.take (l.toNat - 2)⟩] := by
          unfold viewAttrs
          rw [List.map_append]
          congr 1
          · apply List.map_congr_left
            intro ts hts
            rw [hr2, read_append h _ _ (hacc ts hts)]
          · simp only [List.map_cons, List.map_nil]
            rw [hr2, hr1, read_new1, hval]
        rw [this, List.append_assoc]; rfl
      · exact hpa _ hres
      · exact hres.elim

theorem parseH_view (b secret : Slice) (h : Heap) (hv : b.valid h) (hs : secret.buf < h.length) :
    match (parseH b secret h).1 with
    | .ok p => RV.parse (h.read b) (h.read secret) = .ok (p.view (parseH b secret h).2)
    | .err => RV.parse (h.read b) (h.read secret) = .err
    | .fault => False := by
  have hl := valid_read_length h b hv
  by_cases h20 : b.len < 20
  · have e1 : parseH b secret h = (.err, h) := by
      unfold parseH; rw [bind_apply, readS_apply]; simp only []; rw [if_pos h20]; rfl
    have e2 : RV.parse (h.read b) (h.read secret) = .err := by
      unfold RV.parse; rw [if_pos (by rw [hl]; exact h20)]
    rw [e1]; exact e2
  by_cases hg : lengthField (h.read b) < 20 ∨ lengthField (h.read b) > maxPacketLength ∨ b.len < lengthField (h.read b)
  · have e1 : parseH b secret h = (.err, h) := by
      unfold parseH; rw [bind_apply, readS_apply]; simp only []; rw [if_neg h20, if_pos hg]; rfl
    have e2 : RV.parse (h.read b) (h.read secret) = .err := by
      unfold RV.parse; rw [if_neg (by rw [hl]; exact h20)]; simp only []; rw [if_pos (by rw [hl]; exact hg)]
    rw [e1]; exact e2
  have hsub : (b.sub 20 (lengthField (h.read b))).valid h := by
    refine ⟨hv.1, ?_⟩
    have := hv.2
    show b.off + 20 + (lengthField (h.read b) - 20) ≤ (h.buffer b.buf).length
    omega
  obtain ⟨ext, hext, hres⟩ := parseAttrsH_view (b.sub 20 (lengthField (h.read b))) [] h hsub
    (by intro ts hts; simp at hts)
  have hbody : h.read (b.sub 20 (lengthField (h.read b))) =
      ((h.read b).take (lengthField (h.read b))).drop 20 := by
    rw [read_sub h b 20 _ (by omega), List.drop_take]
  rw [hbody] at hres
  have e2 : RV.parse (h.read b) (h.read secret) =
      match RV.parseAttrs (((h.read b).take (lengthField (h.read b))).drop 20) with
      | .ok as => .ok ⟨((h.read b).getD 0 0).toNat, (h.read b).getD 1 0, ((h.read b).drop 4).take 16, h.read secret, as⟩
      | .err => .err
      | .fault => .fault := by
    unfold RV.parse; rw [if_neg (by rw [hl]; exact h20)]; simp only []; rw [if_neg (by rw [hl]; exact hg)]
    cases RV.parseAttrs (((h.read b).take (lengthField (h.read b))).drop 20) <;> rfl
  have e1 : parseH b secret h =
      (match (parseAttrsH (b.sub 20 (lengthField (h.read b))) [] h).1 with
       | .ok attrs => .ok ⟨((h.read b).getD 0 0).toNat, (h.read b).getD 1 0,
            (parseAttrsH (b.sub 20 (lengthField (h.read b))) [] h).2.read (b.sub 4 20), secret, attrs⟩
       | .err => .err
       | .fault => .fault,
       (parseAttrsH (b.sub 20 (lengthField (h.read b))) [] h).2) := by
    unfold parseH; rw [bind_apply, readS_apply]; simp only []; rw [if_neg h20, if_neg hg, bind_apply]
    cases (parseAttrsH (b.sub 20 (lengthField (h.read b))) [] h).1 <;> rfl
  rw [e1, e2]
  simp only []
  split at hres
  · rename_i attrs hok
    obtain ⟨as, has, hview⟩ := hres
    rw [has, hext] at *
    simp only []
    congr 1
    unfold HPacket.view
    simp only [Packet.mk.injEq, true_and]
    refine ⟨?_, ?_, ?_⟩
    · rw [read_append h ext (b.sub 4 20) hv.1, read_sub h b 4 20 (by omega)]
    · rw [read_append h ext secret hs]
    · simpa [viewAttrs] using hview.symm
  · rw [hres]
  · exact hres.elim

end Prov
end RV
