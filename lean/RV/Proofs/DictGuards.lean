/-
  C15 "the parser never panics": every index / slice expression of dictionary/parser.go is guarded.

  The model (RV.Model.DictParser) has no panic outcome, because its list accesses are total
  (`fields.getD i []`, `f.getD 7 0`, `t.take 7`, `t.getLast?`, ...).  This file argues totality at
  the level the model can:

  A. field counts: a branch of the `switch` of `parse` (parser.go 76-255) is entered only with the
     field count that its code (and its callee parseAttribute / parseValue / parseVendor) indexes;
     every other count of a keyword line is UnknownLineError.
  B. `Guarded`: a panic-aware copy of the per-line code, in which every Go index expression `x[i]`
     and slice expression `x[a:b]` is PARTIAL (`none` = run-time panic), and Go's `&&` / `||`
     evaluate left to right with short-circuit.  Theorems: the copy never yields `none`, and is the
     model's function (`dispatchG_eq`, ...).
  C. the same for `parseOID` (`s[i+1]`, `o[len(o)-1]`), and for `line[:idx]` of the scan loop.

  CAUTION when editing the `do` blocks: a nested action `(← e)` in the condition of an `else if` is
  hoisted by Lean in front of the whole `if` chain, which would evaluate an index expression earlier
  than Go does.  Every guarded access below sits in its own `do` block behind its guard
  (checked with `#print`).
-/
import RV.Model.DictParser
namespace RV.DictParser
open RV RV.Dict

/-! ## A. Field counts -/

/-- the six keywords are pairwise different -/
theorem kw_pairwise_ne :
    (kwATTRIBUTE == kwVALUE) = false ∧ (kwATTRIBUTE == kwVENDOR) = false ∧ (kwATTRIBUTE == kwBEGIN) = false ∧
    (kwATTRIBUTE == kwEND) = false ∧ (kwATTRIBUTE == kwINCLUDE) = false ∧
    (kwVALUE == kwATTRIBUTE) = false ∧ (kwVALUE == kwVENDOR) = false ∧ (kwVALUE == kwBEGIN) = false ∧
    (kwVALUE == kwEND) = false ∧ (kwVALUE == kwINCLUDE) = false ∧
    (kwVENDOR == kwATTRIBUTE) = false ∧ (kwVENDOR == kwVALUE) = false ∧ (kwVENDOR == kwBEGIN) = false ∧
    (kwVENDOR == kwEND) = false ∧ (kwVENDOR == kwINCLUDE) = false ∧
    (kwBEGIN == kwATTRIBUTE) = false ∧ (kwBEGIN == kwVALUE) = false ∧ (kwBEGIN == kwVENDOR) = false ∧
    (kwBEGIN == kwEND) = false ∧ (kwBEGIN == kwINCLUDE) = false ∧
    (kwEND == kwATTRIBUTE) = false ∧ (kwEND == kwVALUE) = false ∧ (kwEND == kwVENDOR) = false ∧
    (kwEND == kwBEGIN) = false ∧ (kwEND == kwINCLUDE) = false ∧
    (kwINCLUDE == kwATTRIBUTE) = false ∧ (kwINCLUDE == kwVALUE) = false ∧ (kwINCLUDE == kwVENDOR) = false ∧
    (kwINCLUDE == kwBEGIN) = false ∧ (kwINCLUDE == kwEND) = false := by decide

/-- the branches of the `switch` of `parse` (parser.go 76-255) -/
inductive Branch where
  | attribute | value | vendor | beginVendor | endVendor | include | unknown
deriving DecidableEq, Repr

/-- the `case` conditions of parser.go 77, 112, 130, 152, 176, 196, 247, in order -/
def branchOf (fields : List Bytes) : Branch :=
  let n := fields.length
  let kw := fields.headD []
  if (n == 4 || n == 5) && kw == kwATTRIBUTE then .attribute
  else if n == 4 && kw == kwVALUE then .value
  else if (n == 3 || n == 4) && kw == kwVENDOR then .vendor
  else if n == 2 && kw == kwBEGIN then .beginVendor
  else if n == 2 && kw == kwEND then .endVendor
  else if n == 2 && kw == kwINCLUDE then .include
  else .unknown

/-- the branch the model's `dispatch` takes is `branchOf`: outside the six `case`s it is UnknownLineError -/
theorem dispatch_unknown_branch (cfg : Cfg) (ign : Bool) (inc : IncludeHandler) (file : Bytes) (lineNo : Nat)
    (vb : Option Bytes) (st : St) (fields : List Bytes) (h : branchOf fields = .unknown) :
    dispatch cfg ign inc file lineNo vb st fields = .fail (.decl .unknownLine file lineNo) st := by
  unfold branchOf at h
  simp only [] at h
  unfold dispatch
  simp only []
  repeat' split at h
  all_goals first | (exact absurd h (by decide)) | skip
  rename_i h1 h2 h3 h4 h5 h6
  rw [if_neg h1, if_neg h2, if_neg h3, if_neg h4, if_neg h5, if_neg h6]

/-- `ATTRIBUTE` with a field count other than 4 or 5 is an unknown line (parser.go 77, 247) -/
theorem dispatch_attribute_arity (cfg : Cfg) (ign : Bool) (inc : IncludeHandler) (file : Bytes) (lineNo : Nat)
    (vb : Option Bytes) (st : St) (fields : List Bytes)
    (hk : fields.headD [] = kwATTRIBUTE) (h4 : fields.length ≠ 4) (h5 : fields.length ≠ 5) :
    dispatch cfg ign inc file lineNo vb st fields = .fail (.decl .unknownLine file lineNo) st := by
  apply dispatch_unknown_branch
  simp_all [branchOf, kw_pairwise_ne]

/-- `VALUE` with a field count other than 4 is an unknown line (parser.go 112, 247) -/
theorem dispatch_value_arity (cfg : Cfg) (ign : Bool) (inc : IncludeHandler) (file : Bytes) (lineNo : Nat)
    (vb : Option Bytes) (st : St) (fields : List Bytes)
    (hk : fields.headD [] = kwVALUE) (h4 : fields.length ≠ 4) :
    dispatch cfg ign inc file lineNo vb st fields = .fail (.decl .unknownLine file lineNo) st := by
  apply dispatch_unknown_branch
  simp_all [branchOf, kw_pairwise_ne]

/-- `VENDOR` with a field count other than 3 or 4 is an unknown line (parser.go 130, 247) -/
theorem dispatch_vendor_arity (cfg : Cfg) (ign : Bool) (inc : IncludeHandler) (file : Bytes) (lineNo : Nat)
    (vb : Option Bytes) (st : St) (fields : List Bytes)
    (hk : fields.headD [] = kwVENDOR) (h3 : fields.length ≠ 3) (h4 : fields.length ≠ 4) :
    dispatch cfg ign inc file lineNo vb st fields = .fail (.decl .unknownLine file lineNo) st := by
  apply dispatch_unknown_branch
  simp_all [branchOf, kw_pairwise_ne]

/-- `BEGIN-VENDOR` with a field count other than 2 is an unknown line (parser.go 152, 247) -/
theorem dispatch_begin_arity (cfg : Cfg) (ign : Bool) (inc : IncludeHandler) (file : Bytes) (lineNo : Nat)
    (vb : Option Bytes) (st : St) (fields : List Bytes)
    (hk : fields.headD [] = kwBEGIN) (h2 : fields.length ≠ 2) :
    dispatch cfg ign inc file lineNo vb st fields = .fail (.decl .unknownLine file lineNo) st := by
  apply dispatch_unknown_branch
  simp_all [branchOf, kw_pairwise_ne]

/-- `END-VENDOR` with a field count other than 2 is an unknown line (parser.go 176, 247) -/
theorem dispatch_end_arity (cfg : Cfg) (ign : Bool) (inc : IncludeHandler) (file : Bytes) (lineNo : Nat)
    (vb : Option Bytes) (st : St) (fields : List Bytes)
    (hk : fields.headD [] = kwEND) (h2 : fields.length ≠ 2) :
    dispatch cfg ign inc file lineNo vb st fields = .fail (.decl .unknownLine file lineNo) st := by
  apply dispatch_unknown_branch
  simp_all [branchOf, kw_pairwise_ne]

/-- `$INCLUDE` with a field count other than 2 is an unknown line (parser.go 196, 247) -/
theorem dispatch_include_arity (cfg : Cfg) (ign : Bool) (inc : IncludeHandler) (file : Bytes) (lineNo : Nat)
    (vb : Option Bytes) (st : St) (fields : List Bytes)
    (hk : fields.headD [] = kwINCLUDE) (h2 : fields.length ≠ 2) :
    dispatch cfg ign inc file lineNo vb st fields = .fail (.decl .unknownLine file lineNo) st := by
  apply dispatch_unknown_branch
  simp_all [branchOf, kw_pairwise_ne]

/-- a first field that is none of the six keywords is an unknown line, with any field count (parser.go 247) -/
theorem dispatch_unknown_keyword (cfg : Cfg) (ign : Bool) (inc : IncludeHandler) (file : Bytes) (lineNo : Nat)
    (vb : Option Bytes) (st : St) (fields : List Bytes)
    (h1 : fields.headD [] ≠ kwATTRIBUTE) (h2 : fields.headD [] ≠ kwVALUE) (h3 : fields.headD [] ≠ kwVENDOR)
    (h4 : fields.headD [] ≠ kwBEGIN) (h5 : fields.headD [] ≠ kwEND) (h6 : fields.headD [] ≠ kwINCLUDE) :
    dispatch cfg ign inc file lineNo vb st fields = .fail (.decl .unknownLine file lineNo) st := by
  apply dispatch_unknown_branch
  simp_all [branchOf]

/-- no field at all (only reachable without fix #11): every `len(fields) == k` test fails (parser.go 247) -/
theorem dispatch_no_fields (cfg : Cfg) (ign : Bool) (inc : IncludeHandler) (file : Bytes) (lineNo : Nat)
    (vb : Option Bytes) (st : St) :
    dispatch cfg ign inc file lineNo vb st [] = .fail (.decl .unknownLine file lineNo) st := by
  simp [dispatch]

/-- The largest `i` such that the Go code of the branch - its callee `parseAttribute` / `parseValue`
    / `parseVendor` included - evaluates `fields[i]` (`f[i]`) UNCONDITIONALLY:
    ATTRIBUTE `f[3]` (parser.go 324; `f[4]` at 377 only under `len(f) >= 5`), VALUE `f[3]` (437),
    VENDOR `f[2]` (455; `f[3]` at 469 only under `len(f) == 4`), BEGIN-VENDOR / END-VENDOR / $INCLUDE
    `fields[1]` (163, 184, 206); the `default` branch indexes nothing. -/
def maxIndex : Branch → Option Nat
  | .attribute => some 3
  | .value => some 3
  | .vendor => some 2
  | .beginVendor => some 1
  | .endVendor => some 1
  | .include => some 1
  | .unknown => none

/-- the index a branch evaluates under a condition on the field count, with that condition:
    ATTRIBUTE `f[4]` under `len(f) >= 5` (parser.go 376-377), VENDOR `f[3]` under `len(f) == 4` (465-469) -/
def condIndex : Branch → Option (Nat × (Nat → Bool))
  | .attribute => some (4, fun n => n ≥ 5)
  | .vendor => some (3, fun n => n == 4)
  | _ => none

/-- the field counts with which a branch is entered -/
def arityOK : Branch → Nat → Bool
  | .attribute, n => n == 4 || n == 5
  | .value, n => n == 4
  | .vendor, n => n == 3 || n == 4
  | .beginVendor, n => n == 2
  | .endVendor, n => n == 2
  | .include, n => n == 2
  | .unknown, _ => true

/-- a branch is entered only with its field count -/
theorem branch_arity (fields : List Bytes) : arityOK (branchOf fields) fields.length = true := by
  unfold branchOf
  simp only []
  repeat' split
  all_goals simp_all [arityOK]

/-- a branch is only entered with the field count its Go code indexes -/
theorem branch_indices_in_range (fields : List Bytes) (b : Branch) (h : branchOf fields = b) :
    ∀ i, maxIndex b = some i → i < fields.length := by
  have ha := branch_arity fields
  rw [h] at ha
  intro i hi
  cases b <;> simp [maxIndex] at hi <;> subst hi <;> simp [arityOK] at ha <;> omega

/-- ... and the conditional indices are in range under their condition -/
theorem branch_cond_indices_in_range (fields : List Bytes) (b : Branch) (h : branchOf fields = b) :
    ∀ i c, condIndex b = some (i, c) → c fields.length = true → i < fields.length := by
  intro i c hi hc
  cases b <;> simp [condIndex] at hi <;> obtain ⟨rfl, rfl⟩ := hi <;> simp at hc <;> omega

/-! ## B. The panic-aware copy of the per-line code

  `Option` = "or a run-time panic".  `none` is produced ONLY by the primitives `at?` (`idx`,
  `byteAt`), `slice` (`sliceTo`, `sliceFrom`) and `setAt?` below (an index or slice expression out of
  range; indices are Go `int`s, i.e. `Int`, so `len(x)-1` can be negative); everything else is the Go control flow, with `&&` and `||`
  evaluated left to right with short-circuit (an `if` per operand), so that an operand is evaluated
  only when the Go code evaluates it.  Library calls (`strings.EqualFold`, `strings.HasPrefix`,
  `strings.Split`, `strings.TrimPrefix`, `strconv.ParseInt`, `strconv.ParseUint`, `append`) do not
  index on the caller's behalf and are taken from the model. -/
namespace Guarded

/-- Go `x[i]` for a constant or `int` index: `none` = run-time panic (index out of range) -/
def at? {α : Type} (x : List α) (i : Int) : Option α := if 0 ≤ i then x[i.toNat]? else none
/-- Go `f[i]` on the fields -/
def idx (f : List Bytes) (i : Nat) : Option Bytes := at? f i
/-- Go `s[i]` on a string -/
def byteAt (s : Bytes) (i : Int) : Option UInt8 := at? s i
/-- Go `s[a:b]`: panics unless `0 ≤ a ≤ b ≤ len(s)` -/
def slice (s : Bytes) (a b : Int) : Option Bytes :=
  if 0 ≤ a ∧ a ≤ b ∧ b ≤ s.length then some ((s.take b.toNat).drop a.toNat) else none
/-- Go `s[:n]` -/
def sliceTo (s : Bytes) (n : Int) : Option Bytes := slice s 0 n
/-- Go `s[n:]` -/
def sliceFrom (s : Bytes) (n : Int) : Option Bytes := slice s n s.length

/-- Go `x[i] = v`: `none` = run-time panic (index out of range) -/
def setAt? {α : Type} (x : List α) (i : Int) (v : α) : Option (List α) :=
  if 0 ≤ i ∧ i < x.length then some (x.set i.toNat v) else none

/-- `len(x)` is a Go `int` (so that `len(x)-1` is `-1`, not `0`, for an empty `x`) -/
def len {α : Type} (x : List α) : Int := x.length

/-- parser.go 323-374, the type switch of `parseAttribute` on `t = f[3]` -/
def parseTypeG (t : Bytes) : Option (Except ErrClass (AttrType × Option Int)) :=
  if foldEq t nmString then some (.ok (.string, none))                 -- 324
  else if foldEq t nmOctets then some (.ok (.octets, none))            -- 326
  else do
    -- 328: `len(f[3]) > 8 && strings.EqualFold(f[3][:7], "octets[") && f[3][len(f[3])-1] == ']'`
    let sized : Bool ←
      if len t > 8 then do
        let pre ← sliceTo t 7                                          -- `f[3][:7]`, after `len(f[3]) > 8`
        if foldEq pre kwOctetsBr then do
          let last ← byteAt t (len t - 1)                              -- `f[3][len(f[3])-1]`, after `len(f[3]) > 8`
          pure (last == 93)
        else pure false
      else pure false
    if sized then do
      let mid ← slice t 7 (len t - 1)                                  -- 329: `f[3][7:len(f[3])-1]`
      match parseInt32 mid with
      | some n => pure (.ok (.octets, some n))
      | none => pure (.error .unknownAttributeType)
    else
      match typeTable.find? (fun e => foldEq t e.1) with               -- 340-373
      | some e => pure (.ok (e.2, none))
      | none => pure (.error .unknownAttributeType)

/-- parser.go 285-304, the `for i, ch := range s` loop of `parseOID`, on bytes: `rest` = the bytes
    from offset `i` on, `o` = the slice built so far.  (A byte ≥ 0x80 starts a rune that is neither
    `.` nor a digit: `default: return nil`; so whenever the loop goes on, all bytes before `i` were
    ASCII and the rune offset `i` advances by 1.)  Result `[]` = `nil`. -/
def oidLoopG (cfg : Cfg) (s : Bytes) : Bytes → Int → List Int → Option (List Int)
  | [], _, o => some o                                                 -- 305: `return o`
  | ch :: rest, i, o =>
    if ch == 46 then do                                                -- 287: `case '.'`
      -- 288: `i == 0 || len(s) == i+1 || s[i+1] < '0' || s[i+1] > '9'`
      let bad : Bool ←
        if i == 0 then pure true
        else if len s == i + 1 then pure true
        else do                                                        -- from here on: len(s) != i+1
          if (← byteAt s (i + 1)) < 48 then pure true                  -- `s[i+1] < '0' ||`
          else do pure ((← byteAt s (i + 1)) > 57)                     -- `s[i+1] > '9'`
      if bad then pure []                                              -- 289: `return nil`
      else oidLoopG cfg s rest (i + 1) (o ++ [0])                      -- 291: `o = append(o, 0)`
    else if isDigit ch then do                                         -- 292: `case '0', ..., '9'`
      let o := if i == 0 then o ++ [0] else o                          -- 293-295
      -- 296 (fix #13): `o[len(o)-1] > (maxInt-int(ch-'0'))/10`
      let over : Bool ←
        if cfg.oidOverflowRejected then do pure ((← at? o (len o - 1)) > (maxInt64 - digitVal ch) / 10)
        else pure false
      if over then pure []                                             -- 297: `return nil`
      else do
        let o1 ← setAt? o (len o - 1) (wrap64 ((← at? o (len o - 1)) * 10))                  -- 299: `o[len(o)-1] *= 10`
        let o2 ← setAt? o1 (len o1 - 1) (wrap64 ((← at? o1 (len o1 - 1)) + digitVal ch))     -- 300: `o[len(o)-1] += int(ch - '0')`
        oidLoopG cfg s rest (i + 1) o2
    else pure []                                                       -- 301: `default: return nil`

/-- parser.go 282-306, `parseOID(s)`; `none` = panic, `[]` = nil -/
def parseOIDG (cfg : Cfg) (s : Bytes) : Option (List Int) := oidLoopG cfg s s 0 []

/-- parser.go 308-426, `parseAttribute(f)` -/
def parseAttributeG (cfg : Cfg) (f : List Bytes) : Option (Except ErrClass Attribute) := do
  let f2 ← idx f 2                                                     -- 311: `parseOID(f[2])`
  let oid ← parseOIDG cfg f2
  if len oid == 0 then pure (.error .invalidOID)                       -- 312 (314: `f[2]` again)
  else do
    let f1 ← idx f 1                                                   -- 319
    let f3 ← idx f 3                                                   -- 324 ff.
    match ← parseTypeG f3 with
    | .error e => pure (.error e)
    | .ok (ty, size) =>
      let a : Attribute := { name := f1, oid := oid, typ := ty, size := size }
      if len f ≥ 5 then do                                             -- 376
        let f4 ← idx f 4                                               -- 377: `strings.Split(f[4], ",")`
        pure (parseFlags (splitComma f4) a)
      else pure (.ok a)

/-- parser.go 428-450, `parseValue(f)` -/
def parseValueG (f : List Bytes) : Option (Except ErrClass Value) := do
  let f1 ← idx f 1                                                     -- 432
  let f2 ← idx f 2                                                     -- 433
  let f3 ← idx f 3                                                     -- 437: `strings.HasPrefix(f[3], "0x")`
  if f3.take 2 == kw0x then do
    let f3' ← idx f 3
    let digits ← sliceFrom f3' 2                                       -- 438: `f[3][2:]`, after HasPrefix(f[3], "0x")
    match parseUint32Hex digits with
    | some n => pure (.ok { attrName := f1, name := f2, number := n })
    | none => pure (.error .strconv)
  else do
    let f3' ← idx f 3                                                  -- 443
    match parseUint32Dec f3' with
    | some n => pure (.ok { attrName := f1, name := f2, number := n })
    | none => pure (.error .strconv)

/-- parser.go 469, the NEGATION of the `if` condition on `s = f[3]`:
    `!HasPrefix(f[3], "format=") || len(f[3]) != 10 || f[3][8] != ',' ||
     (f[3][7] != '1' && f[3][7] != '2' && f[3][7] != '4') || (f[3][9] < '0' || f[3][9] > '2')`
    (before fix #12 the last operand was `(f[3][9] < '0' && f[3][9] > '2')`).
    `||` is left to right with short-circuit: the operands that index `f[3][8]`, `f[3][7]`, `f[3][9]`
    are reached only when `len(f[3]) != 10` was evaluated to false. -/
def formatOKG (cfg : Cfg) (s : Bytes) : Option Bool :=
  if !(s.take 7 == kwFormat) then some false                           -- `!strings.HasPrefix(f[3], "format=") ||`
  else if len s != 10 then some false                                  -- `len(f[3]) != 10 ||`
  else do                                                              -- from here on: len(f[3]) == 10
    if (← byteAt s 8) != 44 then return false                          -- `f[3][8] != ',' ||`
    -- `(f[3][7] != '1' && f[3][7] != '2' && f[3][7] != '4') ||`
    let notT : Bool ←
      if (← byteAt s 7) != 49 then
        if (← byteAt s 7) != 50 then do pure ((← byteAt s 7) != 52) else pure false
      else pure false
    if notT then return false
    -- `(f[3][9] < '0' || f[3][9] > '2')`      (current code: `&&`)
    let notL : Bool ←
      if cfg.formatLenChecked then
        if (← byteAt s 9) < 48 then pure true else do pure ((← byteAt s 9) > 50)
      else
        if (← byteAt s 9) < 48 then do pure ((← byteAt s 9) > 50) else pure false
    if notL then return false
    return true

/-- parser.go 452-481, `parseVendor(f)` -/
def parseVendorG (cfg : Cfg) (f : List Bytes) : Option (Except ErrClass Vendor) := do
  let f2 ← idx f 2                                                     -- 455
  match parseInt32 f2 with
  | none => pure (.error .strconv)
  | some n => do
    let f1 ← idx f 1                                                   -- 461
    if len f == 4 then do                                              -- 465
      let f3 ← idx f 3                                                 -- 469 (each `f[3]` is the same access)
      if ← formatOKG cfg f3 then do
        let t ← byteAt f3 7                                            -- 475: `int(f[3][7] - '0')`
        let l ← byteAt f3 9                                            -- 477: `int(f[3][9] - '0')`
        pure (.ok { name := f1, number := n,
                    typeOctets := some ((t - 48).toNat : Int), lengthOctets := some ((l - 48).toNat : Int) })
      else pure (.error .invalidVendorFormat)
    else pure (.ok { name := f1, number := n })

/-- a `case lenTest && fields[0] == kw`: `fields[0]` is evaluated only when the length test is true -/
def caseG (lenTest : Bool) (fields : List Bytes) (kw : Bytes) : Option Bool :=
  if lenTest then do pure ((← idx fields 0) == kw) else pure false

/-- parser.go 76-255, the `switch` of `parse` on the fields of one line -/
def dispatchG (cfg : Cfg) (ign : Bool) (inc : IncludeHandler)
    (file : Bytes) (lineNo : Nat) (vb : Option Bytes) (st : St) (fields : List Bytes) : Option Step := do
  let n := len fields
  let perr (c : ErrClass) : Step := .fail (.decl c file lineNo) st
  if ← caseG (n == 4 || n == 5) fields kwATTRIBUTE then                -- 77
    match ← parseAttributeG cfg fields with                            -- 78
    | .error e => pure (perr e)
    | .ok a =>
      match attributeByName (scopeAttrs st.dict vb) a.name with
      | some existing =>
        if ign && a == existing then pure (.next vb st)
        else pure (perr .duplicateAttribute)
      | none => pure (.next vb { st with dict := addAttr st.dict a vb })
  else if ← caseG (n == 4) fields kwVALUE then                         -- 112
    match ← parseValueG fields with                                    -- 113
    | .error e => pure (perr e)
    | .ok x => pure (.next vb { st with dict := addValue st.dict x vb })
  else if ← caseG (n == 3 || n == 4) fields kwVENDOR then              -- 130
    match ← parseVendorG cfg fields with                               -- 131
    | .error e => pure (perr e)
    | .ok v =>
      match vendorByNameOrNumber st.dict.vendors v.name v.number with
      | some _ => pure (perr .duplicateVendor)
      | none => pure (.next vb { st with dict := { st.dict with vendors := st.dict.vendors ++ [v] } })
  else if ← caseG (n == 2) fields kwBEGIN then                         -- 152
    if vb.isSome then pure (perr .nestedVendorBlock)
    else do
      let f1 ← idx fields 1                                            -- 163 (167: again)
      match vendorByName st.dict.vendors f1 with
      | none => pure (perr .unknownVendor)
      | some _ => pure (.next (some f1) st)
  else if ← caseG (n == 2) fields kwEND then                           -- 176
    match vb with
    | none => pure (perr .unmatchedEndVendor)
    | some v => do
      let f1 ← idx fields 1                                            -- 184 (187: again)
      if v != f1 then pure (perr .invalidEndVendor) else pure (.next none st)
  else if ← caseG (n == 2) fields kwINCLUDE then                       -- 196
    if vb.isSome then pure (perr .beginVendorInclude)
    else do
      let f1 ← idx fields 1                                            -- 206
      match inc f1 file lineNo st with
      | (none, st') => pure (.next vb st')
      | (some e, st') => pure (.fail e st')
  else pure (perr .unknownLine)                                        -- 247

/-! ### The copy never panics and is the model's function -/

theorem at?_ofNat {α : Type} (x : List α) (i : Nat) : at? x (i : Int) = x[i]? := by simp [at?]

theorem idx_eq (f : List Bytes) (i : Nat) (h : i < f.length) : idx f i = some (f.getD i []) := by
  simp [idx, at?, h]

theorem byteAt_eq (s : Bytes) (i : Nat) (h : i < s.length) : byteAt s (i : Int) = some (s.getD i 0) := by
  simp [byteAt, at?, h]

theorem sliceTo_eq (s : Bytes) (n : Nat) (h : n ≤ s.length) : sliceTo s (n : Int) = some (s.take n) := by
  simp [sliceTo, slice, h]

theorem sliceFrom_eq (s : Bytes) (n : Nat) (h : n ≤ s.length) : sliceFrom s (n : Int) = some (s.drop n) := by
  simp [sliceFrom, slice, h]

theorem byteAt_last (s : Bytes) (h : 0 < s.length) : byteAt s (len s - 1) = s.getLast? := by
  have : (len s - 1) = ((s.length - 1 : Nat) : Int) := by simp [len]; omega
  rw [this, byteAt, at?_ofNat, List.getLast?_eq_getElem?]

theorem slice_mid (s : Bytes) (h : 7 < s.length) : slice s 7 (len s - 1) = some ((s.drop 7).dropLast) := by
  have e : (len s - 1) = ((s.length - 1 : Nat) : Int) := by simp [len]; omega
  rw [e]
  have : (7:Int) ≤ ((s.length - 1 : Nat) : Int) ∧ ((s.length - 1 : Nat) : Int) ≤ (s.length : Int) := by omega
  simp [slice, this, List.dropLast_eq_take, List.drop_take]
  omega

theorem parseTypeG_eq (t : Bytes) : parseTypeG t = some (parseType t) := by
  unfold parseTypeG parseType
  split
  · rfl
  split
  · rfl
  by_cases h8 : t.length > 8
  · have h8' : len t > 8 := by simp [len]; omega
    have e1 : sliceTo t 7 = some (t.take 7) := by
      have : (7 : Int) ≤ (t.length : Int) := by omega
      simp [sliceTo, slice, this]
    simp only [h8', if_true, e1, byteAt_last t (by omega), slice_mid t (by omega)]
    simp [h8]
    cases hx : t.getLast? with
    | none => simp at hx; simp [hx] at h8
    | some x =>
      by_cases hf : foldEq (List.take 7 t) kwOctetsBr = true <;> by_cases h93 : x = 93 <;> simp [hf, h93] <;> split <;> simp [*]
  · have h8' : ¬ len t > 8 := by simp [len]; omega
    simp [h8', h8]
    split <;> simp [*]

/-! #### C. `parseOID` -/

theorem at?_last {α : Type} (xs : List α) (a : α) : at? (xs ++ [a]) (len (xs ++ [a]) - 1) = some a := by
  have : len (xs ++ [a]) - 1 = (xs.length : Int) := by simp [len]
  rw [this]
  simp [at?]

theorem setAt?_last {α : Type} (xs : List α) (a v : α) : setAt? (xs ++ [a]) (len (xs ++ [a]) - 1) v = some (xs ++ [v]) := by
  have : len (xs ++ [a]) - 1 = (xs.length : Int) := by simp [len]
  rw [this]
  simp [setAt?]
  omega

theorem wrap64_wrap64_add (x d : Int) : wrap64 (wrap64 x + d) = wrap64 (x + d) := by
  unfold wrap64
  omega

theorem oidLoopG_eq (cfg : Cfg) : ∀ (rest pre : Bytes) (done : List Int) (cur : Int), pre ≠ [] →
    oidLoopG cfg (pre ++ rest) rest (pre.length : Int) (done.reverse ++ [cur])
      = some ((oidLoop cfg rest done cur).getD []) := by
  intro rest
  induction rest with
  | nil => intro pre done cur _; simp [oidLoopG, oidLoop]
  | cons c rest ih =>
    intro pre done cur hpre
    have hi : ((pre.length : Int) == 0) = false := by
      have : pre.length ≠ 0 := by simpa using hpre
      exact beq_eq_false_iff_ne.mpr (by omega)
    have hstep := ih (pre ++ [c])
    have hs : pre ++ [c] ++ rest = pre ++ c :: rest := by simp
    have hl : (((pre ++ [c]).length : Nat) : Int) = (pre.length : Int) + 1 := by simp
    rw [hs, hl] at hstep
    unfold oidLoopG oidLoop
    by_cases hdot : (c == 46) = true
    · simp only [hdot, if_true, hi]
      cases rest with
      | nil =>
        have : (len (pre ++ [c]) == (pre.length : Int) + 1) = true := by simp [len]
        simp [this]
      | cons d rest' =>
        have hne : (len (pre ++ c :: d :: rest') == (pre.length : Int) + 1) = false := by
          apply beq_eq_false_iff_ne.mpr
          simp [len]; omega
        have hb : byteAt (pre ++ c :: d :: rest') ((pre.length : Int) + 1) = some d := by
          have : ((pre.length : Int) + 1) = ((pre.length + 1 : Nat) : Int) := by simp
          rw [this, byteAt, at?_ofNat]
          simp
        simp only [hne, hb, Option.bind_eq_bind, Option.bind_some, Option.pure_def]
        have hdone : done.reverse ++ [cur] ++ [0] = (cur :: done).reverse ++ [0] := by simp
        rw [hdone, hstep (cur :: done) 0 (by simp)]
        have k1 : (d < 48) ↔ ¬ (48 ≤ d) := by simp
        have k2 : (d > 57) ↔ ¬ (d ≤ 57) := by simp
        simp only [k1, k2, isDigit]
        by_cases a : 48 ≤ d <;> by_cases b : d ≤ 57 <;> simp [a, b]
    · simp only [hdot]
      by_cases hd : isDigit c = true
      · simp only [hd, if_true, hi, Bool.false_eq_true, if_false, at?_last, setAt?_last, Option.bind_eq_bind,
          Option.bind_some, Option.pure_def, wrap64_wrap64_add, oidStep]
        rw [hstep done _ (by simp)]
        cases cfg.oidOverflowRejected <;> by_cases hov : cur > (maxInt64 - ↑(digitVal c)) / 10 <;> simp [hov]
      · simp [hd]

/-- `parseOID` never panics, and returns the model's OID (`nil` where the model has `none`) -/
theorem parseOIDG_eq (cfg : Cfg) (s : Bytes) : parseOIDG cfg s = some ((parseOID cfg s).getD []) := by
  unfold parseOIDG parseOID
  cases s with
  | nil => simp [oidLoopG]
  | cons c rest =>
    unfold oidLoopG
    by_cases hdot : (c == 46) = true
    · have : isDigit c = false := by
        have : c = 46 := by simpa using hdot
        subst this; decide
      simp [hdot, this]
    · simp only [hdot]
      by_cases hd : isDigit c = true
      · simp only [hd, if_true, beq_self_eq_true, at?_last, setAt?_last, Option.bind_eq_bind,
          Option.bind_some, Option.pure_def, wrap64_wrap64_add, oidStep]
        have h := oidLoopG_eq cfg rest [c] []
        simp only [List.reverse_nil, List.length_singleton, List.singleton_append] at h
        have h1 : ((0 : Int) + 1) = ((1 : Nat) : Int) := rfl
        rw [h1, h _ (by simp)]
        cases cfg.oidOverflowRejected <;> by_cases hov : 0 > (maxInt64 - ↑(digitVal c)) / 10 <;> simp [hov]
      · simp [hd]

/-! #### B. The directive parsers and the `switch` -/

theorem oidLoop_ne_nil (cfg : Cfg) : ∀ (s : Bytes) (done : List Int) (cur : Int) (o : List Int),
    oidLoop cfg s done cur = some o → o ≠ [] := by
  intro s
  induction s with
  | nil => intro done cur o h; simp [oidLoop] at h; subst h; simp
  | cons c rest ih =>
    intro done cur o h
    unfold oidLoop at h
    split at h
    · split at h
      · simp at h
      · split at h
        · exact ih _ _ _ h
        · simp at h
    · split at h
      · split at h
        · exact ih _ _ _ h
        · simp at h
      · simp at h

theorem parseOID_ne_nil (cfg : Cfg) (s : Bytes) (o : List Int) (h : parseOID cfg s = some o) : o ≠ [] := by
  unfold parseOID at h
  split at h
  · simp at h
  · split at h
    · split at h
      · exact oidLoop_ne_nil cfg _ _ _ _ h
      · simp at h
    · simp at h

theorem parseAttributeG_eq (cfg : Cfg) (f : List Bytes) (hlen : f.length = 4 ∨ f.length = 5) :
    parseAttributeG cfg f = some (parseAttribute cfg (f.getD 1 []) (f.getD 2 []) (f.getD 3 [])
      (if f.length == 5 then some (f.getD 4 []) else none)) := by
  have h1 := idx_eq f 1 (by omega)
  have h2 := idx_eq f 2 (by omega)
  have h3 := idx_eq f 3 (by omega)
  unfold parseAttributeG parseAttribute
  simp only [h1, h2, h3, parseOIDG_eq, parseTypeG_eq, Option.bind_eq_bind, Option.bind_some, Option.pure_def]
  cases ho : parseOID cfg (f.getD 2 []) with
  | none => simp [len]
  | some o =>
    have hne := parseOID_ne_nil cfg _ _ ho
    have : ¬ len o = 0 := by
      have : o.length ≠ 0 := by simpa using hne
      simp only [len]; omega
    simp [this]
    cases parseType (f[3]?.getD []) with
    | error e => rfl
    | ok p =>
      obtain ⟨ty, size⟩ := p
      rcases hlen with h | h
      · have : ¬ (5 : Int) ≤ len f := by simp [len]; omega
        simp [h, this]
      · have : (5 : Int) ≤ len f := by simp [len]; omega
        have h4 := idx_eq f 4 (by omega)
        simp [h, this, h4]

theorem take_eq_length_le {α : Type} (s p : List α) (n : Nat) (h : s.take n = p) (hp : p.length = n) : n ≤ s.length := by
  have := congrArg List.length h
  simp at this
  omega

theorem parseValueG_eq (f : List Bytes) (hlen : f.length = 4) :
    parseValueG f = some (parseValue (f.getD 1 []) (f.getD 2 []) (f.getD 3 [])) := by
  have h1 := idx_eq f 1 (by omega)
  have h2 := idx_eq f 2 (by omega)
  have h3 := idx_eq f 3 (by omega)
  unfold parseValueG parseValue
  simp only [h1, h2, h3, Option.bind_eq_bind, Option.bind_some, Option.pure_def]
  generalize f.getD 1 [] = a
  generalize f.getD 2 [] = b
  generalize f.getD 3 [] = t
  by_cases hp : (List.take 2 t == kw0x) = true
  · have hle : 2 ≤ t.length := take_eq_length_le _ _ 2 (by simpa using hp) (by decide)
    have e : sliceFrom t 2 = some (t.drop 2) := by
      have : (2 : Int) ≤ (t.length : Int) := by omega
      simp [sliceFrom, slice, this]
    simp only [hp, if_true, e, Option.bind_some]
    cases parseUint32Hex (t.drop 2) <;> rfl
  · simp only [hp]
    cases parseUint32Dec t <;> rfl

/-- a 4th VENDOR field that is not 10 bytes long is refused WITHOUT `f[3][7]`, `f[3][8]`, `f[3][9]`
    being evaluated: the proof only unfolds the two leading tests of `formatOKG` -/
theorem formatOKG_short (cfg : Cfg) (s : Bytes) (h : s.length ≠ 10) : formatOKG cfg s = some false := by
  have : (len s != 10) = true := by simp [len]; omega
  unfold formatOKG
  rw [if_pos this]
  split <;> rfl

/-- the model's `formatOK` (total accessors `getD`) is false on every string that is not 10 bytes long -/
theorem formatOK_inspects_after_length (cfg : Cfg) (s : Bytes) (h : s.length ≠ 10) : formatOK cfg s = false := by
  simp [formatOK, h]

theorem formatOKG_eq (cfg : Cfg) (s : Bytes) : formatOKG cfg s = some (formatOK cfg s) := by
  by_cases hl : s.length = 10
  · have h7 : byteAt s 7 = some (s.getD 7 0) := byteAt_eq s 7 (by omega)
    have h8 : byteAt s 8 = some (s.getD 8 0) := byteAt_eq s 8 (by omega)
    have h9 : byteAt s 9 = some (s.getD 9 0) := byteAt_eq s 9 (by omega)
    have : (len s != 10) = false := by simp [len, hl]
    unfold formatOKG formatOK
    simp only [this, h7, h8, h9, Option.bind_eq_bind, Option.bind_some, Option.pure_def]
    generalize List.getD s 7 0 = c7
    generalize List.getD s 8 0 = c8
    generalize List.getD s 9 0 = c9
    generalize (List.take 7 s == kwFormat) = p
    generalize cfg.formatLenChecked = q
    have k1 : (c9 < 48) ↔ ¬ (48 ≤ c9) := by simp
    have k2 : (c9 > 50) ↔ ¬ (c9 ≤ 50) := by simp
    have k3 : 48 ≤ c9 ∨ c9 ≤ 50 := by
      simp only [UInt8.le_iff_toNat_le]; simp; omega
    simp only [k1, k2, hl]
    clear k1 k2 h7 h8 h9
    cases p <;> cases q <;> by_cases a : 48 ≤ c9 <;> by_cases b : c9 ≤ 50 <;> simp [a, b] <;>
      first
      | (exfalso; rcases k3 with h | h <;> contradiction)
      | (by_cases e8 : c8 = 44 <;> by_cases e1 : c7 = 49 <;> by_cases e2 : c7 = 50 <;> by_cases e3 : c7 = 52 <;> simp_all)
  · rw [formatOKG_short cfg s hl, formatOK_inspects_after_length cfg s hl]

theorem formatOK_length (cfg : Cfg) (s : Bytes) (h : formatOK cfg s = true) : s.length = 10 := by
  false_or_by_contra
  rename_i hn
  rw [formatOK_inspects_after_length cfg s hn] at h
  exact absurd h (by decide)

theorem parseVendorG_eq (cfg : Cfg) (f : List Bytes) (hlen : f.length = 3 ∨ f.length = 4) :
    parseVendorG cfg f = some (parseVendor cfg (f.getD 1 []) (f.getD 2 [])
      (if f.length == 4 then some (f.getD 3 []) else none)) := by
  have h1 := idx_eq f 1 (by omega)
  have h2 := idx_eq f 2 (by omega)
  unfold parseVendorG parseVendor
  simp only [h1, h2, Option.bind_eq_bind, Option.bind_some, Option.pure_def]
  cases parseInt32 (f.getD 2 []) with
  | none => rfl
  | some n =>
    rcases hlen with h | h
    · have : (len f == 4) = false := by simp [len, h]
      simp [this, h]
    · have : (len f == 4) = true := by simp [len, h]
      have h3 := idx_eq f 3 (by omega)
      simp only [this, h3, h, formatOKG_eq, if_true, Option.bind_some, beq_self_eq_true]
      generalize f.getD 3 [] = t
      by_cases hf : formatOK cfg t = true
      · have hl := formatOK_length cfg t hf
        have h7 : byteAt t 7 = some (t.getD 7 0) := byteAt_eq t 7 (by omega)
        have h9 : byteAt t 9 = some (t.getD 9 0) := byteAt_eq t 9 (by omega)
        simp only [hf, h7, h9, if_true, Option.bind_some]
      · simp only [hf]
        rfl

theorem caseG_eq (c : Bool) (fields : List Bytes) (kw : Bytes) (h : c = true → 0 < fields.length) :
    caseG c fields kw = some (c && fields.headD [] == kw) := by
  cases c with
  | false => rfl
  | true =>
    have h0 := idx_eq fields 0 (h rfl)
    have : fields.getD 0 [] = fields.headD [] := by cases fields <;> rfl
    simp only [caseG, h0, this, if_true, Option.bind_eq_bind, Option.bind_some, Option.pure_def, Bool.true_and]


theorem len_beq {α : Type} (x : List α) (k : Nat) : (len x == (k : Int)) = (x.length == k) := by
  by_cases h : x.length = k
  · simp [len, h]
  · have : ¬ (x.length : Int) = (k : Int) := by omega
    have a : ((x.length : Int) == (k : Int)) = false := beq_eq_false_iff_ne.mpr this
    have b : (x.length == k) = false := beq_eq_false_iff_ne.mpr h
    simp only [len, a, b]

theorem dispatchG_eq (cfg : Cfg) (ign : Bool) (inc : IncludeHandler) (file : Bytes) (lineNo : Nat) (vb : Option Bytes) (st : St) (fields : List Bytes) :
    dispatchG cfg ign inc file lineNo vb st fields = some (dispatch cfg ign inc file lineNo vb st fields) := by
  have e2 : (len fields == 2) = (fields.length == 2) := len_beq fields 2
  have e3 : (len fields == 3) = (fields.length == 3) := len_beq fields 3
  have e4 : (len fields == 4) = (fields.length == 4) := len_beq fields 4
  have e5 : (len fields == 5) = (fields.length == 5) := len_beq fields 5
  unfold dispatchG dispatch
  simp only [e2, e3, e4, e5]
  rw [caseG_eq _ _ kwATTRIBUTE (by simp; omega), caseG_eq _ _ kwVALUE (by simp; omega),
    caseG_eq _ _ kwVENDOR (by simp; omega), caseG_eq _ _ kwBEGIN (by simp; omega),
    caseG_eq _ _ kwEND (by simp; omega), caseG_eq _ _ kwINCLUDE (by simp; omega)]
  simp only [Option.bind_eq_bind, Option.bind_some, Option.pure_def]
  by_cases c1 : ((fields.length == 4 || fields.length == 5) && fields.headD [] == kwATTRIBUTE) = true
  · have hl : fields.length = 4 ∨ fields.length = 5 := by
      have := (Bool.and_eq_true _ _ ▸ c1).1
      simpa using this
    rw [if_pos c1, if_pos c1, parseAttributeG_eq cfg fields hl, Option.bind_some]
    generalize parseAttribute cfg _ _ _ _ = r
    rcases r with e | a
    · rfl
    · simp only []
      cases attributeByName (scopeAttrs st.dict vb) a.name with
      | none => rfl
      | some ex => simp only []; split <;> rfl
  rw [if_neg c1, if_neg c1]
  by_cases c2 : (fields.length == 4 && fields.headD [] == kwVALUE) = true
  · have hl : fields.length = 4 := by
      have := (Bool.and_eq_true _ _ ▸ c2).1
      simpa using this
    rw [if_pos c2, if_pos c2, parseValueG_eq fields hl, Option.bind_some]
    generalize parseValue _ _ _ = r
    rcases r with e | a <;> rfl
  rw [if_neg c2, if_neg c2]
  by_cases c3 : ((fields.length == 3 || fields.length == 4) && fields.headD [] == kwVENDOR) = true
  · have hl : fields.length = 3 ∨ fields.length = 4 := by
      have := (Bool.and_eq_true _ _ ▸ c3).1
      simpa using this
    rw [if_pos c3, if_pos c3, parseVendorG_eq cfg fields hl, Option.bind_some]
    generalize parseVendor cfg _ _ _ = r
    rcases r with e | v
    · rfl
    · simp only []
      cases vendorByNameOrNumber st.dict.vendors v.name v.number <;> rfl
  rw [if_neg c3, if_neg c3]
  have two : ∀ kw, (fields.length == 2 && fields.headD [] == kw) = true → idx fields 1 = some (fields.getD 1 []) := by
    intro kw c
    have := (Bool.and_eq_true _ _ ▸ c).1
    exact idx_eq fields 1 (by simp at this; omega)
  by_cases c4 : (fields.length == 2 && fields.headD [] == kwBEGIN) = true
  · rw [if_pos c4, if_pos c4, two _ c4, Option.bind_some]
    split
    · rfl
    · cases vendorByName st.dict.vendors (fields.getD 1 []) <;> rfl
  rw [if_neg c4, if_neg c4]
  by_cases c5 : (fields.length == 2 && fields.headD [] == kwEND) = true
  · rw [if_pos c5, if_pos c5, two _ c5]
    cases vb with
    | none => rfl
    | some v => simp only [Option.bind_some]; split <;> rfl
  rw [if_neg c5, if_neg c5]
  by_cases c6 : (fields.length == 2 && fields.headD [] == kwINCLUDE) = true
  · rw [if_pos c6, if_pos c6, two _ c6, Option.bind_some]
    split
    · rfl
    · generalize inc _ _ _ _ = r
      rcases r with ⟨_ | e, st'⟩ <;> rfl
  rw [if_neg c6, if_neg c6]

/-- THE LINE SWITCH NEVER PANICS: for every field list, the panic-aware `switch` does not hit an
    index out of range -/
theorem dispatch_never_panics (cfg : Cfg) (ign : Bool) (inc : IncludeHandler) (file : Bytes) (lineNo : Nat)
    (vb : Option Bytes) (st : St) (fields : List Bytes) :
    (dispatchG cfg ign inc file lineNo vb st fields).isSome = true := by
  rw [dispatchG_eq]; rfl

/-- `parseOID` never panics (`s[i+1]`, `o[len(o)-1]` are in range), for every byte string -/
theorem parseOIDG_never_panics (cfg : Cfg) (s : Bytes) : (parseOIDG cfg s).isSome = true := by
  rw [parseOIDG_eq]; rfl

/-- the Go result has `len(oid) == 0` (nil) exactly where the model's `parseOID` is `none` -/
theorem parseOIDG_nil_iff (cfg : Cfg) (s : Bytes) : parseOIDG cfg s = some [] ↔ parseOID cfg s = none := by
  rw [parseOIDG_eq]
  cases h : parseOID cfg s with
  | none => simp
  | some o => simpa using parseOID_ne_nil cfg s o h

/-! #### The scan-loop body (parser.go 64-75): `line[:idx]` -/

/-- `strings.IndexByte(line, c)` -/
def indexByte : Bytes → UInt8 → Int
  | [], _ => -1
  | b :: rest, c => if b == c then 0 else if indexByte rest c < 0 then -1 else indexByte rest c + 1

/-- parser.go 65-67: `if idx := strings.IndexByte(line, '#'); idx >= 0 { line = line[:idx] }` -/
def stripCommentG (line : Bytes) : Option Bytes :=
  let idx := indexByte line 35
  if idx ≥ 0 then sliceTo line idx else some line

/-- parser.go 64-255, one iteration of the scan loop -/
def stepLineG (cfg : Cfg) (ign : Bool) (inc : IncludeHandler) (file : Bytes) (lineNo : Nat)
    (vb : Option Bytes) (st : St) (raw : Bytes) : Option Step := do
  let line ← stripCommentG raw                                         -- 65-67
  if len line == 0 then pure (.next vb st)                             -- 68-70
  else
    let fs := Lex.fields line                                          -- 72
    if cfg.skipNoFields && len fs == 0 then pure (.next vb st)         -- 73-75 (fix #11)
    else dispatchG cfg ign inc file lineNo vb st fs                    -- 76-255

theorem indexByte_spec (l : Bytes) :
    (indexByte l 35 = -1 ∧ Lex.stripComment l = l) ∨
    (0 ≤ indexByte l 35 ∧ indexByte l 35 ≤ l.length ∧ l.take (indexByte l 35).toNat = Lex.stripComment l) := by
  induction l with
  | nil => left; simp [indexByte, Lex.stripComment]
  | cons b rest ih =>
    unfold indexByte
    by_cases hb : (b == 35) = true
    · right
      have : b = 35 := by simpa using hb
      subst this
      simp [Lex.stripComment]
      omega
    · have hb' : (b != 35) = true := by simpa using hb
      rw [if_neg hb]
      rcases ih with ⟨h1, h2⟩ | ⟨h1, h2, h3⟩
      · left
        simp only [Lex.stripComment] at h2
        simp [h1, Lex.stripComment, hb', h2]
      · right
        have : ¬ indexByte rest 35 < 0 := by omega
        simp only [Lex.stripComment] at h3
        rw [if_neg this]
        refine ⟨by omega, by simp; omega, ?_⟩
        have e : (indexByte rest 35 + 1).toNat = (indexByte rest 35).toNat + 1 := by omega
        simp [e, Lex.stripComment, hb', h3]

theorem stripCommentG_eq (l : Bytes) : stripCommentG l = some (Lex.stripComment l) := by
  unfold stripCommentG
  rcases indexByte_spec l with ⟨h1, h2⟩ | ⟨h1, h2, h3⟩
  · simp [h1, h2]
  · simp [sliceTo, slice, h1, h2, h3]

/-- the panic-aware loop body never panics and is the model's `stepLine` -/
theorem stepLineG_eq (cfg : Cfg) (ign : Bool) (inc : IncludeHandler) (file : Bytes) (lineNo : Nat)
    (vb : Option Bytes) (st : St) (raw : Bytes) :
    stepLineG cfg ign inc file lineNo vb st raw = some (stepLine cfg ign inc file lineNo vb st raw) := by
  have e1 : ∀ {α : Type} (x : List α), (len x == 0) = x.isEmpty := by
    intro α x; cases x <;> simp [len]
    omega
  unfold stepLineG stepLine
  simp only [stripCommentG_eq, Option.bind_eq_bind, Option.bind_some, Option.pure_def, e1, dispatchG_eq]
  split
  · rfl
  · split <;> rfl

theorem stepLine_never_panics (cfg : Cfg) (ign : Bool) (inc : IncludeHandler) (file : Bytes) (lineNo : Nat)
    (vb : Option Bytes) (st : St) (raw : Bytes) :
    (stepLineG cfg ign inc file lineNo vb st raw).isSome = true := by
  rw [stepLineG_eq]; rfl

/-! #### Sanity checks -/

/-- an include handler for the examples -/
def exInclude : IncludeHandler := fun name file lineNo st => (some (.openErr file lineNo name), st)

-- a 4th VENDOR field shorter than 10 bytes ("VENDOR x 1 f"): refused, no panic
example : dispatchG Cfg.tree false exInclude [] 7 none {} [kwVENDOR, [120], [49], [102]]
    = some (.fail (.decl .invalidVendorFormat [] 7) {}) := by rfl
-- "format=1," is 9 bytes long: `f[3][9]` would be out of range, and is not evaluated
example : formatOKG Cfg.tree [102,111,114,109,97,116,61,49,44] = some false := by decide
example : formatOKG Cfg.current [102,111,114,109,97,116,61,49,44] = some false := by decide
example : formatOKG Cfg.tree [102,111,114,109,97,116,61,49,44,49] = some true := by decide
-- the primitives do panic when the Go expression would
example : byteAt [102,111,114,109,97,116,61,49,44] 9 = none := by decide
example : idx [kwVENDOR, [120], [49]] 3 = none := by decide
example : slice [1, 2, 3] 2 1 = none ∧ slice [1, 2, 3] 1 4 = none ∧ byteAt [] (len ([] : Bytes) - 1) = none := by decide
-- "octets[" + "]" is 8 bytes: `len(f[3]) > 8` fails, `f[3][7:len(f[3])-1]` is not evaluated
example : parseTypeG [111,99,116,101,116,115,91,93] = some (.error .unknownAttributeType) := by rfl
-- ATTRIBUTE with 4 fields: `f[4]` is not evaluated
example : (parseAttributeG Cfg.tree [kwATTRIBUTE, [97], [49], nmString]).isSome = true := by decide
-- "1." : `len(s) == i+1` stops before `s[i+1]`;  ".1" : `i == 0`
example : parseOIDG Cfg.tree [49, 46] = some [] ∧ parseOIDG Cfg.tree [46, 49] = some [] := by decide
example : parseOIDG Cfg.tree [49, 46, 50, 53] = some [1, 25] := by decide
-- no field at all (the code before fix #11): `fields[0]` is not evaluated
example : dispatchG Cfg.current false exInclude [] 1 none {} [] = some (.fail (.decl .unknownLine [] 1) {}) := by rfl
-- VALUE "0x": `f[3][2:]` is the empty string
example : parseValueG [kwVALUE, [97], [98], kw0x] = some (.error .strconv) := by rfl

end Guarded

end RV.DictParser
