/-
  Proofs for C15 (dictionary include walk) about the model RV.Model.DictParser.
-/
import RV.Model.DictParser

namespace RV.C15
open RV RV.Dict RV.DictParser

/-- every `opened n` of the log is followed by a `closed n` -/
def OpensClosed (log : List Event) : Prop :=
  ∀ pre n post, log = pre ++ Event.opened n :: post → Event.closed n ∈ post

def nmRoot : Bytes := [114, 111, 111, 116]   -- "root"
def nmA : Bytes := [97]
def nmB : Bytes := [98]
/-- `$INCLUDE <name>\n` -/
def inc (n : Bytes) : Bytes := kwINCLUDE ++ [32] ++ n ++ [10]

/-- root → a, a → b, b → a -/
def fsNonRootCycle : FS := [(nmRoot, inc nmA), (nmA, inc nmB), (nmB, inc nmA)]
/-- root → a, a → root -/
def fsRootCycle : FS := [(nmRoot, inc nmA), (nmA, inc nmRoot)]

/-- diamond with a repeated include: root → a, b, b ; a → c ; b → c ; c declares a VALUE -/
def fsDiamond : FS :=
  [(nmRoot, inc nmA ++ inc nmB ++ inc nmB), (nmA, inc [99]), (nmB, inc [99]),
   ([99], kwVALUE ++ [32, 65, 32, 118, 32, 49, 10])]

end RV.C15

namespace RV.DictParser
open RV RV.Dict RV.C15

/-! ## One line -/

theorem kw_ne : (kwINCLUDE == kwATTRIBUTE) = false ∧ (kwINCLUDE == kwVALUE) = false ∧
    (kwINCLUDE == kwVENDOR) = false ∧ (kwINCLUDE == kwBEGIN) = false ∧ (kwINCLUDE == kwEND) = false := by
  decide

/-- how the result of the include handler continues the line loop -/
def Step.ofResult (vb : Option Bytes) : Result → Step
  | (none, st') => .next vb st'
  | (some e, st') => .fail e st'

/-- a line `$INCLUDE n` -/
theorem stepLine_include (cfg : Cfg) (ign : Bool) (h : IncludeHandler) (file : Bytes) (lineNo : Nat)
    (vb : Option Bytes) (st : St) (raw n : Bytes)
    (hf : Lex.fields (Lex.stripComment raw) = [kwINCLUDE, n]) :
    stepLine cfg ign h file lineNo vb st raw =
      if vb.isSome then .fail (.decl .beginVendorInclude file lineNo) st
      else Step.ofResult vb (h n file lineNo st) := by
  have hne : (Lex.stripComment raw).isEmpty = false := by
    cases hs : Lex.stripComment raw with
    | nil => rw [hs] at hf; simp [Lex.fields, Lex.fieldsAux, Lex.flush] at hf
    | cons => rfl
  obtain ⟨h1, h2, h3, h4, h5⟩ := kw_ne
  simp only [stepLine, hne, hf, dispatch]
  simp [h1, h2, h3, h4, h5]
  cases vb with
  | some v => simp
  | none =>
    simp
    rcases h n file lineNo st with ⟨_ | e, st'⟩ <;> simp [Step.ofResult]

/-- what a line can do: change the dictionary only, fail with a declaration error at this very
    line, or be a `$INCLUDE n` outside a vendor block and do what the handler does -/
theorem dispatch_cases (cfg : Cfg) (ign : Bool) (h : IncludeHandler) (file : Bytes) (lineNo : Nat)
    (vb : Option Bytes) (st : St) (fields : List Bytes) :
    (∃ vb' st', dispatch cfg ign h file lineNo vb st fields = .next vb' st' ∧ st'.log = st.log) ∨
    (∃ c, dispatch cfg ign h file lineNo vb st fields = .fail (.decl c file lineNo) st) ∨
    (∃ n, fields = [kwINCLUDE, n] ∧ vb = none ∧
      dispatch cfg ign h file lineNo vb st fields = Step.ofResult none (h n file lineNo st)) := by
  generalize hd : dispatch cfg ign h file lineNo vb st fields = r
  simp only [dispatch] at hd
  repeat' split at hd
  all_goals subst hd
  all_goals first
    | (left; exact ⟨_, _, rfl, rfl⟩)
    | (right; left; exact ⟨_, rfl⟩)
    | skip
  · rename_i hinc hvb _ _ heq
    have hvb' : vb = none := by cases vb <;> simp_all
    have hf : fields = [kwINCLUDE, fields.getD 1 []] := by
      match fields, hinc with
      | [a, b], hinc => simpa using hinc
    right; right
    refine ⟨_, hf, hvb', ?_⟩
    rw [heq, hvb']; rfl
  · rename_i hinc hvb _ _ _ heq
    have hvb' : vb = none := by cases vb <;> simp_all
    have hf : fields = [kwINCLUDE, fields.getD 1 []] := by
      match fields, hinc with
      | [a, b], hinc => simpa using hinc
    right; right
    refine ⟨_, hf, hvb', ?_⟩
    rw [heq]; rfl

theorem stepLine_cases (cfg : Cfg) (ign : Bool) (h : IncludeHandler) (file : Bytes) (lineNo : Nat)
    (vb : Option Bytes) (st : St) (raw : Bytes) :
    (∃ vb' st', stepLine cfg ign h file lineNo vb st raw = .next vb' st' ∧ st'.log = st.log) ∨
    (∃ c, stepLine cfg ign h file lineNo vb st raw = .fail (.decl c file lineNo) st) ∨
    (∃ n, Lex.fields (Lex.stripComment raw) = [kwINCLUDE, n] ∧ vb = none ∧
      stepLine cfg ign h file lineNo vb st raw = Step.ofResult none (h n file lineNo st)) := by
  simp only [stepLine]
  split
  · left; exact ⟨_, _, rfl, rfl⟩
  · split
    · left; exact ⟨_, _, rfl, rfl⟩
    · exact dispatch_cases ..

/-! ## The line loop, generically in the include handler -/

theorem OpensClosed_nil : OpensClosed [] := by
  intro pre n post h
  cases pre <;> simp at h

theorem OpensClosed_append {a b : List Event} (ha : OpensClosed a) (hb : OpensClosed b) :
    OpensClosed (a ++ b) := by
  intro pre n post h
  rcases List.append_eq_append_iff.mp h with ⟨a', rfl, h2⟩ | ⟨c', rfl, h2⟩
  · exact hb _ _ _ h2
  · cases c' with
    | nil => simp at h2; exact hb [] n post h2.symm
    | cons x c'' =>
      simp at h2
      obtain ⟨rfl, rfl⟩ := h2
      exact List.mem_append_left _ (ha _ _ _ rfl)

theorem OpensClosed_closed (n : Bytes) : OpensClosed [Event.closed n] := by
  intro pre m post h
  cases pre with
  | nil => simp at h
  | cons x pre' => cases pre' <;> simp at h

theorem OpensClosed_bracket {w : List Event} (n : Bytes) (hw : OpensClosed w) (hc : Event.closed n ∈ w) :
    OpensClosed (Event.opened n :: w) := by
  intro pre m post h
  cases pre with
  | nil => simp at h; obtain ⟨rfl, rfl⟩ := h; exact hc
  | cons x pre' =>
    simp at h
    exact hw _ _ _ h.2

/-- the part of the log a run adds is balanced -/
def AddsBalanced (st : St) (r : Result) : Prop := ∃ w, r.2.log = st.log ++ w ∧ OpensClosed w

theorem AddsBalanced_refl (st : St) (e : Option Failure) : AddsBalanced st (e, st) :=
  ⟨[], by simp, OpensClosed_nil⟩

theorem parseLines_log (cfg : Cfg) (ign : Bool) (h : IncludeHandler) (file : Bytes) (tooLong : Bool)
    (hh : ∀ n f l st, AddsBalanced st (h n f l st))
    (lines : List Bytes) (lineNo : Nat) (vb : Option Bytes) (st : St) :
    AddsBalanced st (parseLines cfg ign h file tooLong lines lineNo vb st) := by
  induction lines generalizing lineNo vb st with
  | nil =>
    simp only [parseLines]
    split
    · exact AddsBalanced_refl ..
    · split <;> exact AddsBalanced_refl ..
  | cons raw ls ih =>
    simp only [parseLines]
    rcases stepLine_cases cfg ign h file lineNo vb st raw with
      ⟨vb', st', hs, hl⟩ | ⟨c, hs⟩ | ⟨n, _, _, hs⟩
    · rw [hs]
      obtain ⟨w, hw, hoc⟩ := ih (lineNo + 1) vb' st'
      exact ⟨w, by rw [hw, hl], hoc⟩
    · rw [hs]; exact AddsBalanced_refl ..
    · rw [hs]
      obtain ⟨w1, hw1, hoc1⟩ := hh n file lineNo st
      rcases hr : h n file lineNo st with ⟨_ | e, st1⟩
      · simp only [Step.ofResult]
        rw [hr] at hw1
        obtain ⟨w2, hw2, hoc2⟩ := ih (lineNo + 1) none st1
        exact ⟨w1 ++ w2, by rw [hw2, hw1, List.append_assoc], OpensClosed_append hoc1 hoc2⟩
      · simp only [Step.ofResult]
        rw [hr] at hw1
        exact ⟨w1, hw1, hoc1⟩

/-- where a failure of the line loop comes from -/
theorem parseLines_fail (cfg : Cfg) (ign : Bool) (h : IncludeHandler) (file : Bytes) (tooLong : Bool)
    (lines : List Bytes) (lineNo : Nat) (vb : Option Bytes) (st : St) (e : Failure) (st' : St)
    (hl : 1 ≤ lineNo) (hvb : vb ≠ none → 2 ≤ lineNo)
    (hr : parseLines cfg ign h file tooLong lines lineNo vb st = (some e, st')) :
    e = .scanner ∨
    (∃ c l, e = .decl c file l ∧ 1 ≤ l ∧ l + 1 ≤ lineNo + lines.length) ∨
    (∃ raw n l st0 st1, raw ∈ lines ∧ Lex.fields (Lex.stripComment raw) = [kwINCLUDE, n] ∧
      1 ≤ l ∧ l + 1 ≤ lineNo + lines.length ∧ h n file l st0 = (some e, st1)) := by
  induction lines generalizing lineNo vb st with
  | nil =>
    simp only [parseLines] at hr
    split at hr
    · left; simp at hr; exact hr.1.symm
    · split at hr
      · right; left
        rename_i v
        have := hvb (by simp)
        simp at hr
        exact ⟨_, _, hr.1.symm, by omega, by simp; omega⟩
      · simp at hr
  | cons raw ls ih =>
    simp only [parseLines] at hr
    rcases stepLine_cases cfg ign h file lineNo vb st raw with
      ⟨vb', st1, hs, _⟩ | ⟨c, hs⟩ | ⟨n, hf, _, hs⟩
    · rw [hs] at hr
      rcases ih (lineNo + 1) vb' st1 (by omega) (fun _ => by omega) hr with
        h1 | ⟨c, l, h1, h2, h3⟩ | ⟨raw', n, l, st0, st1, h1, h2, h3, h4, h5⟩
      · exact Or.inl h1
      · exact Or.inr (Or.inl ⟨c, l, h1, h2, by simp; omega⟩)
      · exact Or.inr (Or.inr ⟨raw', n, l, st0, st1, List.mem_cons_of_mem _ h1, h2, h3, by simp; omega, h5⟩)
    · rw [hs] at hr
      simp at hr
      exact Or.inr (Or.inl ⟨c, lineNo, hr.1.symm, hl, by simp⟩)
    · rw [hs] at hr
      rcases hres : h n file lineNo st with ⟨_ | e1, st1⟩
      · rw [hres] at hr
        simp only [Step.ofResult] at hr
        rcases ih (lineNo + 1) none st1 (by omega) (fun _ => by omega) hr with
          h1 | ⟨c, l, h1, h2, h3⟩ | ⟨raw', n, l, st0, st1, h1, h2, h3, h4, h5⟩
        · exact Or.inl h1
        · exact Or.inr (Or.inl ⟨c, l, h1, h2, by simp; omega⟩)
        · exact Or.inr (Or.inr ⟨raw', n, l, st0, st1, List.mem_cons_of_mem _ h1, h2, h3, by simp; omega, h5⟩)
      · rw [hres] at hr
        simp only [Step.ofResult] at hr
        simp at hr
        obtain ⟨rfl, rfl⟩ := hr
        exact Or.inr (Or.inr ⟨raw, n, lineNo, st, st1, List.mem_cons_self, hf, hl, by simp, hres⟩)

/-- a successful line loop ran every `$INCLUDE` line successfully -/
theorem parseLines_ok (cfg : Cfg) (ign : Bool) (h : IncludeHandler) (file : Bytes) (tooLong : Bool)
    (lines : List Bytes) (lineNo : Nat) (vb : Option Bytes) (st : St) (st' : St)
    (hr : parseLines cfg ign h file tooLong lines lineNo vb st = (none, st'))
    (raw n : Bytes) (hm : raw ∈ lines) (hf : Lex.fields (Lex.stripComment raw) = [kwINCLUDE, n]) :
    ∃ l st0 st1, h n file l st0 = (none, st1) := by
  induction lines generalizing lineNo vb st with
  | nil => simp at hm
  | cons raw' ls ih =>
    simp only [parseLines] at hr
    rcases List.mem_cons.mp hm with rfl | hm'
    · rw [stepLine_include cfg ign h file lineNo vb st raw n hf] at hr
      by_cases hv : vb.isSome = true
      · simp [hv] at hr
      · rcases hres : h n file lineNo st with ⟨_ | e1, st1⟩
        · exact ⟨_, _, _, hres⟩
        · simp [hv, hres, Step.ofResult] at hr
    · cases hs : stepLine cfg ign h file lineNo vb st raw' with
      | next vb' st1 => rw [hs] at hr; exact ih _ _ _ hr hm'
      | fail e st1 => rw [hs] at hr; simp at hr

/-! ## `parseBody` -/

theorem mem_includesOf {text n : Bytes} :
    n ∈ includesOf text ↔
      ∃ raw, raw ∈ (Lex.lines text).1 ∧ Lex.fields (Lex.stripComment raw) = [kwINCLUDE, n] := by
  unfold includesOf
  rw [List.mem_filterMap]
  constructor
  · rintro ⟨raw, hm, hh⟩
    refine ⟨raw, hm, ?_⟩
    split at hh
    · rename_i k n' heq
      split at hh
      · rename_i hk
        simp at hh hk
        rw [heq, hk, hh]
      · simp at hh
    · simp at hh
  · rintro ⟨raw, hm, hf⟩
    exact ⟨raw, hm, by rw [hf]; simp⟩

theorem parseBody_log (cfg : Cfg) (ign : Bool) (h : IncludeHandler) (file text : Bytes) (st : St)
    (hh : ∀ n f l st, AddsBalanced st (h n f l st)) :
    AddsBalanced st (parseBody cfg ign h file text st) :=
  parseLines_log cfg ign h file _ hh _ _ _ _

theorem parseBody_fail (cfg : Cfg) (ign : Bool) (h : IncludeHandler) (file text : Bytes) (st : St)
    (e : Failure) (st' : St) (hr : parseBody cfg ign h file text st = (some e, st')) :
    e = .scanner ∨
    (∃ c l, e = .decl c file l ∧ 1 ≤ l ∧ l ≤ (Lex.lines text).1.length) ∨
    (∃ n l st0 st1, n ∈ includesOf text ∧ 1 ≤ l ∧ l ≤ (Lex.lines text).1.length ∧
      h n file l st0 = (some e, st1)) := by
  rcases parseLines_fail cfg ign h file _ _ 1 none st e st' (Nat.le_refl _) (fun hne => absurd rfl hne) hr with
    h1 | ⟨c, l, h1, h2, h3⟩ | ⟨raw, n, l, st0, st1, h1, h2, h3, h4, h5⟩
  · exact Or.inl h1
  · exact Or.inr (Or.inl ⟨c, l, h1, h2, by omega⟩)
  · exact Or.inr (Or.inr ⟨n, l, st0, st1, mem_includesOf.mpr ⟨raw, h1, h2⟩, h3, by omega, h5⟩)

theorem parseBody_ok (cfg : Cfg) (ign : Bool) (h : IncludeHandler) (file text : Bytes) (st : St)
    (st' : St) (hr : parseBody cfg ign h file text st = (none, st')) (n : Bytes) (hn : n ∈ includesOf text) :
    ∃ l st0 st1, h n file l st0 = (none, st1) := by
  obtain ⟨raw, hm, hf⟩ := mem_includesOf.mp hn
  exact parseLines_ok cfg ign h file _ _ 1 none st st' hr raw n hm hf

/-! ## The `$INCLUDE` closure -/

theorem opt_cases {α : Type} (o : Option α) : o = none ∨ ∃ x, o = some x := by
  cases o with
  | none => exact Or.inl rfl
  | some x => exact Or.inr ⟨x, rfl⟩

theorem bool_cases (b : Bool) : b = true ∨ b = false := by cases b <;> simp

section includeWith
variable (fs : FS) (onPath : Bytes → Bool)
  (recur : (name t : Bytes) → fs.lookup name = some t → onPath name = false → St → Result)

theorem includeWith_none (name file : Bytes) (lineNo : Nat) (st : St) (h : fs.lookup name = none) :
    includeWith fs onPath recur name file lineNo st = (some (.openErr file lineNo name), st) := by
  unfold includeWith
  split
  · rfl
  · rename_i t ht; rw [h] at ht; cases ht

theorem includeWith_onPath (name t file : Bytes) (lineNo : Nat) (st : St)
    (h : fs.lookup name = some t) (hp : onPath name = true) :
    includeWith fs onPath recur name file lineNo st
      = (some (.recursive file lineNo name), (st.opened name).closed name) := by
  unfold includeWith
  split
  · rename_i ht; rw [h] at ht; cases ht
  · simp [hp]

theorem includeWith_rec (name t file : Bytes) (lineNo : Nat) (st : St)
    (h : fs.lookup name = some t) (hp : onPath name = false) :
    includeWith fs onPath recur name file lineNo st
      = afterInclude name (recur name t h hp (st.opened name)) := by
  unfold includeWith
  split
  · rename_i ht; rw [h] at ht; cases ht
  · rename_i t' ht
    have : t' = t := by rw [h] at ht; cases ht; rfl
    subst this
    simp [hp]

theorem afterInclude_fst (name : Bytes) (r : Result) : (afterInclude name r).1 = r.1 := by
  rcases r with ⟨_ | e, st⟩ <;> rfl

theorem includeWith_fail_inv (name file : Bytes) (lineNo : Nat) (st : St) (e : Failure) (st1 : St)
    (hr : includeWith fs onPath recur name file lineNo st = (some e, st1)) :
    e = .openErr file lineNo name ∨
    (e = .recursive file lineNo name ∧ onPath name = true ∧ ∃ t, fs.lookup name = some t) ∨
    (∃ t hl hp st2, recur name t hl hp (st.opened name) = (some e, st2)) := by
  rcases opt_cases (fs.lookup name) with hl | ⟨t, hl⟩
  · rw [includeWith_none fs onPath recur name file lineNo st hl] at hr
    simp at hr; exact Or.inl hr.1.symm
  · rcases bool_cases (onPath name) with hp | hp
    ·
      rw [includeWith_onPath fs onPath recur name t file lineNo st hl hp] at hr
      simp at hr; exact Or.inr (Or.inl ⟨hr.1.symm, hp, t, hl⟩)
    ·
      rw [includeWith_rec fs onPath recur name t file lineNo st hl hp] at hr
      right; right
      refine ⟨t, hl, hp, ?_⟩
      rcases hres : recur name t hl hp (st.opened name) with ⟨_ | e2, st2⟩
      · rw [hres] at hr; simp [afterInclude] at hr
      · rw [hres] at hr; simp [afterInclude] at hr
        exact ⟨st2, by rw [hr.1]⟩

theorem includeWith_ok_inv (name file : Bytes) (lineNo : Nat) (st : St) (st1 : St)
    (hr : includeWith fs onPath recur name file lineNo st = (none, st1)) :
    ∃ t hl hp st2, recur name t hl hp (st.opened name) = (none, st2) := by
  rcases opt_cases (fs.lookup name) with hl | ⟨t, hl⟩
  · rw [includeWith_none fs onPath recur name file lineNo st hl] at hr
    simp at hr
  · rcases bool_cases (onPath name) with hp | hp
    ·
      rw [includeWith_onPath fs onPath recur name t file lineNo st hl hp] at hr
      simp at hr
    ·
      rw [includeWith_rec fs onPath recur name t file lineNo st hl hp] at hr
      refine ⟨t, hl, hp, ?_⟩
      rcases hres : recur name t hl hp (st.opened name) with ⟨_ | e2, st2⟩
      · exact ⟨st2, rfl⟩
      · rw [hres] at hr; simp [afterInclude] at hr

theorem includeWith_log
    (hrec : ∀ name t hl hp st, AddsBalanced st (recur name t hl hp st))
    (name file : Bytes) (lineNo : Nat) (st : St) :
    AddsBalanced st (includeWith fs onPath recur name file lineNo st) := by
  cases hl : fs.lookup name with
  | none =>
    rw [includeWith_none fs onPath recur name file lineNo st hl]
    exact AddsBalanced_refl ..
  | some t =>
    cases hp : onPath name with
    | true =>
      rw [includeWith_onPath fs onPath recur name t file lineNo st hl hp]
      refine ⟨[.opened name, .closed name], by simp [St.opened, St.closed], ?_⟩
      exact OpensClosed_bracket name (OpensClosed_closed name) (by simp)
    | false =>
      rw [includeWith_rec fs onPath recur name t file lineNo st hl hp]
      obtain ⟨w, hw, hoc⟩ := hrec name t hl hp (st.opened name)
      rcases hres : recur name t hl hp (st.opened name) with ⟨_ | e2, st2⟩
      · rw [hres] at hw
        simp only [St.opened] at hw
        refine ⟨.opened name :: (w ++ ([.closed name] ++ [.closed name])), by simp [afterInclude, St.closed, hw], ?_⟩
        exact OpensClosed_bracket name
          (OpensClosed_append hoc (OpensClosed_append (OpensClosed_closed name) (OpensClosed_closed name)))
          (by simp)
      · rw [hres] at hw
        simp only [St.opened] at hw
        refine ⟨.opened name :: (w ++ [.closed name]), by simp [afterInclude, St.closed, hw], ?_⟩
        exact OpensClosed_bracket name (OpensClosed_append hoc (OpensClosed_closed name)) (by simp)

end includeWith

/-! ## A file body whose handler is the `$INCLUDE` closure -/

/-- every failure of `parseBody … (includeWith …)` is a scanner error, a declaration error at a line
    of this file, an open error or a recursive-include error at a `$INCLUDE` line of this file, or
    the failure of a nested parse of an included file -/
theorem body_fail_pred (cfg : Cfg) (ign : Bool) (fs : FS) (onPath : Bytes → Bool)
    (recur : (name t : Bytes) → fs.lookup name = some t → onPath name = false → St → Result)
    (file text : Bytes) (Q : Failure → Prop)
    (hscan : Q .scanner)
    (hdecl : ∀ c l, 1 ≤ l → l ≤ (Lex.lines text).1.length → Q (.decl c file l))
    (hopen : ∀ l n, 1 ≤ l → l ≤ (Lex.lines text).1.length → Q (.openErr file l n))
    (hrecu : ∀ l n t, 1 ≤ l → l ≤ (Lex.lines text).1.length → n ∈ includesOf text → onPath n = true →
      fs.lookup n = some t → Q (.recursive file l n))
    (hrec : ∀ n t hl hp st e st', n ∈ includesOf text → recur n t hl hp st = (some e, st') → Q e)
    (st : St) (e : Failure) (st' : St)
    (hr : parseBody cfg ign (includeWith fs onPath recur) file text st = (some e, st')) : Q e := by
  rcases parseBody_fail cfg ign _ file text st e st' hr with
    rfl | ⟨c, l, rfl, h2, h3⟩ | ⟨n, l, st0, st1, h1, h2, h3, h4⟩
  · exact hscan
  · exact hdecl c l h2 h3
  · rcases includeWith_fail_inv fs onPath recur n file l st0 e st1 h4 with
      rfl | ⟨rfl, hp, t, hl⟩ | ⟨t, hl, hp, st2, h5⟩
    · exact hopen l n h2 h3
    · exact hrecu l n t h2 h3 h1 hp hl
    · exact hrec n t hl hp _ e st2 h1 h5

/-- induction principle for the failures of the repaired rule -/
theorem parseFileFix_fail_ind (cfg : Cfg) (ign : Bool) (fs : FS)
    (Inv : List Bytes → Bytes → Bytes → Prop) (Q : Failure → Prop)
    (hstep : ∀ path file text n t, Inv path file text → n ∈ includesOf text → fs.lookup n = some t →
      path.contains n = false → Inv (n :: path) n t)
    (hscan : Q .scanner)
    (hdecl : ∀ path file text c l, Inv path file text → 1 ≤ l → l ≤ (Lex.lines text).1.length →
      Q (.decl c file l))
    (hopen : ∀ path file text l n, Inv path file text → 1 ≤ l → l ≤ (Lex.lines text).1.length →
      Q (.openErr file l n))
    (hrecu : ∀ path file text l n t, Inv path file text → 1 ≤ l → l ≤ (Lex.lines text).1.length →
      n ∈ includesOf text → path.contains n = true → fs.lookup n = some t → Q (.recursive file l n))
    (path : List Bytes) (file text : Bytes) (st : St) (e : Failure) (st' : St)
    (hinv : Inv path file text)
    (hr : parseFileFix cfg ign fs path file text st = (some e, st')) : Q e := by
  induction hm : unvisited fs path using Nat.strongRecOn generalizing path file text st e st' with
  | _ m ih =>
    rw [parseFileFix] at hr
    refine body_fail_pred cfg ign fs _ _ file text Q hscan
      (fun c l => hdecl path file text c l hinv) (fun l n => hopen path file text l n hinv)
      (fun l n t => hrecu path file text l n t hinv) ?_ st e st' hr
    intro n t hl hp st0 e0 st0' hn hrn
    have hlt : unvisited fs (n :: path) < m := by
      rw [← hm]; exact unvisited_lt fs path n t hl (by simpa using hp)
    exact ih _ hlt (n :: path) n t st0 e0 st0' (hstep path file text n t hinv hn hl hp) hrn rfl

/-! ## Logs -/

theorem parseFileFix_log (cfg : Cfg) (ign : Bool) (fs : FS) (path : List Bytes) (file text : Bytes) (st : St) :
    AddsBalanced st (parseFileFix cfg ign fs path file text st) := by
  induction hm : unvisited fs path using Nat.strongRecOn generalizing path file text st with
  | _ m ih =>
    rw [parseFileFix]
    apply parseBody_log
    apply includeWith_log
    intro n t hl hp st0
    have hlt : unvisited fs (n :: path) < m := by
      rw [← hm]; exact unvisited_lt fs path n t hl (by simpa using hp)
    exact ih _ hlt (n :: path) n t st0 rfl

theorem parseFileCur_log (cfg : Cfg) (ign : Bool) (fs : FS) (root : Bytes) (fuel : Nat) (file text : Bytes)
    (st : St) : AddsBalanced st (parseFileCur cfg ign fs root fuel file text st) := by
  induction fuel generalizing file text st with
  | zero => exact AddsBalanced_refl ..
  | succ fuel ih =>
    rw [parseFileCur]
    apply parseBody_log
    apply includeWith_log
    intro n t hl hp st0
    exact ih n t st0

theorem parseRoot_log (cfg : Cfg) (ign : Bool) (fs : FS) (root text : Bytes) (st : St) :
    AddsBalanced st (parseRoot cfg ign fs root text st) := by
  unfold parseRoot
  split
  · exact parseFileFix_log ..
  · exact parseFileCur_log ..

theorem parseFile_opensClosed (cfg : Cfg) (ign : Bool) (fs : FS) (root : Bytes) :
    OpensClosed (parseFile cfg ign fs root).2.log := by
  unfold parseFile
  split
  · exact OpensClosed_nil
  · rename_i text _
    obtain ⟨w, hw, hoc⟩ := parseRoot_log cfg ign fs root text (St.opened {} root)
    show OpensClosed ((parseRoot cfg ign fs root text (St.opened {} root)).2.log ++ [Event.closed root])
    rw [hw]
    have : (St.opened {} root).log ++ w ++ [Event.closed root]
        = Event.opened root :: (w ++ [Event.closed root]) := by simp [St.opened]
    rw [this]
    exact OpensClosed_bracket root (OpensClosed_append hoc (OpensClosed_closed root)) (by simp)

theorem parseFileCur_opensClosed (cfg : Cfg) (ign : Bool) (fs : FS) (root file text : Bytes) (fuel : Nat) :
    OpensClosed (parseFileCur cfg ign fs root fuel file text {}).2.log := by
  obtain ⟨w, hw, hoc⟩ := parseFileCur_log cfg ign fs root fuel file text {}
  rw [hw]
  exact OpensClosed_append OpensClosed_nil hoc

/-! ## `parseFile` with and without fix #10 -/

theorem parseFile_fix_eq (cfg : Cfg) (ign : Bool) (fs : FS) (root text : Bytes)
    (h : cfg.includePath = true) (hl : fs.lookup root = some text) :
    (parseFile cfg ign fs root).1 = (parseFileFix cfg ign fs [root] root text (St.opened {} root)).1 := by
  simp [parseFile, hl, parseRoot, h]

theorem parseFile_cur_eq (cfg : Cfg) (ign : Bool) (fs : FS) (root text : Bytes)
    (h : cfg.includePath = false) (hl : fs.lookup root = some text) :
    (parseFile cfg ign fs root).1 = (parseFileCur cfg ign fs root depthCap root text (St.opened {} root)).1 := by
  simp [parseFile, hl, parseRoot, h]

theorem parseFile_none (cfg : Cfg) (ign : Bool) (fs : FS) (root : Bytes) (hl : fs.lookup root = none) :
    (parseFile cfg ign fs root).1 = some .rootOpen := by
  simp [parseFile, hl]

/-! ## Failures: never out of fuel (repaired), file and line -/

theorem parseFile_fix_ne_outOfFuel (cfg : Cfg) (ign : Bool) (fs : FS) (root : Bytes)
    (h : cfg.includePath = true) : (parseFile cfg ign fs root).1 ≠ some .outOfFuel := by
  rcases opt_cases (fs.lookup root) with hl | ⟨text, hl⟩
  · rw [parseFile_none cfg ign fs root hl]; simp
  · rw [parseFile_fix_eq cfg ign fs root text h hl]
    intro he
    rcases hres : parseFileFix cfg ign fs [root] root text (St.opened {} root) with ⟨e, st'⟩
    rw [hres] at he
    simp at he
    subst he
    exact parseFileFix_fail_ind cfg ign fs (fun _ _ _ => True) (fun e => e ≠ .outOfFuel)
      (fun _ _ _ _ _ _ _ _ _ => trivial) (by simp) (by simp) (by simp) (by simp)
      [root] root text _ _ st' trivial hres rfl

/-- a ParseError names a file of the file system and a line of it, counted from 1 -/
def Failure.lineOK (fs : FS) : Failure → Prop
  | .decl _ f l | .openErr f l _ | .recursive f l _ =>
      ∃ t, fs.lookup f = some t ∧ 1 ≤ l ∧ l ≤ (Lex.lines t).1.length
  | _ => True

theorem parseFileFix_lineOK (cfg : Cfg) (ign : Bool) (fs : FS) (path : List Bytes) (file text : Bytes)
    (st : St) (e : Failure) (st' : St) (hl : fs.lookup file = some text)
    (hr : parseFileFix cfg ign fs path file text st = (some e, st')) : e.lineOK fs :=
  parseFileFix_fail_ind cfg ign fs (fun _ file text => fs.lookup file = some text) (Failure.lineOK fs)
    (fun _ _ _ _ _ _ _ h _ => h) trivial
    (fun _ _ text _ _ h h1 h2 => ⟨text, h, h1, h2⟩)
    (fun _ _ text _ _ h h1 h2 => ⟨text, h, h1, h2⟩)
    (fun _ _ text _ _ _ h h1 h2 _ _ _ => ⟨text, h, h1, h2⟩)
    path file text st e st' hl hr

theorem parseFileCur_lineOK (cfg : Cfg) (ign : Bool) (fs : FS) (root : Bytes) (fuel : Nat) (file text : Bytes)
    (st : St) (e : Failure) (st' : St) (hl : fs.lookup file = some text)
    (hr : parseFileCur cfg ign fs root fuel file text st = (some e, st')) : e.lineOK fs := by
  induction fuel generalizing file text st e st' with
  | zero =>
    simp [parseFileCur] at hr
    rw [← hr.1]; trivial
  | succ fuel ih =>
    rw [parseFileCur] at hr
    exact body_fail_pred cfg ign fs _ _ file text (Failure.lineOK fs) trivial
      (fun _ l h1 h2 => ⟨text, hl, h1, h2⟩) (fun l _ h1 h2 => ⟨text, hl, h1, h2⟩)
      (fun l _ _ h1 h2 _ _ _ => ⟨text, hl, h1, h2⟩)
      (fun n t hln _ st0 e0 st0' _ hrn => ih n t st0 e0 st0' hln hrn) st e st' hr

theorem parseFile_lineOK (cfg : Cfg) (ign : Bool) (fs : FS) (root : Bytes) (e : Failure)
    (he : (parseFile cfg ign fs root).1 = some e) : e.lineOK fs := by
  rcases opt_cases (fs.lookup root) with hl | ⟨text, hl⟩
  · rw [parseFile_none cfg ign fs root hl] at he
    simp at he; subst he; trivial
  · rcases bool_cases cfg.includePath with h | h
    · rw [parseFile_fix_eq cfg ign fs root text h hl] at he
      rcases hres : parseFileFix cfg ign fs [root] root text (St.opened {} root) with ⟨e', st'⟩
      rw [hres] at he; simp at he; subst he
      exact parseFileFix_lineOK cfg ign fs _ _ _ _ _ _ hl hres
    · rw [parseFile_cur_eq cfg ign fs root text h hl] at he
      rcases hres : parseFileCur cfg ign fs root depthCap root text (St.opened {} root) with ⟨e', st'⟩
      rw [hres] at he; simp at he; subst he
      exact parseFileCur_lineOK cfg ign fs _ _ _ _ _ _ _ hl hres

theorem parseFile_error_line (cfg : Cfg) (ign : Bool) (fs : FS) (root : Bytes) (e : Failure)
    (he : (parseFile cfg ign fs root).1 = some e) :
    match e with
    | .decl _ f l | .openErr f l _ | .recursive f l _ =>
        ∃ t, fs.lookup f = some t ∧ 1 ≤ l ∧ l ≤ (Lex.lines t).1.length
    | _ => True := by
  have := parseFile_lineOK cfg ign fs root e he
  cases e <;> first | trivial | exact this

/-! ## The include graph -/

theorem Reaches.snoc {fs : FS} {a b c : Bytes} (h : Reaches fs a b) (hi : Includes fs b c) : Reaches fs a c := by
  induction h with
  | step h1 => exact .trans h1 (.step hi)
  | trans h1 _ ih => exact .trans h1 (ih hi)

/-- a successful parse of a file ran each of its `$INCLUDE`s: the included file exists, is not on
    the path, and its own parse (path extended) succeeded -/
theorem parseFileFix_ok_step (cfg : Cfg) (ign : Bool) (fs : FS) (path : List Bytes) (file text : Bytes)
    (st st' : St) (hr : parseFileFix cfg ign fs path file text st = (none, st'))
    (n : Bytes) (hn : n ∈ includesOf text) :
    ∃ t, fs.lookup n = some t ∧ path.contains n = false ∧
      ∃ st0 st1, parseFileFix cfg ign fs (n :: path) n t st0 = (none, st1) := by
  rw [parseFileFix] at hr
  obtain ⟨l, st0, st1, h1⟩ := parseBody_ok cfg ign _ file text st st' hr n hn
  obtain ⟨t, hl, hp, st2, h2⟩ := includeWith_ok_inv fs _ _ n file l st0 st1 h1
  exact ⟨t, hl, hp, _, st2, h2⟩

/-- after a successful parse nothing reachable from the file is on its path -/
theorem parseFileFix_ok_not_on_path (cfg : Cfg) (ign : Bool) (fs : FS) {file g : Bytes}
    (hreach : Reaches fs file g) :
    ∀ (path : List Bytes) (text : Bytes) (st st' : St), fs.lookup file = some text →
      parseFileFix cfg ign fs path file text st = (none, st') → ¬ g ∈ path := by
  induction hreach with
  | @step a b hi =>
    intro path text st st' hl hr
    obtain ⟨t, hla, hb⟩ := hi
    rw [hl] at hla; cases hla
    obtain ⟨_, _, hp, _⟩ := parseFileFix_ok_step cfg ign fs path a text st st' hr b hb
    simpa using hp
  | @trans a b c hi _ ih =>
    intro path text st st' hl hr
    obtain ⟨t, hla, hb⟩ := hi
    rw [hl] at hla; cases hla
    obtain ⟨tb, hlb, _, st0, st1, hrb⟩ := parseFileFix_ok_step cfg ign fs path a text st st' hr b hb
    have := ih (b :: path) tb st0 st1 hlb hrb
    intro hc
    exact this (List.mem_cons_of_mem _ hc)

/-- after a successful parse every reachable file was itself parsed successfully, on some path
    that contains it -/
theorem parseFileFix_ok_reach (cfg : Cfg) (ign : Bool) (fs : FS) {file g : Bytes}
    (hreach : Reaches fs file g) :
    ∀ (path : List Bytes) (text : Bytes) (st st' : St), fs.lookup file = some text →
      parseFileFix cfg ign fs path file text st = (none, st') →
      ∃ path' text' st0 st1, g ∈ path' ∧ fs.lookup g = some text' ∧
        parseFileFix cfg ign fs path' g text' st0 = (none, st1) := by
  induction hreach with
  | @step a b hi =>
    intro path text st st' hl hr
    obtain ⟨t, hla, hb⟩ := hi
    rw [hl] at hla; cases hla
    obtain ⟨tb, hlb, _, st0, st1, hrb⟩ := parseFileFix_ok_step cfg ign fs path a text st st' hr b hb
    exact ⟨b :: path, tb, st0, st1, List.mem_cons_self, hlb, hrb⟩
  | @trans a b c hi _ ih =>
    intro path text st st' hl hr
    obtain ⟨t, hla, hb⟩ := hi
    rw [hl] at hla; cases hla
    obtain ⟨tb, hlb, _, st0, st1, hrb⟩ := parseFileFix_ok_step cfg ign fs path a text st st' hr b hb
    exact ih (b :: path) tb st0 st1 hlb hrb

theorem parseFile_ok_acyclic (cfg : Cfg) (ign : Bool) (fs : FS) (root : Bytes) (h : cfg.includePath = true)
    (hok : (parseFile cfg ign fs root).1 = none) : ¬ HasCycle fs root := by
  rcases opt_cases (fs.lookup root) with hl | ⟨text, hl⟩
  · rw [parseFile_none cfg ign fs root hl] at hok; simp at hok
  · rw [parseFile_fix_eq cfg ign fs root text h hl] at hok
    rcases hres : parseFileFix cfg ign fs [root] root text (St.opened {} root) with ⟨e', st'⟩
    rw [hres] at hok; simp at hok; subst hok
    rintro ⟨f, hf, hcyc⟩
    have : ∃ path' text' st0 st1, f ∈ path' ∧ fs.lookup f = some text' ∧
        parseFileFix cfg ign fs path' f text' st0 = (none, st1) := by
      rcases hf with rfl | hf
      · exact ⟨[f], text, _, _, List.mem_cons_self, hl, hres⟩
      · exact parseFileFix_ok_reach cfg ign fs hf _ _ _ _ hl hres
    obtain ⟨path', text', st0, st1, hmem, hl', hr'⟩ := this
    exact parseFileFix_ok_not_on_path cfg ign fs hcyc path' text' st0 st1 hl' hr' hmem

/-- (repaired) a reported RecursiveInclude is a real cycle -/
theorem parseFileFix_recursive_real (cfg : Cfg) (ign : Bool) (fs : FS) (root : Bytes)
    (path : List Bytes) (file text : Bytes) (st : St) (e : Failure) (st' : St)
    (hl : fs.lookup file = some text)
    (hpath : ∀ p, p ∈ path → p = file ∨ Reaches fs p file)
    (hroot : file = root ∨ Reaches fs root file)
    (hr : parseFileFix cfg ign fs path file text st = (some e, st')) :
    ∀ f l n, e = .recursive f l n →
      Includes fs f n ∧ (n = f ∨ Reaches fs n f) ∧ (f = root ∨ Reaches fs root f) := by
  refine parseFileFix_fail_ind cfg ign fs
    (fun path file text => fs.lookup file = some text ∧ (∀ p, p ∈ path → p = file ∨ Reaches fs p file) ∧
      (file = root ∨ Reaches fs root file))
    (fun e => ∀ f l n, e = .recursive f l n →
      Includes fs f n ∧ (n = f ∨ Reaches fs n f) ∧ (f = root ∨ Reaches fs root f))
    ?_ ?_ ?_ ?_ ?_ path file text st e st' ⟨hl, hpath, hroot⟩ hr
  · rintro path file text n t ⟨hl, hpath, hroot⟩ hn hln _
    have hi : Includes fs file n := ⟨text, hl, hn⟩
    refine ⟨hln, ?_, ?_⟩
    · intro p hp
      rcases List.mem_cons.mp hp with rfl | hp
      · exact Or.inl rfl
      · rcases hpath p hp with rfl | hreach
        · exact Or.inr (.step hi)
        · exact Or.inr (hreach.snoc hi)
    · rcases hroot with rfl | hreach
      · exact Or.inr (.step hi)
      · exact Or.inr (hreach.snoc hi)
  · intro f l n he; cases he
  · intro _ _ _ _ _ _ _ _ f l n he; cases he
  · intro _ _ _ _ _ _ _ _ f l n he; cases he
  · rintro path file text l n t ⟨hl, hpath, hroot⟩ _ _ hn hp _ f l' n' he
    cases he
    refine ⟨⟨text, hl, hn⟩, ?_, hroot⟩
    exact hpath n (by simpa using hp)

theorem parseFile_recursive_real (cfg : Cfg) (ign : Bool) (fs : FS) (root f n : Bytes) (l : Nat)
    (h : cfg.includePath = true) (hr : (parseFile cfg ign fs root).1 = some (.recursive f l n)) :
    Includes fs f n ∧ (n = f ∨ Reaches fs n f) ∧ (f = root ∨ Reaches fs root f) := by
  rcases opt_cases (fs.lookup root) with hl | ⟨text, hl⟩
  · rw [parseFile_none cfg ign fs root hl] at hr; simp at hr
  · rw [parseFile_fix_eq cfg ign fs root text h hl] at hr
    rcases hres : parseFileFix cfg ign fs [root] root text (St.opened {} root) with ⟨e', st'⟩
    rw [hres] at hr; simp at hr; subst hr
    exact parseFileFix_recursive_real cfg ign fs root [root] root text _ _ st' hl
      (fun p hp => Or.inl (by simpa using hp)) (Or.inl rfl) hres f l n rfl

theorem parseFile_acyclic_not_recursive (cfg : Cfg) (ign : Bool) (fs : FS) (root : Bytes)
    (h : cfg.includePath = true) (hac : ¬ HasCycle fs root) (f n : Bytes) (l : Nat) :
    (parseFile cfg ign fs root).1 ≠ some (.recursive f l n) := by
  intro hr
  obtain ⟨hi, hback, hroot⟩ := parseFile_recursive_real cfg ign fs root f n l h hr
  apply hac
  refine ⟨f, hroot, ?_⟩
  rcases hback with rfl | hreach
  · exact .step hi
  · exact .trans hi hreach

/-! ## Concrete file systems -/

theorem parseLines_cons_ok (cfg : Cfg) (ign : Bool) (h : IncludeHandler) (file : Bytes) (tooLong : Bool)
    (raw n : Bytes) (ls : List Bytes) (lineNo : Nat) (st st1 : St)
    (hf : Lex.fields (Lex.stripComment raw) = [kwINCLUDE, n]) (hh : h n file lineNo st = (none, st1)) :
    parseLines cfg ign h file tooLong (raw :: ls) lineNo none st
      = parseLines cfg ign h file tooLong ls (lineNo + 1) none st1 := by
  simp [parseLines, stepLine_include cfg ign h file lineNo none st raw n hf, hh, Step.ofResult]

/-- a file that consists of one `$INCLUDE n` line fails exactly as the handler does -/
theorem parseBody_one_include (cfg : Cfg) (ign : Bool) (h : IncludeHandler) (file text raw n : Bytes) (st : St)
    (hlines : Lex.lines text = ([raw], false))
    (hf : Lex.fields (Lex.stripComment raw) = [kwINCLUDE, n]) :
    (parseBody cfg ign h file text st).1 = (h n file 1 st).1 := by
  unfold parseBody
  rw [hlines]
  simp only [parseLines, stepLine_include cfg ign h file 1 none st raw n hf]
  rcases h n file 1 st with ⟨_ | e, st1⟩ <;> simp [Step.ofResult]

/-- a file that consists of `$INCLUDE` lines only, each of which succeeds, succeeds -/
theorem parseLines_all_ok (cfg : Cfg) (ign : Bool) (h : IncludeHandler) (file : Bytes)
    (lines : List Bytes)
    (hall : ∀ raw, raw ∈ lines → ∃ n, Lex.fields (Lex.stripComment raw) = [kwINCLUDE, n] ∧
      ∀ l st, ∃ st', h n file l st = (none, st'))
    (lineNo : Nat) (st : St) :
    ∃ st', parseLines cfg ign h file false lines lineNo none st = (none, st') := by
  induction lines generalizing lineNo st with
  | nil => exact ⟨st, by simp [parseLines]⟩
  | cons raw ls ih =>
    obtain ⟨n, hf, hh⟩ := hall raw List.mem_cons_self
    obtain ⟨st1, h1⟩ := hh lineNo st
    rw [parseLines_cons_ok cfg ign h file false raw n ls lineNo st st1 hf h1]
    exact ih (fun raw' hm => hall raw' (List.mem_cons_of_mem _ hm)) _ _

theorem includeWith_rec_fst (fs : FS) (onPath : Bytes → Bool)
    (recur : (name t : Bytes) → fs.lookup name = some t → onPath name = false → St → Result)
    (name t file : Bytes) (lineNo : Nat) (st : St)
    (h : fs.lookup name = some t) (hp : onPath name = false) :
    (includeWith fs onPath recur name file lineNo st).1 = (recur name t h hp (st.opened name)).1 := by
  rw [includeWith_rec fs onPath recur name t file lineNo st h hp, afterInclude_fst]

theorem includeWith_ok (fs : FS) (onPath : Bytes → Bool)
    (recur : (name t : Bytes) → fs.lookup name = some t → onPath name = false → St → Result)
    (name t : Bytes) (h : fs.lookup name = some t) (hp : onPath name = false)
    (hrec : ∀ st, ∃ st', recur name t h hp st = (none, st')) (file : Bytes) (lineNo : Nat) (st : St) :
    ∃ st', includeWith fs onPath recur name file lineNo st = (none, st') := by
  obtain ⟨st2, h2⟩ := hrec (st.opened name)
  rw [includeWith_rec fs onPath recur name t file lineNo st h hp, h2]
  exact ⟨_, rfl⟩

/-- the line `$INCLUDE <n>` -/
def incLine (n : Bytes) : Bytes := kwINCLUDE ++ [32] ++ n

theorem lines_inc_a : Lex.lines (inc nmA) = ([incLine nmA], false) := by decide
theorem lines_inc_b : Lex.lines (inc nmB) = ([incLine nmB], false) := by decide
theorem lines_inc_c : Lex.lines (inc [99]) = ([incLine [99]], false) := by decide
theorem lines_inc_root : Lex.lines (inc nmRoot) = ([incLine nmRoot], false) := by decide
theorem fields_inc_a : Lex.fields (Lex.stripComment (incLine nmA)) = [kwINCLUDE, nmA] := by decide
theorem fields_inc_b : Lex.fields (Lex.stripComment (incLine nmB)) = [kwINCLUDE, nmB] := by decide
theorem fields_inc_c : Lex.fields (Lex.stripComment (incLine [99])) = [kwINCLUDE, [99]] := by decide
theorem fields_inc_root : Lex.fields (Lex.stripComment (incLine nmRoot)) = [kwINCLUDE, nmRoot] := by decide

/-! ### root → a → b → a : the current rule runs out of any fuel, the repaired rule reports it -/

theorem nonroot_cycle_ab (cfg : Cfg) (ign : Bool) (fuel : Nat) :
    ∀ st, (parseFileCur cfg ign fsNonRootCycle nmRoot fuel nmA (inc nmB) st).1 = some .outOfFuel ∧
      (parseFileCur cfg ign fsNonRootCycle nmRoot fuel nmB (inc nmA) st).1 = some .outOfFuel := by
  induction fuel with
  | zero => intro st; exact ⟨rfl, rfl⟩
  | succ fuel ih =>
    intro st
    constructor
    · rw [parseFileCur, parseBody_one_include cfg ign _ nmA (inc nmB) _ nmB st lines_inc_b fields_inc_b,
        includeWith_rec_fst fsNonRootCycle _ _ nmB (inc nmA) nmA 1 st (by decide) (by decide)]
      exact (ih _).2
    · rw [parseFileCur, parseBody_one_include cfg ign _ nmB (inc nmA) _ nmA st lines_inc_a fields_inc_a,
        includeWith_rec_fst fsNonRootCycle _ _ nmA (inc nmB) nmB 1 st (by decide) (by decide)]
      exact (ih _).1

theorem nonroot_cycle_root (cfg : Cfg) (ign : Bool) (fuel : Nat) (st : St) :
    (parseFileCur cfg ign fsNonRootCycle nmRoot fuel nmRoot (inc nmA) st).1 = some .outOfFuel := by
  cases fuel with
  | zero => rfl
  | succ fuel =>
    rw [parseFileCur, parseBody_one_include cfg ign _ nmRoot (inc nmA) _ nmA st lines_inc_a fields_inc_a,
      includeWith_rec_fst fsNonRootCycle _ _ nmA (inc nmB) nmRoot 1 st (by decide) (by decide)]
    exact (nonroot_cycle_ab cfg ign fuel _).1

theorem nonroot_cycle_diverges' (cfg : Cfg) (ign : Bool) (fuel : Nat) :
    (parseFileCur cfg ign fsNonRootCycle nmRoot fuel nmRoot (inc nmA) {}).1 = some .outOfFuel :=
  nonroot_cycle_root cfg ign fuel {}

theorem parseFile_current_nonroot (ign : Bool) :
    (parseFile Cfg.current ign fsNonRootCycle nmRoot).1 = some .outOfFuel := by
  rw [parseFile_cur_eq Cfg.current ign fsNonRootCycle nmRoot (inc nmA) rfl (by decide)]
  exact nonroot_cycle_root ..

theorem root_cycle_reported' (cfg : Cfg) (ign : Bool) (fuel : Nat) :
    (parseFileCur cfg ign fsRootCycle nmRoot (fuel + 2) nmRoot (inc nmA) {}).1
      = some (.recursive nmA 1 nmRoot) := by
  rw [parseFileCur, parseBody_one_include cfg ign _ nmRoot (inc nmA) _ nmA _ lines_inc_a fields_inc_a,
    includeWith_rec_fst fsRootCycle _ _ nmA (inc nmRoot) nmRoot 1 _ (by decide) (by decide)]
  rw [parseFileCur, parseBody_one_include cfg ign _ nmA (inc nmRoot) _ nmRoot _ lines_inc_root fields_inc_root,
    includeWith_onPath fsRootCycle _ _ nmRoot (inc nmA) nmA 1 _ (by decide) (by decide)]

theorem nonroot_cycle_fixed (ign : Bool) :
    (parseFile Cfg.repaired ign fsNonRootCycle nmRoot).1 = some (.recursive nmB 1 nmA) := by
  rw [parseFile_fix_eq Cfg.repaired ign fsNonRootCycle nmRoot (inc nmA) rfl (by decide)]
  rw [parseFileFix, parseBody_one_include _ ign _ nmRoot (inc nmA) _ nmA _ lines_inc_a fields_inc_a,
    includeWith_rec_fst fsNonRootCycle _ _ nmA (inc nmB) nmRoot 1 _ (by decide) (by decide)]
  rw [parseFileFix, parseBody_one_include _ ign _ nmA (inc nmB) _ nmB _ lines_inc_b fields_inc_b,
    includeWith_rec_fst fsNonRootCycle _ _ nmB (inc nmA) nmA 1 _ (by decide) (by decide)]
  rw [parseFileFix, parseBody_one_include _ ign _ nmB (inc nmA) _ nmA _ lines_inc_a fields_inc_a,
    includeWith_onPath fsNonRootCycle _ _ nmA (inc nmB) nmB 1 _ (by decide) (by decide)]

/-! ### The diamond -/

def textC : Bytes := kwVALUE ++ [32, 65, 32, 118, 32, 49, 10]
def textRoot : Bytes := inc nmA ++ inc nmB ++ inc nmB

theorem lines_c : Lex.lines textC = ([kwVALUE ++ [32, 65, 32, 118, 32, 49]], false) := by decide
theorem fields_c : Lex.fields (Lex.stripComment (kwVALUE ++ [32, 65, 32, 118, 32, 49]))
    = [kwVALUE, [65], [118], [49]] := by decide
theorem lines_root : Lex.lines textRoot = ([incLine nmA, incLine nmB, incLine nmB], false) := by decide
theorem includesOf_root : includesOf textRoot = [nmA, nmB, nmB] := by decide
theorem includesOf_a : includesOf (inc [99]) = [[99]] := by decide
theorem includesOf_c : includesOf textC = [] := by decide

theorem diamond_c (cfg : Cfg) (ign : Bool) (h : IncludeHandler) (st : St) :
    ∃ st', parseBody cfg ign h [99] textC st = (none, st') := by
  have h1 : (kwVALUE == kwATTRIBUTE) = false := by decide
  have h2 : parseValue [65] [118] [49] = .ok { attrName := [65], name := [118], number := 1 } := by rfl
  have h3 : (Lex.stripComment (kwVALUE ++ [32, 65, 32, 118, 32, 49])).isEmpty = false := by decide
  have : (parseBody cfg ign h [99] textC st).1 = none := by
    unfold parseBody
    rw [lines_c]
    simp [parseLines, stepLine, h3, fields_c, dispatch, h1, h2]
  exact ⟨(parseBody cfg ign h [99] textC st).2, Prod.ext this rfl⟩

theorem diamond_fix_c (path : List Bytes) (st : St) :
    ∃ st', parseFileFix Cfg.repaired false fsDiamond path [99] textC st = (none, st') := by
  rw [parseFileFix]
  exact diamond_c ..

theorem diamond_fix_a (st : St) :
    ∃ st', parseFileFix Cfg.repaired false fsDiamond [nmA, nmRoot] nmA (inc [99]) st = (none, st') := by
  rw [parseFileFix]
  unfold parseBody
  rw [lines_inc_c]
  apply parseLines_all_ok
  intro raw hm
  simp at hm; subst hm
  exact ⟨[99], fields_inc_c, fun l st =>
    includeWith_ok fsDiamond _ _ [99] textC (by decide) (by decide) (fun st => diamond_fix_c _ st) _ l st⟩

theorem diamond_fix_b (st : St) :
    ∃ st', parseFileFix Cfg.repaired false fsDiamond [nmB, nmRoot] nmB (inc [99]) st = (none, st') := by
  rw [parseFileFix]
  unfold parseBody
  rw [lines_inc_c]
  apply parseLines_all_ok
  intro raw hm
  simp at hm; subst hm
  exact ⟨[99], fields_inc_c, fun l st =>
    includeWith_ok fsDiamond _ _ [99] textC (by decide) (by decide) (fun st => diamond_fix_c _ st) _ l st⟩

theorem diamond_fix_root (st : St) :
    ∃ st', parseFileFix Cfg.repaired false fsDiamond [nmRoot] nmRoot textRoot st = (none, st') := by
  rw [parseFileFix]
  unfold parseBody
  rw [lines_root]
  apply parseLines_all_ok
  intro raw hm
  simp at hm
  rcases hm with rfl | rfl
  · exact ⟨nmA, fields_inc_a, fun l st =>
      includeWith_ok fsDiamond _ _ nmA (inc [99]) (by decide) (by decide) (fun st => diamond_fix_a st) _ l st⟩
  · exact ⟨nmB, fields_inc_b, fun l st =>
      includeWith_ok fsDiamond _ _ nmB (inc [99]) (by decide) (by decide) (fun st => diamond_fix_b st) _ l st⟩

theorem fsDiamond_ok : (parseFile Cfg.repaired false fsDiamond nmRoot).1 = none := by
  rw [parseFile_fix_eq Cfg.repaired false fsDiamond nmRoot textRoot rfl (by decide)]
  obtain ⟨st', h⟩ := diamond_fix_root (St.opened {} nmRoot)
  rw [h]

/-! ### The example graphs -/

theorem lookup_nil (a : Bytes) : FS.lookup [] a = none := rfl

theorem lookup_cons (k v : Bytes) (fs : FS) (a : Bytes) :
    FS.lookup ((k, v) :: fs) a = if k = a then some v else FS.lookup fs a := by
  by_cases h : k = a <;> simp [FS.lookup, h]

def rankD (x : Bytes) : Nat :=
  if x = nmRoot then 3 else if x = nmA then 2 else if x = nmB then 2 else if x = [99] then 1 else 0

theorem diamond_edge_rank {a b : Bytes} (h : Includes fsDiamond a b) : rankD b < rankD a := by
  obtain ⟨t, hl, hb⟩ := h
  simp only [fsDiamond, lookup_cons, lookup_nil] at hl
  split at hl
  · rename_i ha; subst ha; cases hl
    rw [show includesOf (inc nmA ++ inc nmB ++ inc nmB) = [nmA, nmB, nmB] from includesOf_root] at hb
    simp at hb
    rcases hb with rfl | rfl <;> decide
  · split at hl
    · rename_i ha; subst ha; cases hl
      rw [includesOf_a] at hb
      simp at hb; subst hb; decide
    · split at hl
      · rename_i ha; subst ha; cases hl
        rw [includesOf_a] at hb
        simp at hb; subst hb; decide
      · split at hl
        · rename_i ha; subst ha; cases hl
          rw [show includesOf (kwVALUE ++ [32, 65, 32, 118, 32, 49, 10]) = [] from includesOf_c] at hb
          simp at hb
        · cases hl

theorem diamond_reach_rank {a b : Bytes} (h : Reaches fsDiamond a b) : rankD b < rankD a := by
  induction h with
  | step h1 => exact diamond_edge_rank h1
  | trans h1 _ ih => exact Nat.lt_trans ih (diamond_edge_rank h1)

theorem fsDiamond_acyclic : ¬ HasCycle fsDiamond nmRoot := by
  rintro ⟨f, _, hc⟩
  exact Nat.lt_irrefl _ (diamond_reach_rank hc)

theorem fsNonRootCycle_cyclic : HasCycle fsNonRootCycle nmRoot := by
  have hra : Includes fsNonRootCycle nmRoot nmA := ⟨inc nmA, by decide, by decide⟩
  have hab : Includes fsNonRootCycle nmA nmB := ⟨inc nmB, by decide, by decide⟩
  have hba : Includes fsNonRootCycle nmB nmA := ⟨inc nmA, by decide, by decide⟩
  exact ⟨nmA, Or.inr (.step hra), .trans hab (.step hba)⟩

end RV.DictParser
