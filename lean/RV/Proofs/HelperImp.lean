/-
  The imperative mirror of RV/Model/HelperImp.lean against the pure model of RV/Model/Helper.lean:
  each mirror computes `outcome (pure result) initial-state`, i.e. on success it ends in exactly
  the pure model's list, and on error / panic it ends in the list it started from.  The mirror of the
  statement order before the repair (`setVendorOldImp`) does not.
-/
import RV.Model.HelperImp
import RV.Proofs.Helper
namespace RV
namespace Imp

/-- what an imperative helper that refines the pure result `r` returns when started in `as` -/
def outcome (r : Res Attrs) (as : Attrs) : Res Unit × Attrs :=
  match r with
  | .ok as' => (.ok (), as')
  | .err => (.err, as)
  | .fault => (.fault, as)

theorem bind_apply {α β} (m : Imp α) (f : α → Imp β) (as : Attrs) :
    (m >>= f) as = match m as with
      | (.ok a, as') => f a as'
      | (.err, as') => (.err, as')
      | (.fault, as') => (.fault, as') := rfl

theorem liftRes_bind {α β} (r : Res α) (f : α → Imp β) (as : Attrs) :
    (liftRes r >>= f) as = match r with
      | .ok a => f a as
      | .err => (.err, as)
      | .fault => (.fault, as) := by
  rw [bind_apply]; cases r <;> rfl

theorem prim_bind {β} (g : Attrs → Attrs) (f : Unit → Imp β) (as : Attrs) :
    ((fun as => (.ok (), g as) : Imp Unit) >>= f) as = f () (g as) := rfl

/-! ### vendor helpers -/

theorem addVendorImp_eq (vid : Nat) (typ : UInt8) (attr : Bytes) (as : Attrs) :
    addVendorImp vid typ attr as = outcome (addVendor vid typ attr as) as := by
  unfold addVendorImp addVendor
  rw [liftRes_bind]
  cases vendorAttr vid typ attr <;> rfl

theorem setVendorImp_eq (vid : Nat) (typ : UInt8) (attr : Bytes) (as : Attrs) :
    setVendorImp vid typ attr as = outcome (setVendor vid typ attr as) as := by
  unfold setVendorImp setVendor
  rw [liftRes_bind]
  cases vendorAttr vid typ attr <;> rfl

/-- the old order: the packet after an error is the packet with the sub-attributes removed -/
theorem setVendorOldImp_eq (vid : Nat) (typ : UInt8) (attr : Bytes) (as : Attrs) :
    setVendorOldImp vid typ attr as =
      match vendorAttr vid typ attr with
      | .ok vsa => (.ok (), (delVendor vid typ as).add vsaType vsa)
      | .err => (.err, delVendor vid typ as)
      | .fault => (.fault, delVendor vid typ as) := by
  unfold setVendorOldImp delVendorS
  rw [prim_bind, addVendorImp_eq]
  unfold addVendor
  cases vendorAttr vid typ attr <;> rfl

/-! ### the chunk loop of a concat Set -/

theorem chunkLoopImp_eq (typ : Int) (b : Bytes) (acc as : Attrs) :
    chunkLoopImp typ b acc as = (.ok (acc ++ (chunks253 b).map (fun c => ⟨typ, c⟩)), as) := by
  fun_induction chunkLoopImp typ b acc with
  | case1 acc => rw [chunks253_nil]; simp [ret]
  | case2 value acc hne ih =>
    rw [liftRes_bind]
    have hnb : newBytes (value.take 253) = .ok (value.take 253) := by
      unfold newBytes; rw [if_neg (by simp; omega)]
    rw [hnb]
    simp only []
    rw [ih, chunks253_ne value hne]
    simp

/-! ### attribute helpers -/

section
variable (H : Hash)

theorem hAddImp_eq (d : Desc) (tag : UInt8) (v : GVal) (secret auth salt : Bytes) (as : Attrs) :
    hAddImp H d tag v secret auth salt as = outcome (hAdd H d as tag v secret auth salt) as := by
  unfold hAddImp hAdd
  by_cases hk : d.kind = .concat
  · rw [if_pos hk, if_pos hk]; rfl
  · rw [if_neg hk, if_neg hk, liftRes_bind]
    cases encodeValue H d tag v secret auth salt with
    | ok a =>
      simp only []
      by_cases hv : d.vendorID = 0
      · rw [if_pos hv, if_pos hv]; rfl
      · rw [if_neg hv, if_neg hv, addVendorImp_eq]
    | err => rfl
    | fault => rfl

theorem hSetImp_eq (d : Desc) (tag : UInt8) (v : GVal) (secret auth salt : Bytes) (as : Attrs) :
    hSetImp H d tag v secret auth salt as = outcome (hSet H d as tag v secret auth salt) as := by
  unfold hSetImp hSet
  by_cases hk : d.kind = .concat
  · rw [if_pos hk, if_pos hk]
    cases v with
    | bytes b =>
      simp only []
      rw [bind_apply, chunkLoopImp_eq]
      simp only [List.nil_append]
      rfl
    | nat n => rfl
    | time u => rfl
    | pfx p => rfl
  · rw [if_neg hk, if_neg hk, liftRes_bind]
    cases encodeValue H d tag v secret auth salt with
    | ok a =>
      simp only []
      by_cases hv : d.vendorID = 0
      · rw [if_pos hv, if_pos hv]; rfl
      · rw [if_neg hv, if_neg hv, setVendorImp_eq]
    | err => rfl
    | fault => rfl

theorem hDelImp_eq (d : Desc) (as : Attrs) : hDelImp d as = (.ok (), hDel d as) := by
  unfold hDelImp hDel
  by_cases hv : d.vendorID = 0
  · rw [if_pos hv, if_pos hv]; rfl
  · rw [if_neg hv, if_neg hv]; rfl

end

/-! ### what `outcome` gives -/

theorem outcome_ok_iff (r : Res Attrs) (as as' : Attrs) : outcome r as = (.ok (), as') ↔ r = .ok as' := by
  cases r <;> simp [outcome]

theorem outcome_err_iff (r : Res Attrs) (as : Attrs) : (outcome r as).1 = .err ↔ r = .err := by
  cases r <;> simp [outcome]

theorem outcome_fault_iff (r : Res Attrs) (as : Attrs) : (outcome r as).1 = .fault ↔ r = .fault := by
  cases r <;> simp [outcome]

/-- THE point: when the result is not `.ok`, the final state is the initial state -/
theorem outcome_unchanged (r : Res Attrs) (as : Attrs) (h : (outcome r as).1 ≠ .ok ()) :
    (outcome r as).2 = as := by
  cases r with
  | ok a => exact absurd rfl h
  | err => rfl
  | fault => rfl

end Imp
end RV
