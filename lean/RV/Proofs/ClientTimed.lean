/-
  Proofs about the timed refinement of the Exchange machine (Model/ClientTimed.lean): the refinement
  itself, the invariant of well-timed runs, and the bounds on WHEN retransmissions happen.
  The headline statements are restated in Props/C08.lean.
-/
import RV.Model.ClientTimed
import RV.Proofs.Client
namespace RV.Exchange.Timed
open RV RV.Client RV.Exchange

variable (H : Hash) (P : Params)

/-! ### runs -/

theorem trun_nil (s : TState) : trun H P s [] = s := rfl
theorem trun_cons (s : TState) (te : TEvent) (evs : List TEvent) :
    trun H P s (te :: evs) = trun H P (tstep H P s te) evs := rfl
theorem trun_append (s : TState) (a b : List TEvent) :
    trun H P s (a ++ b) = trun H P (trun H P s a) b := by
  simp [trun, List.foldl_append]

theorem tstep_fire (s : TState) (t k : Nat) :
    tstep H P s (t, .fire k) = { s with now := t, ticker := s.ticker.map (fun tk => tk.deliver k) } := rfl

theorem tstep_logic_fire (s : TState) (t k : Nat) : (tstep H P s (t, .fire k)).logic = s.logic := rfl
theorem tstep_logic_ev (s : TState) (t : Nat) (e : Event) :
    (tstep H P s (t, .ev e)).logic = step H P s.logic e := rfl
theorem tstep_now (s : TState) (te : TEvent) : (tstep H P s te).now = te.1 := by
  rcases te with ⟨t, x⟩
  cases x <;> rfl

/-! ### refinement: the logical part of a timed run is the untimed run of the erased sequence -/

theorem timed_refines_from (s : TState) (evs : List TEvent) :
    (trun H P s evs).logic = run H P s.logic (erase evs) := by
  induction evs generalizing s with
  | nil => rfl
  | cons te es ih =>
    rcases te with ⟨t, x⟩
    cases x with
    | fire k => rw [trun_cons, ih]; rfl
    | ev e => rw [trun_cons, ih]; rfl

theorem timed_refines (evs : List TEvent) :
    (treach H P evs).logic = reach H P (erase evs) :=
  timed_refines_from H P (tinit P) evs

/-! ### what a step of the untimed machine does to `sent`, `phase`, `helperAlive` -/

theorem step_sent_other (s : State) (e : Event) (h1 : e ≠ .dialOk) (h2 : e ≠ .tick) :
    (step H P s e).sent = s.sent := by
  rcases s with ⟨phase, sent, cc, ha, cd, ec⟩
  cases phase <;> cases e <;> first
    | exact absurd rfl h1
    | exact absurd rfl h2
    | (unfold step; simp only [finish]; all_goals ((repeat' split) <;> rfl))

theorem step_dialOk_sent (s : State) :
    (step H P s .dialOk).sent = if s.phase = .dialing then s.sent ++ [P.wireBytes] else s.sent := by
  rcases s with ⟨phase, sent, cc, ha, cd, ec⟩
  cases phase <;> (unfold step; simp)

theorem step_tick_sent (s : State) :
    (step H P s .tick).sent =
      if s.phase = .waiting ∧ P.retry > 0 ∧ s.helperAlive = true then s.sent ++ [P.wireBytes] else s.sent := by
  rcases s with ⟨phase, sent, cc, ha, cd, ec⟩
  cases phase <;> (unfold step; simp only) <;> (try split) <;> simp_all

theorem step_waiting_pre (s : State) (e : Event) (h : (step H P s e).phase = .waiting) :
    s.phase = .waiting ∨ (s.phase = .dialing ∧ e = .dialOk) := by
  rcases s with ⟨phase, sent, cc, ha, cd, ec⟩
  cases phase with
  | dialing => cases e <;> first | exact Or.inr ⟨rfl, rfl⟩ | (revert h; unfold step; simp)
  | waiting => exact Or.inl rfl
  | returned r => exact absurd h (by rw [(step_returned H P _ e r rfl).1]; simp)

theorem step_alive_pre (s : State) (e : Event) (hp : s.phase = .waiting)
    (h : (step H P s e).helperAlive = true) : s.helperAlive = true := by
  rcases s with ⟨phase, sent, cc, ha, cd, ec⟩
  simp only at hp
  subst hp
  cases ha with
  | true => rfl
  | false =>
    revert h
    cases e <;> (unfold step; simp only [finish]) <;> (repeat' split) <;> simp

theorem step_phase_dialing_pre (s : State) (e : Event) (h : (step H P s e).phase = .dialing) :
    s.phase = .dialing := by
  by_cases hd : s.phase = .dialing
  · exact hd
  · exact absurd h (step_phase_ne_dialing H P s e hd)

theorem step_isReturned (s : State) (e : Event) (h : isReturned s = true) :
    isReturned (step H P s e) = true := by
  have := run_isReturned H P s [e] h
  simpa [run] using this

/-! ### the three shapes of a timed step on an event of the untimed machine -/

theorem step_sent_unchanged (s : State) (e : Event)
    (hd : ¬(e = .dialOk ∧ s.phase = .dialing)) (ht : e ≠ .tick) : (step H P s e).sent = s.sent := by
  by_cases h1 : e = .dialOk
  · subst h1
    rw [step_dialOk_sent]
    simp only [true_and] at hd
    simp [hd]
  · exact step_sent_other H P s e h1 ht

theorem tstep_ev_other (s : TState) (t : Nat) (e : Event)
    (hd : ¬(e = .dialOk ∧ s.logic.phase = .dialing)) (ht : e ≠ .tick) :
    tstep H P s (t, .ev e) =
      { logic := step H P s.logic e, now := t, t0 := s.t0, ticker := s.ticker, writes := s.writes } := by
  have hs := step_sent_unchanged H P s.logic e hd ht
  simp [tstep, hs, hd, ht]

theorem tstep_ev_dial (s : TState) (t : Nat) (hd : s.logic.phase = .dialing) :
    tstep H P s (t, .ev .dialOk) =
      { logic := step H P s.logic .dialOk, now := t, t0 := t,
        ticker := if P.retry > 0 then some Ticker.fresh else none,
        writes := s.writes ++ [(t, 0)] } := by
  simp [tstep, hd, step_dialOk_sent]

theorem tstep_ev_tick (s : TState) (t : Nat) :
    tstep H P s (t, .ev .tick) =
      { logic := step H P s.logic .tick, now := t, t0 := s.t0,
        ticker := s.ticker.map Ticker.take,
        writes := if s.logic.phase = .waiting ∧ P.retry > 0 ∧ s.logic.helperAlive = true
                  then s.writes ++ [(t, pendingIdx s)] else s.writes } := by
  by_cases hc : s.logic.phase = .waiting ∧ P.retry > 0 ∧ s.logic.helperAlive = true
  · simp [tstep, step_tick_sent, hc]
  · simp [tstep, step_tick_sent, hc]

/-! ### the invariant of well-timed runs -/

/-- what holds of a live ticker -/
structure TickInv (s : TState) (tk : Ticker) : Prop where
  retry_pos : P.retry > 0
  next_pos : 1 ≤ tk.next
  /-- every firing delivered so far was due by now -/
  delivered_due : s.t0 + (tk.next - 1) * period P ≤ s.now
  writes_lt : ∀ w ∈ s.writes, w.2 < tk.next
  chan_ok : ∀ k, tk.chan = some k → 1 ≤ k ∧ k < tk.next ∧ ∀ w ∈ s.writes, w.2 < k
  /-- conservation: every firing number below `next` was received, lost, or waits in the channel -/
  conserve : tk.taken + tk.lost + (if tk.chan.isSome then 1 else 0) + 1 = tk.next
  writes_le_taken : s.writes.length ≤ tk.taken + 1
  writes_pos : 1 ≤ s.writes.length

structure TInv (s : TState) : Prop where
  len : s.writes.length = s.logic.sent.length
  t0_le : s.t0 ≤ s.now
  times_le : ∀ w ∈ s.writes, w.1 ≤ s.now
  /-- no write before the firing that caused it was due -/
  due_le : ∀ w ∈ s.writes, s.t0 + w.2 * period P ≤ w.1
  /-- successive writes are caused by firings with increasing numbers -/
  incr : s.writes.Pairwise (fun a b => a.2 < b.2)
  sorted : s.writes.Pairwise (fun a b => a.1 ≤ b.1)
  dialing : s.logic.phase = .dialing → s.ticker = none ∧ s.writes = []
  first : ∀ w, s.writes.head? = some w → w = (s.t0, 0)
  no_ticker : s.ticker = none → s.writes.length ≤ 1
  waiting_ticker : s.logic.phase = .waiting → P.retry > 0 → s.ticker ≠ none
  tick : ∀ tk, s.ticker = some tk → TickInv P s tk

theorem tinv_init : TInv P (tinit P) := by
  have hph : (init P).phase ≠ .waiting := by unfold init; cases P.wire <;> simp
  have hs : (init P).sent = [] := by unfold init; cases P.wire <;> rfl
  constructor <;> simp [tinit, hs]
  intro hw
  exact absurd hw hph

theorem enabled_now (s : TState) (te : TEvent) (he : enabled P s te = true) : s.now ≤ te.1 := by
  simp only [enabled, Bool.and_eq_true, decide_eq_true_eq] at he
  exact he.1

theorem tinv_step (s : TState) (te : TEvent) (h : TInv P s) (he : enabled P s te = true) :
    TInv P (tstep H P s te) := by
  have hnow := enabled_now P s te he
  rcases te with ⟨t, x⟩
  simp only at hnow
  cases x with
  | fire k =>
    cases htk : s.ticker with
    | none => simp [enabled, htk] at he
    | some tk =>
      simp only [enabled, htk, Bool.and_eq_true, decide_eq_true_eq, Bool.not_eq_true'] at he
      obtain ⟨_, ⟨hnr, hk⟩, hdue⟩ := he
      have ti := h.tick tk htk
      rw [tstep_fire, htk]
      have hdue' : s.t0 + k * period P ≤ t := hdue
      refine ⟨h.len, Nat.le_trans h.t0_le hnow, fun w hw => Nat.le_trans (h.times_le w hw) hnow, h.due_le,
        h.incr, h.sorted, fun hp => absurd (h.dialing hp).1 (by rw [htk]; simp), h.first,
        fun hn => by simp at hn, fun _ _ => by simp, ?_⟩
      intro tk' htk'
      simp only [Option.map_some, Option.some.injEq] at htk'
      subst htk'
      have hc1 := ti.conserve
      cases hc : tk.chan with
      | none =>
        rw [hc] at hc1
        simp only [Ticker.deliver, hc]
        refine ⟨ti.retry_pos, by simp, by simpa using hdue', ?_, ?_, ?_, ti.writes_le_taken, ti.writes_pos⟩
        · intro w hw
          have := ti.writes_lt w hw
          show w.2 < k + 1
          omega
        · intro k' hk'
          simp only [Option.some.injEq] at hk'
          subst hk'
          have hnp := ti.next_pos
          refine ⟨by omega, by show k < k + 1; omega, ?_⟩
          intro w hw
          have := ti.writes_lt w hw
          omega
        · simp at hc1 ⊢
          omega
      | some k0 =>
        rw [hc] at hc1
        simp only [Ticker.deliver, hc]
        obtain ⟨c1, c2, c3⟩ := ti.chan_ok k0 hc
        refine ⟨ti.retry_pos, by simp, by simpa using hdue', ?_, ?_, ?_, ti.writes_le_taken, ti.writes_pos⟩
        · intro w hw
          have := ti.writes_lt w hw
          show w.2 < k + 1
          omega
        · intro k' hk'
          simp only [Option.some.injEq] at hk'
          subst hk'
          exact ⟨c1, by show k0 < k + 1; omega, c3⟩
        · simp at hc1 ⊢
          omega
  | ev e =>
    by_cases hd : e = .dialOk ∧ s.logic.phase = .dialing
    · obtain ⟨rfl, hph⟩ := hd
      obtain ⟨htn, hwn⟩ := h.dialing hph
      rw [tstep_ev_dial H P s t hph, hwn]
      have hlen : s.logic.sent.length = 0 := by rw [← h.len, hwn]; rfl
      refine ⟨?_, Nat.le_refl _, ?_, ?_, ?_, ?_, ?_, ?_, ?_, ?_, ?_⟩
      · simp [step_dialOk_sent, hph, hlen]
      · simp
      · simp
      · simp
      · simp
      · intro hp
        exact absurd hp (step_dial_leaves_dialing H P s.logic .dialOk (Or.inl rfl))
      · simp
      · simp
      · intro _ hr
        simp [hr]
      · intro tk htk
        by_cases hr : P.retry > 0
        · simp only [hr, if_true, Option.some.injEq] at htk
          subst htk
          exact ⟨hr, by simp [Ticker.fresh], by simp [Ticker.fresh], by simp [Ticker.fresh],
            by simp [Ticker.fresh], by simp [Ticker.fresh], by simp [Ticker.fresh], by simp⟩
        · simp [hr] at htk
    · by_cases ht : e = .tick
      · subst ht
        cases htk : s.ticker with
        | none => simp [enabled, htk] at he
        | some tk =>
          simp only [enabled, htk, Bool.and_eq_true, decide_eq_true_eq] at he
          obtain ⟨_, hch, hal⟩ := he
          obtain ⟨k, hk⟩ := Option.isSome_iff_exists.1 hch
          have ti := h.tick tk htk
          obtain ⟨c1, c2, c3⟩ := ti.chan_ok k hk
          have hpi : pendingIdx s = k := by simp [pendingIdx, htk, hk]
          have htake : tk.take = { tk with chan := none, taken := tk.taken + 1 } := by
            simp [Ticker.take, hk]
          have hnd : s.logic.phase ≠ .dialing := fun hp => by
            have := (h.dialing hp).1
            rw [htk] at this
            cases this
          have hcons := ti.conserve
          rw [hk] at hcons
          simp only [Option.isSome_some, if_true] at hcons
          have hdk : s.t0 + k * period P ≤ t := by
            have h1 := ti.delivered_due
            have h2 : k * period P ≤ (tk.next - 1) * period P := Nat.mul_le_mul_right _ (by omega)
            omega
          rw [tstep_ev_tick, htk, hpi]
          simp only [Option.map_some, htake]
          by_cases hc : s.logic.phase = .waiting ∧ P.retry > 0 ∧ s.logic.helperAlive = true
          · rw [if_pos hc]
            refine ⟨?_, Nat.le_trans h.t0_le hnow, ?_, ?_, ?_, ?_, ?_, ?_, ?_, ?_, ?_⟩
            · simp [step_tick_sent, hc, h.len]
            · intro w hw
              rcases List.mem_append.1 hw with hw | hw
              · exact Nat.le_trans (h.times_le w hw) hnow
              · simp only [List.mem_singleton] at hw
                subst hw
                exact Nat.le_refl _
            · intro w hw
              rcases List.mem_append.1 hw with hw | hw
              · exact h.due_le w hw
              · simp only [List.mem_singleton] at hw
                subst hw
                exact hdk
            · rw [List.pairwise_append]
              refine ⟨h.incr, by simp, ?_⟩
              intro a ha b hb
              simp only [List.mem_singleton] at hb
              subst hb
              exact c3 a ha
            · rw [List.pairwise_append]
              refine ⟨h.sorted, by simp, ?_⟩
              intro a ha b hb
              simp only [List.mem_singleton] at hb
              subst hb
              exact Nat.le_trans (h.times_le a ha) hnow
            · intro hp
              exact absurd (step_phase_dialing_pre H P s.logic .tick hp) hnd
            · intro w hw
              cases hws : s.writes with
              | nil =>
                have := ti.writes_pos
                rw [hws] at this
                simp at this
              | cons a as =>
                rw [hws] at hw
                simp only [List.cons_append, List.head?_cons, Option.some.injEq] at hw
                subst hw
                exact h.first a (by rw [hws]; rfl)
            · simp
            · intro _ _
              simp
            · intro tk' htk'
              simp only [Option.some.injEq] at htk'
              subst htk'
              refine ⟨ti.retry_pos, ti.next_pos, Nat.le_trans ti.delivered_due hnow, ?_, by simp, by simp; omega, ?_, by simp⟩
              · intro w hw
                rcases List.mem_append.1 hw with hw | hw
                · exact ti.writes_lt w hw
                · simp only [List.mem_singleton] at hw
                  subst hw
                  exact c2
              · have := ti.writes_le_taken
                simp
                omega
          · rw [if_neg hc]
            refine ⟨?_, Nat.le_trans h.t0_le hnow, fun w hw => Nat.le_trans (h.times_le w hw) hnow, h.due_le,
              h.incr, h.sorted, ?_, h.first, by simp, fun _ _ => by simp, ?_⟩
            · simp [step_tick_sent, hc, h.len]
            · intro hp
              exact absurd (step_phase_dialing_pre H P s.logic .tick hp) hnd
            · intro tk' htk'
              simp only [Option.some.injEq] at htk'
              subst htk'
              refine ⟨ti.retry_pos, ti.next_pos, Nat.le_trans ti.delivered_due hnow, ti.writes_lt, by simp,
                by simp; omega, ?_, ti.writes_pos⟩
              have := ti.writes_le_taken
              show s.writes.length ≤ tk.taken + 1 + 1
              omega
      · rw [tstep_ev_other H P s t e hd ht]
        have hs := step_sent_unchanged H P s.logic e hd ht
        refine ⟨by simp [hs, h.len], Nat.le_trans h.t0_le hnow,
          fun w hw => Nat.le_trans (h.times_le w hw) hnow, h.due_le, h.incr, h.sorted, ?_, h.first,
          h.no_ticker, ?_, ?_⟩
        · intro hp
          exact h.dialing (step_phase_dialing_pre H P s.logic e hp)
        · intro hp hr
          rcases step_waiting_pre H P s.logic e hp with hw | ⟨hdl, he'⟩
          · exact h.waiting_ticker hw hr
          · exact absurd ⟨he', hdl⟩ hd
        · intro tk htk
          have ti := h.tick tk htk
          exact ⟨ti.retry_pos, ti.next_pos, Nat.le_trans ti.delivered_due hnow, ti.writes_lt, ti.chan_ok,
            ti.conserve, ti.writes_le_taken, ti.writes_pos⟩

theorem tinv_run_from (s : TState) (evs : List TEvent) (h : TInv P s)
    (hw : wellTimedFrom H P s evs = true) : TInv P (trun H P s evs) := by
  induction evs generalizing s with
  | nil => exact h
  | cons te es ih =>
    simp only [wellTimedFrom, Bool.and_eq_true] at hw
    exact ih (tstep H P s te) (tinv_step H P s te h hw.1) hw.2

theorem tinv_reach (evs : List TEvent) (hw : wellTimed H P evs = true) : TInv P (treach H P evs) :=
  tinv_run_from H P (tinit P) evs (tinv_init P) hw

/-- a prefix of a well-timed sequence is well-timed -/
theorem wellTimedFrom_append (s : TState) (a b : List TEvent) :
    wellTimedFrom H P s (a ++ b) = (wellTimedFrom H P s a && wellTimedFrom H P (trun H P s a) b) := by
  induction a generalizing s with
  | nil => simp [wellTimedFrom, trun]
  | cons te es ih => simp [wellTimedFrom, trun_cons, ih, Bool.and_assoc]

theorem wellTimed_prefix (a b : List TEvent) (h : wellTimed H P (a ++ b) = true) :
    wellTimed H P a = true := by
  unfold wellTimed at h ⊢
  rw [wellTimedFrom_append] at h
  simp only [Bool.and_eq_true] at h
  exact h.1

/-! ### list facts -/

/-- in a list whose second components increase strictly, the i-th is at least `m + i` when all are ≥ m -/
theorem snd_ge_index (l : List (Nat × Nat)) (m : Nat) (hp : l.Pairwise (fun a b => a.2 < b.2))
    (hm : ∀ w ∈ l, m ≤ w.2) (i : Nat) (h : i < l.length) : m + i ≤ (l[i]).2 := by
  induction l generalizing m i with
  | nil => simp at h
  | cons a as ih =>
    cases i with
    | zero => simpa using hm a (by simp)
    | succ j =>
      rw [List.pairwise_cons] at hp
      have hm' : ∀ w ∈ as, a.2 + 1 ≤ w.2 := fun w hw => hp.1 w hw
      have := ih (a.2 + 1) hp.2 hm' j (by simpa using h)
      have ha := hm a (by simp)
      simp only [List.getElem_cons_succ]
      omega

/-- at most `n + 1` positions of a list satisfy a predicate that fails at every position above `n` -/
theorem countP_le_of_index_bound {α} (p : α → Bool) (l : List α) (n : Nat)
    (h : ∀ i (hi : i < l.length), p (l[i]) = true → i ≤ n) : l.countP p ≤ n + 1 := by
  have hsplit : l = l.take (n + 1) ++ l.drop (n + 1) := (List.take_append_drop _ _).symm
  rw [hsplit, List.countP_append]
  have h1 : (l.take (n + 1)).countP p ≤ n + 1 :=
    Nat.le_trans (List.countP_le_length) (by simp; omega)
  have h2 : (l.drop (n + 1)).countP p = 0 := by
    rw [List.countP_eq_zero]
    intro a ha
    obtain ⟨j, hj, rfl⟩ := List.getElem_of_mem ha
    intro hpa
    rw [List.getElem_drop] at hpa
    have := h (n + 1 + j) (by simp at hj; omega) hpa
    omega
  omega

/-! ### the bounds -/

/-- the ghost list is parallel to what the untimed machine has written -/
theorem writes_parallel_sent (evs : List TEvent) :
    (treach H P evs).writes.length = (treach H P evs).logic.sent.length := by
  unfold treach
  suffices h : ∀ (s : TState), s.writes.length = s.logic.sent.length →
      (trun H P s evs).writes.length = (trun H P s evs).logic.sent.length from
    h (tinit P) (by
      have hs : (init P).sent = [] := by unfold init; cases P.wire <;> rfl
      simp [tinit, hs])
  intro s hs
  induction evs generalizing s with
  | nil => exact hs
  | cons te es ih =>
    apply ih
    rcases te with ⟨t, x⟩
    cases x with
    | fire k => exact hs
    | ev e =>
      rcases step_sent H P s.logic e with h1 | h1
      · simp [tstep, h1, hs]
      · simp [tstep, h1, hs]

/-- 1. never early: the i-th write (0-based: the i-th RETRANSMISSION for i ≥ 1) does not happen before
    `t0 + i·d`, where `t0` is the instant of the first write (ticker creation) -/
theorem resend_not_early (evs : List TEvent) (hw : wellTimed H P evs = true)
    (i : Nat) (h : i < (treach H P evs).writes.length) :
    (treach H P evs).t0 + i * period P ≤ ((treach H P evs).writes[i]).1 := by
  have inv := tinv_reach H P evs hw
  have h1 := snd_ge_index _ 0 inv.incr (fun _ _ => Nat.zero_le _) i h
  have h2 := inv.due_le _ (List.getElem_mem h)
  have h3 : i * period P ≤ ((treach H P evs).writes[i]).2 * period P :=
    Nat.mul_le_mul_right _ (by omega)
  omega

theorem period_pos (hr : P.retry > 0) : 0 < period P := by
  unfold period
  omega

theorem period_zero (hr : P.retry ≤ 0) : period P = 0 := by
  unfold period
  omega

/-- with `Retry ≤ 0` nothing but the first write is ever recorded (the untimed theorem, through the refinement) -/
theorem writes_le_one_without_retry (hr : P.retry ≤ 0) (evs : List TEvent) :
    (treach H P evs).writes.length ≤ 1 := by
  rw [writes_parallel_sent, timed_refines]
  exact (inv_run H P (erase evs)).no_retry_one hr

/-- 2a. a write that has happened by `T` has index at most `(T - t0) / d` -/
theorem resend_index_le (evs : List TEvent) (hw : wellTimed H P evs = true) (T i : Nat)
    (h : i < (treach H P evs).writes.length) (hT : ((treach H P evs).writes[i]).1 ≤ T) :
    i ≤ (T - (treach H P evs).t0) / period P := by
  by_cases hr : P.retry > 0
  · have h1 := resend_not_early H P evs hw i h
    rw [Nat.le_div_iff_mul_le (period_pos P hr)]
    omega
  · have := writes_le_one_without_retry H P (by omega) evs
    have hi : i = 0 := by omega
    subst hi
    exact Nat.zero_le _

/-- 2b. the number of writes that have happened by `T` is at most `1 + (T - t0) / d` -/
theorem resend_count_le (evs : List TEvent) (hw : wellTimed H P evs = true) (T : Nat) :
    (treach H P evs).writes.countP (fun w => decide (w.1 ≤ T)) ≤ 1 + (T - (treach H P evs).t0) / period P := by
  have := countP_le_of_index_bound (fun w : Nat × Nat => decide (w.1 ≤ T)) (treach H P evs).writes
    ((T - (treach H P evs).t0) / period P)
    (fun i hi hp => resend_index_le H P evs hw T i hi (by simpa using hp))
  generalize (T - (treach H P evs).t0) / period P = q at this ⊢
  omega

/-- 2c. … in particular everything written so far, at any instant `T` not before the last event -/
theorem sent_length_le (evs : List TEvent) (hw : wellTimed H P evs = true) (T : Nat)
    (hT : (treach H P evs).now ≤ T) :
    (treach H P evs).logic.sent.length ≤ 1 + (T - (treach H P evs).t0) / period P := by
  rw [← writes_parallel_sent]
  cases hl : (treach H P evs).writes.length with
  | zero => exact Nat.zero_le _
  | succ n =>
    have inv := tinv_reach H P evs hw
    have hn : n < (treach H P evs).writes.length := by omega
    have := resend_index_le H P evs hw T n hn
      (Nat.le_trans (inv.times_le _ (List.getElem_mem hn)) hT)
    generalize (T - (treach H P evs).t0) / period P = q at this ⊢
    omega

/-- 3. two consecutive writes: the ticks that caused them are different firings (the later one has the
    larger number), so the second write comes no earlier than one interval after the DUE time of the
    first one's tick — that is, at least `d` minus the lateness of the first write after it.  Nothing
    more is true: after a late receive the next one may follow at once (see the example in Props/C08). -/
theorem resend_spacing_or_late (evs : List TEvent) (hw : wellTimed H P evs = true)
    (i : Nat) (h : i + 1 < (treach H P evs).writes.length) :
    let s := treach H P evs
    let a := s.writes[i]
    let b := s.writes[i + 1]
    a.2 < b.2 ∧ a.1 ≤ b.1 ∧ due P s a.2 ≤ a.1 ∧ due P s a.2 + period P ≤ b.1 ∧
      a.1 + period P ≤ b.1 + (a.1 - due P s a.2) := by
  intro s a b
  have inv := tinv_reach H P evs hw
  have h1 : a.2 < b.2 := (List.pairwise_iff_getElem.1 inv.incr) i (i + 1) (by omega) h (by omega)
  have h2 : a.1 ≤ b.1 := (List.pairwise_iff_getElem.1 inv.sorted) i (i + 1) (by omega) h (by omega)
  have h3 : s.t0 + a.2 * period P ≤ a.1 := inv.due_le a (List.getElem_mem _)
  have h4 : s.t0 + b.2 * period P ≤ b.1 := inv.due_le b (List.getElem_mem _)
  have h5 : (a.2 + 1) * period P ≤ b.2 * period P := Nat.mul_le_mul_right _ h1
  rw [Nat.add_mul] at h5
  unfold due
  refine ⟨h1, h2, h3, ?_, ?_⟩ <;> omega

/-- 5. `Retry ≤ 0`: no ticker is ever created, so neither a delivery nor a receive is ever enabled, no
    well-timed sequence contains one, and at most the first write happens. -/
theorem no_resend_without_retry_timed (hr : P.retry ≤ 0) (evs : List TEvent) (hw : wellTimed H P evs = true) :
    (treach H P evs).ticker = none ∧
    (∀ t k, enabled P (treach H P evs) (t, .fire k) = false) ∧
    (∀ t, enabled P (treach H P evs) (t, .ev .tick) = false) ∧
    (∀ te, te ∈ evs → te.2 ≠ .ev .tick ∧ ∀ k, te.2 ≠ .fire k) ∧
    (treach H P evs).logic.sent.length ≤ 1 := by
  have hnone : ∀ evs', wellTimed H P evs' = true → (treach H P evs').ticker = none := by
    intro evs' hw'
    cases htk : (treach H P evs').ticker with
    | none => rfl
    | some tk => exact absurd ((tinv_reach H P evs' hw').tick tk htk).retry_pos (by omega)
  have hn := hnone evs hw
  refine ⟨hn, fun t k => by simp [enabled, hn], fun t => by simp [enabled, hn], ?_, ?_⟩
  · intro te hte
    obtain ⟨a, b, rfl⟩ := List.append_of_mem hte
    have hwa := wellTimed_prefix H P a (te :: b) hw
    have hna := hnone a hwa
    unfold wellTimed at hw
    rw [wellTimedFrom_append] at hw
    simp only [wellTimedFrom, Bool.and_eq_true] at hw
    have hen : enabled P (treach H P a) te = true := hw.2.1
    rcases te with ⟨t, x⟩
    constructor
    · intro hx
      simp only at hx
      subst hx
      simp [enabled, hna] at hen
    · intro k hx
      simp only at hx
      subst hx
      simp [enabled, hna] at hen
  · rw [← writes_parallel_sent]
    exact writes_le_one_without_retry H P hr evs

/-! ### 4. the lower bound: a punctual runtime and a helper with latency ≤ L < d lose no tick -/

/-- while the call waits and its helper runs: nothing was lost, every receive caused a write, and what
    waits in the channel is the latest firing -/
def Prompt (s : TState) : Prop :=
  s.logic.phase = .waiting → s.logic.helperAlive = true → ∀ tk, s.ticker = some tk →
    tk.lost = 0 ∧ s.writes.length = tk.taken + 1 ∧ ∀ k, tk.chan = some k → k + 1 = tk.next

theorem prompt_init : Prompt (tinit P) := by
  intro _ _ tk htk
  simp [tinit] at htk

theorem prompt_step (L : Nat) (hL : L < period P) (s : TState) (te : TEvent) (h : TInv P s)
    (hj : Prompt s) (he : enabled P s te = true) (ho : onTime P L s te.1 = true)
    (hs : noSkip s te = true) : Prompt (tstep H P s te) := by
  rcases te with ⟨t, x⟩
  cases x with
  | fire k =>
    intro hp ha tk' htk'
    rw [tstep_fire] at hp ha htk'
    simp only at hp ha htk'
    cases htk : s.ticker with
    | none => rw [htk] at htk'; simp at htk'
    | some tk =>
      rw [htk] at htk'
      simp only [Option.map_some, Option.some.injEq] at htk'
      subst htk'
      obtain ⟨j1, j2, j3⟩ := hj hp ha tk htk
      simp only [enabled, htk, Bool.and_eq_true, decide_eq_true_eq] at he
      have hdue : s.t0 + k * period P ≤ t := he.2.2
      simp only [noSkip, htk, decide_eq_true_eq] at hs
      subst hs
      cases hc : tk.chan with
      | some k0 =>
        exfalso
        simp only [onTime, htk, hc, Bool.and_eq_true, decide_eq_true_eq] at ho
        have h0 : s.t0 + k0 * period P + L ≥ t := ho.2
        have h1 := j3 k0 hc
        rw [← h1, Nat.add_mul] at hdue
        omega
      | none =>
        simp only [Ticker.deliver, hc]
        refine ⟨by simp [j1], j2, ?_⟩
        intro k' hk'
        simp only [Option.some.injEq] at hk'
        omega
  | ev e =>
    by_cases hd : e = .dialOk ∧ s.logic.phase = .dialing
    · obtain ⟨rfl, hph⟩ := hd
      obtain ⟨_, hwn⟩ := h.dialing hph
      rw [tstep_ev_dial H P s t hph, hwn]
      intro _ _ tk htk
      by_cases hr : P.retry > 0
      · simp only [hr, if_true, Option.some.injEq] at htk
        subst htk
        simp [Ticker.fresh]
      · simp [hr] at htk
    · by_cases ht : e = .tick
      · subst ht
        rw [tstep_ev_tick]
        intro hp ha tk' htk'
        simp only at hp ha htk'
        have hpw : s.logic.phase = .waiting := by
          rcases step_waiting_pre H P s.logic .tick hp with h1 | ⟨_, h2⟩
          · exact h1
          · cases h2
        have hal := step_alive_pre H P s.logic .tick hpw ha
        cases htk : s.ticker with
        | none => rw [htk] at htk'; simp at htk'
        | some tk =>
          rw [htk] at htk'
          simp only [Option.map_some, Option.some.injEq] at htk'
          subst htk'
          obtain ⟨j1, j2, j3⟩ := hj hpw hal tk htk
          have ti := h.tick tk htk
          simp only [enabled, htk, Bool.and_eq_true, decide_eq_true_eq] at he
          obtain ⟨k, hk⟩ := Option.isSome_iff_exists.1 he.2.1
          have hc : s.logic.phase = .waiting ∧ P.retry > 0 ∧ s.logic.helperAlive = true :=
            ⟨hpw, ti.retry_pos, hal⟩
          rw [if_pos hc]
          simp [Ticker.take, hk, j1, j2]
      · rw [tstep_ev_other H P s t e hd ht]
        intro hp ha tk htk
        simp only at hp ha htk
        have hpw : s.logic.phase = .waiting := by
          rcases step_waiting_pre H P s.logic e hp with h1 | ⟨h2, h3⟩
          · exact h1
          · exact absurd ⟨h3, h2⟩ hd
        exact hj hpw (step_alive_pre H P s.logic e hpw ha) tk htk

theorem prompt_run_from (L : Nat) (hL : L < period P) (s : TState) (evs : List TEvent) (h : TInv P s)
    (hj : Prompt s) (hw : wellTimedFrom H P s evs = true) (hr : responsiveFrom H P L s evs = true) :
    Prompt (trun H P s evs) := by
  induction evs generalizing s with
  | nil => exact hj
  | cons te es ih =>
    simp only [wellTimedFrom, Bool.and_eq_true] at hw
    simp only [responsiveFrom, Bool.and_eq_true] at hr
    exact ih (tstep H P s te) (tinv_step H P s te h hw.1)
      (prompt_step H P L hL s te h hj hw.1 hr.1.1 hr.1.2) hw.2 hr.2

/-- 4. Lower bound.  Let the interval be positive and `L < d`.  Suppose that along the run, whenever
    anything happens, neither the next firing nor the tick waiting in the channel is overdue by more
    than `L` and the runtime skips no firing (`responsive`), that the call still waits and its helper
    runs, and that at the instant `T` of the observation the deadline `due + L` of what is outstanding
    has not been reached (`settled`).  Then no tick was ever lost, and at least `(T - t0 - L) / d`
    retransmissions have happened. -/
theorem resend_count_ge_under_latency (hr : P.retry > 0) (L : Nat) (hL : L < period P)
    (evs : List TEvent) (hw : wellTimed H P evs = true) (hresp : responsive H P L evs = true)
    (T : Nat) (hset : settled P L (treach H P evs) T = true)
    (hwait : (treach H P evs).logic.phase = .waiting)
    (halive : (treach H P evs).logic.helperAlive = true) :
    (∀ tk, (treach H P evs).ticker = some tk → tk.lost = 0) ∧
    (T - (treach H P evs).t0 - L) / period P ≤ (treach H P evs).logic.sent.length - 1 := by
  have inv := tinv_reach H P evs hw
  have hp : Prompt (treach H P evs) :=
    prompt_run_from H P L hL (tinit P) evs (tinv_init P) (prompt_init P) hw hresp
  have hd := period_pos P hr
  cases htk : (treach H P evs).ticker with
  | none => exact absurd htk (inv.waiting_ticker hwait hr)
  | some tk =>
    obtain ⟨j1, j2, j3⟩ := hp hwait halive tk htk
    refine ⟨fun tk' h' => by cases h'; exact j1, ?_⟩
    rw [← writes_parallel_sent, j2]
    have hcons := (inv.tick tk htk).conserve
    simp only [settled, htk, Bool.and_eq_true, decide_eq_true_eq] at hset
    have hT : T < (treach H P evs).t0 + (tk.taken + 1) * period P + L := by
      cases hc : tk.chan with
      | none =>
        rw [hc] at hcons
        simp at hcons
        have hn : tk.next = tk.taken + 1 := by omega
        have h1 := hset.1
        simp only [due, hn] at h1
        exact h1
      | some k =>
        rw [hc] at hcons hset
        have h1 : T < due P (treach H P evs) k + L := by simpa using hset.2
        have h2 := j3 k hc
        simp at hcons
        have hk : k = tk.taken + 1 := by omega
        simp only [due, hk] at h1
        exact h1
    have hpos : 0 < (tk.taken + 1) * period P := Nat.mul_pos (by omega) hd
    have hlt : T - (treach H P evs).t0 - L < (tk.taken + 1) * period P := by omega
    have := (Nat.div_lt_iff_lt_mul hd).2 hlt
    generalize (T - (treach H P evs).t0 - L) / period P = q at this ⊢
    omega

/-! ### the driver's predicates hold of every observation that is consistent with a well-timed run -/

theorem obsNotEarlyFrom_iff (d tol : Nat) (j : Nat) (as : List Nat) :
    obsNotEarlyFrom d tol j as = true ↔ ∀ i (h : i < as.length), (j + i) * d ≤ as[i] + tol := by
  induction as generalizing j with
  | nil => simp [obsNotEarlyFrom]
  | cons a as ih =>
    simp only [obsNotEarlyFrom, Bool.and_eq_true, decide_eq_true_eq, ih]
    constructor
    · rintro ⟨h0, h1⟩ i hi
      cases i with
      | zero => simpa using h0
      | succ i =>
        have := h1 i (by simpa using hi)
        simp only [List.getElem_cons_succ]
        rw [show j + (i + 1) = j + 1 + i by omega]
        exact this
    · intro h
      have h0 := h 0 (Nat.zero_lt_succ _)
      simp only [Nat.add_zero, List.getElem_cons_zero] at h0
      refine ⟨h0, fun i hi => ?_⟩
      have := h (i + 1) (by simpa using hi)
      simp only [List.getElem_cons_succ] at this
      rw [show j + 1 + i = j + (i + 1) by omega]
      exact this

/-- Let `arr` be instants (on a clock whose origin `c` is not after `t0`) at which the writes of a
    well-timed run were SEEN (each not before it happened), and `fin` an instant not before the last
    event.  Then, with any allowance `tol`, no datagram is seen early and there are not more of them
    than `1 + (fin + tol) / d` — the two predicates the driver evaluates on the harness's raw numbers. -/
theorem observation_within_model_bounds (evs : List TEvent) (hw : wellTimed H P evs = true)
    (c : Nat) (hc : c ≤ (treach H P evs).t0) (arr : List Nat) (fin tol : Nat)
    (hlen : arr.length = (treach H P evs).writes.length)
    (harr : ∀ i (h1 : i < arr.length) (h2 : i < (treach H P evs).writes.length),
      ((treach H P evs).writes[i]).1 ≤ c + arr[i])
    (hfin : (treach H P evs).now ≤ c + fin) :
    obsNotEarly (period P) tol arr = true ∧ obsCountOk (period P) tol fin arr = true := by
  constructor
  · unfold obsNotEarly
    rw [obsNotEarlyFrom_iff]
    intro i hi
    have h2 : i < (treach H P evs).writes.length := by omega
    have h3 := resend_not_early H P evs hw i h2
    have h4 := harr i hi h2
    rw [Nat.zero_add]
    omega
  · unfold obsCountOk
    simp only [decide_eq_true_eq]
    have h1 := sent_length_le H P evs hw (c + fin) hfin
    rw [← writes_parallel_sent, ← hlen] at h1
    have h2 : (c + fin - (treach H P evs).t0) / period P ≤ (fin + tol) / period P :=
      Nat.div_le_div_right (by omega)
    generalize (c + fin - (treach H P evs).t0) / period P = q1 at h1 h2
    generalize (fin + tol) / period P = q2 at h2 ⊢
    omega

/-! ### a lossy observer: only a subsequence of the writes is seen (UDP loss, a peer that goes away) -/

/-- The upper bounds survive loss.  Let `ws` be ANY subsequence of the writes of a well-timed run (the
    datagrams that reached the observer, in order), `arr` the instants at which they were seen (each not
    before the write happened, on a clock whose origin `c` is not after `t0`), `fin` an instant not before
    the last event.  The i-th OBSERVED datagram is the write number ≥ i, so it is not seen before `i·d`;
    and there are not more observations than writes.  Hence both predicates the driver evaluates hold. -/
theorem observation_within_model_bounds_lossy (evs : List TEvent) (hw : wellTimed H P evs = true)
    (c : Nat) (hc : c ≤ (treach H P evs).t0) (ws : List (Nat × Nat)) (arr : List Nat) (fin tol : Nat)
    (hsub : ws.Sublist (treach H P evs).writes)
    (hlen : arr.length = ws.length)
    (harr : ∀ i (h1 : i < arr.length) (h2 : i < ws.length), (ws[i]).1 ≤ c + arr[i])
    (hfin : (treach H P evs).now ≤ c + fin) :
    obsNotEarly (period P) tol arr = true ∧ obsCountOk (period P) tol fin arr = true := by
  have inv := tinv_reach H P evs hw
  constructor
  · unfold obsNotEarly
    rw [obsNotEarlyFrom_iff]
    intro i hi
    have h2 : i < ws.length := by omega
    have hincr : ws.Pairwise (fun a b => a.2 < b.2) := inv.incr.sublist hsub
    have h3 := snd_ge_index ws 0 hincr (fun _ _ => Nat.zero_le _) i h2
    have h4 := inv.due_le _ (hsub.subset (List.getElem_mem h2))
    have h5 : i * period P ≤ (ws[i]).2 * period P := Nat.mul_le_mul_right _ (by omega)
    have h6 := harr i hi h2
    rw [Nat.zero_add]
    omega
  · unfold obsCountOk
    simp only [decide_eq_true_eq]
    have h1 := sent_length_le H P evs hw (c + fin) hfin
    rw [← writes_parallel_sent] at h1
    have h0 : arr.length ≤ (treach H P evs).writes.length := by
      rw [hlen]
      exact hsub.length_le
    have h2 : (c + fin - (treach H P evs).t0) / period P ≤ (fin + tol) / period P :=
      Nat.div_le_div_right (by omega)
    generalize (c + fin - (treach H P evs).t0) / period P = q1 at h1 h2
    generalize (fin + tol) / period P = q2 at h2 ⊢
    omega

/-- a strictly increasing map on an initial segment of the naturals is above the identity there -/
theorem strictMono_ge_id (f : Nat → Nat) (n : Nat) (hmono : ∀ i j, i < j → j < n → f i < f j)
    (i : Nat) (hi : i < n) : i ≤ f i := by
  induction i with
  | zero => exact Nat.zero_le _
  | succ k ih =>
    have h1 := ih (by omega)
    have h2 := hmono k (k + 1) (by omega) hi
    omega

/-- … the same with the observer given as a strictly increasing index map `f` from observations to writes
    (observation `i` is write number `f i`). -/
theorem observation_within_model_bounds_lossy_idx (evs : List TEvent) (hw : wellTimed H P evs = true)
    (c : Nat) (hc : c ≤ (treach H P evs).t0) (arr : List Nat) (f : Nat → Nat) (fin tol : Nat)
    (hmono : ∀ i j, i < j → j < arr.length → f i < f j)
    (hrange : ∀ i, i < arr.length → f i < (treach H P evs).writes.length)
    (harr : ∀ i (h1 : i < arr.length) (h2 : f i < (treach H P evs).writes.length),
      ((treach H P evs).writes[f i]).1 ≤ c + arr[i])
    (hfin : (treach H P evs).now ≤ c + fin) :
    obsNotEarly (period P) tol arr = true ∧ obsCountOk (period P) tol fin arr = true := by
  constructor
  · unfold obsNotEarly
    rw [obsNotEarlyFrom_iff]
    intro i hi
    have h2 := hrange i hi
    have h3 := resend_not_early H P evs hw (f i) h2
    have h4 := harr i hi h2
    have h5 : i * period P ≤ f i * period P :=
      Nat.mul_le_mul_right _ (strictMono_ge_id f arr.length hmono i hi)
    rw [Nat.zero_add]
    omega
  · unfold obsCountOk
    simp only [decide_eq_true_eq]
    have h1 := sent_length_le H P evs hw (c + fin) hfin
    rw [← writes_parallel_sent] at h1
    have h0 : arr.length ≤ (treach H P evs).writes.length := by
      cases hn : arr.length with
      | zero => exact Nat.zero_le _
      | succ n =>
        have h3 := strictMono_ge_id f arr.length hmono n (by omega)
        have h4 := hrange n (by omega)
        omega
    have h2 : (c + fin - (treach H P evs).t0) / period P ≤ (fin + tol) / period P :=
      Nat.div_le_div_right (by omega)
    generalize (c + fin - (treach H P evs).t0) / period P = q1 at h1 h2
    generalize (fin + tol) / period P = q2 at h2 ⊢
    omega

/-! ### the lower bound on an observation (a theorem only: the driver does not evaluate it) -/

/-- What would be asserted on a quiet machine.  Under the hypotheses of `resend_count_ge_under_latency`
    (positive interval, `L < d`, a `responsive L` run that is `settled` at `T`, the call still waiting, its
    helper running), a LOSSLESS observer (it has seen every write: `arr.length = writes.length`) whose
    estimate `t0'` of the first write is not before it (`t0 ≤ c + t0'`, e.g. the arrival of the first
    datagram) and who looks at an instant `c + fin ≤ T` has seen at least `1 + (fin - t0' - L) / d`
    datagrams. -/
theorem observation_lower_bound_under_latency (hr : P.retry > 0) (L : Nat) (hL : L < period P)
    (evs : List TEvent) (hw : wellTimed H P evs = true) (hresp : responsive H P L evs = true)
    (T : Nat) (hset : settled P L (treach H P evs) T = true)
    (hwait : (treach H P evs).logic.phase = .waiting)
    (halive : (treach H P evs).logic.helperAlive = true)
    (c t0' fin : Nat) (arr : List Nat)
    (hlen : arr.length = (treach H P evs).writes.length)
    (ht0 : (treach H P evs).t0 ≤ c + t0')
    (hfin : c + fin ≤ T) :
    obsCountGe (period P) L t0' fin arr = true := by
  have inv := tinv_reach H P evs hw
  have h1 := (resend_count_ge_under_latency H P hr L hL evs hw hresp T hset hwait halive).2
  rw [← writes_parallel_sent] at h1
  have hpos : 1 ≤ (treach H P evs).writes.length := by
    cases htk : (treach H P evs).ticker with
    | none => exact absurd htk (inv.waiting_ticker hwait hr)
    | some tk => exact (inv.tick tk htk).writes_pos
  unfold obsCountGe
  simp only [decide_eq_true_eq]
  have h2 : (fin - t0' - L) / period P ≤ (T - (treach H P evs).t0 - L) / period P :=
    Nat.div_le_div_right (by omega)
  rw [hlen]
  generalize (fin - t0' - L) / period P = q1 at h2 ⊢
  generalize (T - (treach H P evs).t0 - L) / period P = q2 at h1 h2
  omega

end RV.Exchange.Timed
