/-
  C13 — `X_Gets` in the heap model against the total model, for every descriptor.

  `hGetsH` decodes the stored values one after the other; each `decodeValueH` allocates, so a value
  returned early is read by the caller in a heap that later rounds have extended.  Two facts make the
  early values stable:
    * `Tb` (below): every slice a mirror returns lies in a buffer that EXISTS in the heap the mirror
      leaves (the upper bound that complements `Fr`, the lower bound of RV/Proofs/Prov.lean);
    * `Tr`: later calls leave every buffer that existed when they started unchanged.
  Hence a `GValH` that was in bounds in an earlier heap reads the same in every extension
  (`GValH.view_ext`).
-/
import RV.Proofs.ProvView
namespace RV
namespace Prov

/-! ### results lie in existing buffers -/

/-- all slices contained in `a` live in buffers `< k` -/
def Bd {α} [HasSlices α] (k : Nat) (a : α) : Prop := ∀ s ∈ slices a, s.buf < k

theorem Bd.mono {α} [HasSlices α] {k j : Nat} {a : α} (h : Bd k a) (hkj : k ≤ j) : Bd j a :=
  fun s hs => Nat.lt_of_lt_of_le (h s hs) hkj

theorem bd_err {α} [HasSlices α] (k : Nat) : Bd k (Res.err : Res α) := by intro x hx; simp at hx
theorem bd_fault {α} [HasSlices α] (k : Nat) : Bd k (Res.fault : Res α) := by intro x hx; simp at hx

/-- started in any heap with at least `k` buffers, `m` does not shrink the heap, and its result
    satisfies `Q` at the size of the heap it leaves -/
def Tb {α} (k : Nat) (m : M α) (Q : Nat → α → Prop) : Prop :=
  ∀ h, k ≤ h.length → h.length ≤ (m h).2.length ∧ Q (m h).2.length (m h).1

theorem tb_pure {α} {k : Nat} {a : α} {Q : Nat → α → Prop} (hq : ∀ j, k ≤ j → Q j a) : Tb k (pure a : M α) Q :=
  fun h hk => ⟨Nat.le_refl _, hq _ hk⟩

theorem tb_bind {α β} {k : Nat} {m : M α} {f : α → M β} {Q : Nat → α → Prop} {R : Nat → β → Prop}
    (hm : Tb k m Q) (hf : ∀ a j, k ≤ j → Q j a → Tb j (f a) R) : Tb k (m >>= f) R := by
  intro h hk
  obtain ⟨l1, q⟩ := hm h hk
  obtain ⟨l2, r⟩ := hf (m h).1 (m h).2.length (Nat.le_trans hk l1) q (m h).2 (Nat.le_refl _)
  exact ⟨Nat.le_trans l1 l2, r⟩

theorem tb_conseq {α} {k : Nat} {m : M α} {Q R : Nat → α → Prop} (hm : Tb k m Q) (hqr : ∀ j a, Q j a → R j a) :
    Tb k m R :=
  fun h hk => ⟨(hm h hk).1, hqr _ _ (hm h hk).2⟩

theorem tb_true {α} {k : Nat} {m : M α} {Q : Nat → α → Prop} (hm : Tb k m Q) : Tb k m (fun _ _ => True) :=
  tb_conseq hm (fun _ _ _ => trivial)

theorem tb_readS (k : Nat) (s : Slice) : Tb k (readS s) (fun _ _ => True) :=
  fun h _ => ⟨Nat.le_refl _, trivial⟩

theorem tb_copyNew (k : Nat) (d : Bytes) : Tb k (copyNew d) (fun j s => s.buf < j) :=
  fun h _ => ⟨by simp [copyNew], by simp [copyNew]⟩

theorem length_write (h : Heap) (s : Slice) (i : Nat) (v : UInt8) : (h.write s i v).length = h.length := by
  unfold Heap.write
  split <;> simp

theorem tb_writeS (k : Nat) (s : Slice) (i : Nat) (v : UInt8) : Tb k (writeS s i v) (fun _ _ => True) :=
  fun h _ => ⟨by simp [writeS, length_write], trivial⟩

theorem tb_writeRange (k : Nat) (s : Slice) (data : Bytes) (base : Nat) :
    Tb k (writeRange s base data) (fun _ _ => True) := by
  induction data generalizing base k with
  | nil => exact tb_pure (fun _ _ => trivial)
  | cons b bs ih => exact tb_bind (tb_writeS k s base b) (fun _ j _ _ => ih j (base + 1))

theorem tb_appendS (k : Nat) (s : Slice) (d : Bytes) : Tb k (appendS s d) (fun _ s' => s'.buf = s.buf) :=
  fun h _ => ⟨by simp [appendS], rfl⟩

/-! ### typed decoders -/

theorem tb_bytesH (k : Nat) (a : Slice) : Tb k (bytesH a) (fun j s => s.buf < j) :=
  tb_bind (tb_readS k a) (fun av j _ _ => tb_copyNew j av)

theorem bd_ok_slice {j : Nat} {s : Slice} (hs : s.buf < j) : Bd j (Res.ok s) := by
  intro x hx; simp at hx; subst hx; exact hs

theorem tb_copyDecH (k : Nat) (dec : Bytes → Res Bytes) (a : Slice) : Tb k (copyDecH dec a) (fun j r => Bd j r) := by
  unfold copyDecH
  refine tb_bind (tb_readS k a) (fun av j _ _ => ?_)
  split
  · exact tb_bind (tb_copyNew j _) (fun s j' hj' hs => tb_pure (fun j'' hj'' => bd_ok_slice (by omega)))
  · exact tb_pure (fun j' _ => bd_err j')
  · exact tb_pure (fun j' _ => bd_fault j')

theorem tb_ipv6PrefixH (k : Nat) (a : Slice) : Tb k (ipv6PrefixH a) (fun j r => Bd j r) := by
  unfold ipv6PrefixH
  refine tb_bind (tb_readS k a) (fun av j _ _ => ?_)
  split
  · exact tb_bind (tb_copyNew j _) (fun s j1 h1 hs => tb_bind (tb_copyNew j1 _) (fun s' j2 h2 hs' =>
      tb_pure (fun j3 h3 => by
        intro x hx; simp at hx
        rcases hx with rfl | rfl
        · omega
        · omega)))
  · exact tb_pure (fun j' _ => bd_err j')
  · exact tb_pure (fun j' _ => bd_fault j')

/-! ### passwords -/

theorem tb_upBlocksH (H : Hash) (sv : Bytes) (blocks : List Bytes) :
    ∀ (k : Nat) (dec : Slice) (i : Nat) (prev : Bytes), dec.buf < k →
      Tb k (upBlocksH H sv dec i prev blocks) (fun j s => s.buf < j) := by
  induction blocks with
  | nil => intro k dec i prev hd; exact tb_pure (fun j hj => Nat.lt_of_lt_of_le hd hj)
  | cons blk rest ih =>
    intro k dec i prev hd
    unfold upBlocksH
    refine tb_bind (tb_appendS k dec _) (fun dec' j1 h1 hd' => ?_)
    refine tb_bind (tb_readS j1 _) (fun cur j2 h2 _ => ?_)
    refine tb_bind (tb_writeRange j2 dec' _ i) (fun _ j3 h3 _ => ?_)
    exact ih j3 dec' (i + 16) blk (by rw [hd']; omega)

theorem tb_userPasswordH (k : Nat) (H : Hash) (a secret : Slice) (ra : Bytes) :
    Tb k (userPasswordH H a secret ra) (fun j r => Bd j r) := by
  unfold userPasswordH
  refine tb_bind (tb_readS k a) (fun av j1 _ _ => ?_)
  refine tb_bind (tb_readS j1 secret) (fun sv j2 _ _ => ?_)
  split
  · exact tb_pure (fun j' _ => bd_err j')
  split
  · exact tb_pure (fun j' _ => bd_err j')
  split
  · exact tb_pure (fun j' _ => bd_err j')
  refine tb_bind (tb_copyNew j2 []) (fun dec j3 _ hd => ?_)
  refine tb_bind (tb_upBlocksH H sv _ j3 dec 0 ra hd) (fun dec' j4 _ hd' => ?_)
  refine tb_bind (tb_readS j4 dec') (fun dv j5 h5 _ => ?_)
  exact tb_pure (fun j6 h6 => bd_ok_slice (show (dec'.sub 0 _).buf < j6 from by
    show dec'.buf < j6; omega))

theorem tb_tunnelPasswordH (k : Nat) (H : Hash) (a secret : Slice) (ra : Bytes) :
    Tb k (tunnelPasswordH H a secret ra) (fun j r => Bd j r) := by
  unfold tunnelPasswordH
  refine tb_bind (tb_readS k a) (fun av j1 _ _ => ?_)
  refine tb_bind (tb_readS j1 secret) (fun sv j2 _ _ => ?_)
  split
  · refine tb_bind (tb_copyNew j2 _) (fun salt j3 _ hs => ?_)
    refine tb_bind (tb_copyNew j3 _) (fun pt j4 h4 hp => ?_)
    refine tb_bind (tb_writeRange j4 pt _ 0) (fun _ j5 h5 _ => ?_)
    refine tb_pure (fun j6 h6 => ?_)
    intro x hx
    simp at hx
    rcases hx with rfl | rfl
    · show pt.buf < j6; omega
    · omega
  · exact tb_pure (fun j' _ => bd_err j')
  · exact tb_pure (fun j' _ => bd_fault j')

theorem tb_tpPlainH (k : Nat) (H : Hash) (a secret : Slice) (ra : Bytes) :
    Tb k (tpPlainH H a secret ra) (fun j r => Bd j r) := by
  unfold tpPlainH
  refine tb_bind (tb_tunnelPasswordH k H a secret ra) (fun r j _ hr => ?_)
  split
  · exact tb_pure (fun j' hj' => bd_ok_slice (Nat.lt_of_lt_of_le (hr _ (by simp)) hj'))
  · exact tb_pure (fun j' _ => bd_err j')
  · exact tb_pure (fun j' _ => bd_fault j')

/-! ### the body of the generated getters -/

theorem bd_okBytes {j : Nat} {r : Res Slice} (t : UInt8) (hr : Bd j r) : Bd j (okBytes t r) := by
  unfold okBytes
  cases r with
  | ok s => intro x hx; simp at hx; subst hx; exact hr _ (by simp)
  | err => exact bd_err j
  | fault => exact bd_fault j

theorem tb_intTail (k : Nat) (w : Nat) (t : UInt8) (a : Slice) :
    Tb k (do
      let av ← readS a
      if av.length ≠ w then pure .err else pure (.ok (t, GValH.nat (beNat av))) : M (Res (UInt8 × GValH)))
      (fun j r => Bd j r) := by
  refine tb_bind (tb_readS k a) (fun av j _ _ => ?_)
  split
  · exact tb_pure (fun j' _ => bd_err j')
  · exact tb_pure (fun j' _ => by intro x hx; simp at hx)

theorem tb_tagStripIntH (k : Nat) (a : Slice) : Tb k (tagStripIntH a) (fun _ _ => True) := by
  unfold tagStripIntH
  refine tb_bind (tb_readS k a) (fun av j _ _ => ?_)
  split
  · refine tb_bind (tb_readS j _) (fun rest j1 _ _ => ?_)
    exact tb_bind (tb_copyNew j1 _) (fun c j2 _ _ => tb_pure (fun _ _ => trivial))
  · exact tb_pure (fun _ _ => trivial)

/-- every slice `decodeValueH` returns lies in a buffer of the heap it leaves -/
theorem tb_decodeValueH (k : Nat) (H : Hash) (d : Desc) (a secret : Slice) (auth : Bytes) :
    Tb k (decodeValueH H d a secret auth) (fun j r => Bd j r) := by
  unfold decodeValueH
  cases hk : d.kind <;> simp only []
  case string | octets | concat =>
    refine tb_bind (tb_readS k a) (fun av j _ _ => ?_)
    have hinner : Tb j (match d.encrypt with
             | 1 => userPasswordH H (if d.hasTag = true then tagStripH av a else (0, a)).2 secret auth
             | 2 => tpPlainH H (if d.hasTag = true then tagStripH av a else (0, a)).2 secret auth
             | _ => (do let s ← bytesH (if d.hasTag = true then tagStripH av a else (0, a)).2; pure (.ok s) : M (Res Slice)))
             (fun j r => Bd j r) := by
      split
      · exact tb_userPasswordH j H _ secret auth
      · exact tb_tpPlainH j H _ secret auth
      · exact tb_bind (tb_bytesH j _) (fun s j1 _ hs => tb_pure (fun j2 h2 => bd_ok_slice (by omega)))
    refine tb_bind hinner (fun r j1 _ hr => ?_)
    split
    · split
      · exact tb_pure (fun j' _ => bd_err j')
      · exact tb_pure (fun j' hj' => by
          intro x hx; simp at hx; subst hx
          exact Nat.lt_of_lt_of_le (hr _ (by simp)) hj')
    · exact tb_pure (fun j' _ => bd_err j')
    · exact tb_pure (fun j' _ => bd_fault j')
  case ipaddr | ipv6addr =>
    have hfirst : Tb k (if d.usesSalt = true then tpPlainH H a secret auth else (pure (.ok a) : M (Res Slice)))
        (fun _ _ => True) := by
      split
      · exact tb_true (tb_tpPlainH k H a secret auth)
      · exact tb_pure (fun _ _ => trivial)
    refine tb_bind hfirst (fun r j _ _ => ?_)
    split
    · rename_i a'
      have hip : ∀ (c : Prop) [Decidable c], Tb j (if c then ipAddrH a' else ipv6AddrH a') (fun j r => Bd j r) := by
        intro c _
        split
        · exact tb_copyDecH j _ a'
        · exact tb_copyDecH j _ a'
      exact tb_bind (hip _) (fun ip j1 _ hip => tb_pure (fun j2 h2 => bd_okBytes 0 (hip.mono h2)))
    · exact tb_pure (fun j' _ => bd_err j')
    · exact tb_pure (fun j' _ => bd_fault j')
  case ifid =>
    exact tb_bind (tb_copyDecH k _ a) (fun x j _ hx => tb_pure (fun j2 h2 => bd_okBytes 0 (hx.mono h2)))
  case ipv6prefix =>
    refine tb_bind (tb_ipv6PrefixH k a) (fun r j _ hr => ?_)
    split
    · exact tb_pure (fun j' hj' => by
        intro x hx; simp at hx
        exact Nat.lt_of_lt_of_le (hr x (by simp; exact hx)) hj')
    · exact tb_pure (fun j' _ => bd_err j')
    · exact tb_pure (fun j' _ => bd_fault j')
  case date =>
    refine tb_bind (Q := fun _ _ => True) (tb_bind (tb_readS k a) (fun _ _ _ _ => tb_pure (fun _ _ => trivial)))
      (fun r j _ _ => ?_)
    split
    · exact tb_pure (fun j' _ => by intro x hx; simp at hx)
    · exact tb_pure (fun j' _ => bd_err j')
    · exact tb_pure (fun j' _ => bd_fault j')
  case byte =>
    refine tb_bind (tb_readS k a) (fun av j _ _ => ?_)
    split
    · exact tb_pure (fun j' _ => bd_err j')
    · exact tb_pure (fun j' _ => by intro x hx; simp at hx)
  case integer | integer64 | short =>
    simp only [Kind.intBytes]
    split
    · refine tb_bind (tb_tagStripIntH k a) (fun ta j _ _ => ?_)
      exact tb_intTail j _ ta.1 ta.2
    · have hfirst : Tb k (if d.usesSalt = true then tpPlainH H a secret auth else (pure (.ok a) : M (Res Slice)))
          (fun _ _ => True) := by
        split
        · exact tb_true (tb_tpPlainH k H a secret auth)
        · exact tb_pure (fun _ _ => trivial)
      refine tb_bind hfirst (fun r j _ _ => ?_)
      split
      · exact tb_intTail j _ 0 _
      · exact tb_pure (fun j' _ => bd_err j')
      · exact tb_pure (fun j' _ => bd_fault j')

/-- for one call -/
theorem decodeValueH_bound (H : Hash) (d : Desc) (a secret : Slice) (auth : Bytes) (h : Heap) :
    Bd (decodeValueH H d a secret auth h).2.length (decodeValueH H d a secret auth h).1 :=
  (tb_decodeValueH h.length H d a secret auth h (Nat.le_refl _)).2

/-! ### monotonicity: a value in bounds reads the same in every extension of the heap -/

theorem GValH.view_ext {n : Nat} {g g' : Heap} (e : Ext n g g') (v : GValH) (hv : Bd n v) :
    v.view g' = v.view g := by
  cases v with
  | bytes s => simp only [GValH.view]; rw [e.read s (hv s (by simp))]
  | nat n => rfl
  | time u => rfl
  | pfx ip mask =>
    simp only [GValH.view]
    rw [e.read ip (hv ip (by simp)), e.read mask (hv mask (by simp))]

/-! ### `X_Gets` -/

/-- what the caller sees: every returned (tag, value) read through its slices in heap `g`, and the
    success flag -/
def viewGets (g : Heap) (r : List (UInt8 × GValH) × Bool) : List (UInt8 × GVal) × Bool :=
  (r.1.map fun tv => (tv.1, tv.2.view g), r.2)

theorem viewGets_ext {n : Nat} {g g' : Heap} (e : Ext n g g') (r : List (UInt8 × GValH) × Bool) (hr : Bd n r) :
    viewGets g' r = viewGets g r := by
  unfold viewGets
  congr 1
  apply List.map_congr_left
  intro tv htv
  have hb : Bd n tv.2 := by
    intro s hs
    refine hr s ?_
    show s ∈ slices r.1 ++ slices r.2
    refine List.mem_append_left _ ?_
    show s ∈ r.1.flatMap slices
    exact List.mem_flatMap.2 ⟨tv, htv, by show s ∈ slices tv.1 ++ slices tv.2; simpa using hs⟩
  rw [GValH.view_ext e tv.2 hb]

/-- the loop of `X_Gets`: the values, read in the FINAL heap, are the model's, and all of them lie in
    buffers of that heap -/
theorem hGetsGoH_view (H : Hash) (hH : ∀ x, (H x).length = 16) (d : Desc) (secret : Slice) (auth : Bytes)
    (raws : List Slice) :
    ∀ (g : Heap), secret.buf < g.length → (∀ s ∈ raws, s.buf < g.length) →
      viewGets (hGetsGoH H d secret auth raws g).2 (hGetsGoH H d secret auth raws g).1 =
        hGets.go H d (g.read secret) auth (raws.map g.read) ∧
      Bd (hGetsGoH H d secret auth raws g).2.length (hGetsGoH H d secret auth raws g).1 := by
  induction raws with
  | nil =>
    intro g _ _
    exact ⟨rfl, by intro x hx; simp [hGetsGoH] at hx⟩
  | cons a rest ih =>
    intro g hs hr
    have hd := decodeValueH_view_all H hH d a secret auth g
    have hb := decodeValueH_bound H d a secret auth g
    have e1 : Ext g.length g (decodeValueH H d a secret auth g).2 :=
      (tr_decodeValueH g.length H d a secret auth g (Nat.le_refl _)).1
    rw [List.map_cons]
    unfold hGetsGoH
    rw [bind_apply]
    generalize decodeValueH H d a secret auth g = r at hd hb e1
    obtain ⟨res, g1⟩ := r
    simp only [] at hd hb e1 ⊢
    cases res with
    | ok tv =>
      simp only [viewDec] at hd
      simp only []
      rw [bind_apply, pure_apply]
      have hr1 : ∀ s ∈ rest, s.buf < g1.length :=
        fun s hs' => Nat.lt_of_lt_of_le (hr s (List.mem_cons_of_mem _ hs')) e1.1
      obtain ⟨ihv, ihb⟩ := ih g1 (Nat.lt_of_lt_of_le hs e1.1) hr1
      have e2 : Ext g1.length g1 (hGetsGoH H d secret auth rest g1).2 :=
        (tr_hGetsGoH g1.length H d secret auth rest g1 (Nat.le_refl _)).1
      have hrest : rest.map g1.read = rest.map g.read :=
        List.map_congr_left (fun s hs' => e1.read s (hr s (List.mem_cons_of_mem _ hs')))
      rw [e1.read secret hs, hrest] at ihv
      have htv : Bd g1.length tv.2 := by
        intro s hs'
        exact hb s (by show s ∈ slices tv.1 ++ slices tv.2; simpa using hs')
      refine ⟨?_, ?_⟩
      · rw [hGets_go_cons_ok H d (g.read secret) auth (g.read a) _ _ hd.symm, ← ihv]
        simp only [viewGets, List.map_cons]
        rw [GValH.view_ext e2 tv.2 htv]
      · intro x hx
        simp only [slices_pair, slices_cons, slices_bool, List.append_nil, List.mem_append] at hx
        rcases hx with hx | hx
        · exact Nat.lt_of_lt_of_le (hb x (by simpa using hx)) e2.1
        · exact ihb x (show x ∈ slices _ ++ slices _ from List.mem_append_left _ hx)
    | err =>
      simp only [viewDec] at hd
      refine ⟨?_, by intro x hx; simp at hx⟩
      rw [hGets_go_cons_fail H d (g.read secret) auth (g.read a) _ (by intro tv; rw [← hd]; intro h; cases h)]
      rfl
    | fault =>
      simp only [viewDec] at hd
      refine ⟨?_, by intro x hx; simp at hx⟩
      rw [hGets_go_cons_fail H d (g.read secret) auth (g.read a) _ (by intro tv; rw [← hd]; intro h; cases h)]
      rfl

/-- `X_Gets` of EVERY attribute descriptor: the list the caller reads through the returned slices
    in the final heap, and the success flag, are the total model's -/
theorem hGetsH_view_all (H : Hash) (hH : ∀ x, (H x).length = 16) (d : Desc) (p : HPacket) (auth : Bytes)
    (h : Heap) (hp : p.below h.length) :
    viewGets (hGetsH H d p auth h).2 (hGetsH H d p auth h).1 =
      hGets H d (p.view h).attrs (h.read p.secret) auth := by
  obtain ⟨ext, he, hm, hb⟩ := rawSlicesH_view d p h hp
  unfold hGetsH
  rw [bind_apply, he, hGets_eq, ← hm]
  have hs : p.secret.buf < (h ++ ext).length := by
    have := hp.1; simp; omega
  rw [(hGetsGoH_view H hH d p.secret auth _ (h ++ ext) hs hb).1, read_append h ext p.secret hp.1]

/-- two `X_Gets` calls in a row show the caller the same list — every descriptor -/
theorem hGetsH_repeat_all (H : Hash) (hH : ∀ x, (H x).length = 16) (d : Desc) (p : HPacket) (auth : Bytes)
    (h : Heap) (hp : p.below h.length) :
    let r₁ := hGetsH H d p auth h
    let r₂ := hGetsH H d p auth r₁.2
    viewGets r₂.2 r₂.1 = viewGets r₁.2 r₁.1 := by
  intro r₁ r₂
  have hpure : Ext h.length h r₁.2 := (tr_hGetsH h.length H d p auth h (Nat.le_refl _)).1
  show viewGets (hGetsH H d p auth r₁.2).2 (hGetsH H d p auth r₁.2).1 =
    viewGets (hGetsH H d p auth h).2 (hGetsH H d p auth h).1
  rw [hGetsH_view_all H hH d p auth r₁.2 (below_mono p hp hpure.1), hGetsH_view_all H hH d p auth h hp,
    hpure.view p hp, hpure.read _ hp.1]

/-! ### results of `_GetsVendor`, `X_Gets` lie in existing buffers; later calls do not disturb them -/

theorem tb_vendorSpecificH (k : Nat) (a : Slice) : Tb k (vendorSpecificH a) (fun j r => Bd j r) := by
  unfold vendorSpecificH
  refine tb_bind (tb_readS k a) (fun av j _ _ => ?_)
  split
  · exact tb_bind (tb_copyNew j _) (fun s j1 _ hs => tb_pure (fun j2 h2 => by
      intro x hx; simp at hx; subst hx; omega))
  · exact tb_pure (fun j' _ => bd_err j')
  · exact tb_pure (fun j' _ => bd_fault j')

theorem tb_getsVendorH (vid : Nat) (typ : UInt8) (attrs : List (Int × Slice)) :
    ∀ k, Tb k (getsVendorH vid typ attrs) (fun j r => Bd j r) := by
  induction attrs with
  | nil => intro k; exact tb_pure (fun j _ => by intro x hx; simp at hx)
  | cons ts rest ih =>
    intro k
    unfold getsVendorH
    split
    · exact ih k
    · refine tb_bind (tb_vendorSpecificH k ts.2) (fun r j hj hr => ?_)
      split
      · rename_i id vsa
        have hv : vsa.buf < j := hr vsa (by simp)
        split
        · exact ih j
        · refine tb_bind (tb_readS j vsa) (fun bytes j1 h1 _ => ?_)
          refine tb_bind (ih j1) (fun tl j2 h2 htl => ?_)
          refine tb_pure (fun j3 h3 => ?_)
          intro x hx
          simp only [slices_append, List.mem_append] at hx
          rcases hx with hx | hx
          · have : x ∈ vsaGetsH typ vsa bytes := by
              simpa [HasSlices.slices] using hx
            rw [vsaGetsH_buf typ vsa bytes x this]; omega
          · exact Nat.lt_of_lt_of_le (htl x hx) h3
      · exact ih j

theorem tb_rawSlicesH (k : Nat) (d : Desc) (p : HPacket) : Tb k (rawSlicesH d p) (fun _ _ => True) := by
  unfold rawSlicesH
  split
  · exact tb_pure (fun _ _ => trivial)
  · exact tb_true (tb_getsVendorH _ _ _ k)

theorem tb_hGetsGoH (H : Hash) (d : Desc) (secret : Slice) (auth : Bytes) (raws : List Slice) :
    ∀ k, Tb k (hGetsGoH H d secret auth raws) (fun j r => Bd j r) := by
  induction raws with
  | nil => intro k; exact tb_pure (fun j _ => by intro x hx; simp at hx)
  | cons a rest ih =>
    intro k
    unfold hGetsGoH
    refine tb_bind (tb_decodeValueH k H d a secret auth) (fun r j _ hr => ?_)
    split
    · rename_i tv
      refine tb_bind (ih j) (fun tl j1 h1 htl => tb_pure (fun j2 h2 => ?_))
      intro x hx
      simp only [slices_pair, slices_cons, slices_bool, List.append_nil, List.mem_append] at hx
      rcases hx with hx | hx
      · have := hr x (by simpa using hx); omega
      · exact Nat.lt_of_lt_of_le (htl x (show x ∈ slices tl.1 ++ slices tl.2 from List.mem_append_left _ hx)) h2
    · exact tb_pure (fun j' _ => by intro x hx; simp at hx)

theorem tb_hGetsH (k : Nat) (H : Hash) (d : Desc) (p : HPacket) (auth : Bytes) :
    Tb k (hGetsH H d p auth) (fun j r => Bd j r) := by
  unfold hGetsH
  exact tb_bind (tb_rawSlicesH k d p) (fun raws j _ _ => tb_hGetsGoH H d p.secret auth raws j)

theorem hGetsH_bound (H : Hash) (d : Desc) (p : HPacket) (auth : Bytes) (h : Heap) :
    Bd (hGetsH H d p auth h).2.length (hGetsH H d p auth h).1 :=
  (tb_hGetsH h.length H d p auth h (Nat.le_refl _)).2

/-- the values of the FIRST call, read after ANY later pure call, are still what they were -/
theorem hGetsH_first_stable {α} (H : Hash) (d : Desc) (p : HPacket) (auth : Bytes) (h : Heap)
    (m : M α) (hm : PureObs m) :
    viewGets (m (hGetsH H d p auth h).2).2 (hGetsH H d p auth h).1 =
      viewGets (hGetsH H d p auth h).2 (hGetsH H d p auth h).1 :=
  viewGets_ext (hm _) _ (hGetsH_bound H d p auth h)

end Prov
end RV
