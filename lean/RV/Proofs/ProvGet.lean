/-
  C13 — `X_Get`, `X_LookupString`, `X_GetString`, `X_GetStrings` in the heap model
  (RV/Model/Prov.lean: `hGetH`, `hLookupStringH`, `hGetStringH`, `hGetStringsH`):
    * frame rules (`Tr`: nothing older is changed, results are in buffers the call allocated;
      `Tb`: results are in buffers that exist afterwards);
    * what the caller reads through the results is the total model's answer
      (`RV.hGet`, `RV.hLookupString`, `RV.hGetString`, `RV.hGetStrings`), for every descriptor.
-/
import RV.Proofs.ProvGets
import RV.Proofs.HelperGet
namespace RV
namespace Prov

/-! ### frame rules -/

theorem fr_get_none (n : Nat) (t : UInt8) : Fr n ((t, none) : UInt8 × Option GValH) := by
  intro x hx; simp at hx

theorem fr_get_bytes {n : Nat} (t : UInt8) {s : Slice} (hs : n ≤ s.buf) :
    Fr n ((t, some (GValH.bytes s)) : UInt8 × Option GValH) := by
  intro x hx; simp at hx; subst hx; exact hs

theorem fr_get_nat (n : Nat) (t : UInt8) (v : Nat) : Fr n ((t, some (GValH.nat v)) : UInt8 × Option GValH) := by
  intro x hx; simp at hx

theorem tr_getIntTail (n : Nat) (w : Nat) (t : UInt8) (a : Slice) :
    Tr n (do
      let av ← readS a
      if av.length ≠ w then pure (t, none) else pure (t, some (GValH.nat (beNat av))) : M (UInt8 × Option GValH))
      (Fr n) := by
  refine tr_bind (tr_readS n a) (fun av _ => ?_)
  split
  · exact tr_pure (fr_get_none n t)
  · exact tr_pure (fr_get_nat n t _)

theorem tr_lookupResultsH (n : Nat) (H : Hash) (d : Desc) (a secret : Slice) (auth : Bytes) :
    Tr n (lookupResultsH H d a secret auth) (Fr n) := by
  unfold lookupResultsH
  cases hk : d.kind <;> simp only []
  case string | octets | concat =>
    refine tr_bind (tr_readS n a) (fun av _ => ?_)
    have hinner : Tr n (match d.encrypt with
             | 1 => userPasswordH H (if d.hasTag = true then tagStripH av a else (0, a)).2 secret auth
             | 2 => tpPlainH H (if d.hasTag = true then tagStripH av a else (0, a)).2 secret auth
             | _ => (do let s ← bytesH (if d.hasTag = true then tagStripH av a else (0, a)).2; pure (.ok s) : M (Res Slice)))
             (Fr n) := by
      split
      · exact tr_userPasswordH n H _ secret auth
      · exact tr_tpPlainH n H _ secret auth
      · exact tr_bind (tr_bytesH n _) (fun s hs => tr_pure (by intro x hx; simp at hx; subst hx; exact hs))
    refine tr_bind hinner (fun r hr => ?_)
    split
    · exact tr_pure (fr_get_bytes _ (hr _ (by simp)))
    · exact tr_pure (fr_get_none n _)
    · exact tr_pure (fr_get_none n _)
  case ipaddr | ipv6addr =>
    have hfirst : Tr n (if d.usesSalt = true then tpPlainH H a secret auth else (pure (.ok a) : M (Res Slice)))
        (fun _ => True) := by
      split
      · exact tr_true (tr_tpPlainH n H a secret auth)
      · exact tr_pure trivial
    refine tr_bind hfirst (fun r _ => ?_)
    split
    · rename_i a'
      have hip : ∀ (c : Prop) [Decidable c], Tr n (if c then ipAddrH a' else ipv6AddrH a') (Fr n) := by
        intro c _
        split
        · exact tr_copyDecH n _ a'
        · exact tr_copyDecH n _ a'
      refine tr_bind (hip _) (fun ip hip => ?_)
      split
      · exact tr_pure (fr_get_bytes _ (hip _ (by simp)))
      · exact tr_pure (fr_get_none n _)
      · exact tr_pure (fr_get_none n _)
    · exact tr_pure (fr_get_none n _)
    · exact tr_pure (fr_get_none n _)
  case ifid =>
    refine tr_bind (tr_copyDecH n _ a) (fun x hx => ?_)
    split
    · exact tr_pure (fr_get_bytes _ (hx _ (by simp)))
    · exact tr_pure (fr_get_none n _)
    · exact tr_pure (fr_get_none n _)
  case ipv6prefix =>
    refine tr_bind (tr_ipv6PrefixH n a) (fun r hr => ?_)
    split
    · exact tr_pure (by intro x hx; simp at hx; exact hr x (by simp; exact hx))
    · exact tr_pure (fr_get_none n _)
    · exact tr_pure (fr_get_none n _)
  case date =>
    refine tr_bind (tr_scalar n a date (fun _ => True) (fun _ => trivial)) (fun r _ => ?_)
    split
    · exact tr_pure (by intro x hx; simp at hx)
    · exact tr_pure (fr_get_none n _)
    · exact tr_pure (fr_get_none n _)
  case byte =>
    refine tr_bind (tr_readS n a) (fun av _ => ?_)
    split
    · exact tr_pure (fr_get_none n _)
    · exact tr_pure (fr_get_nat n _ _)
  case integer | integer64 | short =>
    simp only [Kind.intBytes]
    split
    · refine tr_bind (tr_tagStripIntH n a) (fun ta _ => ?_)
      exact tr_getIntTail n _ ta.1 ta.2
    · have hfirst : Tr n (if d.usesSalt = true then tpPlainH H a secret auth else (pure (.ok a) : M (Res Slice)))
          (fun _ => True) := by
        split
        · exact tr_true (tr_tpPlainH n H a secret auth)
        · exact tr_pure trivial
      refine tr_bind hfirst (fun r _ => ?_)
      split
      · exact tr_getIntTail n _ 0 _
      · exact tr_pure (fr_get_none n _)
      · exact tr_pure (fr_get_none n _)

theorem tr_hGetH (n : Nat) (H : Hash) (d : Desc) (p : HPacket) (auth : Bytes) :
    Tr n (hGetH H d p auth) (Fr n) := by
  unfold hGetH
  refine tr_bind (tr_rawSlicesH n d p) (fun raws _ => ?_)
  split
  · split
    · exact tr_pure (fr_get_none n _)
    · refine tr_bind (tr_copyNew n []) (fun value hv => ?_)
      refine tr_bind (tr_concatLoopH n raws value hv) (fun value' hv' => ?_)
      exact tr_pure (fr_get_bytes _ hv')
  · split
    · exact tr_pure (fr_get_none n _)
    · exact tr_lookupResultsH n H d _ p.secret auth

/-! ### `lookupResultsH` at value level -/

/-- text kinds: the value is kept whatever the `octets[n]` check says -/
theorem getTextTail_view (k : Kind) (hz : GVal.zero k = .bytes []) (t : UInt8) (m : M (Res Slice)) (h : Heap) :
    getView k
      ((m >>= fun r => (match r with
          | .ok s => pure (t, some (GValH.bytes s))
          | .err => pure (t, none)
          | .fault => pure (t, none) : M (UInt8 × Option GValH))) h).2
      ((m >>= fun r => (match r with
          | .ok s => pure (t, some (GValH.bytes s))
          | .err => pure (t, none)
          | .fault => pure (t, none) : M (UInt8 × Option GValH))) h).1 =
      (t, .bytes (match viewRes (m h).2 (m h).1 with | .ok v => v | _ => [])) := by
  rw [bind_apply]
  cases hm : (m h).1 with
  | ok s => simp only [viewRes, getView, GValH.view, pure_apply]
  | err => simp only [viewRes, getView, pure_apply, hz]
  | fault => simp only [viewRes, getView, pure_apply, hz]

theorem lookupResultsH_text_all (H : Hash) (hH : ∀ x, (H x).length = 16) (d : Desc)
    (hk : d.kind = .string ∨ d.kind = .octets ∨ d.kind = .concat) (a secret : Slice) (auth : Bytes) (h : Heap) :
    getView d.kind (lookupResultsH H d a secret auth h).2 (lookupResultsH H d a secret auth h).1 =
      lookupResults H d (h.read a) (h.read secret) auth := by
  rw [lookupResults_text H d hk]
  have key : ∀ (k : Kind), GVal.zero k = .bytes [] → ∀ ta : UInt8 × Slice,
      getView k (((match d.encrypt with
             | 1 => userPasswordH H ta.2 secret auth
             | 2 => tpPlainH H ta.2 secret auth
             | _ => (do let s ← bytesH ta.2; pure (.ok s) : M (Res Slice))) >>= fun r => (match r with
          | .ok s => pure (ta.1, some (GValH.bytes s))
          | .err => pure (ta.1, none)
          | .fault => pure (ta.1, none) : M (UInt8 × Option GValH))) h).2
        (((match d.encrypt with
             | 1 => userPasswordH H ta.2 secret auth
             | 2 => tpPlainH H ta.2 secret auth
             | _ => (do let s ← bytesH ta.2; pure (.ok s) : M (Res Slice))) >>= fun r => (match r with
          | .ok s => pure (ta.1, some (GValH.bytes s))
          | .err => pure (ta.1, none)
          | .fault => pure (ta.1, none) : M (UInt8 × Option GValH))) h).1 =
      (ta.1, .bytes (match textPlain H d (h.read ta.2) (h.read secret) auth with | .ok v => v | _ => [])) := by
    intro k hz ta
    obtain ⟨hv, _⟩ := encBranch_view H hH d ta.2 secret auth h
    exact (getTextTail_view k hz ta.1 _ h).trans
      (congrArg (fun x => (ta.1, GVal.bytes (match x with | .ok v => v | _ => []))) hv)
  have hu := tagIfH d a h
  rw [Prod.ext_iff] at hu
  simp only [] at hu
  have hun : untag d (h.read a) = ((if d.hasTag = true then tagStripH (h.read a) a else (0, a)).1,
      h.read (if d.hasTag = true then tagStripH (h.read a) a else (0, a)).2) := by
    unfold untag; rw [Prod.ext_iff]; exact ⟨hu.1.symm, hu.2.symm⟩
  rw [hun]
  rcases hk with hk | hk | hk <;> simp only [lookupResultsH, hk] <;>
    exact key _ rfl (if d.hasTag = true then tagStripH (h.read a) a else (0, a))

/-- the optional salt decryption in front of a decoder, for any shape of result -/
theorem saltFirstG {β γ : Type} (H : Hash) (hH : ∀ x, (H x).length = 16) (d : Desc) (a secret : Slice)
    (auth : Bytes) (h : Heap) (k : Slice → M β) (e : β) (vw : Heap → β → γ) (km : Bytes → γ) (ze : γ)
    (hk : ∀ s g, vw (k s g).2 (k s g).1 = km (g.read s)) (he : ∀ g, vw g e = ze) :
    vw
      (((if d.usesSalt = true then tpPlainH H a secret auth else (pure (.ok a) : M (Res Slice))) >>= fun r =>
        (match r with
         | .ok a => k a
         | .err => pure e
         | .fault => pure e : M β)) h).2
      (((if d.usesSalt = true then tpPlainH H a secret auth else (pure (.ok a) : M (Res Slice))) >>= fun r =>
        (match r with
         | .ok a => k a
         | .err => pure e
         | .fault => pure e : M β)) h).1 =
      (match (if d.usesSalt = true then tpPlain H (h.read a) (h.read secret) auth else (.ok (h.read a) : Res Bytes)) with
       | .ok v => km v
       | .err => ze
       | .fault => ze) := by
  rw [bind_apply]
  by_cases hs : d.usesSalt = true
  · rw [if_pos hs, if_pos hs, tpPlainH_apply H hH]
    cases hp : tpPlain H (h.read a) (h.read secret) auth with
    | ok pw =>
      simp only []
      rw [hk, tpPlainH_read H _ _ _ pw h hp]
    | err => exact he _
    | fault => exact he _
  · rw [if_neg hs, if_neg hs, pure_apply]
    simp only []
    rw [hk]

theorem getIpTail_view (k : Kind) (hz : GVal.zero k = .bytes []) (dec : Bytes → Res Bytes) (a : Slice) (h : Heap) :
    getView k
      ((copyDecH dec a >>= fun ip => (match ip with
          | .ok s => pure (0, some (GValH.bytes s))
          | .err => pure (0, none)
          | .fault => pure (0, none) : M (UInt8 × Option GValH))) h).2
      ((copyDecH dec a >>= fun ip => (match ip with
          | .ok s => pure (0, some (GValH.bytes s))
          | .err => pure (0, none)
          | .fault => pure (0, none) : M (UInt8 × Option GValH))) h).1 =
    (match dec (h.read a) with
     | .ok ip => (0, GVal.bytes ip)
     | .err => (0, GVal.bytes [])
     | .fault => (0, GVal.bytes [])) := by
  rw [bind_apply, copyDecH_apply]
  cases dec (h.read a) <;> simp [getView, GValH.view, hz]

theorem getIntTail_apply (w : Nat) (t : UInt8) (a : Slice) (h : Heap) :
    (do let av ← readS a
        if av.length ≠ w then pure (t, none) else pure (t, some (GValH.nat (beNat av))) : M (UInt8 × Option GValH)) h =
      (if (h.read a).length ≠ w then (t, none) else (t, some (GValH.nat (beNat (h.read a)))), h) := by
  show (if (h.read a).length ≠ w then _ else _ : M (UInt8 × Option GValH)) h = _
  split <;> rfl

theorem getView_int (k : Kind) (hz : GVal.zero k = .nat 0) (w : Nat) (t : UInt8) (v : Bytes) (h : Heap) :
    getView k h (if v.length ≠ w then (t, none) else (t, some (GValH.nat (beNat v)))) =
      if v.length ≠ w then (t, GVal.nat 0) else (t, GVal.nat (beNat v)) := by
  split
  · simp only [getView, hz]
  · rfl

theorem getIntCase_view_all (H : Hash) (hH : ∀ x, (H x).length = 16) (d : Desc) (k : Kind) (hz : GVal.zero k = .nat 0)
    (w : Nat) (a secret : Slice) (auth : Bytes) (h : Heap) :
    getView k
      ((if d.hasTag = true then (do
          let ta ← tagStripIntH a
          let av ← readS ta.2
          if av.length ≠ w then pure (ta.1, none) else pure (ta.1, some (GValH.nat (beNat av))) : M (UInt8 × Option GValH))
        else do
          let r ← (if d.usesSalt = true then tpPlainH H a secret auth else (pure (.ok a) : M (Res Slice)))
          match r with
          | .ok a => do
            let av ← readS a
            if av.length ≠ w then pure (0, none) else pure (0, some (GValH.nat (beNat av)))
          | .err => pure (0, none)
          | .fault => pure (0, none)) h).2
      ((if d.hasTag = true then (do
          let ta ← tagStripIntH a
          let av ← readS ta.2
          if av.length ≠ w then pure (ta.1, none) else pure (ta.1, some (GValH.nat (beNat av))) : M (UInt8 × Option GValH))
        else do
          let r ← (if d.usesSalt = true then tpPlainH H a secret auth else (pure (.ok a) : M (Res Slice)))
          match r with
          | .ok a => do
            let av ← readS a
            if av.length ≠ w then pure (0, none) else pure (0, some (GValH.nat (beNat av)))
          | .err => pure (0, none)
          | .fault => pure (0, none)) h).1 =
    (if d.hasTag = true then
        let ta := if (h.read a).length ≥ 1 ∧ ((h.read a).getD 0 0).toNat ≤ 0x1F then
          ((h.read a).getD 0 0, (0 : UInt8) :: (h.read a).drop 1) else (0, h.read a)
        if ta.2.length ≠ w then (ta.1, GVal.nat 0) else (ta.1, GVal.nat (beNat ta.2))
      else
        match (if d.usesSalt = true then tpPlain H (h.read a) (h.read secret) auth else (.ok (h.read a) : Res Bytes)) with
        | .ok a => if a.length ≠ w then (0, GVal.nat 0) else (0, GVal.nat (beNat a))
        | .err => (0, GVal.nat 0)
        | .fault => (0, GVal.nat 0)) := by
  by_cases ht : d.hasTag = true
  · rw [if_pos ht, if_pos ht, bind_apply, tagStripIntH_apply]
    split
    · rw [getIntTail_apply, getView_int k hz, read_new1]
    · rw [getIntTail_apply, getView_int k hz]
  · rw [if_neg ht, if_neg ht]
    exact saltFirstG H hH d a secret auth h
      (fun a => (do
            let av ← readS a
            if av.length ≠ w then pure (0, none) else pure (0, some (GValH.nat (beNat av))) : M (UInt8 × Option GValH)))
      (0, none) (getView k)
      (fun v => if v.length ≠ w then (0, GVal.nat 0) else (0, GVal.nat (beNat v)))
      (0, GVal.nat 0)
      (fun s g => by rw [getIntTail_apply, getView_int k hz])
      (fun g => by simp only [getView, hz])

/-- the named results of `X_Lookup`, read through the returned slices, are the total model's
    `lookupResults` — every descriptor -/
theorem lookupResultsH_view_all (H : Hash) (hH : ∀ x, (H x).length = 16) (d : Desc) (a secret : Slice)
    (auth : Bytes) (h : Heap) :
    getView d.kind (lookupResultsH H d a secret auth h).2 (lookupResultsH H d a secret auth h).1 =
      lookupResults H d (h.read a) (h.read secret) auth := by
  by_cases hk : d.kind = .string ∨ d.kind = .octets ∨ d.kind = .concat
  · exact lookupResultsH_text_all H hH d hk a secret auth h
  unfold lookupResultsH lookupResults
  cases hkk : d.kind <;> simp only [hkk] at hk ⊢
  case string | octets | concat => simp at hk
  case ipaddr =>
    simp only [if_true]
    refine (saltFirstG H hH d a secret auth h
      (fun a => (copyDecH ipAddr a >>= fun ip => (match ip with
          | .ok s => pure (0, some (GValH.bytes s))
          | .err => pure (0, none)
          | .fault => pure (0, none) : M (UInt8 × Option GValH))))
      (0, none) (getView .ipaddr)
      (fun v => match ipAddr v with
        | .ok ip => (0, GVal.bytes ip) | .err => (0, GVal.bytes []) | .fault => (0, GVal.bytes []))
      (0, GVal.bytes [])
      (fun s g => getIpTail_view .ipaddr rfl ipAddr s g)
      (fun g => rfl)).trans ?_
    generalize (if d.usesSalt = true then tpPlain H (h.read a) (h.read secret) auth else Res.ok (h.read a)) = x
    cases x with
    | ok v => simp only []; cases ipAddr v <;> rfl
    | err => rfl
    | fault => rfl
  case ipv6addr =>
    simp only [reduceCtorEq, if_false]
    refine (saltFirstG H hH d a secret auth h
      (fun a => (copyDecH ipv6Addr a >>= fun ip => (match ip with
          | .ok s => pure (0, some (GValH.bytes s))
          | .err => pure (0, none)
          | .fault => pure (0, none) : M (UInt8 × Option GValH))))
      (0, none) (getView .ipv6addr)
      (fun v => match ipv6Addr v with
        | .ok ip => (0, GVal.bytes ip) | .err => (0, GVal.bytes []) | .fault => (0, GVal.bytes []))
      (0, GVal.bytes [])
      (fun s g => getIpTail_view .ipv6addr rfl ipv6Addr s g)
      (fun g => rfl)).trans ?_
    generalize (if d.usesSalt = true then tpPlain H (h.read a) (h.read secret) auth else Res.ok (h.read a)) = x
    cases x with
    | ok v => simp only []; cases ipv6Addr v <;> rfl
    | err => rfl
    | fault => rfl
  case ifid =>
    refine (getIpTail_view .ifid rfl ifid a h).trans ?_
    cases ifid (h.read a) <;> rfl
  case ipv6prefix =>
    rw [bind_apply, ipv6PrefixH_apply]
    cases ipv6Prefix (h.read a) with
    | ok r =>
      obtain ⟨ip, mask⟩ := r
      have e1 := read_new h ip [mask]
      have e2 := read_new (h ++ [ip]) mask []
      simp only [List.append_assoc, List.cons_append, List.nil_append] at e2
      simp only [getView, GValH.view, pure_apply, List.append_assoc, List.cons_append, List.nil_append, e1, e2]
    | err => rfl
    | fault => rfl
  case date =>
    have e : dateH a h = (date (h.read a), h) := rfl
    rw [bind_apply, e]
    cases date (h.read a) <;> rfl
  case byte =>
    rw [bind_apply, readS_apply]
    by_cases hc : (h.read a).length ≠ 1
    · rw [if_pos hc, if_pos hc]; rfl
    · rw [if_neg hc, if_neg hc]; rfl
  case integer =>
    simp only [Kind.intBytes]
    refine (getIntCase_view_all H hH d .integer rfl 4 a secret auth h).trans ?_
    split
    · rfl
    · generalize (if d.usesSalt = true then tpPlain H (h.read a) (h.read secret) auth else Res.ok (h.read a)) = x
      cases x <;> rfl
  case integer64 =>
    simp only [Kind.intBytes]
    refine (getIntCase_view_all H hH d .integer64 rfl 8 a secret auth h).trans ?_
    split
    · rfl
    · generalize (if d.usesSalt = true then tpPlain H (h.read a) (h.read secret) auth else Res.ok (h.read a)) = x
      cases x <;> rfl
  case short =>
    simp only [Kind.intBytes]
    refine (getIntCase_view_all H hH d .short rfl 2 a secret auth h).trans ?_
    split
    · rfl
    · generalize (if d.usesSalt = true then tpPlain H (h.read a) (h.read secret) auth else Res.ok (h.read a)) = x
      cases x <;> rfl

/-! ### `X_Get` for every descriptor -/

theorem hGetH_view_all (H : Hash) (hH : ∀ x, (H x).length = 16) (d : Desc) (p : HPacket) (auth : Bytes)
    (h : Heap) (hp : p.below h.length) :
    getView d.kind (hGetH H d p auth h).2 (hGetH H d p auth h).1 =
      hGet H d (p.view h).attrs (h.read p.secret) auth := by
  obtain ⟨ext, he, hm, hb⟩ := rawSlicesH_view d p h hp
  unfold hGetH hGet
  rw [bind_apply, he, ← hm]
  generalize (rawSlicesH d p h).1 = raws at hm hb ⊢
  by_cases hc : d.kind = .concat
  · rw [if_pos hc, if_pos hc]
    cases raws with
    | nil => simp only [pure_apply, getView, hc, List.map_nil, List.flatten_nil]; rfl
    | cons a rest =>
      simp only []
      rw [bind_apply, copyNew_apply]
      simp only []
      obtain ⟨e', he'⟩ := concatLoopH_apply (h ++ ext) (a :: rest) hb [] []
      rw [List.append_nil] at he'
      rw [bind_apply, he']
      simp only [pure_apply, getView, GValH.view, List.nil_append]
      have : (h ++ ext ++ [((a :: rest).map (h ++ ext).read).flatten] ++ e').read
          ⟨(h ++ ext).length, 0, (((a :: rest).map (h ++ ext).read).flatten).length⟩ =
          ((a :: rest).map (h ++ ext).read).flatten := by
        rw [List.append_assoc (h ++ ext)]
        exact read_new (h ++ ext) _ e'
      rw [this]
  · rw [if_neg hc, if_neg hc]
    cases raws with
    | nil => rfl
    | cons a rest =>
      simp only [List.map_cons, List.head?_cons]
      have hd := lookupResultsH_view_all H hH d a p.secret auth (h ++ ext)
      rw [read_append h ext p.secret hp.1] at hd
      exact hd

/-- two `X_Get` calls in a row show the caller the same results -/
theorem hGetH_repeat_all (H : Hash) (hH : ∀ x, (H x).length = 16) (d : Desc) (p : HPacket) (auth : Bytes)
    (h : Heap) (hp : p.below h.length) :
    let r₁ := hGetH H d p auth h
    let r₂ := hGetH H d p auth r₁.2
    getView d.kind r₂.2 r₂.1 = getView d.kind r₁.2 r₁.1 := by
  intro r₁ r₂
  have hpure : Ext h.length h r₁.2 := (tr_hGetH h.length H d p auth h (Nat.le_refl _)).1
  show getView d.kind (hGetH H d p auth r₁.2).2 (hGetH H d p auth r₁.2).1 =
    getView d.kind (hGetH H d p auth h).2 (hGetH H d p auth h).1
  rw [hGetH_view_all H hH d p auth r₁.2 (below_mono p hp hpure.1), hGetH_view_all H hH d p auth h hp,
    hpure.view p hp, hpure.read _ hp.1]

/-! ### the string flavours: frame rules -/

theorem tr_strOfResH (n : Nat) (r : Res Slice) : Tr n (strOfResH r) (Fr n) := by
  unfold strOfResH
  split
  · exact tr_bind (tr_stringH n _) (fun s hs => tr_pure (by intro x hx; simp at hx; subst hx; exact hs))
  · exact tr_pure (fr_err n)
  · exact tr_pure (fr_fault n)

theorem tr_lookupStringBodyH (n : Nat) (H : Hash) (d : Desc) (a secret : Slice) (auth : Bytes) :
    Tr n (lookupStringBodyH H d a secret auth) (Fr n) := by
  unfold lookupStringBodyH
  refine tr_bind (tr_readS n a) (fun av _ => ?_)
  simp only []
  refine tr_bind (Q := Fr n) ?_ (fun r hr => ?_)
  · split
    · exact tr_bind (tr_userPasswordH n H _ secret auth) (fun b _ => tr_strOfResH n b)
    · exact tr_bind (tr_tpPlainH n H _ secret auth) (fun b _ => tr_strOfResH n b)
    · exact tr_bind (tr_stringH n _) (fun s hs => tr_pure (by intro x hx; simp at hx; subst hx; exact hs))
  · split
    · exact tr_pure (by intro x hx; simp at hx; subst hx; exact hr _ (by simp))
    · exact tr_pure (by intro x hx; simp at hx)
    · exact tr_pure (by intro x hx; simp at hx)

theorem tr_concatStrLoopH (n : Nat) (raws : List Slice) :
    ∀ (value : Slice), n ≤ value.buf → Tr n (concatStrLoopH raws value) (fun s => n ≤ s.buf) := by
  induction raws with
  | nil => intro value hv; exact tr_pure hv
  | cons a rest ih =>
    intro value hv
    unfold concatStrLoopH
    refine tr_bind (tr_stringH n a) (fun i _ => ?_)
    refine tr_bind (tr_readS n i) (fun iv _ => ?_)
    refine tr_bind (tr_readS n value) (fun vv _ => ?_)
    refine tr_bind (tr_copyNew n _) (fun value' hv' => ?_)
    exact ih value' hv'

theorem tr_hLookupStringH (n : Nat) (H : Hash) (d : Desc) (p : HPacket) (auth : Bytes) :
    Tr n (hLookupStringH H d p auth) (Fr n) := by
  unfold hLookupStringH
  refine tr_bind (tr_rawSlicesH n d p) (fun raws _ => ?_)
  split
  · split
    · exact tr_pure (by intro x hx; simp at hx)
    · refine tr_bind (tr_copyNew n []) (fun value hv => ?_)
      refine tr_bind (tr_concatStrLoopH n raws value hv) (fun value' hv' => ?_)
      exact tr_pure (by intro x hx; simp at hx; subst hx; exact hv')
  · split
    · exact tr_pure (by intro x hx; simp at hx)
    · refine tr_bind (tr_lookupStringBodyH n H d _ p.secret auth) (fun r hr => ?_)
      split
      · exact tr_pure (by intro x hx; simp at hx; exact hr x (by simpa using hx))
      · exact tr_pure (by intro x hx; simp at hx)

theorem tr_hGetStringH (n : Nat) (H : Hash) (d : Desc) (p : HPacket) (auth : Bytes) :
    Tr n (hGetStringH H d p auth) (Fr n) := by
  unfold hGetStringH
  refine tr_bind (tr_rawSlicesH n d p) (fun raws _ => ?_)
  split
  · split
    · exact tr_pure (fr_get_none n _)
    · refine tr_bind (tr_copyNew n []) (fun value hv => ?_)
      refine tr_bind (tr_concatStrLoopH n raws value hv) (fun value' hv' => ?_)
      exact tr_pure (fr_get_bytes _ hv')
  · split
    · exact tr_pure (fr_get_none n _)
    · refine tr_bind (tr_lookupStringBodyH n H d _ p.secret auth) (fun r hr => tr_pure ?_)
      intro x hx
      exact hr x (show x ∈ slices r.1 ++ slices r.2 from List.mem_append_left _ hx)

theorem tr_hGetStringsGoH (n : Nat) (H : Hash) (d : Desc) (secret : Slice) (auth : Bytes) (raws : List Slice) :
    Tr n (hGetStringsGoH H d secret auth raws) (Fr n) := by
  induction raws with
  | nil => exact tr_pure (by intro x hx; simp at hx)
  | cons a rest ih =>
    unfold hGetStringsGoH
    refine tr_bind (tr_lookupStringBodyH n H d a secret auth) (fun r hr => ?_)
    split
    · rename_i t v
      refine tr_bind ih (fun tl htl => tr_pure ?_)
      intro x hx
      simp only [slices_pair, slices_cons, slices_bool, List.append_nil, List.mem_append] at hx
      rcases hx with hx | hx
      · exact hr x (by simpa using hx)
      · exact htl x (show x ∈ slices tl.1 ++ slices tl.2 from List.mem_append_left _ hx)
    · exact tr_pure (by intro x hx; simp at hx)

theorem tr_hGetStringsH (n : Nat) (H : Hash) (d : Desc) (p : HPacket) (auth : Bytes) :
    Tr n (hGetStringsH H d p auth) (Fr n) := by
  unfold hGetStringsH
  exact tr_bind (tr_rawSlicesH n d p) (fun raws _ => tr_hGetStringsGoH n H d p.secret auth raws)

theorem tb_stringH (k : Nat) (a : Slice) : Tb k (stringH a) (fun j s => s.buf < j) :=
  tb_bind (tb_readS k a) (fun av j _ _ => tb_copyNew j av)

theorem tb_strOfResH (k : Nat) (r : Res Slice) : Tb k (strOfResH r) (fun j r => Bd j r) := by
  unfold strOfResH
  split
  · exact tb_bind (tb_stringH k _) (fun s j _ hs => tb_pure (fun j' hj' => bd_ok_slice (by omega)))
  · exact tb_pure (fun j' _ => bd_err j')
  · exact tb_pure (fun j' _ => bd_fault j')

theorem tb_lookupStringBodyH (k : Nat) (H : Hash) (d : Desc) (a secret : Slice) (auth : Bytes) :
    Tb k (lookupStringBodyH H d a secret auth) (fun j r => Bd j r) := by
  unfold lookupStringBodyH
  refine tb_bind (tb_readS k a) (fun av j _ _ => ?_)
  simp only []
  refine tb_bind (Q := fun j r => Bd j r) ?_ (fun r j1 _ hr => ?_)
  · split
    · exact tb_bind (tb_true (tb_userPasswordH j H _ secret auth)) (fun b j' _ _ => tb_strOfResH j' b)
    · exact tb_bind (tb_true (tb_tpPlainH j H _ secret auth)) (fun b j' _ _ => tb_strOfResH j' b)
    · exact tb_bind (tb_stringH j _) (fun s j' _ hs => tb_pure (fun j'' hj'' => bd_ok_slice (by omega)))
  · split
    · exact tb_pure (fun j' hj' => by
        intro x hx; simp at hx; subst hx
        exact Nat.lt_of_lt_of_le (hr _ (by simp)) hj')
    · exact tb_pure (fun j' _ => by intro x hx; simp at hx)
    · exact tb_pure (fun j' _ => by intro x hx; simp at hx)

theorem lookupStringBodyH_bound (H : Hash) (d : Desc) (a secret : Slice) (auth : Bytes) (h : Heap) :
    Bd (lookupStringBodyH H d a secret auth h).2.length (lookupStringBodyH H d a secret auth h).1 :=
  (tb_lookupStringBodyH h.length H d a secret auth h (Nat.le_refl _)).2

/-! ### the string flavours at value level -/

/-- the model's `lookupStringBody` in terms of `untag` / `textPlain` -/
theorem lookupStringBody_textPlain (H : Hash) (d : Desc) (a secret auth : Bytes) :
    lookupStringBody H d a secret auth =
      (((untag d a).1, GVal.bytes (match textPlain H d (untag d a).2 secret auth with | .ok v => v | _ => [])),
        (match textPlain H d (untag d a).2 secret auth with
         | .ok v => decide (d.size.isSome ∧ d.size ≠ some v.length)
         | _ => true)) := by
  have e : ∀ c, (match d.encrypt with
      | 1 => (match userPassword H c secret auth with | .ok b => (stringOf b, false) | _ => ([], true))
      | 2 => (match tpPlain H c secret auth with | .ok b => (stringOf b, false) | _ => ([], true))
      | _ => (stringOf c, false) : Bytes × Bool) =
      (match textPlain H d c secret auth with | .ok v => (v, false) | _ => ([], true)) := by
    intro c; unfold textPlain stringOf
    split
    · next h1 => rw [if_pos h1]
    · next h2 => rw [if_neg (by omega), if_pos h2]
    · next h1 h2 => rw [if_neg h1, if_neg h2]
  have key : ∀ (t : UInt8) (c : Bytes),
      (((t, GVal.bytes (match d.encrypt with
          | 1 => (match userPassword H c secret auth with | .ok b => (stringOf b, false) | _ => ([], true))
          | 2 => (match tpPlain H c secret auth with | .ok b => (stringOf b, false) | _ => ([], true))
          | _ => (stringOf c, false) : Bytes × Bool).1),
        (match d.encrypt with
          | 1 => (match userPassword H c secret auth with | .ok b => (stringOf b, false) | _ => ([], true))
          | 2 => (match tpPlain H c secret auth with | .ok b => (stringOf b, false) | _ => ([], true))
          | _ => (stringOf c, false) : Bytes × Bool).2 ||
        decide (d.size.isSome ∧ d.size ≠ some (match d.encrypt with
          | 1 => (match userPassword H c secret auth with | .ok b => (stringOf b, false) | _ => ([], true))
          | 2 => (match tpPlain H c secret auth with | .ok b => (stringOf b, false) | _ => ([], true))
          | _ => (stringOf c, false) : Bytes × Bool).1.length)) : (UInt8 × GVal) × Bool) =
      ((t, GVal.bytes (match textPlain H d c secret auth with | .ok v => v | _ => [])),
        (match textPlain H d c secret auth with
         | .ok v => decide (d.size.isSome ∧ d.size ≠ some v.length)
         | _ => true)) := by
    intro t c
    rw [e]
    cases textPlain H d c secret auth <;> simp
  unfold lookupStringBody untag
  exact key _ _

/-- `value = string(b)`: a copy that reads as `b` did, with the right length -/
theorem strOfRes_after (m : M (Res Slice)) (h : Heap) :
    viewRes ((m >>= strOfResH) h).2 ((m >>= strOfResH) h).1 = viewRes (m h).2 (m h).1 ∧
    ∀ x, ((m >>= strOfResH) h).1 = .ok x → x.len = (((m >>= strOfResH) h).2.read x).length := by
  rw [bind_apply]
  cases hm : (m h).1 with
  | ok b =>
    have e : strOfResH (.ok b) (m h).2 =
        (.ok ⟨(m h).2.length, 0, ((m h).2.read b).length⟩, (m h).2 ++ [(m h).2.read b]) := rfl
    rw [e]
    refine ⟨by simp only [viewRes, read_new1], fun x hx => ?_⟩
    simp only [Res.ok.injEq] at hx
    subst hx
    simp only [read_new1]
  | err => exact ⟨rfl, fun x hx => by cases hx⟩
  | fault => exact ⟨rfl, fun x hx => by cases hx⟩

/-- the decoding statement of `X_LookupString`, by `encrypt=` -/
theorem encStrBranch_view (H : Hash) (hH : ∀ x, (H x).length = 16) (d : Desc) (s secret : Slice) (auth : Bytes) (h : Heap) :
    viewRes
      ((match d.encrypt with
        | 1 => (do let b ← userPasswordH H s secret auth; strOfResH b : M (Res Slice))
        | 2 => (do let b ← tpPlainH H s secret auth; strOfResH b : M (Res Slice))
        | _ => (do let x ← stringH s; pure (.ok x) : M (Res Slice))) h).2
      ((match d.encrypt with
        | 1 => (do let b ← userPasswordH H s secret auth; strOfResH b : M (Res Slice))
        | 2 => (do let b ← tpPlainH H s secret auth; strOfResH b : M (Res Slice))
        | _ => (do let x ← stringH s; pure (.ok x) : M (Res Slice))) h).1 =
      textPlain H d (h.read s) (h.read secret) auth ∧
    ∀ x, ((match d.encrypt with
        | 1 => (do let b ← userPasswordH H s secret auth; strOfResH b : M (Res Slice))
        | 2 => (do let b ← tpPlainH H s secret auth; strOfResH b : M (Res Slice))
        | _ => (do let x ← stringH s; pure (.ok x) : M (Res Slice))) h).1 = .ok x →
      x.len = (((match d.encrypt with
        | 1 => (do let b ← userPasswordH H s secret auth; strOfResH b : M (Res Slice))
        | 2 => (do let b ← tpPlainH H s secret auth; strOfResH b : M (Res Slice))
        | _ => (do let x ← stringH s; pure (.ok x) : M (Res Slice))) h).2.read x).length := by
  unfold textPlain
  by_cases h1 : d.encrypt = 1
  · simp only [h1, if_true]
    obtain ⟨e1, e2⟩ := strOfRes_after (userPasswordH H s secret auth) h
    exact ⟨e1.trans (userPasswordH_view H hH s secret auth h), e2⟩
  · by_cases h2 : d.encrypt = 2
    · simp only [h2, if_true]
      rw [if_neg (by omega)]
      obtain ⟨e1, e2⟩ := strOfRes_after (tpPlainH H s secret auth) h
      exact ⟨e1.trans (tpPlainH_view H hH s secret auth h), e2⟩
    · rw [if_neg h1, if_neg h2]
      have hb : (match d.encrypt with
          | 1 => (do let b ← userPasswordH H s secret auth; strOfResH b : M (Res Slice))
          | 2 => (do let b ← tpPlainH H s secret auth; strOfResH b : M (Res Slice))
          | _ => (do let x ← stringH s; pure (.ok x) : M (Res Slice))) =
          (do let x ← stringH s; pure (.ok x) : M (Res Slice)) := by
        split
        · exact absurd ‹d.encrypt = 1› h1
        · exact absurd ‹d.encrypt = 2› h2
        · rfl
      rw [hb]
      have e : stringH s h = (⟨h.length, 0, (h.read s).length⟩, h ++ [h.read s]) := rfl
      refine ⟨?_, fun x hx => ?_⟩
      · simp only [bind_apply, e, pure_apply, viewRes, read_new1]
      · simp only [bind_apply, e, pure_apply, Res.ok.injEq] at hx ⊢
        subst hx
        simp only [read_new1]

/-- the results after the decoding statement: value kept, `err` from the decode or the `octets[n]` check -/
theorem strTail_view (d : Desc) (t : UInt8) (m : M (Res Slice)) (h : Heap)
    (hl : ∀ s, (m h).1 = .ok s → s.len = ((m h).2.read s).length) :
    (getView .string
      ((m >>= fun r => (match r with
          | .ok s => pure ((t, some (GValH.bytes s)), decide (d.size.isSome ∧ d.size ≠ some s.len))
          | .err => pure ((t, none), true)
          | .fault => pure ((t, none), true) : M ((UInt8 × Option GValH) × Bool))) h).2
      ((m >>= fun r => (match r with
          | .ok s => pure ((t, some (GValH.bytes s)), decide (d.size.isSome ∧ d.size ≠ some s.len))
          | .err => pure ((t, none), true)
          | .fault => pure ((t, none), true) : M ((UInt8 × Option GValH) × Bool))) h).1.1,
     ((m >>= fun r => (match r with
          | .ok s => pure ((t, some (GValH.bytes s)), decide (d.size.isSome ∧ d.size ≠ some s.len))
          | .err => pure ((t, none), true)
          | .fault => pure ((t, none), true) : M ((UInt8 × Option GValH) × Bool))) h).1.2) =
      ((t, GVal.bytes (match viewRes (m h).2 (m h).1 with | .ok v => v | _ => [])),
       (match viewRes (m h).2 (m h).1 with
        | .ok v => decide (d.size.isSome ∧ d.size ≠ some v.length)
        | _ => true)) ∧
    (((m >>= fun r => (match r with
          | .ok s => pure ((t, some (GValH.bytes s)), decide (d.size.isSome ∧ d.size ≠ some s.len))
          | .err => pure ((t, none), true)
          | .fault => pure ((t, none), true) : M ((UInt8 × Option GValH) × Bool))) h).1.2 = false →
      ∃ v, ((m >>= fun r => (match r with
          | .ok s => pure ((t, some (GValH.bytes s)), decide (d.size.isSome ∧ d.size ≠ some s.len))
          | .err => pure ((t, none), true)
          | .fault => pure ((t, none), true) : M ((UInt8 × Option GValH) × Bool))) h).1.1 = (t, some v)) := by
  rw [bind_apply]
  cases hm : (m h).1 with
  | ok s =>
    rw [hm] at hl
    simp only [viewRes, getView, GValH.view, pure_apply]
    rw [hl s rfl]
    exact ⟨rfl, fun _ => ⟨_, rfl⟩⟩
  | err => exact ⟨rfl, fun hc => by cases hc⟩
  | fault => exact ⟨rfl, fun hc => by cases hc⟩

/-- the body of `X_LookupString`: results and error flag are the model's; without an error there IS
    a value -/
theorem lookupStringBodyH_view (H : Hash) (hH : ∀ x, (H x).length = 16) (d : Desc) (a secret : Slice)
    (auth : Bytes) (h : Heap) :
    (getView .string (lookupStringBodyH H d a secret auth h).2 (lookupStringBodyH H d a secret auth h).1.1,
      (lookupStringBodyH H d a secret auth h).1.2) = lookupStringBody H d (h.read a) (h.read secret) auth ∧
    ((lookupStringBodyH H d a secret auth h).1.2 = false →
      ∃ t v, (lookupStringBodyH H d a secret auth h).1.1 = (t, some v)) := by
  rw [lookupStringBody_textPlain]
  have hu := tagIfH d a h
  rw [Prod.ext_iff] at hu
  simp only [] at hu
  have hun : untag d (h.read a) = ((if d.hasTag = true then tagStripH (h.read a) a else (0, a)).1,
      h.read (if d.hasTag = true then tagStripH (h.read a) a else (0, a)).2) := by
    unfold untag; rw [Prod.ext_iff]; exact ⟨hu.1.symm, hu.2.symm⟩
  rw [hun]
  obtain ⟨hv, hl⟩ := encStrBranch_view H hH d (if d.hasTag = true then tagStripH (h.read a) a else (0, a)).2 secret auth h
  obtain ⟨k1, k2⟩ := strTail_view d (if d.hasTag = true then tagStripH (h.read a) a else (0, a)).1 _ h hl
  refine ⟨?_, fun hc => ?_⟩
  · refine Eq.trans ?_ (k1.trans ?_)
    · rfl
    · exact congrArg (fun x => (((if d.hasTag = true then tagStripH (h.read a) a else (0, a)).1,
          GVal.bytes (match x with | .ok v => v | _ => [])),
        (match x with | .ok v => decide (d.size.isSome ∧ d.size ≠ some v.length) | _ => true))) hv
  · obtain ⟨v, hv'⟩ := k2 hc
    exact ⟨_, v, hv'⟩

/-- the concat loop of `X_LookupString`: the final string reads as the start value followed by all
    stored values -/
theorem concatStrLoopH_view (g0 : Heap) (raws : List Slice) (hr : ∀ s ∈ raws, s.buf < g0.length) :
    ∀ (value : Slice) (g : Heap), Ext g0.length g0 g → value.buf < g.length →
      (concatStrLoopH raws value g).2.read (concatStrLoopH raws value g).1 =
        g.read value ++ (raws.map g0.read).flatten := by
  induction raws with
  | nil => intro value g _ _; simp [concatStrLoopH]
  | cons a rest ih =>
    intro value g he hv
    have ha : a.buf < g0.length := hr a List.mem_cons_self
    have e : stringH a g = (⟨g.length, 0, (g.read a).length⟩, g ++ [g.read a]) := rfl
    unfold concatStrLoopH
    rw [bind_apply, e]
    simp only []
    rw [bind_apply, readS_apply]
    simp only []
    rw [read_new1, bind_apply, readS_apply]
    simp only []
    rw [read_append g _ value hv, bind_apply, copyNew_apply]
    simp only []
    have he2 : Ext g0.length g0 (g ++ [g.read a] ++ [g.read value ++ g.read a]) :=
      (he.trans (ext_append _ g _ he.1)).trans (ext_append _ _ _ (by have := he.1; simp; omega))
    rw [ih (fun s hs => hr s (List.mem_cons_of_mem _ hs)) _ _ he2 (by simp), read_new1, he.read a ha]
    simp [List.append_assoc]

theorem hLookupStringH_view_all (H : Hash) (hH : ∀ x, (H x).length = 16) (d : Desc) (p : HPacket) (auth : Bytes)
    (h : Heap) (hp : p.below h.length) :
    (hLookupStringH H d p auth h).1.view (hLookupStringH H d p auth h).2 =
      hLookupString H d (p.view h).attrs (h.read p.secret) auth := by
  obtain ⟨ext, he, hm, hb⟩ := rawSlicesH_view d p h hp
  unfold hLookupStringH hLookupString
  rw [bind_apply, he, ← hm]
  generalize (rawSlicesH d p h).1 = raws at hm hb ⊢
  by_cases hc : d.kind = .concat
  · rw [if_pos hc, if_pos hc]
    cases raws with
    | nil => rfl
    | cons a rest =>
      simp only [List.map_cons]
      rw [bind_apply, copyNew_apply]
      simp only []
      rw [bind_apply]
      simp only [pure_apply, LookupResH.view, GValH.view]
      have := concatStrLoopH_view (h ++ ext) (a :: rest) hb ⟨(h ++ ext).length, 0, ([] : Bytes).length⟩
        (h ++ ext ++ [[]]) (ext_append _ _ _ (Nat.le_refl _)) (by simp)
      rw [this, read_new1]
      simp only [List.nil_append, List.map_cons, map_stringOf]
      rfl
  · rw [if_neg hc, if_neg hc]
    cases raws with
    | nil => rfl
    | cons a rest =>
      simp only [List.map_cons, List.head?_cons]
      rw [bind_apply]
      obtain ⟨k1, k2⟩ := lookupStringBodyH_view H hH d a p.secret auth (h ++ ext)
      rw [read_append h ext p.secret hp.1] at k1
      generalize lookupStringBodyH H d a p.secret auth (h ++ ext) = r at k1 k2 ⊢
      obtain ⟨⟨⟨t, ov⟩, e⟩, g⟩ := r
      simp only [] at k1 k2 ⊢
      rw [← k1]
      cases e with
      | true => cases ov <;> rfl
      | false =>
        obtain ⟨t', v, hv⟩ := k2 rfl
        cases hv
        rfl

theorem hGetStringH_view_all (H : Hash) (hH : ∀ x, (H x).length = 16) (d : Desc) (p : HPacket) (auth : Bytes)
    (h : Heap) (hp : p.below h.length) :
    getView .string (hGetStringH H d p auth h).2 (hGetStringH H d p auth h).1 =
      hGetString H d (p.view h).attrs (h.read p.secret) auth := by
  obtain ⟨ext, he, hm, hb⟩ := rawSlicesH_view d p h hp
  unfold hGetStringH hGetString
  rw [bind_apply, he, ← hm]
  generalize (rawSlicesH d p h).1 = raws at hm hb ⊢
  by_cases hc : d.kind = .concat
  · rw [if_pos hc, if_pos hc]
    cases raws with
    | nil => rfl
    | cons a rest =>
      simp only []
      rw [bind_apply, copyNew_apply]
      simp only []
      rw [bind_apply]
      simp only [pure_apply, getView, GValH.view]
      have := concatStrLoopH_view (h ++ ext) (a :: rest) hb ⟨(h ++ ext).length, 0, ([] : Bytes).length⟩
        (h ++ ext ++ [[]]) (ext_append _ _ _ (Nat.le_refl _)) (by simp)
      rw [this, read_new1]
      simp only [List.nil_append, map_stringOf]
  · rw [if_neg hc, if_neg hc]
    cases raws with
    | nil => rfl
    | cons a rest =>
      simp only [List.map_cons, List.head?_cons]
      rw [bind_apply, pure_apply]
      obtain ⟨k1, _⟩ := lookupStringBodyH_view H hH d a p.secret auth (h ++ ext)
      rw [read_append h ext p.secret hp.1] at k1
      rw [← k1]

/-- for the text kinds the model's `lookupStringBody` decides and reports what `decodeValue` does -/
theorem lookupStringBody_decode (H : Hash) (d : Desc) (hk : d.kind = .string ∨ d.kind = .octets ∨ d.kind = .concat)
    (a secret auth : Bytes) :
    ((lookupStringBody H d a secret auth).2 = false →
      decodeValue H d a secret auth = .ok (lookupStringBody H d a secret auth).1) ∧
    ((lookupStringBody H d a secret auth).2 = true → ∀ tv, decodeValue H d a secret auth ≠ .ok tv) := by
  rw [lookupStringBody_textPlain, decodeValue_text H d hk]
  cases textPlain H d (untag d a).2 secret auth with
  | ok v =>
    simp only []
    by_cases hs : d.size.isSome ∧ d.size ≠ some v.length
    · rw [if_pos hs]
      refine ⟨fun hc => ?_, fun _ tv hc => by cases hc⟩
      rw [decide_eq_true hs] at hc
      cases hc
    · rw [if_neg hs]
      refine ⟨fun _ => rfl, fun hc => ?_⟩
      rw [decide_eq_false hs] at hc
      cases hc
  | err =>
    refine ⟨fun hc => ?_, fun _ tv hc => by cases hc⟩
    simp only [] at hc
    cases hc
  | fault =>
    refine ⟨fun hc => ?_, fun _ tv hc => by cases hc⟩
    simp only [] at hc
    cases hc

/-- the loop of `X_GetStrings` (text kinds) -/
theorem hGetStringsGoH_view (H : Hash) (hH : ∀ x, (H x).length = 16) (d : Desc)
    (hk : d.kind = .string ∨ d.kind = .octets ∨ d.kind = .concat) (secret : Slice) (auth : Bytes)
    (raws : List Slice) :
    ∀ (g : Heap), secret.buf < g.length → (∀ s ∈ raws, s.buf < g.length) →
      viewGets (hGetStringsGoH H d secret auth raws g).2 (hGetStringsGoH H d secret auth raws g).1 =
        hGets.go H d (g.read secret) auth (raws.map g.read) ∧
      Bd (hGetStringsGoH H d secret auth raws g).2.length (hGetStringsGoH H d secret auth raws g).1 := by
  induction raws with
  | nil =>
    intro g _ _
    exact ⟨rfl, by intro x hx; simp [hGetStringsGoH] at hx⟩
  | cons a rest ih =>
    intro g hs hr
    obtain ⟨k1, k2⟩ := lookupStringBodyH_view H hH d a secret auth g
    have hb := lookupStringBodyH_bound H d a secret auth g
    have e1 : Ext g.length g (lookupStringBodyH H d a secret auth g).2 :=
      (tr_lookupStringBodyH g.length H d a secret auth g (Nat.le_refl _)).1
    obtain ⟨m1, m2⟩ := lookupStringBody_decode H d hk (g.read a) (g.read secret) auth
    rw [List.map_cons]
    unfold hGetStringsGoH
    rw [bind_apply]
    generalize lookupStringBodyH H d a secret auth g = r at k1 k2 hb e1
    obtain ⟨⟨⟨t, ov⟩, e⟩, g1⟩ := r
    simp only [] at k1 k2 hb e1 ⊢
    rw [← k1] at m1 m2
    simp only [] at m1 m2
    cases e with
    | true =>
      refine ⟨?_, by intro x hx; simp at hx⟩
      rw [hGets_go_cons_fail H d (g.read secret) auth (g.read a) _ (m2 rfl)]
      cases ov <;> rfl
    | false =>
      obtain ⟨t', v, hv⟩ := k2 rfl
      cases hv
      simp only []
      rw [bind_apply, pure_apply]
      have hr1 : ∀ s ∈ rest, s.buf < g1.length :=
        fun s hs' => Nat.lt_of_lt_of_le (hr s (List.mem_cons_of_mem _ hs')) e1.1
      obtain ⟨ihv, ihb⟩ := ih g1 (Nat.lt_of_lt_of_le hs e1.1) hr1
      have e2 : Ext g1.length g1 (hGetStringsGoH H d secret auth rest g1).2 :=
        (tr_hGetStringsGoH g1.length H d secret auth rest g1 (Nat.le_refl _)).1
      have hrest : rest.map g1.read = rest.map g.read :=
        List.map_congr_left (fun s hs' => e1.read s (hr s (List.mem_cons_of_mem _ hs')))
      rw [e1.read secret hs, hrest] at ihv
      have htv : Bd g1.length v := by
        intro s hs'
        exact hb s (by simpa using hs')
      refine ⟨?_, ?_⟩
      · rw [hGets_go_cons_ok H d (g.read secret) auth (g.read a) _ _ (m1 rfl), ← ihv]
        simp only [viewGets, List.map_cons, getView]
        rw [GValH.view_ext e2 v htv]
      · intro x hx
        simp only [slices_pair, slices_cons, slices_bool, List.append_nil, List.mem_append] at hx
        rcases hx with hx | hx
        · exact Nat.lt_of_lt_of_le (hb x (by simpa using hx)) e2.1
        · exact ihb x (show x ∈ slices _ ++ slices _ from List.mem_append_left _ hx)

/-- `X_GetStrings` (emitted for string / octets attributes): the list the caller reads in the final
    heap and the success flag are the model's -/
theorem hGetStringsH_view_all (H : Hash) (hH : ∀ x, (H x).length = 16) (d : Desc)
    (hk : d.kind = .string ∨ d.kind = .octets ∨ d.kind = .concat) (p : HPacket) (auth : Bytes)
    (h : Heap) (hp : p.below h.length) :
    viewGets (hGetStringsH H d p auth h).2 (hGetStringsH H d p auth h).1 =
      hGetStrings H d (p.view h).attrs (h.read p.secret) auth := by
  obtain ⟨ext, he, hm, hb⟩ := rawSlicesH_view d p h hp
  unfold hGetStringsH
  rw [bind_apply, he, hGetStrings_eq, hGets_eq, ← hm]
  have hs : p.secret.buf < (h ++ ext).length := by
    have := hp.1; simp; omega
  rw [(hGetStringsGoH_view H hH d hk p.secret auth _ (h ++ ext) hs hb).1, read_append h ext p.secret hp.1]

/-! ### repeated reads -/

theorem hLookupStringH_repeat_all (H : Hash) (hH : ∀ x, (H x).length = 16) (d : Desc) (p : HPacket) (auth : Bytes)
    (h : Heap) (hp : p.below h.length) :
    let r₁ := hLookupStringH H d p auth h
    let r₂ := hLookupStringH H d p auth r₁.2
    r₂.1.view r₂.2 = r₁.1.view r₁.2 := by
  intro r₁ r₂
  have hpure : Ext h.length h r₁.2 := (tr_hLookupStringH h.length H d p auth h (Nat.le_refl _)).1
  show (hLookupStringH H d p auth r₁.2).1.view (hLookupStringH H d p auth r₁.2).2 =
    (hLookupStringH H d p auth h).1.view (hLookupStringH H d p auth h).2
  rw [hLookupStringH_view_all H hH d p auth r₁.2 (below_mono p hp hpure.1), hLookupStringH_view_all H hH d p auth h hp,
    hpure.view p hp, hpure.read _ hp.1]

theorem hGetStringH_repeat_all (H : Hash) (hH : ∀ x, (H x).length = 16) (d : Desc) (p : HPacket) (auth : Bytes)
    (h : Heap) (hp : p.below h.length) :
    let r₁ := hGetStringH H d p auth h
    let r₂ := hGetStringH H d p auth r₁.2
    getView .string r₂.2 r₂.1 = getView .string r₁.2 r₁.1 := by
  intro r₁ r₂
  have hpure : Ext h.length h r₁.2 := (tr_hGetStringH h.length H d p auth h (Nat.le_refl _)).1
  show getView .string (hGetStringH H d p auth r₁.2).2 (hGetStringH H d p auth r₁.2).1 =
    getView .string (hGetStringH H d p auth h).2 (hGetStringH H d p auth h).1
  rw [hGetStringH_view_all H hH d p auth r₁.2 (below_mono p hp hpure.1), hGetStringH_view_all H hH d p auth h hp,
    hpure.view p hp, hpure.read _ hp.1]

theorem hGetStringsH_repeat_all (H : Hash) (hH : ∀ x, (H x).length = 16) (d : Desc)
    (hk : d.kind = .string ∨ d.kind = .octets ∨ d.kind = .concat) (p : HPacket) (auth : Bytes)
    (h : Heap) (hp : p.below h.length) :
    let r₁ := hGetStringsH H d p auth h
    let r₂ := hGetStringsH H d p auth r₁.2
    viewGets r₂.2 r₂.1 = viewGets r₁.2 r₁.1 := by
  intro r₁ r₂
  have hpure : Ext h.length h r₁.2 := (tr_hGetStringsH h.length H d p auth h (Nat.le_refl _)).1
  show viewGets (hGetStringsH H d p auth r₁.2).2 (hGetStringsH H d p auth r₁.2).1 =
    viewGets (hGetStringsH H d p auth h).2 (hGetStringsH H d p auth h).1
  rw [hGetStringsH_view_all H hH d hk p auth r₁.2 (below_mono p hp hpure.1), hGetStringsH_view_all H hH d hk p auth h hp,
    hpure.view p hp, hpure.read _ hp.1]

end Prov
end RV
