/-
  C17 helper lemmas (audit round, second part): tag / request-packet parameters over every emitted
  declaration, well-formed and exported names, dot imports, the VALUE constants of an attribute.
-/
import RV.Proofs.GenAudit
set_option linter.unusedSimpArgs false
namespace RV.Gen
open RV.Dict RV.Gen.Spec

/-! ### sections of origin ATTRIBUTE -/

theorem section_attr_facts {d : Dictionary} {o : Options} {out : Output} {evs : List EVendor} (F : RunFacts d o out evs)
    {s : Origin × List Decl} (hs : s ∈ out.sections) {vendor : Bool} {a : Attribute} (ho : s.1 = .attr vendor a) :
    invalidAttr Cfg.repaired vendor a = false ∧ exportedIdent (identifier a.name) = true ∧ a.name ∉ o.ignore ∧
    (s.2 = [typeConstDecl a] ∨ ∃ vals, s.2 = attrDecls vendor a vals) := by
  rw [F.secs] at hs
  rcases mem_gSections hs with ⟨b, hb, rfl⟩ | ⟨v, _, rfl⟩ | ⟨e, _, rfl⟩ | ⟨b, hb, rfl⟩ | ⟨v, _, rfl⟩ | ⟨v, hv, b, hb, rfl⟩
  · cases ho
    exact ⟨(F.attrsValid _ hb).1, (F.attrsValid _ hb).2, ((F.attrsMem _).1 hb).2, Or.inl rfl⟩
  · cases ho
  · cases ho
  · cases ho
    exact ⟨(F.attrsValid _ hb).1, (F.attrsValid _ hb).2, ((F.attrsMem _).1 hb).2, Or.inr ⟨_, rfl⟩⟩
  · cases ho
  · cases ho
    obtain ⟨f1, f2, _, _⟩ := F.evAttrsValid v hv _ hb
    refine ⟨f1, f2, ?_, Or.inr ⟨_, rfl⟩⟩
    obtain ⟨w, hw, rfl⟩ := (F.evsMem v).1 hv
    exact (imp_mem_kept.1 ((imp_mkEV_attrs Cfg.repaired o w (Or.inl rfl) _).1 hb)).2

theorem tag_param_sections {d : Dictionary} {o : Options} {out : Output} (h : generate Cfg.repaired d o = .ok out) :
    ∀ s ∈ out.sections, ∀ (vendor : Bool) (a : Attribute), s.1 = .attr vendor a → ∀ dc ∈ s.2,
      (hasTagParam dc = true ↔ (tagged a = true ∧ (dc.role.isWriter || dc.role.isReader) = true)) := by
  obtain ⟨evs, F⟩ := runFacts h
  intro s hs vendor a ho dc hdc
  obtain ⟨hv, _, _, hsec⟩ := section_attr_facts F hs ho
  rcases hsec with hsec | ⟨vals, hsec⟩
  · rw [hsec, List.mem_singleton] at hdc
    subst hdc
    simp [typeConstDecl, hasTagParam, Role.isWriter, Role.isReader]
  · rw [hsec] at hdc
    cases hrw : (dc.role.isWriter || dc.role.isReader)
    · rw [hasTagParam_not_rw dc hrw]
      simp
    · rw [tag_param_iff' Cfg.repaired vendor a vals hv dc hdc hrw]
      simp

theorem request_param_sections {d : Dictionary} {o : Options} {out : Output} (h : generate Cfg.repaired d o = .ok out) :
    ∀ s ∈ out.sections, ∀ (vendor : Bool) (a : Attribute), s.1 = .attr vendor a → ∀ dc ∈ s.2,
      (hasRequestParam dc = true ↔ (salted a = true ∧ dc.role.isReader = true)) := by
  obtain ⟨evs, F⟩ := runFacts h
  intro s hs vendor a ho dc hdc
  obtain ⟨hv, _, _, hsec⟩ := section_attr_facts F hs ho
  rcases hsec with hsec | ⟨vals, hsec⟩
  · rw [hsec, List.mem_singleton] at hdc
    subst hdc
    simp [typeConstDecl, hasRequestParam, Role.isReader]
  · rw [hsec] at hdc
    cases hrd : dc.role.isReader
    · rw [attrDecls_roles_rw vendor a vals dc hdc hrd]
      simp
    · rw [request_param_repaired' vendor a vals hv dc hdc hrd]
      simp

/-- sections that do not belong to an ATTRIBUTE (vendor identifiers and helpers, external VALUEs) carry
    neither a tag nor a request-packet parameter -/
theorem other_sections_no_param {cfg : Cfg} {d : Dictionary} {o : Options} {out : Output} (h : generate cfg d o = .ok out) :
    ∀ s ∈ out.sections, (∀ vendor a, s.1 ≠ .attr vendor a) → ∀ dc ∈ s.2, hasTagParam dc = false ∧ hasRequestParam dc = false := by
  obtain ⟨seen, evs0, vimps, _, _, _, _, hsec, _⟩ := generate_ok_full h
  intro s hs ho dc hdc
  rw [hsec] at hs
  rcases mem_gSections hs with ⟨b, hb, rfl⟩ | ⟨v, _, rfl⟩ | ⟨e, _, rfl⟩ | ⟨b, hb, rfl⟩ | ⟨v, _, rfl⟩ | ⟨v, hv, b, hb, rfl⟩
  · exact absurd rfl (ho false b)
  · rw [List.mem_singleton] at hdc
    subst hdc
    simp [hasTagParam, hasRequestParam, Role.isWriter]
  · rcases List.mem_cons.1 hdc with rfl | hdc
    · simp [hasTagParam, hasRequestParam, Role.isWriter]
    · obtain ⟨x, _, rfl⟩ := List.mem_map.1 hdc
      simp [hasTagParam, hasRequestParam, Role.isWriter]
  · exact absurd rfl (ho false b)
  · simp only [vendorHelperDecls, List.mem_cons, List.not_mem_nil, or_false] at hdc
    rcases hdc with rfl | rfl | rfl | rfl | rfl | rfl <;> simp [hasTagParam, hasRequestParam, Role.isWriter]
  · exact absurd rfl (ho true b)

/-! ### names: well-formed, exported / private -/

namespace Spec
def wordByte (c : UInt8) : Bool := isAlnum c || c == 95
/-- an (ASCII) Go identifier: non-empty, made of letters, digits and `_`, not starting with a digit -/
def goIdent (n : Bytes) : Bool := !n.isEmpty && lexesAsIdent n && n.all wordByte
/-- the name of a declaration is well-formed: an identifier; for the method, `<receiver type>.String` -/
def declNameOK (dc : Decl) : Prop :=
  if dc.kind = .method then ∃ t, goIdent t = true ∧ dc.name = t ++ bs ".String" else goIdent dc.name = true
end Spec

theorem upper_not_digit (b : UInt8) (h : isUpper b = true) : isDigit b = false := by
  simp only [isUpper, isDigit, Bool.and_eq_true, decide_eq_true_eq, UInt8.le_iff_toNat_le, Bool.and_eq_false_iff,
    decide_eq_false_iff_not] at h ⊢
  have h1 := h.1
  simp at h1 ⊢
  omega

theorem exported_lexes {x : Bytes} (h : exportedIdent x = true) : lexesAsIdent x = true ∧ x ≠ [] := by
  cases x with
  | nil => cases h
  | cons b r => exact ⟨by simp [lexesAsIdent, upper_not_digit b h], by simp⟩

theorem alnum_word {x : Bytes} (h : ∀ c ∈ x, isAlnum c = true) : x.all wordByte = true := by
  rw [List.all_eq_true]
  intro c hc
  simp [wordByte, h c hc]

theorem ident_word (n : Bytes) : (identifier n).all wordByte = true := alnum_word (identifier_alnum n)

theorem goIdent_append {x s : Bytes} (hx : x.all wordByte = true) (hs : s.all wordByte = true)
    (hl : lexesAsIdent x = true) (hne : x = [] → goIdent s = true) : goIdent (x ++ s) = true := by
  cases x with
  | nil => exact hne rfl
  | cons b r =>
    simp only [goIdent, lexesAsIdent, List.cons_append, List.isEmpty_cons, Bool.not_false, Bool.true_and,
      List.all_cons, List.all_append, Bool.and_eq_true] at hx hl ⊢
    exact ⟨hl, hx.1, hx.2, hs⟩

theorem goIdent_us {x : Bytes} (hx : x.all wordByte = true) : goIdent (95 :: x) = true := by
  simp only [goIdent, lexesAsIdent, List.isEmpty_cons, Bool.not_false, Bool.true_and, List.all_cons, Bool.and_eq_true]
  exact ⟨by decide, by decide, hx⟩

theorem exported_append {x s : Bytes} (h : exportedIdent x = true) : exportedIdent (x ++ s) = true := by
  cases x with
  | nil => cases h
  | cons b r => exact h

theorem suffix_word : ∀ r : Role, r ≠ .stringer → (bs r.suffix).all wordByte = true := by
  intro r hr
  cases r <;> first | exact absurd rfl hr | decide

theorem kind_method_iff (r : Role) : r.kind = .method ↔ r = .stringer := by
  cases r <;> simp [Role.kind]

theorem value_suffix_word (n : Bytes) : (bs "_Value_" ++ identifier n).all wordByte = true := by
  rw [List.all_append, ident_word, Bool.and_true]
  decide

theorem value_suffix_goIdent (n : Bytes) : goIdent (bs "_Value_" ++ identifier n) = true :=
  goIdent_us (x := bs "Value_" ++ identifier n) (by rw [List.all_append, ident_word, Bool.and_true]; decide)

/-- names of the declarations of an attribute whose identifier is exported -/
theorem attrDecls_names_ok (vendor : Bool) (a : Attribute) (vals : List Value)
    (he : exportedIdent (identifier a.name) = true) :
    ∀ dc ∈ attrDecls vendor a vals, declNameOK dc ∧ exportedIdent dc.name = true ∧ identifier a.name <+: dc.name := by
  intro dc hdc
  obtain ⟨hk, _, _⟩ := attrDecls_kinds vendor a vals dc hdc
  have hw := ident_word a.name
  obtain ⟨hl, hne⟩ := exported_lexes he
  by_cases hvc : dc.role = .valueConst
  · obtain ⟨v, _, hn⟩ := attrDecls_names2 vendor a vals dc hdc hvc
    rw [List.append_assoc] at hn
    refine ⟨?_, hn ▸ exported_append he, hn ▸ List.prefix_append _ _⟩
    unfold declNameOK
    rw [hk, hvc, if_neg (by simp [Role.kind]), hn]
    exact goIdent_append hw (value_suffix_word _) hl (fun e => absurd e hne)
  · have hn := attrDecls_names1 vendor a vals dc hdc hvc
    refine ⟨?_, hn ▸ exported_append he, hn ▸ List.prefix_append _ _⟩
    unfold declNameOK
    rw [hk]
    by_cases hst : dc.role = .stringer
    · rw [if_pos ((kind_method_iff _).2 hst)]
      refine ⟨identifier a.name, ?_, by rw [hn, hst]; rfl⟩
      have := goIdent_append (s := []) hw rfl hl (fun e => absurd e hne)
      rwa [List.append_nil] at this
    · rw [if_neg (fun hm => hst ((kind_method_iff _).1 hm)), hn]
      exact goIdent_append hw (suffix_word _ hst) hl (fun e => absurd e hne)

theorem typeConst_names_ok (a : Attribute) (he : exportedIdent (identifier a.name) = true) :
    declNameOK (typeConstDecl a) ∧ exportedIdent (typeConstDecl a).name = true ∧ identifier a.name <+: (typeConstDecl a).name := by
  obtain ⟨hl, hne⟩ := exported_lexes he
  refine ⟨?_, exported_append he, List.prefix_append _ _⟩
  unfold declNameOK
  rw [if_neg (by simp [typeConstDecl])]
  exact goIdent_append (ident_word a.name) (by decide) hl (fun e => absurd e hne)

theorem vendorHelper_names_ok (vid : Bytes) (hv : vid.all wordByte = true) :
    ∀ dc ∈ vendorHelperDecls vid, declNameOK dc ∧ (bs "_" ++ vid) <+: dc.name := by
  intro dc hdc
  simp only [vendorHelperDecls, List.mem_cons, List.not_mem_nil, or_false] at hdc
  have key : ∀ sfx : Bytes, sfx.all wordByte = true → goIdent (bs "_" ++ vid ++ sfx) = true := by
    intro sfx hs
    exact goIdent_us (x := vid ++ sfx) (by rw [List.all_append, hv, hs]; rfl)
  rcases hdc with rfl | rfl | rfl | rfl | rfl | rfl <;>
    exact ⟨by unfold declNameOK; rw [if_neg (by simp)]; exact key _ (by decide), List.prefix_append _ _⟩

/-- every declared name of an accepted dictionary is well-formed (for the constants of a `-ref` option:
    `generate` refuses, as go/format does, a name that normalises to something starting with a digit as
    soon as a VALUE is declared for it — `RunFacts.extNames`) -/
theorem names_ok' {d : Dictionary} {o : Options} {out : Output} (h : generate Cfg.repaired d o = .ok out) :
    ∀ dc ∈ out.decls, declNameOK dc := by
  obtain ⟨evs, F⟩ := runFacts h
  intro dc hdc
  obtain ⟨s, hs, hdc⟩ := List.mem_flatMap.1 hdc
  rw [F.secs] at hs
  rcases mem_gSections hs with ⟨b, hb, rfl⟩ | ⟨v, _, rfl⟩ | ⟨e, he, rfl⟩ | ⟨b, hb, rfl⟩ | ⟨v, _, rfl⟩ | ⟨v, hv, b, hb, rfl⟩
  · rw [List.mem_singleton] at hdc
    subst hdc
    exact (typeConst_names_ok b (F.attrsValid b hb).2).1
  · rw [List.mem_singleton] at hdc
    subst hdc
    unfold declNameOK
    rw [if_neg (by simp)]
    exact goIdent_us (x := identifier v.name ++ bs "_VendorID") (by rw [List.all_append, ident_word]; decide)
  · rcases List.mem_cons.1 hdc with rfl | hdc
    · unfold declNameOK
      rw [if_neg (by simp)]
      decide
    · obtain ⟨x, hx, rfl⟩ := List.mem_map.1 hdc
      have hxn : x.attrName = e.1 := route_ext (eq_of_beq (List.mem_filter.1 hx).2)
      unfold declNameOK
      rw [if_neg (by simp)]
      simp only
      rw [List.append_assoc, hxn]
      exact goIdent_append (ident_word _) (value_suffix_word _)
        (F.extNames e he (List.ne_nil_of_mem hx)) (fun _ => value_suffix_goIdent _)
  · exact (attrDecls_names_ok false b _ (F.attrsValid b hb).2 dc hdc).1
  · exact (vendorHelper_names_ok _ (ident_word _) dc hdc).1
  · exact (attrDecls_names_ok true b _ (F.evAttrsValid v hv b hb).2.1 dc hdc).1

/-- what is exported and what is private: everything declared for an ATTRIBUTE starts with its (exported)
    identifier; everything declared for a VENDOR starts with `_<Identifier>`; the sections of external
    attributes hold `init` and constants `<Identifier>_Value_…` -/
theorem exported_names' {d : Dictionary} {o : Options} {out : Output} (h : generate Cfg.repaired d o = .ok out) :
    ∀ s ∈ out.sections, ∀ dc ∈ s.2,
      match s.1 with
      | .attr _ a => exportedIdent dc.name = true ∧ identifier a.name <+: dc.name
      | .vendor n => dc.name.head? = some 95 ∧ (bs "_" ++ identifier n) <+: dc.name
      | .ext n => dc.name = bs "init" ∨ (identifier n ++ bs "_Value_") <+: dc.name := by
  obtain ⟨evs, F⟩ := runFacts h
  intro s hs dc hdc
  rw [F.secs] at hs
  rcases mem_gSections hs with ⟨b, hb, rfl⟩ | ⟨v, _, rfl⟩ | ⟨e, he, rfl⟩ | ⟨b, hb, rfl⟩ | ⟨v, _, rfl⟩ | ⟨v, hv, b, hb, rfl⟩
  · rw [List.mem_singleton] at hdc
    subst hdc
    exact (typeConst_names_ok b (F.attrsValid b hb).2).2
  · rw [List.mem_singleton] at hdc
    subst hdc
    exact ⟨rfl, by simp only [List.append_assoc]; exact List.prefix_append _ _⟩
  · rcases List.mem_cons.1 hdc with rfl | hdc
    · exact Or.inl rfl
    · obtain ⟨x, hx, rfl⟩ := List.mem_map.1 hdc
      have hxn : x.attrName = e.1 := route_ext (eq_of_beq (List.mem_filter.1 hx).2)
      right
      simp only
      rw [hxn]
      exact List.prefix_append _ _
  · exact (attrDecls_names_ok false b _ (F.attrsValid b hb).2 dc hdc).2
  · have hp := (vendorHelper_names_ok _ (ident_word v.name) dc hdc).2
    refine ⟨?_, hp⟩
    obtain ⟨t, ht⟩ := hp
    rw [← ht]
    rfl
  · exact (attrDecls_names_ok true b _ (F.evAttrsValid v hv b hb).2.1 dc hdc).2

/-! ### dot imports -/

theorem mem_dedupBytes (p : Bytes) : ∀ l : List Bytes, p ∈ dedupBytes l ↔ p ∈ l
  | [] => Iff.rfl
  | q :: l => by
    simp only [dedupBytes, List.mem_cons, List.mem_filter, mem_dedupBytes p l, bne_iff_ne, ne_eq]
    by_cases hpq : p = q
    · simp [hpq]
    · simp [hpq]

theorem dedupBytes_nodup : ∀ l : List Bytes, (dedupBytes l).Nodup
  | [] => List.nodup_nil
  | q :: l => by
    simp only [dedupBytes, List.nodup_cons, List.mem_filter, bne_self_eq_false, Bool.false_eq_true, and_false,
      not_false_eq_true, true_and]
    exact (dedupBytes_nodup l).sublist List.filter_sublist

/-- the package of an external attribute is dot-imported exactly when constants are declared for it -/
theorem dot_imports_exact' {cfg : Cfg} {d : Dictionary} {o : Options} {out : Output} (h : generate cfg d o = .ok out)
    (hd : (o.refs.map (·.1)).Nodup) (p : Bytes) :
    Imp.dot p ∈ out.imports ↔
      ∃ r ∈ o.refs, r.2 = p ∧ ∃ s ∈ out.sections, s.1 = .ext r.1 ∧ ∃ dc ∈ s.2, dc.role = .extValue := by
  obtain ⟨seen, evs0, vimps, _, _, _, _, hsec, himp, _⟩ := generate_ok_full h
  have memE : ∀ e, e ∈ gExts o ↔ e ∈ o.refs := fun e => mem_sortStable _ _ _
  have h1 : Imp.dot p ∈ out.imports ↔ ∃ e ∈ gExts o, gExtVals cfg d o e ≠ [] ∧ e.2 = p := by
    rw [himp]
    simp only [List.mem_append, List.mem_filter, List.mem_map, Imp.dot.injEq, exists_eq_right, mem_dedupBytes]
    constructor
    · rintro (((hstd | hrad) | hrfc) | hdot)
      · exfalso
        have := hstd.1
        simp [stdImports] at this
      · exfalso
        split at hrad <;> simp at hrad
      · exfalso
        split at hrfc <;> simp at hrfc
      · obtain ⟨e, ⟨he, hne⟩, hp⟩ := hdot
        exact ⟨e, he, by simpa using hne, hp⟩
    · rintro ⟨e, he, hne, hp⟩
      exact Or.inr ⟨e, ⟨he, by simpa using hne⟩, hp⟩
  rw [h1]
  constructor
  · rintro ⟨e, he, hne, hp⟩
    have hsm : (Origin.ext e.1, (⟨.func, .extInit, bs "init", [], []⟩ : Decl)
        :: (gExtVals cfg d o e).map (fun v => (⟨.const, .extValue, identifier v.attrName ++ bs "_Value_" ++ identifier v.name, [], [.named (identifier v.attrName)]⟩ : Decl)))
        ∈ out.sections := by
      rw [hsec]
      simp only [gSections, List.mem_append, List.mem_map]
      exact Or.inl (Or.inl (Or.inr ⟨e, he, rfl⟩))
    refine ⟨e, (memE e).1 he, hp, _, hsm, rfl, ?_⟩
    · obtain ⟨x, hx⟩ := List.exists_mem_of_ne_nil _ hne
      exact ⟨_, List.mem_cons_of_mem _ (List.mem_map_of_mem hx), rfl⟩
  · rintro ⟨r, hr, hp, s, hs, ho, dc, hdc, hrole⟩
    rw [hsec] at hs
    rcases mem_gSections hs with ⟨b, hb, rfl⟩ | ⟨v, _, rfl⟩ | ⟨e, he, rfl⟩ | ⟨b, hb, rfl⟩ | ⟨v, _, rfl⟩ | ⟨v, hv, b, hb, rfl⟩
    · cases ho
    · cases ho
    · have he1 : e.1 = r.1 := Origin.ext.inj ho
      have her : e = r := nodup_map_inj hd ((memE e).1 he) hr he1
      subst her
      refine ⟨e, he, ?_, hp⟩
      rcases List.mem_cons.1 hdc with rfl | hdc
      · cases hrole
      · obtain ⟨x, hx, _⟩ := List.mem_map.1 hdc
        exact List.ne_nil_of_mem hx
    · cases ho
    · cases ho
    · cases ho

theorem imports_nodup' {cfg : Cfg} {d : Dictionary} {o : Options} {out : Output} (h : generate cfg d o = .ok out) :
    out.imports.Nodup := by
  obtain ⟨seen, evs0, vimps, _, _, _, _, _, himp, _⟩ := generate_ok_full h
  rw [himp]
  have hstd : stdImports.Nodup := by decide
  have hstdm : ∀ i ∈ stdImports, ∃ q, i = Imp.std q := by
    intro i hi
    simp only [stdImports, List.mem_cons, List.not_mem_nil, or_false] at hi
    rcases hi with rfl | rfl | rfl | rfl | rfl <;> exact ⟨_, rfl⟩
  rw [List.nodup_append, List.nodup_append, List.nodup_append]
  refine ⟨⟨⟨hstd.sublist List.filter_sublist, by split <;> simp, ?_⟩, by split <;> simp, ?_⟩, ?_, ?_⟩
  · intro a ha b hb
    obtain ⟨q, rfl⟩ := hstdm a (List.mem_filter.1 ha).1
    split at hb <;> simp at hb
    subst hb
    simp
  · intro a ha b hb
    split at hb <;> simp at hb
    subst hb
    rcases List.mem_append.1 ha with ha | ha
    · obtain ⟨q, rfl⟩ := hstdm a (List.mem_filter.1 ha).1
      simp
    · split at ha <;> simp at ha
      subst ha
      simp
  · rw [List.Nodup, List.pairwise_map]
    exact (dedupBytes_nodup _).imp (fun hne e => hne (Imp.dot.inj e))
  · intro a ha b hb
    obtain ⟨q, _, rfl⟩ := List.mem_map.1 hb
    rcases List.mem_append.1 ha with ha | ha
    · rcases List.mem_append.1 ha with ha | ha
      · obtain ⟨q', rfl⟩ := hstdm a (List.mem_filter.1 ha).1
        simp
      · split at ha <;> simp at ha
        subst ha
        simp
    · split at ha <;> simp at ha
      subst ha
      simp

/-! ### the named constants of an attribute: one per VALUE number -/

theorem avStep_spec (n : Bytes) (acc : List Value) (v : Value)
    (hp : acc.Pairwise (fun x y => x.number < y.number)) (hle : ∀ x ∈ acc, x.number ≤ v.number) :
    (avStep n acc v).Pairwise (fun x y => x.number < y.number)
    ∧ (∀ w ∈ avStep n acc v, w ∈ acc ∨ (w = v ∧ v.attrName = n))
    ∧ (∀ u ∈ acc, ∃ w ∈ avStep n acc v, w.number = u.number)
    ∧ (v.attrName = n → v ∈ avStep n acc v)
    ∧ (∀ w ∈ avStep n acc v, w.number ≤ v.number) := by
  unfold avStep
  by_cases hv : v.attrName = n
  · have hv' : (v.attrName == n) = true := by simpa using hv
    rw [if_pos hv']
    rcases List.eq_nil_or_concat acc with rfl | ⟨ini, lst, rfl⟩
    · simp [hv]
    · rw [List.concat_eq_append] at hp hle ⊢
      rw [List.getLast?_concat]
      simp only [List.dropLast_concat]
      rw [List.pairwise_append] at hp
      obtain ⟨hpi, _, hpl⟩ := hp
      have hlst : lst.number ≤ v.number := hle lst (by simp)
      have hini : ∀ a ∈ ini, a.number < lst.number := fun a ha => hpl a ha lst (by simp)
      by_cases heq : lst.number = v.number
      · have heq' : (lst.number == v.number) = true := by simpa using heq
        rw [if_pos heq']
        refine ⟨?_, ?_, ?_, ?_, ?_⟩
        · rw [List.pairwise_append]
          refine ⟨hpi, by simp, ?_⟩
          intro a ha b hb
          rw [List.mem_singleton] at hb
          subst hb
          rw [← heq]
          exact hini a ha
        · intro w hw
          rcases List.mem_append.1 hw with hw | hw
          · exact Or.inl (List.mem_append_left _ hw)
          · rw [List.mem_singleton] at hw
            exact Or.inr ⟨hw, hv⟩
        · intro u hu
          rcases List.mem_append.1 hu with hu | hu
          · exact ⟨u, List.mem_append_left _ hu, rfl⟩
          · rw [List.mem_singleton] at hu
            subst hu
            exact ⟨v, by simp, heq.symm⟩
        · intro _; simp
        · intro w hw
          rcases List.mem_append.1 hw with hw | hw
          · have := hini w hw
            omega
          · rw [List.mem_singleton] at hw
            subst hw
            exact Nat.le_refl _
      · have heq' : (lst.number == v.number) = false := by simpa using heq
        rw [heq']
        simp only [Bool.false_eq_true, if_false]
        refine ⟨?_, ?_, ?_, ?_, ?_⟩
        · rw [List.pairwise_append]
          refine ⟨?_, by simp, ?_⟩
          · rw [List.pairwise_append]
            exact ⟨hpi, by simp, hpl⟩
          · intro a ha b hb
            rw [List.mem_singleton] at hb
            subst hb
            rcases List.mem_append.1 ha with ha | ha
            · have := hini a ha
              omega
            · rw [List.mem_singleton] at ha
              subst ha
              omega
        · intro w hw
          rcases List.mem_append.1 hw with hw | hw
          · exact Or.inl hw
          · rw [List.mem_singleton] at hw
            exact Or.inr ⟨hw, hv⟩
        · intro u hu
          exact ⟨u, List.mem_append_left _ hu, rfl⟩
        · intro _; simp
        · intro w hw
          rcases List.mem_append.1 hw with hw | hw
          · exact hle w hw
          · rw [List.mem_singleton] at hw
            subst hw
            exact Nat.le_refl _
  · have hv' : (v.attrName == n) = false := by simpa using hv
    rw [hv']
    simp only [Bool.false_eq_true, if_false]
    exact ⟨hp, fun w hw => Or.inl hw, fun u hu => ⟨u, hu, rfl⟩, fun h => absurd h hv, hle⟩

theorem foldl_avStep_spec (n : Bytes) : ∀ (S acc : List Value),
    S.Pairwise (fun x y => x.number ≤ y.number) →
    acc.Pairwise (fun x y => x.number < y.number) →
    (∀ x ∈ acc, ∀ y ∈ S, x.number ≤ y.number) →
    (S.foldl (avStep n) acc).Pairwise (fun x y => x.number < y.number)
    ∧ (∀ w ∈ S.foldl (avStep n) acc, w ∈ acc ∨ (w ∈ S ∧ w.attrName = n))
    ∧ (∀ v, (v ∈ acc ∨ (v ∈ S ∧ v.attrName = n)) → ∃ w ∈ S.foldl (avStep n) acc, w.number = v.number)
  | [], acc, _, hp, _ => by
    refine ⟨hp, fun w hw => Or.inl hw, ?_⟩
    rintro v (hv | ⟨hv, _⟩)
    · exact ⟨v, hv, rfl⟩
    · cases hv
  | v :: S, acc, hs, hp, hle => by
    rw [List.pairwise_cons] at hs
    obtain ⟨a1, a2, a3, a4, a5⟩ := avStep_spec n acc v hp (fun x hx => hle x hx v List.mem_cons_self)
    have hle' : ∀ x ∈ avStep n acc v, ∀ y ∈ S, x.number ≤ y.number :=
      fun x hx y hy => Nat.le_trans (a5 x hx) (hs.1 y hy)
    obtain ⟨b1, b2, b3⟩ := foldl_avStep_spec n S (avStep n acc v) hs.2 a1 hle'
    rw [List.foldl_cons]
    refine ⟨b1, ?_, ?_⟩
    · intro w hw
      rcases b2 w hw with h | ⟨h, hn⟩
      · rcases a2 w h with h | ⟨rfl, hn⟩
        · exact Or.inl h
        · exact Or.inr ⟨List.mem_cons_self, hn⟩
      · exact Or.inr ⟨List.mem_cons_of_mem _ h, hn⟩
    · rintro u (hu | ⟨hu, hn⟩)
      · obtain ⟨w, hw, e⟩ := a3 u hu
        obtain ⟨w', hw', e'⟩ := b3 w (Or.inl hw)
        exact ⟨w', hw', e'.trans e⟩
      · rcases List.mem_cons.1 hu with rfl | hu
        · exact b3 u (Or.inl (a4 hn))
        · exact b3 u (Or.inr ⟨hu, hn⟩)

/-- the named constants of an attribute: VALUE lines of that attribute, with pairwise distinct
    (ascending) numbers, one for every number that occurs -/
theorem attrValues_spec' (n : Bytes) (l : List Value) :
    (attrValues n (sortValues l)).Pairwise (fun x y => x.number < y.number)
    ∧ (∀ w ∈ attrValues n (sortValues l), w ∈ l ∧ w.attrName = n)
    ∧ (∀ v ∈ l, v.attrName = n → ∃ w ∈ attrValues n (sortValues l), w.number = v.number) := by
  have hsorted : (sortValues l).Pairwise (fun x y => x.number ≤ y.number) := by
    have := sortStable_pairwise (fun a b : Value => decide (a.number < b.number))
      (by intro a b h; simp only [decide_eq_true_eq, decide_eq_false_iff_not] at h ⊢; omega)
      (by intro a b c h1 h2; simp only [decide_eq_false_iff_not] at h1 h2 ⊢; omega) l
    exact this.imp (fun h => by simpa using h)
  have hmem : ∀ v, v ∈ sortValues l ↔ v ∈ l := fun v => mem_sortStable _ _ _
  obtain ⟨b1, b2, b3⟩ := foldl_avStep_spec n (sortValues l) [] hsorted List.Pairwise.nil (fun x hx => by cases hx)
  rw [attrValues_eq_foldl]
  refine ⟨b1, ?_, ?_⟩
  · intro w hw
    rcases b2 w hw with h | ⟨h, hn⟩
    · cases h
    · exact ⟨(hmem w).1 h, hn⟩
  · intro v hv hn
    exact b3 v (Or.inr ⟨(hmem v).2 hv, hn⟩)

theorem std_imports_canonical' {cfg : Cfg} {d : Dictionary} {o : Options} {out : Output} (h : generate cfg d o = .ok out) :
    (out.imports.filter (fun i => match i with | .std _ => true | _ => false)).Sublist stdImports := by
  obtain ⟨seen, evs0, vimps, _, _, _, _, _, himp, _⟩ := generate_ok_full h
  rw [himp]
  simp only [List.filter_append]
  have h2 : ∀ c : Bool, (if c = true then [Imp.radius] else []).filter (fun i => match i with | .std _ => true | _ => false) = [] := by
    intro c; cases c <;> rfl
  have h3 : ∀ c : Bool, (if c = true then [Imp.rfc2865] else []).filter (fun i => match i with | .std _ => true | _ => false) = [] := by
    intro c; cases c <;> rfl
  have h4 : ∀ l : List Bytes, (l.map Imp.dot).filter (fun i => match i with | .std _ => true | _ => false) = [] := by
    intro l
    rw [List.filter_eq_nil_iff]
    intro i hi
    obtain ⟨q, _, rfl⟩ := List.mem_map.1 hi
    simp
  rw [h2, h3, h4, List.append_nil, List.append_nil, List.append_nil]
  exact List.filter_sublist.trans List.filter_sublist

end RV.Gen
