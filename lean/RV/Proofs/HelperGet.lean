/-
  X_Get / X_GetString(s) / X_LookupString against X_Lookup / X_Gets (RV/Model/Helper.lean).
-/
import RV.Model.Helper
import RV.Proofs.Helper
namespace RV

section
variable (H : Hash)

/-- text kinds: the results are the stripped tag and either the decrypted value (also when it has the
    wrong fixed size) or nil (the decryption failed) -/
theorem lookupResults_text (d : Desc) (hk : d.kind = .string ∨ d.kind = .octets ∨ d.kind = .concat)
    (a secret auth : Bytes) :
    lookupResults H d a secret auth =
      ((untag d a).1, .bytes (match textPlain H d (untag d a).2 secret auth with | .ok v => v | _ => [])) := by
  have e : ∀ c, (match d.encrypt with
           | 1 => userPassword H c secret auth
           | 2 => tpPlain H c secret auth
           | _ => (.ok c : Res Bytes)) = textPlain H d c secret auth := by
    intro c; unfold textPlain; split <;> simp_all
  have key : ∀ (t : UInt8) (c : Bytes), (match (match d.encrypt with
           | 1 => userPassword H c secret auth
           | 2 => tpPlain H c secret auth
           | _ => (.ok c : Res Bytes)) with
           | .ok v => (t, GVal.bytes v)
           | _ => (t, GVal.bytes [])) =
        (t, GVal.bytes (match textPlain H d c secret auth with | .ok v => v | _ => [])) := by
    intro t c
    rw [e]
    cases textPlain H d c secret auth <;> rfl
  unfold untag
  rcases hk with h | h | h <;> simp only [lookupResults, h] <;> exact key _ _

/-- integer kinds: on an error path the results are the stripped tag (tagged attribute) and 0 -/
theorem lookupResults_int (d : Desc) (w : Nat) (hk : d.kind.intBytes = some w) (a secret auth : Bytes) :
    lookupResults H d a secret auth =
      match decodeValue H d a secret auth with
      | .ok tv => tv
      | _ => ((if d.hasTag = true ∧ a.length ≥ 1 ∧ (a.getD 0 0).toNat ≤ 0x1F then a.getD 0 0 else 0), .nat 0) := by
  rw [decodeValue_int H d w hk]
  have hl : lookupResults H d a secret auth =
      if d.hasTag then
        (if (if a.length ≥ 1 ∧ (a.getD 0 0).toNat ≤ 0x1F then (a.getD 0 0, (0 : UInt8) :: a.drop 1) else (0, a)).2.length ≠ w
         then ((if a.length ≥ 1 ∧ (a.getD 0 0).toNat ≤ 0x1F then (a.getD 0 0, (0 : UInt8) :: a.drop 1) else (0, a)).1, .nat 0)
         else ((if a.length ≥ 1 ∧ (a.getD 0 0).toNat ≤ 0x1F then (a.getD 0 0, (0 : UInt8) :: a.drop 1) else (0, a)).1,
                   .nat (beNat (if a.length ≥ 1 ∧ (a.getD 0 0).toNat ≤ 0x1F then (a.getD 0 0, (0 : UInt8) :: a.drop 1) else (0, a)).2)))
      else
        match unsalt H d a secret auth with
        | .ok a => if a.length ≠ w then (0, .nat 0) else (0, .nat (beNat a))
        | _ => (0, .nat 0) := by
    cases hkind : d.kind <;> simp [Kind.intBytes, hkind] at hk <;> subst hk <;>
      simp only [lookupResults, hkind, Kind.intBytes, unsalt] <;> rfl
  rw [hl]
  by_cases ht : d.hasTag = true
  · rw [if_pos ht, if_pos ht]
    by_cases hs : a.length ≥ 1 ∧ (a.getD 0 0).toNat ≤ 0x1F
    · have htag : (if d.hasTag = true ∧ a.length ≥ 1 ∧ (a.getD 0 0).toNat ≤ 0x1F then a.getD 0 0 else 0) = a.getD 0 0 :=
        if_pos ⟨ht, hs⟩
      rw [htag]
      simp only [if_pos hs]
      by_cases hw : ((0 : UInt8) :: a.drop 1).length ≠ w
      · rw [if_pos hw, if_pos hw]
      · rw [if_neg hw, if_neg hw]
    · have htag : (if d.hasTag = true ∧ a.length ≥ 1 ∧ (a.getD 0 0).toNat ≤ 0x1F then a.getD 0 0 else 0) = 0 :=
        if_neg (fun h => hs h.2)
      rw [htag]
      simp only [if_neg hs]
      by_cases hw : a.length ≠ w
      · rw [if_pos hw, if_pos hw]
      · rw [if_neg hw, if_neg hw]
  · rw [if_neg ht, if_neg ht, if_neg (fun h => ht h.1)]
    cases unsalt H d a secret auth with
    | ok a' =>
      simp only []
      by_cases hw : a'.length ≠ w
      · rw [if_pos hw, if_pos hw]
      · rw [if_neg hw, if_neg hw]
    | err => rfl
    | fault => rfl

/-- on the success path the named results of X_Lookup are the value it reports -/
theorem lookupResults_of_ok (d : Desc) (a secret auth : Bytes) (tv : UInt8 × GVal)
    (h : decodeValue H d a secret auth = .ok tv) : lookupResults H d a secret auth = tv := by
  by_cases hk : d.kind = .string ∨ d.kind = .octets ∨ d.kind = .concat
  · rw [decodeValue_text H d hk] at h
    rw [lookupResults_text H d hk]
    cases ht : textPlain H d (untag d a).2 secret auth with
    | ok v =>
      rw [ht] at h
      simp only [] at h ⊢
      split at h
      · cases h
      · cases h; rfl
    | err => rw [ht] at h; cases h
    | fault => rw [ht] at h; cases h
  · cases hi : d.kind.intBytes with
    | some w => rw [lookupResults_int H d w hi, h]
    | none =>
      unfold decodeValue at h
      unfold lookupResults
      cases hkk : d.kind <;> simp only [hkk, Kind.intBytes] at h hk hi ⊢ <;> (repeat' (split at h)) <;> simp_all

/-- on an error path of a kind other than text the `value` result is the zero value -/
theorem lookupResults_of_fail (d : Desc) (a secret auth : Bytes)
    (hk : d.kind ≠ .string ∧ d.kind ≠ .octets ∧ d.kind ≠ .concat)
    (h : ∀ tv, decodeValue H d a secret auth ≠ .ok tv) :
    (lookupResults H d a secret auth).2 = GVal.zero d.kind := by
  cases hi : d.kind.intBytes with
  | some w =>
    rw [lookupResults_int H d w hi]
    cases hd : decodeValue H d a secret auth with
    | ok tv => exact absurd hd (h tv)
    | err => cases hkk : d.kind <;> simp [Kind.intBytes, hkk] at hi <;> rfl
    | fault => cases hkk : d.kind <;> simp [Kind.intBytes, hkk] at hi <;> rfl
  | none =>
    unfold decodeValue at h
    unfold lookupResults
    cases hkk : d.kind <;> simp only [hkk, Kind.intBytes, GVal.zero] at h hk hi ⊢ <;>
      (repeat' split) <;> simp_all

/-! ### Get against Lookup -/

/-- X_Get returns what X_Lookup reports, when X_Lookup succeeds -/
theorem hGet_of_lookup_val (d : Desc) (as : Attrs) (secret auth : Bytes) (t : UInt8) (v : GVal)
    (h : hLookup H d as secret auth = .val t v) : hGet H d as secret auth = (t, v) := by
  unfold hLookup at h
  unfold hGet
  by_cases hk : d.kind = .concat
  · rw [if_pos hk] at h ⊢
    split at h
    · cases h
    · cases h; rfl
  · rw [if_neg hk] at h ⊢
    cases hr : (rawValues d as).head? with
    | none => rw [hr] at h; cases h
    | some a =>
      rw [hr] at h
      simp only [] at h ⊢
      cases hd : decodeValue H d a secret auth with
      | ok tv =>
        rw [hd] at h
        obtain ⟨t', v'⟩ := tv
        simp only [LookupRes.val.injEq] at h
        rw [lookupResults_of_ok H d a secret auth _ hd, h.1, h.2]
      | err => rw [hd] at h; cases h
      | fault => rw [hd] at h; cases h

/-- X_Get returns the zero value (and tag 0) when the attribute is absent -/
theorem hGet_of_lookup_noAttr (d : Desc) (as : Attrs) (secret auth : Bytes)
    (h : hLookup H d as secret auth = .noAttr) : hGet H d as secret auth = (0, GVal.zero d.kind) := by
  unfold hLookup at h
  unfold hGet
  by_cases hk : d.kind = .concat
  · rw [if_pos hk] at h ⊢
    split at h
    · next hr => rw [hr, hk]; rfl
    · cases h
  · rw [if_neg hk] at h ⊢
    cases hr : (rawValues d as).head? with
    | none => rfl
    | some a =>
      rw [hr] at h
      simp only [] at h
      split at h <;> cases h

/-- when X_Lookup reports a decoding error, X_Get returns the named results of the failing decode:
    the zero value for every kind but text -/
theorem hGet_of_lookup_err (d : Desc) (as : Attrs) (secret auth : Bytes)
    (h : hLookup H d as secret auth = .err) :
    ∃ a, (rawValues d as).head? = some a ∧ hGet H d as secret auth = lookupResults H d a secret auth ∧
      (d.kind ≠ .string ∧ d.kind ≠ .octets → (hGet H d as secret auth).2 = GVal.zero d.kind) := by
  unfold hLookup at h
  by_cases hk : d.kind = .concat
  · rw [if_pos hk] at h
    split at h <;> cases h
  · rw [if_neg hk] at h
    cases hr : (rawValues d as).head? with
    | none => rw [hr] at h; cases h
    | some a =>
      rw [hr] at h
      simp only [] at h
      have hg : hGet H d as secret auth = lookupResults H d a secret auth := by
        unfold hGet; rw [if_neg hk, hr]
      refine ⟨a, rfl, hg, fun hnt => ?_⟩
      rw [hg]
      refine lookupResults_of_fail H d a secret auth ⟨hnt.1, hnt.2, hk⟩ (fun tv htv => ?_)
      rw [htv] at h
      cases h

/-! ### the string flavours -/

theorem toStr_eq (v : GVal) : v.toStr = v := by cases v <;> rfl

theorem hGetStrings_eq (d : Desc) (as : Attrs) (secret auth : Bytes) :
    hGetStrings H d as secret auth = hGets H d as secret auth := by
  unfold hGetStrings
  simp [toStr_eq]

theorem map_stringOf (l : List Bytes) : l.map stringOf = l := by
  induction l with
  | nil => rfl
  | cons x xs ih => rw [List.map_cons, ih]; rfl

/-- the body of X_LookupString computes the results and the error condition of X_Lookup -/
theorem lookupStringBody_eq (d : Desc) (hk : d.kind = .string ∨ d.kind = .octets) (a secret auth : Bytes) :
    (lookupStringBody H d a secret auth).1 = lookupResults H d a secret auth ∧
    ((lookupStringBody H d a secret auth).2 = true ↔ ∀ tv, decodeValue H d a secret auth ≠ .ok tv) := by
  have hk3 : d.kind = .string ∨ d.kind = .octets ∨ d.kind = .concat := by
    rcases hk with h | h
    · exact Or.inl h
    · exact Or.inr (Or.inl h)
  have e : ∀ c, (match d.encrypt with
      | 1 => (match userPassword H c secret auth with | .ok b => (stringOf b, false) | _ => ([], true))
      | 2 => (match tpPlain H c secret auth with | .ok b => (stringOf b, false) | _ => ([], true))
      | _ => (stringOf c, false) : Bytes × Bool) =
      (match textPlain H d c secret auth with | .ok v => (v, false) | _ => ([], true)) := by
    intro c; unfold textPlain stringOf
    split
    · next h1 => rw [if_pos h1]
    · next h2 => rw [if_neg (by omega), if_pos h2]
    · next h1 h2 => rw [if_neg h1, if_neg h2]
  have key : ∀ (t : UInt8) (c : Bytes),
      (((t, GVal.bytes (match d.encrypt with
          | 1 => (match userPassword H c secret auth with | .ok b => (stringOf b, false) | _ => ([], true))
          | 2 => (match tpPlain H c secret auth with | .ok b => (stringOf b, false) | _ => ([], true))
          | _ => (stringOf c, false) : Bytes × Bool).1),
        (match d.encrypt with
          | 1 => (match userPassword H c secret auth with | .ok b => (stringOf b, false) | _ => ([], true))
          | 2 => (match tpPlain H c secret auth with | .ok b => (stringOf b, false) | _ => ([], true))
          | _ => (stringOf c, false) : Bytes × Bool).2 ||
        decide (d.size.isSome ∧ d.size ≠ some (match d.encrypt with
          | 1 => (match userPassword H c secret auth with | .ok b => (stringOf b, false) | _ => ([], true))
          | 2 => (match tpPlain H c secret auth with | .ok b => (stringOf b, false) | _ => ([], true))
          | _ => (stringOf c, false) : Bytes × Bool).1.length)) : (UInt8 × GVal) × Bool) =
      ((t, GVal.bytes (match textPlain H d c secret auth with | .ok v => v | _ => [])),
        (match textPlain H d c secret auth with
         | .ok v => decide (d.size.isSome ∧ d.size ≠ some v.length)
         | _ => true)) := by
    intro t c
    rw [e]
    cases textPlain H d c secret auth <;> simp
  have hb : lookupStringBody H d a secret auth =
      (((untag d a).1, GVal.bytes (match textPlain H d (untag d a).2 secret auth with | .ok v => v | _ => [])),
        (match textPlain H d (untag d a).2 secret auth with
         | .ok v => decide (d.size.isSome ∧ d.size ≠ some v.length)
         | _ => true)) := by
    unfold lookupStringBody untag
    exact key _ _
  rw [hb, lookupResults_text H d hk3, decodeValue_text H d hk3]
  refine ⟨rfl, ?_⟩
  cases textPlain H d (untag d a).2 secret auth with
  | ok v =>
    simp only []
    by_cases hs : d.size.isSome ∧ d.size ≠ some v.length
    · rw [if_pos hs]
      simp only [decide_eq_true hs, true_iff]
      intro tv h; cases h
    · rw [if_neg hs]
      simp only [decide_eq_false hs, Bool.false_eq_true, false_iff]
      intro h; exact h _ rfl
  | err => simp
  | fault => simp

/-- X_LookupString = X_Lookup up to the (byte-preserving) string conversion -/
theorem hLookupString_eq (d : Desc) (hk : d.kind = .string ∨ d.kind = .octets ∨ d.kind = .concat)
    (as : Attrs) (secret auth : Bytes) :
    hLookupString H d as secret auth = hLookup H d as secret auth := by
  unfold hLookupString hLookup
  by_cases hc : d.kind = .concat
  · rw [if_pos hc, if_pos hc]
    cases rawValues d as with
    | nil => rfl
    | cons x xs => simp only [map_stringOf]
  · rw [if_neg hc, if_neg hc]
    have hk2 : d.kind = .string ∨ d.kind = .octets := by
      rcases hk with h | h | h
      · exact Or.inl h
      · exact Or.inr h
      · exact absurd h hc
    cases (rawValues d as).head? with
    | none => rfl
    | some a =>
      simp only []
      obtain ⟨h1, h2⟩ := lookupStringBody_eq H d hk2 a secret auth
      cases hd : decodeValue H d a secret auth with
      | ok tv =>
        have : (lookupStringBody H d a secret auth).2 = false := by
          cases hb : (lookupStringBody H d a secret auth).2 with
          | false => rfl
          | true => exact absurd hd (h2.1 hb tv)
        rw [this, h1, lookupResults_of_ok H d a secret auth tv hd]
        rfl
      | err =>
        have : (lookupStringBody H d a secret auth).2 = true := h2.2 (fun tv h => by rw [hd] at h; cases h)
        rw [this]; rfl
      | fault =>
        have : (lookupStringBody H d a secret auth).2 = true := h2.2 (fun tv h => by rw [hd] at h; cases h)
        rw [this]; rfl

/-- X_GetString = X_Get up to the string conversion -/
theorem hGetString_eq (d : Desc) (hk : d.kind = .string ∨ d.kind = .octets ∨ d.kind = .concat)
    (as : Attrs) (secret auth : Bytes) :
    hGetString H d as secret auth = hGet H d as secret auth := by
  unfold hGetString hGet
  by_cases hc : d.kind = .concat
  · rw [if_pos hc, if_pos hc, map_stringOf]
  · rw [if_neg hc, if_neg hc]
    have hk2 : d.kind = .string ∨ d.kind = .octets := by
      rcases hk with h | h | h
      · exact Or.inl h
      · exact Or.inr h
      · exact absurd h hc
    cases (rawValues d as).head? with
    | none => rcases hk2 with h | h <;> rw [h] <;> rfl
    | some a => exact (lookupStringBody_eq H d hk2 a secret auth).1

end
end RV
