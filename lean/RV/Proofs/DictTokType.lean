/-
  C16, token level (L1), part 3: type names and flags.
  `strings.EqualFold` against the parser's lower-case constants is the relation `FoldsTo` of the
  grammar; the type switch of `parseAttribute` accepts exactly the type tokens `TypeTok`;
  `strings.Split(s, ",")` is `FlagField`; the flag loop accepts exactly the item lists `FlagItems`
  in which no flag kind occurs twice.
-/
import RV.Proofs.DictTokBase
namespace RV.DictParser
open RV RV.Dict RV.DictParser.Spec RV.DictParser.Grammar

/-! ### strings.EqualFold -/

theorem foldEq_cons_cons (c d : UInt8) (s t : Bytes) : foldEq (c :: s) (d :: t) =
    if c == d || (65 ≤ c && c ≤ 90 && c + 32 == d) then foldEq s t
    else if c == 0xC5 && d == 115 then
      match s with
      | e :: s' => if e == 0xBF then foldEq s' t else false
      | [] => false
    else if c == 0xE2 && d == 107 then
      match s with
      | e :: f :: s' => if e == 0x84 && f == 0xAA then foldEq s' t else false
      | _ => false
    else false := by
  conv => lhs; unfold foldEq
  rfl

theorem foldsTo_foldEq {s t : Bytes} (h : FoldsTo s t) : foldEq s t = true := by
  induction h with
  | nil => simp [foldEq]
  | same c _ ih => rw [foldEq_cons_of_match _ _ _ _ (by simp)]; exact ih
  | upper c h1 h2 _ ih => rw [foldEq_cons_of_match _ _ _ _ (by simp [h1, h2])]; exact ih
  | longS _ ih =>
    rw [foldEq_cons_cons]
    simp only [show ((0xC5 : UInt8) == 115 || (65 ≤ (0xC5 : UInt8) && (0xC5 : UInt8) ≤ 90 && (0xC5 : UInt8) + 32 == 115)) = false by decide,
      Bool.false_eq_true, if_false, beq_self_eq_true, Bool.and_self, if_true]
    exact ih
  | kelvin _ ih =>
    rw [foldEq_cons_cons]
    simp only [show ((0xE2 : UInt8) == 107 || (65 ≤ (0xE2 : UInt8) && (0xE2 : UInt8) ≤ 90 && (0xE2 : UInt8) + 32 == 107)) = false by decide,
      show ((0xE2 : UInt8) == 0xC5) = false by decide,
      Bool.false_eq_true, if_false, beq_self_eq_true, Bool.and_self, if_true, Bool.false_and]
    exact ih

theorem foldEq_foldsTo : ∀ (n : Nat) (s t : Bytes), s.length ≤ n → foldEq s t = true → FoldsTo s t := by
  intro n
  induction n with
  | zero =>
    intro s t hn h
    cases s with
    | nil => cases t with
      | nil => exact .nil
      | cons d t => simp at h
    | cons c s => simp at hn
  | succ n ih =>
    intro s t hn h
    cases s with
    | nil => cases t with
      | nil => exact .nil
      | cons d t => simp at h
    | cons c s =>
      cases t with
      | nil => simp at h
      | cons d t =>
        simp only [List.length_cons] at hn
        by_cases hm : (c == d || (65 ≤ c && c ≤ 90 && c + 32 == d)) = true
        · rw [foldEq_cons_of_match _ _ _ _ hm] at h
          have hr := ih s t (by omega) h
          simp only [Bool.or_eq_true, Bool.and_eq_true, beq_iff_eq, decide_eq_true_eq] at hm
          rcases hm with hm | ⟨⟨h1, h2⟩, h3⟩
          · subst hm; exact .same c hr
          · subst h3; exact .upper c h1 h2 hr
        · rw [foldEq_cons_cons, if_neg hm] at h
          split at h
          · rename_i hc
            simp only [Bool.and_eq_true, beq_iff_eq] at hc
            obtain ⟨rfl, rfl⟩ := hc
            cases s with
            | nil => simp at h
            | cons e s' =>
              simp only at h
              split at h
              · rename_i he
                have he : e = 0xBF := by simpa using he
                subst he
                exact .longS (ih s' t (by simp only [List.length_cons] at hn; omega) h)
              · cases h
          · split at h
            · rename_i hc
              simp only [Bool.and_eq_true, beq_iff_eq] at hc
              obtain ⟨rfl, rfl⟩ := hc
              match s, h, hn with
              | [], h, _ => simp at h
              | [_], h, _ => simp at h
              | e :: f :: s', h, hn =>
                simp only at h
                split at h
                · rename_i he
                  simp only [Bool.and_eq_true, beq_iff_eq] at he
                  obtain ⟨rfl, rfl⟩ := he
                  exact .kelvin (ih s' t (by simp only [List.length_cons] at hn; omega) h)
                · cases h
            · cases h

/-- L1: the model of `strings.EqualFold(s, t)` is the folding relation of the grammar -/
theorem foldEq_iff (s t : Bytes) : foldEq s t = true ↔ FoldsTo s t :=
  ⟨foldEq_foldsTo s.length s t (Nat.le_refl _), foldsTo_foldEq⟩

/-! ### uniqueness: a token folds to at most one lower-case constant -/

theorem lowerTok_facts {c : UInt8} (h : lowerTok c = true) :
    ¬ (65 ≤ c ∧ c ≤ 90) ∧ c ≠ 0xC5 ∧ c ≠ 0xE2 ∧ c ≠ 93 := by
  have hlt := c.toNat_lt
  simp only [lowerTok, Bool.or_eq_true, Bool.and_eq_true, decide_eq_true_eq, beq_iff_eq, UInt8.le_iff_toNat_le,
    ne_eq, ← UInt8.toNat_inj] at *
  simp at *
  omega

theorem upper_ne {c : UInt8} (h : c ≤ 90) : c ≠ 0xC5 ∧ c ≠ 0xE2 ∧ c ≠ 93 := by
  have hlt := c.toNat_lt
  simp only [UInt8.le_iff_toNat_le, ne_eq, ← UInt8.toNat_inj] at *
  simp at *
  omega

/-- inversion of `FoldsTo` on a non-empty token -/
theorem foldsTo_cons_inv {x b : Bytes} (h : FoldsTo x b) : ∀ (c : UInt8) (s : Bytes), x = c :: s →
    (∃ b', b = c :: b' ∧ FoldsTo s b') ∨
    (∃ b', 65 ≤ c ∧ c ≤ 90 ∧ b = (c + 32) :: b' ∧ FoldsTo s b') ∨
    (∃ s' b', c = 0xC5 ∧ s = 0xBF :: s' ∧ b = 115 :: b' ∧ FoldsTo s' b') ∨
    (∃ s' b', c = 0xE2 ∧ s = 0x84 :: 0xAA :: s' ∧ b = 107 :: b' ∧ FoldsTo s' b') := by
  cases h with
  | nil => intro c s e; cases e
  | same c' h' =>
    intro c s e; injection e with e1 e2; subst e1 e2
    exact Or.inl ⟨_, rfl, h'⟩
  | upper c' h1 h2 h' =>
    intro c s e; injection e with e1 e2; subst e1 e2
    exact Or.inr (Or.inl ⟨_, h1, h2, rfl, h'⟩)
  | longS h' =>
    intro c s e; injection e with e1 e2; subst e1 e2
    exact Or.inr (Or.inr (Or.inl ⟨_, _, rfl, rfl, rfl, h'⟩))
  | kelvin h' =>
    intro c s e; injection e with e1 e2; subst e1 e2
    exact Or.inr (Or.inr (Or.inr ⟨_, _, rfl, rfl, rfl, h'⟩))

theorem foldsTo_nil_inv {b : Bytes} (h : FoldsTo [] b) : b = [] := by
  cases h; rfl

/-- (i) a token folds to at most one string of lower-case bytes -/
theorem foldsTo_unique {t a b : Bytes} (h1 : FoldsTo t a) (h2 : FoldsTo t b)
    (ha : a.all lowerTok = true) (hb : b.all lowerTok = true) : a = b := by
  induction h1 generalizing b with
  | nil => exact (foldsTo_nil_inv h2).symm
  | same c _ ih =>
    simp only [List.all_cons, Bool.and_eq_true] at ha
    have hc := lowerTok_facts ha.1
    rcases foldsTo_cons_inv h2 _ _ rfl with ⟨b', rfl, h'⟩ | ⟨b', l1, l2, rfl, h'⟩ | ⟨s', b', e, _⟩ | ⟨s', b', e, _⟩
    · simp only [List.all_cons, Bool.and_eq_true] at hb
      rw [ih h' ha.2 hb.2]
    · exact absurd ⟨l1, l2⟩ hc.1
    · exact absurd e hc.2.1
    · exact absurd e hc.2.2.1
  | upper c l1 l2 _ ih =>
    simp only [List.all_cons, Bool.and_eq_true] at ha
    have hc := upper_ne l2
    rcases foldsTo_cons_inv h2 _ _ rfl with ⟨b', rfl, h'⟩ | ⟨b', _, _, rfl, h'⟩ | ⟨s', b', e, _⟩ | ⟨s', b', e, _⟩
    · simp only [List.all_cons, Bool.and_eq_true] at hb
      exact absurd ⟨l1, l2⟩ (lowerTok_facts hb.1).1
    · simp only [List.all_cons, Bool.and_eq_true] at hb
      rw [ih h' ha.2 hb.2]
    · exact absurd e hc.1
    · exact absurd e hc.2.1
  | longS _ ih =>
    simp only [List.all_cons, Bool.and_eq_true] at ha
    rcases foldsTo_cons_inv h2 _ _ rfl with ⟨b', rfl, h'⟩ | ⟨b', _, l2, rfl, h'⟩ | ⟨s', b', _, e, rfl, h'⟩ | ⟨s', b', e, _⟩
    · simp only [List.all_cons, Bool.and_eq_true] at hb
      exact absurd hb.1 (by decide)
    · exact absurd l2 (by decide)
    · injection e with _ e; subst e
      simp only [List.all_cons, Bool.and_eq_true] at hb
      rw [ih h' ha.2 hb.2]
    · exact absurd e (by decide)
  | kelvin _ ih =>
    simp only [List.all_cons, Bool.and_eq_true] at ha
    rcases foldsTo_cons_inv h2 _ _ rfl with ⟨b', rfl, h'⟩ | ⟨b', _, l2, rfl, h'⟩ | ⟨s', b', e, _⟩ | ⟨s', b', _, e, rfl, h'⟩
    · simp only [List.all_cons, Bool.and_eq_true] at hb
      exact absurd hb.1 (by decide)
    · exact absurd l2 (by decide)
    · exact absurd e (by decide)
    · injection e with _ e; injection e with _ e; subst e
      simp only [List.all_cons, Bool.and_eq_true] at hb
      rw [ih h' ha.2 hb.2]

/-- (ii) a token that folds to a string of lower-case bytes contains no `]` -/
theorem foldsTo_no_bracket {t a : Bytes} (h : FoldsTo t a) (ha : a.all lowerTok = true) : ∀ x ∈ t, x ≠ 93 := by
  induction h with
  | nil => intro x hx; cases hx
  | same c _ ih =>
    simp only [List.all_cons, Bool.and_eq_true] at ha
    intro x hx
    rcases List.mem_cons.mp hx with rfl | hx
    · exact (lowerTok_facts ha.1).2.2.2
    · exact ih ha.2 x hx
  | upper c l1 l2 _ ih =>
    simp only [List.all_cons, Bool.and_eq_true] at ha
    intro x hx
    rcases List.mem_cons.mp hx with rfl | hx
    · exact (upper_ne l2).2.2
    · exact ih ha.2 x hx
  | longS _ ih =>
    simp only [List.all_cons, Bool.and_eq_true] at ha
    intro x hx
    simp only [List.mem_cons] at hx
    rcases hx with rfl | rfl | hx
    · decide
    · decide
    · exact ih ha.2 x hx
  | kelvin _ ih =>
    simp only [List.all_cons, Bool.and_eq_true] at ha
    intro x hx
    simp only [List.mem_cons] at hx
    rcases hx with rfl | rfl | rfl | hx
    · decide
    · decide
    · decide
    · exact ih ha.2 x hx

theorem typeName_inj (ty ty' : AttrType) : typeName ty = typeName ty' → ty = ty' := by
  cases ty <;> cases ty' <;> first | (intro _; rfl) | (intro h; exact absurd h (by decide))

/-- a token that folds to the name of `ty` folds to no other type name -/
theorem foldEq_typeName {t : Bytes} {ty : AttrType} (h : FoldsTo t (typeName ty)) (ty' : AttrType)
    (h' : foldEq t (typeName ty') = true) : ty' = ty :=
  typeName_inj _ _ (foldsTo_unique ((foldEq_iff _ _).mp h') h (typeName_lower ty') (typeName_lower ty))

theorem find?_unique {α : Type} {l : List α} {p : α → Bool} {x : α} (hx : x ∈ l) (hp : p x = true)
    (hu : ∀ y ∈ l, p y = true → y = x) : l.find? p = some x := by
  cases h : l.find? p with
  | none => exact absurd hp (List.find?_eq_none.mp h x hx)
  | some y => rw [hu y (List.mem_of_find?_eq_some h) (List.find?_some h)]

theorem typeTable_name {e : Bytes × AttrType} (he : e ∈ typeTable) : e.1 = typeName e.2 := by
  have := List.all_eq_true.mp typeTable_names e he
  simpa using this

/-! ### the type switch -/

theorem parseType_ok_typeTok {t : Bytes} {ty : AttrType} {size : Option Int}
    (h : parseType t = .ok (ty, size)) : TypeTok t ty size := by
  unfold parseType at h
  split at h
  · rename_i h1
    cases h
    exact Or.inl ⟨rfl, (foldEq_iff _ _).mp h1⟩
  · split at h
    · rename_i h2
      cases h
      exact Or.inl ⟨rfl, (foldEq_iff _ _).mp h2⟩
    · split at h
      · rename_i h3
        simp only [Bool.and_eq_true, decide_eq_true_eq, beq_iff_eq] at h3
        obtain ⟨⟨hlen, hfold⟩, hlast⟩ := h3
        split at h
        · rename_i n hn
          cases h
          have hlast' : (t.drop 7).getLast? = some 93 := by
            rw [List.getLast?_drop, if_neg (by omega)]; exact hlast
          obtain ⟨ys, hys⟩ := List.getLast?_eq_some_iff.mp hlast'
          have hdl : (t.drop 7).dropLast = ys := by rw [hys]; simp
          refine Or.inr ⟨rfl, t.take 7, (t.drop 7).dropLast, n, ?_, ?_, (foldEq_iff _ _).mp hfold,
            (parseInt32_iff _ _).mp hn, rfl⟩
          · rw [hdl, List.append_assoc, ← hys, List.take_append_drop]
          · rw [List.length_take]; omega
        · cases h
      · split at h
        · rename_i e he
          cases h
          have hn := typeTable_name (List.mem_of_find?_eq_some he)
          have hf := List.find?_some he
          rw [hn] at hf
          exact Or.inl ⟨rfl, (foldEq_iff _ _).mp hf⟩
        · cases h

theorem parseType_of_plain {t : Bytes} {ty : AttrType} (h : FoldsTo t (typeName ty)) :
    parseType t = .ok (ty, none) := by
  have hbr : (t.getLast? == some 93) = false := by
    apply Bool.eq_false_iff.mpr
    intro hl
    exact foldsTo_no_bracket h (typeName_lower ty) 93 (List.mem_of_getLast? (by simpa using hl)) rfl
  unfold parseType
  by_cases hs : foldEq t nmString = true
  · have : AttrType.string = ty := foldEq_typeName h .string hs
    subst this
    simp [hs]
  · by_cases ho : foldEq t nmOctets = true
    · have : AttrType.octets = ty := foldEq_typeName h .octets ho
      subst this
      simp [hs, ho]
    · have hmem : (typeName ty, ty) ∈ typeTable := by
        cases ty
        · exact absurd ((foldEq_iff _ _).mpr h) hs
        · exact absurd ((foldEq_iff _ _).mpr h) ho
        all_goals decide
      have hfind : typeTable.find? (fun e => foldEq t e.1) = some (typeName ty, ty) := by
        apply find?_unique hmem ((foldEq_iff _ _).mpr h)
        intro e he hp
        have hn := typeTable_name he
        rw [hn] at hp
        have := foldEq_typeName h e.2 hp
        exact Prod.ext (by rw [hn, this]) this
      simp [hs, ho, hbr, hfind]

theorem parseType_of_sized {p lit : Bytes} {n : Int} (hp : p.length = 7) (hf : FoldsTo p kwOctetsBr)
    (hl : Int32Lit lit n) : parseType (p ++ lit ++ [93]) = .ok (.octets, some n) := by
  have hne := int32Lit_ne_nil hl
  have hpos : 0 < lit.length := List.length_pos_iff.mpr hne
  have hnot : ∀ ty, foldEq (p ++ lit ++ [93]) (typeName ty) = false := by
    intro ty
    apply Bool.eq_false_iff.mpr
    intro hh
    exact foldsTo_no_bracket ((foldEq_iff _ _).mp hh) (typeName_lower ty) 93 (by simp) rfl
  have hs1 : foldEq (p ++ lit ++ [93]) nmString = false := hnot .string
  have hs2 : foldEq (p ++ lit ++ [93]) nmOctets = false := hnot .octets
  have hlen : (p ++ lit ++ [93]).length = 8 + lit.length := by simp [hp]; omega
  have htake : (p ++ lit ++ [93]).take 7 = p := by
    rw [List.append_assoc, List.take_append_of_le_length (by omega)]
    exact List.take_of_length_le (by omega)
  have hdrop : ((p ++ lit ++ [93]).drop 7).dropLast = lit := by
    rw [List.append_assoc, List.drop_append_of_le_length (by omega)]
    rw [List.drop_of_length_le (by omega)]
    simp
  have hlast : (p ++ lit ++ [93]).getLast? = some 93 := by simp
  unfold parseType
  simp only [hs1, hs2, Bool.false_eq_true, if_false, htake, (foldEq_iff _ _).mpr hf, hlast, hdrop,
    (parseInt32_iff _ _).mpr hl, hlen]
  simp [hne]

/-- L1: the type switch of `parseAttribute` accepts exactly the type tokens of the grammar -/
theorem parseType_iff (t : Bytes) (ty : AttrType) (size : Option Int) :
    parseType t = .ok (ty, size) ↔ TypeTok t ty size := by
  constructor
  · exact parseType_ok_typeTok
  · rintro (⟨rfl, h⟩ | ⟨rfl, p, lit, n, rfl, hp, hf, hl, rfl⟩)
    · exact parseType_of_plain h
    · exact parseType_of_sized hp hf hl

/-- the only error of the type switch -/
theorem parseType_error (t : Bytes) (e : ErrClass) (h : parseType t = .error e) : e = .unknownAttributeType := by
  unfold parseType at h
  repeat' split at h
  all_goals first | (cases h; rfl) | cases h

/-! ### strings.Split(s, ",") -/

theorem noComma_iff (t : Bytes) : t.all (· != 44) = true ↔ ∀ b ∈ t, b ≠ 44 := by
  simp [List.all_eq_true]

theorem splitComma_flagField (s : Bytes) : FlagField s (splitComma s) := by
  induction s with
  | nil =>
    refine ⟨by simp [splitComma], ?_, by simp [splitComma, Spec.intercalate]⟩
    intro t ht b hb
    simp only [splitComma, List.mem_singleton] at ht
    subst ht; cases hb
  | cons b rest ih =>
    obtain ⟨hne, hno, hjoin⟩ := ih
    by_cases hb : (b == 44) = true
    · have hb' : b = 44 := by simpa using hb
      rw [splitComma]; simp only [hb, if_true]
      refine ⟨by simp, ?_, ?_⟩
      · intro t ht
        rcases List.mem_cons.mp ht with rfl | ht
        · intro x hx; cases hx
        · exact hno t ht
      · cases hsr : splitComma rest with
        | nil => exact absurd hsr hne
        | cons y r =>
          rw [hsr] at hjoin
          simp only [Spec.intercalate, List.nil_append, hb', ← hjoin]
    · have hb' : b ≠ 44 := by simpa using hb
      have hbf : (b == 44) = false := by simpa using hb
      rw [splitComma]; simp only [hbf, Bool.false_eq_true, if_false]
      cases hsr : splitComma rest with
      | nil => exact absurd hsr hne
      | cons l ls =>
        rw [hsr] at hno hjoin
        simp only
        refine ⟨by simp, ?_, ?_⟩
        · intro t ht
          rcases List.mem_cons.mp ht with rfl | ht
          · intro x hx
            rcases List.mem_cons.mp hx with rfl | hx
            · exact hb'
            · exact hno l (by simp) x hx
          · exact hno t (by simp [ht])
        · cases ls with
          | nil => simpa [Spec.intercalate] using hjoin
          | cons y r =>
            simp only [Spec.intercalate] at hjoin ⊢
            rw [hjoin]; rfl

/-- L1: `strings.Split(s, ",")`: the flag field is its items joined by `,` -/
theorem splitComma_iff (s : Bytes) (items : List Bytes) : splitComma s = items ↔ FlagField s items := by
  constructor
  · rintro rfl; exact splitComma_flagField s
  · rintro ⟨hne, hno, rfl⟩
    exact splitComma_intercalate items hne (fun t ht => (noComma_iff t).mpr (hno t ht))

/-! ### the flag loop -/

theorem parseFlags_ok (items : List Bytes) : ∀ (a a' : Attribute), parseFlags items a = .ok a' →
    ∃ fl, FlagItems items fl ∧ FlagsOnce a fl ∧ a' = fl.foldl applyFlag a := by
  induction items with
  | nil =>
    intro a a' h
    simp only [parseFlags] at h
    cases h
    exact ⟨[], .nil, rfl, rfl⟩
  | cons f fs ih =>
    intro a a' h
    rw [parseFlags] at h
    split at h
    · rename_i he
      have he : f.take 8 = kwEncrypt := by simpa using he
      split at h
      · cases h
      · rename_i hnone
        split at h
        · rename_i n hn
          obtain ⟨fl, hfl, honce, rfl⟩ := ih _ _ h
          have hlit := (parseInt32_iff _ _).mp hn
          have hf : kwEncrypt ++ f.drop 8 = f := by rw [← he, List.take_append_drop]
          refine ⟨.encrypt n :: fl, .cons (hf ▸ FlagItem.encrypt _ n hlit) hfl, ?_, rfl⟩
          have hn' : a.encrypt.isNone = true := by
            cases hen : a.encrypt <;> simp [hen] at hnone ⊢
          simp only [FlagsOnce, flagsOK, hn', int32Lit_ok hlit, Bool.true_and]
          exact honce
        · cases h
    · split at h
      · rename_i hne he
        have he : f = kwHasTag := by simpa using he
        subst he
        split at h
        · cases h
        · rename_i hnone
          obtain ⟨fl, hfl, honce, rfl⟩ := ih _ _ h
          refine ⟨.hasTag :: fl, .cons .hasTag hfl, ?_, rfl⟩
          have hn' : a.hasTag.isNone = true := by
            cases hen : a.hasTag <;> simp [hen] at hnone ⊢
          simp only [FlagsOnce, flagsOK, hn', Bool.true_and]
          exact honce
      · split at h
        · rename_i hne1 hne2 he
          have he : f = kwConcat := by simpa using he
          subst he
          split at h
          · cases h
          · rename_i hnone
            obtain ⟨fl, hfl, honce, rfl⟩ := ih _ _ h
            refine ⟨.concat :: fl, .cons .concat hfl, ?_, rfl⟩
            have hn' : a.isConcat.isNone = true := by
              cases hen : a.isConcat <;> simp [hen] at hnone ⊢
            simp only [FlagsOnce, flagsOK, hn', Bool.true_and]
            exact honce
        · cases h

theorem parseFlags_of_items {items : List Bytes} {fl : List Flag} (hi : FlagItems items fl) :
    ∀ (a : Attribute), FlagsOnce a fl → parseFlags items a = .ok (fl.foldl applyFlag a) := by
  induction hi with
  | nil => intro a _; simp [parseFlags]
  | cons hitem _ ih =>
    intro a honce
    cases hitem with
    | hasTag =>
      simp only [FlagsOnce, flagsOK, Bool.and_eq_true] at honce
      have h1 : (kwHasTag.take 8 == kwEncrypt) = false := by decide
      have hnone : a.hasTag.isSome = false := by
        cases he : a.hasTag <;> simp [he] at honce ⊢
      simp only [parseFlags, h1, Bool.false_eq_true, if_false, beq_self_eq_true, if_true, hnone,
        List.foldl_cons, applyFlag]
      exact ih _ honce.2
    | concat =>
      simp only [FlagsOnce, flagsOK, Bool.and_eq_true] at honce
      have h1 : (kwConcat.take 8 == kwEncrypt) = false := by decide
      have h2 : (kwConcat == kwHasTag) = false := by decide
      have hnone : a.isConcat.isSome = false := by
        cases he : a.isConcat <;> simp [he] at honce ⊢
      simp only [parseFlags, h1, h2, Bool.false_eq_true, if_false, beq_self_eq_true, if_true, hnone,
        List.foldl_cons, applyFlag]
      exact ih _ honce.2
    | encrypt lit n hlit =>
      simp only [FlagsOnce, flagsOK, Bool.and_eq_true] at honce
      have ht : (kwEncrypt ++ lit).take 8 = kwEncrypt := by simp [kwEncrypt]
      have hd : (kwEncrypt ++ lit).drop 8 = lit := by simp [kwEncrypt]
      have hnone : a.encrypt.isSome = false := by
        cases he : a.encrypt <;> simp [he] at honce ⊢
      simp only [parseFlags, ht, beq_self_eq_true, if_true, hnone, Bool.false_eq_true, if_false, hd,
        (parseInt32_iff _ _).mpr hlit, List.foldl_cons, applyFlag]
      exact ih _ honce.2

/-- L1: the flag loop of `parseAttribute` accepts exactly the lists of flag items in which no flag
    kind occurs twice (relative to `a`), and applies them in order -/
theorem parseFlags_iff (items : List Bytes) (a a' : Attribute) :
    parseFlags items a = .ok a' ↔ ∃ fl, FlagItems items fl ∧ FlagsOnce a fl ∧ a' = fl.foldl applyFlag a := by
  constructor
  · exact parseFlags_ok items a a'
  · rintro ⟨fl, hi, honce, rfl⟩
    exact parseFlags_of_items hi a honce

/-! ### non-vacuity -/

/-- `ſtring` (U+017F LATIN SMALL LETTER LONG S) folds to `string` -/
example : FoldsTo [0xC5, 0xBF, 116, 114, 105, 110, 103] nmString :=
  .longS (.same _ (.same _ (.same _ (.same _ (.same _ .nil)))))
/-- `KELVIN SIGN` folds to `k`, a capital to its small letter -/
example : FoldsTo [0xE2, 0x84, 0xAA, 69] [107, 101] := .kelvin (.upper 69 (by decide) (by decide) .nil)
example : ¬ FoldsTo [0xC5, 116] [115, 116] := fun h => absurd ((foldEq_iff _ _).mpr h) (by decide)
example : ¬ FoldsTo [115] [83] := fun h => absurd ((foldEq_iff _ _).mpr h) (by decide)

/-- `OcTeTs[+16]` -/
example : TypeTok [79, 99, 84, 101, 84, 115, 91, 43, 49, 54, 93] .octets (some 16) :=
  Or.inr ⟨rfl, [79, 99, 84, 101, 84, 115, 91], [43, 49, 54], 16, rfl, rfl,
    .upper 79 (by decide) (by decide) (.same _ (.upper 84 (by decide) (by decide) (.same _
      (.upper 84 (by decide) (by decide) (.same _ (.same _ .nil)))))),
    ⟨[49, 54], by decide, Or.inl ⟨Or.inr rfl, by decide⟩, by decide, by decide⟩, rfl⟩
example : parseType [79, 99, 84, 101, 84, 115, 91, 43, 49, 54, 93] = .ok (.octets, some 16) := rfl
/-- `vſa` is the type `vsa`, `IPADDR` is `ipaddr` -/
example : TypeTok [118, 0xC5, 0xBF, 97] .vsa none := (parseType_iff _ _ _).mp rfl
example : TypeTok [73, 80, 65, 68, 68, 82] .ipaddr none := (parseType_iff _ _ _).mp rfl
/-- `octetſ[1]` (the long s makes the prefix 8 bytes), `octets[]`, `octets[1` and `strin` are no type tokens -/
example : ∀ ty size, ¬ TypeTok [111, 99, 116, 101, 116, 0xC5, 0xBF, 91, 49, 93] ty size := by
  intro ty size h
  have := (parseType_iff _ _ _).mpr h
  rw [show parseType [111, 99, 116, 101, 116, 0xC5, 0xBF, 91, 49, 93] = .error .unknownAttributeType from rfl] at this
  cases this
example : ∀ ty size, ¬ TypeTok [111, 99, 116, 101, 116, 115, 91, 93] ty size := by
  intro ty size h
  have := (parseType_iff _ _ _).mpr h
  rw [show parseType [111, 99, 116, 101, 116, 115, 91, 93] = .error .unknownAttributeType from rfl] at this
  cases this
example : ∀ ty size, ¬ TypeTok [115, 116, 114, 105, 110] ty size := by
  intro ty size h
  have := (parseType_iff _ _ _).mpr h
  rw [show parseType [115, 116, 114, 105, 110] = .error .unknownAttributeType from rfl] at this
  cases this

/-- `has_tag,encrypt=1` -/
example : FlagField (kwHasTag ++ 44 :: kwEncrypt ++ [49]) [kwHasTag, kwEncrypt ++ [49]] :=
  (splitComma_iff _ _).mp (by decide)
/-- `a,,b` has an empty item; the empty field has one (empty) item -/
example : FlagField [97, 44, 44, 98] [[97], [], [98]] ∧ FlagField [] [[]] :=
  ⟨(splitComma_iff _ _).mp (by decide), (splitComma_iff _ _).mp (by decide)⟩
example : ¬ FlagField [97, 44, 98] [[97, 44, 98]] := fun h => absurd ((splitComma_iff _ _).mpr h) (by decide)

example : FlagItems [kwHasTag, kwEncrypt ++ [49]] [.hasTag, .encrypt 1] :=
  .cons .hasTag (.cons (.encrypt [49] 1 ⟨[49], by decide, Or.inl ⟨Or.inl rfl, by decide⟩, by decide, by decide⟩) .nil)
example : parseFlags [kwHasTag, kwEncrypt ++ [49]] { name := [], oid := [], typ := .string } =
    .ok { name := [], oid := [], typ := .string, hasTag := some true, encrypt := some 1 } := rfl
/-- the same flag kind twice, or an empty item, is refused -/
example : ¬ ∃ fl, FlagItems [kwHasTag, kwHasTag] fl ∧ FlagsOnce { name := [], oid := [], typ := .string } fl ∧
    ({ name := [], oid := [], typ := .string } : Attribute) = fl.foldl applyFlag { name := [], oid := [], typ := .string } := by
  intro h
  have := (parseFlags_iff _ _ _).mpr h
  rw [show parseFlags [kwHasTag, kwHasTag] { name := [], oid := [], typ := .string } = .error .duplicateAttributeFlag from rfl] at this
  cases this
example : ∀ fl, ¬ FlagItems [[]] fl := by
  intro fl h
  cases h with
  | cons hi _ => cases hi

end RV.DictParser
