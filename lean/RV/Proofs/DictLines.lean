/-
  C16, line level (L2) and whole text (L3): the directive switch `dispatch` of the model lets a
  line pass exactly when the line is a declaration of the grammar RV.Model.DictGrammar that is
  valid where it stands (`LineDecl`), and `Parser.Parse` on a single text succeeds exactly on the
  texts of the language (`Accepts`), returning the dictionary the grammar assigns.
-/
import RV.Proofs.DictTokens
import RV.Proofs.DictInclude
namespace RV.DictParser
open RV RV.Dict RV.DictParser.Spec RV.DictParser.Grammar

/-! ### L1, assembled: the arguments of an ATTRIBUTE line -/

theorem parseAttribute_iff (cfg : Cfg) (h13 : cfg.oidOverflowRejected = true) (name oid typ : Bytes)
    (flags : Option Bytes) (a : Attribute) :
    parseAttribute cfg name oid typ flags = .ok a ↔ AttrArgs name oid typ flags a := by
  unfold parseAttribute AttrArgs
  constructor
  · intro h
    cases ho : parseOID cfg oid with
    | none => simp [ho] at h
    | some o =>
      obtain ⟨comps, hdot, hfit, rfl⟩ := (parseOID_iff cfg h13 oid o).mp ho
      simp only [ho] at h
      cases ht : parseType typ with
      | error e => simp [ht] at h
      | ok p =>
        obtain ⟨ty, size⟩ := p
        have htt := (parseType_iff typ ty size).mp ht
        simp only [ht] at h
        cases flags with
        | none =>
          simp only [Except.ok.injEq] at h
          exact ⟨comps, ty, size, [], hdot, hfit, htt, rfl, rfl, by rw [← h]; rfl⟩
        | some field =>
          simp only at h
          obtain ⟨fl, hitems, honce, ha⟩ := (parseFlags_iff _ _ _).mp h
          exact ⟨comps, ty, size, fl, hdot, hfit, htt,
            ⟨splitComma field, (splitComma_iff field _).mp rfl, hitems⟩, honce, ha⟩
  · rintro ⟨comps, ty, size, fl, hdot, hfit, htt, hflags, honce, ha⟩
    have ho := (parseOID_iff cfg h13 oid (oidOf comps)).mpr ⟨comps, hdot, hfit, rfl⟩
    have ht := (parseType_iff typ ty size).mpr htt
    simp only [ho, ht]
    cases flags with
    | none =>
      simp only at hflags
      subst hflags
      simp [ha]
    | some field =>
      obtain ⟨items, hfield, hitems⟩ := hflags
      have hs := (splitComma_iff field items).mpr hfield
      simp only [hs]
      exact (parseFlags_iff _ _ _).mpr ⟨fl, hitems, honce, ha⟩

/-- the error classes `parseAttribute` can give -/
theorem parseAttribute_error (cfg : Cfg) (name oid typ : Bytes) (flags : Option Bytes) (e : ErrClass)
    (h : parseAttribute cfg name oid typ flags = .error e) :
    e = .invalidOID ∨ e = .unknownAttributeType ∨ e = .duplicateAttributeFlag ∨ e = .unknownAttributeFlag ∨
      e = .invalidAttributeEncryptType := by
  unfold parseAttribute at h
  cases ho : parseOID cfg oid with
  | none => simp [ho] at h; exact Or.inl h.symm
  | some o =>
    simp only [ho] at h
    cases ht : parseType typ with
    | error e' =>
      simp only [ht, Except.error.injEq] at h
      subst h
      exact Or.inr (Or.inl (parseType_error typ _ ht))
    | ok p =>
      obtain ⟨ty, size⟩ := p
      simp only [ht] at h
      cases flags with
      | none => simp at h
      | some field =>
        simp only at h
        generalize splitComma field = items at h
        generalize ({ name := name, oid := o, typ := ty, size := size } : Attribute) = b at h
        induction items generalizing b with
        | nil => simp [parseFlags] at h
        | cons f fs ih =>
          simp only [parseFlags] at h
          repeat' split at h
          all_goals first
            | (cases h; simp; done)
            | exact ih _ h

/-! ### L2: one line -/

theorem kw_distinct :
    (kwVALUE == kwATTRIBUTE) = false ∧ (kwVENDOR == kwATTRIBUTE) = false ∧ (kwVENDOR == kwVALUE) = false ∧
    (kwBEGIN == kwATTRIBUTE) = false ∧ (kwBEGIN == kwVALUE) = false ∧ (kwBEGIN == kwVENDOR) = false ∧
    (kwEND == kwATTRIBUTE) = false ∧ (kwEND == kwVALUE) = false ∧ (kwEND == kwVENDOR) = false ∧ (kwEND == kwBEGIN) = false := by
  decide

theorem vendorByNameOrNumber_none_iff (vs : List Vendor) (name : Bytes) (num : Int) :
    vendorByNameOrNumber vs name num = none ↔ ∀ w ∈ vs, w.name ≠ name ∧ w.number ≠ num := by
  simp [vendorByNameOrNumber, List.find?_eq_none]

theorem vendorByName_isSome_iff (vs : List Vendor) (n : Bytes) :
    (∃ v, vendorByName vs n = some v) ↔ ∃ w ∈ vs, w.name = n := by
  constructor
  · rintro ⟨v, hv⟩
    have h1 := List.mem_of_find?_eq_some hv
    have h2 := List.find?_some hv
    exact ⟨v, h1, by simpa using h2⟩
  · rintro ⟨w, hw, hn⟩
    cases h : vendorByName vs n with
    | some v => exact ⟨v, rfl⟩
    | none =>
      simp only [vendorByName, List.find?_eq_none] at h
      have := h w hw
      simp [hn] at this

theorem st_ext {a b : St} (hd : a.dict = b.dict) (hl : a.log = b.log) : a = b := by
  cases a; cases b; simp_all

/-- field lists of the six directive shapes -/
theorem fields_len2 {fields : List Bytes} (h : fields.length = 2) : fields = [fields.headD [], fields.getD 1 []] := by
  match fields, h with
  | [a, b], _ => rfl
theorem fields_len3 {fields : List Bytes} (h : fields.length = 3) :
    fields = [fields.headD [], fields.getD 1 [], fields.getD 2 []] := by
  match fields, h with
  | [a, b, c], _ => rfl
theorem fields_len4 {fields : List Bytes} (h : fields.length = 4) :
    fields = [fields.headD [], fields.getD 1 [], fields.getD 2 [], fields.getD 3 []] := by
  match fields, h with
  | [a, b, c, d], _ => rfl
theorem fields_len5 {fields : List Bytes} (h : fields.length = 5) :
    fields = [fields.headD [], fields.getD 1 [], fields.getD 2 [], fields.getD 3 [], fields.getD 4 []] := by
  match fields, h with
  | [a, b, c, d, e], _ => rfl


/-- the six branches of the directive switch, on the result of the branch's argument parser -/
def attrStep (ign : Bool) (file : Bytes) (lineNo : Nat) (vb : Option Bytes) (st : St) : Except ErrClass Attribute → Step
  | .error e => .fail (.decl e file lineNo) st
  | .ok a =>
    match attributeByName (scopeAttrs st.dict vb) a.name with
    | some existing => if ign && a == existing then .next vb st else .fail (.decl .duplicateAttribute file lineNo) st
    | none => .next vb { st with dict := addAttr st.dict a vb }

def valueStep (file : Bytes) (lineNo : Nat) (vb : Option Bytes) (st : St) : Except ErrClass Value → Step
  | .error e => .fail (.decl e file lineNo) st
  | .ok x => .next vb { st with dict := addValue st.dict x vb }

def vendorStep (file : Bytes) (lineNo : Nat) (vb : Option Bytes) (st : St) : Except ErrClass Vendor → Step
  | .error e => .fail (.decl e file lineNo) st
  | .ok v =>
    match vendorByNameOrNumber st.dict.vendors v.name v.number with
    | some _ => .fail (.decl .duplicateVendor file lineNo) st
    | none => .next vb { st with dict := { st.dict with vendors := st.dict.vendors ++ [v] } }

def beginStep (file : Bytes) (lineNo : Nat) (vb : Option Bytes) (st : St) (n : Bytes) : Step :=
  if vb.isSome then .fail (.decl .nestedVendorBlock file lineNo) st
  else match vendorByName st.dict.vendors n with
    | none => .fail (.decl .unknownVendor file lineNo) st
    | some _ => .next (some n) st

def endStep (file : Bytes) (lineNo : Nat) (vb : Option Bytes) (st : St) (n : Bytes) : Step :=
  match vb with
  | none => .fail (.decl .unmatchedEndVendor file lineNo) st
  | some v => if v != n then .fail (.decl .invalidEndVendor file lineNo) st else .next none st

def includeStep (inc : IncludeHandler) (file : Bytes) (lineNo : Nat) (vb : Option Bytes) (st : St) (n : Bytes) : Step :=
  if vb.isSome then .fail (.decl .beginVendorInclude file lineNo) st
  else Step.ofResult vb (inc n file lineNo st)

/-- the field counts and keywords the `switch` of `parse` lets through (parser.go 76-196) -/
def shapeOK (fields : List Bytes) : Bool :=
  let n := fields.length
  let kw := fields.headD []
  ((n == 4 || n == 5) && kw == kwATTRIBUTE) || (n == 4 && kw == kwVALUE) || ((n == 3 || n == 4) && kw == kwVENDOR) ||
  (n == 2 && (kw == kwBEGIN || kw == kwEND || kw == kwINCLUDE))

section dispatchEq
variable (cfg : Cfg) (ign : Bool) (inc : IncludeHandler) (file : Bytes) (lineNo : Nat) (vb : Option Bytes) (st : St)

theorem dispatch_attr_eq (name oid typ : Bytes) (flags : Option Bytes) :
    dispatch cfg ign inc file lineNo vb st ([kwATTRIBUTE, name, oid, typ] ++ flags.toList)
      = attrStep ign file lineNo vb st (parseAttribute cfg name oid typ flags) := by
  cases flags with
  | none =>
    simp only [Option.toList_none, List.append_nil, dispatch, List.length_cons, List.length_nil, List.headD_cons]
    simp only [Nat.reduceAdd, beq_self_eq_true, Bool.true_or, Bool.and_self, if_true, Nat.reduceBEq, Bool.false_eq_true,
      if_false, List.getD_cons_succ, List.getD_cons_zero]
    cases parseAttribute cfg name oid typ none <;> rfl
  | some x =>
    simp only [Option.toList_some, List.cons_append, List.nil_append, dispatch, List.length_cons, List.length_nil,
      List.headD_cons]
    simp only [Nat.reduceAdd, beq_self_eq_true, Bool.or_true, Bool.and_self, if_true, List.getD_cons_succ, List.getD_cons_zero]
    cases parseAttribute cfg name oid typ (some x) <;> rfl

theorem dispatch_value_eq (a n num : Bytes) :
    dispatch cfg ign inc file lineNo vb st [kwVALUE, a, n, num] = valueStep file lineNo vb st (parseValue a n num) := by
  have h := kw_distinct.1
  simp only [dispatch, List.length_cons, List.length_nil, List.headD_cons, h]
  simp only [Nat.reduceAdd, beq_self_eq_true, Bool.and_false, Bool.false_eq_true, if_false, Bool.and_self, if_true,
    List.getD_cons_succ, List.getD_cons_zero]
  cases parseValue a n num <;> rfl

theorem dispatch_vendor_eq (name num : Bytes) (fmt : Option Bytes) :
    dispatch cfg ign inc file lineNo vb st ([kwVENDOR, name, num] ++ fmt.toList)
      = vendorStep file lineNo vb st (parseVendor cfg name num fmt) := by
  obtain ⟨_, h1, h2, _⟩ := kw_distinct
  cases fmt with
  | none =>
    simp only [Option.toList_none, List.append_nil, dispatch, List.length_cons, List.length_nil, List.headD_cons, h1, h2]
    simp only [Nat.reduceAdd, Nat.reduceBEq, Bool.or_self, Bool.false_and, Bool.false_eq_true, if_false,
      beq_self_eq_true, Bool.true_or, Bool.and_self, if_true, List.getD_cons_succ, List.getD_cons_zero]
    cases parseVendor cfg name num none <;> rfl
  | some x =>
    simp only [Option.toList_some, List.cons_append, List.nil_append, dispatch, List.length_cons, List.length_nil,
      List.headD_cons, h1, h2]
    simp only [Nat.reduceAdd, beq_self_eq_true, Bool.true_or, Bool.and_false, Bool.false_eq_true, if_false, Bool.or_true,
      Bool.and_self, if_true, List.getD_cons_succ, List.getD_cons_zero]
    cases parseVendor cfg name num (some x) <;> rfl

theorem dispatch_begin_eq (n : Bytes) :
    dispatch cfg ign inc file lineNo vb st [kwBEGIN, n] = beginStep file lineNo vb st n := by
  obtain ⟨_, _, _, h1, h2, h3, _⟩ := kw_distinct
  simp only [dispatch, List.length_cons, List.length_nil, List.headD_cons, h1, h2, h3, beginStep]
  simp only [Nat.reduceAdd, Nat.reduceBEq, Bool.or_self, Bool.false_eq_true, if_false,
    beq_self_eq_true, Bool.and_self, if_true, List.getD_cons_succ, List.getD_cons_zero]
  rfl

theorem dispatch_end_eq (n : Bytes) :
    dispatch cfg ign inc file lineNo vb st [kwEND, n] = endStep file lineNo vb st n := by
  obtain ⟨_, _, _, _, _, _, h1, h2, h3, h4⟩ := kw_distinct
  simp only [dispatch, List.length_cons, List.length_nil, List.headD_cons, h1, h2, h3, h4, endStep]
  simp only [Nat.reduceAdd, Nat.reduceBEq, Bool.or_self, Bool.and_false, Bool.false_eq_true, if_false,
    beq_self_eq_true, Bool.and_self, if_true, List.getD_cons_succ, List.getD_cons_zero]
  rfl

theorem dispatch_include_eq (n : Bytes) :
    dispatch cfg ign inc file lineNo vb st [kwINCLUDE, n] = includeStep inc file lineNo vb st n := by
  obtain ⟨h1, h2, h3, h4, h5⟩ := kw_ne
  simp only [dispatch, List.length_cons, List.length_nil, List.headD_cons, h1, h2, h3, h4, h5, includeStep]
  simp only [Nat.reduceAdd, Nat.reduceBEq, Bool.or_self, Bool.and_false, Bool.false_eq_true, if_false,
    beq_self_eq_true, Bool.and_self, if_true, List.getD_cons_succ, List.getD_cons_zero]
  cases vb with
  | some v => rfl
  | none =>
    simp only [Option.isSome_none, Bool.false_eq_true, if_false]
    rcases inc n file lineNo st with ⟨_ | e, st'⟩ <;> rfl

/-- any other field count or keyword: UnknownLineError (the `default:` of the switch) -/
theorem dispatch_unknown (fields : List Bytes) (h : shapeOK fields = false) :
    dispatch cfg ign inc file lineNo vb st fields = .fail (.decl .unknownLine file lineNo) st := by
  simp only [shapeOK, Bool.or_eq_false_iff] at h
  obtain ⟨⟨⟨c1, c2⟩, c3⟩, h4⟩ := h
  have c4 : (fields.length == 2 && fields.headD [] == kwBEGIN) = false ∧
      (fields.length == 2 && fields.headD [] == kwEND) = false ∧
      (fields.length == 2 && fields.headD [] == kwINCLUDE) = false := by
    cases hn : (fields.length == 2) with
    | false => exact ⟨rfl, rfl, rfl⟩
    | true =>
      rw [hn] at h4
      simp only [Bool.true_and, Bool.or_eq_false_iff] at h4 ⊢
      exact ⟨h4.1.1, h4.1.2, h4.2⟩
  simp only [dispatch, c1, c2, c3, c4.1, c4.2.1, c4.2.2, Bool.false_eq_true, if_false]

/-- the shapes of a field list, with what `dispatch` does for each -/
theorem dispatch_shape (fields : List Bytes) :
    (∃ name oid typ flags, fields = [kwATTRIBUTE, name, oid, typ] ++ Option.toList flags) ∨
    (∃ a n num, fields = [kwVALUE, a, n, num]) ∨
    (∃ name num fmt, fields = [kwVENDOR, name, num] ++ Option.toList fmt) ∨
    (∃ n, fields = [kwBEGIN, n]) ∨ (∃ n, fields = [kwEND, n]) ∨ (∃ n, fields = [kwINCLUDE, n]) ∨
    shapeOK fields = false := by
  by_cases h : shapeOK fields = true
  · simp only [shapeOK, Bool.or_eq_true, Bool.and_eq_true, beq_iff_eq] at h
    rcases h with ((⟨hn | hn, hk⟩ | ⟨hn, hk⟩) | ⟨hn | hn, hk⟩) | ⟨hn, (hk | hk) | hk⟩
    · have := fields_len4 hn; rw [hk] at this
      exact Or.inl ⟨_, _, _, none, this⟩
    · have := fields_len5 hn; rw [hk] at this
      exact Or.inl ⟨_, _, _, some _, this⟩
    · have := fields_len4 hn; rw [hk] at this
      exact Or.inr (Or.inl ⟨_, _, _, this⟩)
    · have := fields_len3 hn; rw [hk] at this
      exact Or.inr (Or.inr (Or.inl ⟨_, _, none, this⟩))
    · have := fields_len4 hn; rw [hk] at this
      exact Or.inr (Or.inr (Or.inl ⟨_, _, some _, this⟩))
    · have := fields_len2 hn; rw [hk] at this
      exact Or.inr (Or.inr (Or.inr (Or.inl ⟨_, this⟩)))
    · have := fields_len2 hn; rw [hk] at this
      exact Or.inr (Or.inr (Or.inr (Or.inr (Or.inl ⟨_, this⟩))))
    · have := fields_len2 hn; rw [hk] at this
      exact Or.inr (Or.inr (Or.inr (Or.inr (Or.inr (Or.inl ⟨_, this⟩)))))
  · exact Or.inr (Or.inr (Or.inr (Or.inr (Or.inr (Or.inr (by simpa using h))))))

end dispatchEq

theorem shapeOK_include (n : Bytes) : shapeOK [kwINCLUDE, n] = true := by
  simp [shapeOK]

/-- L2 (success): the directive switch lets a line pass — and changes the state as it does — exactly
    when the line is a declaration of the grammar valid where it stands, or a `$INCLUDE` outside a
    vendor block whose handler succeeds. -/
theorem dispatch_next_iff (cfg : Cfg) (h12 : cfg.formatLenChecked = true) (h13 : cfg.oidOverflowRejected = true)
    (ign : Bool) (inc : IncludeHandler) (file : Bytes) (lineNo : Nat) (vb : Option Bytes) (st : St)
    (fields : List Bytes) (vb' : Option Bytes) (st' : St) :
    dispatch cfg ign inc file lineNo vb st fields = .next vb' st' ↔
      (LineDecl ign (vb, st.dict) fields (vb', st'.dict) ∧ st'.log = st.log) ∨
      (∃ n, fields = [kwINCLUDE, n] ∧ vb = none ∧ vb' = none ∧ inc n file lineNo st = (none, st')) := by
  constructor
  · intro h
    rcases dispatch_shape fields with ⟨name, oid, typ, flags, rfl⟩ | ⟨a, n, num, rfl⟩ | ⟨name, num, fmt, rfl⟩ |
      ⟨n, rfl⟩ | ⟨n, rfl⟩ | ⟨n, rfl⟩ | hbad
    · rw [dispatch_attr_eq] at h
      cases hp : parseAttribute cfg name oid typ flags with
      | error e => simp [hp, attrStep] at h
      | ok a =>
        have hargs := (parseAttribute_iff cfg h13 name oid typ flags a).mp hp
        simp only [hp, attrStep] at h
        cases hex : attributeByName (scopeAttrs st.dict vb) a.name with
        | some existing =>
          simp only [hex] at h
          split at h
          · rename_i hc
            simp only [Bool.and_eq_true, beq_iff_eq] at hc
            injection h with h1 h2
            subst h1; subst h2
            left
            exact ⟨LineDecl.attrAgain name oid typ flags a hargs hc.1 (by rw [hex, hc.2]), rfl⟩
          · cases h
        | none =>
          simp only [hex] at h
          injection h with h1 h2
          subst h1; subst h2
          left
          exact ⟨LineDecl.attr name oid typ flags a hargs hex, rfl⟩
    · rw [dispatch_value_eq] at h
      cases hp : parseValue a n num with
      | error e => simp [hp, valueStep] at h
      | ok x =>
        simp only [hp, valueStep] at h
        injection h with h1 h2
        subst h1; subst h2
        left
        exact ⟨LineDecl.value a n num x ((parseValue_iff a n num x).mp hp), rfl⟩
    · rw [dispatch_vendor_eq] at h
      cases hp : parseVendor cfg name num fmt with
      | error e => simp [hp, vendorStep] at h
      | ok v =>
        simp only [hp, vendorStep] at h
        cases hex : vendorByNameOrNumber st.dict.vendors v.name v.number with
        | some w => simp [hex] at h
        | none =>
          simp only [hex] at h
          injection h with h1 h2
          subst h1; subst h2
          left
          exact ⟨LineDecl.vendor name num fmt v ((parseVendor_iff cfg h12 name num fmt v).mp hp)
            ((vendorByNameOrNumber_none_iff _ _ _).mp hex), rfl⟩
    · rw [dispatch_begin_eq] at h
      unfold beginStep at h
      cases vb with
      | some v => simp at h
      | none =>
        simp only [Option.isSome_none, Bool.false_eq_true, if_false] at h
        cases hv : vendorByName st.dict.vendors n with
        | none => simp [hv] at h
        | some w =>
          simp only [hv] at h
          injection h with h1 h2
          subst h1; subst h2
          left
          exact ⟨LineDecl.beginVendor n ((vendorByName_isSome_iff _ _).mp ⟨w, hv⟩), rfl⟩
    · rw [dispatch_end_eq] at h
      unfold endStep at h
      cases vb with
      | none => simp at h
      | some v =>
        simp only at h
        split at h
        · cases h
        · rename_i hne
          have hv : v = n := by simpa using hne
          injection h with h1 h2
          subst h1; subst h2; subst hv
          left
          exact ⟨LineDecl.endVendor v, rfl⟩
    · rw [dispatch_include_eq] at h
      unfold includeStep at h
      cases vb with
      | some v => simp at h
      | none =>
        simp only [Option.isSome_none, Bool.false_eq_true, if_false] at h
        right
        rcases hr : inc n file lineNo st with ⟨_ | e, st1⟩
        · rw [hr] at h
          simp only [Step.ofResult] at h
          injection h with h1 h2
          subst h1; subst h2
          exact ⟨n, rfl, rfl, rfl, hr⟩
        · rw [hr] at h
          simp [Step.ofResult] at h
    · rw [dispatch_unknown cfg ign inc file lineNo vb st fields hbad] at h
      cases h
  · rintro (⟨hl, hlog⟩ | ⟨n, rfl, rfl, rfl, hinc⟩)
    · generalize hd' : st'.dict = d' at hl
      generalize hd : st.dict = d at hl
      cases hl with
      | attr name oid typ flags a hargs hnew =>
        rw [dispatch_attr_eq, (parseAttribute_iff cfg h13 name oid typ flags a).mpr hargs]
        simp only [attrStep, hd, hnew]
        congr 1
        exact st_ext (by rw [hd']) hlog.symm
      | attrAgain name oid typ flags a hargs hign hsame =>
        rw [dispatch_attr_eq, (parseAttribute_iff cfg h13 name oid typ flags a).mpr hargs]
        simp only [attrStep, hd, hsame, hign, beq_self_eq_true, Bool.and_self, if_true]
        congr 1
        exact st_ext (by rw [hd', hd]) hlog.symm
      | value attr name num v hargs =>
        rw [dispatch_value_eq, (parseValue_iff attr name num v).mpr hargs]
        simp only [valueStep, hd]
        congr 1
        exact st_ext (by rw [hd']) hlog.symm
      | vendor name num fmt v hargs hnew =>
        rw [dispatch_vendor_eq, (parseVendor_iff cfg h12 name num fmt v).mpr hargs]
        have := (vendorByNameOrNumber_none_iff st.dict.vendors v.name v.number).mpr (by rw [hd]; exact hnew)
        simp only [vendorStep, this]
        congr 1
        exact st_ext (by rw [hd', hd]) hlog.symm
      | beginVendor n hex =>
        rw [dispatch_begin_eq]
        obtain ⟨w, hw⟩ := (vendorByName_isSome_iff st.dict.vendors n).mpr (by rw [hd]; exact hex)
        simp only [beginStep, Option.isSome_none, Bool.false_eq_true, if_false, hw]
        congr 1
        exact st_ext (by rw [hd', hd]) hlog.symm
      | endVendor n =>
        rw [dispatch_end_eq]
        simp only [endStep, bne_self_eq_false, Bool.false_eq_true, if_false]
        congr 1
        exact st_ext (by rw [hd', hd]) hlog.symm
    · rw [dispatch_include_eq]
      simp [includeStep, hinc, Step.ofResult]

/-- L2 (refusal): a line that is no declaration valid where it stands (and no successful `$INCLUDE`)
    is refused with a ParseError at this very line, the state unchanged — or fails as the include
    handler does -/
theorem dispatch_fail_of_not_decl (cfg : Cfg) (h12 : cfg.formatLenChecked = true) (h13 : cfg.oidOverflowRejected = true)
    (ign : Bool) (inc : IncludeHandler) (file : Bytes) (lineNo : Nat) (vb : Option Bytes) (st : St) (fields : List Bytes)
    (hno : ∀ s', ¬ LineDecl ign (vb, st.dict) fields s') (hinc : ∀ n, fields = [kwINCLUDE, n] → vb ≠ none) :
    ∃ c, dispatch cfg ign inc file lineNo vb st fields = .fail (.decl c file lineNo) st := by
  rcases dispatch_cases cfg ign inc file lineNo vb st fields with ⟨vb', st', hs, _⟩ | hc | ⟨n, hf, hv, _⟩
  · rcases (dispatch_next_iff cfg h12 h13 ign inc file lineNo vb st fields vb' st').mp hs with ⟨hl, _⟩ | ⟨n, hf, hv, _⟩
    · exact absurd hl (hno _)
    · exact absurd hv (hinc n hf)
  · exact hc
  · exact absurd hv (hinc n hf)


/-! ### L3: the whole text -/

/-- (fix #11) a line: nothing if it has no fields, else the directive switch on its fields -/
theorem stepLine_eq (cfg : Cfg) (h11 : cfg.skipNoFields = true) (ign : Bool) (inc : IncludeHandler) (file : Bytes)
    (lineNo : Nat) (vb : Option Bytes) (st : St) (raw : Bytes) :
    stepLine cfg ign inc file lineNo vb st raw =
      if (Lex.fields (Lex.stripComment raw)).isEmpty then .next vb st
      else dispatch cfg ign inc file lineNo vb st (Lex.fields (Lex.stripComment raw)) := by
  unfold stepLine
  cases hl : Lex.stripComment raw with
  | nil => simp [Lex.fields, Lex.fieldsAux, Lex.flush]
  | cons b rest => simp [h11]

/-- the line loop with an include handler that never succeeds (as in `Parse` on a single text) -/
theorem parseLines_ok_iff (cfg : Cfg) (h11 : cfg.skipNoFields = true) (h12 : cfg.formatLenChecked = true)
    (h13 : cfg.oidOverflowRejected = true) (ign : Bool) (inc : IncludeHandler)
    (hinc : ∀ n f l s s', inc n f l s ≠ (none, s')) (file : Bytes) (tooLong : Bool) :
    ∀ (ls : List Bytes) (lineNo : Nat) (vb : Option Bytes) (st st' : St),
      parseLines cfg ign inc file tooLong ls lineNo vb st = (none, st') ↔
        tooLong = false ∧
        LinesDecl ign (vb, st.dict) (ls.map fun raw => Lex.fields (Lex.stripComment raw)) (none, st'.dict) ∧
        st'.log = st.log
  | [], lineNo, vb, st, st' => by
    simp only [parseLines, List.map_nil]
    cases tooLong with
    | true => simp
    | false =>
      cases vb with
      | some v =>
        simp only [Bool.false_eq_true, if_false, true_and]
        constructor
        · intro h; cases h
        · rintro ⟨hl, _⟩
          generalize hd : st.dict = d at hl
          generalize hd' : st'.dict = d' at hl
          cases hl
      | none =>
        simp only [Bool.false_eq_true, if_false, true_and]
        constructor
        · intro h
          injection h with _ h2
          subst h2
          exact ⟨LinesDecl.nil, rfl⟩
        · rintro ⟨hl, hlog⟩
          generalize hd : st.dict = d at hl
          generalize hd' : st'.dict = d' at hl
          cases hl
          rw [st_ext (by rw [hd, hd']) hlog.symm]
  | raw :: ls, lineNo, vb, st, st' => by
    have ih := parseLines_ok_iff cfg h11 h12 h13 ign inc hinc file tooLong ls (lineNo + 1)
    simp only [parseLines, List.map_cons, stepLine_eq cfg h11]
    by_cases hf : (Lex.fields (Lex.stripComment raw)).isEmpty = true
    · have hnil : Lex.fields (Lex.stripComment raw) = [] := by simpa using hf
      rw [hnil]
      simp only [List.isEmpty_nil, if_true]
      rw [ih vb st st']
      constructor
      · rintro ⟨h1, h2, h3⟩
        exact ⟨h1, LinesDecl.blank h2, h3⟩
      · rintro ⟨h1, h2, h3⟩
        refine ⟨h1, ?_, h3⟩
        generalize hd : st.dict = d at h2
        generalize hd' : st'.dict = d' at h2
        cases h2 with
        | blank h => exact h
        | line hl _ => cases hl
    · simp only [hf, Bool.false_eq_true, if_false]
      generalize Lex.fields (Lex.stripComment raw) = fields at hf ⊢
      constructor
      · intro h
        cases hs : dispatch cfg ign inc file lineNo vb st fields with
        | fail e st1 => rw [hs] at h; cases h
        | next vb1 st1 =>
          rw [hs] at h
          simp only at h
          obtain ⟨h1, h2, h3⟩ := (ih vb1 st1 st').mp h
          rcases (dispatch_next_iff cfg h12 h13 ign inc file lineNo vb st fields vb1 st1).mp hs with
            ⟨hl, hlog⟩ | ⟨n, _, _, _, hi⟩
          · exact ⟨h1, LinesDecl.line hl h2, by rw [h3, hlog]⟩
          · exact absurd hi (hinc _ _ _ _ _)
      · rintro ⟨h1, h2, h3⟩
        generalize hd : st.dict = d at h2
        generalize hd' : st'.dict = d' at h2
        cases h2 with
        | blank h => simp at hf
        | @line _ _ s1 _ _ hl hrest =>
          obtain ⟨vb1, d1⟩ := s1
          subst hd
          have hs := (dispatch_next_iff cfg h12 h13 ign inc file lineNo vb st fields vb1 { dict := d1, log := st.log }).mpr
            (Or.inl ⟨hl, rfl⟩)
          rw [hs]
          simp only
          exact (ih vb1 { dict := d1, log := st.log } st').mpr ⟨h1, by rw [hd']; exact hrest, h3⟩

/-- `Parse` on a single text is the line loop with an include handler that always fails (the opener knows no file) -/
theorem parseText_eq_noinc (cfg : Cfg) (ign : Bool) (text : Bytes) :
    ∃ inc : IncludeHandler, (∀ n f l s s', inc n f l s ≠ (none, s')) ∧
      parseText cfg ign text = parseBody cfg ign inc [] text {} := by
  have hfail : ∀ (onPath : Bytes → Bool)
      (recur : (name t : Bytes) → FS.lookup [] name = some t → onPath name = false → St → Result) n f l s s',
      includeWith [] onPath recur n f l s ≠ (none, s') := by
    intro onPath recur n f l s s'
    rw [includeWith_none [] onPath recur n f l s rfl]
    simp
  unfold parseText parseRoot
  cases cfg.includePath with
  | true =>
    simp only [if_true]
    rw [parseFileFix]; exact ⟨_, hfail _ _, rfl⟩
  | false =>
    have : depthCap = 199 + 1 := rfl
    simp only [Bool.false_eq_true, if_false]
    rw [this, parseFileCur]; exact ⟨_, hfail _ _, rfl⟩

/-- L3, EXACTNESS: the repaired parser accepts exactly the texts of the language, and returns the
    dictionary the grammar assigns -/
theorem parseText_ok_iff (cfg : Cfg) (h11 : cfg.skipNoFields = true) (h12 : cfg.formatLenChecked = true)
    (h13 : cfg.oidOverflowRejected = true) (ign : Bool) (text : Bytes) (st : St) :
    parseText cfg ign text = (none, st) ↔ Accepts ign text st.dict ∧ st.log = [] := by
  obtain ⟨inc, hinc, heq⟩ := parseText_eq_noinc cfg ign text
  rw [heq]
  unfold parseBody Accepts fieldLines
  rw [parseLines_ok_iff cfg h11 h12 h13 ign inc hinc [] (Lex.lines text).2 (Lex.lines text).1 1 none {} st]
  constructor
  · rintro ⟨h1, h2, h3⟩; exact ⟨⟨h1, h2⟩, h3⟩
  · rintro ⟨⟨h1, h2⟩, h3⟩; exact ⟨h1, h2, h3⟩


/-! ### declarations are only ever appended -/

/-- `d'` extends `d`: the top-level attribute and value lists by appending, the vendor list by
    appending vendors (the names and numbers of the vendors already there do not change) -/
def Extends (d d' : Dictionary) : Prop :=
  (∃ m, d'.attributes = d.attributes ++ m) ∧ (∃ m, d'.values = d.values ++ m) ∧
  (∃ m, d'.vendors.map vkey = d.vendors.map vkey ++ m)

theorem Extends.refl (d : Dictionary) : Extends d d := ⟨⟨[], by simp⟩, ⟨[], by simp⟩, ⟨[], by simp⟩⟩

theorem Extends.trans {a b c : Dictionary} (h1 : Extends a b) (h2 : Extends b c) : Extends a c := by
  obtain ⟨⟨m1, e1⟩, ⟨m2, e2⟩, ⟨m3, e3⟩⟩ := h1
  obtain ⟨⟨n1, f1⟩, ⟨n2, f2⟩, ⟨n3, f3⟩⟩ := h2
  exact ⟨⟨m1 ++ n1, by rw [f1, e1, List.append_assoc]⟩, ⟨m2 ++ n2, by rw [f2, e2, List.append_assoc]⟩,
    ⟨m3 ++ n3, by rw [f3, e3, List.append_assoc]⟩⟩

theorem addAttr_extends (d : Dictionary) (a : Attribute) (vb : Option Bytes) : Extends d (addAttr d a vb) := by
  cases vb with
  | none => exact ⟨⟨[a], rfl⟩, ⟨[], by simp [addAttr]⟩, ⟨[], by simp [addAttr]⟩⟩
  | some v =>
    refine ⟨⟨[], by simp [addAttr]⟩, ⟨[], by simp [addAttr]⟩, ⟨[], ?_⟩⟩
    simp only [addAttr, List.append_nil]
    apply modifyVendor_keys
    intro _; rfl

theorem addValue_extends (d : Dictionary) (x : Value) (vb : Option Bytes) : Extends d (addValue d x vb) := by
  cases vb with
  | none => exact ⟨⟨[], by simp [addValue]⟩, ⟨[x], rfl⟩, ⟨[], by simp [addValue]⟩⟩
  | some v =>
    refine ⟨⟨[], by simp [addValue]⟩, ⟨[], by simp [addValue]⟩, ⟨[], ?_⟩⟩
    simp only [addValue, List.append_nil]
    apply modifyVendor_keys
    intro _; rfl

theorem lineDecl_extends {ign : Bool} {s s' : LState} {fields : List Bytes} (h : LineDecl ign s fields s') :
    Extends s.2 s'.2 := by
  cases h with
  | attr name oid typ flags a _ _ => exact addAttr_extends _ _ _
  | attrAgain => exact Extends.refl _
  | value attr name num v _ => exact addValue_extends _ _ _
  | vendor name num fmt v _ _ => exact ⟨⟨[], by simp⟩, ⟨[], by simp⟩, ⟨[vkey v], by simp⟩⟩
  | beginVendor => exact Extends.refl _
  | endVendor => exact Extends.refl _

theorem linesDecl_extends {ign : Bool} {s s' : LState} {lines : List (List Bytes)} (h : LinesDecl ign s lines s') :
    Extends s.2 s'.2 := by
  induction h with
  | nil => exact Extends.refl _
  | blank _ ih => exact ih
  | line hl _ ih => exact Extends.trans (lineDecl_extends hl) ih

end RV.DictParser
