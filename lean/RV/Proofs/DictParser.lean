/-
  Helper lemmas for C16 (dictionary language): lexer, numbers, type names, flags, the per-line
  theorems and the simulation of `parseLines` over a rendered abstract dictionary.
-/
import RV.Model.DictSpec
namespace RV.DictParser
open RV RV.Dict RV.DictParser.Lex RV.DictParser.Spec

/-! ### bytes -/

theorem isPlain_ne_hash {b : UInt8} (h : isPlain b = true) : (b != 35) = true := by
  simp only [isPlain, Bool.not_eq_true', Bool.or_eq_false_iff, beq_eq_false_iff_ne] at h
  simp [h]

theorem isBlank_ne_hash {b : UInt8} (h : isBlank b = true) : (b != 35) = true := by
  simp only [isBlank, Bool.or_eq_true, beq_iff_eq] at h
  rcases h with h | h <;> subst h <;> decide

theorem spaceWidth_blank (b : UInt8) (rest : Bytes) (h : isBlank b = true) : spaceWidth (b :: rest) = 1 := by
  simp only [isBlank, Bool.or_eq_true, beq_iff_eq] at h
  rcases h with h | h <;> subst h <;> simp [spaceWidth]

theorem spaceWidth_plain (b : UInt8) (rest : Bytes) (h : isPlain b = true) : spaceWidth (b :: rest) = 0 := by
  simp only [isPlain, Bool.not_eq_true', Bool.or_eq_false_iff, beq_eq_false_iff_ne] at h
  simp [spaceWidth, h]

/-! ### comments -/

theorem stripComment_of_noHash (l : Bytes) (h : l.all (· != 35) = true) : stripComment l = l := by
  unfold stripComment
  induction l with
  | nil => rfl
  | cons b l ih =>
    simp only [List.all_cons, Bool.and_eq_true] at h
    simp [List.takeWhile_cons, h.1, ih h.2]

theorem stripComment_append_hash (l c : Bytes) (h : l.all (· != 35) = true) : stripComment (l ++ 35 :: c) = l := by
  unfold stripComment
  induction l with
  | nil => simp [List.takeWhile_cons]
  | cons b l ih =>
    simp only [List.all_cons, Bool.and_eq_true] at h
    simp [List.takeWhile_cons, h.1, ih h.2]

theorem stripComment_commentPart (l : Bytes) (c : Option Bytes) (h : l.all (· != 35) = true) :
    stripComment (l ++ commentPart c) = l := by
  cases c with
  | none => simp [commentPart, stripComment_of_noHash l h]
  | some c => simp [commentPart, stripComment_append_hash l c h]

/-! ### strings.Fields -/

@[simp] theorem flush_nil (acc : List Bytes) : flush [] acc = acc := by simp [flush]

theorem flush_ne (cur : Bytes) (acc : List Bytes) (h : cur ≠ []) : flush cur acc = cur.reverse :: acc := by
  cases cur with
  | nil => exact absurd rfl h
  | cons b t => simp [flush]

theorem fieldsAux_plain (t rest cur : Bytes) (ht : t.all isPlain = true) :
    fieldsAux 0 cur (t ++ rest) = fieldsAux 0 (t.reverse ++ cur) rest := by
  induction t generalizing cur with
  | nil => rfl
  | cons b t ih =>
    simp only [List.all_cons, Bool.and_eq_true] at ht
    simp only [List.cons_append, fieldsAux, spaceWidth_plain b (t ++ rest) ht.1]
    simp [ih _ ht.2]

theorem fieldsAux_blank_nil (w rest : Bytes) (hw : blanks w = true) : fieldsAux 0 [] (w ++ rest) = fieldsAux 0 [] rest := by
  induction w with
  | nil => rfl
  | cons b w ih =>
    simp only [blanks, List.all_cons, Bool.and_eq_true] at hw
    simp only [List.cons_append, fieldsAux, spaceWidth_blank b (w ++ rest) hw.1]
    simpa using ih (by simpa [blanks] using hw.2)

theorem fieldsAux_blank (w rest cur : Bytes) (hw : blanks w = true) (hne : w ≠ []) :
    fieldsAux 0 cur (w ++ rest) = flush cur (fieldsAux 0 [] rest) := by
  cases w with
  | nil => exact absurd rfl hne
  | cons b w =>
    simp only [blanks, List.all_cons, Bool.and_eq_true] at hw
    simp only [List.cons_append, fieldsAux, spaceWidth_blank b (w ++ rest) hw.1]
    simp [fieldsAux_blank_nil w rest (by simpa [blanks] using hw.2)]

theorem fieldsAux_blank_end (w cur : Bytes) (hw : blanks w = true) : fieldsAux 0 cur w = flush cur [] := by
  cases w with
  | nil => simp [fieldsAux]
  | cons b w =>
    have := fieldsAux_blank (b :: w) [] cur hw (by simp)
    simpa [fieldsAux] using this

theorem tokenOK_ne {t : Bytes} (h : tokenOK t = true) : t ≠ [] := by
  intro h0; subst h0; simp [tokenOK] at h

theorem tokenOK_plain {t : Bytes} (h : tokenOK t = true) : t.all isPlain = true := by
  simp only [tokenOK, Bool.and_eq_true] at h; exact h.2

theorem fieldsAux_join (seps : Nat → Bytes) (trail : Bytes) (ht : blanks trail = true) :
    ∀ (toks : List Bytes) (i : Nat), (∀ j, j < i + toks.length → blanks (seps j) = true ∧ seps j ≠ []) →
      (∀ t ∈ toks, tokenOK t = true) → fieldsAux 0 [] (joinFields seps i toks ++ trail) = toks
  | [], _, _, _ => by simpa [joinFields] using fieldsAux_blank_end trail [] ht
  | [t], _, _, htok => by
    have h := htok t (by simp)
    simp only [joinFields]
    rw [fieldsAux_plain t trail [] (tokenOK_plain h), fieldsAux_blank_end _ _ ht]
    rw [flush_ne _ _ (by simpa using tokenOK_ne h)]
    simp
  | t :: u :: ts, i, hs, htok => by
    have h := htok t (by simp)
    have hsi := hs i (by simp)
    simp only [joinFields, List.append_assoc]
    rw [fieldsAux_plain t _ [] (tokenOK_plain h), fieldsAux_blank _ _ _ hsi.1 hsi.2]
    rw [flush_ne _ _ (by simpa using tokenOK_ne h)]
    have ih := fieldsAux_join seps trail ht (u :: ts) (i + 1)
      (fun j hj => hs j (by simp at hj ⊢; omega)) (fun x hx => htok x (by simp [hx]))
    simp [ih]

/-- lexer lemma: a line laid out as `lead f₁ sep f₂ sep … fₙ trail` has exactly the fields f₁ … fₙ -/
theorem fields_join (lead trail : Bytes) (seps : Nat → Bytes) (toks : List Bytes)
    (hl : blanks lead = true) (ht : blanks trail = true)
    (hs : ∀ j, j < toks.length → blanks (seps j) = true ∧ seps j ≠ [])
    (htok : ∀ t ∈ toks, tokenOK t = true) :
    fields (lead ++ joinFields seps 0 toks ++ trail) = toks := by
  unfold fields
  rw [List.append_assoc, fieldsAux_blank_nil lead _ hl]
  exact fieldsAux_join seps trail ht toks 0 (by simpa using hs) htok

/-- a whitespace-only string has no fields -/
theorem fields_blanks (w : Bytes) (hw : blanks w = true) : fields w = [] := by
  unfold fields; simpa using fieldsAux_blank_end w [] hw

/-! ### bufio.ScanLines -/

/-- free of CR and LF -/
def clean (c : Bytes) : Bool := c.all fun b => b != 10 && b != 13

theorem splitNL_line (l rest : Bytes) (h : l.all (· != 10) = true) : splitNL (l ++ 10 :: rest) = l :: splitNL rest := by
  induction l with
  | nil => simp [splitNL]
  | cons b l ih =>
    simp only [List.all_cons, Bool.and_eq_true, bne_iff_ne, ne_eq] at h
    have hb : (b == 10) = false := by simpa using h.1
    simp [splitNL, hb, ih (by simpa using h.2)]

theorem splitNL_last (l : Bytes) (h : l.all (· != 10) = true) (hne : l ≠ []) : splitNL l = [l] := by
  induction l with
  | nil => exact absurd rfl hne
  | cons b l ih =>
    simp only [List.all_cons, Bool.and_eq_true, bne_iff_ne, ne_eq] at h
    have hb : (b == 10) = false := by simpa using h.1
    cases l with
    | nil => simp [splitNL, hb]
    | cons c l =>
      have ih' := ih (by simpa using h.2) (by simp)
      rw [splitNL]
      simp only [hb, Bool.false_eq_true, if_false, ih']

theorem dropCR_clean (c : Bytes) (h : clean c = true) : dropCR c = c := by
  unfold dropCR
  have : c.getLast? ≠ some 13 := by
    intro hl
    have hm := List.mem_of_getLast? hl
    simp only [clean, List.all_eq_true, Bool.and_eq_true, bne_iff_ne, ne_eq] at h
    exact (h 13 hm).2 rfl
  simp [this]

theorem dropCR_cr (c : Bytes) : dropCR (c ++ [13]) = c := by
  simp [dropCR]

theorem clean_noLF {c : Bytes} (h : clean c = true) : c.all (· != 10) = true := by
  simp only [clean, List.all_eq_true, Bool.and_eq_true] at h
  simp only [List.all_eq_true]
  exact fun b hb => (h b hb).1

/-- the segment of a physical line between two LFs -/
def seg (p : Bytes × Bool) : Bytes := p.1 ++ (if p.2 then [13] else [])

theorem eol_eq (p : Bytes × Bool) (rest : Bytes) : p.1 ++ eol p.2 ++ rest = seg p ++ 10 :: rest := by
  cases p with
  | mk c crlf => cases crlf <;> simp [eol, seg]

theorem seg_noLF (p : Bytes × Bool) (h : clean p.1 = true) : (seg p).all (· != 10) = true := by
  cases p with
  | mk c crlf =>
    have := clean_noLF h
    cases crlf <;> simp_all [seg]

theorem dropCR_seg (p : Bytes × Bool) (h : clean p.1 = true) : dropCR (seg p) = p.1 := by
  cases p with
  | mk c crlf =>
    cases crlf
    · simpa [seg] using dropCR_clean c h
    · simpa [seg] using dropCR_cr c

theorem seg_short (p : Bytes × Bool) (h : p.1.length + 1 < maxTokenSize) : ¬ (seg p).length ≥ maxTokenSize := by
  cases p with
  | mk c crlf => cases crlf <;> simp [seg] at * <;> omega

/-- lexer lemma: the scanner delivers exactly the physical lines of a rendered text -/
theorem lines_joinPhys : ∀ (ps : List (Bytes × Bool)) (fin : Bool),
    (∀ p ∈ ps, clean p.1 = true) → (∀ p ∈ ps, p.1.length + 1 < maxTokenSize) →
    (fin = false → ∀ p, ps.getLast? = some p → p.1 ≠ []) →
    Lex.lines (joinPhys ps fin) = (ps.map (·.1), false)
  | [], _, _, _, _ => by simp [Lex.lines, joinPhys, splitNL, scan]
  | [p], fin, hc, hl, hlast => by
    have hcp := hc p (by simp)
    have hlp := hl p (by simp)
    cases fin with
    | true =>
      have : joinPhys [p] true = seg p ++ 10 :: [] := by simpa [joinPhys] using eol_eq p []
      simp only [Lex.lines, this, splitNL_line _ _ (seg_noLF p hcp), splitNL, scan, seg_short p hlp, if_false,
        dropCR_seg p hcp, List.map]
    | false =>
      have hne := hlast rfl p (by simp)
      have hshort : ¬ (p.1.length ≥ maxTokenSize) := by omega
      simp only [Lex.lines, joinPhys, Bool.false_eq_true, if_false, splitNL_last _ (clean_noLF hcp) hne, scan, hshort,
        dropCR_clean _ hcp, List.map]
  | p :: q :: rest, fin, hc, hl, hlast => by
    have hcp := hc p (by simp)
    have hlp := hl p (by simp)
    have ih := lines_joinPhys (q :: rest) fin (fun x hx => hc x (by simp [hx])) (fun x hx => hl x (by simp [hx]))
      (fun hf x hx => hlast hf x (by simpa [List.getLast?_cons_cons] using hx))
    simp only [Lex.lines] at ih ⊢
    simp only [joinPhys, eol_eq, splitNL_line _ _ (seg_noLF p hcp), scan, seg_short p hlp, if_false, dropCR_seg p hcp, ih,
      List.map]

/-! ### decimal and hexadecimal numbers -/

theorem digit_ofNat (d : Nat) (h : d < 10) :
    isDigit (UInt8.ofNat (48 + d)) = true ∧ digitVal (UInt8.ofNat (48 + d)) = d := by
  simp only [isDigit, digitVal, Bool.and_eq_true, decide_eq_true_eq, UInt8.le_iff_toNat_le, UInt8.toNat_ofNat']
  simp
  omega

def decStep (n : Nat) (b : UInt8) : Nat := n * 10 + digitVal b

theorem showDec_spec (n : Nat) :
    (showDec n).all isDigit = true ∧ showDec n ≠ [] ∧ (showDec n).foldl decStep 0 = n := by
  induction n using Nat.strongRecOn with
  | _ n ih =>
    rw [showDec]
    by_cases h : n < 10
    · have := digit_ofNat n h
      simp only [h, if_true]
      refine ⟨by simp only [List.all_cons, this.1, List.all_nil, Bool.and_self], List.cons_ne_nil _ _, ?_⟩
      simp only [List.foldl_cons, List.foldl_nil, decStep, this.2]
      omega
    · have ih' := ih (n / 10) (by omega)
      have := digit_ofNat (n % 10) (by omega)
      simp only [h, if_false]
      refine ⟨by simp only [List.all_append, ih'.1, List.all_cons, this.1, List.all_nil, Bool.and_self], ?_, ?_⟩
      · intro hh
        have := congrArg List.length hh
        simp at this
      · simp only [List.foldl_append, ih'.2.2, List.foldl_cons, List.foldl_nil, decStep, this.2]
        omega

theorem decNat_showDec (n : Nat) : decNat? (showDec n) = some n := by
  have h := showDec_spec n
  have hne : (showDec n).isEmpty = false := by
    cases hs : showDec n with
    | nil => exact absurd hs h.2.1
    | cons _ _ => rfl
  have hf : (showDec n).foldl (fun n b => n * 10 + digitVal b) 0 = n := h.2.2
  simp [decNat?, hne, h.1, hf]

theorem foldl_decStep_mono (ds : Bytes) (cur : Nat) : cur ≤ ds.foldl decStep cur := by
  induction ds generalizing cur with
  | nil => simp
  | cons d ds ih =>
    have := ih (decStep cur d)
    simp only [List.foldl_cons]
    unfold decStep at this ⊢
    omega

theorem parseUint32Dec_showDec (n : Nat) (h : n < 2 ^ 32) : parseUint32Dec (showDec n) = some n := by
  simp [parseUint32Dec, decNat_showDec, h]

theorem showInt_nonneg (i : Int) (h : 0 ≤ i) : showInt i = showDec i.toNat := by
  simp [showInt, Int.not_lt.mpr h]

theorem showDec_head_digit (n : Nat) : ∃ d ds, showDec n = d :: ds ∧ isDigit d = true := by
  have h := showDec_spec n
  cases hs : showDec n with
  | nil => exact absurd hs h.2.1
  | cons d ds =>
    refine ⟨d, ds, rfl, ?_⟩
    have := h.1
    rw [hs] at this
    simp only [List.all_cons, Bool.and_eq_true] at this
    exact this.1

theorem isDigit_ne {d : UInt8} (h : isDigit d = true) : (d == 43) = false ∧ (d == 45) = false ∧ (d == 46) = false := by
  simp only [isDigit, Bool.and_eq_true, decide_eq_true_eq, UInt8.le_iff_toNat_le] at h
  refine ⟨?_, ?_, ?_⟩ <;>
  · simp only [beq_eq_false_iff_ne, ne_eq, ← UInt8.toNat_inj]
    simp at h ⊢
    omega

theorem parseInt32_showInt (i : Int) (h : int32OK i = true) : parseInt32 (showInt i) = some i := by
  simp only [int32OK, Bool.and_eq_true, decide_eq_true_eq] at h
  by_cases hneg : i < 0
  · have hd := decNat_showDec i.natAbs
    have : ((45 : UInt8) == 43) = false := by decide
    simp only [showInt, hneg, if_true, parseInt32, this, Bool.false_eq_true, if_false, beq_self_eq_true, hd, Option.bind_some]
    have h1 : i.natAbs ≤ 2 ^ 31 := by omega
    simp only [h1, if_true, Option.some.injEq]
    omega
  · obtain ⟨d, ds, hs, hdig⟩ := showDec_head_digit i.toNat
    have hd := decNat_showDec i.toNat
    have hne := isDigit_ne hdig
    simp only [showInt, hneg, if_false, parseInt32]
    rw [hs] at hd ⊢
    simp only [hne.1, hne.2.1, Bool.false_eq_true, if_false, hd, Option.bind_some]
    have h1 : i.toNat < 2 ^ 31 := by omega
    simp only [h1, if_true, Option.some.injEq]
    omega

theorem hexVal_hexDigit (d : Nat) (h : d < 16) : hexVal? (hexDigit d) = some d := by
  have : d = 0 ∨ d = 1 ∨ d = 2 ∨ d = 3 ∨ d = 4 ∨ d = 5 ∨ d = 6 ∨ d = 7 ∨ d = 8 ∨ d = 9 ∨ d = 10 ∨ d = 11 ∨ d = 12
      ∨ d = 13 ∨ d = 14 ∨ d = 15 := by omega
  rcases this with h | h | h | h | h | h | h | h | h | h | h | h | h | h | h | h <;> subst h <;> decide

def hexStep (acc : Option Nat) (b : UInt8) : Option Nat := acc.bind fun n => (hexVal? b).map fun d => n * 16 + d

theorem showHex_spec (n : Nat) : showHex n ≠ [] ∧ (showHex n).foldl hexStep (some 0) = some n := by
  induction n using Nat.strongRecOn with
  | _ n ih =>
    rw [showHex]
    by_cases h : n < 16
    · simp only [h, if_true]
      refine ⟨List.cons_ne_nil _ _, ?_⟩
      simp [hexStep, hexVal_hexDigit n h]
    · have ih' := ih (n / 16) (by omega)
      simp only [h, if_false]
      refine ⟨?_, ?_⟩
      · intro hh
        have := congrArg List.length hh
        simp at this
      · simp only [List.foldl_append, ih'.2, List.foldl_cons, List.foldl_nil, hexStep, Option.bind_some,
          hexVal_hexDigit (n % 16) (by omega), Option.map_some, Option.some.injEq]
        omega

theorem parseUint32Hex_showHex (n : Nat) (h : n < 2 ^ 32) : parseUint32Hex (showHex n) = some n := by
  have hs := showHex_spec n
  have hne : (showHex n).isEmpty = false := by
    cases hx : showHex n with
    | nil => exact absurd hx hs.1
    | cons _ _ => rfl
  have hf : (showHex n).foldl (fun acc b => acc.bind fun n => (hexVal? b).map fun d => n * 16 + d) (some 0) = some n := hs.2
  simp [parseUint32Hex, hexNat?, hne, hf, h]

theorem showDec_take2 (n : Nat) : ((showDec n).take 2 == kw0x) = false := by
  apply Bool.eq_false_iff.mpr
  intro h
  have h2 : (showDec n).take 2 = kw0x := by simpa using h
  have hm : (120 : UInt8) ∈ (showDec n).take 2 := by rw [h2]; decide
  have hm2 := List.mem_of_mem_take hm
  have := (showDec_spec n).1
  rw [List.all_eq_true] at this
  have := this 120 hm2
  revert this; decide

/-- VALUE lines: the number as written (decimal or `0x` hex) is the number declared -/
theorem parseValue_tokens (v : AValue) (h : v.ok = true) :
    parseValue v.attr v.name (if v.hex then kw0x ++ showHex v.number else showDec v.number) = .ok v.toValue := by
  simp only [AValue.ok, Bool.and_eq_true, decide_eq_true_eq] at h
  cases hh : v.hex with
  | true =>
    have : (kw0x ++ showHex v.number).take 2 = kw0x := by simp [kw0x]
    have hd : (kw0x ++ showHex v.number).drop 2 = showHex v.number := by simp [kw0x]
    simp [parseValue, this, hd, parseUint32Hex_showHex _ h.2, AValue.toValue]
  | false =>
    simp [parseValue, showDec_take2, parseUint32Dec_showDec _ h.2, AValue.toValue]

/-- VENDOR lines -/
theorem parseVendor_tokens (cfg : Cfg) (v : AVendor) (h : v.ok = true) :
    parseVendor cfg v.name (showInt v.number)
      (match v.format with
       | none => none
       | some (t, l) => some (kwFormat ++ [UInt8.ofNat (48 + t), 44, UInt8.ofNat (48 + l)])) = .ok v.toVendor := by
  simp only [AVendor.ok, Bool.and_eq_true] at h
  obtain ⟨⟨_, hnum⟩, hfmt⟩ := h
  cases hf : v.format with
  | none => simp [parseVendor, parseInt32_showInt _ hnum, AVendor.toVendor, hf]
  | some tl =>
    obtain ⟨t, l⟩ := tl
    rw [hf] at hfmt
    simp only [Bool.and_eq_true, Bool.or_eq_true, beq_iff_eq] at hfmt
    obtain ⟨ht, hl⟩ := hfmt
    simp only [parseVendor, parseInt32_showInt _ hnum, AVendor.toVendor, hf]
    rcases ht with (ht | ht) | ht <;> rcases hl with (hl | hl) | hl <;> subst ht <;> subst hl <;>
      cases cfg with
      | mk a b c d => cases b <;> simp [formatOK, kwFormat] <;> decide

/-! ### parseOID -/

theorem wrap64_id (x : Int) (h0 : 0 ≤ x) (h1 : x < 2 ^ 63) : wrap64 x = x := by
  unfold wrap64
  omega

theorem digitVal_lt (d : UInt8) (h : isDigit d = true) : digitVal d < 10 := by
  simp only [isDigit, Bool.and_eq_true, decide_eq_true_eq, UInt8.le_iff_toNat_le] at h
  simp only [digitVal]
  simp at h
  omega

theorem oidStep_ok (cfg : Cfg) (cur : Nat) (d : UInt8) (hd : isDigit d = true) (h : decStep cur d < 2 ^ 63) :
    oidStep cfg (cur : Int) d = some ((decStep cur d : Nat) : Int) := by
  have hlt := digitVal_lt d hd
  unfold decStep at h ⊢
  have hno : ¬ ((cur : Int) > (maxInt64 - (digitVal d : Int)) / 10) := by
    unfold maxInt64
    omega
  have hw : wrap64 ((cur : Int) * 10 + (digitVal d : Int)) = ((cur * 10 + digitVal d : Nat) : Int) := by
    rw [wrap64_id] <;> omega
  simp only [oidStep, hno, decide_false, Bool.and_false, Bool.false_eq_true, if_false, hw]

theorem oidLoop_digits (cfg : Cfg) (ds rest : Bytes) (done : List Int) (cur : Nat)
    (hd : ds.all isDigit = true) (hv : ds.foldl decStep cur < 2 ^ 63) :
    oidLoop cfg (ds ++ rest) done (cur : Int) = oidLoop cfg rest done ((ds.foldl decStep cur : Nat) : Int) := by
  induction ds generalizing cur with
  | nil => rfl
  | cons d ds ih =>
    simp only [List.all_cons, Bool.and_eq_true] at hd
    simp only [List.foldl_cons] at hv ⊢
    have hmono := foldl_decStep_mono ds (decStep cur d)
    have hstep := oidStep_ok cfg cur d hd.1 (by omega)
    simp only [List.cons_append, oidLoop, (isDigit_ne hd.1).2.2, Bool.false_eq_true, if_false, hd.1, if_true, hstep]
    exact ih _ hd.2 hv

theorem oidLoop_dot (cfg : Cfg) (d : UInt8) (rest : Bytes) (done : List Int) (cur : Int) (hd : isDigit d = true) :
    oidLoop cfg (46 :: d :: rest) done cur = oidLoop cfg (d :: rest) (cur :: done) 0 := by
  have h46 : ((46 : UInt8) == 46) = true := by decide
  conv => lhs; unfold oidLoop
  simp only [h46, if_true, hd]

/-- `.c₁.c₂…` -/
def oidTail (cs : List Nat) : Bytes := (cs.map fun c => 46 :: showDec c).flatten

theorem oidLoop_tail (cfg : Cfg) : ∀ (cs : List Nat) (done : List Int) (cur : Nat), (∀ c ∈ cs, c < 2 ^ 63) →
    oidLoop cfg (oidTail cs) done (cur : Int) = some (done.reverse ++ (cur : Int) :: cs.map Int.ofNat)
  | [], done, cur, _ => by simp [oidTail, oidLoop]
  | c :: cs, done, cur, h => by
    obtain ⟨d, ds, hs, hdig⟩ := showDec_head_digit c
    have hspec := showDec_spec c
    have hc := h c (by simp)
    have : oidTail (c :: cs) = 46 :: (showDec c ++ oidTail cs) := by simp [oidTail]
    rw [this, hs, List.cons_append, oidLoop_dot cfg d _ _ _ hdig]
    rw [← List.cons_append, ← hs]
    have := oidLoop_digits cfg (showDec c) (oidTail cs) (cur :: done) 0 hspec.1 (by rw [hspec.2.2]; exact hc)
    simp only [Int.natCast_zero] at this
    rw [this, hspec.2.2]
    rw [oidLoop_tail cfg cs (cur :: done) c (fun x hx => h x (by simp [hx]))]
    simp

theorem showOID_cons (c : Nat) (cs : List Nat) : showOID (c :: cs) = showDec c ++ oidTail cs := by
  induction cs generalizing c with
  | nil => simp [showOID, Spec.intercalate, oidTail]
  | cons x xs ih =>
    have := ih x
    simp only [showOID, List.map_cons, Spec.intercalate] at this ⊢
    rw [this]
    simp [oidTail]

/-- the dotted number as written is the OID declared (components below 2⁶³, where Go's int is exact) -/
theorem parseOID_showOID (cfg : Cfg) (o : List Nat) (hne : o ≠ []) (h : ∀ c ∈ o, c < 2 ^ 63) :
    parseOID cfg (showOID o) = some (o.map Int.ofNat) := by
  cases o with
  | nil => exact absurd rfl hne
  | cons c cs =>
    obtain ⟨d, ds, hs, hdig⟩ := showDec_head_digit c
    have hspec := showDec_spec c
    have hc := h c (by simp)
    rw [showOID_cons, hs]
    simp only [List.cons_append, parseOID, hdig, if_true]
    rw [hs] at hspec
    simp only [List.all_cons, Bool.and_eq_true, List.foldl_cons] at hspec
    have hmono := foldl_decStep_mono ds (decStep 0 d)
    have hstep := oidStep_ok cfg 0 d hdig (by omega)
    simp only [Int.natCast_zero] at hstep
    simp only [hstep]
    rw [oidLoop_digits cfg ds (oidTail cs) [] _ hspec.1.2 (by omega), hspec.2.2]
    rw [oidLoop_tail cfg cs [] c (fun x hx => h x (by simp [hx]))]
    simp

/-! ### type names: strings.EqualFold against the lower-case constants -/

/-- bytes of the parser's lower-case constants: a–z, 0–9, `[` -/
def lowerTok (b : UInt8) : Bool := (97 ≤ b && b ≤ 122) || (48 ≤ b && b ≤ 57) || b == 91

def caseOf (u : Bool) (c : UInt8) : UInt8 := if u && 97 ≤ c && c ≤ 122 then c - 32 else c

theorem applyCase_nil_mask (s : Bytes) : applyCase [] s = s := by cases s <;> rfl

theorem applyCase_cons (m : List Bool) (c : UInt8) (s : Bytes) :
    applyCase m (c :: s) = caseOf (m.headD false) c :: applyCase m.tail s := by
  cases m with
  | nil => simp [applyCase, caseOf, applyCase_nil_mask]
  | cons u m => simp [applyCase, caseOf]

theorem caseOf_cases (u : Bool) (c : UInt8) : caseOf u c = c ∨ (caseOf u c = c - 32 ∧ 97 ≤ c ∧ c ≤ 122) := by
  unfold caseOf
  by_cases h : (u && 97 ≤ c && c ≤ 122) = true
  · right; simp only [Bool.and_eq_true, decide_eq_true_eq] at h; simp [h]
  · left; simp [h]

/-- one step of `foldEq` agrees on a byte and any of its case variants -/
theorem caseOf_matches (u : Bool) (c : UInt8) :
    (caseOf u c == c || (65 ≤ caseOf u c && caseOf u c ≤ 90 && caseOf u c + 32 == c)) = true := by
  rcases caseOf_cases u c with h | ⟨h, h1, h2⟩
  · simp [h]
  · rw [h]
    have hlt := c.toNat_lt
    simp only [Bool.or_eq_true, Bool.and_eq_true, decide_eq_true_eq, beq_iff_eq, UInt8.le_iff_toNat_le,
      ← UInt8.toNat_inj, UInt8.toNat_sub, UInt8.toNat_add] at *
    simp at *
    omega

theorem caseOf_inj (u : Bool) (c d : UInt8) (hc : lowerTok c = true) (hd : lowerTok d = true)
    (h : (caseOf u c == d || (65 ≤ caseOf u c && caseOf u c ≤ 90 && caseOf u c + 32 == d)) = true) : c = d := by
  have hlt := c.toNat_lt
  have hlt' := d.toNat_lt
  rcases caseOf_cases u c with h' | ⟨h', h1, h2⟩ <;> rw [h'] at h <;>
  · simp only [lowerTok, Bool.or_eq_true, Bool.and_eq_true, decide_eq_true_eq, beq_iff_eq, UInt8.le_iff_toNat_le,
      ← UInt8.toNat_inj, UInt8.toNat_sub, UInt8.toNat_add] at *
    simp at *
    omega

theorem caseOf_ascii (u : Bool) (c : UInt8) (hc : lowerTok c = true) :
    (caseOf u c == 0xC5) = false ∧ (caseOf u c == 0xE2) = false := by
  have hlt := c.toNat_lt
  rcases caseOf_cases u c with h' | ⟨h', h1, h2⟩ <;> rw [h'] <;>
  · simp only [lowerTok, Bool.or_eq_true, Bool.and_eq_true, decide_eq_true_eq, beq_iff_eq, UInt8.le_iff_toNat_le,
      beq_eq_false_iff_ne, ne_eq, ← UInt8.toNat_inj, UInt8.toNat_sub] at *
    simp at *
    omega

theorem foldEq_cons_of_match (c d : UInt8) (s t : Bytes)
    (h : (c == d || (65 ≤ c && c ≤ 90 && c + 32 == d)) = true) : foldEq (c :: s) (d :: t) = foldEq s t := by
  conv => lhs; unfold foldEq
  simp only [h, if_true]

theorem foldEq_cons_of_nomatch (c d : UInt8) (s t : Bytes)
    (h : ¬ (c == d || (65 ≤ c && c ≤ 90 && c + 32 == d)) = true) (h1 : (c == 0xC5) = false) (h2 : (c == 0xE2) = false) :
    foldEq (c :: s) (d :: t) = false := by
  conv => lhs; unfold foldEq
  simp [h, h1, h2]

@[simp] theorem foldEq_nil_cons (d : UInt8) (t : Bytes) : foldEq [] (d :: t) = false := by
  unfold foldEq; rfl
@[simp] theorem foldEq_cons_nil (c : UInt8) (s : Bytes) : foldEq (c :: s) [] = false := by
  unfold foldEq; rfl
@[simp] theorem applyCase_nil (m : List Bool) : applyCase m [] = [] := by cases m <;> rfl

/-- letter case of a type name never matters -/
theorem foldEq_applyCase (m : List Bool) (t : Bytes) : foldEq (applyCase m t) t = true := by
  induction t generalizing m with
  | nil => simp [foldEq]
  | cons c t ih =>
    rw [applyCase_cons, foldEq_cons_of_match _ _ _ _ (caseOf_matches _ c)]
    exact ih _

theorem foldEq_applyCase_inj (m : List Bool) (a b : Bytes) (ha : a.all lowerTok = true) (hb : b.all lowerTok = true)
    (h : foldEq (applyCase m a) b = true) : a = b := by
  induction a generalizing m b with
  | nil =>
    cases b with
    | nil => rfl
    | cons d b => simp at h
  | cons c a ih =>
    simp only [List.all_cons, Bool.and_eq_true] at ha
    rw [applyCase_cons] at h
    cases b with
    | nil => simp at h
    | cons d b =>
      simp only [List.all_cons, Bool.and_eq_true] at hb
      have hasc := caseOf_ascii (m.headD false) c ha.1
      by_cases hm : (caseOf (m.headD false) c == d || (65 ≤ caseOf (m.headD false) c && caseOf (m.headD false) c ≤ 90 && caseOf (m.headD false) c + 32 == d)) = true
      · rw [foldEq_cons_of_match _ _ _ _ hm] at h
        have := caseOf_inj _ c d ha.1 hb.1 hm
        rw [this, ih _ _ ha.2 hb.2 h]
      · rw [foldEq_cons_of_nomatch _ _ _ _ hm hasc.1 hasc.2] at h
        exact absurd h (by simp)

theorem foldEq_applyCase_iff (m : List Bool) (a b : Bytes) (ha : a.all lowerTok = true) (hb : b.all lowerTok = true) :
    foldEq (applyCase m a) b = (a == b) := by
  by_cases h : a = b
  · subst h; simp [foldEq_applyCase]
  · have : foldEq (applyCase m a) b ≠ true := fun hh => h (foldEq_applyCase_inj m a b ha hb hh)
    simp [h, this]

@[simp] theorem length_applyCase (m : List Bool) (s : Bytes) : (applyCase m s).length = s.length := by
  induction s generalizing m with
  | nil => cases m <;> rfl
  | cons c s ih => rw [applyCase_cons]; simp [ih]

theorem take_applyCase (n : Nat) (m : List Bool) (s : Bytes) : (applyCase m s).take n = applyCase m (s.take n) := by
  induction s generalizing m n with
  | nil => cases m <;> simp [applyCase]
  | cons c s ih =>
    cases n with
    | zero => cases m <;> simp [applyCase]
    | succ n => simp only [List.take_succ_cons, applyCase_cons, ih]

def ascii (s : Bytes) : Bool := s.all fun b => decide (b < 128)

theorem foldEq_length (s t : Bytes) (hs : ascii s = true) (h : foldEq s t = true) : s.length = t.length := by
  induction s generalizing t with
  | nil => cases t with
    | nil => rfl
    | cons d t => simp at h
  | cons c s ih =>
    simp only [ascii, List.all_cons, Bool.and_eq_true, decide_eq_true_eq] at hs
    cases t with
    | nil => simp at h
    | cons d t =>
      have h1 : (c == 0xC5) = false := by
        simp only [beq_eq_false_iff_ne, ne_eq, ← UInt8.toNat_inj]
        have := hs.1; simp only [UInt8.lt_iff_toNat_lt] at this; simp at this ⊢; omega
      have h2 : (c == 0xE2) = false := by
        simp only [beq_eq_false_iff_ne, ne_eq, ← UInt8.toNat_inj]
        have := hs.1; simp only [UInt8.lt_iff_toNat_lt] at this; simp at this ⊢; omega
      by_cases hm : (c == d || (65 ≤ c && c ≤ 90 && c + 32 == d)) = true
      · rw [foldEq_cons_of_match _ _ _ _ hm] at h
        simp [ih t (by simpa [ascii] using hs.2) h]
      · rw [foldEq_cons_of_nomatch _ _ _ _ hm h1 h2] at h
        exact absurd h (by simp)

theorem typeName_lower (ty : AttrType) : (typeName ty).all lowerTok = true := by cases ty <;> decide

theorem parseType_plain (m : List Bool) (ty : AttrType) : parseType (applyCase m (typeName ty)) = .ok (ty, none) := by
  have hl := typeName_lower ty
  have h7 : ((typeName ty).take 7).all lowerTok = true := by cases ty <;> decide
  unfold parseType
  rw [take_applyCase]
  simp (disch := first | exact hl | exact h7 | decide) only [foldEq_applyCase_iff, typeTable, List.find?_cons, length_applyCase]
  cases ty <;> simp [typeName, nmString, nmOctets, kwOctetsBr]

theorem caseOf_lt (u : Bool) (c : UInt8) (hc : lowerTok c = true) : caseOf u c < 128 := by
  have hlt := c.toNat_lt
  rcases caseOf_cases u c with h' | ⟨h', h1, h2⟩ <;> rw [h'] <;>
  · simp only [lowerTok, Bool.or_eq_true, Bool.and_eq_true, decide_eq_true_eq, beq_iff_eq, UInt8.le_iff_toNat_le,
      UInt8.lt_iff_toNat_lt, ← UInt8.toNat_inj, UInt8.toNat_sub] at *
    simp at *
    omega

theorem ascii_applyCase (m : List Bool) (s : Bytes) (h : s.all lowerTok = true) : ascii (applyCase m s) = true := by
  induction s generalizing m with
  | nil => simp [ascii]
  | cons c s ih =>
    simp only [List.all_cons, Bool.and_eq_true] at h
    rw [applyCase_cons]
    simp only [ascii, List.all_cons, Bool.and_eq_true, decide_eq_true_eq]
    exact ⟨caseOf_lt _ c h.1, by simpa [ascii] using ih _ h.2⟩

theorem isDigit_lt {d : UInt8} (h : isDigit d = true) : d < 128 := by
  simp only [isDigit, Bool.and_eq_true, decide_eq_true_eq, UInt8.le_iff_toNat_le, UInt8.lt_iff_toNat_lt] at *
  simp at *; omega

theorem ascii_showDec (n : Nat) : ascii (showDec n) = true := by
  have := (showDec_spec n).1
  simp only [ascii, List.all_eq_true, decide_eq_true_eq] at *
  exact fun b hb => isDigit_lt (this b hb)

theorem ascii_showInt (i : Int) : ascii (showInt i) = true := by
  unfold showInt
  split
  · have := ascii_showDec i.natAbs
    simp only [ascii, List.all_cons, Bool.and_eq_true, decide_eq_true_eq] at *
    exact ⟨by decide, this⟩
  · exact ascii_showDec _

theorem showInt_ne_nil (i : Int) : showInt i ≠ [] := by
  unfold showInt; split
  · simp
  · exact (showDec_spec _).2.1

theorem parseType_sized (m : List Bool) (n : Int) (hn : int32OK n = true) :
    parseType (applyCase m kwOctetsBr ++ showInt n ++ [93]) = .ok (.octets, some n) := by
  have hlow : kwOctetsBr.all lowerTok = true := by decide
  have hasc : ascii (applyCase m kwOctetsBr ++ showInt n ++ [93]) = true := by
    have h1 := ascii_applyCase m kwOctetsBr hlow
    have h2 := ascii_showInt n
    simp only [ascii, List.all_append, Bool.and_eq_true] at *
    exact ⟨⟨h1, h2⟩, by decide⟩
  have hlen : (applyCase m kwOctetsBr ++ showInt n ++ [93]).length = 8 + (showInt n).length := by
    simp [kwOctetsBr]; omega
  have hpos : 0 < (showInt n).length := List.length_pos_iff.mpr (showInt_ne_nil n)
  have hs1 : foldEq (applyCase m kwOctetsBr ++ showInt n ++ [93]) nmString = false := by
    apply Bool.eq_false_iff.mpr
    intro h
    have := foldEq_length _ _ hasc h
    rw [hlen] at this; simp [nmString] at this; omega
  have hs2 : foldEq (applyCase m kwOctetsBr ++ showInt n ++ [93]) nmOctets = false := by
    apply Bool.eq_false_iff.mpr
    intro h
    have := foldEq_length _ _ hasc h
    rw [hlen] at this; simp [nmOctets] at this; omega
  have htake : (applyCase m kwOctetsBr ++ showInt n ++ [93]).take 7 = applyCase m kwOctetsBr := by
    rw [List.append_assoc, List.take_append_of_le_length (by simp [kwOctetsBr])]
    exact List.take_of_length_le (by simp [kwOctetsBr])
  have hdrop : ((applyCase m kwOctetsBr ++ showInt n ++ [93]).drop 7).dropLast = showInt n := by
    rw [List.append_assoc, List.drop_append_of_le_length (by simp [kwOctetsBr])]
    rw [List.drop_of_length_le (by simp [kwOctetsBr])]
    simp
  have hlast : (applyCase m kwOctetsBr ++ showInt n ++ [93]).getLast? = some 93 := by simp
  unfold parseType
  simp only [hs1, hs2, Bool.false_eq_true, if_false, htake, foldEq_applyCase, hlast, hdrop, parseInt32_showInt n hn, hlen]
  simp [showInt_ne_nil n]

/-- the type name as written (any letter case; `octets[n]`) is the declared type and size -/
theorem parseType_typeToken (m : List Bool) (a : AAttr) (h : a.ok = true) : parseType (typeToken m a) = .ok (a.typ, a.size) := by
  unfold typeToken
  cases hs : a.size with
  | none => simpa using parseType_plain m a.typ
  | some n =>
    simp only [AAttr.ok, Bool.and_eq_true, hs] at h
    have ht : a.typ = .octets := by simpa using h.1.2.1
    simp only [parseType_sized m n h.1.2.2, ht]


/-! ### flags -/

theorem splitComma_token (t rest : Bytes) (h : t.all (· != 44) = true) : splitComma (t ++ 44 :: rest) = t :: splitComma rest := by
  induction t with
  | nil => simp [splitComma]
  | cons b t ih =>
    simp only [List.all_cons, Bool.and_eq_true, bne_iff_ne, ne_eq] at h
    have hb : (b == 44) = false := by simpa using h.1
    simp [splitComma, hb, ih (by simpa using h.2)]

theorem splitComma_last (t : Bytes) (h : t.all (· != 44) = true) : splitComma t = [t] := by
  induction t with
  | nil => simp [splitComma]
  | cons b t ih =>
    simp only [List.all_cons, Bool.and_eq_true, bne_iff_ne, ne_eq] at h
    have hb : (b == 44) = false := by simpa using h.1
    rw [splitComma]
    simp only [hb, Bool.false_eq_true, if_false, ih (by simpa using h.2)]

theorem splitComma_intercalate : ∀ (toks : List Bytes), toks ≠ [] → (∀ t ∈ toks, t.all (· != 44) = true) →
    splitComma (Spec.intercalate 44 toks) = toks
  | [], h, _ => absurd rfl h
  | [t], _, h => by simpa [Spec.intercalate] using splitComma_last t (h t (by simp))
  | t :: u :: rest, _, h => by
    simp only [Spec.intercalate]
    rw [splitComma_token t _ (h t (by simp)), splitComma_intercalate (u :: rest) (by simp) (fun x hx => h x (by simp [hx]))]

theorem showInt_chars (i : Int) : (showInt i).all (fun b => isDigit b || b == 45) = true := by
  unfold showInt
  have h1 := (showDec_spec i.natAbs).1
  have h2 := (showDec_spec i.toNat).1
  split
  · simp only [List.all_cons, List.all_eq_true, Bool.or_eq_true, Bool.and_eq_true] at *
    exact ⟨Or.inr (by decide), fun b hb => Or.inl (h1 b hb)⟩
  · simp only [List.all_eq_true, Bool.or_eq_true] at *
    exact fun b hb => Or.inl (h2 b hb)

theorem isDigit_ne_comma {b : UInt8} (h : (isDigit b || b == 45) = true) : (b != 44) = true := by
  simp only [isDigit, Bool.or_eq_true, Bool.and_eq_true, decide_eq_true_eq, beq_iff_eq, UInt8.le_iff_toNat_le,
    bne_iff_ne, ne_eq, ← UInt8.toNat_inj] at *
  simp at *; omega

theorem flagToken_noComma (f : Flag) : (flagToken f).all (· != 44) = true := by
  cases f with
  | hasTag => decide
  | concat => decide
  | encrypt n =>
    have := showInt_chars n
    simp only [flagToken, List.all_append, Bool.and_eq_true, List.all_eq_true] at *
    exact ⟨by decide, fun b hb => isDigit_ne_comma (this b hb)⟩

theorem parseFlags_tokens : ∀ (fs : List Flag) (a : Attribute), flagsOK a fs = true →
    parseFlags (fs.map flagToken) a = .ok (fs.foldl applyFlag a)
  | [], a, _ => by simp [parseFlags]
  | .encrypt n :: fs, a, h => by
    simp only [flagsOK, Bool.and_eq_true] at h
    have ht : (kwEncrypt ++ showInt n).take 8 = kwEncrypt := by simp [kwEncrypt]
    have hd : (kwEncrypt ++ showInt n).drop 8 = showInt n := by simp [kwEncrypt]
    have hnone : a.encrypt.isSome = false := by
      cases he : a.encrypt <;> simp [he] at h ⊢
    simp only [List.map_cons, flagToken, parseFlags, ht, beq_self_eq_true, if_true, hnone, Bool.false_eq_true, if_false, hd,
      parseInt32_showInt n h.1.2, List.foldl_cons, applyFlag]
    exact parseFlags_tokens fs _ h.2
  | .hasTag :: fs, a, h => by
    simp only [flagsOK, Bool.and_eq_true] at h
    have h1 : (kwHasTag.take 8 == kwEncrypt) = false := by decide
    have hnone : a.hasTag.isSome = false := by
      cases he : a.hasTag <;> simp [he] at h ⊢
    simp only [List.map_cons, flagToken, parseFlags, h1, Bool.false_eq_true, if_false, beq_self_eq_true, if_true, hnone,
      List.foldl_cons, applyFlag]
    exact parseFlags_tokens fs _ h.2
  | .concat :: fs, a, h => by
    simp only [flagsOK, Bool.and_eq_true] at h
    have h1 : (kwConcat.take 8 == kwEncrypt) = false := by decide
    have h2 : (kwConcat == kwHasTag) = false := by decide
    have hnone : a.isConcat.isSome = false := by
      cases he : a.isConcat <;> simp [he] at h ⊢
    simp only [List.map_cons, flagToken, parseFlags, h1, h2, Bool.false_eq_true, if_false, beq_self_eq_true, if_true, hnone,
      List.foldl_cons, applyFlag]
    exact parseFlags_tokens fs _ h.2

/-- ATTRIBUTE lines: name, dotted number, type (any letter case, `octets[n]`), flags in any order -/
theorem parseAttribute_tokens (cfg : Cfg) (m : List Bool) (a : AAttr) (h : a.ok = true) :
    parseAttribute cfg a.name (showOID a.oid) (typeToken m a)
      (if a.flags.isEmpty then none else some (Spec.intercalate 44 (a.flags.map flagToken))) = .ok a.toAttribute := by
  have hty := parseType_typeToken m a h
  simp only [AAttr.ok, Bool.and_eq_true] at h
  obtain ⟨⟨⟨⟨_, hne⟩, hoid⟩, _⟩, hfl⟩ := h
  have hne' : a.oid ≠ [] := by
    intro h0; simp [h0] at hne
  have hoid' : ∀ c ∈ a.oid, c < 2 ^ 63 := by
    intro c hc
    have := List.all_eq_true.mp hoid c hc
    simpa using this
  simp only [parseAttribute, parseOID_showOID cfg a.oid hne' hoid', hty]
  cases hf : a.flags with
  | nil => simp [AAttr.toAttribute, hf]
  | cons f fs =>
    have hsplit := splitComma_intercalate ((f :: fs).map flagToken) (by simp) (by
      intro t ht
      simp only [List.mem_map] at ht
      obtain ⟨x, _, rfl⟩ := ht
      exact flagToken_noComma x)
    rw [hf] at hfl
    simp only [List.isEmpty_cons, Bool.false_eq_true, if_false, hsplit, parseFlags_tokens _ _ hfl, AAttr.toAttribute, hf]


/-! ### every token of a rendered line is a field -/

def plainAll (s : Bytes) : Bool := s.all isPlain

theorem tokenOK_iff (s : Bytes) : tokenOK s = true ↔ s ≠ [] ∧ plainAll s = true := by
  cases s <;> simp [tokenOK, plainAll]

theorem isDigit_plain {b : UInt8} (h : (isDigit b || b == 45) = true) : isPlain b = true := by
  simp only [isDigit, isPlain, Bool.or_eq_true, Bool.and_eq_true, decide_eq_true_eq, beq_iff_eq, UInt8.le_iff_toNat_le,
    Bool.not_eq_true', Bool.or_eq_false_iff, beq_eq_false_iff_ne, ne_eq, ← UInt8.toNat_inj] at *
  simp at *; omega

theorem plainAll_showDec (n : Nat) : plainAll (showDec n) = true := by
  have := (showDec_spec n).1
  simp only [plainAll, List.all_eq_true] at *
  exact fun b hb => isDigit_plain (by simp [this b hb])

theorem plainAll_showInt (i : Int) : plainAll (showInt i) = true := by
  have := showInt_chars i
  simp only [plainAll, List.all_eq_true] at *
  exact fun b hb => isDigit_plain (this b hb)

theorem plainAll_intercalate (sep : UInt8) (hsep : isPlain sep = true) : ∀ (toks : List Bytes),
    (∀ t ∈ toks, plainAll t = true) → plainAll (Spec.intercalate sep toks) = true
  | [], _ => by simp [Spec.intercalate, plainAll]
  | [t], h => by simpa [Spec.intercalate] using h t (by simp)
  | t :: u :: rest, h => by
    have ih := plainAll_intercalate sep hsep (u :: rest) (fun x hx => h x (by simp [hx]))
    have ht := h t (by simp)
    simp only [Spec.intercalate, plainAll, List.all_append, List.all_cons, Bool.and_eq_true] at *
    exact ⟨ht, hsep, ih⟩

theorem intercalate_ne_nil (sep : UInt8) : ∀ (toks : List Bytes), toks ≠ [] → (∀ t ∈ toks, t ≠ []) → Spec.intercalate sep toks ≠ []
  | [], h, _ => absurd rfl h
  | [t], _, h => by simpa [Spec.intercalate] using h t (by simp)
  | t :: u :: rest, _, h => by
    have := h t (by simp)
    simp [Spec.intercalate, this]

theorem tokenOK_showOID (o : List Nat) (h : o ≠ []) : tokenOK (showOID o) = true := by
  rw [tokenOK_iff]
  refine ⟨intercalate_ne_nil 46 _ (by simpa using h) ?_, plainAll_intercalate 46 (by decide) _ ?_⟩
  · intro t ht
    simp only [List.mem_map] at ht
    obtain ⟨c, _, rfl⟩ := ht
    exact (showDec_spec c).2.1
  · intro t ht
    simp only [List.mem_map] at ht
    obtain ⟨c, _, rfl⟩ := ht
    exact plainAll_showDec c

theorem caseOf_plain (u : Bool) (c : UInt8) (hc : lowerTok c = true) : isPlain (caseOf u c) = true := by
  have hlt := c.toNat_lt
  rcases caseOf_cases u c with h' | ⟨h', h1, h2⟩ <;> rw [h'] <;>
  · simp only [lowerTok, isPlain, Bool.or_eq_true, Bool.and_eq_true, decide_eq_true_eq, beq_iff_eq, UInt8.le_iff_toNat_le,
      Bool.not_eq_true', Bool.or_eq_false_iff, beq_eq_false_iff_ne, ne_eq, ← UInt8.toNat_inj, UInt8.toNat_sub] at *
    simp at *
    omega

theorem plainAll_applyCase (m : List Bool) (s : Bytes) (h : s.all lowerTok = true) : plainAll (applyCase m s) = true := by
  induction s generalizing m with
  | nil => simp [plainAll]
  | cons c s ih =>
    simp only [List.all_cons, Bool.and_eq_true] at h
    rw [applyCase_cons]
    simp only [plainAll, List.all_cons, Bool.and_eq_true]
    exact ⟨caseOf_plain _ c h.1, by simpa [plainAll] using ih _ h.2⟩

theorem tokenOK_typeToken (m : List Bool) (a : AAttr) : tokenOK (typeToken m a) = true := by
  rw [tokenOK_iff]
  unfold typeToken
  cases a.size with
  | none =>
    refine ⟨?_, plainAll_applyCase m _ (typeName_lower a.typ)⟩
    intro h
    have := congrArg List.length h
    rw [length_applyCase] at this
    revert this
    cases a.typ <;> decide
  | some n =>
    refine ⟨by simp, ?_⟩
    have h1 := plainAll_applyCase m kwOctetsBr (by decide)
    have h2 := plainAll_showInt n
    simp only [plainAll, List.all_append, Bool.and_eq_true] at *
    exact ⟨⟨h1, h2⟩, by decide⟩

theorem plainAll_flagToken (f : Flag) : plainAll (flagToken f) = true ∧ flagToken f ≠ [] := by
  cases f with
  | hasTag => exact ⟨by decide, by decide⟩
  | concat => exact ⟨by decide, by decide⟩
  | encrypt n =>
    have := plainAll_showInt n
    refine ⟨?_, by simp [flagToken, kwEncrypt]⟩
    simp only [flagToken, plainAll, List.all_append, Bool.and_eq_true] at *
    exact ⟨by decide, this⟩

theorem hexDigit_plain (d : Nat) (h : d < 16) : isPlain (hexDigit d) = true := by
  have : d = 0 ∨ d = 1 ∨ d = 2 ∨ d = 3 ∨ d = 4 ∨ d = 5 ∨ d = 6 ∨ d = 7 ∨ d = 8 ∨ d = 9 ∨ d = 10 ∨ d = 11 ∨ d = 12
      ∨ d = 13 ∨ d = 14 ∨ d = 15 := by omega
  rcases this with h | h | h | h | h | h | h | h | h | h | h | h | h | h | h | h <;> subst h <;> decide

theorem plainAll_showHex (n : Nat) : plainAll (showHex n) = true := by
  induction n using Nat.strongRecOn with
  | _ n ih =>
    rw [showHex]
    by_cases h : n < 16
    · simp [h, plainAll, hexDigit_plain n h]
    · have := ih (n / 16) (by omega)
      simp only [h, if_false, plainAll, List.all_append, List.all_cons, List.all_nil, Bool.and_true, Bool.and_eq_true] at *
      exact ⟨this, hexDigit_plain _ (by omega)⟩

theorem attrTokens_ok (m : List Bool) (a : AAttr) (h : a.ok = true) : ∀ t ∈ attrTokens m a, tokenOK t = true := by
  simp only [AAttr.ok, Bool.and_eq_true] at h
  obtain ⟨⟨⟨⟨hname, hne⟩, _⟩, _⟩, _⟩ := h
  have hne' : a.oid ≠ [] := by intro h0; simp [h0] at hne
  intro t ht
  simp only [attrTokens, List.mem_append, List.mem_cons, List.not_mem_nil, or_false] at ht
  rcases ht with (rfl | rfl | rfl | rfl) | ht
  · decide
  · exact hname
  · exact tokenOK_showOID _ hne'
  · exact tokenOK_typeToken m a
  · cases hf : a.flags with
    | nil => simp [hf] at ht
    | cons f fs =>
      simp only [hf, List.isEmpty_cons, Bool.false_eq_true, if_false, List.mem_cons, List.not_mem_nil, or_false] at ht
      subst ht
      rw [tokenOK_iff]
      refine ⟨intercalate_ne_nil 44 _ (by simp) ?_, plainAll_intercalate 44 (by decide) _ ?_⟩
      · intro t ht
        simp only [List.mem_map] at ht
        obtain ⟨x, _, rfl⟩ := ht
        exact (plainAll_flagToken x).2
      · intro t ht
        simp only [List.mem_map] at ht
        obtain ⟨x, _, rfl⟩ := ht
        exact (plainAll_flagToken x).1

theorem valueTokens_ok (v : AValue) (h : v.ok = true) : ∀ t ∈ valueTokens v, tokenOK t = true := by
  simp only [AValue.ok, Bool.and_eq_true] at h
  intro t ht
  simp only [valueTokens, List.mem_cons, List.not_mem_nil, or_false] at ht
  rcases ht with rfl | rfl | rfl | rfl
  · decide
  · exact h.1.1
  · exact h.1.2
  · rw [tokenOK_iff]
    cases v.hex with
    | true =>
      have := plainAll_showHex v.number
      refine ⟨by simp [kw0x], ?_⟩
      simp only [if_true, plainAll, List.all_append, Bool.and_eq_true] at *
      exact ⟨by decide, this⟩
    | false => exact ⟨(showDec_spec _).2.1, plainAll_showDec _⟩

theorem vendorTokens_ok (v : AVendor) (h : v.ok = true) : ∀ t ∈ vendorTokens v, tokenOK t = true := by
  simp only [AVendor.ok, Bool.and_eq_true] at h
  obtain ⟨⟨hname, _⟩, hfmt⟩ := h
  intro t ht
  simp only [vendorTokens, List.mem_append, List.mem_cons, List.not_mem_nil, or_false] at ht
  rcases ht with (rfl | rfl | rfl) | ht
  · decide
  · exact hname
  · rw [tokenOK_iff]; exact ⟨showInt_ne_nil _, plainAll_showInt _⟩
  · cases hf : v.format with
    | none => simp [hf] at ht
    | some tl =>
      obtain ⟨t', l⟩ := tl
      rw [hf] at hfmt
      simp only [Bool.and_eq_true, Bool.or_eq_true, beq_iff_eq] at hfmt
      simp only [hf, List.mem_cons, List.not_mem_nil, or_false] at ht
      subst ht
      obtain ⟨ht', hl⟩ := hfmt
      rcases ht' with (ht' | ht') | ht' <;> rcases hl with (hl | hl) | hl <;> subst ht' <;> subst hl <;> decide


/-! ### one rendered line -/

theorem tokens_ok (m : List Bool) (l : ALine) (h : lineOK l = true) : ∀ t ∈ l.tokens m, tokenOK t = true := by
  cases l with
  | attr a => exact attrTokens_ok m a h
  | value v => exact valueTokens_ok v h
  | vendor v => exact vendorTokens_ok v h
  | beginV n =>
    intro t ht
    simp only [ALine.tokens, List.mem_cons, List.not_mem_nil, or_false] at ht
    rcases ht with rfl | rfl
    · decide
    · exact h
  | endV n =>
    intro t ht
    simp only [ALine.tokens, List.mem_cons, List.not_mem_nil, or_false] at ht
    rcases ht with rfl | rfl
    · decide
    · exact h

theorem tokens_ne (m : List Bool) (l : ALine) : l.tokens m ≠ [] := by
  cases l <;> simp [ALine.tokens, attrTokens, valueTokens, vendorTokens]

theorem sep_ok (ll : LineLayout) (h : ll.ok = true) (j : Nat) : blanks (ll.sep j) = true ∧ ll.sep j ≠ [] := by
  simp only [LineLayout.ok, Bool.and_eq_true, List.all_eq_true] at h
  have hs := h.2
  unfold LineLayout.sep
  rw [List.getD_eq_getElem?_getD]
  cases hj : ll.seps[j]? with
  | none => exact ⟨by decide, by decide⟩
  | some w =>
    have hw := hs w (List.mem_of_getElem? hj)
    simp only [Option.getD_some]
    exact ⟨hw.1, by intro h0; simp [h0] at hw⟩

theorem joinFields_all (P : UInt8 → Bool) (sep : Nat → Bytes) (hsep : ∀ j, (sep j).all P = true) :
    ∀ (toks : List Bytes) (i : Nat), (∀ t ∈ toks, t.all P = true) → (joinFields sep i toks).all P = true
  | [], _, _ => by simp [joinFields]
  | [t], _, h => by simpa [joinFields] using h t (by simp)
  | t :: u :: rest, i, h => by
    have ih := joinFields_all P sep hsep (u :: rest) (i + 1) (fun x hx => h x (by simp [hx]))
    simp only [joinFields, List.all_append, Bool.and_eq_true]
    exact ⟨⟨h t (by simp), hsep i⟩, ih⟩

theorem joinFields_ne_nil (sep : Nat → Bytes) (i : Nat) (toks : List Bytes) (hne : toks ≠ []) (h : ∀ t ∈ toks, t ≠ []) :
    joinFields sep i toks ≠ [] := by
  match toks, hne, h with
  | [t], _, h => simpa [joinFields] using h t (by simp)
  | t :: u :: rest, _, h => simp [joinFields, h t (by simp)]

theorem all_of_blanks (P : UInt8 → Bool) (hP : ∀ b, isBlank b = true → P b = true) (w : Bytes) (h : blanks w = true) :
    w.all P = true := by
  simp only [blanks, List.all_eq_true] at *
  exact fun b hb => hP b (h b hb)

theorem all_of_token (P : UInt8 → Bool) (hP : ∀ b, isPlain b = true → P b = true) (t : Bytes) (h : tokenOK t = true) :
    t.all P = true := by
  have := tokenOK_plain h
  simp only [List.all_eq_true] at *
  exact fun b hb => hP b (this b hb)

/-- the part of a rendered line before the comment -/
def bodyOf (ll : LineLayout) (toks : List Bytes) : Bytes := ll.lead ++ joinFields ll.sep 0 toks ++ ll.trail

theorem body_all (P : UInt8 → Bool) (hB : ∀ b, isBlank b = true → P b = true) (hT : ∀ b, isPlain b = true → P b = true)
    (ll : LineLayout) (toks : List Bytes) (hll : ll.ok = true) (htok : ∀ t ∈ toks, tokenOK t = true) :
    (bodyOf ll toks).all P = true := by
  have hll' := hll
  simp only [LineLayout.ok, Bool.and_eq_true] at hll'
  simp only [bodyOf, List.all_append, Bool.and_eq_true]
  refine ⟨⟨all_of_blanks P hB _ hll'.1.1.1.2, ?_⟩, all_of_blanks P hB _ hll'.1.1.2⟩
  exact joinFields_all P _ (fun j => all_of_blanks P hB _ (sep_ok ll hll j).1) toks 0 (fun t ht => all_of_token P hT t (htok t ht))

/-- a declaration line, however laid out, is dispatched on exactly its tokens -/
theorem stepLine_tokens (cfg : Cfg) (ign : Bool) (inc : IncludeHandler) (file : Bytes) (lineNo : Nat) (vb : Option Bytes) (st : St)
    (ll : LineLayout) (toks : List Bytes) (hll : ll.ok = true) (hne : toks ≠ []) (htok : ∀ t ∈ toks, tokenOK t = true) :
    stepLine cfg ign inc file lineNo vb st (ll.content toks) = dispatch cfg ign inc file lineNo vb st toks := by
  have hbody : ll.content toks = bodyOf ll toks ++ commentPart ll.comment := by
    simp [LineLayout.content, bodyOf]
  have hstrip : stripComment (ll.content toks) = bodyOf ll toks := by
    rw [hbody]
    exact stripComment_commentPart _ _ (body_all _ (fun b hb => isBlank_ne_hash hb) (fun b hb => isPlain_ne_hash hb) ll toks hll htok)
  have hll' := hll
  simp only [LineLayout.ok, Bool.and_eq_true] at hll'
  have hfields : fields (bodyOf ll toks) = toks :=
    fields_join ll.lead ll.trail ll.sep toks hll'.1.1.1.2 hll'.1.1.2 (fun j _ => sep_ok ll hll j) htok
  have hnonempty : (bodyOf ll toks).isEmpty = false := by
    have := joinFields_ne_nil ll.sep 0 toks hne (fun t ht => tokenOK_ne (htok t ht))
    cases hb : bodyOf ll toks with
    | nil =>
      simp only [bodyOf, List.append_eq_nil_iff] at hb
      exact absurd hb.1.2 this
    | cons _ _ => rfl
  have hfne : toks.isEmpty = false := by cases toks <;> simp_all
  simp only [stepLine, hstrip, hnonempty, Bool.false_eq_true, if_false, hfields, hfne, Bool.and_false]

/-- a line that declares nothing is skipped (without fix #11 only if it is empty or starts with `#`) -/
theorem stepLine_filler (cfg : Cfg) (ign : Bool) (inc : IncludeHandler) (file : Bytes) (lineNo : Nat) (vb : Option Bytes) (st : St)
    (f : Filler) (hf : f.ok = true) (h : cfg.skipNoFields = true ∨ f.ws = []) :
    stepLine cfg ign inc file lineNo vb st f.content = .next vb st := by
  simp only [Filler.ok, Bool.and_eq_true] at hf
  have hstrip : stripComment f.content = f.ws :=
    stripComment_commentPart _ _ (all_of_blanks _ (fun b hb => isBlank_ne_hash hb) _ hf.1)
  simp only [stepLine, hstrip]
  cases hw : f.ws with
  | nil => simp
  | cons b w =>
    have hsk : cfg.skipNoFields = true := by
      rcases h with h | h
      · exact h
      · rw [hw] at h; exact absurd h (by simp)
    have : fields (b :: w) = [] := fields_blanks _ (by rw [← hw]; exact hf.1)
    simp [hsk, this]



/-! ### the directive switch on the tokens of a declaration line -/

theorem foldl_applyFlag_name (fs : List Flag) (x : Attribute) : (fs.foldl applyFlag x).name = x.name := by
  induction fs generalizing x with
  | nil => rfl
  | cons f fs ih => cases f <;> simp [List.foldl_cons, applyFlag, ih]

theorem toAttribute_name (a : AAttr) : a.toAttribute.name = a.name := by
  simp [AAttr.toAttribute, foldl_applyFlag_name]

theorem dispatch_attr (cfg : Cfg) (ign : Bool) (inc : IncludeHandler) (file : Bytes) (lineNo : Nat) (vb : Option Bytes) (st : St)
    (m : List Bool) (a : AAttr) (h : a.ok = true) (hnew : attributeByName (scopeAttrs st.dict vb) a.name = none) :
    dispatch cfg ign inc file lineNo vb st (attrTokens m a)
      = .next vb { st with dict := addAttr st.dict a.toAttribute vb } := by
  have hp := parseAttribute_tokens cfg m a h
  have hn := toAttribute_name a
  cases hf : a.flags with
  | nil =>
    simp only [hf, List.isEmpty_nil, if_true] at hp
    simp [dispatch, attrTokens, hf, hp, hn, hnew]
  | cons f fs =>
    simp only [hf, List.isEmpty_cons, Bool.false_eq_true, if_false] at hp
    simp only [attrTokens, hf, List.isEmpty_cons, Bool.false_eq_true, if_false, List.cons_append, List.nil_append]
    generalize Spec.intercalate 44 (List.map flagToken (f :: fs)) = x at hp ⊢
    simp [dispatch, hp, hn, hnew]

theorem dispatch_value (cfg : Cfg) (ign : Bool) (inc : IncludeHandler) (file : Bytes) (lineNo : Nat) (vb : Option Bytes) (st : St)
    (v : AValue) (h : v.ok = true) :
    dispatch cfg ign inc file lineNo vb st (valueTokens v) = .next vb { st with dict := addValue st.dict v.toValue vb } := by
  have hp := parseValue_tokens v h
  have h1 : (kwVALUE == kwATTRIBUTE) = false := by decide
  simp [dispatch, valueTokens, hp, h1]

theorem dispatch_vendor (cfg : Cfg) (ign : Bool) (inc : IncludeHandler) (file : Bytes) (lineNo : Nat) (vb : Option Bytes) (st : St)
    (v : AVendor) (h : v.ok = true) (hnew : vendorByNameOrNumber st.dict.vendors v.name v.number = none) :
    dispatch cfg ign inc file lineNo vb st (vendorTokens v)
      = .next vb { st with dict := { st.dict with vendors := st.dict.vendors ++ [v.toVendor] } } := by
  have hp := parseVendor_tokens cfg v h
  have h1 : (kwVENDOR == kwATTRIBUTE) = false := by decide
  have h2 : (kwVENDOR == kwVALUE) = false := by decide
  have hnm : v.toVendor.name = v.name := rfl
  have hnum : v.toVendor.number = v.number := rfl
  cases hf : v.format with
  | none =>
    simp only [hf] at hp
    simp [dispatch, vendorTokens, hf, hp, h1, h2, hnm, hnum, hnew]
  | some tl =>
    obtain ⟨t, l⟩ := tl
    simp only [hf] at hp
    simp only [vendorTokens, hf, List.cons_append, List.nil_append]
    generalize kwFormat ++ [UInt8.ofNat (48 + t), 44, UInt8.ofNat (48 + l)] = x at hp ⊢
    simp [dispatch, hp, h1, h2, hnm, hnum, hnew]

theorem dispatch_begin (cfg : Cfg) (ign : Bool) (inc : IncludeHandler) (file : Bytes) (lineNo : Nat) (st : St)
    (n : Bytes) (hv : (vendorByName st.dict.vendors n).isSome = true) :
    dispatch cfg ign inc file lineNo none st [kwBEGIN, n] = .next (some n) st := by
  have h1 : (kwBEGIN == kwATTRIBUTE) = false := by decide
  have h2 : (kwBEGIN == kwVALUE) = false := by decide
  have h3 : (kwBEGIN == kwVENDOR) = false := by decide
  cases hx : vendorByName st.dict.vendors n with
  | none => simp [hx] at hv
  | some w => simp [dispatch, h1, h2, h3, hx]

theorem dispatch_end (cfg : Cfg) (ign : Bool) (inc : IncludeHandler) (file : Bytes) (lineNo : Nat) (st : St) (n : Bytes) :
    dispatch cfg ign inc file lineNo (some n) st [kwEND, n] = .next none st := by
  have h1 : (kwEND == kwATTRIBUTE) = false := by decide
  have h2 : (kwEND == kwVALUE) = false := by decide
  have h3 : (kwEND == kwVENDOR) = false := by decide
  have h4 : (kwEND == kwBEGIN) = false := by decide
  simp [dispatch, h1, h2, h3, h4]


/-! ### simulation: the line loop over a rendered list of declaration lines -/

theorem stepOK_lineOK (s : Option Bytes × Dictionary) (l : ALine) (h : stepOK s l = true) : lineOK l = true := by
  cases l <;> simp only [stepOK, Bool.and_eq_true] at h <;> simp only [lineOK]
  · exact h.1
  · exact h
  · exact h.1
  · exact h.1.1
  · exact h.1

theorem stepLine_aline (cfg : Cfg) (ign : Bool) (inc : IncludeHandler) (file : Bytes) (lineNo : Nat) (vb : Option Bytes) (st : St)
    (ll : LineLayout) (l : ALine) (hll : ll.ok = true) (hok : stepOK (vb, st.dict) l = true) :
    stepLine cfg ign inc file lineNo vb st (ll.content (l.tokens ll.caseMask))
      = .next (applyLine (vb, st.dict) l).1 { st with dict := (applyLine (vb, st.dict) l).2 } := by
  rw [stepLine_tokens cfg ign inc file lineNo vb st ll _ hll (tokens_ne _ l) (tokens_ok _ l (stepOK_lineOK _ l hok))]
  cases l with
  | attr a =>
    simp only [stepOK, Bool.and_eq_true, Option.isNone_iff_eq_none] at hok
    simpa [ALine.tokens, applyLine] using dispatch_attr cfg ign inc file lineNo vb st ll.caseMask a hok.1 hok.2
  | value v =>
    simpa [ALine.tokens, applyLine] using dispatch_value cfg ign inc file lineNo vb st v hok
  | vendor v =>
    simp only [stepOK, Bool.and_eq_true, Option.isNone_iff_eq_none] at hok
    simpa [ALine.tokens, applyLine] using dispatch_vendor cfg ign inc file lineNo vb st v hok.1 hok.2
  | beginV n =>
    simp only [stepOK, Bool.and_eq_true, Option.isNone_iff_eq_none] at hok
    obtain ⟨⟨_, hvb⟩, hv⟩ := hok
    subst hvb
    have := dispatch_begin cfg ign inc file lineNo st n hv
    simp only [ALine.tokens, applyLine, this]
  | endV n =>
    simp only [stepOK, Bool.and_eq_true, beq_iff_eq] at hok
    obtain ⟨_, hvb⟩ := hok
    subst hvb
    have := dispatch_end cfg ign inc file lineNo st n
    simp only [ALine.tokens, applyLine, this]

theorem parseLines_fillers (cfg : Cfg) (ign : Bool) (inc : IncludeHandler) (file : Bytes) (tooLong : Bool)
    (fs : List Filler) (rest : List Bytes) (lineNo : Nat) (vb : Option Bytes) (st : St)
    (hok : fs.all Filler.ok = true) (h : cfg.skipNoFields = true ∨ fs.all Filler.flush = true) :
    parseLines cfg ign inc file tooLong (fs.map (·.content) ++ rest) lineNo vb st
      = parseLines cfg ign inc file tooLong rest (lineNo + fs.length) vb st := by
  induction fs generalizing lineNo with
  | nil => simp
  | cons f fs ih =>
    simp only [List.all_cons, Bool.and_eq_true] at hok
    have hf : cfg.skipNoFields = true ∨ f.ws = [] := by
      rcases h with h | h
      · exact Or.inl h
      · simp only [List.all_cons, Bool.and_eq_true, Filler.flush, List.isEmpty_iff] at h
        exact Or.inr h.1
    have hrest : cfg.skipNoFields = true ∨ fs.all Filler.flush = true := by
      rcases h with h | h
      · exact Or.inl h
      · simp only [List.all_cons, Bool.and_eq_true] at h
        exact Or.inr h.2
    simp only [List.map_cons, List.cons_append, parseLines, stepLine_filler cfg ign inc file lineNo vb st f hok.1 hf]
    rw [ih (lineNo + 1) hok.2 hrest]
    congr 1
    simp; omega

theorem st_eta (st : St) : ({ st with dict := st.dict } : St) = st := by cases st; rfl

theorem parseLines_render (cfg : Cfg) (ign : Bool) (inc : IncludeHandler) (file : Bytes) (ℓ : Layout) :
    ∀ (ls : List ALine) (k lineNo : Nat) (vb : Option Bytes) (st : St),
      linesOK (vb, st.dict) ls = true → layoutOKFrom ℓ k ls = true →
      (cfg.skipNoFields = true ∨ noIndentFrom ℓ k ls = true) →
      (ls.foldl applyLine (vb, st.dict)).1 = none →
      parseLines cfg ign inc file false ((physFrom ℓ k ls).map (·.1)) lineNo vb st
        = (none, { st with dict := (ls.foldl applyLine (vb, st.dict)).2 })
  | [], k, lineNo, vb, st, _, hlay, hind, hend => by
    simp only [List.foldl_nil] at hend
    subst hend
    simp only [layoutOKFrom] at hlay
    have hind' : cfg.skipNoFields = true ∨ ℓ.after.all Filler.flush = true := by
      rcases hind with h | h
      · exact Or.inl h
      · exact Or.inr (by simpa [noIndentFrom] using h)
    have := parseLines_fillers cfg ign inc file false ℓ.after [] lineNo none st hlay hind'
    simp only [List.append_nil] at this
    simp only [physFrom, List.map_map, List.foldl_nil]
    have hm : (List.map ((fun x => x.1) ∘ fun f => (f.content, f.crlf)) ℓ.after) = ℓ.after.map (·.content) := by
      apply List.map_congr_left; intro f _; rfl
    rw [hm, this]
    simp [parseLines]
  | l :: ls, k, lineNo, vb, st, hok, hlay, hind, hend => by
    simp only [linesOK, Bool.and_eq_true] at hok
    simp only [layoutOKFrom, Bool.and_eq_true] at hlay
    have hll := hlay.1
    have hll' := hll
    simp only [LineLayout.ok, Bool.and_eq_true] at hll'
    have hind1 : cfg.skipNoFields = true ∨ (ℓ.line k).before.all Filler.flush = true := by
      rcases hind with h | h
      · exact Or.inl h
      · simp only [noIndentFrom, Bool.and_eq_true] at h; exact Or.inr h.1
    have hind2 : cfg.skipNoFields = true ∨ noIndentFrom ℓ (k + 1) ls = true := by
      rcases hind with h | h
      · exact Or.inl h
      · simp only [noIndentFrom, Bool.and_eq_true] at h; exact Or.inr h.2
    simp only [physFrom, List.map_append, List.map_cons, List.map_map]
    have hm : (List.map ((fun x => x.1) ∘ fun f => (f.content, f.crlf)) (ℓ.line k).before) = (ℓ.line k).before.map (·.content) := by
      apply List.map_congr_left; intro f _; rfl
    rw [hm, parseLines_fillers cfg ign inc file false _ _ lineNo vb st hll'.1.1.1.1 hind1]
    simp only [parseLines, stepLine_aline cfg ign inc file _ vb st (ℓ.line k) l hll hok.1]
    have ih := parseLines_render cfg ign inc file ℓ ls (k + 1) (lineNo + (ℓ.line k).before.length + 1)
      (applyLine (vb, st.dict) l).1 { st with dict := (applyLine (vb, st.dict) l).2 }
      (by simpa using hok.2) hlay.2 hind2 (by simpa using hend)
    rw [ih]
    simp [List.foldl_cons]


/-! ### from abstract dictionaries to declaration lines -/

theorem linesOK_append (s : Option Bytes × Dictionary) (a b : List ALine) :
    linesOK s (a ++ b) = (linesOK s a && linesOK (a.foldl applyLine s) b) := by
  induction a generalizing s with
  | nil => simp [linesOK]
  | cons x xs ih => simp [linesOK, ih, Bool.and_assoc]

theorem item_line (vb : Option Bytes) (d : Dictionary) (i : Item) (h : itemOK vb d i = true) :
    stepOK (vb, d) i.line = true ∧ applyLine (vb, d) i.line = (vb, addItem vb d i) := by
  cases i with
  | attr a => exact ⟨h, rfl⟩
  | value v => exact ⟨h, rfl⟩

theorem items_lines (vb : Option Bytes) : ∀ (items : List Item) (d : Dictionary), itemsOK vb d items = true →
    linesOK (vb, d) (items.map Item.line) = true ∧
    (items.map Item.line).foldl applyLine (vb, d) = (vb, items.foldl (addItem vb) d)
  | [], _, _ => by simp [linesOK]
  | i :: is, d, h => by
    simp only [itemsOK, Bool.and_eq_true] at h
    have h1 := item_line vb d i h.1
    have ih := items_lines vb is (addItem vb d i) h.2
    simp only [List.map_cons, linesOK, h1.1, h1.2, ih.1, Bool.and_self, List.foldl_cons, ih.2, and_self]

theorem decl_lines (d : Dictionary) (x : Decl) (h : declOK d x = true) :
    linesOK (none, d) x.lines = true ∧ x.lines.foldl applyLine (none, d) = (none, addDecl d x) := by
  cases x with
  | item i =>
    have := item_line none d i h
    simp [Decl.lines, linesOK, this.1, this.2, addDecl]
  | vendor v =>
    simp only [declOK] at h
    simp [Decl.lines, linesOK, stepOK, h, applyLine, addDecl]
  | block n items =>
    simp only [declOK, Bool.and_eq_true] at h
    obtain ⟨⟨htok, hv⟩, hitems⟩ := h
    have hi := items_lines (some n) items d hitems
    simp only [Decl.lines, linesOK_append, List.foldl_append, List.foldl_cons, List.foldl_nil, linesOK, stepOK, applyLine,
      htok, hv, hi.1, hi.2, addDecl]
    simp

theorem ad_lines : ∀ (ad : AD) (d : Dictionary), wfFrom d ad = true →
    linesOK (none, d) (flatten ad) = true ∧ (flatten ad).foldl applyLine (none, d) = (none, ad.foldl addDecl d)
  | [], _, _ => by simp [flatten, linesOK]
  | x :: xs, d, h => by
    simp only [wfFrom, Bool.and_eq_true] at h
    have h1 := decl_lines d x h.1
    have ih := ad_lines xs (addDecl d x) h.2
    have hf : flatten (x :: xs) = x.lines ++ flatten xs := by simp [flatten]
    rw [hf, linesOK_append, List.foldl_append, h1.2]
    simp [h1.1, ih.1, ih.2]

/-! ### the physical lines are clean and the scanner delivers them -/

theorem linesOK_all (s : Option Bytes × Dictionary) (ls : List ALine) (h : linesOK s ls = true) : ∀ l ∈ ls, lineOK l = true := by
  induction ls generalizing s with
  | nil => simp
  | cons x xs ih =>
    simp only [linesOK, Bool.and_eq_true] at h
    intro l hl
    simp only [List.mem_cons] at hl
    rcases hl with rfl | hl
    · exact stepOK_lineOK s _ h.1
    · exact ih _ h.2 l hl

theorem isBlank_clean {b : UInt8} (h : isBlank b = true) : (b != 10 && b != 13) = true := by
  simp only [isBlank, Bool.or_eq_true, beq_iff_eq] at h
  rcases h with h | h <;> subst h <;> decide

theorem isPlain_clean {b : UInt8} (h : isPlain b = true) : (b != 10 && b != 13) = true := by
  simp only [isPlain, Bool.not_eq_true', Bool.or_eq_false_iff, beq_eq_false_iff_ne] at h
  simp [h]

theorem clean_commentPart (c : Option Bytes) (h : commentOK c = true) : clean (commentPart c) = true := by
  cases c with
  | none => simp [commentPart, clean]
  | some c =>
    simp only [commentOK] at h
    simp only [commentPart, clean, List.all_cons, Bool.and_eq_true]
    exact ⟨by decide, h⟩

theorem clean_filler (f : Filler) (hf : f.ok = true) : clean f.content = true := by
  simp only [Filler.ok, Bool.and_eq_true] at hf
  have h1 := all_of_blanks (fun b => b != 10 && b != 13) (fun b hb => isBlank_clean hb) _ hf.1
  have h2 := clean_commentPart _ hf.2
  simp only [Filler.content, clean, List.all_append, Bool.and_eq_true] at *
  exact ⟨h1, h2⟩

theorem clean_content (ll : LineLayout) (toks : List Bytes) (hll : ll.ok = true) (htok : ∀ t ∈ toks, tokenOK t = true) :
    clean (ll.content toks) = true := by
  have hb := body_all (fun b => b != 10 && b != 13) (fun b hb => isBlank_clean hb) (fun b hb => isPlain_clean hb) ll toks hll htok
  have hll' := hll
  simp only [LineLayout.ok, Bool.and_eq_true] at hll'
  have hc := clean_commentPart _ hll'.1.2
  have : ll.content toks = bodyOf ll toks ++ commentPart ll.comment := by simp [LineLayout.content, bodyOf]
  rw [this]
  simp only [clean, List.all_append, Bool.and_eq_true] at *
  exact ⟨hb, hc⟩

theorem physFrom_clean (ℓ : Layout) : ∀ (ls : List ALine) (k : Nat), (∀ l ∈ ls, lineOK l = true) → layoutOKFrom ℓ k ls = true →
    ∀ p ∈ physFrom ℓ k ls, clean p.1 = true
  | [], k, _, hlay => by
    intro p hp
    simp only [physFrom, List.mem_map] at hp
    obtain ⟨f, hf, rfl⟩ := hp
    simp only [layoutOKFrom, List.all_eq_true] at hlay
    exact clean_filler f (hlay f hf)
  | l :: ls, k, hok, hlay => by
    simp only [layoutOKFrom, Bool.and_eq_true] at hlay
    have hll' := hlay.1
    simp only [LineLayout.ok, Bool.and_eq_true, List.all_eq_true] at hll'
    intro p hp
    simp only [physFrom, List.mem_append, List.mem_map, List.mem_cons] at hp
    rcases hp with ⟨f, hf, rfl⟩ | rfl | hp
    · exact clean_filler f (hll'.1.1.1.1 f hf)
    · exact clean_content _ _ hlay.1 (tokens_ok _ l (hok l (by simp)))
    · exact physFrom_clean ℓ ls (k + 1) (fun x hx => hok x (by simp [hx])) hlay.2 p hp

/-- `Parser.Parse` on a single text is the line loop, whichever include rule is in force -/
theorem parseText_eq (cfg : Cfg) (ign : Bool) (text : Bytes) :
    ∃ inc, parseText cfg ign text = parseBody cfg ign inc [] text {} := by
  unfold parseText parseRoot
  cases cfg.includePath with
  | true =>
    simp only [if_true]
    rw [parseFileFix]; exact ⟨_, rfl⟩
  | false =>
    have : depthCap = 199 + 1 := rfl
    simp only [Bool.false_eq_true, if_false]
    rw [this, parseFileCur]; exact ⟨_, rfl⟩

/-- MAIN SIMULATION: a rendered well-formed abstract dictionary parses to the dictionary it denotes -/
theorem parseText_render (cfg : Cfg) (ign : Bool) (ℓ : Layout) (ad : AD) (hwf : WF ad) (hlay : LayoutOK ℓ ad)
    (h : cfg.skipNoFields = true ∨ NoIndentedFillers ℓ ad) :
    parseText cfg ign (render ℓ ad) = (none, { dict := toDictionary ad, log := [] }) := by
  obtain ⟨inc, hinc⟩ := parseText_eq cfg ign (render ℓ ad)
  have hl := ad_lines ad {} hwf
  obtain ⟨hlay1, hlen, hlast⟩ := hlay
  have hclean := physFrom_clean ℓ (flatten ad) 0 (linesOK_all _ _ hl.1) hlay1
  have hlines := lines_joinPhys (physLines ℓ ad) ℓ.finalNewline hclean hlen hlast
  rw [hinc]
  simp only [parseBody, render, hlines]
  have hend : ((flatten ad).foldl applyLine (none, ({} : St).dict)).1 = none := by
    have := hl.2; rw [show ({} : St).dict = ({} : Dictionary) from rfl, this]
  have := parseLines_render cfg ign inc [] ℓ (flatten ad) 0 1 none {} hl.1 hlay1 h hend
  simp only [physLines]
  rw [this]
  have h2 := hl.2
  rw [show ({} : St).dict = ({} : Dictionary) from rfl, h2]
  rfl


/-! ### texts that go on after a well-formed beginning -/

theorem lines_joinPhys_append : ∀ (ps : List (Bytes × Bool)) (R : Bytes),
    (∀ p ∈ ps, clean p.1 = true) → (∀ p ∈ ps, p.1.length + 1 < maxTokenSize) →
    Lex.lines (joinPhys ps true ++ R) = (ps.map (·.1) ++ (Lex.lines R).1, (Lex.lines R).2)
  | [], R, _, _ => by simp [joinPhys]
  | [p], R, hc, hl => by
    have hcp := hc p (by simp)
    have hlp := hl p (by simp)
    have : joinPhys [p] true ++ R = seg p ++ 10 :: R := by
      simp only [joinPhys, if_true]; exact eol_eq p R
    simp only [Lex.lines, this, splitNL_line _ _ (seg_noLF p hcp), scan, seg_short p hlp, if_false, dropCR_seg p hcp,
      List.map, List.cons_append, List.nil_append]
  | p :: q :: rest, R, hc, hl => by
    have hcp := hc p (by simp)
    have hlp := hl p (by simp)
    have ih := lines_joinPhys_append (q :: rest) R (fun x hx => hc x (by simp [hx])) (fun x hx => hl x (by simp [hx]))
    have : joinPhys (p :: q :: rest) true ++ R = seg p ++ 10 :: (joinPhys (q :: rest) true ++ R) := by
      simp only [joinPhys]
      rw [List.append_assoc]; exact eol_eq p _
    simp only [Lex.lines] at ih ⊢
    simp only [this, splitNL_line _ _ (seg_noLF p hcp), scan, seg_short p hlp, if_false, dropCR_seg p hcp, ih,
      List.map, List.cons_append]

/-- the line loop over rendered well-formed lines followed by anything: it arrives at the rest with
    the state the lines denote -/
theorem parseLines_render_rest (cfg : Cfg) (ign : Bool) (inc : IncludeHandler) (file : Bytes) (tooLong : Bool) (ℓ : Layout)
    (rest : List Bytes) :
    ∀ (ls : List ALine) (k lineNo : Nat) (vb : Option Bytes) (st : St),
      linesOK (vb, st.dict) ls = true → layoutOKFrom ℓ k ls = true →
      (cfg.skipNoFields = true ∨ noIndentFrom ℓ k ls = true) →
      parseLines cfg ign inc file tooLong ((physFrom ℓ k ls).map (·.1) ++ rest) lineNo vb st
        = parseLines cfg ign inc file tooLong rest (lineNo + (physFrom ℓ k ls).length)
            (ls.foldl applyLine (vb, st.dict)).1 { st with dict := (ls.foldl applyLine (vb, st.dict)).2 }
  | [], k, lineNo, vb, st, _, hlay, hind => by
    simp only [layoutOKFrom] at hlay
    have hind' : cfg.skipNoFields = true ∨ ℓ.after.all Filler.flush = true := by
      rcases hind with h | h
      · exact Or.inl h
      · exact Or.inr (by simpa [noIndentFrom] using h)
    have := parseLines_fillers cfg ign inc file tooLong ℓ.after rest lineNo vb st hlay hind'
    simp only [physFrom, List.map_map, List.foldl_nil, List.length_map]
    have hm : (List.map ((fun x => x.1) ∘ fun f => (f.content, f.crlf)) ℓ.after) = ℓ.after.map (·.content) := by
      apply List.map_congr_left; intro f _; rfl
    rw [hm, this]
  | l :: ls, k, lineNo, vb, st, hok, hlay, hind => by
    simp only [linesOK, Bool.and_eq_true] at hok
    simp only [layoutOKFrom, Bool.and_eq_true] at hlay
    have hll := hlay.1
    have hll' := hll
    simp only [LineLayout.ok, Bool.and_eq_true] at hll'
    have hind1 : cfg.skipNoFields = true ∨ (ℓ.line k).before.all Filler.flush = true := by
      rcases hind with h | h
      · exact Or.inl h
      · simp only [noIndentFrom, Bool.and_eq_true] at h; exact Or.inr h.1
    have hind2 : cfg.skipNoFields = true ∨ noIndentFrom ℓ (k + 1) ls = true := by
      rcases hind with h | h
      · exact Or.inl h
      · simp only [noIndentFrom, Bool.and_eq_true] at h; exact Or.inr h.2
    simp only [physFrom, List.map_append, List.map_cons, List.map_map, List.append_assoc, List.cons_append]
    have hm : (List.map ((fun x => x.1) ∘ fun f => (f.content, f.crlf)) (ℓ.line k).before) = (ℓ.line k).before.map (·.content) := by
      apply List.map_congr_left; intro f _; rfl
    rw [hm, parseLines_fillers cfg ign inc file tooLong _ _ lineNo vb st hll'.1.1.1.1 hind1]
    simp only [parseLines, stepLine_aline cfg ign inc file _ vb st (ℓ.line k) l hll hok.1]
    have ih := parseLines_render_rest cfg ign inc file tooLong ℓ rest ls (k + 1) (lineNo + (ℓ.line k).before.length + 1)
      (applyLine (vb, st.dict) l).1 { st with dict := (applyLine (vb, st.dict) l).2 }
      (by simpa using hok.2) hlay.2 hind2
    rw [ih]
    simp only [List.foldl_cons, List.length_append, List.length_map, List.length_cons]
    congr 1
    omega

/-- the preconditions shared by the rejection theorems: the lines before the fault are well-formed
    where they stand, laid out properly, short, and (without fix #11) free of indented fillers -/
structure GoodPrefix (cfg : Cfg) (ℓ : Layout) (ls : List ALine) : Prop where
  wf : linesOK (none, {}) ls = true
  layout : layoutOKFrom ℓ 0 ls = true
  short : ∀ p ∈ physFrom ℓ 0 ls, p.1.length + 1 < maxTokenSize
  fillers : cfg.skipNoFields = true ∨ noIndentFrom ℓ 0 ls = true

/-- WRAPPER of the rejection theorems: if, in the state the preceding lines denote, the line `bad`
    is refused with class `c`, the parse of the whole text fails with `c` at the 1-based number of
    that line, whatever follows -/
theorem reject_after_lines (cfg : Cfg) (ign : Bool) (ℓ : Layout) (ls : List ALine) (bad R : Bytes) (c : ErrClass)
    (hp : GoodPrefix cfg ℓ ls) (hclean : clean bad = true) (hshort : bad.length + 1 < maxTokenSize)
    (hstep : ∀ inc file lineNo (st : St), st.dict = (stateAfter ls).2 →
      stepLine cfg ign inc file lineNo (stateAfter ls).1 st bad = .fail (.decl c file lineNo) st) :
    (parseText cfg ign (textOfLines ℓ ls ++ bad ++ 10 :: R)).1 = some (.decl c [] ((physFrom ℓ 0 ls).length + 1)) := by
  obtain ⟨inc, hinc⟩ := parseText_eq cfg ign (textOfLines ℓ ls ++ bad ++ 10 :: R)
  have hclean' := physFrom_clean ℓ ls 0 (linesOK_all _ _ hp.wf) hp.layout
  have hl1 := lines_joinPhys_append (physFrom ℓ 0 ls) (bad ++ 10 :: R) hclean' hp.short
  have hl2 : Lex.lines (bad ++ 10 :: R) = (bad :: (Lex.lines R).1, (Lex.lines R).2) := by
    have := lines_joinPhys_append [(bad, false)] R (by simpa using hclean) (by simpa using hshort)
    simpa [joinPhys, eol] using this
  rw [hinc]
  simp only [parseBody, textOfLines, List.append_assoc, hl1, hl2]
  rw [parseLines_render_rest cfg ign inc [] _ ℓ _ ls 0 1 none {} hp.wf hp.layout hp.fillers]
  have := hstep inc [] (1 + (physFrom ℓ 0 ls).length) { dict := (stateAfter ls).2, log := [] } rfl
  simp only [stateAfter] at this
  simp only [parseLines]
  rw [this]
  simp only [Option.some.injEq, Failure.decl.injEq, true_and]
  omega

/-- a vendor block still open at the end of the text: UnclosedVendorBlock at the last line -/
theorem unclosed_after_lines (cfg : Cfg) (ign : Bool) (ℓ : Layout) (ls : List ALine) (n : Bytes)
    (hp : GoodPrefix cfg ℓ ls) (hopen : (stateAfter ls).1 = some n) :
    (parseText cfg ign (textOfLines ℓ ls)).1 = some (.decl .unclosedVendorBlock [] (physFrom ℓ 0 ls).length) := by
  obtain ⟨inc, hinc⟩ := parseText_eq cfg ign (textOfLines ℓ ls)
  have hclean' := physFrom_clean ℓ ls 0 (linesOK_all _ _ hp.wf) hp.layout
  have hl1 := lines_joinPhys_append (physFrom ℓ 0 ls) [] hclean' hp.short
  rw [hinc]
  simp only [List.append_nil] at hl1
  have hnil : Lex.lines [] = ([], false) := rfl
  simp only [parseBody, textOfLines, hl1, hnil]
  rw [parseLines_render_rest cfg ign inc [] false ℓ [] ls 0 1 none {} hp.wf hp.layout hp.fillers]
  simp only [stateAfter] at hopen
  rw [show ({} : St).dict = ({} : Dictionary) from rfl, hopen]
  simp only [parseLines, Bool.false_eq_true, if_false, Option.some.injEq, Failure.decl.injEq, true_and]
  omega


/-! ### refusals of single lines -/

/-- an ATTRIBUTE line whose arguments `parseAttribute` refuses -/
theorem dispatch_attr_err (cfg : Cfg) (ign : Bool) (inc : IncludeHandler) (file : Bytes) (lineNo : Nat) (vb : Option Bytes) (st : St)
    (name oid ty : Bytes) (fl : Option Bytes) (e : ErrClass) (h : parseAttribute cfg name oid ty fl = .error e) :
    dispatch cfg ign inc file lineNo vb st ([kwATTRIBUTE, name, oid, ty] ++ fl.toList) = .fail (.decl e file lineNo) st := by
  cases fl with
  | none => simp [dispatch, h]
  | some x => simp [dispatch, h]

theorem dispatch_attr_dup (cfg : Cfg) (ign : Bool) (inc : IncludeHandler) (file : Bytes) (lineNo : Nat) (vb : Option Bytes) (st : St)
    (m : List Bool) (a : AAttr) (e : Attribute) (h : a.ok = true)
    (hdup : attributeByName (scopeAttrs st.dict vb) a.name = some e) (hne : ¬ (ign = true ∧ a.toAttribute = e)) :
    dispatch cfg ign inc file lineNo vb st (attrTokens m a) = .fail (.decl .duplicateAttribute file lineNo) st := by
  have hp := parseAttribute_tokens cfg m a h
  have hn := toAttribute_name a
  cases hf : a.flags with
  | nil =>
    simp only [hf, List.isEmpty_nil, if_true] at hp
    simp [dispatch, attrTokens, hf, hp, hn, hdup, hne]
  | cons f fs =>
    simp only [hf, List.isEmpty_cons, Bool.false_eq_true, if_false] at hp
    simp only [attrTokens, hf, List.isEmpty_cons, Bool.false_eq_true, if_false, List.cons_append, List.nil_append]
    generalize Spec.intercalate 44 (List.map flagToken (f :: fs)) = x at hp ⊢
    simp [dispatch, hp, hn, hdup, hne]

theorem dispatch_vendor_dup (cfg : Cfg) (ign : Bool) (inc : IncludeHandler) (file : Bytes) (lineNo : Nat) (vb : Option Bytes) (st : St)
    (v : AVendor) (w : Vendor) (h : v.ok = true) (hdup : vendorByNameOrNumber st.dict.vendors v.name v.number = some w) :
    dispatch cfg ign inc file lineNo vb st (vendorTokens v) = .fail (.decl .duplicateVendor file lineNo) st := by
  have hp := parseVendor_tokens cfg v h
  have h1 : (kwVENDOR == kwATTRIBUTE) = false := by decide
  have h2 : (kwVENDOR == kwVALUE) = false := by decide
  have hnm : v.toVendor.name = v.name := rfl
  have hnum : v.toVendor.number = v.number := rfl
  cases hf : v.format with
  | none =>
    simp only [hf] at hp
    simp [dispatch, vendorTokens, hf, hp, h1, h2, hnm, hnum, hdup]
  | some tl =>
    obtain ⟨t, l⟩ := tl
    simp only [hf] at hp
    simp only [vendorTokens, hf, List.cons_append, List.nil_append]
    generalize kwFormat ++ [UInt8.ofNat (48 + t), 44, UInt8.ofNat (48 + l)] = x at hp ⊢
    simp [dispatch, hp, h1, h2, hnm, hnum, hdup]

theorem vendorByNameOrNumber_some (vs : List Vendor) (name : Bytes) (num : Int)
    (h : ∃ w ∈ vs, w.name = name ∨ w.number = num) : ∃ w, vendorByNameOrNumber vs name num = some w := by
  obtain ⟨w, hw, hc⟩ := h
  cases hx : vendorByNameOrNumber vs name num with
  | some x => exact ⟨x, rfl⟩
  | none =>
    simp only [vendorByNameOrNumber, List.find?_eq_none] at hx
    have := hx w hw
    rcases hc with hc | hc <;> simp [hc] at this

theorem dispatch_begin_unknown (cfg : Cfg) (ign : Bool) (inc : IncludeHandler) (file : Bytes) (lineNo : Nat) (st : St)
    (n : Bytes) (hv : vendorByName st.dict.vendors n = none) :
    dispatch cfg ign inc file lineNo none st [kwBEGIN, n] = .fail (.decl .unknownVendor file lineNo) st := by
  have h1 : (kwBEGIN == kwATTRIBUTE) = false := by decide
  have h2 : (kwBEGIN == kwVALUE) = false := by decide
  have h3 : (kwBEGIN == kwVENDOR) = false := by decide
  simp [dispatch, h1, h2, h3, hv]

theorem dispatch_begin_nested (cfg : Cfg) (ign : Bool) (inc : IncludeHandler) (file : Bytes) (lineNo : Nat) (st : St)
    (n v : Bytes) :
    dispatch cfg ign inc file lineNo (some v) st [kwBEGIN, n] = .fail (.decl .nestedVendorBlock file lineNo) st := by
  have h1 : (kwBEGIN == kwATTRIBUTE) = false := by decide
  have h2 : (kwBEGIN == kwVALUE) = false := by decide
  have h3 : (kwBEGIN == kwVENDOR) = false := by decide
  simp [dispatch, h1, h2, h3]

theorem dispatch_end_mismatch (cfg : Cfg) (ign : Bool) (inc : IncludeHandler) (file : Bytes) (lineNo : Nat) (st : St)
    (n v : Bytes) (hne : v ≠ n) :
    dispatch cfg ign inc file lineNo (some v) st [kwEND, n] = .fail (.decl .invalidEndVendor file lineNo) st := by
  have h1 : (kwEND == kwATTRIBUTE) = false := by decide
  have h2 : (kwEND == kwVALUE) = false := by decide
  have h3 : (kwEND == kwVENDOR) = false := by decide
  have h4 : (kwEND == kwBEGIN) = false := by decide
  simp [dispatch, h1, h2, h3, h4, hne]

theorem dispatch_end_unmatched (cfg : Cfg) (ign : Bool) (inc : IncludeHandler) (file : Bytes) (lineNo : Nat) (st : St) (n : Bytes) :
    dispatch cfg ign inc file lineNo none st [kwEND, n] = .fail (.decl .unmatchedEndVendor file lineNo) st := by
  have h1 : (kwEND == kwATTRIBUTE) = false := by decide
  have h2 : (kwEND == kwVALUE) = false := by decide
  have h3 : (kwEND == kwVENDOR) = false := by decide
  have h4 : (kwEND == kwBEGIN) = false := by decide
  simp [dispatch, h1, h2, h3, h4]

theorem dispatch_value_err (cfg : Cfg) (ign : Bool) (inc : IncludeHandler) (file : Bytes) (lineNo : Nat) (vb : Option Bytes) (st : St)
    (a n num : Bytes) (e : ErrClass) (h : parseValue a n num = .error e) :
    dispatch cfg ign inc file lineNo vb st [kwVALUE, a, n, num] = .fail (.decl e file lineNo) st := by
  have h1 : (kwVALUE == kwATTRIBUTE) = false := by decide
  simp [dispatch, h1, h]

theorem dispatch_vendor_err (cfg : Cfg) (ign : Bool) (inc : IncludeHandler) (file : Bytes) (lineNo : Nat) (vb : Option Bytes) (st : St)
    (n num : Bytes) (fmt : Option Bytes) (e : ErrClass) (h : parseVendor cfg n num fmt = .error e) :
    dispatch cfg ign inc file lineNo vb st ([kwVENDOR, n, num] ++ fmt.toList) = .fail (.decl e file lineNo) st := by
  have h1 : (kwVENDOR == kwATTRIBUTE) = false := by decide
  have h2 : (kwVENDOR == kwVALUE) = false := by decide
  cases fmt with
  | none => simp [dispatch, h1, h2, h]
  | some x => simp [dispatch, h1, h2, h]

/-! #### non-numeric numbers -/

/-- a byte that cannot occur in a dotted number -/
def oidBad (b : UInt8) : Bool := !isDigit b && b != 46

theorem oidLoop_bad (cfg : Cfg) : ∀ (s : Bytes) (done : List Int) (cur : Int), (∃ b ∈ s, oidBad b = true) →
    oidLoop cfg s done cur = none
  | [], _, _, h => by simp at h
  | c :: rest, done, cur, h => by
    obtain ⟨b, hb, hbad⟩ := h
    rw [oidLoop.eq_def]
    simp only
    by_cases h46 : (c == 46) = true
    · simp only [h46, if_true]
      have hc : c = 46 := by simpa using h46
      have hbr : b ∈ rest := by
        simp only [List.mem_cons] at hb
        rcases hb with rfl | hb
        · subst hc; simp [oidBad] at hbad
        · exact hb
      cases rest with
      | nil => rfl
      | cons d rest' =>
        simp only
        by_cases hd : isDigit d = true
        · simp only [hd, if_true]; exact oidLoop_bad cfg _ _ _ ⟨b, hbr, hbad⟩
        · simp [hd]
    · simp only [h46, Bool.false_eq_true, if_false]
      by_cases hd : isDigit c = true
      · simp only [hd, if_true]
        have hbr : b ∈ rest := by
          simp only [List.mem_cons] at hb
          rcases hb with rfl | hb
          · simp [oidBad, hd] at hbad
          · exact hb
        cases oidStep cfg cur c with
        | none => rfl
        | some v => exact oidLoop_bad cfg _ _ _ ⟨b, hbr, hbad⟩
      · simp [hd]

/-- a "dotted number" with a byte that is neither a digit nor a dot is no OID -/
theorem parseOID_bad (cfg : Cfg) (s : Bytes) (h : ∃ b ∈ s, oidBad b = true) : parseOID cfg s = none := by
  cases s with
  | nil => rfl
  | cons c rest =>
    obtain ⟨b, hb, hbad⟩ := h
    simp only [parseOID]
    by_cases hd : isDigit c = true
    · simp only [hd, if_true]
      have hbr : b ∈ rest := by
        simp only [List.mem_cons] at hb
        rcases hb with rfl | hb
        · simp [oidBad, hd] at hbad
        · exact hb
      cases oidStep cfg 0 c with
      | none => rfl
      | some v => exact oidLoop_bad cfg _ _ _ ⟨b, hbr, hbad⟩
    · simp [hd]

theorem decNat_bad (s : Bytes) (h : ∃ b ∈ s, isDigit b = false) : decNat? s = none := by
  obtain ⟨b, hb, hbad⟩ := h
  have : s.all isDigit = false := by
    apply Bool.eq_false_iff.mpr
    intro hall
    have := List.all_eq_true.mp hall b hb
    simp [hbad] at this
  simp [decNat?, this]

/-- a VALUE number (not written with `0x`) containing a non-digit is refused by strconv -/
theorem parseValue_bad (a n num : Bytes) (h0x : (num.take 2 == kw0x) = false) (h : ∃ b ∈ num, isDigit b = false) :
    parseValue a n num = .error .strconv := by
  simp [parseValue, h0x, parseUint32Dec, decNat_bad num h]

/-- a VENDOR number containing a byte that is neither digit nor sign is refused by strconv -/
theorem parseInt32_bad (s : Bytes) (h : ∃ b ∈ s, isDigit b = false ∧ b ≠ 43 ∧ b ≠ 45) : parseInt32 s = none := by
  obtain ⟨b, hb, hbad, h43, h45⟩ := h
  cases s with
  | nil => rfl
  | cons c rest =>
    have hs : decNat? (c :: rest) = none := decNat_bad _ ⟨b, hb, hbad⟩
    simp only [parseInt32]
    by_cases hc1 : (c == 43) = true
    · have hc : c = 43 := by simpa using hc1
      have hbr : b ∈ rest := by
        simp only [List.mem_cons] at hb
        rcases hb with rfl | hb
        · exact absurd hc h43
        · exact hb
      simp [hc1, decNat_bad rest ⟨b, hbr, hbad⟩]
    · by_cases hc2 : (c == 45) = true
      · have hc : c = 45 := by simpa using hc2
        have hbr : b ∈ rest := by
          simp only [List.mem_cons] at hb
          rcases hb with rfl | hb
          · exact absurd hc h45
          · exact hb
        simp [hc1, hc2, decNat_bad rest ⟨b, hbr, hbad⟩]
      · simp [hc1, hc2, hs]

theorem parseVendor_bad_number (cfg : Cfg) (n num : Bytes) (fmt : Option Bytes)
    (h : ∃ b ∈ num, isDigit b = false ∧ b ≠ 43 ∧ b ≠ 45) : parseVendor cfg n num fmt = .error .strconv := by
  simp [parseVendor, parseInt32_bad num h]


/-! #### unknown types, unknown / repeated flags, bad vendor formats -/

theorem typeTable_names : typeTable.all (fun e => e.1 == typeName e.2) = true := by decide

/-- a token that `strings.EqualFold` equates with none of the 17 type names and that does not end
    in `]` is an unknown type -/
theorem parseType_unknown (t : Bytes) (h : ∀ ty, foldEq t (typeName ty) = false) (hbr : t.getLast? ≠ some 93) :
    parseType t = .error .unknownAttributeType := by
  have h1 : foldEq t nmString = false := h .string
  have h2 : foldEq t nmOctets = false := h .octets
  have h3 : (t.getLast? == some 93) = false := by simpa using hbr
  have h4 : typeTable.find? (fun e => foldEq t e.1) = none := by
    rw [List.find?_eq_none]
    intro e he
    have := List.all_eq_true.mp typeTable_names e he
    have hn : e.1 = typeName e.2 := by simpa using this
    rw [hn, h e.2]; simp
  simp [parseType, h1, h2, h3, h4]

/-- which flag kinds an attribute already carries -/
def kindSet (a : Attribute) : Flag → Bool
  | .encrypt _ => a.encrypt.isSome
  | .hasTag => a.hasTag.isSome
  | .concat => a.isConcat.isSome

theorem parseFlags_prefix : ∀ (good : List Flag) (rest : List Bytes) (a : Attribute), flagsOK a good = true →
    parseFlags (good.map flagToken ++ rest) a = parseFlags rest (good.foldl applyFlag a)
  | [], _, _, _ => by simp
  | .encrypt n :: fs, rest, a, h => by
    simp only [flagsOK, Bool.and_eq_true] at h
    have ht : (kwEncrypt ++ showInt n).take 8 = kwEncrypt := by simp [kwEncrypt]
    have hd : (kwEncrypt ++ showInt n).drop 8 = showInt n := by simp [kwEncrypt]
    have hnone : a.encrypt.isSome = false := by
      cases he : a.encrypt <;> simp [he] at h ⊢
    simp only [List.map_cons, List.cons_append, flagToken, parseFlags, ht, beq_self_eq_true, if_true, hnone, Bool.false_eq_true,
      if_false, hd, parseInt32_showInt n h.1.2, List.foldl_cons, applyFlag]
    exact parseFlags_prefix fs rest _ h.2
  | .hasTag :: fs, rest, a, h => by
    simp only [flagsOK, Bool.and_eq_true] at h
    have h1 : (kwHasTag.take 8 == kwEncrypt) = false := by decide
    have hnone : a.hasTag.isSome = false := by
      cases he : a.hasTag <;> simp [he] at h ⊢
    simp only [List.map_cons, List.cons_append, flagToken, parseFlags, h1, Bool.false_eq_true, if_false, beq_self_eq_true, if_true,
      hnone, List.foldl_cons, applyFlag]
    exact parseFlags_prefix fs rest _ h.2
  | .concat :: fs, rest, a, h => by
    simp only [flagsOK, Bool.and_eq_true] at h
    have h1 : (kwConcat.take 8 == kwEncrypt) = false := by decide
    have h2 : (kwConcat == kwHasTag) = false := by decide
    have hnone : a.isConcat.isSome = false := by
      cases he : a.isConcat <;> simp [he] at h ⊢
    simp only [List.map_cons, List.cons_append, flagToken, parseFlags, h1, h2, Bool.false_eq_true, if_false, beq_self_eq_true,
      if_true, hnone, List.foldl_cons, applyFlag]
    exact parseFlags_prefix fs rest _ h.2

theorem parseFlags_unknown (bad : Bytes) (more : List Bytes) (a : Attribute)
    (h1 : (bad.take 8 == kwEncrypt) = false) (h2 : bad ≠ kwHasTag) (h3 : bad ≠ kwConcat) :
    parseFlags (bad :: more) a = .error .unknownAttributeFlag := by
  simp [parseFlags, h1, h2, h3]

theorem parseFlags_repeated (f : Flag) (more : List Bytes) (a : Attribute) (h : kindSet a f = true) :
    parseFlags (flagToken f :: more) a = .error .duplicateAttributeFlag := by
  cases f with
  | encrypt n =>
    have ht : (kwEncrypt ++ showInt n).take 8 = kwEncrypt := by simp [kwEncrypt]
    simp only [kindSet] at h
    simp [parseFlags, flagToken, ht, h]
  | hasTag =>
    have h1 : (kwHasTag.take 8 == kwEncrypt) = false := by decide
    simp only [kindSet] at h
    simp [parseFlags, flagToken, h1, h]
  | concat =>
    have h1 : (kwConcat.take 8 == kwEncrypt) = false := by decide
    have h2 : (kwConcat == kwHasTag) = false := by decide
    simp only [kindSet] at h
    simp [parseFlags, flagToken, h1, h2, h]

/-- the attribute before its flags are applied -/
def AAttr.base (a : AAttr) : Attribute := { name := a.name, oid := a.oid.map Int.ofNat, typ := a.typ, size := a.size }

/-- ATTRIBUTE line whose flag field is: the (well-formed) flags of `a`, then the parts `rest` -/
theorem parseAttribute_flags (cfg : Cfg) (m : List Bool) (a : AAttr) (rest : List Bytes) (h : a.ok = true)
    (hrest : rest ≠ []) (hcomma : ∀ t ∈ rest, t.all (· != 44) = true) :
    parseAttribute cfg a.name (showOID a.oid) (typeToken m a)
      (some (Spec.intercalate 44 (a.flags.map flagToken ++ rest))) = parseFlags rest a.toAttribute := by
  have hty := parseType_typeToken m a h
  simp only [AAttr.ok, Bool.and_eq_true] at h
  obtain ⟨⟨⟨⟨_, hne⟩, hoid⟩, _⟩, hfl⟩ := h
  have hne' : a.oid ≠ [] := by intro h0; simp [h0] at hne
  have hoid' : ∀ c ∈ a.oid, c < 2 ^ 63 := by
    intro c hc
    have := List.all_eq_true.mp hoid c hc
    simpa using this
  have hsplit := splitComma_intercalate (a.flags.map flagToken ++ rest) (by simp [hrest]) (by
    intro t ht
    simp only [List.mem_append, List.mem_map] at ht
    rcases ht with ⟨x, _, rfl⟩ | ht
    · exact flagToken_noComma x
    · exact hcomma t ht)
  simp only [parseAttribute, parseOID_showOID cfg a.oid hne' hoid', hty, hsplit]
  rw [parseFlags_prefix a.flags rest _ hfl]
  rfl

/-- what `format=t,l` with t ∈ {1,2,4}, l ∈ {0,1,2} looks like -/
def isFormatToken (f : Bytes) : Prop :=
  ∃ t l : Nat, (t = 1 ∨ t = 2 ∨ t = 4) ∧ (l = 0 ∨ l = 1 ∨ l = 2) ∧ f = kwFormat ++ [UInt8.ofNat (48 + t), 44, UInt8.ofNat (48 + l)]

theorem formatOK_shape (cfg : Cfg) (hc : cfg.formatLenChecked = true) (f : Bytes) (h : formatOK cfg f = true) : isFormatToken f := by
  simp only [formatOK, hc, Bool.not_true, Bool.false_or, Bool.and_eq_true, beq_iff_eq, Bool.or_eq_true, decide_eq_true_eq] at h
  obtain ⟨⟨⟨⟨htake, hlen⟩, h8⟩, h7⟩, h9⟩ := h
  have hsplit : f = f.take 7 ++ f.drop 7 := (List.take_append_drop 7 f).symm
  have hdl : (f.drop 7).length = 3 := by simp [hlen]
  match hd : f.drop 7, hdl with
  | [x, y, z], _ =>
    rw [htake, hd] at hsplit
    subst hsplit
    simp only [kwFormat, List.cons_append, List.nil_append, List.getD_cons_succ, List.getD_cons_zero] at h7 h8 h9
    subst h8
    have hx : x = 49 ∨ x = 50 ∨ x = 52 := by
      rcases h7 with (h | h) | h
      · exact Or.inl h
      · exact Or.inr (Or.inl h)
      · exact Or.inr (Or.inr h)
    have hz : z = 48 ∨ z = 49 ∨ z = 50 := by
      have hlt := z.toNat_lt
      simp only [UInt8.le_iff_toNat_le, ← UInt8.toNat_inj] at h9 ⊢
      simp at h9 ⊢
      omega
    rcases hx with rfl | rfl | rfl <;> rcases hz with rfl | rfl | rfl
    · exact ⟨1, 0, by simp, by simp, by decide⟩
    · exact ⟨1, 1, by simp, by simp, by decide⟩
    · exact ⟨1, 2, by simp, by simp, by decide⟩
    · exact ⟨2, 0, by simp, by simp, by decide⟩
    · exact ⟨2, 1, by simp, by simp, by decide⟩
    · exact ⟨2, 2, by simp, by simp, by decide⟩
    · exact ⟨4, 0, by simp, by simp, by decide⟩
    · exact ⟨4, 1, by simp, by simp, by decide⟩
    · exact ⟨4, 2, by simp, by simp, by decide⟩

theorem parseVendor_bad_format (cfg : Cfg) (hc : cfg.formatLenChecked = true) (n : Bytes) (num : Int) (f : Bytes)
    (hnum : int32OK num = true) (hbad : ¬ isFormatToken f) :
    parseVendor cfg n (showInt num) (some f) = .error .invalidVendorFormat := by
  have : formatOK cfg f = false := by
    apply Bool.eq_false_iff.mpr
    exact fun h => hbad (formatOK_shape cfg hc f h)
  simp [parseVendor, parseInt32_showInt num hnum, this]


/-- WRAPPER on tokens: a line with these (field-shaped) tokens, in any layout, after well-formed lines -/
theorem reject_line (cfg : Cfg) (ign : Bool) (ℓ : Layout) (ls : List ALine) (ll : LineLayout) (toks : List Bytes) (R : Bytes)
    (c : ErrClass) (hp : GoodPrefix cfg ℓ ls) (hll : ll.ok = true) (hne : toks ≠ []) (htok : ∀ t ∈ toks, tokenOK t = true)
    (hshort : (ll.content toks).length + 1 < maxTokenSize)
    (hd : ∀ inc file lineNo (st : St), st.dict = (stateAfter ls).2 →
      dispatch cfg ign inc file lineNo (stateAfter ls).1 st toks = .fail (.decl c file lineNo) st) :
    (parseText cfg ign (textOfLines ℓ ls ++ ll.content toks ++ 10 :: R)).1
      = some (.decl c [] ((physFrom ℓ 0 ls).length + 1)) := by
  apply reject_after_lines cfg ign ℓ ls _ R c hp (clean_content ll toks hll htok) hshort
  intro inc file lineNo st hst
  rw [stepLine_tokens cfg ign inc file lineNo _ st ll toks hll hne htok]
  exact hd inc file lineNo st hst

/-- fix #13: a component that does not fit Go's int makes `parseOID` return nil -/
theorem oidLoop_overflow (cfg : Cfg) (hc : cfg.oidOverflowRejected = true) (ds rest : Bytes) (done : List Int) (cur : Nat)
    (hd : ds.all isDigit = true) (hcur : cur < 2 ^ 63) (hv : 2 ^ 63 ≤ ds.foldl decStep cur) :
    oidLoop cfg (ds ++ rest) done (cur : Int) = none := by
  induction ds generalizing cur with
  | nil => simp at hv; omega
  | cons d ds ih =>
    simp only [List.all_cons, Bool.and_eq_true] at hd
    simp only [List.foldl_cons] at hv
    have hlt := digitVal_lt d hd.1
    rw [List.cons_append, oidLoop.eq_def]
    simp only [(isDigit_ne hd.1).2.2, Bool.false_eq_true, if_false, hd.1, if_true]
    by_cases hov : decStep cur d < 2 ^ 63
    · rw [oidStep_ok cfg cur d hd.1 hov]
      exact ih _ hd.2 hov hv
    · have : oidStep cfg (cur : Int) d = none := by
        unfold decStep at hov
        have : (cur : Int) > (maxInt64 - (digitVal d : Int)) / 10 := by
          unfold maxInt64; omega
        simp [oidStep, hc, this]
      rw [this]

theorem parseOID_overflow_first (cfg : Cfg) (hc : cfg.oidOverflowRejected = true) (n : Nat) (rest : Bytes) (h : 2 ^ 63 ≤ n) :
    parseOID cfg (showDec n ++ rest) = none := by
  obtain ⟨d, ds, hs, hdig⟩ := showDec_head_digit n
  have hspec := showDec_spec n
  rw [hs] at hspec ⊢
  simp only [List.all_cons, Bool.and_eq_true, List.foldl_cons] at hspec
  simp only [List.cons_append, parseOID, hdig, if_true]
  have hlt := digitVal_lt d hdig
  have h0 : decStep 0 d < 2 ^ 63 := by unfold decStep; omega
  have hstep := oidStep_ok cfg 0 d hdig h0
  simp only [Int.natCast_zero] at hstep
  simp only [hstep]
  exact oidLoop_overflow cfg hc ds rest [] _ hspec.1.2 h0 (by rw [hspec.2.2]; exact h)


theorem attrLine_tokens_ok (m : List Bool) (a : AAttr) (field : Bytes) (ha : a.ok = true) (hfield : tokenOK field = true) :
    ∀ t ∈ [kwATTRIBUTE, a.name, showOID a.oid, typeToken m a, field], tokenOK t = true := by
  have h := attrTokens_ok m a ha
  intro t ht
  simp only [List.mem_cons, List.not_mem_nil, or_false] at ht
  rcases ht with rfl | rfl | rfl | rfl | rfl
  · decide
  · exact h _ (by simp [attrTokens])
  · exact h _ (by simp [attrTokens])
  · exact h _ (by simp [attrTokens])
  · exact hfield

theorem stepLine_attr_identical (cfg : Cfg) (inc : IncludeHandler) (file : Bytes) (lineNo : Nat) (vb : Option Bytes) (st : St)
    (ll : LineLayout) (a : AAttr) (hll : ll.ok = true) (h : a.ok = true)
    (hdup : attributeByName (scopeAttrs st.dict vb) a.name = some a.toAttribute) :
    stepLine cfg true inc file lineNo vb st (ll.content (attrTokens ll.caseMask a)) = .next vb st := by
  rw [stepLine_tokens cfg true inc file lineNo vb st ll _ hll (by simp [attrTokens]) (attrTokens_ok _ a h)]
  have hp := parseAttribute_tokens cfg ll.caseMask a h
  have hn := toAttribute_name a
  cases hf : a.flags with
  | nil =>
    simp only [hf, List.isEmpty_nil, if_true] at hp
    simp [dispatch, attrTokens, hf, hp, hn, hdup]
  | cons f fs =>
    simp only [hf, List.isEmpty_cons, Bool.false_eq_true, if_false] at hp
    simp only [attrTokens, hf, List.isEmpty_cons, Bool.false_eq_true, if_false, List.cons_append, List.nil_append]
    generalize Spec.intercalate 44 (List.map flagToken (f :: fs)) = x at hp ⊢
    simp [dispatch, hp, hn, hdup]

/-! ### what `toDictionary` lists -/

def vkey (v : Vendor) : Bytes × Int := (v.name, v.number)

theorem modifyVendor_keys (n : Bytes) (f : Vendor → Vendor) (hf : ∀ v, vkey (f v) = vkey v) (vs : List Vendor) :
    (modifyVendor n f vs).map vkey = vs.map vkey := by
  induction vs with
  | nil => rfl
  | cons v vs ih =>
    simp only [modifyVendor]
    split
    · simp [hf]
    · simp [ih]

theorem addItem_block (n : Bytes) (d : Dictionary) (i : Item) :
    (addItem (some n) d i).attributes = d.attributes ∧ (addItem (some n) d i).values = d.values ∧
    (addItem (some n) d i).vendors.map vkey = d.vendors.map vkey := by
  cases i with
  | attr a =>
    refine ⟨rfl, rfl, ?_⟩
    simp only [addItem, addAttr]
    apply modifyVendor_keys
    intro v; rfl
  | value v =>
    refine ⟨rfl, rfl, ?_⟩
    simp only [addItem, addValue]
    apply modifyVendor_keys
    intro v; rfl

theorem foldl_addItem_block (n : Bytes) (items : List Item) (d : Dictionary) :
    (items.foldl (addItem (some n)) d).attributes = d.attributes ∧ (items.foldl (addItem (some n)) d).values = d.values ∧
    (items.foldl (addItem (some n)) d).vendors.map vkey = d.vendors.map vkey := by
  induction items generalizing d with
  | nil => exact ⟨rfl, rfl, rfl⟩
  | cons i is ih =>
    have h1 := addItem_block n d i
    have h2 := ih (addItem (some n) d i)
    simp only [List.foldl_cons]
    exact ⟨h2.1.trans h1.1, h2.2.1.trans h1.2.1, h2.2.2.trans h1.2.2⟩

def topAttr : Decl → Option Attribute
  | .item (.attr a) => some a.toAttribute
  | _ => none
def topValue : Decl → Option Value
  | .item (.value v) => some v.toValue
  | _ => none
def topVendor : Decl → Option (Bytes × Int)
  | .vendor v => some (v.name, v.number)
  | _ => none

theorem foldl_addDecl_lists (ad : AD) (d : Dictionary) :
    (ad.foldl addDecl d).attributes = d.attributes ++ ad.filterMap topAttr ∧
    (ad.foldl addDecl d).values = d.values ++ ad.filterMap topValue ∧
    (ad.foldl addDecl d).vendors.map vkey = d.vendors.map vkey ++ ad.filterMap topVendor := by
  induction ad generalizing d with
  | nil => simp
  | cons x xs ih =>
    have h := ih (addDecl d x)
    simp only [List.foldl_cons]
    cases x with
    | item i =>
      cases i with
      | attr a =>
        refine ⟨?_, ?_, ?_⟩
        · rw [h.1]; simp [addDecl, addItem, addAttr, topAttr, List.filterMap_cons]
        · rw [h.2.1]; simp [addDecl, addItem, addAttr, topValue, List.filterMap_cons]
        · rw [h.2.2]; simp [addDecl, addItem, addAttr, topVendor, List.filterMap_cons]
      | value v =>
        refine ⟨?_, ?_, ?_⟩
        · rw [h.1]; simp [addDecl, addItem, addValue, topAttr, List.filterMap_cons]
        · rw [h.2.1]; simp [addDecl, addItem, addValue, topValue, List.filterMap_cons]
        · rw [h.2.2]; simp [addDecl, addItem, addValue, topVendor, List.filterMap_cons]
    | vendor v =>
      refine ⟨?_, ?_, ?_⟩
      · rw [h.1]; simp [addDecl, topAttr, List.filterMap_cons]
      · rw [h.2.1]; simp [addDecl, topValue, List.filterMap_cons]
      · rw [h.2.2]; simp [addDecl, topVendor, List.filterMap_cons, vkey, AVendor.toVendor, List.filterMap_cons]
    | block n items =>
      have hb := foldl_addItem_block n items d
      refine ⟨?_, ?_, ?_⟩
      · rw [h.1]; simp [addDecl, hb.1, topAttr, List.filterMap_cons]
      · rw [h.2.1]; simp [addDecl, hb.2.1, topValue, List.filterMap_cons]
      · rw [h.2.2]; simp [addDecl, hb.2.2, topVendor, List.filterMap_cons]

theorem toDictionary_attributes' (ad : AD) :
    (toDictionary ad).attributes = ad.filterMap fun
      | .item (.attr a) => some a.toAttribute
      | _ => none := by
  have := (foldl_addDecl_lists ad {}).1
  have hf : (fun (x : Decl) => match x with
      | .item (.attr a) => some a.toAttribute
      | _ => none) = topAttr := by
    funext x
    cases x with
    | item i => cases i <;> rfl
    | vendor v => rfl
    | block n is => rfl
  rw [hf]
  simpa [toDictionary] using this

theorem toDictionary_values' (ad : AD) :
    (toDictionary ad).values = ad.filterMap fun
      | .item (.value v) => some v.toValue
      | _ => none := by
  have := (foldl_addDecl_lists ad {}).2.1
  have hf : (fun (x : Decl) => match x with
      | .item (.value v) => some v.toValue
      | _ => none) = topValue := by
    funext x
    cases x with
    | item i => cases i <;> rfl
    | vendor v => rfl
    | block n is => rfl
  rw [hf]
  simpa [toDictionary] using this

theorem toDictionary_vendors' (ad : AD) :
    (toDictionary ad).vendors.map (fun v => (v.name, v.number)) = ad.filterMap fun
      | .vendor v => some (v.name, v.number)
      | _ => none := by
  have := (foldl_addDecl_lists ad {}).2.2
  have hf : (fun (x : Decl) => match x with
      | .vendor v => some (v.name, v.number)
      | _ => none) = topVendor := by
    funext x
    cases x with
    | item i => cases i <;> rfl
    | vendor v => rfl
    | block n is => rfl
  rw [hf]
  have hk : (fun (v : Vendor) => (v.name, v.number)) = vkey := rfl
  rw [hk]
  simpa [toDictionary] using this


end RV.DictParser
