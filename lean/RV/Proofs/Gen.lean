/- helper lemmas of C17 (generator model), collected -/
import RV.Proofs.GenBasic
import RV.Proofs.GenOrder
import RV.Proofs.GenShape
import RV.Proofs.GenImports
import RV.Proofs.GenUnique
import RV.Proofs.GenPerm
import RV.Proofs.GenAudit
import RV.Proofs.GenAudit2
import RV.Proofs.GenAudit3
