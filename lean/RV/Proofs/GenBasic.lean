/-
  Helper lemmas for the generator model (C17): stable insertion sort, identifier alphabet.
  Core Lean only.
-/
import RV.Model.Gen
namespace RV.Gen
open RV.Dict

/-! ### sortStable -/

theorem insertStable_perm {α} (less : α → α → Bool) (a : α) (l : List α) : (insertStable less a l).Perm (a :: l) := by
  induction l with
  | nil => exact List.Perm.refl _
  | cons b l ih =>
    unfold insertStable
    split
    · exact ((List.Perm.cons b ih).trans (List.Perm.swap a b l))
    · exact List.Perm.refl _

theorem sortStable_perm {α} (less : α → α → Bool) (l : List α) : (sortStable less l).Perm l := by
  induction l with
  | nil => exact List.Perm.refl _
  | cons a l ih =>
    unfold sortStable
    exact (insertStable_perm less a _).trans (List.Perm.cons a ih)

theorem mem_sortStable {α} (less : α → α → Bool) (l : List α) (a : α) : a ∈ sortStable less l ↔ a ∈ l :=
  (sortStable_perm less l).mem_iff

theorem insertStable_pairwise {α} (less : α → α → Bool)
    (hasym : ∀ a b, less a b = true → less b a = false)
    (htrans : ∀ a b c, less b a = false → less c b = false → less c a = false)
    (a : α) (l : List α) (hl : l.Pairwise (fun a b => less b a = false)) :
    (insertStable less a l).Pairwise (fun a b => less b a = false) := by
  induction l with
  | nil => simp [insertStable]
  | cons b l ih =>
    unfold insertStable
    rw [List.pairwise_cons] at hl
    split
    · rename_i hba
      rw [List.pairwise_cons]
      refine ⟨?_, ih hl.2⟩
      intro c hc
      rcases List.mem_cons.mp ((insertStable_perm less a l).mem_iff.mp hc) with hc | hc
      · subst hc
        exact hasym _ _ hba
      · exact hl.1 c hc
    · rename_i hba
      have hba : less b a = false := by simpa using hba
      rw [List.pairwise_cons]
      refine ⟨?_, List.pairwise_cons.mpr hl⟩
      intro c hc
      cases hc with
      | head => exact hba
      | tail _ hc => exact htrans a b c hba (hl.1 c hc)

/-- sorted: no later element is `less` than an earlier one -/
theorem sortStable_pairwise {α} (less : α → α → Bool)
    (hasym : ∀ a b, less a b = true → less b a = false)
    (htrans : ∀ a b c, less b a = false → less c b = false → less c a = false)
    (l : List α) : (sortStable less l).Pairwise (fun a b => less b a = false) := by
  induction l with
  | nil => simp [sortStable]
  | cons a l ih =>
    unfold sortStable
    exact insertStable_pairwise less hasym htrans a _ ih

/-- a `less` that never holds leaves the list alone -/
theorem sortStable_of_never {α} (less : α → α → Bool) (l : List α) (h : ∀ a b, less a b = false) : sortStable less l = l := by
  induction l with
  | nil => rfl
  | cons a l ih =>
    unfold sortStable
    rw [ih]
    cases l with
    | nil => rfl
    | cons b l => simp [insertStable, h]

/-- permuted inputs sort to the same list when `less` is a strict order that separates distinct elements -/
theorem sortStable_eq_of_perm {α} (less : α → α → Bool)
    (hasym : ∀ a b, less a b = true → less b a = false)
    (htrans : ∀ a b c, less b a = false → less c b = false → less c a = false)
    {l₁ l₂ : List α} (hp : l₁.Perm l₂)
    (hanti : ∀ a ∈ l₁, ∀ b ∈ l₁, less a b = false → less b a = false → a = b) :
    sortStable less l₁ = sortStable less l₂ := by
  have h1 := sortStable_pairwise less hasym htrans l₁
  have h2 := sortStable_pairwise less hasym htrans l₂
  have hperm : (sortStable less l₁).Perm (sortStable less l₂) :=
    (sortStable_perm less l₁).trans (hp.trans (sortStable_perm less l₂).symm)
  refine List.Perm.eq_of_pairwise (le := fun a b => less b a = false) ?_ h1 h2 hperm
  intro a b ha hb hab hba
  have ha' : a ∈ l₁ := (mem_sortStable less l₁ a).mp ha
  have hb' : b ∈ l₁ := hp.mem_iff.mpr ((mem_sortStable less l₂ b).mp hb)
  exact hanti a ha' b hb' hba hab

/-! ### identifier -/

theorem toUpper_alnum (b : UInt8) (h : isAlnum b = true) : isAlnum (toUpper b) = true := by
  unfold toUpper
  split
  · rename_i hl
    have : isUpper (b - 32) = true := by
      simp only [isLower, isUpper, Bool.and_eq_true, decide_eq_true_eq, UInt8.le_iff_toNat_le] at hl ⊢
      have h32 : (32 : UInt8) ≤ b := by rw [UInt8.le_iff_toNat_le]; have := hl.1; simp at this ⊢; omega
      rw [UInt8.toNat_sub_of_le _ _ h32]
      simp at hl ⊢
      omega
    simp [isAlnum, this]
  · exact h

theorem fieldsAux_alnum (s cur : Bytes) (hcur : ∀ c ∈ cur, isAlnum c = true) :
    ∀ f ∈ fieldsAux s cur, ∀ c ∈ f, isAlnum c = true := by
  induction s generalizing cur with
  | nil =>
    intro f hf c hc
    unfold fieldsAux at hf
    split at hf
    · cases hf
    · rw [List.mem_singleton] at hf
      subst hf
      exact hcur c (List.mem_reverse.mp hc)
  | cons b r ih =>
    intro f hf c hc
    unfold fieldsAux at hf
    split at hf
    · rename_i hb
      refine ih (b :: cur) ?_ f hf c hc
      intro x hx
      rcases List.mem_cons.mp hx with hx | hx
      · subst hx; exact hb
      · exact hcur x hx
    · split at hf
      · exact ih [] (by intro x hx; cases hx) f hf c hc
      · rcases List.mem_cons.mp hf with hf | hf
        · subst hf
          exact hcur c (List.mem_reverse.mp hc)
        · exact ih [] (by intro x hx; cases hx) f hf c hc

theorem fieldIdent_alnum (f : Bytes) (hf : ∀ c ∈ f, isAlnum c = true) : ∀ c ∈ fieldIdent f, isAlnum c = true := by
  intro c hc
  unfold fieldIdent at hc
  simp only at hc
  split at hc
  · obtain ⟨x, hx, rfl⟩ := List.mem_map.mp hc
    exact toUpper_alnum x (hf x hx)
  · cases f with
    | nil => cases hc
    | cons b r =>
      unfold title at hc
      rcases List.mem_cons.mp hc with hc | hc
      · subst hc; exact toUpper_alnum b (hf b (List.mem_cons_self ..))
      · exact hf c (List.mem_cons_of_mem _ hc)

theorem identifier_alnum (name : Bytes) : ∀ c ∈ identifier name, isAlnum c = true := by
  intro c hc
  cases name with
  | nil => cases hc
  | cons b r =>
    unfold identifier at hc
    simp only at hc
    obtain ⟨l, hl, hcl⟩ := List.mem_flatten.mp hc
    obtain ⟨f, hf, rfl⟩ := List.mem_map.mp hl
    exact fieldIdent_alnum f (fieldsAux_alnum _ [] (by intro x hx; cases hx) f hf) c hcl

end RV.Gen
