/-
  Helper lemmas for C02: the checked mirror (RV/Model/Checked.lean) never faults and computes what
  the total models compute.
-/
import RV.Model.Checked
import RV.Proofs.Wire
import RV.Proofs.Password
import RV.Proofs.Codec
namespace RV
namespace Checked

/-! ### the loop rule -/

/-- Hoare rule for `forLoop` with exceptional exits: if the invariant holds at entry, every
    iteration re-establishes it or exits with an outcome satisfying `Post`, and a normal exit
    satisfies `Post`, then the outcome of the loop satisfies `Post`. -/
theorem forLoop_rule {σ : Type} (step : Nat) (hstep : 0 < step) (hi : Nat) (body : Nat → σ → Res σ)
    (Inv : Nat → σ → Prop) (Post : Res σ → Prop)
    (hok : ∀ i s s', i < hi → Inv i s → body i s = .ok s' → Inv (i + step) s')
    (herr : ∀ i s, i < hi → Inv i s → body i s = .err → Post .err)
    (hfault : ∀ i s, i < hi → Inv i s → body i s = .fault → Post .fault)
    (hexit : ∀ i s, hi ≤ i → Inv i s → Post (.ok s))
    (i : Nat) (s : σ) (h0 : Inv i s) : Post (forLoop step hstep hi body i s) := by
  induction hn : hi - i using Nat.strongRecOn generalizing i s with
  | _ n ih =>
    unfold forLoop
    by_cases hlt : i < hi
    · rw [if_pos hlt]
      cases hb : body i s with
      | ok s' =>
        exact ih (hi - (i + step)) (by omega) (i + step) s' (hok i s s' hlt h0 hb) rfl
      | err => exact herr i s hlt h0 hb
      | fault => exact hfault i s hlt h0 hb
    · rw [if_neg hlt]; exact hexit i s (by omega) h0

theorem forLoop_exit {σ : Type} (step : Nat) (hstep : 0 < step) (hi : Nat) (body : Nat → σ → Res σ)
    (i : Nat) (s : σ) (h : hi ≤ i) : forLoop step hstep hi body i s = .ok s := by
  unfold forLoop; rw [if_neg (by omega)]

theorem forLoop_step {σ : Type} (step : Nat) (hstep : 0 < step) (hi : Nat) (body : Nat → σ → Res σ)
    (i : Nat) (s s' : σ) (h : i < hi) (hb : body i s = .ok s') :
    forLoop step hstep hi body i s = forLoop step hstep hi body (i + step) s' := by
  rw [forLoop, if_pos h, hb]

/-! ### primitives -/

theorem getD_cons_zero (x : UInt8) (xs : Bytes) : (x :: xs).getD 0 0 = x := rfl
theorem getD_cons_succ (x : UInt8) (xs : Bytes) (i : Nat) : (x :: xs).getD (i + 1) 0 = xs.getD i 0 := rfl

theorem goCopy_zeros (a : Bytes) (n : Nat) (h : a.length = n) : goCopy (zeros n) a = a := by
  simp [goCopy, zeros, ← h]

theorem goCopy_zeros_short (a : Bytes) (n : Nat) (h : a.length ≤ n) :
    goCopy (zeros n) a = a ++ zeros (n - a.length) := by
  simp [goCopy, zeros, List.take_of_length_le h]

theorem be16_eq (a : Bytes) (h : a.length = 2) : be16 a = .ok (beNat a) := by
  match a, h with
  | [x, y], _ => simp [be16, idx, beNat]; omega

theorem be32_eq (a : Bytes) (h : a.length = 4) : be32 a = .ok (beNat a) := by
  match a, h with
  | [x, y, z, w], _ => simp [be32, idx, beNat]; omega

theorem be64_eq (a : Bytes) (h : a.length = 8) : be64 a = .ok (beNat a) := by
  match a, h with
  | [a0, a1, a2, a3, a4, a5, a6, a7], _ => simp [be64, idx, beNat]; omega

/-! ### ParseAttributes -/

theorem parseStep_short (b : Bytes) (h : b.length < 2) : parseStep b = .err := by
  unfold parseStep; rw [if_pos h]

theorem parseStep_cons (t l : UInt8) (rest : Bytes) :
    parseStep (t :: l :: rest) =
      if l.toNat < minAttrLength ∨ l.toNat - 2 > rest.length then .err
      else .ok (⟨t.toNat, rest.take (l.toNat - 2)⟩, rest.drop (l.toNat - 2)) := by
  have hl := u8_lt l
  have e1 : (t :: l :: rest).getD 1 0 = l := rfl
  have e0 : (t :: l :: rest).getD 0 0 = t := rfl
  have elen : (t :: l :: rest).length = rest.length + 2 := rfl
  unfold parseStep
  rw [if_neg (by simp), idx_ok (by simp), Res.ok_bind, e1, elen]
  simp only [minAttrLength]
  by_cases hg : l.toNat < 2 ∨ l.toNat - 2 > rest.length
  · rw [if_pos hg, if_pos (by omega)]
  · rw [if_neg hg, if_neg (by omega), idx_ok (by simp), Res.ok_bind, sliceFrom_ok (by rw [elen]; omega), e0]
    have hd : List.drop l.toNat (t :: l :: rest) = rest.drop (l.toNat - 2) := by
      have : l.toNat = (l.toNat - 2) + 1 + 1 := by omega
      rw [this]; simp
    split
    · rw [slice_ok (by omega) (by rw [elen]; omega)]
      simp [hd]
    · have : l.toNat - 2 = 0 := by omega
      simp [hd, this]

theorem parseAttrsLoop_eq (b : Bytes) (acc : Attrs) :
    parseAttrsLoop b acc =
      match RV.parseAttrs b with
      | .ok as => .ok (acc ++ as)
      | .err => .err
      | .fault => .fault := by
  fun_induction RV.parseAttrs b generalizing acc with
  | case1 => unfold parseAttrsLoop; simp
  | case2 x =>
    unfold parseAttrsLoop
    simp only [List.length_cons, List.length_nil, gt_iff_lt, Nat.zero_lt_succ, if_true]
    split
    · rename_i hs; rw [parseStep_short _ (by simp)] at hs; cases hs
    · rfl
    · rename_i hs; rw [parseStep_short _ (by simp)] at hs; cases hs
  | case3 t l rest hg =>
    unfold parseAttrsLoop
    simp only [List.length_cons, gt_iff_lt, Nat.zero_lt_succ, if_true]
    split
    · rename_i hs; rw [parseStep_cons, if_pos hg] at hs; cases hs
    · rfl
    · rename_i hs; rw [parseStep_cons, if_pos hg] at hs; cases hs
  | case4 t l rest hg as has ih =>
    unfold parseAttrsLoop
    simp only [List.length_cons, gt_iff_lt, Nat.zero_lt_succ, if_true]
    split
    · rename_i avp r hs
      rw [parseStep_cons, if_neg hg] at hs
      cases hs
      rw [ih, has]; simp
    · rename_i hs; rw [parseStep_cons, if_neg hg] at hs; cases hs
    · rename_i hs; rw [parseStep_cons, if_neg hg] at hs; cases hs
  | case5 t l rest hg has ih =>
    unfold parseAttrsLoop
    simp only [List.length_cons, gt_iff_lt, Nat.zero_lt_succ, if_true]
    split
    · rename_i avp r hs
      rw [parseStep_cons, if_neg hg] at hs
      cases hs
      rw [ih, has]
    · rfl
    · rename_i hs; rw [parseStep_cons, if_neg hg] at hs; cases hs
  | case6 t l rest hg has ih =>
    exact absurd has (parseAttrs_ne_fault _)

/-- refinement: the checked attribute parser computes exactly the total model -/
theorem parseAttrs_eq (b : Bytes) : parseAttrs b = RV.parseAttrs b := by
  unfold parseAttrs
  rw [parseAttrsLoop_eq]
  cases RV.parseAttrs b <;> simp

theorem parseAttrs_ne_fault' (b : Bytes) : parseAttrs b ≠ .fault := by
  rw [parseAttrs_eq]; exact parseAttrs_ne_fault b

/-- quantitative bound: every attribute consumes at least two input bytes -/
theorem parseAttrs_count (b : Bytes) (as : Attrs) (h : RV.parseAttrs b = .ok as) :
    2 * as.length ≤ b.length := by
  fun_induction RV.parseAttrs b generalizing as with
  | case1 => cases h; simp
  | case2 => cases h
  | case3 => cases h
  | case4 t l rest hg as' has ih =>
    cases h
    have := ih as' has
    simp only [List.length_drop, List.length_cons] at this ⊢
    omega
  | case5 => cases h
  | case6 => cases h

/-- sharper: the attribute values plus two header bytes each add up to the input length exactly -/
theorem parseAttrs_bytes (b : Bytes) (as : Attrs) (h : RV.parseAttrs b = .ok as) :
    (as.map (fun a => 2 + a.val.length)).sum = b.length := by
  fun_induction RV.parseAttrs b generalizing as with
  | case1 => cases h; simp
  | case2 => cases h
  | case3 => cases h
  | case4 t l rest hg as' has ih =>
    cases h
    have := ih as' has
    simp only [minAttrLength] at hg
    simp only [List.map_cons, List.sum_cons, this, List.length_drop, List.length_cons, List.length_take]
    omega
  | case5 => cases h
  | case6 => cases h

/-! ### Parse -/

theorem parse_eq (b secret : Bytes) : parse b secret = RV.parse b secret := by
  unfold parse RV.parse
  by_cases h20 : b.length < minPacketLength
  · rw [if_pos h20, if_pos h20]
  · have h20' : ¬ b.length < 20 := h20
    rw [if_neg h20', if_neg h20, slice_ok (by omega) (by omega), Res.ok_bind]
    have hlf : be16 (List.take (4 - 2) (List.drop 2 b)) = .ok (lengthField b) := by
      rw [be16_eq _ (by simp; omega)]
      rcases b with _ | ⟨b0, _ | ⟨b1, _ | ⟨b2, _ | ⟨b3, rest⟩⟩⟩⟩
      all_goals simp at h20'
      simp [lengthField, beNat, RV.be16]
    rw [hlf, Res.ok_bind]
    simp only []
    by_cases hg : lengthField b < minPacketLength ∨ lengthField b > maxPacketLength ∨ b.length < lengthField b
    · rw [if_pos hg, if_pos hg]
    · rw [if_neg hg, if_neg hg]
      simp only [minPacketLength] at hg
      rw [slice_ok (by omega) (by omega), Res.ok_bind, parseAttrs_eq, ← List.drop_take]
      cases RV.parseAttrs (List.drop 20 (List.take (lengthField b) b)) with
      | ok as =>
        simp only [Res.ok_bind]
        rw [idx_ok (by omega), Res.ok_bind, idx_ok (by omega), Res.ok_bind,
          slice_ok (by omega) (by omega), Res.ok_bind]
        rfl
      | err => rfl
      | fault => rfl

theorem parse_ne_fault' (b s : Bytes) : parse b s ≠ .fault := by
  rw [parse_eq]; exact parse_ne_fault b s

/-! ### predicates -/

theorem isAuthenticResponse_eq (H : Hash) (response request secret : Bytes) :
    isAuthenticResponse H response request secret = .ok (RV.isAuthenticResponse H response request secret) := by
  unfold isAuthenticResponse RV.isAuthenticResponse
  by_cases hg : response.length < 20 ∨ request.length < 20 ∨ secret.length = 0
  · rw [if_pos hg, if_pos hg]; rfl
  · rw [if_neg hg, if_neg hg, sliceTo_ok (by omega), Res.ok_bind, slice_ok (by omega) (by omega), Res.ok_bind,
      sliceFrom_ok (by omega), Res.ok_bind, slice_ok (by omega) (by omega), Res.ok_bind]
    rfl

theorem isAuthenticRequest_eq (H : Hash) (request secret : Bytes) :
    isAuthenticRequest H request secret = .ok (RV.isAuthenticRequest H request secret) := by
  unfold isAuthenticRequest RV.isAuthenticRequest
  by_cases hg : request.length < 20 ∨ secret.length = 0
  · rw [if_pos hg, if_pos hg]; rfl
  · rw [if_neg hg, if_neg hg, idx_ok (by omega), Res.ok_bind]
    unfold requestClass
    by_cases h1 : (request.getD 0 0).toNat = 1 ∨ (request.getD 0 0).toNat = 12
    · rw [if_pos h1, if_pos h1]; rfl
    · rw [if_neg h1, if_neg h1]
      by_cases h2 : (request.getD 0 0).toNat = 4 ∨ (request.getD 0 0).toNat = 40 ∨ (request.getD 0 0).toNat = 43
      · rw [if_pos h2, if_pos h2, sliceTo_ok (by omega), Res.ok_bind,
          sliceFrom_ok (by omega), Res.ok_bind, slice_ok (by omega) (by omega), Res.ok_bind]
        rfl
      · rw [if_neg h2, if_neg h2]; rfl

/-! ### typed decoders -/

theorem integer_eq (a : Bytes) : integer a = RV.integer a := by
  unfold integer RV.integer; split
  · rfl
  · rw [be32_eq a (by omega)]

theorem integer64_eq (a : Bytes) : integer64 a = RV.integer64 a := by
  unfold integer64 RV.integer64; split
  · rfl
  · rw [be64_eq a (by omega)]

theorem short_eq (a : Bytes) : short a = RV.short a := by
  unfold short RV.short; split
  · rfl
  · rw [be16_eq a (by omega)]

theorem bytesOf_eq (a : Bytes) : bytesOf a = RV.bytesOf a := goCopy_zeros a _ rfl

theorem ipAddr_eq (a : Bytes) : ipAddr a = RV.ipAddr a := by
  unfold ipAddr RV.ipAddr; split
  · rfl
  · rw [goCopy_zeros a 4 (by omega)]; rfl

theorem ipv6Addr_eq (a : Bytes) : ipv6Addr a = RV.ipv6Addr a := by
  unfold ipv6Addr RV.ipv6Addr; split
  · rfl
  · rw [goCopy_zeros a 16 (by omega)]; rfl

theorem ifid_eq (a : Bytes) : ifid a = RV.ifid a := by
  unfold ifid RV.ifid; split
  · rfl
  · rw [goCopy_zeros a _ rfl]; rfl

theorem date_eq (a : Bytes) : date a = RV.date a := by
  unfold date RV.date; split
  · rfl
  · rw [be32_eq a (by omega)]; rfl

theorem vendorSpecific_eq (a : Bytes) : vendorSpecific a = RV.vendorSpecific a := by
  unfold vendorSpecific RV.vendorSpecific; split
  · rfl
  · rw [sliceTo_ok (by omega), Res.ok_bind, be32_eq _ (by simp; omega), Res.ok_bind, sliceFrom_ok (by omega),
      Res.ok_bind, goCopy_zeros _ _ (by simp)]
    rfl

theorem tlv_eq (a : Bytes) : tlv a = RV.tlv a := by
  unfold tlv RV.tlv
  by_cases h1 : a.length < 3 ∨ a.length > 255
  · rw [if_pos h1, if_pos (by omega)]
  · rw [if_neg h1, idx_ok (by omega), Res.ok_bind]
    by_cases h2 : (a.getD 1 0).toNat ≠ a.length
    · rw [if_pos h2, if_pos (by omega)]
    · rw [if_neg h2, if_neg (by omega), idx_ok (by omega), Res.ok_bind, sliceFrom_ok (by omega), Res.ok_bind,
        goCopy_zeros _ _ (by simp)]
      rfl

/-! ### UserPassword -/

theorem xorRange_eq (base : Nat) (blk : Bytes) : ∀ (pre h : Bytes) (j : Nat), base + j = pre.length →
    blk.length ≤ h.length →
    xorRange base blk j (pre ++ h) = .ok (pre ++ xorBytes (h.take blk.length) blk ++ h.drop blk.length) := by
  induction blk with
  | nil => intro pre h j _ _; simp [xorRange]
  | cons b bs ih =>
    intro pre h j hj hl
    cases h with
    | nil => simp at hl
    | cons x hs =>
      simp only [List.length_cons, Nat.add_le_add_iff_right] at hl
      have hget : (pre ++ x :: hs).getD (base + j) 0 = x := by
        rw [hj]; simp
      have hset : (pre ++ x :: hs).set (base + j) (x ^^^ b) = (pre ++ [x ^^^ b]) ++ hs := by
        rw [hj]; simp
      unfold xorRange
      rw [idx_ok (by simp; omega), Res.ok_bind, store_ok _ (by simp; omega), Res.ok_bind, hget, hset,
        ih (pre ++ [x ^^^ b]) hs (j + 1) (by simp; omega) hl]
      simp

theorem xorRange_block (base : Nat) (blk pre h : Bytes) (j : Nat) (hj : base + j = pre.length)
    (hl : h.length = blk.length) : xorRange base blk j (pre ++ h) = .ok (pre ++ xorBytes h blk) := by
  rw [xorRange_eq base blk pre h j hj (by omega), ← hl]; simp

theorem indexByte_some (b : Bytes) (c : UInt8) (i : Nat) (h : indexByte b c = some i) :
    i ≤ b.length ∧ b.take i = b.takeWhile (· ≠ c) := by
  induction b generalizing i with
  | nil => simp [indexByte] at h
  | cons x xs ih =>
    unfold indexByte at h
    split at h
    · cases h; rename_i hx; simp [hx]
    · rename_i hx
      cases hr : indexByte xs c with
      | none => rw [hr] at h; simp at h
      | some k =>
        rw [hr] at h; simp at h; subst h
        have := ih k hr
        refine ⟨by simp; exact this.1, ?_⟩
        rw [List.takeWhile_cons]
        simp [hx]
        simpa using this.2

theorem indexByte_none (b : Bytes) (c : UInt8) (h : indexByte b c = none) : b.takeWhile (· ≠ c) = b := by
  induction b with
  | nil => rfl
  | cons x xs ih =>
    unfold indexByte at h
    split at h
    · cases h
    · rename_i hx
      cases hr : indexByte xs c with
      | none =>
        rw [List.takeWhile_cons]
        simp [hx]
        simpa using ih hr
      | some k => rw [hr] at h; simp at h

theorem cut_eq (dec : Bytes) :
    (match indexByte dec 0 with
     | some i => sliceTo dec i
     | none => (pure dec : Res Bytes)) = .ok (cutAtNul dec) := by
  unfold cutAtNul
  cases h : indexByte dec 0 with
  | none => simp only []; rw [indexByte_none dec 0 h]; rfl
  | some i =>
    have := indexByte_some dec 0 i h
    simp only []
    rw [sliceTo_ok this.1, this.2]

theorem userPassword_eq (H : Hash) (hH : ∀ x, (H x).length = 16) (a secret ra : Bytes) :
    userPassword H a secret ra = RV.userPassword H a secret ra := by
  unfold userPassword RV.userPassword
  by_cases h1 : a.length < 16 ∨ a.length > 128 ∨ a.length % 16 ≠ 0
  · rw [if_pos h1, if_pos h1]
  rw [if_neg h1, if_neg h1]
  by_cases h2 : secret.length = 0
  · rw [if_pos h2, if_pos h2]
  rw [if_neg h2, if_neg h2]
  by_cases h3 : ra.length ≠ 16
  · rw [if_pos h3, if_pos h3]
  rw [if_neg h3, if_neg h3, sliceTo_ok (by omega), Res.ok_bind]
  have ht : (a.take 16).length = 16 := by simp; omega
  have hx := xorRange_block 0 (a.take 16) [] (H (secret ++ ra)) 0 rfl (by rw [hH, ht])
  simp only [List.nil_append] at hx ⊢
  rw [hx, Res.ok_bind]
  have hne : a ≠ [] := by intro h; simp [h] at h1
  -- the block loop
  have hloop : forLoop 16 (by decide) a.length (fun i dec => do
      let prev ← slice a (i - 16) i
      let dec := dec ++ H (secret ++ prev)
      let blk ← slice a i (i + 16)
      xorRange i blk 0 dec) 16 (xorBytes (H (secret ++ ra)) (a.take 16)) =
      .ok (upDecLoop H secret ra a) := by
    have hbody : ∀ i dec, i < a.length → (i % 16 = 0 ∧ 16 ≤ i ∧ i ≤ a.length ∧ dec.length = i ∧
        dec ++ upDecLoop H secret ((a.drop (i - 16)).take 16) (a.drop i) = upDecLoop H secret ra a) →
        (do
          let prev ← slice a (i - 16) i
          let dec := dec ++ H (secret ++ prev)
          let blk ← slice a i (i + 16)
          xorRange i blk 0 dec) =
        .ok (dec ++ xorBytes (H (secret ++ (a.drop (i - 16)).take 16)) ((a.drop i).take 16)) := by
      intro i dec hi ⟨m16, h16, _, hlen, _⟩
      have e1 : i - (i - 16) = 16 := by omega
      have e2 : i + 16 - i = 16 := by omega
      rw [slice_ok (by omega) (by omega), Res.ok_bind, slice_ok (by omega) (by omega), Res.ok_bind, e1, e2]
      exact xorRange_block i _ dec _ 0 (by omega) (by rw [hH]; simp; omega)
    apply forLoop_rule 16 (by decide) a.length _
      (fun i dec => i % 16 = 0 ∧ 16 ≤ i ∧ i ≤ a.length ∧ dec.length = i ∧
        dec ++ upDecLoop H secret ((a.drop (i - 16)).take 16) (a.drop i) = upDecLoop H secret ra a)
      (fun r => r = .ok (upDecLoop H secret ra a))
    · intro i s s' hi hinv hb
      rw [hbody i s hi hinv] at hb
      cases hb
      obtain ⟨m16, h16, _, hlen, hfull⟩ := hinv
      refine ⟨by omega, by omega, by omega, ?_, ?_⟩
      · simp [xorBytes_length, hH, hlen]; omega
      · rw [← hfull, upDecLoop_ne H secret _ (a.drop i) (by intro h; have := congrArg List.length h; simp at this; omega)]
        have e : i + 16 - 16 = i := by omega
        simp [e]
    · intro i s hi hinv hb; rw [hbody i s hi hinv] at hb; cases hb
    · intro i s hi hinv hb; rw [hbody i s hi hinv] at hb; cases hb
    · intro i s hi ⟨_, _, h3, _, h5⟩
      have : i = a.length := by omega
      subst this
      simpa [upDecLoop_nil] using h5
    · refine ⟨rfl, Nat.le_refl _, by omega, by simp [xorBytes_length, hH]; omega, ?_⟩
      rw [upDecLoop_ne H secret ra a hne]
      simp
  rw [hloop, Res.ok_bind]
  exact cut_eq _

/-! ### TunnelPassword -/

theorem xorBytes_eq_range (l b : Bytes) (h : l.length ≤ b.length) :
    xorBytes l b = (List.range l.length).map (fun i => l.getD i 0 ^^^ b.getD i 0) := by
  induction l generalizing b with
  | nil => simp
  | cons x xs ih =>
    cases b with
    | nil => simp at h
    | cons y ys =>
      simp only [List.length_cons, Nat.add_le_add_iff_right] at h
      rw [List.length_cons, List.range_succ_eq_map, List.map_cons, List.map_map, xorBytes_cons, ih ys h]
      rfl

theorem getD_take_drop (a : Bytes) (c i n : Nat) (hi : i < n) :
    ((a.drop c).take n).getD i 0 = a.getD (c + i) 0 := by
  simp [List.getD_eq_getElem?_getD, hi]

/-- the inner `for i := 0; i < 16; i++ { plaintext[chunk*16+i] = a[chunk*16+i] ^ b[i] }` -/
theorem tpInner_eq (a b done : Bytes) (c k : Nat) (hd : done.length = c * 16) (hk : 16 ≤ k)
    (ha : c * 16 + 16 ≤ a.length) (hb : b.length = 16) :
    forLoop 1 (by decide) 16 (fun i plaintext => do
      let x ← idx a (c * 16 + i)
      let y ← idx b i
      store plaintext (c * 16 + i) (x ^^^ y)) 0 (done ++ zeros k) =
    .ok (done ++ xorBytes ((a.drop (c * 16)).take 16) b ++ zeros (k - 16)) := by
  let f : Nat → UInt8 := fun i => a.getD (c * 16 + i) 0 ^^^ b.getD i 0
  have hbody : ∀ i, i < 16 →
      (do
        let x ← idx a (c * 16 + i)
        let y ← idx b i
        store (done ++ (List.range i).map f ++ zeros (k - i)) (c * 16 + i) (x ^^^ y)) =
      .ok (done ++ (List.range (i + 1)).map f ++ zeros (k - (i + 1))) := by
    intro i hi
    rw [idx_ok (by omega), Res.ok_bind, idx_ok (by omega), Res.ok_bind, store_ok _ (by simp [zeros]; omega)]
    have hz : zeros (k - i) = 0 :: zeros (k - (i + 1)) := by
      have : k - i = (k - (i + 1)) + 1 := by omega
      rw [this]; rfl
    rw [hz, List.range_succ, List.map_append]
    have hl : (done ++ List.map f (List.range i)).length = c * 16 + i := by simp [hd]
    rw [← hl, List.set_append_right _ _ (Nat.le_refl _)]
    simp [f, hd]
  have hfin : (List.range 16).map f = xorBytes ((a.drop (c * 16)).take 16) b := by
    rw [xorBytes_eq_range _ _ (by simp; omega)]
    have : ((a.drop (c * 16)).take 16).length = 16 := by simp; omega
    rw [this]
    apply List.map_congr_left
    intro i hi
    rw [List.mem_range] at hi
    simp only [f]
    rw [getD_take_drop a _ i 16 hi]
  apply forLoop_rule 1 (by decide) 16 _
    (fun i pt => i ≤ 16 ∧ pt = done ++ (List.range i).map f ++ zeros (k - i))
    (fun r => r = .ok (done ++ xorBytes ((a.drop (c * 16)).take 16) b ++ zeros (k - 16)))
  · intro i s s' hi ⟨_, hs⟩ hb'
    subst hs
    rw [hbody i hi] at hb'
    cases hb'
    exact ⟨by omega, rfl⟩
  · intro i s hi ⟨_, hs⟩ hb'; subst hs; rw [hbody i hi] at hb'; cases hb'
  · intro i s hi ⟨_, hs⟩ hb'; subst hs; rw [hbody i hi] at hb'; cases hb'
  · intro i s hi ⟨hle, hs⟩
    have : i = 16 := by omega
    subst this
    rw [hs, hfin]
  · exact ⟨by omega, by simp⟩

/-- the chunk loop computes the total model's `tpDecLoop` -/
theorem tpChunks_eq (H : Hash) (hH : ∀ x, (H x).length = 16) (a secret ra salt : Bytes) (chunks : Nat)
    (ha : a.length = chunks * 16) :
    tpChunks H a secret ra salt chunks (zeros (chunks * 16)) = .ok (tpDecLoop H secret (ra ++ salt) a) := by
  let iv : Nat → Bytes := fun c => if c = 0 then ra ++ salt else (a.drop ((c - 1) * 16)).take 16
  let Inv : Nat → Bytes → Prop := fun c pt => c ≤ chunks ∧ ∃ done, done.length = c * 16 ∧
      pt = done ++ zeros ((chunks - c) * 16) ∧
      done ++ tpDecLoop H secret (iv c) (a.drop (c * 16)) = tpDecLoop H secret (ra ++ salt) a
  unfold tpChunks
  have hbody : ∀ c done, c < chunks → done.length = c * 16 →
      (do
        let iv ← (if c = 0 then (pure (ra ++ salt) : Res Bytes) else slice a ((c - 1) * 16) (c * 16))
        let b := H (secret ++ iv)
        forLoop 1 (by decide) 16 (fun i plaintext => do
          let x ← idx a (c * 16 + i)
          let y ← idx b i
          store plaintext (c * 16 + i) (x ^^^ y)) 0 (done ++ zeros ((chunks - c) * 16))) =
      .ok (done ++ xorBytes ((a.drop (c * 16)).take 16) (H (secret ++ iv c)) ++ zeros ((chunks - (c + 1)) * 16)) := by
    intro c done hc hd
    have hiv : (if c = 0 then (pure (ra ++ salt) : Res Bytes) else slice a ((c - 1) * 16) (c * 16)) = .ok (iv c) := by
      simp only [iv]
      split
      · rfl
      · rw [slice_ok (by omega) (by omega)]
        have : c * 16 - (c - 1) * 16 = 16 := by omega
        rw [this]
    rw [hiv, Res.ok_bind]
    simp only []
    rw [tpInner_eq a _ done c _ hd (by omega) (by omega) (hH _)]
    have : (chunks - c) * 16 - 16 = (chunks - (c + 1)) * 16 := by omega
    rw [this]
  apply forLoop_rule 1 (by decide) chunks _ Inv (fun r => r = .ok (tpDecLoop H secret (ra ++ salt) a))
  · intro c s s' hc ⟨_, done, hd, hs, hfull⟩ hb
    subst hs
    rw [hbody c done hc hd] at hb
    cases hb
    refine ⟨by omega, done ++ xorBytes ((a.drop (c * 16)).take 16) (H (secret ++ iv c)), ?_, rfl, ?_⟩
    · simp [xorBytes_length, hH, hd]; omega
    · rw [← hfull, tpDecLoop_ne H secret (iv c) (a.drop (c * 16))
        (by intro h; have := congrArg List.length h; simp at this; omega)]
      have e1 : iv (c + 1) = (a.drop (c * 16)).take 16 := by simp [iv]
      have e2 : (a.drop (c * 16)).drop 16 = a.drop ((c + 1) * 16) := by
        rw [List.drop_drop]; congr 1; omega
      rw [e1, e2, List.append_assoc]
  · intro c s hc ⟨_, done, hd, hs, _⟩ hb; subst hs; rw [hbody c done hc hd] at hb; cases hb
  · intro c s hc ⟨_, done, hd, hs, _⟩ hb; subst hs; rw [hbody c done hc hd] at hb; cases hb
  · intro c s hc ⟨hle, done, hd, hs, hfull⟩
    have : c = chunks := by omega
    subst this
    have hnil : a.drop (c * 16) = [] := by simp [ha]
    rw [hnil, tpDecLoop_nil, List.append_nil] at hfull
    rw [hs, hfull]; simp [zeros]
  · exact ⟨by omega, [], rfl, by simp, by simp [iv]⟩

theorem tunnelPassword_eq (H : Hash) (hH : ∀ x, (H x).length = 16) (a secret ra : Bytes) :
    tunnelPassword H a secret ra = RV.tunnelPassword H a secret ra := by
  unfold tunnelPassword RV.tunnelPassword
  by_cases h1 : a.length > 252 ∨ a.length < 18 ∨ (a.length - 2) % 16 ≠ 0
  · rw [if_pos h1, if_pos h1]
  rw [if_neg h1, if_neg h1]
  by_cases h2 : secret.length = 0
  · rw [if_pos h2, if_pos h2]
  rw [if_neg h2, if_neg h2]
  by_cases h3 : ra.length ≠ 16
  · rw [if_pos h3, if_pos h3]
  rw [if_neg h3, if_neg h3, idx_ok (by omega), Res.ok_bind]
  by_cases h4 : (a.getD 0 0) &&& 0x80 ≠ 0x80
  · rw [if_pos h4, if_pos h4]
  rw [if_neg h4, if_neg h4, sliceTo_ok (by omega), Res.ok_bind, sliceFrom_ok (by omega), Res.ok_bind]
  simp only [List.nil_append]
  have hlen : (a.drop 2).length = (a.drop 2).length / 16 * 16 := by
    simp only [List.length_drop]; omega
  rw [tpChunks_eq H hH (a.drop 2) secret ra (a.take 2) _ hlen, Res.ok_bind]
  have hpl : (tpDecLoop H secret (ra ++ a.take 2) (a.drop 2)).length = a.length - 2 := by
    rw [tpDecLoop_length H hH]; simp
  generalize tpDecLoop H secret (ra ++ a.take 2) (a.drop 2) = pt at hpl ⊢
  rw [idx_ok (by omega), Res.ok_bind]
  have hb := u8_lt (pt.getD 0 0)
  by_cases h5 : (pt.getD 0 0).toNat > pt.length - 1
  · rw [if_pos (by omega), if_pos h5]
  · rw [if_neg (by omega), if_neg h5]
    have hadd : ((1 : UInt8) + pt.getD 0 0).toNat = 1 + (pt.getD 0 0).toNat := by
      rw [UInt8.toNat_add]
      have : (1 : UInt8).toNat = 1 := rfl
      rw [this]; omega
    rw [hadd, slice_ok (by omega) (by omega), Res.ok_bind]
    have : 1 + (pt.getD 0 0).toNat - 1 = (pt.getD 0 0).toNat := by omega
    rw [this]; rfl

theorem tunnelPassword_ne_fault' (H : Hash) (hH : ∀ x, (H x).length = 16) (a secret ra : Bytes) :
    tunnelPassword H a secret ra ≠ .fault := by
  rw [tunnelPassword_eq H hH]; exact RV.tunnelPassword_ne_fault H a secret ra

theorem userPassword_ne_fault' (H : Hash) (hH : ∀ x, (H x).length = 16) (a secret ra : Bytes) :
    userPassword H a secret ra ≠ .fault := by
  rw [userPassword_eq H hH]; exact RV.userPassword_ne_fault H a secret ra

/-- NEGATIVE CONTROL.  With the embedded-length check removed, a crafted attribute whose first
    decrypted octet is 0xFF makes `plaintext[1 : 1+passwordLength]` panic (`1+255` wraps to `0` in
    byte arithmetic, so the slice is `plaintext[1:0]`). -/
theorem tunnelPasswordNoLenCheck_faults :
    tunnelPasswordNoLenCheck (fun _ => zeros 16) ([0x80, 0x00, 0xFF] ++ zeros 15) [1] (zeros 16) = .fault := by
  unfold tunnelPasswordNoLenCheck
  have hH : ∀ x : Bytes, ((fun _ => zeros 16 : Hash) x).length = 16 := fun _ => rfl
  rw [if_neg (by decide), if_neg (by decide), if_neg (by decide), idx_ok (by decide), Res.ok_bind,
    if_neg (by decide), sliceTo_ok (by decide), Res.ok_bind, sliceFrom_ok (by decide), Res.ok_bind]
  simp only [List.nil_append]
  rw [tpChunks_eq _ hH _ _ _ _ _ (by decide), Res.ok_bind]
  have : tpDecLoop (fun _ => zeros 16) [1] (zeros 16 ++ List.take 2 ([0x80, 0x00, 0xFF] ++ zeros 15))
      (List.drop 2 ([0x80, 0x00, 0xFF] ++ zeros 15)) = 0xFF :: zeros 15 := by
    rw [tpDecLoop_ne _ _ _ _ (by decide)]
    have e : List.drop 16 (List.drop 2 ([0x80, 0x00, 0xFF] ++ zeros 15)) = [] := by decide
    rw [e, tpDecLoop_nil]
    decide
  rw [this]
  rfl

/-- the shipped function returns an error on the same input -/
theorem tunnelPassword_on_control :
    tunnelPassword (fun _ => zeros 16) ([0x80, 0x00, 0xFF] ++ zeros 15) [1] (zeros 16) = .err := by
  rw [tunnelPassword_eq _ (fun _ => rfl)]
  unfold RV.tunnelPassword
  rw [if_neg (by decide), if_neg (by decide), if_neg (by decide), if_neg (by decide)]
  have : tpDecLoop (fun _ => zeros 16) [1] (zeros 16 ++ List.take 2 ([0x80, 0x00, 0xFF] ++ zeros 15))
      (List.drop 2 ([0x80, 0x00, 0xFF] ++ zeros 15)) = 0xFF :: zeros 15 := by
    rw [tpDecLoop_ne _ _ _ _ (by decide)]
    have e : List.drop 16 (List.drop 2 ([0x80, 0x00, 0xFF] ++ zeros 15)) = [] := by decide
    rw [e, tpDecLoop_nil]
    decide
  simp only [this]
  rfl

/-! ### vendor walkers -/

theorem vsaHdr_eq (g : Bool) (vsa : Bytes) (h : 2 ≤ vsa.length) :
    vsaHdr g vsa = .ok (if (g = true ∧ (vsa.getD 1 0).toNat > vsa.length) ∨ (vsa.getD 1 0).toNat < 3 then none
                        else some (vsa.getD 0 0, (vsa.getD 1 0).toNat)) := by
  unfold vsaHdr
  rw [idx_ok (by omega), Res.ok_bind, idx_ok (by omega), Res.ok_bind]
  split <;> rfl

theorem vsaHead_eq (vsa : Bytes) (h : 2 ≤ vsa.length) :
    vsaHead vsa = if vsa.length < 3 ∨ (vsa.getD 1 0).toNat > vsa.length ∨ (vsa.getD 1 0).toNat < 3 then none
      else some (vsa.getD 0 0, vsa.take (vsa.getD 1 0).toNat, vsa.drop (vsa.getD 1 0).toNat) := by
  rcases vsa with _ | ⟨t, _ | ⟨l, rest⟩⟩
  · simp at h
  · simp at h
  · rfl

theorem vsaHead_short (vsa : Bytes) (h : vsa.length < 3) : vsaHead vsa = none := by
  rcases vsa with _ | ⟨t, _ | ⟨l, rest⟩⟩
  · rfl
  · rfl
  · rw [vsaHead_eq _ (by simp), if_pos (Or.inl h)]

/-- what `vsaHead = some` means in terms of the checked primitives -/
theorem vsaHead_some {vsa : Bytes} {t : UInt8} {sub rest : Bytes} (h : vsaHead vsa = some (t, sub, rest)) :
    3 ≤ vsa.length ∧ 3 ≤ (vsa.getD 1 0).toNat ∧ (vsa.getD 1 0).toNat ≤ vsa.length ∧
    vsaHdr true vsa = .ok (some (t, (vsa.getD 1 0).toNat)) ∧
    slice vsa 2 (vsa.getD 1 0).toNat = .ok (sub.drop 2) ∧
    sliceFrom vsa (vsa.getD 1 0).toNat = .ok rest := by
  by_cases h3 : vsa.length < 3
  · rw [vsaHead_short _ h3] at h; cases h
  · rw [vsaHead_eq _ (by omega)] at h
    split at h
    · cases h
    · rename_i hg
      cases h
      refine ⟨by omega, by omega, by omega, ?_, ?_, ?_⟩
      · rw [vsaHdr_eq _ _ (by omega), if_neg (by simp only [true_and]; omega)]
      · simp only [gt_iff_lt, not_or, Nat.not_lt] at hg
        rw [slice_ok (by omega) (by omega), List.drop_take]
      · rw [sliceFrom_ok (by omega)]

theorem vsaHead_none {vsa : Bytes} (h : vsaHead vsa = none) (h3 : 3 ≤ vsa.length) :
    vsaHdr true vsa = .ok none := by
  rw [vsaHead_eq _ (by omega)] at h
  split at h
  · rename_i hg
    rw [vsaHdr_eq _ _ (by omega), if_pos (by simp only [true_and]; omega)]
  · cases h

theorem vsaGetsLoop_eq (typ : UInt8) (vsa : Bytes) (acc : List Bytes) :
    vsaGetsLoop true typ vsa acc = .ok (acc ++ RV.vsaGets typ vsa) := by
  fun_induction RV.vsaGets typ vsa generalizing acc with
  | case1 vsa hn =>
    unfold vsaGetsLoop
    split
    · rename_i h3
      split
      · simp
      · rename_i h0; rw [vsaHead_none hn h3] at h0; cases h0
      · rename_i h0; rw [vsaHead_none hn h3] at h0; cases h0
      · rename_i h0; rw [vsaHead_none hn h3] at h0; cases h0
    · simp
  | case2 vsa sub rest hs ih =>
    have ht : typ = typ := rfl
    obtain ⟨h3, hl3, hle, hhdr, hsl, hsf⟩ := vsaHead_some hs
    unfold vsaGetsLoop
    rw [if_pos h3]
    split
    · rename_i h0; rw [hhdr] at h0; cases h0
    · rename_i vt vl h0
      rw [hhdr] at h0; cases h0
      rw [if_pos ht, hsl]
      simp only [Res.ok_bind, Res.pure_eq]
      split
      · rename_i r h1; rw [hsf] at h1; cases h1
        rw [ih]; simp
      · rename_i h1; rw [hsf] at h1; cases h1
      · rename_i h1; rw [hsf] at h1; cases h1
    · rename_i h0; rw [hhdr] at h0; cases h0
    · rename_i h0; rw [hhdr] at h0; cases h0
  | case3 vsa t sub rest hs ht ih =>
    obtain ⟨h3, hl3, hle, hhdr, hsl, hsf⟩ := vsaHead_some hs
    unfold vsaGetsLoop
    rw [if_pos h3]
    split
    · rename_i h0; rw [hhdr] at h0; cases h0
    · rename_i vt vl h0
      rw [hhdr] at h0; cases h0
      rw [if_neg ht]
      simp only [Res.pure_eq]
      split
      · rename_i r h1; rw [hsf] at h1; cases h1
        rw [ih]
      · rename_i h1; rw [hsf] at h1; cases h1
      · rename_i h1; rw [hsf] at h1; cases h1
    · rename_i h0; rw [hhdr] at h0; cases h0
    · rename_i h0; rw [hhdr] at h0; cases h0

theorem vsaGets_eq (typ : UInt8) (vsa : Bytes) : vsaGets typ vsa = .ok (RV.vsaGets typ vsa) := by
  unfold vsaGets; rw [vsaGetsLoop_eq]; simp

theorem vsaLookupLoop_eq (typ : UInt8) (vsa : Bytes) :
    vsaLookupLoop true typ vsa = .ok (RV.vsaGets typ vsa).head? := by
  fun_induction RV.vsaGets typ vsa with
  | case1 vsa hn =>
    unfold vsaLookupLoop
    split
    · rename_i h3
      split
      · rfl
      · rename_i h0; rw [vsaHead_none hn h3] at h0; cases h0
      · rename_i h0; rw [vsaHead_none hn h3] at h0; cases h0
      · rename_i h0; rw [vsaHead_none hn h3] at h0; cases h0
    · rfl
  | case2 vsa sub rest hs ih =>
    obtain ⟨h3, hl3, hle, hhdr, hsl, hsf⟩ := vsaHead_some hs
    unfold vsaLookupLoop
    rw [if_pos h3]
    split
    · rename_i h0; rw [hhdr] at h0; cases h0
    · rename_i vt vl h0
      rw [hhdr] at h0; cases h0
      rw [if_pos rfl, hsl]
      rfl
    · rename_i h0; rw [hhdr] at h0; cases h0
    · rename_i h0; rw [hhdr] at h0; cases h0
  | case3 vsa t sub rest hs ht ih =>
    obtain ⟨h3, hl3, hle, hhdr, hsl, hsf⟩ := vsaHead_some hs
    unfold vsaLookupLoop
    rw [if_pos h3]
    split
    · rename_i h0; rw [hhdr] at h0; cases h0
    · rename_i vt vl h0
      rw [hhdr] at h0; cases h0
      rw [if_neg ht]
      split
      · rename_i r h1; rw [hsf] at h1; cases h1
        rw [ih]
      · rename_i h1; rw [hsf] at h1; cases h1
      · rename_i h1; rw [hsf] at h1; cases h1
    · rename_i h0; rw [hhdr] at h0; cases h0
    · rename_i h0; rw [hhdr] at h0; cases h0

theorem getsVendorLoop_eq (vid : Nat) (typ : UInt8) (as : Attrs) (acc : List Bytes) :
    getsVendorLoop true vid typ as acc = .ok (acc ++ RV.getsVendor vid typ as) := by
  induction as generalizing acc with
  | nil => simp [getsVendorLoop, RV.getsVendor]
  | cons a rest ih =>
    have hcons : RV.getsVendor vid typ (a :: rest) =
        (match vendorPayload vid a with | some payload => RV.vsaGets typ payload | none => []) ++
          RV.getsVendor vid typ rest := by
      simp only [RV.getsVendor, List.flatMap_cons]; rfl
    rw [hcons]
    unfold getsVendorLoop vendorPayload
    by_cases ht : a.typ ≠ vsaType
    · rw [if_pos ht, if_pos ht, ih]; simp
    · rw [if_neg ht, if_neg ht, vendorSpecific_eq]
      cases hv : RV.vendorSpecific a.val with
      | fault => exact absurd hv (never_faults' a.val).2.2.2.2.2.2.2.1
      | err => simp only []; rw [ih]; simp
      | ok r =>
        obtain ⟨id, payload⟩ := r
        simp only []
        by_cases hid : id ≠ vid
        · rw [if_pos hid, if_neg (by simpa using hid), ih]; simp
        · rw [if_neg hid, if_pos (by simpa using hid), vsaGetsLoop_eq]
          simp only []
          rw [ih, List.append_assoc]

theorem getsVendor_eq (vid : Nat) (typ : UInt8) (as : Attrs) :
    getsVendor vid typ as = .ok (RV.getsVendor vid typ as) := by
  unfold getsVendor; rw [getsVendorLoop_eq]; simp

theorem lookupVendor_eq (vid : Nat) (typ : UInt8) (as : Attrs) :
    lookupVendor vid typ as = .ok (RV.lookupVendor vid typ as) := by
  unfold lookupVendor RV.lookupVendor
  induction as with
  | nil => rfl
  | cons a rest ih =>
    have hcons : RV.getsVendor vid typ (a :: rest) =
        (match vendorPayload vid a with | some payload => RV.vsaGets typ payload | none => []) ++
          RV.getsVendor vid typ rest := by
      simp only [RV.getsVendor, List.flatMap_cons]; rfl
    rw [hcons]
    unfold lookupVendorLoop vendorPayload
    by_cases ht : a.typ ≠ vsaType
    · rw [if_pos ht, if_pos ht, ih]; simp
    · rw [if_neg ht, if_neg ht, vendorSpecific_eq]
      cases hv : RV.vendorSpecific a.val with
      | fault => exact absurd hv (never_faults' a.val).2.2.2.2.2.2.2.1
      | err => simp only []; rw [ih]; simp
      | ok r =>
        obtain ⟨id, payload⟩ := r
        simp only []
        by_cases hid : id ≠ vid
        · rw [if_pos hid, if_neg (by simpa using hid), ih]; simp
        · rw [if_neg hid, if_pos (by simpa using hid), vsaLookupLoop_eq]
          cases hg : RV.vsaGets typ payload with
          | nil => simp only [List.head?_nil]; rw [ih, hg]; rfl
          | cons v vs => simp [hg]

/-- quantitative bound: every sub-attribute returned consumes at least three payload bytes -/
theorem vsaGets_count (typ : UInt8) (vsa : Bytes) : 3 * (RV.vsaGets typ vsa).length ≤ vsa.length := by
  fun_induction RV.vsaGets typ vsa with
  | case1 => simp
  | case2 vsa sub rest hs ih =>
    obtain ⟨h3, hl3, hle, _, _, hsf⟩ := vsaHead_some hs
    rw [sliceFrom_ok hle] at hsf
    cases hsf
    simp only [List.length_cons, List.length_drop] at ih ⊢
    omega
  | case3 vsa t sub rest hs ht ih =>
    obtain ⟨h3, hl3, hle, _, _, hsf⟩ := vsaHead_some hs
    rw [sliceFrom_ok hle] at hsf
    cases hsf
    simp only [List.length_drop] at ih ⊢
    omega

/-- NEGATIVE CONTROL: without `int(vsaLen) > len(vsa)` the walker panics on a three-byte payload
    whose length octet says five (`vsa[2:5]` with `len(vsa) = 3`) -/
theorem vsaGetsNoLenCheck_faults : vsaGetsNoLenCheck 1 [1, 5, 0] = .fault := by
  unfold vsaGetsNoLenCheck vsaGetsLoop
  rw [if_pos (by decide)]
  split
  · rename_i h0; rw [vsaHdr_eq _ _ (by decide)] at h0; simp at h0
  · rename_i vt vl h0
    rw [vsaHdr_eq _ _ (by decide)] at h0
    simp at h0
    obtain ⟨rfl, rfl⟩ := h0
    rw [if_pos (by decide), slice_fault (by decide)]
    rfl
  · rename_i h0; rw [vsaHdr_eq _ _ (by decide)] at h0; simp at h0
  · rfl

/-- … and the shipped walker returns normally (nothing found) on the same payload -/
theorem vsaGets_on_control : vsaGets 1 [1, 5, 0] = .ok [] := by
  rw [vsaGets_eq, RV.vsaGets]; rfl

/-! ### getter templates -/

theorem tagStrip_eq (a : Bytes) :
    tagStrip a = .ok (if a.length ≥ 1 ∧ (a.getD 0 0).toNat ≤ 0x1F then (a.getD 0 0, a.drop 1) else (0, a)) := by
  unfold tagStrip
  by_cases h1 : a.length ≥ 1
  · rw [if_pos h1, idx_ok (by omega), Res.ok_bind]
    by_cases h2 : (a.getD 0 0).toNat ≤ 0x1F
    · rw [if_pos h2, if_pos ⟨h1, h2⟩, Res.ok_bind, sliceFrom_ok (by omega)]; rfl
    · rw [if_neg h2, if_neg (by omega)]; rfl
  · rw [if_neg h1, if_neg (by omega)]; rfl

theorem tagStripInt_eq (a : Bytes) :
    tagStripInt a = .ok (if a.length ≥ 1 ∧ (a.getD 0 0).toNat ≤ 0x1F then (a.getD 0 0, (0 : UInt8) :: a.drop 1) else (0, a)) := by
  unfold tagStripInt
  by_cases h1 : a.length ≥ 1
  · rw [if_pos h1, idx_ok (by omega), Res.ok_bind]
    by_cases h2 : (a.getD 0 0).toNat ≤ 0x1F
    · rw [if_pos h2, if_pos ⟨h1, h2⟩, Res.ok_bind, sliceFrom_ok (by omega)]; rfl
    · rw [if_neg h2, if_neg (by omega)]; rfl
  · rw [if_neg h1, if_neg (by omega)]; rfl

theorem byteKind_eq (a : Bytes) : byteKind a = if a.length ≠ 1 then .err else .ok (a.getD 0 0) := by
  unfold byteKind
  split
  · rfl
  · rw [idx_ok (by omega)]


/-! ### IPv6Prefix -/

/-- bits `bit … 7` (0 = most significant) of `x` are zero, as tested by the Go loop -/
def bitsClear (x : UInt8) (bit : Nat) : Prop :=
  ∀ k, k < 8 → bit ≤ k → x &&& ((1 : UInt8) <<< UInt8.ofNat (7 - k)) = 0

instance (x : UInt8) (bit : Nat) : Decidable (bitsClear x bit) := by unfold bitsClear; infer_instance

theorem bitsClear_zero_nat : ∀ n, n < 256 → (bitsClear (UInt8.ofNat n) 0 ↔ UInt8.ofNat n = 0) := by
  decide +kernel
theorem bitsClear_pos_nat : ∀ n, n < 256 → ∀ k, k < 8 → 0 < k →
    (bitsClear (UInt8.ofNat n) k ↔ clearFrom (UInt8.ofNat n) k = UInt8.ofNat n) := by
  decide +kernel

theorem bitsClear_zero (x : UInt8) : bitsClear x 0 ↔ x = 0 := by
  have := bitsClear_zero_nat x.toNat (u8_lt x)
  rwa [UInt8.ofNat_toNat] at this
theorem bitsClear_pos (x : UInt8) (k : Nat) (h8 : k < 8) (h0 : 0 < k) : bitsClear x k ↔ clearFrom x k = x := by
  have := bitsClear_pos_nat x.toNat (u8_lt x) k h8 h0
  rwa [UInt8.ofNat_toNat] at this

theorem prefixBits_eq (ip : Bytes) (octet bit : Nat) (ho : octet < ip.length) :
    prefixBits ip octet bit = if bitsClear (ip.getD octet 0) bit then .ok () else .err := by
  unfold prefixBits
  apply forLoop_rule 1 (by decide) 8 _
    (fun k _ => bit ≤ k ∧ ∀ j, j < 8 → bit ≤ j → j < k →
      ip.getD octet 0 &&& ((1 : UInt8) <<< UInt8.ofNat (7 - j)) = 0)
    (fun r => r = if bitsClear (ip.getD octet 0) bit then .ok () else .err)
  · intro k s s' hk ⟨hle, hall⟩ hb
    rw [idx_ok ho, Res.ok_bind] at hb
    split at hb
    · cases hb
    · rename_i hz
      refine ⟨by omega, ?_⟩
      intro j hj8 hbj hjk
      by_cases hjk' : j < k
      · exact hall j hj8 hbj hjk'
      · have : j = k := by omega
        subst this
        simpa using hz
  · intro k s hk ⟨hle, hall⟩ hb
    rw [idx_ok ho, Res.ok_bind] at hb
    split at hb
    · rename_i hz
      rw [if_neg]
      intro hc
      exact hz (hc k hk hle)
    · cases hb
  · intro k s hk ⟨hle, hall⟩ hb
    rw [idx_ok ho, Res.ok_bind] at hb
    split at hb <;> cases hb
  · intro k s hk ⟨hle, hall⟩
    rw [if_pos]
    intro j hj8 hbj
    exact hall j hj8 hbj (by omega)
  · exact ⟨Nat.le_refl _, fun j _ h1 h2 => by omega⟩

/-- per-octet condition of the total model's `hostBitsZero` -/
def octetOK (ip : Bytes) (p i : Nat) : Bool :=
  if (i + 1) * 8 ≤ p then true
  else if i * 8 ≥ p then ip.getD i 0 == 0
  else clearFrom (ip.getD i 0) (p - i * 8) == ip.getD i 0

theorem hostBitsZero_iff (ip : Bytes) (p : Nat) :
    hostBitsZero ip p = true ↔ ∀ i, i < ip.length → octetOK ip p i = true := by
  unfold hostBitsZero octetOK
  simp only [List.all_eq_true, List.mem_range]

/-- the loop's view of octet `o`: the first tested octet is tested from bit `p % 8`, later ones from bit 0 -/
theorem octetOK_iff (ip : Bytes) (p o : Nat) (ho : p / 8 ≤ o) :
    octetOK ip p o = true ↔ bitsClear (ip.getD o 0) (if o = p / 8 then p % 8 else 0) := by
  unfold octetOK
  rw [if_neg (by omega)]
  by_cases he : o = p / 8
  · rw [if_pos he]
    by_cases hm : p % 8 = 0
    · rw [if_pos (by omega), hm, bitsClear_zero]; simp
    · rw [if_neg (by omega), bitsClear_pos _ _ (by omega) (by omega)]
      have : p - o * 8 = p % 8 := by omega
      rw [this]; simp
  · rw [if_neg he, if_pos (by omega), bitsClear_zero]; simp

theorem octetOK_low (ip : Bytes) (p o : Nat) (ho : o < p / 8) : octetOK ip p o = true := by
  unfold octetOK; rw [if_pos (by omega)]

theorem prefixLoop_eq (ip : Bytes) (p : Nat) :
    (∃ s, forLoop 1 (by decide) ip.length (fun octet bit => do
        prefixBits ip octet bit
        pure 0) (p / 8) (p % 8) = .ok s ∧ hostBitsZero ip p = true) ∨
    (forLoop 1 (by decide) ip.length (fun octet bit => do
        prefixBits ip octet bit
        pure 0) (p / 8) (p % 8) = .err ∧ hostBitsZero ip p = false) := by
  apply forLoop_rule 1 (by decide) ip.length _
    (fun o bit => p / 8 ≤ o ∧ bit = (if o = p / 8 then p % 8 else 0) ∧
      ∀ i, i < ip.length → i < o → octetOK ip p i = true)
    (fun r => (∃ s, r = .ok s ∧ hostBitsZero ip p = true) ∨ (r = .err ∧ hostBitsZero ip p = false))
  · intro o bit s' ho ⟨hle, hbit, hall⟩ hb
    rw [prefixBits_eq ip o bit ho] at hb
    split at hb
    · rename_i hc
      cases hb
      refine ⟨by omega, by rw [if_neg (by omega)], ?_⟩
      intro i hi hio
      by_cases hio' : i < o
      · exact hall i hi hio'
      · have : i = o := by omega
        subst this
        rw [octetOK_iff ip p i hle, ← hbit]; exact hc
    · cases hb
  · intro o bit ho ⟨hle, hbit, hall⟩ hb
    rw [prefixBits_eq ip o bit ho] at hb
    split at hb
    · cases hb
    · rename_i hc
      right
      refine ⟨rfl, ?_⟩
      rw [Bool.eq_false_iff]
      intro hz
      rw [hostBitsZero_iff] at hz
      have := hz o ho
      rw [octetOK_iff ip p o hle, ← hbit] at this
      exact hc this
  · intro o bit ho ⟨hle, hbit, hall⟩ hb
    rw [prefixBits_eq ip o bit ho] at hb
    split at hb <;> cases hb
  · intro o bit ho ⟨hle, hbit, hall⟩
    left
    refine ⟨bit, rfl, ?_⟩
    rw [hostBitsZero_iff]
    intro i hi
    exact hall i hi (by omega)
  · refine ⟨Nat.le_refl _, by rw [if_pos rfl], ?_⟩
    intro i hi hlt
    exact octetOK_low ip p i hlt

theorem ipv6Prefix_eq (a : Bytes) : ipv6Prefix a = RV.ipv6Prefix a := by
  unfold ipv6Prefix RV.ipv6Prefix
  by_cases h1 : a.length < 2 ∨ a.length > 18
  · rw [if_pos h1, if_pos h1]
  rw [if_neg h1, if_neg h1, idx_ok (by omega), Res.ok_bind]
  simp only []
  by_cases h2 : (a.getD 1 0).toNat > 128
  · rw [if_pos h2, if_pos h2]
  rw [if_neg h2, if_neg h2, sliceFrom_ok (by omega), Res.ok_bind,
    goCopy_zeros_short _ _ (by simp; omega)]
  simp only [List.length_drop]
  rcases prefixLoop_eq (a.drop 2 ++ zeros (16 - (a.length - 2))) (a.getD 1 0).toNat with ⟨s, hs, hz⟩ | ⟨hs, hz⟩
  · rw [hs, hz]; rfl
  · rw [hs, hz]; rfl


/-! ### the getter body and the dumper -/

theorem bind_eq_match {α β} (x : Res α) (f : α → Res β) :
    (x >>= f) = match x with | .ok a => f a | .err => .err | .fault => .fault := by
  cases x <;> rfl

theorem tpPlain_eq (H : Hash) (hH : ∀ x, (H x).length = 16) (a secret auth : Bytes) :
    tpPlain H a secret auth = RV.tpPlain H a secret auth := by
  unfold tpPlain RV.tpPlain
  rw [tunnelPassword_eq H hH]
  cases RV.tunnelPassword H a secret auth with
  | ok r => obtain ⟨pw, s⟩ := r; rfl
  | err => rfl
  | fault => rfl

theorem intOf_eq (k : Kind) (w : Nat) (hk : k.intBytes = some w) (a : Bytes) :
    intOf w a = if a.length ≠ w then .err else .ok (beNat a) := by
  unfold intOf
  cases k <;> simp [Kind.intBytes] at hk <;> subst hk
  · simp [integer_eq, RV.integer]
  · simp [integer64_eq, RV.integer64]
  · simp [short_eq, RV.short]

theorem tagIf_eq (d : Desc) (a : Bytes) :
    (if d.hasTag = true then tagStrip a else pure (0, a)) =
      .ok (if d.hasTag = true ∧ a.length ≥ 1 ∧ (a.getD 0 0).toNat ≤ 0x1F then (a.getD 0 0, a.drop 1) else (0, a)) := by
  by_cases h : d.hasTag = true
  · rw [if_pos h, tagStrip_eq]; simp only [h, true_and]
  · rw [if_neg h, if_neg (by intro hc; exact h hc.1)]; rfl

theorem textBody_eq (H : Hash) (hH : ∀ x, (H x).length = 16) (d : Desc) (ta : UInt8 × Bytes) (secret auth : Bytes) :
    (do
      let v ← (match d.encrypt with
               | 1 => userPassword H ta.2 secret auth
               | 2 => tpPlain H ta.2 secret auth
               | _ => pure (bytesOf ta.2))
      if d.size.isSome ∧ d.size ≠ some v.length then .err else pure (ta.1, GVal.bytes v)) =
    match (match d.encrypt with
           | 1 => RV.userPassword H ta.2 secret auth
           | 2 => RV.tpPlain H ta.2 secret auth
           | _ => (.ok ta.2 : Res Bytes)) with
    | .ok v => if d.size.isSome ∧ d.size ≠ some v.length then .err else .ok (ta.1, GVal.bytes v)
    | .err => .err
    | .fault => .fault := by
  rw [bind_eq_match]
  split <;> rename_i hm <;> split at hm <;> split <;> rename_i hm' <;>
    simp only [userPassword_eq H hH, tpPlain_eq H hH, bytesOf_eq, RV.bytesOf, Res.pure_eq] at hm <;>
    simp_all

theorem intBody_eq (H : Hash) (hH : ∀ x, (H x).length = 16) (d : Desc) (k : Kind) (w : Nat)
    (hk : k.intBytes = some w) (a secret auth : Bytes) :
    (if d.hasTag = true then do
        let ta ← tagStripInt a
        let v ← intOf w ta.snd
        pure (ta.fst, GVal.nat v)
      else do
        let a ← (if d.usesSalt = true then tpPlain H a secret auth else pure a)
        let v ← intOf w a
        pure (0, GVal.nat v)) =
    (if d.hasTag = true then
        let (tag, a) := if a.length ≥ 1 ∧ (a.getD 0 0).toNat ≤ 0x1F then (a.getD 0 0, (0 : UInt8) :: a.drop 1) else (0, a)
        if a.length ≠ w then .err else .ok (tag, GVal.nat (beNat a))
      else
        match (if d.usesSalt = true then RV.tpPlain H a secret auth else (.ok a : Res Bytes)) with
        | .ok a => if a.length ≠ w then .err else .ok (0, GVal.nat (beNat a))
        | .err => .err
        | .fault => .fault) := by
  by_cases ht : d.hasTag = true
  · rw [if_pos ht, if_pos ht, tagStripInt_eq, Res.ok_bind, intOf_eq k w hk]
    simp only []
    split <;> (simp only []; split <;> rfl)
  · rw [if_neg ht, if_neg ht]
    simp only [tpPlain_eq H hH, Res.pure_eq, intOf_eq k w hk]
    cases (if d.usesSalt = true then RV.tpPlain H a secret auth else Res.ok a) <;> simp only [Res.ok_bind, Res.err_bind, Res.fault_bind]
    split <;> rfl

theorem decodeValue_eq (H : Hash) (hH : ∀ x, (H x).length = 16) (d : Desc) (a secret auth : Bytes) :
    decodeValue H d a secret auth = RV.decodeValue H d a secret auth := by
  unfold decodeValue RV.decodeValue
  cases hk : d.kind <;> simp only []
  case string => rw [tagIf_eq, Res.ok_bind]; exact textBody_eq H hH d _ secret auth
  case octets => rw [tagIf_eq, Res.ok_bind]; exact textBody_eq H hH d _ secret auth
  case concat => rw [tagIf_eq, Res.ok_bind]; exact textBody_eq H hH d _ secret auth
  case ipaddr =>
    simp only [tpPlain_eq H hH, ipAddr_eq, ipv6Addr_eq, bind_eq_match, Res.pure_eq]
    cases (if d.usesSalt = true then RV.tpPlain H a secret auth else Res.ok a) <;> simp only [] <;>
      cases (RV.ipAddr _) <;> rfl
  case ipv6addr =>
    simp only [tpPlain_eq H hH, ipAddr_eq, ipv6Addr_eq, bind_eq_match, Res.pure_eq]
    cases (if d.usesSalt = true then RV.tpPlain H a secret auth else Res.ok a) <;> simp only [] <;>
      cases (RV.ipv6Addr _) <;> rfl
  case ifid => rw [ifid_eq, bind_eq_match]; cases RV.ifid a <;> rfl
  case ipv6prefix => rw [ipv6Prefix_eq, bind_eq_match]; cases RV.ipv6Prefix a <;> rfl
  case date => rw [date_eq, bind_eq_match]; cases RV.date a <;> rfl
  case byte =>
    rw [byteKind_eq]
    split <;> rfl
  case integer => exact intBody_eq H hH d .integer 4 rfl a secret auth
  case integer64 => exact intBody_eq H hH d .integer64 8 rfl a secret auth
  case short => exact intBody_eq H hH d .short 2 rfl a secret auth

theorem RV_tpPlain_ne_fault (H : Hash) (a secret auth : Bytes) : RV.tpPlain H a secret auth ≠ .fault := by
  unfold RV.tpPlain
  have := RV.tunnelPassword_ne_fault H a secret auth
  cases h : RV.tunnelPassword H a secret auth with
  | ok r => obtain ⟨pw, s⟩ := r; simp
  | err => simp
  | fault => exact absurd h this

/-- the total getter body never reports a fault, for any hash function -/
theorem RV_decodeValue_ne_fault (H : Hash) (d : Desc) (a secret auth : Bytes) :
    RV.decodeValue H d a secret auth ≠ .fault := by
  have hnf := never_faults'
  unfold RV.decodeValue
  cases hk : d.kind <;> simp only []
  case string | octets | concat =>
    split
    · split <;> simp
    · simp
    · rename_i hm
      split at hm
      · exact absurd hm (RV.userPassword_ne_fault H _ _ _)
      · exact absurd hm (RV_tpPlain_ne_fault H _ _ _)
      · cases hm
  case ipaddr | ipv6addr =>
    split
    · split
      · simp
      · simp
      · rename_i hm
        split at hm
        · exact absurd hm (hnf _).2.2.2.1
        · exact absurd hm (hnf _).2.2.2.2.1
    · simp
    · rename_i hm
      split at hm
      · exact absurd hm (RV_tpPlain_ne_fault H _ _ _)
      · cases hm
  case ifid =>
    split
    · simp
    · simp
    · rename_i hm; exact absurd hm (hnf _).2.2.2.2.2.1
  case ipv6prefix =>
    split
    · simp
    · simp
    · rename_i hm; exact absurd hm (hnf _).2.2.2.2.2.2.2.2.2
  case date =>
    split
    · simp
    · simp
    · rename_i hm; exact absurd hm (hnf _).2.2.2.2.2.2.1
  case byte => split <;> simp
  case integer | integer64 | short =>
    simp only [Kind.intBytes]
    split
    · split <;> (simp only []; split <;> simp)
    · split
      · split <;> simp
      · simp
      · rename_i hm
        split at hm
        · exact absurd hm (RV_tpPlain_ne_fault H _ _ _)
        · cases hm

theorem decodeValue_ne_fault (H : Hash) (hH : ∀ x, (H x).length = 16) (d : Desc) (a secret auth : Bytes) :
    decodeValue H d a secret auth ≠ .fault := by
  rw [decodeValue_eq H hH]; exact RV_decodeValue_ne_fault H d a secret auth

/-! ### dumper -/

theorem dumpAttr_ne_fault (H : Hash) (hH : ∀ x, (H x).length = 16) (dt : Option DumpType) (secret auth : Bytes)
    (avp : AVP) : dumpAttr H dt secret auth avp ≠ .fault := by
  unfold dumpAttr
  split
  · simp
  · split
    · have := userPassword_ne_fault' H hH avp.val secret auth
      split
      · simp
      · simp
      · rename_i hm; exact absurd hm this
    · simp
  · split
    · rename_i h4; rw [be32_eq _ h4]; simp
    · simp
  · split
    · rename_i h4; rw [be32_eq _ h4]; simp
    · split
      · rename_i h8; rw [be64_eq _ h8]; simp
      · simp
  · split <;> simp
  · split <;> simp
  · simp

theorem dumpAttrs_ne_fault (H : Hash) (hH : ∀ x, (H x).length = 16) (dict : Int → Option DumpType)
    (secret auth : Bytes) (as : Attrs) : dumpAttrs H dict secret auth as ≠ .fault := by
  induction as with
  | nil => simp [dumpAttrs]
  | cons a rest ih =>
    unfold dumpAttrs
    have h1 := dumpAttr_ne_fault H hH (dict a.typ) secret auth a
    cases hd : dumpAttr H (dict a.typ) secret auth a with
    | fault => exact absurd hd h1
    | err => simp
    | ok v =>
      cases hr : dumpAttrs H dict secret auth rest with
      | fault => exact absurd hr ih
      | err => simp
      | ok vs => simp

/-- the dumper emits one line per attribute -/
theorem dumpAttrs_length (H : Hash) (dict : Int → Option DumpType) (secret auth : Bytes) (as : Attrs)
    (out : List DumpVal) (h : dumpAttrs H dict secret auth as = .ok out) : out.length = as.length := by
  induction as generalizing out with
  | nil => simp [dumpAttrs] at h; simp [← h]
  | cons a rest ih =>
    unfold dumpAttrs at h
    cases hd : dumpAttr H (dict a.typ) secret auth a with
    | fault => rw [hd] at h; cases h
    | err => rw [hd] at h; cases h
    | ok v =>
      rw [hd] at h
      cases hr : dumpAttrs H dict secret auth rest with
      | fault => rw [hr] at h; cases h
      | err => rw [hr] at h; cases h
      | ok vs =>
        rw [hr] at h
        simp only [Res.ok_bind, Res.pure_eq, Res.ok.injEq] at h
        rw [← h, List.length_cons, ih vs hr, List.length_cons]


/-! ### the primitives fail exactly when the Go runtime panics -/

theorem idx_fault_iff (b : Bytes) (i : Nat) : idx b i = .fault ↔ b.length ≤ i := by
  unfold idx; split <;> simp <;> omega
theorem idx_ne_err (b : Bytes) (i : Nat) : idx b i ≠ .err := by
  unfold idx; split <;> simp
theorem slice_fault_iff (b : Bytes) (i j : Nat) : slice b i j = .fault ↔ (i > j ∨ j > b.length) := by
  unfold slice; split <;> simp <;> omega
theorem slice_length (b r : Bytes) (i j : Nat) (h : slice b i j = .ok r) : r.length = j - i := by
  unfold slice at h
  split at h
  · cases h; simp; omega
  · cases h
theorem store_fault_iff (b : Bytes) (i : Nat) (v : UInt8) : store b i v = .fault ↔ b.length ≤ i := by
  unfold store; split <;> simp <;> omega
theorem be32_fault_iff (b : Bytes) : be32 b = .fault ↔ b.length < 4 := by
  unfold be32
  by_cases h : b.length < 4
  · rw [idx_fault (by omega)]; simp [h]
  · rw [idx_ok (by omega), Res.ok_bind, idx_ok (by omega), Res.ok_bind, idx_ok (by omega), Res.ok_bind,
      idx_ok (by omega), Res.ok_bind]
    simp [h]

/-- the digest-length hypothesis of `userPassword_eq` is needed: with a hash that returns nothing,
    `dec[i] ^= b` indexes an empty slice -/
theorem userPassword_short_hash_faults :
    userPassword (fun _ => []) (zeros 16) [1] (zeros 16) = .fault := by
  unfold userPassword
  rw [if_neg (by decide), if_neg (by decide), if_neg (by decide), sliceTo_ok (by decide), Res.ok_bind]
  rfl


/-! ### further bounds -/

theorem parse_count (b secret : Bytes) (p : Packet) (h : RV.parse b secret = .ok p) : p.attrs.length ≤ 2038 := by
  unfold RV.parse at h
  split at h
  · cases h
  · simp only [] at h
    split at h
    · cases h
    · rename_i hg
      split at h
      · rename_i as has
        cases h
        have := parseAttrs_count _ as has
        simp only [List.length_drop, List.length_take, maxPacketLength] at this hg ⊢
        omega
      · cases h
      · cases h

theorem hGets_go_count (H : Hash) (d : Desc) (secret auth : Bytes) (l : List Bytes) :
    (hGets.go H d secret auth l).1.length ≤ l.length := by
  induction l with
  | nil => simp [hGets.go]
  | cons a rest ih =>
    unfold hGets.go
    split
    · simp only [List.length_cons]; omega
    · simp

theorem hGets_count (H : Hash) (d : Desc) (as : Attrs) (secret auth : Bytes) :
    (hGets H d as secret auth).1.length ≤ (rawValues d as).length :=
  hGets_go_count H d secret auth _


end Checked
end RV
