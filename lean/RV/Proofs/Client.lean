/- Helper lemmas for C05 (receive loop) and C08 (Exchange logic machine). -/
import RV.Model.Client
import RV.Proofs.Wire
namespace RV
open RV.Client

section loop
variable (H : Hash) (cfg : Cfg) (wire secret : Bytes)

/-! ### one datagram -/

theorem acceptable_iff (d : Bytes) :
    Spec.acceptable H cfg wire secret d = true ↔
      ∃ p, parse (readBuf d) secret = .ok p ∧
        (cfg.skipVerify = true ∨ isAuthenticResponse H (readBuf d) wire secret = true) := by
  unfold Spec.acceptable
  cases hp : parse (readBuf d) secret <;> simp [Res.isOk]

theorem unacceptable_iff (d : Bytes) :
    Spec.acceptable H cfg wire secret d = false ↔
      (∀ p, parse (readBuf d) secret ≠ .ok p) ∨
        (cfg.skipVerify = false ∧ isAuthenticResponse H (readBuf d) wire secret = false) := by
  unfold Spec.acceptable
  cases hp : parse (readBuf d) secret <;> simp [Res.isOk]

theorem step_of_acceptable (count : Int) (d : Bytes) (h : Spec.acceptable H cfg wire secret d = true) :
    ∃ p, stepDatagram H cfg wire secret count d = .ret p ∧ parse (readBuf d) secret = .ok p := by
  obtain ⟨p, hp, hv⟩ := (acceptable_iff H cfg wire secret d).1 h
  refine ⟨p, ?_, hp⟩
  unfold stepDatagram
  simp only [hp]
  rcases hv with hv | hv <;> simp [hv]

theorem step_of_unacceptable (count : Int) (d : Bytes) (h : Spec.acceptable H cfg wire secret d = false) :
    stepDatagram H cfg wire secret count d =
      if budgetReached cfg (count + 1) then .fail (Spec.errClass secret d) else .cont (count + 1) := by
  unfold stepDatagram Spec.errClass
  rcases (unacceptable_iff H cfg wire secret d).1 h with hp | ⟨hs, hv⟩
  · cases hq : parse (readBuf d) secret with
    | ok p => exact absurd hq (hp p)
    | err => simp [hq, Res.isOk]
    | fault => simp [hq, Res.isOk]
  · cases hq : parse (readBuf d) secret with
    | ok p => simp [hq, hs, hv, Res.isOk]
    | err => simp [hq, Res.isOk]
    | fault => simp [hq, Res.isOk]

theorem step_ret_iff (count : Int) (d : Bytes) (p : Packet) :
    stepDatagram H cfg wire secret count d = .ret p ↔
      parse (readBuf d) secret = .ok p ∧
        (cfg.skipVerify = true ∨ isAuthenticResponse H (readBuf d) wire secret = true) := by
  cases ha : Spec.acceptable H cfg wire secret d with
  | true =>
    obtain ⟨q, hq, hpq⟩ := step_of_acceptable H cfg wire secret count d ha
    obtain ⟨q', hq', hv⟩ := (acceptable_iff H cfg wire secret d).1 ha
    constructor
    · intro h
      rw [hq] at h
      cases h
      exact ⟨hpq, by rw [hpq] at hq'; cases hq'; exact hv⟩
    · rintro ⟨hp, _⟩
      rw [hq]
      rw [hpq] at hp
      cases hp
      rfl
  | false =>
    rw [step_of_unacceptable H cfg wire secret count d ha]
    constructor
    · intro h; split at h <;> cases h
    · rintro ⟨hp, hv⟩
      have : Spec.acceptable H cfg wire secret d = true :=
        (acceptable_iff H cfg wire secret d).2 ⟨p, hp, hv⟩
      rw [ha] at this
      cases this

theorem step_cont_eq (count : Int) (d : Bytes) (c' : Int)
    (h : stepDatagram H cfg wire secret count d = .cont c') : c' = count + 1 := by
  cases ha : Spec.acceptable H cfg wire secret d with
  | true =>
    obtain ⟨q, hq, _⟩ := step_of_acceptable H cfg wire secret count d ha
    rw [hq] at h; cases h
  | false =>
    rw [step_of_unacceptable H cfg wire secret count d ha] at h
    by_cases hb : budgetReached cfg (count + 1) = true
    · simp only [hb, if_true] at h; cases h
    · have hb0 : budgetReached cfg (count + 1) = false := by
        cases hx : budgetReached cfg (count + 1) <;> simp_all
      simp only [hb0, Bool.false_eq_true, if_false] at h
      cases h; rfl

theorem budgetReached_iff (count : Int) :
    budgetReached cfg count = true ↔ cfg.maxErrors > 0 ∧ count ≥ cfg.maxErrors := by
  simp [budgetReached]

/-! ### the loop, from any index and any counter value -/

theorem loop_returned (hist : List Bytes) (i : Nat) (c : Int) (j : Nat) (p : Packet)
    (h : recvLoopFrom H cfg wire secret i c hist = .returned j p) :
    ∃ k d, j = i + k ∧ hist[k]? = some d ∧ parse (readBuf d) secret = .ok p ∧
      (cfg.skipVerify = true ∨ isAuthenticResponse H (readBuf d) wire secret = true) ∧
      ∀ k' d', k' < k → hist[k']? = some d' → Spec.acceptable H cfg wire secret d' = false := by
  induction hist generalizing i c with
  | nil => simp [recvLoopFrom] at h
  | cons d ds ih =>
    unfold recvLoopFrom at h
    cases ha : Spec.acceptable H cfg wire secret d with
    | true =>
      obtain ⟨q, hq, hpq⟩ := step_of_acceptable H cfg wire secret c d ha
      rw [hq] at h
      simp only [Outcome.returned.injEq] at h
      obtain ⟨rfl, rfl⟩ := h
      obtain ⟨q', hq', hv⟩ := (acceptable_iff H cfg wire secret d).1 ha
      refine ⟨0, d, rfl, rfl, hpq, hv, ?_⟩
      intro k' d' hk; omega
    | false =>
      rw [step_of_unacceptable H cfg wire secret c d ha] at h
      by_cases hb : budgetReached cfg (c + 1) = true
      · simp only [hb, if_true] at h
        cases h
      · have hb0 : budgetReached cfg (c + 1) = false := by
          cases hx : budgetReached cfg (c + 1) <;> simp_all
        simp only [hb0, Bool.false_eq_true, if_false] at h
        obtain ⟨k, d0, hj, hk, hp, hv, hfirst⟩ := ih (i + 1) (c + 1) h
        refine ⟨k + 1, d0, by omega, by simpa using hk, hp, hv, ?_⟩
        intro k' d' hk' hd'
        cases k' with
        | zero => simp at hd'; subst hd'; exact ha
        | succ k'' => exact hfirst k'' d' (by omega) (by simpa using hd')

theorem loop_failed_iff (hist : List Bytes) (i : Nat) (c : Int) (j : Nat) (e : ErrClass) :
    recvLoopFrom H cfg wire secret i c hist = .failed j e ↔
      ∃ k d, j = i + k ∧ hist[k]? = some d ∧
        (∀ k' d', k' ≤ k → hist[k']? = some d' → Spec.acceptable H cfg wire secret d' = false) ∧
        e = Spec.errClass secret d ∧ cfg.maxErrors > 0 ∧ c + k + 1 ≥ cfg.maxErrors ∧
        (∀ k' : Nat, k' < k → c + k' + 1 < cfg.maxErrors) := by
  induction hist generalizing i c with
  | nil => simp [recvLoopFrom]
  | cons d ds ih =>
    unfold recvLoopFrom
    cases ha : Spec.acceptable H cfg wire secret d with
    | true =>
      obtain ⟨q, hq, _⟩ := step_of_acceptable H cfg wire secret c d ha
      rw [hq]
      constructor
      · intro h; cases h
      · rintro ⟨k, d0, _, _, hall, _⟩
        have := hall 0 d (by omega) rfl
        rw [ha] at this; cases this
    | false =>
      rw [step_of_unacceptable H cfg wire secret c d ha]
      by_cases hb : budgetReached cfg (c + 1) = true
      · simp only [hb, if_true]
        have hb' := (budgetReached_iff cfg (c + 1)).1 hb
        constructor
        · intro h
          simp only [Outcome.failed.injEq] at h
          obtain ⟨rfl, rfl⟩ := h
          refine ⟨0, d, rfl, rfl, ?_, rfl, hb'.1, by have := hb'.2; omega, by intro k' hk'; omega⟩
          intro k' d' hk' hd'
          have : k' = 0 := by omega
          subst this
          simp at hd'; subst hd'; exact ha
        · rintro ⟨k, d0, hj, hk, hall, he, hm, hge, hlt⟩
          cases k with
          | zero =>
            simp at hk; subst hk
            simp [hj, he]
          | succ k'' =>
            have := hlt 0 (by omega)
            have := hb'.2
            omega
      · have hb0 : budgetReached cfg (c + 1) = false := by
          cases hx : budgetReached cfg (c + 1) <;> simp_all
        simp only [hb0, Bool.false_eq_true, if_false]
        rw [ih (i + 1) (c + 1)]
        constructor
        · rintro ⟨k, d0, hj, hk, hall, he, hm, hge, hlt⟩
          refine ⟨k + 1, d0, by omega, by simpa using hk, ?_, he, hm, by omega, ?_⟩
          · intro k' d' hk' hd'
            cases k' with
            | zero => simp at hd'; subst hd'; exact ha
            | succ k'' => exact hall k'' d' (by omega) (by simpa using hd')
          · intro k' hk'
            cases k' with
            | zero =>
              have hnb : ¬ (cfg.maxErrors > 0 ∧ c + 1 ≥ cfg.maxErrors) := by
                intro hcon
                have := (budgetReached_iff cfg (c + 1)).2 hcon
                rw [hb0] at this; cases this
              omega
            | succ k'' => have := hlt k'' (by omega); omega
        · rintro ⟨k, d0, hj, hk, hall, he, hm, hge, hlt⟩
          cases k with
          | zero =>
            exfalso
            have hcon : cfg.maxErrors > 0 ∧ c + 1 ≥ cfg.maxErrors := ⟨hm, by omega⟩
            have := (budgetReached_iff cfg (c + 1)).2 hcon
            rw [hb0] at this; cases this
          | succ k'' =>
            refine ⟨k'', d0, by omega, by simpa using hk, ?_, he, hm, by omega, ?_⟩
            · intro k' d' hk' hd'
              exact hall (k' + 1) d' (by omega) (by simpa using hd')
            · intro k' hk'
              have := hlt (k' + 1) (by omega)
              omega

theorem loop_waiting_iff (hist : List Bytes) (i : Nat) (c : Int) :
    recvLoopFrom H cfg wire secret i c hist = .waiting ↔
      (∀ d, d ∈ hist → Spec.acceptable H cfg wire secret d = false) ∧
      (cfg.maxErrors > 0 → hist ≠ [] → c + hist.length < cfg.maxErrors) := by
  induction hist generalizing i c with
  | nil => simp [recvLoopFrom]
  | cons d ds ih =>
    unfold recvLoopFrom
    cases ha : Spec.acceptable H cfg wire secret d with
    | true =>
      obtain ⟨q, hq, _⟩ := step_of_acceptable H cfg wire secret c d ha
      rw [hq]
      constructor
      · intro h; cases h
      · rintro ⟨hall, _⟩
        have := hall d (by simp)
        rw [ha] at this; cases this
    | false =>
      rw [step_of_unacceptable H cfg wire secret c d ha]
      by_cases hb : budgetReached cfg (c + 1) = true
      · simp only [hb, if_true]
        have hb' := (budgetReached_iff cfg (c + 1)).1 hb
        constructor
        · intro h; cases h
        · rintro ⟨_, hlt⟩
          have := hlt hb'.1 (by simp)
          have := hb'.2
          simp only [List.length_cons] at *
          omega
      · have hb0 : budgetReached cfg (c + 1) = false := by
          cases hx : budgetReached cfg (c + 1) <;> simp_all
        have hnb : ¬ (cfg.maxErrors > 0 ∧ c + 1 ≥ cfg.maxErrors) := by
          intro hcon
          have := (budgetReached_iff cfg (c + 1)).2 hcon
          rw [hb0] at this; cases this
        simp only [hb0, Bool.false_eq_true, if_false]
        rw [ih (i + 1) (c + 1)]
        constructor
        · rintro ⟨hall, hlt⟩
          refine ⟨?_, ?_⟩
          · intro d' hd'
            rcases List.mem_cons.1 hd' with rfl | hd'
            · exact ha
            · exact hall d' hd'
          · intro hm _
            simp only [List.length_cons]
            cases ds with
            | nil => simp only [List.length_nil]; omega
            | cons d2 ds2 =>
              have := hlt hm (by simp)
              simp only [List.length_cons] at this ⊢
              omega
        · rintro ⟨hall, hlt⟩
          refine ⟨fun d' hd' => hall d' (List.mem_cons_of_mem _ hd'), ?_⟩
          intro hm hne
          have := hlt hm (by simp)
          simp only [List.length_cons] at this
          omega

/-- once the loop has decided, later datagrams are never looked at -/
theorem loop_stable (hist more : List Bytes) (i : Nat) (c : Int)
    (h : recvLoopFrom H cfg wire secret i c hist ≠ .waiting) :
    recvLoopFrom H cfg wire secret i c (hist ++ more) = recvLoopFrom H cfg wire secret i c hist := by
  induction hist generalizing i c with
  | nil => simp [recvLoopFrom] at h
  | cons d ds ih =>
    simp only [List.cons_append]
    unfold recvLoopFrom at h ⊢
    cases hs : stepDatagram H cfg wire secret c d with
    | ret p => rfl
    | fail e => rfl
    | cont c' =>
      rw [hs] at h
      exact ih (i + 1) c' h

/-- while the loop is still waiting, its state is the error counter: the history consumed so far
    consisted of unacceptable datagrams only, one count each -/
theorem loop_append_waiting (hist more : List Bytes) (i : Nat) (c : Int)
    (h : recvLoopFrom H cfg wire secret i c hist = .waiting) :
    recvLoopFrom H cfg wire secret i c (hist ++ more) =
      recvLoopFrom H cfg wire secret (i + hist.length) (c + hist.length) more := by
  induction hist generalizing i c with
  | nil => simp
  | cons d ds ih =>
    simp only [List.cons_append]
    unfold recvLoopFrom at h
    rw [recvLoopFrom]
    cases hs : stepDatagram H cfg wire secret c d with
    | ret p => rw [hs] at h; cases h
    | fail e => rw [hs] at h; cases h
    | cont c' =>
      rw [hs] at h
      simp only at h ⊢
      have hc : c' = c + 1 := step_cont_eq H cfg wire secret c d c' hs
      rw [ih (i + 1) c' h, hc]
      simp only [List.length_cons]
      congr 1
      · omega
      · push_cast; omega

/-! ### the loop equals the declarative outcome -/

theorem takeWhile_length_ge {α} (p : α → Bool) (l : List α) (n : Nat) (hn : n ≤ l.length)
    (h : ∀ k d, k < n → l[k]? = some d → p d = true) : n ≤ (l.takeWhile p).length := by
  induction l generalizing n with
  | nil => simpa using hn
  | cons a as ih =>
    cases n with
    | zero => omega
    | succ m =>
      have ha : p a = true := h 0 a (by omega) rfl
      simp only [List.takeWhile_cons, ha, if_true, List.length_cons]
      have := ih m (by simpa using hn) (fun k d hk hd => h (k + 1) d (by omega) (by simpa using hd))
      omega

theorem takeWhile_length_eq {α} (p : α → Bool) (l : List α) (n : Nat) (d : α)
    (h : ∀ k d, k < n → l[k]? = some d → p d = true) (hd : l[n]? = some d) (hp : p d = false) :
    (l.takeWhile p).length = n := by
  induction l generalizing n with
  | nil => simp at hd
  | cons a as ih =>
    cases n with
    | zero =>
      simp at hd; subst hd
      simp [hp]
    | succ m =>
      have ha : p a = true := h 0 a (by omega) rfl
      simp only [List.takeWhile_cons, ha, if_true, List.length_cons]
      have := ih m (fun k d hk hd => h (k + 1) d (by omega) (by simpa using hd)) (by simpa using hd)
      omega

theorem takeWhile_length_all {α} (p : α → Bool) (l : List α) (h : ∀ d, d ∈ l → p d = true) :
    (l.takeWhile p).length = l.length := by
  induction l with
  | nil => rfl
  | cons a as ih =>
    have ha : p a = true := h a (by simp)
    simp only [List.takeWhile_cons, ha, if_true, List.length_cons]
    rw [ih (fun d hd => h d (List.mem_cons_of_mem _ hd))]

theorem recvLoop_eq_outcome (hist : List Bytes) :
    recvLoop H cfg wire secret hist = Spec.outcome H cfg wire secret hist := by
  unfold recvLoop
  cases hr : recvLoopFrom H cfg wire secret 0 0 hist with
  | returned j p =>
    obtain ⟨k, d, hj, hk, hp, hv, hfirst⟩ := loop_returned H cfg wire secret hist 0 0 j p hr
    have hjk : j = k := by omega
    subst hjk
    have hacc : Spec.acceptable H cfg wire secret d = true :=
      (acceptable_iff H cfg wire secret d).2 ⟨p, hp, hv⟩
    have hn : Spec.leadingBad H cfg wire secret hist = j := by
      unfold Spec.leadingBad
      apply takeWhile_length_eq _ hist j d
      · intro k' d' hk' hd'; simp [hfirst k' d' hk' hd']
      · exact hk
      · simp [hacc]
    have hjlt : j < hist.length := by
      rcases List.getElem?_eq_some_iff.1 hk with ⟨hlt, _⟩; exact hlt
    have hnb : ¬ (cfg.maxErrors > 0 ∧ cfg.maxErrors ≤ (j : Int)) := by
      rintro ⟨hm, hle⟩
      -- the loop would have failed at datagram maxErrors - 1
      have hidx : cfg.maxErrors.toNat - 1 < hist.length := by omega
      have hfail : recvLoopFrom H cfg wire secret 0 0 hist =
          .failed (cfg.maxErrors.toNat - 1) (Spec.errClass secret hist[cfg.maxErrors.toNat - 1]) := by
        rw [loop_failed_iff]
        refine ⟨cfg.maxErrors.toNat - 1, hist[cfg.maxErrors.toNat - 1], by omega,
          List.getElem?_eq_getElem hidx, ?_, rfl, hm, by omega, by intro k' hk'; omega⟩
        intro k' d' hk' hd'
        exact hfirst k' d' (by omega) hd'
      rw [hfail] at hr; cases hr
    unfold Spec.outcome
    simp only [hn]
    rw [if_neg hnb]
    simp [hk, hp]
  | failed j e =>
    obtain ⟨k, d, hj, hk, hall, he, hm, hge, hlt⟩ := (loop_failed_iff H cfg wire secret hist 0 0 j e).1 hr
    have hjk : j = k := by omega
    subst hjk
    have hjlt : j < hist.length := by
      rcases List.getElem?_eq_some_iff.1 hk with ⟨h1, _⟩; exact h1
    have hmax : cfg.maxErrors = (j : Int) + 1 := by
      cases j with
      | zero => omega
      | succ j' => have := hlt j' (by omega); omega
    have hn : j + 1 ≤ Spec.leadingBad H cfg wire secret hist := by
      unfold Spec.leadingBad
      apply takeWhile_length_ge _ hist (j + 1) (by omega)
      intro k' d' hk' hd'
      simp [hall k' d' (by omega) hd']
    unfold Spec.outcome
    simp only []
    rw [if_pos ⟨hm, by omega⟩]
    have hidx : cfg.maxErrors.toNat - 1 = j := by omega
    rw [hidx]
    have hd : hist.getD j [] = d := by
      rw [List.getD_eq_getElem?_getD, hk]; rfl
    rw [hd, he]
  | waiting =>
    obtain ⟨hall, hlt⟩ := (loop_waiting_iff H cfg wire secret hist 0 0).1 hr
    have hn : Spec.leadingBad H cfg wire secret hist = hist.length := by
      unfold Spec.leadingBad
      apply takeWhile_length_all
      intro d hd; simp [hall d hd]
    unfold Spec.outcome
    simp only [hn]
    have hnb : ¬ (cfg.maxErrors > 0 ∧ cfg.maxErrors ≤ (hist.length : Int)) := by
      rintro ⟨hm, hle⟩
      have hne : hist ≠ [] := by
        intro h0; subst h0; simp at hle; omega
      have := hlt hm hne
      omega
    rw [if_neg hnb]
    simp

end loop

/-! ## C08: the Exchange logic machine -/
namespace Exchange
open RV.Exchange

variable (H : Hash) (P : Params)

theorem run_nil (s : State) : run H P s [] = s := rfl
theorem run_cons (s : State) (e : Event) (evs : List Event) :
    run H P s (e :: evs) = run H P (step H P s e) evs := rfl
theorem run_append (s : State) (a b : List Event) :
    run H P s (a ++ b) = run H P (run H P s a) b := by
  simp [run, List.foldl_append]

theorem reach_append (a b : List Event) : reach H P (a ++ b) = run H P (reach H P a) b :=
  run_append H P (init P) a b

/-- a property preserved by every step holds after every run -/
theorem run_induction (Q : State → Prop) (hstep : ∀ s e, Q s → Q (step H P s e))
    (s : State) (evs : List Event) (h : Q s) : Q (run H P s evs) := by
  induction evs generalizing s with
  | nil => exact h
  | cons e es ih => exact ih (step H P s e) (hstep s e h)

/-- … and the same for a restricted alphabet of events -/
theorem run_induction_on (Q : State → Prop) (A : Event → Prop)
    (hstep : ∀ s e, A e → Q s → Q (step H P s e))
    (s : State) (evs : List Event) (hA : ∀ e, e ∈ evs → A e) (h : Q s) : Q (run H P s evs) := by
  induction evs generalizing s with
  | nil => exact h
  | cons e es ih =>
    exact ih (step H P s e) (fun e' he' => hA e' (List.mem_cons_of_mem _ he'))
      (hstep s e (hA e (by simp)) h)

/-! ### what a single step can do -/

theorem step_sent (s : State) (e : Event) :
    (step H P s e).sent = s.sent ∨ (step H P s e).sent = s.sent ++ [P.wireBytes] := by
  rcases s with ⟨phase, sent, cc, ha, cd, ec⟩
  cases phase <;> cases e <;> unfold step <;> simp only [finish] <;> (repeat' split) <;> simp

theorem step_returned (s : State) (e : Event) (r : Result) (h : s.phase = .returned r) :
    (step H P s e).phase = .returned r ∧ (step H P s e).sent = s.sent ∧
      (step H P s e).errCount = s.errCount := by
  rcases s with ⟨phase, sent, cc, ha, cd, ec⟩
  simp only at h
  subst h
  cases e <;> (unfold step; simp only) <;> (try split) <;> simp

theorem step_phase_ne_dialing (s : State) (e : Event) (h : s.phase ≠ .dialing) :
    (step H P s e).phase ≠ .dialing := by
  rcases s with ⟨phase, sent, cc, ha, cd, ec⟩
  cases phase with
  | dialing => exact absurd rfl h
  | waiting =>
    cases e <;> (unfold step finish; simp only) <;> (repeat' split) <;> simp
  | returned r =>
    cases e <;> (unfold step; simp only) <;> (try split) <;> simp

theorem step_dial_leaves_dialing (s : State) (e : Event) (he : e = .dialOk ∨ e = .dialFail) :
    (step H P s e).phase ≠ .dialing := by
  by_cases hd : s.phase = .dialing
  · rcases s with ⟨phase, sent, cc, ha, cd, ec⟩
    simp only at hd
    subst hd
    rcases he with rfl | rfl <;> (unfold step; simp)
  · exact step_phase_ne_dialing H P s e hd

/-- the facts about reachable states the property theorems rest on -/
structure Inv (s : State) : Prop where
  dialing_fresh : s.phase = .dialing → s.sent = [] ∧ s.connClosed = true ∧ s.helperAlive = false
  sent_wire : ∀ x, x ∈ s.sent → x = P.wireBytes
  no_retry_one : P.retry ≤ 0 → s.sent.length ≤ 1
  returned_closed : isReturned s = true → s.connClosed = true
  waiting_helper : s.phase = .waiting → s.helperAlive = !s.connClosed
  helper_conn : s.helperAlive = true → s.connClosed = false ∨ isReturned s = true

theorem inv_init : Inv P (init P) := by
  unfold init
  cases P.wire <;> constructor <;> simp [isReturned]

theorem inv_step (s : State) (e : Event) (h : Inv P s) : Inv P (step H P s e) := by
  rcases s with ⟨phase, sent, cc, ha, cd, ec⟩
  obtain ⟨h1, h2, h3, h4, h5, h6⟩ := h
  simp only at h1 h2 h3 h4 h5 h6
  cases phase with
  | dialing =>
    obtain ⟨rfl, rfl, rfl⟩ := h1 rfl
    cases e <;> unfold step <;> simp only <;> constructor <;> simp [isReturned]
  | waiting =>
    have h5' := h5 rfl
    cases e with
    | tick =>
      unfold step; simp only
      split
      · rename_i hc
        constructor
        · simp
        · intro x hx
          simp only [List.mem_append, List.mem_singleton] at hx
          rcases hx with hx | hx
          · exact h2 x hx
          · exact hx
        · intro hr; omega
        · simp [isReturned]
        · simpa using h5'
        · intro hh; exact h6 hh
      · exact ⟨by simp, h2, h3, by simp [isReturned], fun _ => h5', h6⟩
    | datagram d =>
      unfold step; simp only
      split
      · exact ⟨by simp, h2, h3, by simp [isReturned], fun _ => h5', h6⟩
      · split
        · exact ⟨by simp [finish], h2, h3, by simp [finish], by simp [finish], by simp [finish, isReturned]⟩
        · exact ⟨by simp [finish], h2, h3, by simp [finish], by simp [finish], by simp [finish, isReturned]⟩
        · exact ⟨by simp, h2, h3, by simp [isReturned], fun _ => h5', h6⟩
    | helperObservesCtx =>
      unfold step; simp only
      split
      · exact ⟨by simp, h2, h3, by simp, by simp, by simp⟩
      · exact ⟨by simp, h2, h3, by simp [isReturned], fun _ => h5', h6⟩
    | dialOk => unfold step; exact ⟨by simp, h2, h3, by simp [isReturned], fun _ => h5', h6⟩
    | dialFail => unfold step; exact ⟨by simp, h2, h3, by simp [isReturned], fun _ => h5', h6⟩
    | ctxDone =>
      unfold step
      exact ⟨by simp, h2, h3, by simp [isReturned], fun _ => h5', by simpa [isReturned] using h6⟩
    | readError =>
      unfold step
      exact ⟨by simp [finish], h2, h3, by simp [finish], by simp [finish], by simp [finish, isReturned]⟩
  | returned r =>
    have h4' : cc = true := h4 (by simp [isReturned])
    subst h4'
    cases e <;> unfold step <;> simp only <;> (try split) <;>
      exact ⟨by simp, h2, h3, by simp [isReturned], by simp, by simp [isReturned]⟩

theorem inv_run (evs : List Event) : Inv P (run H P (init P) evs) :=
  run_induction H P (Inv P) (inv_step H P) (init P) evs (inv_init P)

/-! ### after the return -/

theorem run_returned (s : State) (evs : List Event) (r : Result) (h : s.phase = .returned r) :
    (run H P s evs).phase = .returned r ∧ (run H P s evs).sent = s.sent := by
  induction evs generalizing s with
  | nil => exact ⟨h, rfl⟩
  | cons e es ih =>
    obtain ⟨hp, hs, _⟩ := step_returned H P s e r h
    obtain ⟨hp', hs'⟩ := ih (step H P s e) hp
    exact ⟨hp', by rw [run_cons, hs', hs]⟩

theorem isReturned_iff (s : State) : isReturned s = true ↔ ∃ r, s.phase = .returned r := by
  unfold isReturned
  cases s.phase <;> simp

theorem run_isReturned (s : State) (evs : List Event) (h : isReturned s = true) :
    isReturned (run H P s evs) = true := by
  obtain ⟨r, hr⟩ := (isReturned_iff s).1 h
  exact (isReturned_iff _).2 ⟨r, (run_returned H P s evs r hr).1⟩

theorem run_phase_ne_dialing (s : State) (evs : List Event) (h : s.phase ≠ .dialing) :
    (run H P s evs).phase ≠ .dialing :=
  run_induction H P (fun s => s.phase ≠ .dialing) (fun s e => step_phase_ne_dialing H P s e) s evs h

/-- the helper, once gone, stays gone (it is started once, by the successful dial) -/
theorem step_helper_dead (s : State) (e : Event) (hp : s.phase ≠ .dialing) (h : s.helperAlive = false) :
    (step H P s e).helperAlive = false := by
  rcases s with ⟨phase, sent, cc, ha, cd, ec⟩
  simp only at h
  subst h
  cases phase with
  | dialing => exact absurd rfl hp
  | waiting => cases e <;> (unfold step finish; simp only) <;> (repeat' split) <;> simp_all
  | returned r => cases e <;> (unfold step; simp only) <;> (try split) <;> simp_all

theorem run_helper_dead (s : State) (evs : List Event) (hp : s.phase ≠ .dialing) (h : s.helperAlive = false) :
    (run H P s evs).helperAlive = false := by
  have := run_induction H P (fun s => s.phase ≠ .dialing ∧ s.helperAlive = false)
    (fun s e hs => ⟨step_phase_ne_dialing H P s e hs.1, step_helper_dead H P s e hs.1 hs.2⟩) s evs ⟨hp, h⟩
  exact this.2

/-! ### read completions -/

theorem step_readError (s : State) (h : s.phase = .waiting) :
    (step H P s .readError).phase = .returned (if s.ctxDone then .ctxErr else .netErr) := by
  rcases s with ⟨phase, sent, cc, ha, cd, ec⟩
  simp only at h
  subst h
  (unfold step finish; simp)

theorem step_readError_returned (s : State) (h : s.phase ≠ .dialing) :
    isReturned (step H P s .readError) = true := by
  rcases s with ⟨phase, sent, cc, ha, cd, ec⟩
  cases phase with
  | dialing => exact absurd rfl h
  | waiting => (unfold step finish; simp [isReturned])
  | returned r => (unfold step; simp [isReturned])

theorem step_datagram_closed (s : State) (d : Bytes) (h : s.phase = .waiting) (hc : s.connClosed = true) :
    step H P s (.datagram d) = s := by
  rcases s with ⟨phase, sent, cc, ha, cd, ec⟩
  simp only at h hc
  subst h; subst hc
  (unfold step; simp)

theorem step_datagram_open (s : State) (d : Bytes) (h : s.phase = .waiting) (hc : s.connClosed = false) :
    step H P s (.datagram d) =
      match stepDatagram H P.cfg P.wireBytes P.secret s.errCount d with
      | .ret p => finish s (.reply p)
      | .fail err => finish s (.pktErr err)
      | .cont c => { s with errCount := c } := by
  rcases s with ⟨phase, sent, cc, ha, cd, ec⟩
  simp only at h hc
  subst h; subst hc
  unfold step
  simp only [Bool.false_eq_true, ↓reduceIte]
  cases stepDatagram H P.cfg P.wireBytes P.secret ec d <;> rfl

/-- the state the call is in once the helper has seen the cancelled context: the conn is closed, so
    no datagram is delivered any more; only the read error remains -/
def CtxClosed (s : State) : Prop :=
  s.phase = .waiting ∧ s.connClosed = true ∧ s.helperAlive = false ∧ s.ctxDone = true

theorem step_ctxClosed (s : State) (e : Event) (he : e ≠ .readError) (h : CtxClosed s) :
    CtxClosed (step H P s e) := by
  rcases s with ⟨phase, sent, cc, ha, cd, ec⟩
  obtain ⟨h1, h2, h3, h4⟩ := h
  simp only at h1 h2 h3 h4
  subst h1; subst h2; subst h3; subst h4
  cases e <;> (unfold step; simp_all [CtxClosed])

theorem run_ctxClosed (s : State) (evs : List Event) (he : ∀ e, e ∈ evs → e ≠ .readError)
    (h : CtxClosed s) : CtxClosed (run H P s evs) :=
  run_induction_on H P CtxClosed (fun e => e ≠ .readError) (fun s e => step_ctxClosed H P s e) s evs he h

/-- while the helper has not closed it, the conn of a waiting call is open -/
theorem step_open (s : State) (e : Event) (he : e ≠ .helperObservesCtx)
    (h : s.phase = .waiting → s.connClosed = false) :
    (step H P s e).phase = .waiting → (step H P s e).connClosed = false := by
  rcases s with ⟨phase, sent, cc, ha, cd, ec⟩
  cases phase with
  | dialing => cases e <;> (unfold step; simp_all)
  | waiting =>
    have hc : cc = false := by simpa using h
    subst hc
    cases e <;> (unfold step finish; simp only) <;> (repeat' split) <;> simp_all
  | returned r => cases e <;> (unfold step; simp only) <;> (try split) <;> simp_all


/-! ### the context chain -/

theorem step_ctxDone_flag (s : State) : (step H P s .ctxDone).ctxDone = true := by
  rcases s with ⟨phase, sent, cc, ha, cd, ec⟩
  cases phase <;> (unfold step; simp)

theorem step_ctxDone_sticky (s : State) (e : Event) (h : s.ctxDone = true) : (step H P s e).ctxDone = true := by
  rcases s with ⟨phase, sent, cc, ha, cd, ec⟩
  simp only at h
  subst h
  cases phase <;> cases e <;> unfold step <;> simp only [finish] <;> (repeat' split) <;> rfl

theorem run_ctxDone_sticky (s : State) (evs : List Event) (h : s.ctxDone = true) :
    (run H P s evs).ctxDone = true :=
  run_induction H P (fun s => s.ctxDone = true) (fun s e => step_ctxDone_sticky H P s e) s evs h

/-- a waiting call whose context is done: once the helper takes its `ctx.Done()` case the conn is
    closed and nothing was written meanwhile -/
theorem step_helper_closes (s : State) (hi : Inv P s) (hw : s.phase = .waiting) (hc : s.ctxDone = true) :
    CtxClosed (step H P s .helperObservesCtx) ∧ (step H P s .helperObservesCtx).sent = s.sent := by
  have hh := hi.waiting_helper hw
  rcases s with ⟨phase, sent, cc, ha, cd, ec⟩
  simp only at hw hc hh
  subst hw; subst hc; subst hh
  cases cc <;> (unfold step; simp [CtxClosed, helperCtxDone])

theorem step_ctxDone_waiting (s : State) (hw : s.phase = .waiting) :
    (step H P s .ctxDone).phase = .waiting ∧ (step H P s .ctxDone).sent = s.sent := by
  rcases s with ⟨phase, sent, cc, ha, cd, ec⟩
  simp only at hw
  subst hw
  unfold step; simp

/-- with the conn closed by the helper nothing is ever written again -/
theorem run_ctxClosed_sent (s : State) (evs : List Event) (h : CtxClosed s) :
    (run H P s evs).sent = s.sent := by
  induction evs generalizing s with
  | nil => rfl
  | cons e es ih =>
    rw [run_cons]
    by_cases he : e = .readError
    · subst he
      have hr := step_readError_returned H P s (by rw [h.1]; simp)
      obtain ⟨r, hr⟩ := (isReturned_iff _).1 hr
      rw [(run_returned H P _ es r hr).2]
      obtain ⟨h1, _, _, _⟩ := h
      rcases s with ⟨phase, sent, cc, ha, cd, ec⟩
      simp only at h1
      subst h1
      unfold step finish; simp
    · rw [ih _ (step_ctxClosed H P s e he h)]
      obtain ⟨h1, h2, h3, h4⟩ := h
      rcases s with ⟨phase, sent, cc, ha, cd, ec⟩
      simp only at h1 h2 h3 h4
      subst h1; subst h2; subst h3; subst h4
      cases e <;> first | exact absurd rfl he | (unfold step; simp)

theorem ctxClosed_readError (s : State) (mid post : List Event) (h : CtxClosed s)
    (hmid : ∀ e, e ∈ mid → e ≠ .readError) :
    (run H P s (mid ++ .readError :: post)).phase = .returned .ctxErr := by
  rw [run_append, run_cons]
  have hm := run_ctxClosed H P s mid hmid h
  have := step_readError H P _ hm.1
  rw [hm.2.2.2] at this
  exact (run_returned H P _ post _ this).1

/-- before a successful dial the call is still dialing or has returned -/
theorem run_no_dialOk (evs : List Event) (h : .dialOk ∉ evs) :
    (run H P (init P) evs).phase = .dialing ∨ isReturned (run H P (init P) evs) = true := by
  apply run_induction_on H P (fun s => s.phase = .dialing ∨ isReturned s = true) (fun e => e ≠ .dialOk)
  · intro s e he hs
    rcases hs with hs | hs
    · rcases s with ⟨phase, sent, cc, ha, cd, ec⟩
      simp only at hs
      subst hs
      cases e <;> (unfold step; simp_all [isReturned])
    · right
      obtain ⟨r, hr⟩ := (isReturned_iff _).1 hs
      exact (isReturned_iff _).2 ⟨r, (step_returned H P s e r hr).1⟩
  · intro e he heq
    exact h (heq ▸ he)
  · unfold init
    cases P.wire <;> simp [isReturned]

theorem step_dialFail_returned (s : State) (h : s.phase = .dialing ∨ isReturned s = true) :
    isReturned (step H P s .dialFail) = true := by
  rcases h with h | h
  · rcases s with ⟨phase, sent, cc, ha, cd, ec⟩
    simp only at h
    subst h
    unfold step; simp [isReturned]
  · obtain ⟨r, hr⟩ := (isReturned_iff _).1 h
    exact (isReturned_iff _).2 ⟨r, (step_returned H P s _ r hr).1⟩

theorem run_open_until_helper (evs : List Event) (h : .helperObservesCtx ∉ evs) :
    (run H P (init P) evs).phase = .waiting → (run H P (init P) evs).connClosed = false := by
  apply run_induction_on H P (fun s => s.phase = .waiting → s.connClosed = false) (fun e => e ≠ .helperObservesCtx)
  · intro s e he hs
    exact step_open H P s e he hs
  · intro e he heq
    exact h (heq ▸ he)
  · unfold init
    cases P.wire <;> simp

theorem run_past_dial (a b : List Event) (dial : Event) (hd : dial = .dialOk ∨ dial = .dialFail) :
    (run H P (init P) (a ++ dial :: b)).phase ≠ .dialing := by
  rw [run_append, run_cons]
  exact run_phase_ne_dialing H P _ b (step_dial_leaves_dialing H P _ dial hd)

theorem step_helper_exit (s : State) (r : Result) (h : s.phase = .returned r) :
    (step H P s .helperObservesCtx).helperAlive = false := by
  rcases s with ⟨phase, sent, cc, ha, cd, ec⟩
  simp only at h
  subst h
  cases ha <;> (unfold step; simp)

end Exchange
end RV
