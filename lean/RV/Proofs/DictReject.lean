/-
  C16: refusals the audit asked for — `encrypt=` values that are no signed 32-bit literal, malformed
  `octets[n]`, wrong field counts, unknown keywords.  Lemmas for the rejection theorems of RV.Props.C16.
-/
import RV.Proofs.DictLines
namespace RV.DictParser
open RV RV.Dict RV.DictParser.Spec RV.DictParser.Grammar

/-! ### strings that are no signed 32-bit literal -/

theorem parseInt32_none_iff (s : Bytes) : parseInt32 s = none ↔ ∀ n, ¬ Int32Lit s n := by
  constructor
  · intro h n hn
    rw [(parseInt32_iff s n).mpr hn] at h; cases h
  · intro h
    cases hp : parseInt32 s with
    | none => rfl
    | some n => exact absurd ((parseInt32_iff s n).mp hp) (h n)

/-- non-numeric: a byte that is neither digit nor sign -/
theorem not_int32Lit_of_nondigit (s : Bytes) (h : ∃ b ∈ s, isDigit b = false ∧ b ≠ 43 ∧ b ≠ 45) : ∀ n, ¬ Int32Lit s n :=
  (parseInt32_none_iff s).mp (parseInt32_bad s h)

/-- the empty string -/
theorem not_int32Lit_nil : ∀ n, ¬ Int32Lit [] n := (parseInt32_none_iff []).mp rfl

/-- out of range: the decimal spelling of a number ≥ 2³¹ -/
theorem not_int32Lit_of_big (v : Nat) (h : 2 ^ 31 ≤ v) : ∀ n, ¬ Int32Lit (showDec v) n := by
  apply (parseInt32_none_iff _).mp
  obtain ⟨d, ds, hs, hdig⟩ := showDec_head_digit v
  have hd := decNat_showDec v
  have hne := isDigit_ne hdig
  rw [hs] at hd ⊢
  simp only [parseInt32, hne.1, hne.2.1, Bool.false_eq_true, if_false, hd, Option.bind_some]
  have : ¬ v < 2 ^ 31 := by omega
  simp [this]

/-- out of range below: `-` and the decimal spelling of a number > 2³¹ -/
theorem not_int32Lit_of_small (v : Nat) (h : 2 ^ 31 < v) : ∀ n, ¬ Int32Lit (45 :: showDec v) n := by
  apply (parseInt32_none_iff _).mp
  have hd := decNat_showDec v
  have h1 : ((45 : UInt8) == 43) = false := by decide
  simp only [parseInt32, h1, Bool.false_eq_true, if_false, beq_self_eq_true, if_true, hd, Option.bind_some]
  have : ¬ v ≤ 2 ^ 31 := by omega
  simp [this]

/-! ### `encrypt=` with a bad value -/

theorem parseFlags_bad_encrypt (bad : Bytes) (more : List Bytes) (a : Attribute) (hfirst : a.encrypt = none)
    (hbad : ∀ n, ¬ Int32Lit bad n) :
    parseFlags ((kwEncrypt ++ bad) :: more) a = .error .invalidAttributeEncryptType := by
  have ht : (kwEncrypt ++ bad).take 8 = kwEncrypt := by simp [kwEncrypt]
  have hd : (kwEncrypt ++ bad).drop 8 = bad := by simp [kwEncrypt]
  simp [parseFlags, ht, hd, hfirst, (parseInt32_none_iff bad).mpr hbad]

/-! ### type tokens that begin with `octets[` -/

/-- a token that begins with a case variant of the lower-case string `a` folds only to names that
    begin with `a` -/
theorem foldEq_applyCase_append (m : List Bool) (a r t : Bytes) (ha : a.all lowerTok = true)
    (ht : t.all lowerTok = true) (h : foldEq (applyCase m a ++ r) t = true) : t.take a.length = a := by
  induction a generalizing m t with
  | nil => rfl
  | cons c a ih =>
    simp only [List.all_cons, Bool.and_eq_true] at ha
    rw [applyCase_cons, List.cons_append] at h
    cases t with
    | nil => simp at h
    | cons d t =>
      simp only [List.all_cons, Bool.and_eq_true] at ht
      have hasc := caseOf_ascii (m.headD false) c ha.1
      by_cases hm : (caseOf (m.headD false) c == d || (65 ≤ caseOf (m.headD false) c && caseOf (m.headD false) c ≤ 90 &&
          caseOf (m.headD false) c + 32 == d)) = true
      · rw [foldEq_cons_of_match _ _ _ _ hm] at h
        simp only [List.length_cons, List.take_succ_cons, List.cons.injEq]
        exact ⟨(caseOf_inj _ c d ha.1 ht.1 hm).symm, ih _ _ ha.2 ht.2 h⟩
      · rw [foldEq_cons_of_nomatch _ _ _ _ hm hasc.1 hasc.2] at h
        exact absurd h (by simp)


theorem names_not_octetsBr : nmString.take 7 ≠ kwOctetsBr ∧ nmOctets.take 7 ≠ kwOctetsBr ∧
    typeTable.all (fun e => e.1.take 7 != kwOctetsBr && e.1.all lowerTok) = true := by decide

/-- a type token that begins with `octets[` (any letter case) and is not `octets[` + a signed 32-bit
    literal + `]` is no type: missing `]`, empty or non-numeric or out-of-range size -/
theorem parseType_octetsBr_error (m : List Bool) (r : Bytes) (h : ∀ lit n, r = lit ++ [93] → ¬ Int32Lit lit n) :
    parseType (applyCase m kwOctetsBr ++ r) = .error .unknownAttributeType := by
  have hlow : kwOctetsBr.all lowerTok = true := by decide
  have hno : ∀ name : Bytes, name.all lowerTok = true → name.take 7 ≠ kwOctetsBr →
      foldEq (applyCase m kwOctetsBr ++ r) name = false := by
    intro name hl hne
    apply Bool.eq_false_iff.mpr
    intro hf
    exact hne (foldEq_applyCase_append m kwOctetsBr r name hlow hl hf)
  have hs1 := hno nmString (by decide) names_not_octetsBr.1
  have hs2 := hno nmOctets (by decide) names_not_octetsBr.2.1
  have htab : typeTable.find? (fun e => foldEq (applyCase m kwOctetsBr ++ r) e.1) = none := by
    rw [List.find?_eq_none]
    intro e he
    have := List.all_eq_true.mp names_not_octetsBr.2.2 e he
    simp only [Bool.and_eq_true, bne_iff_ne, ne_eq] at this
    simp [hno e.1 this.2 this.1]
  have htake : (applyCase m kwOctetsBr ++ r).take 7 = applyCase m kwOctetsBr := by
    rw [List.take_append_of_le_length (by simp [kwOctetsBr])]
    exact List.take_of_length_le (by simp [kwOctetsBr])
  have hdrop : (applyCase m kwOctetsBr ++ r).drop 7 = r := by
    rw [List.drop_append_of_le_length (by simp [kwOctetsBr])]
    rw [List.drop_of_length_le (by simp [kwOctetsBr])]
    simp
  unfold parseType
  simp only [hs1, hs2, Bool.false_eq_true, if_false, htake, foldEq_applyCase, hdrop, htab]
  split
  · rename_i hc
    simp only [Bool.and_eq_true, decide_eq_true_eq, beq_iff_eq] at hc
    obtain ⟨hlen, hlast⟩ := hc
    have hr : r ≠ [] := by
      intro h0; subst h0
      simp [kwOctetsBr] at hlen
    have hlast' : r.getLast? = some 93 := by
      rw [List.getLast?_append] at hlast
      cases hg : r.getLast? with
      | none => exact absurd (List.getLast?_eq_none_iff.mp hg) hr
      | some x => rw [hg] at hlast; simpa using hlast
    have hsplit : r = r.dropLast ++ [93] := by
      obtain ⟨ys, hys⟩ := List.getLast?_eq_some_iff.mp hlast'
      rw [hys]; simp
    cases hp : parseInt32 r.dropLast with
    | none => rfl
    | some n => exact absurd ((parseInt32_iff _ n).mp hp) (h _ n hsplit)
  · rfl

/-! ### field counts -/

section shape
theorem shapeOK_attribute (args : List Bytes) : shapeOK (kwATTRIBUTE :: args) = (args.length == 3 || args.length == 4) := by
  have h1 : (kwATTRIBUTE == kwVALUE) = false := by decide
  have h2 : (kwATTRIBUTE == kwVENDOR) = false := by decide
  have h3 : (kwATTRIBUTE == kwBEGIN) = false := by decide
  have h4 : (kwATTRIBUTE == kwEND) = false := by decide
  have h5 : (kwATTRIBUTE == kwINCLUDE) = false := by decide
  simp [shapeOK, h1, h2, h3, h4, h5]

theorem shapeOK_value (args : List Bytes) : shapeOK (kwVALUE :: args) = (args.length == 3) := by
  have h1 : (kwVALUE == kwATTRIBUTE) = false := by decide
  have h2 : (kwVALUE == kwVENDOR) = false := by decide
  have h3 : (kwVALUE == kwBEGIN) = false := by decide
  have h4 : (kwVALUE == kwEND) = false := by decide
  have h5 : (kwVALUE == kwINCLUDE) = false := by decide
  simp [shapeOK, h1, h2, h3, h4, h5]

theorem shapeOK_vendor (args : List Bytes) : shapeOK (kwVENDOR :: args) = (args.length == 2 || args.length == 3) := by
  have h1 : (kwVENDOR == kwATTRIBUTE) = false := by decide
  have h2 : (kwVENDOR == kwVALUE) = false := by decide
  have h3 : (kwVENDOR == kwBEGIN) = false := by decide
  have h4 : (kwVENDOR == kwEND) = false := by decide
  have h5 : (kwVENDOR == kwINCLUDE) = false := by decide
  simp [shapeOK, h1, h2, h3, h4, h5]

theorem shapeOK_begin (args : List Bytes) : shapeOK (kwBEGIN :: args) = (args.length == 1) := by
  have h1 : (kwBEGIN == kwATTRIBUTE) = false := by decide
  have h2 : (kwBEGIN == kwVALUE) = false := by decide
  have h3 : (kwBEGIN == kwVENDOR) = false := by decide
  simp [shapeOK, h1, h2, h3]

theorem shapeOK_end (args : List Bytes) : shapeOK (kwEND :: args) = (args.length == 1) := by
  have h1 : (kwEND == kwATTRIBUTE) = false := by decide
  have h2 : (kwEND == kwVALUE) = false := by decide
  have h3 : (kwEND == kwVENDOR) = false := by decide
  have h4 : (kwEND == kwBEGIN) = false := by decide
  simp [shapeOK, h1, h2, h3, h4]

theorem shapeOK_include' (args : List Bytes) : shapeOK (kwINCLUDE :: args) = (args.length == 1) := by
  obtain ⟨h1, h2, h3, h4, h5⟩ := kw_ne
  simp [shapeOK, h1, h2, h3, h4, h5]

/-- a first field that is none of the six keywords -/
theorem shapeOK_unknown_keyword (kw : Bytes) (args : List Bytes) (h1 : kw ≠ kwATTRIBUTE) (h2 : kw ≠ kwVALUE)
    (h3 : kw ≠ kwVENDOR) (h4 : kw ≠ kwBEGIN) (h5 : kw ≠ kwEND) (h6 : kw ≠ kwINCLUDE) : shapeOK (kw :: args) = false := by
  simp [shapeOK, h1, h2, h3, h4, h5, h6]
end shape

/-! ### the comment rule, as a specification -/

/-- `stripComment l` is the longest prefix of `l` without `#`: everything from the first `#` on is dropped -/
theorem stripComment_iff (l p : Bytes) :
    Lex.stripComment l = p ↔ (∀ b ∈ p, b ≠ 35) ∧ (l = p ∨ ∃ c, l = p ++ 35 :: c) := by
  constructor
  · rintro rfl
    induction l with
    | nil => exact ⟨by simp [Lex.stripComment], Or.inl rfl⟩
    | cons b rest ih =>
      by_cases hb : b = 35
      · subst hb
        exact ⟨by simp [Lex.stripComment], Or.inr ⟨rest, by simp [Lex.stripComment]⟩⟩
      · have hs : Lex.stripComment (b :: rest) = b :: Lex.stripComment rest := by
          simp [Lex.stripComment, hb]
        rw [hs]
        refine ⟨?_, ?_⟩
        · intro x hx
          rcases List.mem_cons.mp hx with rfl | hx
          · exact hb
          · exact ih.1 x hx
        · rcases ih.2 with h | ⟨c, h⟩
          · exact Or.inl (by rw [← h])
          · exact Or.inr ⟨c, by rw [List.cons_append, ← h]⟩
  · rintro ⟨hp, rfl | ⟨c, rfl⟩⟩
    · exact stripComment_of_noHash l (by simpa [List.all_eq_true] using hp)
    · exact stripComment_append_hash p c (by simpa [List.all_eq_true] using hp)

end RV.DictParser

