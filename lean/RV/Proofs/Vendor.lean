/-
  Helper lemmas for C14 (vendor-specific helpers).  The specification-level decomposition of a
  Vendor-Specific payload (`vsaParse` / `vsaRender`) is defined here, independently of the model's
  walkers (`vsaHead`, `vsaGets`, `vsaDel`), and the walkers are characterised through it.
-/
import RV.Model.Vendor
import RV.Proofs.Codec
import RV.Proofs.Wire
namespace RV

/-! ### Specification: a payload is a list of well-formed sub-attributes followed by a residue -/

/-- well-formed prefix as (type, value) pairs, then the residue starting at the first malformed
    length octet (< 3 or beyond the end) or when fewer than 3 bytes remain.  Model-free. -/
def vsaParse : Bytes → List (UInt8 × Bytes) × Bytes
  | t :: l :: rest =>
    if 3 ≤ l.toNat ∧ l.toNat - 2 ≤ rest.length then
      let r := vsaParse (rest.drop (l.toNat - 2))
      ((t, rest.take (l.toNat - 2)) :: r.1, r.2)
    else ([], t :: l :: rest)
  | p => ([], p)
termination_by p => p.length
decreasing_by simp; omega

/-- wire form of a list of sub-attributes: type, length (= 2 + |value|), value -/
def vsaRender : List (UInt8 × Bytes) → Bytes
  | [] => []
  | (t, v) :: ps => t :: UInt8.ofNat (2 + v.length) :: (v ++ vsaRender ps)

/-- a (type, value) pair that can be a sub-attribute: value of 1..253 bytes -/
def subOK (p : UInt8 × Bytes) : Prop := 1 ≤ p.2.length ∧ p.2.length ≤ 253

/-- nothing more can be walked -/
def vsaStuck (r : Bytes) : Prop := vsaParse r = ([], r)

theorem vsaParse_nil : vsaParse [] = ([], []) := by
  unfold vsaParse; rfl

theorem vsaParse_single (t : UInt8) : vsaParse [t] = ([], [t]) := by
  unfold vsaParse; rfl

theorem vsaParse_cons (t l : UInt8) (rest : Bytes) :
    vsaParse (t :: l :: rest) =
      if 3 ≤ l.toNat ∧ l.toNat - 2 ≤ rest.length then
        ((t, rest.take (l.toNat - 2)) :: (vsaParse (rest.drop (l.toNat - 2))).1,
         (vsaParse (rest.drop (l.toNat - 2))).2)
      else ([], t :: l :: rest) := by
  rw [vsaParse]

theorem vsaRender_append (ps qs : List (UInt8 × Bytes)) :
    vsaRender (ps ++ qs) = vsaRender ps ++ vsaRender qs := by
  induction ps with
  | nil => rfl
  | cons p ps ih => obtain ⟨t, v⟩ := p; simp [vsaRender, ih]

/-- lossless: the pairs and the residue together are the payload, byte for byte -/
theorem vsaParse_lossless (p : Bytes) : vsaRender (vsaParse p).1 ++ (vsaParse p).2 = p := by
  induction p using vsaParse.induct with
  | case1 t l rest h ih =>
    rw [vsaParse_cons, if_pos h]
    simp only [vsaRender]
    have hl : UInt8.ofNat (2 + (List.take (l.toNat - 2) rest).length) = l := by
      rw [List.length_take, Nat.min_eq_left h.2]
      have : 2 + (l.toNat - 2) = l.toNat := by omega
      rw [this]; exact UInt8.ofNat_toNat
    rw [hl]
    simp only [List.cons_append, List.append_assoc]
    rw [ih, List.take_append_drop]
  | case2 t l rest h => rw [vsaParse_cons, if_neg h]; rfl
  | case3 p hp =>
    match p with
    | [] => rw [vsaParse_nil]; rfl
    | [t] => rw [vsaParse_single]; rfl
    | t :: l :: rest => exact absurd rfl (hp t l rest)

/-- every parsed pair has a value of 1..253 bytes -/
theorem vsaParse_subOK (p : Bytes) : ∀ q ∈ (vsaParse p).1, subOK q := by
  induction p using vsaParse.induct with
  | case1 t l rest h ih =>
    rw [vsaParse_cons, if_pos h]
    intro q hq
    simp only [List.mem_cons] at hq
    rcases hq with rfl | hq
    · have := u8_lt l
      simp only [subOK, List.length_take]; omega
    · exact ih q hq
  | case2 t l rest h => rw [vsaParse_cons, if_neg h]; simp
  | case3 p hp =>
    match p with
    | [] => rw [vsaParse_nil]; simp
    | [t] => rw [vsaParse_single]; simp
    | t :: l :: rest => exact absurd rfl (hp t l rest)

/-- the residue cannot be walked any further -/
theorem vsaParse_stuck (p : Bytes) : vsaStuck (vsaParse p).2 := by
  induction p using vsaParse.induct with
  | case1 t l rest h ih => rw [vsaParse_cons, if_pos h]; exact ih
  | case2 t l rest h =>
    rw [vsaParse_cons, if_neg h]; simp only [vsaStuck]; rw [vsaParse_cons, if_neg h]
  | case3 p hp =>
    match p with
    | [] => rw [vsaParse_nil]; exact vsaParse_nil
    | [t] => rw [vsaParse_single]; exact vsaParse_single t
    | t :: l :: rest => exact absurd rfl (hp t l rest)

/-- parsing what was rendered gives the pairs back (values 1..253 bytes, residue stuck) -/
theorem vsaParse_render (ps : List (UInt8 × Bytes)) (r : Bytes) (hps : ∀ q ∈ ps, subOK q)
    (hr : vsaStuck r) : vsaParse (vsaRender ps ++ r) = (ps, r) := by
  induction ps with
  | nil => exact hr
  | cons q ps ih =>
    obtain ⟨t, v⟩ := q
    have hq : subOK (t, v) := hps _ (List.mem_cons_self)
    simp only [subOK] at hq
    simp only [vsaRender, List.cons_append, List.append_assoc]
    rw [vsaParse_cons]
    have hl : (UInt8.ofNat (2 + v.length)).toNat = 2 + v.length := u8_ofNat_toNat_lt (by omega)
    rw [hl, if_pos (by simp; omega)]
    have : 2 + v.length - 2 = v.length := by omega
    rw [this, List.take_left', List.drop_left', ih (fun q hq => hps q (List.mem_cons_of_mem _ hq))]
    all_goals rfl

theorem vsaStuck_nil : vsaStuck [] := vsaParse_nil

/-! ### the model's walkers in terms of the decomposition -/

theorem vsaHead_cons (t l : UInt8) (rest : Bytes) :
    vsaHead (t :: l :: rest) =
      if 3 ≤ l.toNat ∧ l.toNat - 2 ≤ rest.length then
        some (t, t :: l :: rest.take (l.toNat - 2), rest.drop (l.toNat - 2))
      else none := by
  simp only [vsaHead]
  by_cases h : 3 ≤ l.toNat ∧ l.toNat - 2 ≤ rest.length
  · rw [if_pos h, if_neg (by simp only [List.length_cons]; omega)]
    obtain ⟨k, hk⟩ : ∃ k, l.toNat = k + 2 := ⟨l.toNat - 2, by omega⟩
    simp [hk]
  · rw [if_neg h, if_pos (by simp only [List.length_cons]; omega)]

theorem vsaHead_nil : vsaHead [] = none := rfl
theorem vsaHead_single (t : UInt8) : vsaHead [t] = none := rfl

theorem vsaGets_eq (typ : UInt8) (p : Bytes) :
    vsaGets typ p = ((vsaParse p).1.filter (fun q => q.1 = typ)).map (·.2) := by
  induction p using vsaParse.induct with
  | case1 t l rest h ih =>
    rw [vsaGets]
    split
    · rename_i heq; rw [vsaHead_cons, if_pos h] at heq; cases heq
    · rename_i t' sub rest' heq
      rw [vsaHead_cons, if_pos h] at heq
      cases heq
      rw [vsaParse_cons, if_pos h]
      by_cases ht : t = typ
      · simp [ht, ih]
      · simp [ht, ih]
  | case2 t l rest h =>
    rw [vsaGets]
    split
    · rw [vsaParse_cons, if_neg h]; rfl
    · rename_i heq; rw [vsaHead_cons, if_neg h] at heq; cases heq
  | case3 p hp =>
    match p with
    | [] => rw [vsaParse_nil, vsaGets]; split <;> simp_all [vsaHead_nil]
    | [t] => rw [vsaParse_single, vsaGets]; split <;> simp_all [vsaHead_single]
    | t :: l :: rest => exact absurd rfl (hp t l rest)

theorem vsaDel_eq (typ : UInt8) (p : Bytes) :
    vsaDel typ p =
      (vsaRender ((vsaParse p).1.filter (fun q => q.1 ≠ typ)) ++ (vsaParse p).2,
       (vsaParse p).1.any (fun q => q.1 = typ)) := by
  induction p using vsaParse.induct with
  | case1 t l rest h ih =>
    rw [vsaDel]
    split
    · rename_i heq; rw [vsaHead_cons, if_pos h] at heq; cases heq
    · rename_i t' sub rest' heq
      rw [vsaHead_cons, if_pos h] at heq
      cases heq
      rw [vsaParse_cons, if_pos h, ih]
      have hl : UInt8.ofNat (2 + (List.take (l.toNat - 2) rest).length) = l := by
        rw [List.length_take, Nat.min_eq_left h.2]
        have : 2 + (l.toNat - 2) = l.toNat := by omega
        rw [this]; exact UInt8.ofNat_toNat
      by_cases ht : t = typ
      · simp [ht]
      · rw [List.filter_cons_of_pos (by simpa using ht), vsaRender, hl]
        simp [ht]
  | case2 t l rest h =>
    rw [vsaDel]
    split
    · rw [vsaParse_cons, if_neg h]; rfl
    · rename_i heq; rw [vsaHead_cons, if_neg h] at heq; cases heq
  | case3 p hp =>
    match p with
    | [] => rw [vsaParse_nil, vsaDel]; split <;> simp_all [vsaHead_nil, vsaRender]
    | [t] => rw [vsaParse_single, vsaDel]; split <;> simp_all [vsaHead_single, vsaRender]
    | t :: l :: rest => exact absurd rfl (hp t l rest)

/-! ### Specification-level vocabulary over the packet -/

/-- the attribute is a Vendor-Specific attribute (type 26) that `radius.VendorSpecific` accepts
    (at least 5 bytes) and whose vendor id is `vid` -/
def isVendorAttr (vid : Nat) (a : AVP) : Bool :=
  decide (a.typ = 26) && decide (5 ≤ a.val.length) && decide (beNat (a.val.take 4) = vid)

/-- a payload with the sub-attributes of type `typ` of its well-formed prefix removed and every
    other byte (other sub-attributes, residue) kept in order -/
def vsaWithout (typ : UInt8) (p : Bytes) : Bytes :=
  vsaRender ((vsaParse p).1.filter (fun q => q.1 ≠ typ)) ++ (vsaParse p).2

/-- everything a Set/Del of (vendor, type) must preserve, in packet order: every attribute that
    is not a Vendor-Specific attribute of this vendor (`inl`, verbatim), and for each of this
    vendor's attributes its payload without the type's sub-attributes (`inr`), unless that is
    empty -/
def othersView (vid : Nat) (typ : UInt8) (as : Attrs) : List (AVP ⊕ Bytes) :=
  as.flatMap fun a =>
    if isVendorAttr vid a then
      (if vsaWithout typ (a.val.drop 4) = [] then [] else [.inr (vsaWithout typ (a.val.drop 4))])
    else [.inl a]

theorem vendorPayload_eq (vid : Nat) (a : AVP) :
    vendorPayload vid a = if isVendorAttr vid a then some (a.val.drop 4) else none := by
  unfold vendorPayload isVendorAttr vendorSpecific vsaType
  by_cases h1 : a.typ = 26 <;> by_cases h2 : a.val.length < 5 <;>
    by_cases h3 : beNat (a.val.take 4) = vid <;> simp [h1, h2, h3] <;> omega

theorem vendorPayload_some {vid : Nat} {a : AVP} {p : Bytes} (h : vendorPayload vid a = some p) :
    isVendorAttr vid a = true ∧ p = a.val.drop 4 := by
  rw [vendorPayload_eq] at h
  split at h
  · exact ⟨by assumption, by cases h; rfl⟩
  · cases h

theorem isVendorAttr_unique {vid vid' : Nat} {a : AVP} (h : isVendorAttr vid a = true)
    (hne : vid' ≠ vid) : isVendorAttr vid' a = false := by
  simp only [isVendorAttr, Bool.and_eq_true, decide_eq_true_eq] at h
  simp only [isVendorAttr, h.2, Bool.and_eq_false_iff, decide_eq_false_iff_not]
  exact Or.inr (fun h' => hne h'.symm)

/-- rebuilding an attribute of the vendor around a new non-empty payload keeps type and vendor -/
theorem isVendorAttr_rebuild {vid : Nat} {a : AVP} (h : isVendorAttr vid a = true) (k : Bytes)
    (hk : k ≠ []) (vid' : Nat) :
    isVendorAttr vid' ⟨a.typ, a.val.take 4 ++ k⟩ = isVendorAttr vid' a ∧
    (a.val.take 4 ++ k).drop 4 = k ∧ 5 ≤ (a.val.take 4 ++ k).length := by
  simp only [isVendorAttr, Bool.and_eq_true, decide_eq_true_eq] at h
  have hl : (a.val.take 4).length = 4 := by rw [List.length_take]; omega
  have hk' : 1 ≤ k.length := by cases k <;> simp_all
  refine ⟨?_, ?_, ?_⟩
  · simp only [isVendorAttr]
    rw [List.take_left' hl]
    have : 5 ≤ (a.val.take 4 ++ k).length := by rw [List.length_append, hl]; omega
    rw [decide_eq_true this, decide_eq_true h.1.2]
  · exact List.drop_left' hl
  · rw [List.length_append, hl]; omega

theorem getsVendor_eq (vid : Nat) (typ : UInt8) (as : Attrs) :
    getsVendor vid typ as =
      (as.filter (isVendorAttr vid)).flatMap (fun a => vsaGets typ (a.val.drop 4)) := by
  unfold getsVendor
  induction as with
  | nil => rfl
  | cons a as ih =>
    rw [List.flatMap_cons, ih, vendorPayload_eq]
    by_cases h : isVendorAttr vid a = true
    · simp [h]
    · simp [h]

theorem getsVendor_nil (vid : Nat) (typ : UInt8) : getsVendor vid typ [] = [] := rfl

theorem getsVendor_cons (vid : Nat) (typ : UInt8) (a : AVP) (as : Attrs) :
    getsVendor vid typ (a :: as) =
      (if isVendorAttr vid a then vsaGets typ (a.val.drop 4) else []) ++ getsVendor vid typ as := by
  unfold getsVendor
  rw [List.flatMap_cons, vendorPayload_eq]
  by_cases h : isVendorAttr vid a = true <;> simp [h]

theorem getsVendor_append (vid : Nat) (typ : UInt8) (as bs : Attrs) :
    getsVendor vid typ (as ++ bs) = getsVendor vid typ as ++ getsVendor vid typ bs := by
  unfold getsVendor; exact List.flatMap_append

theorem getsVendor_flatMap (vid : Nat) (typ : UInt8) (as : Attrs) (f : AVP → Attrs) :
    getsVendor vid typ (as.flatMap f) = as.flatMap (fun a => getsVendor vid typ (f a)) := by
  induction as with
  | nil => rfl
  | cons a as ih => simp [List.flatMap_cons, getsVendor_append, ih]

/-! ### vsaWithout -/

theorem vsaDel_fst (typ : UInt8) (p : Bytes) : (vsaDel typ p).1 = vsaWithout typ p := by
  rw [vsaDel_eq]; rfl

theorem vsaDel_snd (typ : UInt8) (p : Bytes) :
    (vsaDel typ p).2 = (vsaParse p).1.any (fun q => q.1 = typ) := by
  rw [vsaDel_eq]

theorem vsaParse_without (typ : UInt8) (p : Bytes) :
    vsaParse (vsaWithout typ p) = ((vsaParse p).1.filter (fun q => q.1 ≠ typ), (vsaParse p).2) := by
  unfold vsaWithout
  exact vsaParse_render _ _ (fun q hq => vsaParse_subOK p q (List.mem_filter.1 hq).1)
    (vsaParse_stuck p)

theorem vsaWithout_idem (typ : UInt8) (p : Bytes) :
    vsaWithout typ (vsaWithout typ p) = vsaWithout typ p := by
  show vsaRender ((vsaParse (vsaWithout typ p)).1.filter _) ++ (vsaParse (vsaWithout typ p)).2 = _
  rw [vsaParse_without, List.filter_filter]
  simp only [Bool.and_self]
  rfl

theorem vsaWithout_of_none (typ : UInt8) (p : Bytes)
    (h : (vsaParse p).1.any (fun q => q.1 = typ) = false) : vsaWithout typ p = p := by
  unfold vsaWithout
  rw [List.filter_eq_self.2]
  · exact vsaParse_lossless p
  · intro q hq
    have := List.any_eq_false.1 h q hq
    simpa using this

theorem vsaGets_without_same (typ : UInt8) (p : Bytes) : vsaGets typ (vsaWithout typ p) = [] := by
  rw [vsaGets_eq, vsaParse_without, List.filter_filter]
  simp

theorem vsaGets_without_other (typ typ' : UInt8) (p : Bytes) (h : typ' ≠ typ) :
    vsaGets typ' (vsaWithout typ p) = vsaGets typ' p := by
  rw [vsaGets_eq, vsaGets_eq, vsaParse_without, List.filter_filter]
  congr 1
  apply List.filter_congr
  intro q _
  by_cases hq : q.1 = typ' <;> simp [hq, h]

theorem vsaGets_nil (typ : UInt8) : vsaGets typ [] = [] := by
  rw [vsaGets_eq, vsaParse_nil]; rfl

/-! ### delVendor, attribute by attribute -/

/-- what `_V_DelVendor` does to one attribute -/
def delVendor1 (vid : Nat) (typ : UInt8) (a : AVP) : Attrs :=
  if isVendorAttr vid a then
    if (vsaParse (a.val.drop 4)).1.any (fun q => q.1 = typ) then
      (if vsaWithout typ (a.val.drop 4) = [] then []
       else [⟨a.typ, a.val.take 4 ++ vsaWithout typ (a.val.drop 4)⟩])
    else [a]
  else [a]

theorem delVendor_eq_flatMap (vid : Nat) (typ : UInt8) (as : Attrs) :
    delVendor vid typ as = as.flatMap (delVendor1 vid typ) := by
  induction as with
  | nil => rfl
  | cons a as ih =>
    rw [delVendor, List.flatMap_cons, ← ih, vendorPayload_eq, delVendor1]
    by_cases hv : isVendorAttr vid a = true
    · simp only [hv, if_true]
      have e1 := vsaDel_fst typ (a.val.drop 4)
      have e2 := vsaDel_snd typ (a.val.drop 4)
      generalize vsaDel typ (a.val.drop 4) = d at e1 e2
      obtain ⟨k, r⟩ := d
      simp only at e1 e2
      subst e1 e2
      generalize vsaWithout typ (a.val.drop 4) = k
      by_cases hr : (vsaParse (a.val.drop 4)).1.any (fun q => q.1 = typ) = true <;>
        by_cases hk : k = [] <;> simp [hr, hk]
    · simp [hv]

/-- effect of Del on the reads of any (vendor', type') on one attribute -/
theorem getsVendor_delVendor1 (vid vid' : Nat) (typ typ' : UInt8) (a : AVP) :
    getsVendor vid' typ' (delVendor1 vid typ a) =
      if vid' = vid ∧ typ' = typ then [] else getsVendor vid' typ' [a] := by
  unfold delVendor1
  by_cases hv : isVendorAttr vid a = true
  · simp only [hv, if_true]
    by_cases hr : (vsaParse (a.val.drop 4)).1.any (fun q => q.1 = typ) = true
    · simp only [hr, if_true]
      by_cases hvid : vid' = vid
      · subst hvid
        by_cases hk : vsaWithout typ (a.val.drop 4) = []
        · simp only [hk, if_true, getsVendor_nil]
          by_cases ht : typ' = typ
          · simp [ht]
          · have := vsaGets_without_other typ typ' (a.val.drop 4) ht
            rw [hk, vsaGets_nil] at this
            simp [ht, getsVendor_cons, hv, getsVendor_nil, ← this]
        · simp only [hk, if_false]
          obtain ⟨h1, h2, _⟩ := isVendorAttr_rebuild hv _ hk vid'
          rw [getsVendor_cons, h1, hv, if_pos rfl, h2, getsVendor_nil, List.append_nil]
          by_cases ht : typ' = typ
          · simp [ht, vsaGets_without_same]
          · simp [ht, vsaGets_without_other _ _ _ ht, getsVendor_cons, hv, getsVendor_nil]
      · have hv' := isVendorAttr_unique hv hvid
        simp only [hvid, false_and, if_false]
        by_cases hk : vsaWithout typ (a.val.drop 4) = []
        · simp [hk, getsVendor_cons, hv', getsVendor_nil]
        · simp only [hk, if_false]
          obtain ⟨h1, _, _⟩ := isVendorAttr_rebuild hv _ hk vid'
          simp [getsVendor_cons, h1, hv', getsVendor_nil]
    · simp only [hr]
      by_cases hc : vid' = vid ∧ typ' = typ
      · obtain ⟨rfl, rfl⟩ := hc
        simp only [and_self, if_true, Bool.false_eq_true, if_false]
        rw [getsVendor_cons, hv, if_pos rfl, getsVendor_nil, vsaGets_eq]
        have : (vsaParse (a.val.drop 4)).1.filter (fun q => q.1 = typ') = [] := by
          rw [List.filter_eq_nil_iff]
          intro q hq
          have := List.any_eq_false.1 (by rwa [Bool.not_eq_true] at hr) q hq
          simpa using this
        simp [this]
      · simp [hc]
  · simp only [hv]
    by_cases hc : vid' = vid ∧ typ' = typ
    · obtain ⟨rfl, rfl⟩ := hc
      simp [getsVendor_cons, hv, getsVendor_nil]
    · simp [hc]

theorem getsVendor_delVendor (vid vid' : Nat) (typ typ' : UInt8) (as : Attrs) :
    getsVendor vid' typ' (delVendor vid typ as) =
      if vid' = vid ∧ typ' = typ then [] else getsVendor vid' typ' as := by
  rw [delVendor_eq_flatMap, getsVendor_flatMap]
  by_cases hc : vid' = vid ∧ typ' = typ
  · simp only [getsVendor_delVendor1, hc, and_self, if_true]
    simp
  · simp only [getsVendor_delVendor1, hc, if_false]
    induction as with
    | nil => rfl
    | cons a as ih =>
      rw [List.flatMap_cons, ih, getsVendor_cons, getsVendor_cons, getsVendor_nil, List.append_nil]

/-! ### the preserved view -/

theorem othersView_append (vid : Nat) (typ : UInt8) (as bs : Attrs) :
    othersView vid typ (as ++ bs) = othersView vid typ as ++ othersView vid typ bs := by
  unfold othersView; exact List.flatMap_append

theorem othersView_flatMap (vid : Nat) (typ : UInt8) (as : Attrs) (f : AVP → Attrs) :
    othersView vid typ (as.flatMap f) = as.flatMap (fun a => othersView vid typ (f a)) := by
  induction as with
  | nil => rfl
  | cons a as ih => simp [List.flatMap_cons, othersView_append, ih]

theorem othersView_delVendor1 (vid : Nat) (typ : UInt8) (a : AVP) :
    othersView vid typ (delVendor1 vid typ a) = othersView vid typ [a] := by
  unfold delVendor1
  by_cases hv : isVendorAttr vid a = true
  · simp only [hv, if_true]
    by_cases hr : (vsaParse (a.val.drop 4)).1.any (fun q => q.1 = typ) = true
    · simp only [hr, if_true]
      by_cases hk : vsaWithout typ (a.val.drop 4) = []
      · simp [hk, othersView, hv]
      · simp only [hk, if_false]
        obtain ⟨h1, h2, _⟩ := isVendorAttr_rebuild hv _ hk vid
        simp only [othersView, List.flatMap_cons, List.flatMap_nil, h1, hv, if_true, h2,
          vsaWithout_idem]
    · simp [hr]
  · simp [hv]

theorem othersView_delVendor (vid : Nat) (typ : UInt8) (as : Attrs) :
    othersView vid typ (delVendor vid typ as) = othersView vid typ as := by
  rw [delVendor_eq_flatMap, othersView_flatMap]
  simp only [othersView_delVendor1]
  induction as with
  | nil => rfl
  | cons a as ih =>
    rw [List.flatMap_cons, ih]
    show _ = othersView vid typ ([a] ++ as)
    rw [othersView_append]

/-- the `inl` part of the view is the list of foreign attributes, verbatim and in order -/
theorem othersView_lefts (vid : Nat) (typ : UInt8) (as : Attrs) :
    (othersView vid typ as).filterMap (fun x => x.getLeft?) =
      as.filter (fun a => !isVendorAttr vid a) := by
  induction as with
  | nil => rfl
  | cons a as ih =>
    show (othersView vid typ ([a] ++ as)).filterMap _ = _
    rw [othersView_append, List.filterMap_append, ih]
    by_cases hv : isVendorAttr vid a = true
    · by_cases hk : vsaWithout typ (a.val.drop 4) = [] <;> simp [othersView, hv, hk]
    · simp [othersView, hv]

/-- the `inr` part: this vendor's payloads without the type, empty ones dropped, in order -/
theorem othersView_rights (vid : Nat) (typ : UInt8) (as : Attrs) :
    (othersView vid typ as).filterMap (fun x => x.getRight?) =
      (((as.filter (isVendorAttr vid)).map (fun a => vsaWithout typ (a.val.drop 4))).filter
        (fun k => k ≠ [])) := by
  induction as with
  | nil => rfl
  | cons a as ih =>
    show (othersView vid typ ([a] ++ as)).filterMap _ = _
    rw [othersView_append, List.filterMap_append, ih]
    by_cases hv : isVendorAttr vid a = true
    · by_cases hk : vsaWithout typ (a.val.drop 4) = [] <;> simp [othersView, hv, hk]
    · simp [othersView, hv]

/-! ### what Del leaves behind -/

theorem delVendor_mem (vid : Nat) (typ : UInt8) (as : Attrs) (a : AVP)
    (h : a ∈ delVendor vid typ as) :
    (a ∈ as ∧ (isVendorAttr vid a = true → (vsaParse (a.val.drop 4)).1.any (fun q => q.1 = typ) = false)) ∨
    (a.typ = 26 ∧ 5 ≤ a.val.length ∧ isVendorAttr vid a = true ∧
      ∃ b ∈ as, isVendorAttr vid b = true ∧ a.val.take 4 = b.val.take 4 ∧
        a.val.drop 4 = vsaWithout typ (b.val.drop 4)) := by
  rw [delVendor_eq_flatMap, List.mem_flatMap] at h
  obtain ⟨b, hb, hab⟩ := h
  unfold delVendor1 at hab
  by_cases hv : isVendorAttr vid b = true
  · simp only [hv, if_true] at hab
    by_cases hr : (vsaParse (b.val.drop 4)).1.any (fun q => q.1 = typ) = true
    · simp only [hr, if_true] at hab
      by_cases hk : vsaWithout typ (b.val.drop 4) = []
      · simp [hk] at hab
      · simp only [hk, if_false, List.mem_singleton] at hab
        obtain ⟨h1, h2, h3⟩ := isVendorAttr_rebuild hv _ hk vid
        right
        subst hab
        have hb26 : b.typ = 26 := by
          simp only [isVendorAttr, Bool.and_eq_true, decide_eq_true_eq] at hv; exact hv.1.1
        have hl : (b.val.take 4).length = 4 := by
          simp only [isVendorAttr, Bool.and_eq_true, decide_eq_true_eq] at hv
          rw [List.length_take]; omega
        exact ⟨hb26, h3, by rw [h1, hv], b, hb, hv, List.take_left' hl, h2⟩
    · simp only [hr] at hab
      simp only [Bool.false_eq_true, if_false, List.mem_singleton] at hab
      subst hab
      exact Or.inl ⟨hb, fun _ => by rwa [Bool.not_eq_true] at hr⟩
  · simp only [hv] at hab
    simp only [Bool.false_eq_true, if_false, List.mem_singleton] at hab
    subst hab
    exact Or.inl ⟨hb, fun h => absurd h hv⟩

/-! ### `_V_NewVendor` -/

theorem vendorAttr_eq (vid : Nat) (typ : UInt8) (attr : Bytes) :
    vendorAttr vid typ attr =
      if 1 ≤ attr.length ∧ attr.length ≤ 247 then
        .ok (beBytes 4 vid ++ typ :: UInt8.ofNat (2 + attr.length) :: attr)
      else .err := by
  unfold vendorAttr newVendorSpecific
  by_cases h0 : attr.length = 0
  · simp [h0]
  · by_cases h1 : attr.length ≤ 247
    · have : ¬ (attr.length + 1 + 1 > 249) := by omega
      simp only [h0, if_false, List.length_cons, this]
      rw [if_neg (by omega), if_pos ⟨by omega, h1⟩]
    · have : (attr.length + 1 + 1 > 249) := by omega
      simp only [h0, if_false, List.length_cons, this, if_true]
      rw [if_neg (by omega)]

/-- the attribute `_V_NewVendor` builds: recognised as this vendor's (for a 32-bit vendor id),
    at most 253 bytes, payload = exactly one sub-attribute -/
theorem newVsa_props (vid : Nat) (typ : UInt8) (attr : Bytes) (h : 1 ≤ attr.length ∧ attr.length ≤ 247) :
    let v := beBytes 4 vid ++ typ :: UInt8.ofNat (2 + attr.length) :: attr
    v.length ≤ 253 ∧ 5 ≤ v.length ∧ v.take 4 = beBytes 4 vid ∧
    v.drop 4 = vsaRender [(typ, attr)] ∧ vsaParse (v.drop 4) = ([(typ, attr)], []) ∧
    ∀ vid', isVendorAttr vid' ⟨26, v⟩ = decide (vid % 2 ^ 32 = vid') := by
  intro v
  have hl : (beBytes 4 vid).length = 4 := beBytes_length 4 vid
  have hd : v.drop 4 = vsaRender [(typ, attr)] := by
    simp only [v, List.drop_left' hl, vsaRender, List.append_nil]
  have ht : v.take 4 = beBytes 4 vid := List.take_left' hl
  have hlen : v.length = 6 + attr.length := by
    simp only [v, List.length_append, hl, List.length_cons]; omega
  refine ⟨by omega, by omega, ht, hd, ?_, ?_⟩
  · rw [hd]
    have := vsaParse_render [(typ, attr)] [] (by intro q hq; simp at hq; subst hq; exact ⟨h.1, by simp only []; omega⟩) vsaStuck_nil
    simpa using this
  · intro vid'
    simp only [isVendorAttr, ht, beNat_beBytes_mod]
    have : 5 ≤ v.length := by omega
    simp [this]

theorem getsVendor_newVsa (vid vid' : Nat) (typ typ' : UInt8) (attr : Bytes)
    (h : 1 ≤ attr.length ∧ attr.length ≤ 247) :
    getsVendor vid' typ' [⟨26, beBytes 4 vid ++ typ :: UInt8.ofNat (2 + attr.length) :: attr⟩] =
      if vid % 2 ^ 32 = vid' ∧ typ' = typ then [attr] else [] := by
  obtain ⟨_, _, _, _, hp, hv⟩ := newVsa_props vid typ attr h
  rw [getsVendor_cons, getsVendor_nil, hv vid', vsaGets_eq, hp]
  by_cases h1 : vid % 2 ^ 32 = vid' <;> by_cases h2 : typ' = typ
  · simp [h1, h2]
  · have : ¬ typ = typ' := fun h => h2 h.symm
    simp [h1, h2, this]
  · simp [h1, h2]
  · simp [h1, h2]

theorem othersView_newVsa (vid : Nat) (typ : UInt8) (attr : Bytes) (hvid : vid < 2 ^ 32)
    (h : 1 ≤ attr.length ∧ attr.length ≤ 247) :
    othersView vid typ [⟨26, beBytes 4 vid ++ typ :: UInt8.ofNat (2 + attr.length) :: attr⟩] = [] := by
  obtain ⟨_, _, _, _, hp, hv⟩ := newVsa_props vid typ attr h
  have hw : vsaWithout typ
      ((beBytes 4 vid ++ typ :: UInt8.ofNat (2 + attr.length) :: attr).drop 4) = [] := by
    unfold vsaWithout; rw [hp]; simp [vsaRender]
  simp only [othersView, List.flatMap_cons, List.flatMap_nil, hv vid, Nat.mod_eq_of_lt hvid,
    decide_true, if_true, hw, List.append_nil]

/-! ### effect of Add / Set on the reads of any (vendor', type') -/

theorem addVendor_eq (vid : Nat) (typ : UInt8) (attr : Bytes) (as : Attrs) :
    addVendor vid typ attr as =
      if 1 ≤ attr.length ∧ attr.length ≤ 247 then
        .ok (as ++ [⟨26, beBytes 4 vid ++ typ :: UInt8.ofNat (2 + attr.length) :: attr⟩])
      else .err := by
  unfold addVendor; rw [vendorAttr_eq]
  by_cases h : 1 ≤ attr.length ∧ attr.length ≤ 247 <;> simp [h, Attrs.add, vsaType]

theorem setVendor_eq (vid : Nat) (typ : UInt8) (attr : Bytes) (as : Attrs) :
    setVendor vid typ attr as =
      if 1 ≤ attr.length ∧ attr.length ≤ 247 then
        .ok (delVendor vid typ as ++ [⟨26, beBytes 4 vid ++ typ :: UInt8.ofNat (2 + attr.length) :: attr⟩])
      else .err := by
  unfold setVendor; rw [vendorAttr_eq]
  by_cases h : 1 ≤ attr.length ∧ attr.length ≤ 247 <;> simp [h, Attrs.add, vsaType]

theorem getsVendor_addVendor (vid vid' : Nat) (typ typ' : UInt8) (attr : Bytes) (as as' : Attrs)
    (hvid : vid < 2 ^ 32) (h : addVendor vid typ attr as = .ok as') :
    getsVendor vid' typ' as' =
      getsVendor vid' typ' as ++ (if vid' = vid ∧ typ' = typ then [attr] else []) := by
  rw [addVendor_eq] at h
  by_cases hl : 1 ≤ attr.length ∧ attr.length ≤ 247
  · rw [if_pos hl] at h; cases h
    rw [getsVendor_append, getsVendor_newVsa _ _ _ _ _ hl, Nat.mod_eq_of_lt hvid]
    by_cases hc : vid' = vid ∧ typ' = typ
    · rw [if_pos hc, if_pos ⟨hc.1.symm, hc.2⟩]
    · rw [if_neg hc, if_neg (fun h => hc ⟨h.1.symm, h.2⟩)]
  · rw [if_neg hl] at h; cases h

theorem getsVendor_setVendor (vid vid' : Nat) (typ typ' : UInt8) (attr : Bytes) (as as' : Attrs)
    (hvid : vid < 2 ^ 32) (h : setVendor vid typ attr as = .ok as') :
    getsVendor vid' typ' as' =
      if vid' = vid ∧ typ' = typ then [attr] else getsVendor vid' typ' as := by
  rw [setVendor_eq] at h
  by_cases hl : 1 ≤ attr.length ∧ attr.length ≤ 247
  · rw [if_pos hl] at h; cases h
    rw [getsVendor_append, getsVendor_newVsa _ _ _ _ _ hl, Nat.mod_eq_of_lt hvid, getsVendor_delVendor]
    by_cases hc : vid' = vid ∧ typ' = typ
    · rw [if_pos hc, if_pos hc, if_pos ⟨hc.1.symm, hc.2⟩]; rfl
    · rw [if_neg hc, if_neg hc, if_neg (fun h => hc ⟨h.1.symm, h.2⟩), List.append_nil]
  · rw [if_neg hl] at h; cases h

theorem othersView_addVendor (vid : Nat) (typ : UInt8) (attr : Bytes) (as as' : Attrs)
    (hvid : vid < 2 ^ 32) (h : addVendor vid typ attr as = .ok as') :
    othersView vid typ as' = othersView vid typ as := by
  rw [addVendor_eq] at h
  by_cases hl : 1 ≤ attr.length ∧ attr.length ≤ 247
  · rw [if_pos hl] at h; cases h
    rw [othersView_append, othersView_newVsa vid typ attr hvid hl, List.append_nil]
  · rw [if_neg hl] at h; cases h

theorem othersView_setVendor (vid : Nat) (typ : UInt8) (attr : Bytes) (as as' : Attrs)
    (hvid : vid < 2 ^ 32) (h : setVendor vid typ attr as = .ok as') :
    othersView vid typ as' = othersView vid typ as := by
  rw [setVendor_eq] at h
  by_cases hl : 1 ≤ attr.length ∧ attr.length ≤ 247
  · rw [if_pos hl] at h; cases h
    rw [othersView_append, othersView_newVsa vid typ attr hvid hl, List.append_nil,
      othersView_delVendor]
  · rw [if_neg hl] at h; cases h

/-- reads of a vendor attribute only look at attributes satisfying any predicate implied by
    `isVendorAttr` -/
theorem getsVendor_filter (vid : Nat) (typ : UInt8) (as : Attrs) (p : AVP → Bool)
    (hp : ∀ a, isVendorAttr vid a = true → p a = true) :
    getsVendor vid typ (as.filter p) = getsVendor vid typ as := by
  rw [getsVendor_eq, getsVendor_eq, List.filter_filter]
  congr 1
  apply List.filter_congr
  intro a _
  by_cases h : isVendorAttr vid a = true
  · simp [h, hp a h]
  · simp [h]

theorem isVendorAttr_typ {vid : Nat} {a : AVP} (h : isVendorAttr vid a = true) : a.typ = 26 := by
  simp only [isVendorAttr, Bool.and_eq_true, decide_eq_true_eq] at h; exact h.1.1

end RV
