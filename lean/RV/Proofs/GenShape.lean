/- C17 helper lemmas: template shape (api_shape, tag / request-packet parameters), sortAttrs. -/
import RV.Proofs.GenBasic
import RV.Proofs.GenOrder
set_option linter.unusedSimpArgs false
namespace RV.Gen
open RV.Dict RV.Gen.Spec

theorem oidLess_irrefl (o : List Int) : oidLess o o = false := by
  induction o with
  | nil => rfl
  | cons x a ih => simp [oidLess, ih]

theorem sortAttrs_asIs (as : List Attribute) : sortAttrs Cfg.asIs as = as := by
  unfold sortAttrs
  apply sortStable_of_never
  intro a b
  simp [attrLess, Cfg.asIs, oidLess_irrefl]


theorem api_shape_roles (vendor : Bool) (a : Attribute) (vals : List Value) :
    ((attrDecls vendor a vals).filter (·.kind == .func)).map (·.role) = helperRoles vendor a := by
  obtain ⟨name, oid, typ, size, enc, tag, cc⟩ := a
  cases typ <;> cases vendor <;>
    simp [attrDecls, helperRoles, stringy, hasTemplate, isIPKind, isIntKind, intBits, stringDecls, concatDecls, simpleDecls, intDecls, fn, List.filter_append, List.filter_map] <;>
    (try (split <;> simp [stringDecls, concatDecls, fn]))

theorem api_shape_names (vendor : Bool) (a : Attribute) (vals : List Value) :
    ∀ d ∈ attrDecls vendor a vals, d.kind = .func → d.name = identifier a.name ++ bs d.role.suffix := by
  obtain ⟨name, oid, typ, size, enc, tag, cc⟩ := a
  cases typ <;> cases vendor <;>
    simp [attrDecls, stringDecls, concatDecls, simpleDecls, intDecls, fn, or_imp, forall_and] <;>
    (try (split <;> simp [stringDecls, concatDecls, fn, or_imp, forall_and]))

theorem api_shape' (vendor : Bool) (a : Attribute) (vals : List Value) :
    ((attrDecls vendor a vals).filter (·.kind == .func)).map (·.role) = helperRoles vendor a
    ∧ ∀ d ∈ attrDecls vendor a vals, d.kind = .func → d.name = identifier a.name ++ bs d.role.suffix :=
  ⟨api_shape_roles vendor a vals, api_shape_names vendor a vals⟩

theorem stringDecls_nonfunc (id : Bytes) (a : Attribute) : (stringDecls id a).filter (·.kind != .func) = [] := by
  simp [stringDecls, fn]
theorem concatDecls_nonfunc (id : Bytes) : (concatDecls id).filter (·.kind != .func) = [] := by
  simp [concatDecls, fn]
theorem simpleDecls_nonfunc (id : Bytes) (t : Ty) (p : List Ty) : (simpleDecls id t p).filter (·.kind != .func) = [] := by
  simp [simpleDecls, fn]
theorem intDecls_nonfunc (id : Bytes) (a : Attribute) (bits : Nat) (vals : List Value) :
    ((intDecls id a bits vals).filter (·.kind != .func)).map (fun d => (d.kind, d.role, d.name)) =
      [(DKind.type, Role.valueType, id)]
      ++ vals.map (fun v => (DKind.const, Role.valueConst, id ++ bs "_Value_" ++ identifier v.name))
      ++ [(DKind.var, Role.strings, id ++ bs "_Strings"), (DKind.method, Role.stringer, id ++ bs ".String")] := by
  have h : (vals.map (fun v => (⟨.const, .valueConst, id ++ bs "_Value_" ++ identifier v.name, [], [.named id]⟩ : Decl))).filter (·.kind != .func)
      = vals.map (fun v => (⟨.const, .valueConst, id ++ bs "_Value_" ++ identifier v.name, [], [.named id]⟩ : Decl)) := by
    apply List.filter_eq_self.mpr
    intro d hd
    obtain ⟨v, _, rfl⟩ := List.mem_map.mp hd
    rfl
  simp only [intDecls, List.filter_append, h]
  simp [fn, List.map_map, Function.comp_def]

theorem api_shape_integer' (vendor : Bool) (a : Attribute) (vals : List Value) :
    ((attrDecls vendor a vals).filter (·.kind != .func)).map (fun d => (d.kind, d.role, d.name)) =
      if isIntKind a.typ then
        [(DKind.type, Role.valueType, identifier a.name)]
        ++ (attrValues a.name vals).map (fun v => (DKind.const, Role.valueConst, identifier a.name ++ bs "_Value_" ++ identifier v.name))
        ++ [(DKind.var, Role.strings, identifier a.name ++ bs "_Strings"), (DKind.method, Role.stringer, identifier a.name ++ bs ".String")]
      else [] := by
  unfold attrDecls
  simp only
  split
  case h_1 | h_2 =>
    have h0 : isIntKind a.typ = false := by simp [isIntKind, intBits, *]
    rw [h0]
    split <;> simp [stringDecls_nonfunc, concatDecls_nonfunc]
  all_goals simp [isIntKind, intBits, *, simpleDecls_nonfunc, intDecls_nonfunc]

theorem stringDecls_tag (id : Bytes) (a : Attribute) :
    ∀ d ∈ stringDecls id a, (d.role.isWriter || d.role.isReader) = true → hasTagParam d = tagged a := by
  cases h : tagged a <;>
    simp [stringDecls, fn, hasTagParam, Role.isWriter, Role.isReader, tg, h, or_imp, forall_and]

theorem concatDecls_tag (id : Bytes) :
    ∀ d ∈ concatDecls id, (d.role.isWriter || d.role.isReader) = true → hasTagParam d = false := by
  simp [concatDecls, fn, hasTagParam, Role.isWriter, Role.isReader, or_imp, forall_and]

theorem simpleDecls_tag (id : Bytes) (t : Ty) (pkts : List Ty) :
    ∀ d ∈ simpleDecls id t pkts, (d.role.isWriter || d.role.isReader) = true → hasTagParam d = false := by
  simp [simpleDecls, fn, hasTagParam, Role.isWriter, Role.isReader, or_imp, forall_and]

theorem intDecls_tag (id : Bytes) (a : Attribute) (bits : Nat) (vals : List Value) :
    ∀ d ∈ intDecls id a bits vals, (d.role.isWriter || d.role.isReader) = true → hasTagParam d = tagged a := by
  cases h : tagged a <;>
    simp [intDecls, fn, hasTagParam, Role.isWriter, Role.isReader, tg, h, or_imp, forall_and]

theorem tag_param_iff' (cfg : Cfg) (vendor : Bool) (a : Attribute) (vals : List Value)
    (hv : invalidAttr cfg vendor a = false) :
    ∀ d ∈ attrDecls vendor a vals, (d.role.isWriter || d.role.isReader) = true → hasTagParam d = tagged a := by
  -- what the validity rules say about tags
  have htag : tagged a = true → (stringy a.typ || a.typ == .integer) = true := by
    intro ht
    simp only [invalidAttr, Bool.or_eq_false_iff, Bool.and_eq_false_iff] at hv
    have := hv.1.2
    cases hs : stringy a.typ <;> simp_all
  have hconc : vendor = false → concatenated a = true → tagged a = false := by
    intro hvn hc
    simp only [invalidAttr, Bool.or_eq_false_iff] at hv
    have := hv.1.1.2
    simp [hvn, hc] at this
    simp [tagged, this.1.2]
  intro d hd hr
  unfold attrDecls at hd
  simp only at hd
  split at hd
  · split at hd
    · rename_i hc
      simp only [Bool.and_eq_true, Bool.not_eq_true'] at hc
      rw [hconc hc.2 hc.1]
      exact concatDecls_tag _ d hd hr
    · exact stringDecls_tag _ a d hd hr
  · split at hd
    · rename_i hc
      simp only [Bool.and_eq_true, Bool.not_eq_true'] at hc
      rw [hconc hc.2 hc.1]
      exact concatDecls_tag _ d hd hr
    · exact stringDecls_tag _ a d hd hr
  all_goals first
    | exact intDecls_tag _ a _ _ d hd hr
    | (have ht : tagged a = false := by
         cases ht : tagged a with
         | false => rfl
         | true => have := htag ht; simp_all [stringy]
       rw [ht]; exact simpleDecls_tag _ _ _ d hd hr)
    | (cases hd)

theorem stringDecls_req (id : Bytes) (a : Attribute) :
    ∀ d ∈ stringDecls id a, d.role.isReader = true → hasRequestParam d = salted a := by
  cases h : salted a <;>
    simp [stringDecls, fn, hasRequestParam, Role.isReader, pk, h, or_imp, forall_and]

theorem concatDecls_req (id : Bytes) :
    ∀ d ∈ concatDecls id, d.role.isReader = true → hasRequestParam d = false := by
  simp [concatDecls, fn, hasRequestParam, Role.isReader, or_imp, forall_and]

theorem simpleDecls_req (id : Bytes) (t : Ty) (pkts : List Ty) :
    ∀ d ∈ simpleDecls id t pkts, d.role.isReader = true → hasRequestParam d = (pkts == [Ty.packet, Ty.packet]) := by
  simp [simpleDecls, fn, hasRequestParam, Role.isReader, or_imp, forall_and]

theorem intDecls_req (id : Bytes) (a : Attribute) (bits : Nat) (vals : List Value) :
    ∀ d ∈ intDecls id a bits vals, d.role.isReader = true → hasRequestParam d = salted a := by
  cases h : salted a <;>
    simp [intDecls, fn, hasRequestParam, Role.isReader, pk, h, or_imp, forall_and]

theorem pk_eq (a : Attribute) : (pk a == [Ty.packet, Ty.packet]) = salted a := by
  cases h : salted a <;> simp [pk, h]

theorem request_param_general (cfg : Cfg) (vendor : Bool) (a : Attribute) (vals : List Value)
    (hv : invalidAttr cfg vendor a = false)
    (hk : salted a = true → (stringy a.typ || isIPKind a.typ || isIntKind a.typ) = true) :
    ∀ d ∈ attrDecls vendor a vals, d.role.isReader = true → hasRequestParam d = salted a := by
  have hconc : vendor = false → concatenated a = true → salted a = false := by
    intro hvn hc
    simp only [invalidAttr, Bool.or_eq_false_iff] at hv
    have := hv.1.1.2
    simp [hvn, hc] at this
    simp [salted, this.1.1.2]
  intro d hd hr
  unfold attrDecls at hd
  simp only at hd
  split at hd
  · split at hd
    · rename_i hc
      simp only [Bool.and_eq_true, Bool.not_eq_true'] at hc
      rw [hconc hc.2 hc.1]
      exact concatDecls_req _ d hd hr
    · exact stringDecls_req _ a d hd hr
  · split at hd
    · rename_i hc
      simp only [Bool.and_eq_true, Bool.not_eq_true'] at hc
      rw [hconc hc.2 hc.1]
      exact concatDecls_req _ d hd hr
    · exact stringDecls_req _ a d hd hr
  all_goals first
    | exact intDecls_req _ a _ _ d hd hr
    | (rw [simpleDecls_req _ _ _ d hd hr, pk_eq])
    | (have hs : salted a = false := by
         cases hs : salted a with
         | false => rfl
         | true => have := hk hs; simp_all [stringy, isIPKind, isIntKind, intBits]
       rw [hs]; exact simpleDecls_req _ _ _ d hd hr)
    | (cases hd)

theorem request_param_partial' (vendor : Bool) (a : Attribute) (vals : List Value)
    (hv : invalidAttr Cfg.asIs vendor a = false)
    (hk : salted a = true → (stringy a.typ || isIPKind a.typ || isIntKind a.typ) = true) :
    ∀ d ∈ attrDecls vendor a vals, d.role.isReader = true → hasRequestParam d = salted a :=
  request_param_general Cfg.asIs vendor a vals hv hk

theorem request_param_repaired' :
    ∀ (vendor : Bool) (a : Attribute) (vals : List Value), invalidAttr Cfg.repaired vendor a = false →
    ∀ d ∈ attrDecls vendor a vals, d.role.isReader = true → hasRequestParam d = salted a := by
  intro vendor a vals hv
  refine request_param_general Cfg.repaired vendor a vals hv ?_
  intro hs
  have hv' := hv
  simp only [invalidAttr, Bool.or_eq_false_iff] at hv'
  have he := hv'.1.1.1.2
  simp only [Cfg.repaired, Bool.true_and, Bool.not_eq_false'] at he
  have henc : a.encrypt = some 2 := by simpa [salted] using hs
  unfold encryptSupported at he
  rw [henc] at he
  simp only at he
  cases h1 : stringy a.typ <;> cases h2 : isIPKind a.typ <;> cases h3 : isIntKind a.typ <;> simp_all

end RV.Gen
