/-
  C15, completeness side: a SPECIFICATION of the `$INCLUDE` walk as a big-step relation (`Walk`),
  independent of `includeWith` / `parseFileFix`, and the proof that the repaired parser
  (`cfg.includePath = true`) computes exactly the first fault of that walk.
-/
import RV.Proofs.DictInclude

namespace RV.DictParser
open RV RV.Dict RV.C15

/-! ## The specification -/

/-- the `$INCLUDE` a line performs: its fields are `$INCLUDE n` and no vendor block is open -/
def includeTarget (vb : Option Bytes) (raw : Bytes) : Option Bytes :=
  if vb.isSome then none else
  match Lex.fields (Lex.stripComment raw) with
  | [k, n] => if k == kwINCLUDE then some n else none
  | _ => none

/-- a handler that is never consulted -/
def noInclude : IncludeHandler := fun _ _ _ st => (none, st)

/-- what a line that performs no include does -/
def localStep (cfg : Cfg) (ign : Bool) (file : Bytes) (lineNo : Nat) (vb : Option Bytes) (st : St)
    (raw : Bytes) : Step :=
  stepLine cfg ign noInclude file lineNo vb st raw

/-- what the walk can meet (classification on the SPEC side, independent of what is reported) -/
inductive FaultKind where
  /-- a line too long for the scanner (met at the end of the delivered lines) -/
  | scannerError
  /-- end of file inside a vendor block -/
  | unclosedBlock
  /-- a line refused where it stands -/
  | badLine (c : ErrClass)
  /-- `$INCLUDE n`, the opener fails -/
  | includeMissing (n : Bytes)
  /-- `$INCLUDE n`, `n` is on the include path: THE CYCLE -/
  | includeOnPath (n : Bytes)
deriving DecidableEq, Repr

structure Fault where
  /-- include path at the moment of the fault, innermost (the file in which the fault lies) first,
      root last -/
  path : List Bytes
  /-- 1-based line in `path.head` (for `scannerError`: the number of the line that did not fit) -/
  line : Nat
  kind : FaultKind
deriving DecidableEq, Repr

/-- what the parser must report for a fault -/
def Fault.report (f : Fault) : Failure :=
  match f.kind with
  | .scannerError => .scanner
  | .unclosedBlock => .decl .unclosedVendorBlock (f.path.headD []) f.line
  | .badLine c => .decl c (f.path.headD []) f.line
  | .includeMissing n => .openErr (f.path.headD []) f.line n
  | .includeOnPath n => .recursive (f.path.headD []) f.line n

/-- The walk, depth first, in line order, up to its first fault.
    `Walk cfg ign fs path tooLong ls lineNo vb st r`: the file `path.headD []` (the head of the include
    path `path`) has the lines `ls` left, the first of them is line `lineNo`, the scanner will stop
    with an error after them iff `tooLong`, the open vendor block is `vb`, the state is `st`; the walk
    of these lines (and of everything they include) ends in `r`: no fault, or the first fault, and the
    state then. -/
inductive Walk (cfg : Cfg) (ign : Bool) (fs : FS) :
    List Bytes → Bool → List Bytes → Nat → Option Bytes → St → Option Fault × St → Prop where
  /-- end of the lines, no block open, scanner content -/
  | done (path : List Bytes) (lineNo : Nat) (st : St) :
      Walk cfg ign fs path false [] lineNo none st (none, st)
  /-- end of the delivered lines, the scanner stopped on a line that is too long -/
  | scanErr (path : List Bytes) (lineNo : Nat) (vb : Option Bytes) (st : St) :
      Walk cfg ign fs path true [] lineNo vb st (some ⟨path, lineNo, .scannerError⟩, st)
  /-- end of the lines inside a vendor block -/
  | unclosed (path : List Bytes) (lineNo : Nat) (v : Bytes) (st : St) :
      Walk cfg ign fs path false [] lineNo (some v) st (some ⟨path, lineNo - 1, .unclosedBlock⟩, st)
  /-- a line that performs no include and is accepted -/
  | line {path : List Bytes} {tooLong : Bool} {raw : Bytes} {ls : List Bytes} {lineNo : Nat}
      {vb vb' : Option Bytes} {st st' : St} {r : Option Fault × St}
      (hT : includeTarget vb raw = none)
      (hs : localStep cfg ign (path.headD []) lineNo vb st raw = .next vb' st')
      (hrest : Walk cfg ign fs path tooLong ls (lineNo + 1) vb' st' r) :
      Walk cfg ign fs path tooLong (raw :: ls) lineNo vb st r
  /-- a line that performs no include and is refused -/
  | bad {path : List Bytes} {tooLong : Bool} {raw : Bytes} {ls : List Bytes} {lineNo : Nat}
      {vb : Option Bytes} {st st' : St} {c : ErrClass}
      (hT : includeTarget vb raw = none)
      (hs : localStep cfg ign (path.headD []) lineNo vb st raw = .fail (.decl c (path.headD []) lineNo) st') :
      Walk cfg ign fs path tooLong (raw :: ls) lineNo vb st (some ⟨path, lineNo, .badLine c⟩, st')
  /-- `$INCLUDE n`, no such file -/
  | missing {path : List Bytes} {tooLong : Bool} {raw : Bytes} {ls : List Bytes} {lineNo : Nat}
      {vb : Option Bytes} {st : St} {n : Bytes}
      (hT : includeTarget vb raw = some n) (hl : fs.lookup n = none) :
      Walk cfg ign fs path tooLong (raw :: ls) lineNo vb st (some ⟨path, lineNo, .includeMissing n⟩, st)
  /-- `$INCLUDE n`, `n` exists and is on the include path: it is opened, found on the path, closed -/
  | onPath {path : List Bytes} {tooLong : Bool} {raw : Bytes} {ls : List Bytes} {lineNo : Nat}
      {vb : Option Bytes} {st : St} {n t : Bytes}
      (hT : includeTarget vb raw = some n) (hl : fs.lookup n = some t) (hp : n ∈ path) :
      Walk cfg ign fs path tooLong (raw :: ls) lineNo vb st
        (some ⟨path, lineNo, .includeOnPath n⟩, (st.opened n).closed n)
  /-- `$INCLUDE n`, `n` exists and is not on the path, its walk meets no fault: closed (twice), go on -/
  | incOk {path : List Bytes} {tooLong : Bool} {raw : Bytes} {ls : List Bytes} {lineNo : Nat}
      {vb : Option Bytes} {st st1 : St} {n t : Bytes} {r : Option Fault × St}
      (hT : includeTarget vb raw = some n) (hl : fs.lookup n = some t) (hp : ¬ n ∈ path)
      (hin : Walk cfg ign fs (n :: path) (Lex.lines t).2 (Lex.lines t).1 1 none (st.opened n) (none, st1))
      (hrest : Walk cfg ign fs path tooLong ls (lineNo + 1) none ((st1.closed n).closed n) r) :
      Walk cfg ign fs path tooLong (raw :: ls) lineNo vb st r
  /-- `$INCLUDE n`, `n` exists and is not on the path, its walk meets a fault: closed (once), stop -/
  | incFail {path : List Bytes} {tooLong : Bool} {raw : Bytes} {ls : List Bytes} {lineNo : Nat}
      {vb : Option Bytes} {st st1 : St} {n t : Bytes} {f : Fault}
      (hT : includeTarget vb raw = some n) (hl : fs.lookup n = some t) (hp : ¬ n ∈ path)
      (hin : Walk cfg ign fs (n :: path) (Lex.lines t).2 (Lex.lines t).1 1 none (st.opened n) (some f, st1)) :
      Walk cfg ign fs path tooLong (raw :: ls) lineNo vb st (some f, st1.closed n)

/-- the walk of a whole root file: it is opened (by `ParseFile`), then walked from line 1 -/
def WalkFile (cfg : Cfg) (ign : Bool) (fs : FS) (root : Bytes) (r : Option Fault × St) : Prop :=
  ∃ text, fs.lookup root = some text ∧
    Walk cfg ign fs [root] (Lex.lines text).2 (Lex.lines text).1 1 none (St.opened {} root) r

/-! ## One line -/

theorem includeTarget_some {vb : Option Bytes} {raw n : Bytes} (h : includeTarget vb raw = some n) :
    vb = none ∧ Lex.fields (Lex.stripComment raw) = [kwINCLUDE, n] := by
  unfold includeTarget at h
  split at h
  · cases h
  · rename_i hvb
    refine ⟨by cases vb <;> simp_all, ?_⟩
    split at h
    · rename_i k n' heq
      split at h
      · rename_i hk
        simp at h hk
        rw [heq, hk, h]
      · cases h
    · cases h

theorem includeTarget_of_fields {raw n : Bytes} (h : Lex.fields (Lex.stripComment raw) = [kwINCLUDE, n]) :
    includeTarget none raw = some n := by
  simp [includeTarget, h]

theorem includeTarget_none {vb : Option Bytes} {raw : Bytes} (h : includeTarget vb raw = none) :
    vb.isSome = true ∨ ∀ n, Lex.fields (Lex.stripComment raw) ≠ [kwINCLUDE, n] := by
  cases vb with
  | some v => exact Or.inl rfl
  | none =>
    right
    intro n hf
    rw [includeTarget_of_fields hf] at h
    cases h

/-- the handler is consulted only for `$INCLUDE n` outside a vendor block -/
theorem dispatch_local (cfg : Cfg) (ign : Bool) (h h' : IncludeHandler) (file : Bytes) (lineNo : Nat)
    (vb : Option Bytes) (st : St) (fields : List Bytes)
    (hc : vb.isSome = true ∨ (fields.length == 2 && fields.headD [] == kwINCLUDE) = false) :
    dispatch cfg ign h file lineNo vb st fields = dispatch cfg ign h' file lineNo vb st fields := by
  rcases hc with hc | hc
  · simp only [dispatch, hc, ↓reduceIte]
  · simp only [dispatch, hc, Bool.false_eq_true, ↓reduceIte]

theorem not_include_fields {raw : Bytes}
    (h : ∀ n, Lex.fields (Lex.stripComment raw) ≠ [kwINCLUDE, n]) :
    ((Lex.fields (Lex.stripComment raw)).length == 2 &&
      (Lex.fields (Lex.stripComment raw)).headD [] == kwINCLUDE) = false := by
  generalize Lex.fields (Lex.stripComment raw) = fl at h
  match fl, h with
  | [], _ => rfl
  | [_], _ => rfl
  | [k, n], h =>
    cases hk : (k == kwINCLUDE) with
    | false => simp [hk]
    | true =>
      have : k = kwINCLUDE := by simpa using hk
      exact absurd (by rw [this]) (h n)
  | _ :: _ :: _ :: _, _ => rfl

/-- a line that performs no include does the same whatever the handler -/
theorem stepLine_local (cfg : Cfg) (ign : Bool) (h : IncludeHandler) (file : Bytes) (lineNo : Nat)
    (vb : Option Bytes) (st : St) (raw : Bytes) (hT : includeTarget vb raw = none) :
    stepLine cfg ign h file lineNo vb st raw = localStep cfg ign file lineNo vb st raw := by
  have hc : vb.isSome = true ∨
      ((Lex.fields (Lex.stripComment raw)).length == 2 &&
        (Lex.fields (Lex.stripComment raw)).headD [] == kwINCLUDE) = false := by
    rcases includeTarget_none hT with h1 | h1
    · exact Or.inl h1
    · exact Or.inr (not_include_fields h1)
  simp only [localStep, stepLine]
  rw [dispatch_local cfg ign h noInclude file lineNo vb st _ hc]

/-- a line that performs an include: `stepLine_include` applies, outside a vendor block -/
theorem stepLine_target (cfg : Cfg) (ign : Bool) (h : IncludeHandler) (file : Bytes) (lineNo : Nat)
    (vb : Option Bytes) (st : St) (raw n : Bytes) (hT : includeTarget vb raw = some n) :
    stepLine cfg ign h file lineNo vb st raw = Step.ofResult none (h n file lineNo st) := by
  obtain ⟨rfl, hf⟩ := includeTarget_some hT
  rw [stepLine_include cfg ign h file lineNo none st raw n hf]
  rfl

/-- a line that performs no include goes on without touching the log, or is refused where it
    stands (file and line of the refusal are this file and this line, the state is unchanged) -/
theorem localStep_cases (cfg : Cfg) (ign : Bool) (file : Bytes) (lineNo : Nat) (vb : Option Bytes) (st : St)
    (raw : Bytes) :
    (∃ vb' st', localStep cfg ign file lineNo vb st raw = .next vb' st' ∧ st'.log = st.log) ∨
    (∃ c, localStep cfg ign file lineNo vb st raw = .fail (.decl c file lineNo) st) := by
  rcases stepLine_cases cfg ign noInclude file lineNo vb st raw with h1 | h1 | ⟨n, _, _, h1⟩
  · exact Or.inl h1
  · exact Or.inr h1
  · exact Or.inl ⟨none, st, h1, rfl⟩

theorem localStep_fail_inv {cfg : Cfg} {ign : Bool} {file : Bytes} {lineNo : Nat} {vb : Option Bytes}
    {st : St} {raw : Bytes} {e : Failure} {st' : St}
    (h : localStep cfg ign file lineNo vb st raw = .fail e st') : ∃ c, e = .decl c file lineNo ∧ st' = st := by
  rcases localStep_cases cfg ign file lineNo vb st raw with ⟨_, _, h1, _⟩ | ⟨c, h1⟩
  · rw [h1] at h; cases h
  · rw [h1] at h; cases h; exact ⟨c, rfl, rfl⟩

/-! ## Soundness: the repaired parser computes the walk -/

/-- the `$INCLUDE` closure `parseFileFix` runs while the include path is `path` -/
def fixHandler (cfg : Cfg) (ign : Bool) (fs : FS) (path : List Bytes) : IncludeHandler :=
  includeWith fs (fun n => path.contains n) fun name t _ _ st1 =>
    parseFileFix cfg ign fs (name :: path) name t st1

theorem parseFileFix_eq (cfg : Cfg) (ign : Bool) (fs : FS) (path : List Bytes) (file text : Bytes) (st : St) :
    parseFileFix cfg ign fs path file text st
      = parseLines cfg ign (fixHandler cfg ign fs path) file (Lex.lines text).2 (Lex.lines text).1 1 none st := by
  rw [parseFileFix]
  rfl

theorem fixHandler_none (cfg : Cfg) (ign : Bool) (fs : FS) (path : List Bytes) (n file : Bytes) (lineNo : Nat)
    (st : St) (hl : fs.lookup n = none) :
    fixHandler cfg ign fs path n file lineNo st = (some (.openErr file lineNo n), st) :=
  includeWith_none fs _ _ n file lineNo st hl

theorem fixHandler_onPath (cfg : Cfg) (ign : Bool) (fs : FS) (path : List Bytes) (n t file : Bytes)
    (lineNo : Nat) (st : St) (hl : fs.lookup n = some t) (hp : n ∈ path) :
    fixHandler cfg ign fs path n file lineNo st
      = (some (.recursive file lineNo n), (st.opened n).closed n) :=
  includeWith_onPath fs _ _ n t file lineNo st hl (by simpa using hp)

theorem fixHandler_rec (cfg : Cfg) (ign : Bool) (fs : FS) (path : List Bytes) (n t file : Bytes)
    (lineNo : Nat) (st : St) (hl : fs.lookup n = some t) (hp : ¬ n ∈ path) :
    fixHandler cfg ign fs path n file lineNo st
      = afterInclude n (parseLines cfg ign (fixHandler cfg ign fs (n :: path)) n
          (Lex.lines t).2 (Lex.lines t).1 1 none (st.opened n)) := by
  unfold fixHandler
  rw [includeWith_rec fs _ _ n t file lineNo st hl (by simpa using hp), parseFileFix_eq]
  rfl

/-- SOUNDNESS of the parser w.r.t. the walk: whatever the walk of the remaining lines ends in, the
    line loop of the repaired parser returns the report of that fault (or success) and that state -/
theorem walk_sound {cfg : Cfg} {ign : Bool} {fs : FS} {path : List Bytes} {tooLong : Bool} {ls : List Bytes}
    {lineNo : Nat} {vb : Option Bytes} {st : St} {r : Option Fault × St}
    (h : Walk cfg ign fs path tooLong ls lineNo vb st r) :
    parseLines cfg ign (fixHandler cfg ign fs path) (path.headD []) tooLong ls lineNo vb st
      = (r.1.map Fault.report, r.2) := by
  induction h with
  | done path lineNo st => simp [parseLines]
  | scanErr path lineNo vb st => simp [parseLines, Fault.report]
  | unclosed path lineNo v st => simp [parseLines, Fault.report]
  | line hT hs _ ih =>
    simp only [parseLines]
    rw [stepLine_local _ _ _ _ _ _ _ _ hT, hs]
    exact ih
  | bad hT hs =>
    simp only [parseLines]
    rw [stepLine_local _ _ _ _ _ _ _ _ hT, hs]
    rfl
  | missing hT hl =>
    simp only [parseLines]
    rw [stepLine_target _ _ _ _ _ _ _ _ _ hT, fixHandler_none _ _ _ _ _ _ _ _ hl]
    rfl
  | onPath hT hl hp =>
    simp only [parseLines]
    rw [stepLine_target _ _ _ _ _ _ _ _ _ hT, fixHandler_onPath _ _ _ _ _ _ _ _ _ hl hp]
    rfl
  | incOk hT hl hp _ _ ih1 ih2 =>
    simp only [parseLines]
    rw [stepLine_target _ _ _ _ _ _ _ _ _ hT, fixHandler_rec _ _ _ _ _ _ _ _ _ hl hp]
    simp only [List.headD_cons] at ih1
    rw [ih1]
    exact ih2
  | incFail hT hl hp _ ih1 =>
    simp only [parseLines]
    rw [stepLine_target _ _ _ _ _ _ _ _ _ hT, fixHandler_rec _ _ _ _ _ _ _ _ _ hl hp]
    simp only [List.headD_cons] at ih1
    rw [ih1]
    rfl

theorem walk_sound_fix {cfg : Cfg} {ign : Bool} {fs : FS} {path : List Bytes} {text : Bytes} {st : St}
    {r : Option Fault × St}
    (h : Walk cfg ign fs path (Lex.lines text).2 (Lex.lines text).1 1 none st r) :
    parseFileFix cfg ign fs path (path.headD []) text st = (r.1.map Fault.report, r.2) := by
  rw [parseFileFix_eq]
  exact walk_sound h

/-- the parser returns the report of the first fault of the walk (or success), the root file closed -/
theorem walkFile_sound {cfg : Cfg} {ign : Bool} {fs : FS} {root : Bytes} {r : Option Fault × St}
    (h : WalkFile cfg ign fs root r) (hc : cfg.includePath = true) :
    parseFile cfg ign fs root = (r.1.map Fault.report, r.2.closed root) := by
  obtain ⟨text, hl, hw⟩ := h
  have := walk_sound_fix hw
  simp only [List.headD_cons] at this
  simp only [parseFile, hl, parseRoot, hc, ↓reduceIte, this]

/-! ## Totality and determinism of the walk -/

/-- TOTALITY: on every finite file system the walk of any lines, from any state, has an outcome
    (the measure is that of `parseFileFix`: the files not on the include path) -/
theorem walk_total (cfg : Cfg) (ign : Bool) (fs : FS) (path : List Bytes) :
    ∀ (tooLong : Bool) (ls : List Bytes) (lineNo : Nat) (vb : Option Bytes) (st : St),
      ∃ r, Walk cfg ign fs path tooLong ls lineNo vb st r := by
  induction hm : unvisited fs path using Nat.strongRecOn generalizing path with
  | _ m ih =>
    intro tooLong ls
    induction ls with
    | nil =>
      intro lineNo vb st
      cases tooLong with
      | true => exact ⟨_, .scanErr path lineNo vb st⟩
      | false =>
        cases vb with
        | none => exact ⟨_, .done path lineNo st⟩
        | some v => exact ⟨_, .unclosed path lineNo v st⟩
    | cons raw ls ihl =>
      intro lineNo vb st
      cases hT : includeTarget vb raw with
      | none =>
        rcases localStep_cases cfg ign (path.headD []) lineNo vb st raw with ⟨vb', st', h1, _⟩ | ⟨c, h1⟩
        · obtain ⟨r, hr⟩ := ihl (lineNo + 1) vb' st'
          exact ⟨r, .line hT h1 hr⟩
        · exact ⟨_, .bad hT h1⟩
      | some n =>
        rcases opt_cases (fs.lookup n) with hl | ⟨t, hl⟩
        · exact ⟨_, .missing hT hl⟩
        · by_cases hp : n ∈ path
          · exact ⟨_, .onPath hT hl hp⟩
          · have hlt : unvisited fs (n :: path) < m := by
              rw [← hm]; exact unvisited_lt fs path n t hl hp
            obtain ⟨⟨o, st1⟩, hin⟩ :=
              ih _ hlt (n :: path) rfl (Lex.lines t).2 (Lex.lines t).1 1 none (st.opened n)
            cases o with
            | none =>
              obtain ⟨r, hr⟩ := ihl (lineNo + 1) none ((st1.closed n).closed n)
              exact ⟨r, .incOk hT hl hp hin hr⟩
            | some f => exact ⟨_, .incFail hT hl hp hin⟩

theorem walkFile_total (cfg : Cfg) (ign : Bool) (fs : FS) (root text : Bytes) (hl : fs.lookup root = some text) :
    ∃ r, WalkFile cfg ign fs root r := by
  obtain ⟨r, hr⟩ := walk_total cfg ign fs [root] (Lex.lines text).2 (Lex.lines text).1 1 none (St.opened {} root)
  exact ⟨r, text, hl, hr⟩

/-- DETERMINISM: the walk has one outcome (one first fault, one final state) -/
theorem walk_unique {cfg : Cfg} {ign : Bool} {fs : FS} {path : List Bytes} {tooLong : Bool} {ls : List Bytes}
    {lineNo : Nat} {vb : Option Bytes} {st : St} {r r' : Option Fault × St}
    (h : Walk cfg ign fs path tooLong ls lineNo vb st r) (h' : Walk cfg ign fs path tooLong ls lineNo vb st r') :
    r = r' := by
  induction h generalizing r' with
  | done path lineNo st => cases h'; rfl
  | scanErr path lineNo vb st => cases h'; rfl
  | unclosed path lineNo v st => cases h'; rfl
  | line hT hs _ ih =>
    cases h' with
    | line hT' hs' hrest' => rw [hs] at hs'; cases hs'; exact ih hrest'
    | bad hT' hs' => rw [hs] at hs'; cases hs'
    | missing hT' _ => rw [hT] at hT'; cases hT'
    | onPath hT' _ _ => rw [hT] at hT'; cases hT'
    | incOk hT' _ _ _ _ => rw [hT] at hT'; cases hT'
    | incFail hT' _ _ _ => rw [hT] at hT'; cases hT'
  | bad hT hs =>
    cases h' with
    | line hT' hs' hrest' => rw [hs] at hs'; cases hs'
    | bad hT' hs' => rw [hs] at hs'; cases hs'; rfl
    | missing hT' _ => rw [hT] at hT'; cases hT'
    | onPath hT' _ _ => rw [hT] at hT'; cases hT'
    | incOk hT' _ _ _ _ => rw [hT] at hT'; cases hT'
    | incFail hT' _ _ _ => rw [hT] at hT'; cases hT'
  | missing hT hl =>
    cases h' with
    | line hT' _ _ => rw [hT] at hT'; cases hT'
    | bad hT' _ => rw [hT] at hT'; cases hT'
    | missing hT' _ => rw [hT] at hT'; cases hT'; rfl
    | onPath hT' hl' _ => rw [hT] at hT'; cases hT'; rw [hl] at hl'; cases hl'
    | incOk hT' hl' _ _ _ => rw [hT] at hT'; cases hT'; rw [hl] at hl'; cases hl'
    | incFail hT' hl' _ _ => rw [hT] at hT'; cases hT'; rw [hl] at hl'; cases hl'
  | onPath hT hl hp =>
    cases h' with
    | line hT' _ _ => rw [hT] at hT'; cases hT'
    | bad hT' _ => rw [hT] at hT'; cases hT'
    | missing hT' hl' => rw [hT] at hT'; cases hT'; rw [hl] at hl'; cases hl'
    | onPath hT' _ _ => rw [hT] at hT'; cases hT'; rfl
    | incOk hT' _ hp' _ _ => rw [hT] at hT'; cases hT'; exact absurd hp hp'
    | incFail hT' _ hp' _ => rw [hT] at hT'; cases hT'; exact absurd hp hp'
  | incOk hT hl hp _ _ ih1 ih2 =>
    cases h' with
    | line hT' _ _ => rw [hT] at hT'; cases hT'
    | bad hT' _ => rw [hT] at hT'; cases hT'
    | missing hT' hl' => rw [hT] at hT'; cases hT'; rw [hl] at hl'; cases hl'
    | onPath hT' _ hp' => rw [hT] at hT'; cases hT'; exact absurd hp' hp
    | incOk hT' hl' _ hin' hrest' =>
      rw [hT] at hT'; cases hT'; rw [hl] at hl'; cases hl'
      have := ih1 hin'
      cases this
      exact ih2 hrest'
    | incFail hT' hl' _ hin' =>
      rw [hT] at hT'; cases hT'; rw [hl] at hl'; cases hl'
      have := ih1 hin'
      cases this
  | incFail hT hl hp _ ih1 =>
    cases h' with
    | line hT' _ _ => rw [hT] at hT'; cases hT'
    | bad hT' _ => rw [hT] at hT'; cases hT'
    | missing hT' hl' => rw [hT] at hT'; cases hT'; rw [hl] at hl'; cases hl'
    | onPath hT' _ hp' => rw [hT] at hT'; cases hT'; exact absurd hp' hp
    | incOk hT' hl' _ hin' hrest' =>
      rw [hT] at hT'; cases hT'; rw [hl] at hl'; cases hl'
      have := ih1 hin'
      cases this
    | incFail hT' hl' _ hin' =>
      rw [hT] at hT'; cases hT'; rw [hl] at hl'; cases hl'
      have := ih1 hin'
      cases this
      rfl

theorem walkFile_unique {cfg : Cfg} {ign : Bool} {fs : FS} {root : Bytes} {r r' : Option Fault × St}
    (h : WalkFile cfg ign fs root r) (h' : WalkFile cfg ign fs root r') : r = r' := by
  obtain ⟨t, hl, hw⟩ := h
  obtain ⟨t', hl', hw'⟩ := h'
  rw [hl] at hl'; cases hl'
  exact walk_unique hw hw'

/-! ## Completeness: the outcome of the repaired parser IS the outcome of the walk -/

/-- (repaired) the walk of an existing root file has an outcome, and the parser returns its report -/
theorem parseFile_eq_walk (cfg : Cfg) (ign : Bool) (fs : FS) (root text : Bytes) (hc : cfg.includePath = true)
    (hl : fs.lookup root = some text) :
    ∃ o st', WalkFile cfg ign fs root (o, st') ∧
      parseFile cfg ign fs root = (o.map Fault.report, st'.closed root) := by
  obtain ⟨⟨o, st'⟩, hw⟩ := walkFile_total cfg ign fs root text hl
  exact ⟨o, st', hw, walkFile_sound hw hc⟩

/-- (repaired) the parser's outcome, read backwards: it is the report of THE outcome of the walk -/
theorem parseFile_walk_iff (cfg : Cfg) (ign : Bool) (fs : FS) (root text : Bytes) (hc : cfg.includePath = true)
    (hl : fs.lookup root = some text) (res : Result) :
    parseFile cfg ign fs root = res ↔
      ∃ o st', WalkFile cfg ign fs root (o, st') ∧ res = (o.map Fault.report, st'.closed root) := by
  constructor
  · rintro rfl
    exact parseFile_eq_walk cfg ign fs root text hc hl
  · rintro ⟨o, st', hw, rfl⟩
    exact walkFile_sound hw hc

/-! ## What is reported as recursive -/

theorem report_recursive_iff (f : Fault) (file n : Bytes) (l : Nat) :
    f.report = .recursive file l n ↔ f.kind = .includeOnPath n ∧ f.path.headD [] = file ∧ f.line = l := by
  rcases f with ⟨p, ln, k⟩
  cases k <;> simp [Fault.report]
  rename_i m
  constructor
  · rintro ⟨h1, h2, h3⟩; exact ⟨h3, h1, h2⟩
  · rintro ⟨h1, h2, h3⟩; exact ⟨h2, h3, h1⟩

/-- a fault of any other kind is never reported as recursive -/
theorem report_not_recursive (f : Fault) (hk : ∀ n, f.kind ≠ .includeOnPath n) (file n : Bytes) (l : Nat) :
    f.report ≠ .recursive file l n := by
  intro h
  exact hk n ((report_recursive_iff f file n l).mp h).1

/-- the report determines the kind of the fault, class by class -/
theorem report_kind (f : Fault) :
    (f.kind = .scannerError ↔ f.report = .scanner) ∧
    (∀ n, f.kind = .includeMissing n ↔ ∃ file l, f.report = .openErr file l n) ∧
    (∀ n, f.kind = .includeOnPath n ↔ ∃ file l, f.report = .recursive file l n) ∧
    ((f.kind = .unclosedBlock ∨ ∃ c, f.kind = .badLine c) ↔ ∃ c file l, f.report = .decl c file l) ∧
    f.report ≠ .rootOpen ∧ f.report ≠ .outOfFuel := by
  rcases f with ⟨p, ln, k⟩
  cases k <;> simp [Fault.report]

/-! ## The shape of a fault -/

/-- consecutive members of an include path (innermost first) are include edges: each file is
    `$INCLUDE`d by a line of the next one -/
def IncludeChain (fs : FS) : List Bytes → Prop
  | child :: parent :: rest => Includes fs parent child ∧ IncludeChain fs (parent :: rest)
  | _ => True

/-- a legitimate include path of a walk started at `root` -/
structure PathOK (fs : FS) (root : Bytes) (p : List Bytes) : Prop where
  ne : p ≠ []
  last : p.getLast? = some root
  nodup : p.Nodup
  chain : IncludeChain fs p
  files : ∀ x, x ∈ p → (fs.lookup x).isSome = true

/-- line `l` (1-based) of the text `t` is a `$INCLUDE n` directive -/
def IncludeLineAt (t : Bytes) (l : Nat) (n : Bytes) : Prop :=
  1 ≤ l ∧ ∃ raw, (Lex.lines t).1[l - 1]? = some raw ∧ Lex.fields (Lex.stripComment raw) = [kwINCLUDE, n]

/-- what a fault of a walk started at `root` looks like -/
def Fault.WellFormed (fs : FS) (root : Bytes) (f : Fault) : Prop :=
  PathOK fs root f.path ∧ ∃ t, fs.lookup (f.path.headD []) = some t ∧
    match f.kind with
    | .includeOnPath n => n ∈ f.path ∧ (fs.lookup n).isSome = true ∧ IncludeLineAt t f.line n
    | .includeMissing n => fs.lookup n = none ∧ IncludeLineAt t f.line n
    | .badLine _ => 1 ≤ f.line ∧ f.line ≤ (Lex.lines t).1.length
    | .unclosedBlock => 1 ≤ f.line ∧ f.line = (Lex.lines t).1.length
    | .scannerError => (Lex.lines t).2 = true ∧ f.line = (Lex.lines t).1.length + 1

/-- where the walk stands in the current file: `pre` are the lines already passed -/
def AtLine (fs : FS) (path : List Bytes) (tooLong : Bool) (ls : List Bytes) (lineNo : Nat)
    (vb : Option Bytes) : Prop :=
  ∃ t pre, fs.lookup (path.headD []) = some t ∧ Lex.lines t = (pre ++ ls, tooLong) ∧
    lineNo = pre.length + 1 ∧ (vb ≠ none → pre ≠ [])

theorem AtLine.start {fs : FS} {n t : Bytes} (path : List Bytes) (hl : fs.lookup n = some t) :
    AtLine fs (n :: path) (Lex.lines t).2 (Lex.lines t).1 1 none :=
  ⟨t, [], hl, rfl, rfl, fun h => absurd rfl h⟩

theorem AtLine.next {fs : FS} {path : List Bytes} {tooLong : Bool} {raw : Bytes} {ls : List Bytes}
    {lineNo : Nat} {vb : Option Bytes} (h : AtLine fs path tooLong (raw :: ls) lineNo vb) (vb' : Option Bytes) :
    AtLine fs path tooLong ls (lineNo + 1) vb' := by
  obtain ⟨t, pre, hl, hlines, hno, _⟩ := h
  refine ⟨t, pre ++ [raw], hl, by simpa using hlines, by simp [hno], fun _ => by simp⟩

theorem AtLine.here {fs : FS} {path : List Bytes} {tooLong : Bool} {raw : Bytes} {ls : List Bytes}
    {lineNo : Nat} {vb : Option Bytes} (h : AtLine fs path tooLong (raw :: ls) lineNo vb) :
    ∃ t, fs.lookup (path.headD []) = some t ∧ 1 ≤ lineNo ∧ lineNo ≤ (Lex.lines t).1.length ∧
      (Lex.lines t).1[lineNo - 1]? = some raw := by
  obtain ⟨t, pre, hl, hlines, hno, _⟩ := h
  refine ⟨t, hl, by omega, ?_, ?_⟩
  · rw [hlines]; simp; omega
  · rw [hlines, hno]; simp

theorem AtLine.includeLine {fs : FS} {path : List Bytes} {tooLong : Bool} {raw : Bytes} {ls : List Bytes}
    {lineNo : Nat} {vb : Option Bytes} {n : Bytes} (h : AtLine fs path tooLong (raw :: ls) lineNo vb)
    (hT : includeTarget vb raw = some n) :
    ∃ t, fs.lookup (path.headD []) = some t ∧ IncludeLineAt t lineNo n ∧ Includes fs (path.headD []) n := by
  obtain ⟨t, hl, h1, _, hget⟩ := h.here
  obtain ⟨_, hf⟩ := includeTarget_some hT
  refine ⟨t, hl, ⟨h1, raw, hget, hf⟩, t, hl, mem_includesOf.mpr ⟨raw, ?_, hf⟩⟩
  exact List.mem_of_getElem? hget

theorem PathOK.root {fs : FS} {root text : Bytes} (hl : fs.lookup root = some text) : PathOK fs root [root] where
  ne := by simp
  last := rfl
  nodup := by simp
  chain := trivial
  files := by intro x hx; simp at hx; subst hx; simp [hl]

theorem PathOK.push {fs : FS} {root : Bytes} {path : List Bytes} {n t : Bytes} (h : PathOK fs root path)
    (hi : Includes fs (path.headD []) n) (hl : fs.lookup n = some t) (hp : ¬ n ∈ path) :
    PathOK fs root (n :: path) := by
  obtain ⟨hne, hlast, hnd, hch, hfiles⟩ := h
  cases path with
  | nil => exact absurd rfl hne
  | cons p rest =>
    refine ⟨by simp, ?_, List.nodup_cons.mpr ⟨hp, hnd⟩, ⟨hi, hch⟩, ?_⟩
    · rw [List.getLast?_cons_cons]; exact hlast
    · intro x hx
      rcases List.mem_cons.mp hx with rfl | hx
      · simp [hl]
      · exact hfiles x hx

/-- SHAPE: the first fault of a walk that stands at a legitimate position lies on a legitimate
    include path that extends the current one, at a line that is what the kind of fault says -/
theorem walk_fault_wf {cfg : Cfg} {ign : Bool} {fs : FS} {root : Bytes} {path : List Bytes} {tooLong : Bool}
    {ls : List Bytes} {lineNo : Nat} {vb : Option Bytes} {st : St} {r : Option Fault × St}
    (h : Walk cfg ign fs path tooLong ls lineNo vb st r) :
    PathOK fs root path → AtLine fs path tooLong ls lineNo vb →
      ∀ f, r.1 = some f → f.WellFormed fs root ∧ path <:+ f.path := by
  induction h with
  | done path lineNo st => intro _ _ f hf; cases hf
  | scanErr path lineNo vb st =>
    intro hP hA f hf
    cases hf
    obtain ⟨t, pre, hl, hlines, hno, _⟩ := hA
    refine ⟨⟨hP, t, hl, ?_⟩, List.suffix_refl _⟩
    simp [hlines, hno]
  | unclosed path lineNo v st =>
    intro hP hA f hf
    cases hf
    obtain ⟨t, pre, hl, hlines, hno, hvb⟩ := hA
    have : pre ≠ [] := hvb (by simp)
    have : 0 < pre.length := List.length_pos_iff.mpr this
    refine ⟨⟨hP, t, hl, ?_⟩, List.suffix_refl _⟩
    simp [hlines, hno]
    omega
  | line hT hs _ ih =>
    intro hP hA f hf
    exact ih hP (hA.next _) f hf
  | bad hT hs =>
    intro hP hA f hf
    cases hf
    obtain ⟨t, hl, h1, h2, _⟩ := hA.here
    exact ⟨⟨hP, t, hl, h1, h2⟩, List.suffix_refl _⟩
  | missing hT hl =>
    intro hP hA f hf
    cases hf
    obtain ⟨t, hlt, hline, _⟩ := hA.includeLine hT
    exact ⟨⟨hP, t, hlt, hl, hline⟩, List.suffix_refl _⟩
  | onPath hT hl hp =>
    intro hP hA f hf
    cases hf
    obtain ⟨t, hlt, hline, _⟩ := hA.includeLine hT
    exact ⟨⟨hP, t, hlt, hp, by simp [hl], hline⟩, List.suffix_refl _⟩
  | incOk hT hl hp _ _ _ ih2 =>
    intro hP hA f hf
    exact ih2 hP (hA.next _) f hf
  | incFail hT hl hp _ ih1 =>
    intro hP hA f hf
    cases hf
    obtain ⟨_, _, _, hi⟩ := hA.includeLine hT
    obtain ⟨hwf, hsuf⟩ := ih1 (hP.push hi hl hp) (AtLine.start _ hl) _ rfl
    exact ⟨hwf, List.IsSuffix.trans (List.suffix_cons _ _) hsuf⟩

theorem walkFile_fault_wf {cfg : Cfg} {ign : Bool} {fs : FS} {root : Bytes} {f : Fault} {st' : St}
    (h : WalkFile cfg ign fs root (some f, st')) : f.WellFormed fs root := by
  obtain ⟨text, hl, hw⟩ := h
  exact (walk_fault_wf hw (PathOK.root hl) (AtLine.start [] hl) f rfl).1

/-- along an include path every outer member reaches every inner one -/
theorem IncludeChain.reaches {fs : FS} {x : Bytes} {p : List Bytes} (h : IncludeChain fs (x :: p))
    {y : Bytes} (hy : y ∈ p) : Reaches fs y x := by
  induction p generalizing x with
  | nil => simp at hy
  | cons q rest ih =>
    obtain ⟨hi, hch⟩ := h
    rcases List.mem_cons.mp hy with rfl | hy
    · exact .step hi
    · exact (ih hch hy).snoc hi

theorem IncludeChain.from_last {fs : FS} {root : Bytes} {p : List Bytes} (hlast : p.getLast? = some root)
    (hch : IncludeChain fs p) {x : Bytes} (hx : x ∈ p) : x = root ∨ Reaches fs root x := by
  induction p with
  | nil => simp at hx
  | cons q rest ih =>
    cases rest with
    | nil =>
      simp at hx hlast
      left; rw [hx, hlast]
    | cons q' rest' =>
      rw [List.getLast?_cons_cons] at hlast
      have hroot : root ∈ q' :: rest' := List.mem_of_getLast? hlast
      rcases List.mem_cons.mp hx with rfl | hx
      · exact Or.inr (IncludeChain.reaches hch hroot)
      · exact ih hlast hch.2 hx

/-- every member of a legitimate include path is the root or reachable from it -/
theorem PathOK.from_root {fs : FS} {root : Bytes} {p : List Bytes} (h : PathOK fs root p)
    {x : Bytes} (hx : x ∈ p) : x = root ∨ Reaches fs root x :=
  IncludeChain.from_last h.last h.chain hx

/-- the fault `includeOnPath n` of the SPEC is a cycle of the include graph through `n`, reachable
    from the root (no reference to the parser) -/
theorem Fault.onPath_cycle {fs : FS} {root : Bytes} {f : Fault} (h : f.WellFormed fs root) {n : Bytes}
    (hk : f.kind = .includeOnPath n) :
    Includes fs (f.path.headD []) n ∧ Reaches fs n n ∧ (n = root ∨ Reaches fs root n) := by
  obtain ⟨hP, t, hl, hm⟩ := h
  rw [hk] at hm
  obtain ⟨hn, _, _, raw, hget, hf⟩ := hm
  have hi : Includes fs (f.path.headD []) n :=
    ⟨t, hl, mem_includesOf.mpr ⟨raw, List.mem_of_getElem? hget, hf⟩⟩
  refine ⟨hi, ?_, hP.from_root hn⟩
  cases hpath : f.path with
  | nil => exact absurd hpath hP.ne
  | cons q rest =>
    rw [hpath] at hn hi
    simp only [List.headD_cons] at hi
    rcases List.mem_cons.mp hn with rfl | hn
    · exact .step hi
    · exact (IncludeChain.reaches (hpath ▸ hP.chain) hn).snoc hi

theorem walkFile_onPath_hasCycle {cfg : Cfg} {ign : Bool} {fs : FS} {root : Bytes} {f : Fault} {st' : St}
    (h : WalkFile cfg ign fs root (some f, st')) {n : Bytes} (hk : f.kind = .includeOnPath n) :
    HasCycle fs root := by
  obtain ⟨_, hc, hr⟩ := Fault.onPath_cycle (walkFile_fault_wf h) hk
  exact ⟨n, hr, hc⟩

/-! ## Pure include graphs: the outcome is decided by the graph alone -/

/-- a line of a pure include graph: blank (no fields), or `$INCLUDE n` of an existing file -/
def PureLine (fs : FS) (raw : Bytes) : Prop :=
  Lex.fields (Lex.stripComment raw) = [] ∨
    ∃ n, Lex.fields (Lex.stripComment raw) = [kwINCLUDE, n] ∧ (fs.lookup n).isSome = true

/-- a file system that is nothing but an include graph (the exhaustive family of the differential
    test, "all include graphs on up to 4 files"): every file scans, and every line is blank/comment
    or a `$INCLUDE` of an existing file -/
def PureIncludeFS (fs : FS) : Prop :=
  ∀ name text, fs.lookup name = some text → (Lex.lines text).2 = false ∧
    ∀ raw, raw ∈ (Lex.lines text).1 →
      Lex.fields (Lex.stripComment raw) = [] ∨
        ∃ n, Lex.fields (Lex.stripComment raw) = [kwINCLUDE, n] ∧ (fs.lookup n).isSome = true

theorem localStep_blank (cfg : Cfg) (ign : Bool) (file : Bytes) (lineNo : Nat) (vb : Option Bytes) (st : St)
    (raw : Bytes) (h11 : cfg.skipNoFields = true) (hf : Lex.fields (Lex.stripComment raw) = []) :
    localStep cfg ign file lineNo vb st raw = .next vb st := by
  simp only [localStep, stepLine]
  split
  · rfl
  · simp [h11, hf]

/-- in a pure include graph the walk meets no fault but `includeOnPath` -/
theorem walk_pure {cfg : Cfg} {ign : Bool} {fs : FS} {path : List Bytes} {tooLong : Bool}
    {ls : List Bytes} {lineNo : Nat} {vb : Option Bytes} {st : St} {r : Option Fault × St}
    (h : Walk cfg ign fs path tooLong ls lineNo vb st r)
    (h11 : cfg.skipNoFields = true) (hp : PureIncludeFS fs) :
    tooLong = false → vb = none → (∀ raw, raw ∈ ls → PureLine fs raw) →
      r.1 = none ∨ ∃ f n, r.1 = some f ∧ f.kind = .includeOnPath n := by
  induction h with
  | done path lineNo st => intro _ _ _; exact Or.inl rfl
  | scanErr path lineNo vb st => intro h1; cases h1
  | unclosed path lineNo v st => intro _ h2; cases h2
  | @line path tooLong raw ls lineNo vb vb' st st' r hT hs _ ih =>
    intro h1 h2 h3
    subst h2
    have hblank : Lex.fields (Lex.stripComment raw) = [] := by
      rcases h3 raw List.mem_cons_self with hb | ⟨n, hf, _⟩
      · exact hb
      · rw [includeTarget_of_fields hf] at hT; cases hT
    rw [localStep_blank cfg ign _ lineNo none st raw h11 hblank] at hs
    cases hs
    exact ih h1 rfl (fun raw' hm => h3 raw' (List.mem_cons_of_mem _ hm))
  | @bad path tooLong raw ls lineNo vb st st' c hT hs =>
    intro h1 h2 h3
    subst h2
    have hblank : Lex.fields (Lex.stripComment raw) = [] := by
      rcases h3 raw List.mem_cons_self with hb | ⟨n, hf, _⟩
      · exact hb
      · rw [includeTarget_of_fields hf] at hT; cases hT
    rw [localStep_blank cfg ign _ lineNo none st raw h11 hblank] at hs
    cases hs
  | @missing path tooLong raw ls lineNo vb st n hT hl =>
    intro h1 h2 h3
    obtain ⟨_, hf⟩ := includeTarget_some hT
    rcases h3 raw List.mem_cons_self with hb | ⟨n', hf', hsome⟩
    · rw [hb] at hf; cases hf
    · rw [hf'] at hf; cases hf
      rw [hl] at hsome; cases hsome
  | onPath hT hl hp' => intro _ _ _; exact Or.inr ⟨_, _, rfl, rfl⟩
  | @incOk path tooLong raw ls lineNo vb st st1 n t r hT hl hp' _ _ _ ih2 =>
    intro h1 _ h3
    exact ih2 h1 rfl (fun raw' hm => h3 raw' (List.mem_cons_of_mem _ hm))
  | @incFail path tooLong raw ls lineNo vb st st1 n t f hT hl hp' _ ih1 =>
    intro _ _ _
    obtain ⟨htl, hlines⟩ := hp n t hl
    rcases ih1 htl rfl hlines with h | ⟨f', n', h, hk⟩
    · cases h
    · cases h; exact Or.inr ⟨_, n', rfl, hk⟩

/-- (repaired, fix #11) on a pure include graph the parser succeeds or reports a recursive include -/
theorem pure_graph_outcome (cfg : Cfg) (ign : Bool) (fs : FS) (root : Bytes) (h10 : cfg.includePath = true)
    (h11 : cfg.skipNoFields = true) (hp : PureIncludeFS fs) (hroot : (fs.lookup root).isSome = true) :
    (parseFile cfg ign fs root).1 = none ∨ ∃ f l n, (parseFile cfg ign fs root).1 = some (.recursive f l n) := by
  rcases opt_cases (fs.lookup root) with hl | ⟨text, hl⟩
  · rw [hl] at hroot; cases hroot
  · obtain ⟨o, st', hw, heq⟩ := parseFile_eq_walk cfg ign fs root text h10 hl
    obtain ⟨text', hl', hwalk⟩ := hw
    rw [hl] at hl'; cases hl'
    obtain ⟨htl, hlines⟩ := hp root text hl
    rw [heq]
    rcases walk_pure hwalk h11 hp htl rfl hlines with h | ⟨f, n, h, hk⟩
    · simp only at h; subst h; exact Or.inl rfl
    · simp only at h; subst h
      right
      exact ⟨f.path.headD [], f.line, n, by simp [Fault.report, hk]⟩

/-- (repaired, fix #11) COMPLETENESS on pure include graphs: a RecursiveIncludeError is reported
    if and only if a cycle is reachable from the root -/
theorem pure_graph_recursive_iff (cfg : Cfg) (ign : Bool) (fs : FS) (root : Bytes) (h10 : cfg.includePath = true)
    (h11 : cfg.skipNoFields = true) (hp : PureIncludeFS fs) (hroot : (fs.lookup root).isSome = true) :
    (∃ f l n, (parseFile cfg ign fs root).1 = some (.recursive f l n)) ↔ HasCycle fs root := by
  constructor
  · rintro ⟨f, l, n, hr⟩
    exact Classical.byContradiction fun hac => parseFile_acyclic_not_recursive cfg ign fs root h10 hac f n l hr
  · intro hc
    rcases pure_graph_outcome cfg ign fs root h10 h11 hp hroot with h | h
    · exact absurd hc (parseFile_ok_acyclic cfg ign fs root h10 h)
    · exact h

/-- (repaired, fix #11) … and the parse succeeds if and only if there is none -/
theorem pure_graph_ok_iff (cfg : Cfg) (ign : Bool) (fs : FS) (root : Bytes) (h10 : cfg.includePath = true)
    (h11 : cfg.skipNoFields = true) (hp : PureIncludeFS fs) (hroot : (fs.lookup root).isSome = true) :
    (parseFile cfg ign fs root).1 = none ↔ ¬ HasCycle fs root := by
  constructor
  · exact parseFile_ok_acyclic cfg ign fs root h10
  · intro hac
    rcases pure_graph_outcome cfg ign fs root h10 h11 hp hroot with h | ⟨f, l, n, h⟩
    · exact h
    · exact absurd h (parseFile_acyclic_not_recursive cfg ign fs root h10 hac f n l)

/-! ## Logs: opens and closes are well nested, over ALL outcomes and both include rules -/

/-- Well-nestedness of an opener log: every successfully opened file is closed, in LIFO order,
    once - or TWICE.

    "Every opened file is closed exactly once" is FALSE of dictionary/parser.go for files that are
    included successfully: on the success path of the `$INCLUDE` closure the file is closed
    explicitly (`incFile.Close()`, parser.go line 233) and then once more by the deferred
    `incFile.Close()` of line 214 (for an `*os.File` the second `Close` returns `ErrClosed`, which
    the `defer` ignores; `afterInclude` of the model mirrors this).  It is TRUE (exactly once) on
    every error path - the opener's file found on the path (`includeOnPath`), and every file on the
    include path of the fault when the nested parse fails - and for the root file, which `ParseFile`
    closes once.  `twice` records which of the two happened. -/
inductive Nested : List Event → Prop where
  | nil : Nested []
  | file (n : Bytes) (twice : Bool) {inner rest : List Event} : Nested inner → Nested rest →
      Nested (Event.opened n :: (inner ++ Event.closed n :: ((if twice then [Event.closed n] else []) ++ rest)))

theorem Nested.append {a b : List Event} (ha : Nested a) (hb : Nested b) : Nested (a ++ b) := by
  induction ha with
  | nil => exact hb
  | @file n twice inner rest h1 _ _ ih2 =>
    have := Nested.file n twice h1 ih2
    simpa [List.append_assoc] using this

/-- an open immediately followed by its close -/
theorem Nested.openClose (n : Bytes) : Nested [Event.opened n, Event.closed n] :=
  Nested.file n false Nested.nil Nested.nil

/-- well-nested logs close at least every open, and at most twice every open -/
theorem Nested.count_le {w : List Event} (h : Nested w) (n : Bytes) :
    w.count (Event.opened n) ≤ w.count (Event.closed n) ∧
      w.count (Event.closed n) ≤ 2 * w.count (Event.opened n) := by
  induction h with
  | nil => simp
  | @file m twice inner rest _ _ ih1 ih2 =>
    cases twice <;> by_cases hm : m = n <;>
      simp [List.count_append, hm] <;> omega

/-- well-nestedness is stronger than `OpensClosed` -/
theorem Nested.opensClosed {w : List Event} (h : Nested w) : OpensClosed w := by
  induction h with
  | nil => exact OpensClosed_nil
  | @file n twice inner rest _ _ ih1 ih2 =>
    refine OpensClosed_bracket n ?_ (by simp)
    refine OpensClosed_append ih1 ?_
    have : Event.closed n :: ((if twice = true then [Event.closed n] else []) ++ rest)
        = [Event.closed n] ++ ((if twice = true then [Event.closed n] else []) ++ rest) := rfl
    rw [this]
    refine OpensClosed_append (OpensClosed_closed n) (OpensClosed_append ?_ ih2)
    cases twice
    · exact OpensClosed_nil
    · exact OpensClosed_closed n

/-- the part of the log a run adds is well nested -/
def AddsNested (st : St) (r : Result) : Prop := ∃ w, r.2.log = st.log ++ w ∧ Nested w

theorem AddsNested_refl (st : St) (e : Option Failure) : AddsNested st (e, st) :=
  ⟨[], by simp, Nested.nil⟩

theorem parseLines_nested (cfg : Cfg) (ign : Bool) (h : IncludeHandler) (file : Bytes) (tooLong : Bool)
    (hh : ∀ n f l st, AddsNested st (h n f l st))
    (lines : List Bytes) (lineNo : Nat) (vb : Option Bytes) (st : St) :
    AddsNested st (parseLines cfg ign h file tooLong lines lineNo vb st) := by
  induction lines generalizing lineNo vb st with
  | nil =>
    simp only [parseLines]
    split
    · exact AddsNested_refl ..
    · split <;> exact AddsNested_refl ..
  | cons raw ls ih =>
    simp only [parseLines]
    rcases stepLine_cases cfg ign h file lineNo vb st raw with
      ⟨vb', st', hs, hl⟩ | ⟨c, hs⟩ | ⟨n, _, _, hs⟩
    · rw [hs]
      obtain ⟨w, hw, hoc⟩ := ih (lineNo + 1) vb' st'
      exact ⟨w, by rw [hw, hl], hoc⟩
    · rw [hs]; exact AddsNested_refl ..
    · rw [hs]
      obtain ⟨w1, hw1, hoc1⟩ := hh n file lineNo st
      rcases hr : h n file lineNo st with ⟨_ | e, st1⟩
      · simp only [Step.ofResult]
        rw [hr] at hw1
        obtain ⟨w2, hw2, hoc2⟩ := ih (lineNo + 1) none st1
        exact ⟨w1 ++ w2, by rw [hw2, hw1, List.append_assoc], hoc1.append hoc2⟩
      · simp only [Step.ofResult]
        rw [hr] at hw1
        exact ⟨w1, hw1, hoc1⟩

theorem includeWith_nested (fs : FS) (onPath : Bytes → Bool)
    (recur : (name t : Bytes) → fs.lookup name = some t → onPath name = false → St → Result)
    (hrec : ∀ name t hl hp st, AddsNested st (recur name t hl hp st))
    (name file : Bytes) (lineNo : Nat) (st : St) :
    AddsNested st (includeWith fs onPath recur name file lineNo st) := by
  cases hl : fs.lookup name with
  | none =>
    rw [includeWith_none fs onPath recur name file lineNo st hl]
    exact AddsNested_refl ..
  | some t =>
    cases hp : onPath name with
    | true =>
      rw [includeWith_onPath fs onPath recur name t file lineNo st hl hp]
      exact ⟨[.opened name, .closed name], by simp [St.opened, St.closed], Nested.openClose name⟩
    | false =>
      rw [includeWith_rec fs onPath recur name t file lineNo st hl hp]
      obtain ⟨w, hw, hoc⟩ := hrec name t hl hp (st.opened name)
      rcases hres : recur name t hl hp (st.opened name) with ⟨_ | e2, st2⟩
      · rw [hres] at hw
        simp only [St.opened] at hw
        have := Nested.file name true hoc Nested.nil
        exact ⟨_, by simp [afterInclude, St.closed, hw], this⟩
      · rw [hres] at hw
        simp only [St.opened] at hw
        have := Nested.file name false hoc Nested.nil
        exact ⟨_, by simp [afterInclude, St.closed, hw], this⟩

theorem parseFileFix_nested (cfg : Cfg) (ign : Bool) (fs : FS) (path : List Bytes) (file text : Bytes) (st : St) :
    AddsNested st (parseFileFix cfg ign fs path file text st) := by
  induction hm : unvisited fs path using Nat.strongRecOn generalizing path file text st with
  | _ m ih =>
    rw [parseFileFix]
    apply parseLines_nested
    apply includeWith_nested
    intro n t hl hp st0
    have hlt : unvisited fs (n :: path) < m := by
      rw [← hm]; exact unvisited_lt fs path n t hl (by simpa using hp)
    exact ih _ hlt (n :: path) n t st0 rfl

theorem parseFileCur_nested (cfg : Cfg) (ign : Bool) (fs : FS) (root : Bytes) (fuel : Nat) (file text : Bytes)
    (st : St) : AddsNested st (parseFileCur cfg ign fs root fuel file text st) := by
  induction fuel generalizing file text st with
  | zero => exact AddsNested_refl ..
  | succ fuel ih =>
    rw [parseFileCur]
    apply parseLines_nested
    apply includeWith_nested
    intro n t hl hp st0
    exact ih n t st0

theorem parseRoot_nested (cfg : Cfg) (ign : Bool) (fs : FS) (root text : Bytes) (st : St) :
    AddsNested st (parseRoot cfg ign fs root text st) := by
  unfold parseRoot
  split
  · exact parseFileFix_nested ..
  · exact parseFileCur_nested ..

/-- the log of `ParseFile`, whatever the configuration (current or repaired include rule) and
    whatever the outcome (success, any error, even out of fuel): well nested; the root file is
    opened first and closed last, once -/
theorem parseFile_nested (cfg : Cfg) (ign : Bool) (fs : FS) (root : Bytes) :
    Nested (parseFile cfg ign fs root).2.log := by
  unfold parseFile
  split
  · exact Nested.nil
  · rename_i text _
    obtain ⟨w, hw, hoc⟩ := parseRoot_nested cfg ign fs root text (St.opened {} root)
    show Nested ((parseRoot cfg ign fs root text (St.opened {} root)).2.log ++ [Event.closed root])
    rw [hw]
    have := Nested.file root false hoc Nested.nil
    simpa [St.opened] using this

theorem parseFile_root_bracket (cfg : Cfg) (ign : Bool) (fs : FS) (root text : Bytes)
    (hl : fs.lookup root = some text) :
    ∃ w, Nested w ∧ (parseFile cfg ign fs root).2.log = Event.opened root :: (w ++ [Event.closed root]) := by
  obtain ⟨w, hw, hoc⟩ := parseRoot_nested cfg ign fs root text (St.opened {} root)
  refine ⟨w, hoc, ?_⟩
  simp only [parseFile, hl, St.closed, hw]
  simp [St.opened]

theorem parseFile_close_counts (cfg : Cfg) (ign : Bool) (fs : FS) (root : Bytes) (n : Bytes) :
    (parseFile cfg ign fs root).2.log.count (Event.opened n) ≤ (parseFile cfg ign fs root).2.log.count (Event.closed n) ∧
    (parseFile cfg ign fs root).2.log.count (Event.closed n) ≤ 2 * (parseFile cfg ign fs root).2.log.count (Event.opened n) :=
  (parseFile_nested cfg ign fs root).count_le n

/-! ## Logs of a failing run: the files on the fault's include path are closed exactly once -/

/-- The log of a run that stopped at a fault, the files `ns` (outermost first) being open at that
    moment: before each of them was opened a well-nested stretch `w` ran (completed includes, each
    closed once or twice, see `Nested`); the file is opened ONCE; after the fault the files are closed
    innermost first, each exactly ONCE (only the deferred `Close` runs on an error path). -/
inductive Unwound : List Bytes → List Event → Prop where
  | here {w : List Event} : Nested w → Unwound [] w
  | into (n : Bytes) {ns : List Bytes} {w inner : List Event} : Nested w → Unwound ns inner →
      Unwound (n :: ns) (w ++ Event.opened n :: (inner ++ [Event.closed n]))

theorem Unwound.nested {ns : List Bytes} {w : List Event} (h : Unwound ns w) : Nested w := by
  induction h with
  | here h => exact h
  | into n h1 _ ih =>
    have := Nested.file n false ih Nested.nil
    exact h1.append (by simpa using this)

theorem Unwound.prepend {ns : List Bytes} {a w : List Event} (ha : Nested a) (h : Unwound ns w) :
    Unwound ns (a ++ w) := by
  cases h with
  | here h => exact .here (ha.append h)
  | into n h1 h2 =>
    rw [← List.append_assoc]
    exact .into n (ha.append h1) h2

/-- the log a walk adds: well nested in any case; and when the walk stops at a fault, unwound along
    the part of the fault's include path that the walk itself opened -/
theorem walk_log {cfg : Cfg} {ign : Bool} {fs : FS} {path : List Bytes} {tooLong : Bool}
    {ls : List Bytes} {lineNo : Nat} {vb : Option Bytes} {st : St} {r : Option Fault × St}
    (h : Walk cfg ign fs path tooLong ls lineNo vb st r) :
    ∃ w, r.2.log = st.log ++ w ∧ Nested w ∧
      ∀ f, r.1 = some f → ∃ new, f.path = new.reverse ++ path ∧ Unwound new w := by
  induction h with
  | done path lineNo st => exact ⟨[], by simp, .nil, fun f hf => by cases hf⟩
  | scanErr path lineNo vb st =>
    exact ⟨[], by simp, .nil, fun f hf => by cases hf; exact ⟨[], rfl, .here .nil⟩⟩
  | unclosed path lineNo v st =>
    exact ⟨[], by simp, .nil, fun f hf => by cases hf; exact ⟨[], rfl, .here .nil⟩⟩
  | @line path tooLong raw ls lineNo vb vb' st st' r hT hs _ ih =>
    obtain ⟨w, hw, hn, hf⟩ := ih
    have hlog : st'.log = st.log := by
      rcases localStep_cases cfg ign (path.headD []) lineNo vb st raw with ⟨_, _, h1, h2⟩ | ⟨c, h1⟩
      · rw [h1] at hs; cases hs; exact h2
      · rw [h1] at hs; cases hs
    exact ⟨w, by rw [hw, hlog], hn, hf⟩
  | bad hT hs =>
    obtain ⟨c', _, rfl⟩ := localStep_fail_inv hs
    exact ⟨[], by simp, .nil, fun f hf => by cases hf; exact ⟨[], rfl, .here .nil⟩⟩
  | missing hT hl =>
    exact ⟨[], by simp, .nil, fun f hf => by cases hf; exact ⟨[], rfl, .here .nil⟩⟩
  | @onPath path tooLong raw ls lineNo vb st n t hT hl hp =>
    exact ⟨[.opened n, .closed n], by simp [St.opened, St.closed], Nested.openClose n,
      fun f hf => by cases hf; exact ⟨[], rfl, .here (Nested.openClose n)⟩⟩
  | @incOk path tooLong raw ls lineNo vb st st1 n t r hT hl hp _ _ ih1 ih2 =>
    obtain ⟨w1, hw1, hn1, _⟩ := ih1
    obtain ⟨w2, hw2, hn2, hf2⟩ := ih2
    have hb : Nested (Event.opened n :: (w1 ++ Event.closed n :: ([Event.closed n] ++ []))) :=
      Nested.file n true hn1 Nested.nil
    refine ⟨Event.opened n :: (w1 ++ Event.closed n :: ([Event.closed n] ++ [])) ++ w2, ?_, hb.append hn2, ?_⟩
    · rw [hw2]
      simp only [St.closed, St.opened] at hw1 ⊢
      rw [hw1]
      simp
    · intro f hf
      obtain ⟨new, hp2, hu⟩ := hf2 f hf
      exact ⟨new, hp2, hu.prepend hb⟩
  | @incFail path tooLong raw ls lineNo vb st st1 n t f hT hl hp _ ih1 =>
    obtain ⟨w1, hw1, hn1, hf1⟩ := ih1
    obtain ⟨new, hp1, hu⟩ := hf1 f rfl
    have hun : Unwound (n :: new) ([] ++ Event.opened n :: (w1 ++ [Event.closed n])) := .into n .nil hu
    refine ⟨Event.opened n :: (w1 ++ [Event.closed n]), ?_, hun.nested, ?_⟩
    · simp only [St.closed, St.opened] at hw1 ⊢
      rw [hw1]
      simp
    · intro f' hf'
      cases hf'
      exact ⟨n :: new, by rw [hp1]; simp, hun⟩

/-- (repaired) the log of a failing `ParseFile`: unwound along the WHOLE include path of the fault,
    root included - each of these files is opened once and, after the fault, closed exactly once,
    innermost first -/
theorem walkFile_fail_log {cfg : Cfg} {ign : Bool} {fs : FS} {root : Bytes} {f : Fault} {st' : St}
    (h : WalkFile cfg ign fs root (some f, st')) : Unwound f.path.reverse (st'.closed root).log := by
  obtain ⟨text, hl, hw⟩ := h
  obtain ⟨w, hw1, _, hf⟩ := walk_log hw
  obtain ⟨new, hp, hu⟩ := hf f rfl
  have : Unwound (root :: new) ([] ++ Event.opened root :: (w ++ [Event.closed root])) := .into root .nil hu
  simp only at hw1
  rw [hp]
  simp only [St.closed, hw1, St.opened]
  simpa using this

theorem parseFile_fail_log (cfg : Cfg) (ign : Bool) (fs : FS) (root text : Bytes) (hc : cfg.includePath = true)
    (hl : fs.lookup root = some text) (e : Failure) (he : (parseFile cfg ign fs root).1 = some e) :
    ∃ f st', WalkFile cfg ign fs root (some f, st') ∧ e = f.report ∧
      Unwound f.path.reverse (parseFile cfg ign fs root).2.log := by
  obtain ⟨o, st', hw, heq⟩ := parseFile_eq_walk cfg ign fs root text hc hl
  rw [heq] at he ⊢
  cases o with
  | none => cases he
  | some f =>
    simp at he
    exact ⟨f, st', hw, he.symm, walkFile_fail_log hw⟩

/-! ## The parser's report, read through the walk -/

/-- (repaired) a RecursiveIncludeError is reported exactly when the FIRST fault of the walk is an
    `$INCLUDE` of a file on the include path; file, line and name are those of that fault -/
theorem parseFile_recursive_iff (cfg : Cfg) (ign : Bool) (fs : FS) (root f n : Bytes) (l : Nat)
    (hc : cfg.includePath = true) :
    (parseFile cfg ign fs root).1 = some (.recursive f l n) ↔
      ∃ flt st', WalkFile cfg ign fs root (some flt, st') ∧ flt.kind = .includeOnPath n ∧
        flt.path.headD [] = f ∧ flt.line = l := by
  constructor
  · intro hr
    rcases opt_cases (fs.lookup root) with hl | ⟨text, hl⟩
    · rw [parseFile_none cfg ign fs root hl] at hr; simp at hr
    · obtain ⟨o, st', hw, heq⟩ := parseFile_eq_walk cfg ign fs root text hc hl
      rw [heq] at hr
      cases o with
      | none => cases hr
      | some flt =>
        simp at hr
        exact ⟨flt, st', hw, (report_recursive_iff flt f n l).mp hr⟩
  · rintro ⟨flt, st', hw, hk⟩
    rw [walkFile_sound hw hc]
    simp [(report_recursive_iff flt f n l).mpr hk]

/-- (repaired) every failure of `ParseFile` on an existing root is the report of the first fault of
    the walk, and that fault is well formed -/
theorem parseFile_fault_wf (cfg : Cfg) (ign : Bool) (fs : FS) (root text : Bytes) (hc : cfg.includePath = true)
    (hl : fs.lookup root = some text) (e : Failure) (he : (parseFile cfg ign fs root).1 = some e) :
    ∃ flt st', WalkFile cfg ign fs root (some flt, st') ∧ e = flt.report ∧ flt.WellFormed fs root := by
  obtain ⟨flt, st', hw, hrep, _⟩ := parseFile_fail_log cfg ign fs root text hc hl e he
  exact ⟨flt, st', hw, hrep, walkFile_fault_wf hw⟩

/-- (repaired) SHAPE of a reported RecursiveIncludeError `{File f, Line l, Filename n}`: at that
    moment the include path `path` has `f` as its head and `n` as a member; it is a duplicate-free
    chain of include edges that ends in the root, all its members are files; and line `l` (1-based)
    of `f` is a `$INCLUDE n` directive; `n` exists -/
theorem parseFile_recursive_shape (cfg : Cfg) (ign : Bool) (fs : FS) (root f n : Bytes) (l : Nat)
    (hc : cfg.includePath = true) (hr : (parseFile cfg ign fs root).1 = some (.recursive f l n)) :
    ∃ path, path.headD [] = f ∧ n ∈ path ∧
      path ≠ [] ∧ path.getLast? = some root ∧ path.Nodup ∧ IncludeChain fs path ∧
      (∀ x, x ∈ path → (fs.lookup x).isSome = true) ∧
      (fs.lookup n).isSome = true ∧
      ∃ t, fs.lookup f = some t ∧ 1 ≤ l ∧
        ∃ raw, (Lex.lines t).1[l - 1]? = some raw ∧ Lex.fields (Lex.stripComment raw) = [kwINCLUDE, n] := by
  obtain ⟨flt, st', hw, hk, rfl, rfl⟩ := (parseFile_recursive_iff cfg ign fs root f n l hc).mp hr
  obtain ⟨hP, t, hlt, hm⟩ := walkFile_fault_wf hw
  rw [hk] at hm
  obtain ⟨hn, hsome, h1, raw, hget, hf⟩ := hm
  exact ⟨flt.path, rfl, hn, hP.ne, hP.last, hP.nodup, hP.chain, hP.files, hsome, t, hlt, h1, raw, hget, hf⟩

/-- (repaired) the same for an open error `{File f, Line l}` whose inner error is the opener's for
    the name `n`: `n` is not a file, and line `l` of `f` is `$INCLUDE n` -/
theorem parseFile_openErr_shape (cfg : Cfg) (ign : Bool) (fs : FS) (root f n : Bytes) (l : Nat)
    (hc : cfg.includePath = true) (hr : (parseFile cfg ign fs root).1 = some (.openErr f l n)) :
    fs.lookup n = none ∧
      ∃ t, fs.lookup f = some t ∧ 1 ≤ l ∧
        ∃ raw, (Lex.lines t).1[l - 1]? = some raw ∧ Lex.fields (Lex.stripComment raw) = [kwINCLUDE, n] := by
  rcases opt_cases (fs.lookup root) with hl | ⟨text, hl⟩
  · rw [parseFile_none cfg ign fs root hl] at hr; simp at hr
  · obtain ⟨flt, st', hw, hrep, hP, t, hlt, hm⟩ := parseFile_fault_wf cfg ign fs root text hc hl _ hr
    rcases flt with ⟨p, ln, k⟩
    cases k <;> simp only [Fault.report] at hrep <;> cases hrep
    obtain ⟨hnone, h1, raw, hget, hf⟩ := hm
    exact ⟨hnone, t, hlt, h1, raw, hget, hf⟩

/-- (repaired) if the first fault is `includeOnPath n`, the report is the RecursiveIncludeError for
    `n` at the fault's file and line - no other class; if the first fault is of any other kind, the
    report is not a RecursiveIncludeError, whatever cycles the graph may have further on -/
theorem first_fault_decides_recursive (cfg : Cfg) (ign : Bool) (fs : FS) (root : Bytes) (hc : cfg.includePath = true)
    (flt : Fault) (st' : St) (hw : WalkFile cfg ign fs root (some flt, st')) :
    (∀ n, flt.kind = .includeOnPath n →
      (parseFile cfg ign fs root).1 = some (.recursive (flt.path.headD []) flt.line n)) ∧
    ((∀ n, flt.kind ≠ .includeOnPath n) → ∀ f l n, (parseFile cfg ign fs root).1 ≠ some (.recursive f l n)) := by
  rw [walkFile_sound hw hc]
  constructor
  · intro n hk
    simp [(report_recursive_iff flt _ n _).mpr ⟨hk, rfl, rfl⟩]
  · intro hk f l n h
    simp at h
    exact report_not_recursive flt hk f n l h

theorem parseFile_cycle_not_ok (cfg : Cfg) (ign : Bool) (fs : FS) (root : Bytes) (h : cfg.includePath = true)
    (hcyc : HasCycle fs root) : (parseFile cfg ign fs root).1 ≠ none :=
  fun hok => parseFile_ok_acyclic cfg ign fs root h hok hcyc

theorem parseFileCur_nested_log (cfg : Cfg) (ign : Bool) (fs : FS) (root file text : Bytes) (fuel : Nat) :
    Nested (parseFileCur cfg ign fs root fuel file text {}).2.log := by
  obtain ⟨w, hw, hn⟩ := parseFileCur_nested cfg ign fs root fuel file text {}
  rw [hw]
  exact Nested.nil.append hn

/-- `Nested` is not vacuous: an open that is never closed is not well nested -/
theorem not_nested_unclosed (n : Bytes) : ¬ Nested [Event.opened n] := by
  intro h
  have := (h.count_le n).1
  simp at this

/-- … nor are crossed brackets (LIFO order matters) -/
theorem not_nested_crossed : ¬ Nested [Event.opened nmA, Event.opened nmB, Event.closed nmA, Event.closed nmB] := by
  intro h
  generalize hw : [Event.opened nmA, Event.opened nmB, Event.closed nmA, Event.closed nmB] = w at h
  cases h with
  | nil => cases hw
  | @file n twice inner rest hin hrest =>
    simp only [List.cons.injEq, Event.opened.injEq] at hw
    obtain ⟨rfl, hw⟩ := hw
    cases inner with
    | nil => simp at hw
    | cons x inner =>
      simp only [List.cons_append, List.cons.injEq] at hw
      obtain ⟨rfl, hw⟩ := hw
      cases inner with
      | nil => exact not_nested_unclosed nmB hin
      | cons y inner =>
        simp only [List.cons_append, List.cons.injEq] at hw
        obtain ⟨rfl, hw⟩ := hw
        cases inner with
        | nil =>
          simp only [List.nil_append, List.cons.injEq, Event.closed.injEq] at hw
          exact absurd hw.1 (by decide)
        | cons z inner =>
          simp only [List.cons_append, List.cons.injEq] at hw
          obtain ⟨_, hw⟩ := hw
          simp at hw

/-! ## A decidable test for pure include graphs -/

def pureLineB (fs : FS) (raw : Bytes) : Bool :=
  match Lex.fields (Lex.stripComment raw) with
  | [] => true
  | [k, n] => k == kwINCLUDE && (fs.lookup n).isSome
  | _ => false

def pureFSB (fs : FS) : Bool :=
  fs.all fun e => !(Lex.lines e.2).2 && (Lex.lines e.2).1.all (pureLineB fs)

theorem pureLineB_sound {fs : FS} {raw : Bytes} (h : pureLineB fs raw = true) : PureLine fs raw := by
  unfold pureLineB at h
  split at h
  · rename_i heq; exact Or.inl heq
  · rename_i k n heq
    simp at h
    exact Or.inr ⟨n, by rw [heq, h.1], h.2⟩
  · cases h

theorem pureFSB_sound {fs : FS} (h : pureFSB fs = true) : PureIncludeFS fs := by
  intro name text hl
  unfold FS.lookup at hl
  cases hfind : fs.find? (·.1 == name) with
  | none => rw [hfind] at hl; cases hl
  | some e =>
    rw [hfind] at hl
    simp at hl
    have hmem : e ∈ fs := List.mem_of_find?_eq_some hfind
    have := List.all_eq_true.mp h e hmem
    simp only [Bool.and_eq_true, Bool.not_eq_true', List.all_eq_true] at this
    rw [hl] at this
    exact ⟨this.1, fun raw hraw => pureLineB_sound (this.2 raw hraw)⟩

/-! ## Building walks of concrete file systems -/

theorem Walk.incOk_of_lines {cfg : Cfg} {ign : Bool} {fs : FS} {path : List Bytes} {tooLong : Bool}
    {raw : Bytes} {ls : List Bytes} {lineNo : Nat} {vb : Option Bytes} {st st1 : St} {n t : Bytes}
    {r : Option Fault × St} {ls' : List Bytes} {tl' : Bool}
    (hT : includeTarget vb raw = some n) (hl : fs.lookup n = some t) (hp : ¬ n ∈ path)
    (hlines : Lex.lines t = (ls', tl'))
    (hin : Walk cfg ign fs (n :: path) tl' ls' 1 none (st.opened n) (none, st1))
    (hrest : Walk cfg ign fs path tooLong ls (lineNo + 1) none ((st1.closed n).closed n) r) :
    Walk cfg ign fs path tooLong (raw :: ls) lineNo vb st r :=
  Walk.incOk hT hl hp (by rw [hlines]; exact hin) hrest

theorem Walk.incFail_of_lines {cfg : Cfg} {ign : Bool} {fs : FS} {path : List Bytes} {tooLong : Bool}
    {raw : Bytes} {ls : List Bytes} {lineNo : Nat} {vb : Option Bytes} {st st1 : St} {n t : Bytes}
    {f : Fault} {ls' : List Bytes} {tl' : Bool}
    (hT : includeTarget vb raw = some n) (hl : fs.lookup n = some t) (hp : ¬ n ∈ path)
    (hlines : Lex.lines t = (ls', tl'))
    (hin : Walk cfg ign fs (n :: path) tl' ls' 1 none (st.opened n) (some f, st1)) :
    Walk cfg ign fs path tooLong (raw :: ls) lineNo vb st (some f, st1.closed n) :=
  Walk.incFail hT hl hp (by rw [hlines]; exact hin)

theorem WalkFile.of_lines {cfg : Cfg} {ign : Bool} {fs : FS} {root text : Bytes} {r : Option Fault × St}
    {ls : List Bytes} {tl : Bool} (hl : fs.lookup root = some text) (hlines : Lex.lines text = (ls, tl))
    (h : Walk cfg ign fs [root] tl ls 1 none (St.opened {} root) r) : WalkFile cfg ign fs root r :=
  ⟨text, hl, by rw [hlines]; exact h⟩

/-! ### root → a → b → a : the first fault is `$INCLUDE a` in `b`, on the path `[b, a, root]` -/

theorem walk_nonRootCycle (ign : Bool) :
    ∃ st', WalkFile Cfg.repaired ign fsNonRootCycle nmRoot
      (some ⟨[nmB, nmA, nmRoot], 1, .includeOnPath nmA⟩, st') := by
  apply Exists.intro
  apply WalkFile.of_lines (text := inc nmA) (by decide) lines_inc_a
  apply Walk.incFail_of_lines (n := nmA) (t := inc nmB) (by decide) (by decide) (by decide) lines_inc_b
  apply Walk.incFail_of_lines (n := nmB) (t := inc nmA) (by decide) (by decide) (by decide) lines_inc_a
  exact Walk.onPath (n := nmA) (t := inc nmB) (by decide) (by decide) (by decide)

theorem fsNonRootCycle_pure : PureIncludeFS fsNonRootCycle := pureFSB_sound (by decide)

end RV.DictParser

namespace RV.C15
open RV RV.Dict RV.DictParser

/-- a pure diamond with a repeated include: root → a, b, b ; a → c ; b → c ; c is a comment line -/
def fsPureDiamond : FS :=
  [(nmRoot, inc nmA ++ inc nmB ++ inc nmB), (nmA, inc [99]), (nmB, inc [99]), ([99], [35, 10])]

/-- the root's line 1 is refused (`X`), its line 2 is `$INCLUDE root`: a cycle that is never reached -/
def fsBadThenCycle : FS := [(nmRoot, [88, 10] ++ inc nmRoot)]

end RV.C15

namespace RV.DictParser
open RV RV.Dict RV.C15

/-! ### The pure diamond: walked to the end, hence (by `pure_graph_ok_iff`) acyclic -/

theorem fsPureDiamond_pure : PureIncludeFS fsPureDiamond := pureFSB_sound (by decide)

theorem lines_leaf : Lex.lines [35, 10] = ([[35]], false) := by decide

theorem walk_leaf (ign : Bool) (fs : FS) (p : List Bytes) (st : St) :
    Walk Cfg.repaired ign fs p false [[35]] 1 none st (none, st) :=
  Walk.line (vb' := none) (st' := st) (by decide)
    (localStep_blank Cfg.repaired ign _ 1 none st [35] rfl (by decide)) (Walk.done _ _ _)

theorem walk_pureDiamond_mid (ign : Bool) (x : Bytes) (hx : ¬ ([99] : Bytes) ∈ [x, nmRoot]) (st : St) :
    Walk Cfg.repaired ign fsPureDiamond [x, nmRoot] false [incLine [99]] 1 none st
      (none, (((st.opened [99]).closed [99]).closed [99])) :=
  Walk.incOk_of_lines (n := [99]) (t := [35, 10]) (by decide) (by decide) hx lines_leaf
    (walk_leaf ign _ _ _) (Walk.done _ _ _)

theorem walk_pureDiamond (ign : Bool) : ∃ st', WalkFile Cfg.repaired ign fsPureDiamond nmRoot (none, st') := by
  apply Exists.intro
  apply WalkFile.of_lines (text := textRoot) (by decide) lines_root
  apply Walk.incOk_of_lines (n := nmA) (t := inc [99]) (by decide) (by decide) (by decide) lines_inc_c
    (walk_pureDiamond_mid ign nmA (by decide) _)
  apply Walk.incOk_of_lines (n := nmB) (t := inc [99]) (by decide) (by decide) (by decide) lines_inc_c
    (walk_pureDiamond_mid ign nmB (by decide) _)
  apply Walk.incOk_of_lines (n := nmB) (t := inc [99]) (by decide) (by decide) (by decide) lines_inc_c
    (walk_pureDiamond_mid ign nmB (by decide) _)
  exact Walk.done _ _ _

theorem fsPureDiamond_ok (ign : Bool) : (parseFile Cfg.repaired ign fsPureDiamond nmRoot).1 = none := by
  obtain ⟨st', hw⟩ := walk_pureDiamond ign
  rw [walkFile_sound hw rfl]
  rfl

theorem fsPureDiamond_acyclic : ¬ HasCycle fsPureDiamond nmRoot :=
  (pure_graph_ok_iff Cfg.repaired false fsPureDiamond nmRoot rfl rfl fsPureDiamond_pure (by decide)).mp
    (fsPureDiamond_ok false)

/-! ### An earlier fault wins: the cycle is there, the report is not `recursive` -/

theorem lines_badThenCycle : Lex.lines ([88, 10] ++ inc nmRoot) = ([[88], incLine nmRoot], false) := by decide

theorem localStep_X (cfg : Cfg) (ign : Bool) (file : Bytes) (lineNo : Nat) (st : St) :
    localStep cfg ign file lineNo none st [88] = .fail (.decl .unknownLine file lineNo) st := by
  have h3 : (Lex.stripComment [88]).isEmpty = false := by decide
  have h4 : Lex.fields (Lex.stripComment [88]) = [[88]] := by decide
  simp [localStep, stepLine, h3, h4, dispatch]

theorem walk_badThenCycle (ign : Bool) :
    WalkFile Cfg.repaired ign fsBadThenCycle nmRoot
      (some ⟨[nmRoot], 1, .badLine .unknownLine⟩, St.opened {} nmRoot) :=
  WalkFile.of_lines (text := [88, 10] ++ inc nmRoot) (by decide) lines_badThenCycle
    (Walk.bad (by decide) (localStep_X _ _ _ _ _))

theorem fsBadThenCycle_result (ign : Bool) :
    (parseFile Cfg.repaired ign fsBadThenCycle nmRoot).1 = some (.decl .unknownLine nmRoot 1) := by
  rw [walkFile_sound (walk_badThenCycle ign) rfl]
  rfl

theorem fsBadThenCycle_cyclic : HasCycle fsBadThenCycle nmRoot :=
  ⟨nmRoot, Or.inl rfl, .step ⟨[88, 10] ++ inc nmRoot, by decide, by decide⟩⟩

end RV.DictParser
