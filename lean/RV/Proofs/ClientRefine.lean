/- Refinement: the Exchange logic machine (`RV.Exchange.step`) restricted to the datagrams it reads
   is the receive loop `RV.Client.recvLoop`.  Used by RV.Props.C05 (machine-level theorems). -/
import RV.Proofs.Client
namespace RV
namespace Exchange
open RV.Client RV.Exchange

variable (H : Hash) (P : Params)

/-- one more datagram after a still-waiting history: the loop does exactly one `stepDatagram` with the
    counter equal to the number of datagrams consumed -/
theorem recvLoop_snoc (hist : List Bytes) (d : Bytes)
    (h : recvLoop H P.cfg P.wireBytes P.secret hist = .waiting) :
    recvLoop H P.cfg P.wireBytes P.secret (hist ++ [d]) =
      match stepDatagram H P.cfg P.wireBytes P.secret (hist.length : Int) d with
      | .ret p => .returned hist.length p
      | .fail e => .failed hist.length e
      | .cont _ => .waiting := by
  unfold recvLoop at h ⊢
  rw [loop_append_waiting H P.cfg P.wireBytes P.secret hist [d] 0 0 h]
  simp only [Nat.zero_add, Int.zero_add]
  unfold recvLoopFrom
  cases stepDatagram H P.cfg P.wireBytes P.secret (hist.length : Int) d <;> simp [recvLoopFrom]

/-- the relation between a machine state and the datagrams it has read so far -/
def RefinesAt (phase : Phase) (ec : Int) (hist : List Bytes) : Prop :=
  match phase with
  | .dialing => hist = [] ∧ ec = 0
  | .waiting =>
    recvLoop H P.cfg P.wireBytes P.secret hist = .waiting ∧ ec = (hist.length : Int)
  | .returned (.reply p) =>
    ∃ pre d, hist = pre ++ [d] ∧ recvLoop H P.cfg P.wireBytes P.secret pre = .waiting ∧
      recvLoop H P.cfg P.wireBytes P.secret hist = .returned pre.length p
  | .returned (.pktErr e) =>
    ∃ pre d, hist = pre ++ [d] ∧ recvLoop H P.cfg P.wireBytes P.secret pre = .waiting ∧
      recvLoop H P.cfg P.wireBytes P.secret hist = .failed pre.length e
  | .returned _ => recvLoop H P.cfg P.wireBytes P.secret hist = .waiting

def Refines (s : State) (hist : List Bytes) : Prop := RefinesAt H P s.phase s.errCount hist

theorem refines_init : Refines H P (init P) [] := by
  unfold init
  cases P.wire <;> simp [Refines, RefinesAt, recvLoop, recvLoopFrom]

theorem deliveredBy_not_waiting (s : State) (e : Event) (h : s.phase ≠ .waiting) :
    deliveredBy s e = [] := by
  cases e <;> simp [deliveredBy, h]

theorem refines_step (s : State) (e : Event) (hist : List Bytes) (h : Refines H P s hist) :
    Refines H P (step H P s e) (hist ++ deliveredBy s e) := by
  rcases s with ⟨phase, sent, cc, ha, cd, ec⟩
  cases phase with
  | dialing =>
    rw [deliveredBy_not_waiting _ e (by simp), List.append_nil]
    simp only [Refines, RefinesAt] at h
    obtain ⟨rfl, rfl⟩ := h
    cases e <;> cases cd <;> (unfold step; simp [Refines, RefinesAt, recvLoop, recvLoopFrom])
  | waiting =>
    have h0 : RefinesAt H P .waiting ec hist := h
    have h' := h
    simp only [Refines, RefinesAt] at h'
    obtain ⟨hw, hc⟩ := h'
    cases e with
    | datagram d =>
      cases cc with
      | true =>
        rw [step_datagram_closed H P _ d rfl rfl]
        simpa [deliveredBy] using h
      | false =>
        rw [step_datagram_open H P _ d rfl rfl]
        have hdel : deliveredBy (⟨.waiting, sent, false, ha, cd, ec⟩ : State) (.datagram d) = [d] := by
          simp [deliveredBy]
        rw [hdel]
        have hsn := recvLoop_snoc H P hist d hw
        subst hc
        simp only
        cases hs : stepDatagram H P.cfg P.wireBytes P.secret (hist.length : Int) d with
        | ret p =>
          rw [hs] at hsn
          simp only [finish, Refines, RefinesAt]
          exact ⟨hist, d, rfl, hw, hsn⟩
        | fail err =>
          rw [hs] at hsn
          simp only [finish, Refines, RefinesAt]
          exact ⟨hist, d, rfl, hw, hsn⟩
        | cont c =>
          rw [hs] at hsn
          have := step_cont_eq H P.cfg P.wireBytes P.secret _ d c hs
          simp only [Refines, RefinesAt]
          refine ⟨hsn, ?_⟩
          rw [this]; simp
    | tick =>
      unfold step; simp only [deliveredBy, List.append_nil]
      split <;> exact h0
    | ctxDone => unfold step; simp only [deliveredBy, List.append_nil]; exact h0
    | helperObservesCtx =>
      unfold step; simp only [deliveredBy, List.append_nil]
      split <;> exact h0
    | readError =>
      unfold step; simp only [deliveredBy, List.append_nil, finish]
      cases cd <;> simp [Refines, RefinesAt, hw]
    | dialOk => unfold step; simp only [deliveredBy, List.append_nil]; exact h0
    | dialFail => unfold step; simp only [deliveredBy, List.append_nil]; exact h0
  | returned r =>
    rw [deliveredBy_not_waiting _ e (by simp), List.append_nil]
    obtain ⟨hp, _, hec⟩ := step_returned H P ⟨.returned r, sent, cc, ha, cd, ec⟩ e r rfl
    unfold Refines at h ⊢
    rw [hp, hec]
    exact h

theorem refines_run (s : State) (evs : List Event) (hist : List Bytes) (h : Refines H P s hist) :
    Refines H P (run H P s evs) (hist ++ deliveredFrom H P s evs) := by
  induction evs generalizing s hist with
  | nil => simpa [deliveredFrom, run_nil] using h
  | cons e es ih =>
    rw [run_cons]
    have := ih (step H P s e) (hist ++ deliveredBy s e) (refines_step H P s e hist h)
    simpa [deliveredFrom, List.append_assoc] using this

/-- REFINEMENT: every reachable state of the machine is related to the datagrams it has read -/
theorem refines_reach (evs : List Event) : Refines H P (reach H P evs) (delivered H P evs) := by
  have := refines_run H P (init P) evs [] (refines_init H P)
  simpa [reach, delivered] using this

/-- the machine fed with datagrams only (after the dial) IS the receive loop -/
theorem run_datagrams (s : State) (hist : List Bytes) (i : Nat)
    (hw : s.phase = .waiting) (hc : s.connClosed = false) :
    (run H P s (hist.map .datagram)).phase =
      phaseOf (recvLoopFrom H P.cfg P.wireBytes P.secret i s.errCount hist) := by
  induction hist generalizing s i with
  | nil => simp [run_nil, recvLoopFrom, phaseOf, hw]
  | cons d ds ih =>
    simp only [List.map_cons]
    rw [run_cons, step_datagram_open H P s d hw hc]
    unfold recvLoopFrom
    cases hs : stepDatagram H P.cfg P.wireBytes P.secret s.errCount d with
    | ret p =>
      simp only [phaseOf]
      exact (run_returned H P _ _ (.reply p) (by simp [finish])).1
    | fail e =>
      simp only [phaseOf]
      exact (run_returned H P _ _ (.pktErr e) (by simp [finish])).1
    | cont c =>
      simp only
      exact ih { s with errCount := c } (i + 1) hw hc

/-- a replying call has written the request at least once -/
theorem sent_nonempty (evs : List Event) :
    ((reach H P evs).phase = .waiting → (reach H P evs).sent ≠ []) ∧
    (∀ p, (reach H P evs).phase = .returned (.reply p) → (reach H P evs).sent ≠ []) ∧
    (∀ e, (reach H P evs).phase = .returned (.pktErr e) → (reach H P evs).sent ≠ []) := by
  apply run_induction H P
    (fun s => (s.phase = .waiting → s.sent ≠ []) ∧
      (∀ p, s.phase = .returned (.reply p) → s.sent ≠ []) ∧
      (∀ e, s.phase = .returned (.pktErr e) → s.sent ≠ []))
  · intro s e hs
    rcases s with ⟨phase, sent, cc, ha, cd, ec⟩
    cases phase with
    | dialing =>
      cases e <;> (unfold step; simp)
      split <;> simp
    | waiting =>
      have hne : sent ≠ [] := hs.1 rfl
      cases e <;> (unfold step finish; simp only) <;> (repeat' split) <;> simp_all
    | returned r =>
      obtain ⟨hp, hse, _⟩ := step_returned H P ⟨.returned r, sent, cc, ha, cd, ec⟩ e r rfl
      rw [hp, hse]
      exact hs
  · unfold init
    cases P.wire <;> simp

theorem wire_ok_of_not_encodeErr (evs : List Event)
    (h : (reach H P evs).phase ≠ .returned .encodeErr) : P.wire = .ok P.wireBytes := by
  cases hw : P.wire with
  | ok w => simp [Params.wireBytes, hw]
  | err =>
    exfalso; apply h
    exact (run_returned H P (init P) evs .encodeErr (by simp [init, hw])).1
  | fault =>
    exfalso; apply h
    exact (run_returned H P (init P) evs .encodeErr (by simp [init, hw])).1

end Exchange
end RV
