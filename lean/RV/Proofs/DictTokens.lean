/-
  C16, token level (L1): every token parser of the model accepts exactly its token language of the
  grammar RV.Model.DictGrammar and returns the value the grammar assigns.
    RV.Proofs.DictTokBase   decimal numbers, signed 32-bit literals
    RV.Proofs.DictTokNum    hexadecimal numbers, VALUE numbers, dotted numbers (OIDs), `format=t,l`, VENDOR arguments
    RV.Proofs.DictTokType   strings.EqualFold, type names incl. `octets[n]`, the flag field and its items
-/
import RV.Proofs.DictTokBase
import RV.Proofs.DictTokNum
import RV.Proofs.DictTokType
