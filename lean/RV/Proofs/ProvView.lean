/-
  Value-level agreement of the heap mirrors (RV/Model/Prov.lean) with the total models, for the
  parts that `RV/Proofs/Prov.lean` leaves out: `encrypt=1` (UserPassword), `encrypt=2`
  (TunnelPassword), vendor attributes (`_GetsVendor` / `_LookupVendor`) and concat attributes.

  Every mirror only ever APPENDS buffers to the heap it was started in and stores into buffers it
  appended itself; the lemmas below compute the final heap exactly (`h ++ …`), from which both the
  value read through the result and the stability of everything older follow.
-/
import RV.Proofs.Prov
import RV.Proofs.Password
import RV.Proofs.Vendor
import RV.Proofs.Helper
namespace RV
namespace Prov

/-! ### the last buffer of a heap -/

theorem buffer_last (g : Heap) (B : Bytes) : (g ++ [B]).buffer g.length = B := by
  simp [Heap.buffer, List.getD_eq_getElem?_getD]

theorem set_last (g : Heap) (B X : Bytes) : (g ++ [B]).set g.length X = g ++ [X] := by
  simp

theorem read_last (g : Heap) (B : Bytes) (off len : Nat) :
    (g ++ [B]).read ⟨g.length, off, len⟩ = (B.drop off).take len := by
  unfold Heap.read; rw [buffer_last]

theorem write_last (g : Heap) (B : Bytes) (L i : Nat) (v : UInt8) (hi : i < L) :
    (g ++ [B]).write ⟨g.length, 0, L⟩ i v = g ++ [B.set i v] := by
  unfold Heap.write
  rw [if_pos hi, buffer_last, set_last]
  simp

/-- `for j, b := range data { s[base+j] = b }` on the last buffer -/
theorem writeRange_last (g : Heap) (data : Bytes) : ∀ (B : Bytes) (L base : Nat),
    base + data.length ≤ L → base + data.length ≤ B.length →
    writeRange ⟨g.length, 0, L⟩ base data (g ++ [B]) =
      ((), g ++ [B.take base ++ data ++ B.drop (base + data.length)]) := by
  induction data with
  | nil =>
    intro B L base _ _
    simp [writeRange]
  | cons b bs ih =>
    intro B L base h1 h2
    simp only [List.length_cons] at h1 h2
    unfold writeRange
    rw [bind_apply]
    have hw : writeS ⟨g.length, 0, L⟩ base b (g ++ [B]) = ((), g ++ [B.set base b]) := by
      unfold writeS; rw [write_last g B L base b (by omega)]
    rw [hw]
    simp only []
    rw [ih (B.set base b) L (base + 1) (by omega) (by simp; omega)]
    congr 2
    rw [List.set_eq_take_append_cons_drop, if_pos (by omega)]
    have hlt : (B.take base).length = base := by rw [List.length_take]; omega
    have e1 : (B.take base ++ b :: B.drop (base + 1)).take (base + 1) = B.take base ++ [b] := by
      rw [List.take_append, hlt, List.take_of_length_le (by omega)]
      have : base + 1 - base = 1 := by omega
      rw [this]; rfl
    have e2 : (B.take base ++ b :: B.drop (base + 1)).drop (base + 1 + bs.length) =
        B.drop (base + (bs.length + 1)) := by
      rw [List.drop_append, hlt, List.drop_of_length_le (by omega), List.nil_append]
      have : base + 1 + bs.length - base = bs.length + 1 := by omega
      rw [this, List.drop_succ_cons, List.drop_drop]
      congr 1; omega
    rw [e1, e2]
    simp

/-- `append(s, data...)` / `hash.Sum(s)` on the last buffer -/
theorem appendS_last (g : Heap) (B : Bytes) (n : Nat) (data : Bytes) :
    appendS ⟨g.length, 0, n⟩ data (g ++ [B]) =
      (⟨g.length, 0, n + data.length⟩, g ++ [B.take n ++ data]) := by
  unfold appendS
  simp only [buffer_last, set_last, Nat.zero_add]

/-! ### UserPassword -/

/-- the block loop of `radius.UserPassword` on its own buffer `dec` (the last buffer of the heap,
    holding `done`): afterwards that buffer holds `done ++ upDecLoop …`, nothing else changed -/
theorem upBlocksH_last (H : Hash) (hH : ∀ x, (H x).length = 16) (sv : Bytes) (g : Heap) (rest : Bytes) :
    ∀ (done prev : Bytes), rest.length % 16 = 0 →
    upBlocksH H sv ⟨g.length, 0, done.length⟩ done.length prev (Rfc2865.blocks rest) (g ++ [done]) =
      (⟨g.length, 0, done.length + rest.length⟩, g ++ [done ++ upDecLoop H sv prev rest]) := by
  induction rest using Rfc2865.blocks.induct with
  | case1 =>
    intro done prev _
    rw [blocks_nil, upDecLoop_nil]
    simp [upBlocksH]
  | case2 rest hne ih =>
    intro done prev hmod
    have hl : 16 ≤ rest.length := by
      cases rest with
      | nil => exact absurd rfl hne
      | cons x xs => simp at hmod ⊢; omega
    rw [blocks_ne rest hne, upDecLoop_ne H sv prev rest hne]
    unfold upBlocksH
    rw [bind_apply, appendS_last]
    simp only []
    rw [bind_apply, readS_apply]
    simp only []
    have hdl : (H (sv ++ prev)).length = 16 := hH _
    have hcur : (g ++ [done.take done.length ++ H (sv ++ prev)]).read
        (Slice.sub ⟨g.length, 0, done.length + (H (sv ++ prev)).length⟩ done.length (done.length + 16)) =
        H (sv ++ prev) := by
      show (g ++ [done.take done.length ++ H (sv ++ prev)]).read ⟨g.length, 0 + done.length, done.length + 16 - done.length⟩ = _
      rw [read_last, List.take_length, Nat.zero_add, List.drop_left]
      have : done.length + 16 - done.length = 16 := by omega
      rw [this, List.take_of_length_le (by omega)]
    rw [hcur, bind_apply]
    have hx : (xorBytes (H (sv ++ prev)) (rest.take 16)).length = 16 := by
      rw [xorBytes_length, hdl, List.length_take]; omega
    rw [writeRange_last g _ _ _ done.length (by rw [hx, hdl]; omega)
      (by rw [hx]; simp [hdl])]
    simp only []
    have hbuf : (done.take done.length ++ H (sv ++ prev)).take done.length ++
        xorBytes (H (sv ++ prev)) (rest.take 16) ++
        (done.take done.length ++ H (sv ++ prev)).drop (done.length + (xorBytes (H (sv ++ prev)) (rest.take 16)).length) =
        done ++ xorBytes (H (sv ++ prev)) (rest.take 16) := by
      rw [List.take_length, List.take_left, hx, List.drop_of_length_le (by simp [hdl]), List.append_nil]
    rw [hbuf]
    have hlen : done.length + (H (sv ++ prev)).length = (done ++ xorBytes (H (sv ++ prev)) (rest.take 16)).length := by
      rw [List.length_append, hx, hdl]
    have hi : done.length + 16 = (done ++ xorBytes (H (sv ++ prev)) (rest.take 16)).length := by
      rw [List.length_append, hx]
    rw [hlen, hi, ih (done ++ xorBytes (H (sv ++ prev)) (rest.take 16)) (rest.take 16)
      (by simp only [List.length_drop]; omega)]
    congr 1
    · simp only [List.length_append, hx, List.length_drop]
      congr 1; omega
    · rw [List.append_assoc]

theorem upDecLoop_length (H : Hash) (hH : ∀ x, (H x).length = 16) (s prev rest : Bytes) :
    (upDecLoop H s prev rest).length = rest.length := by
  induction prev, rest using upDecLoop.induct with
  | case1 prev => simp [upDecLoop_nil]
  | case2 prev rest h ih =>
    rw [upDecLoop_ne H s prev rest h, List.length_append, ih, xorBytes_length, hH]
    simp only [List.length_take, List.length_drop]
    omega

theorem takeWhile_eq_take_length {α} (p : α → Bool) (l : List α) :
    l.take (l.takeWhile p).length = l.takeWhile p := by
  induction l with
  | nil => rfl
  | cons x xs ih =>
    by_cases hp : p x = true
    · simp [hp, ih]
    · simp [hp]

/-- `radius.UserPassword` in the heap: the result is a slice of ONE new buffer (holding the whole
    decryption); the heap is otherwise as it was; and reading the slice gives the model's value -/
theorem userPasswordH_apply (H : Hash) (hH : ∀ x, (H x).length = 16) (a secret : Slice) (ra : Bytes) (h : Heap) :
    userPasswordH H a secret ra h =
      match userPassword H (h.read a) (h.read secret) ra with
      | .ok v => (.ok ⟨h.length, 0, v.length⟩, h ++ [upDecLoop H (h.read secret) ra (h.read a)])
      | .err => (.err, h)
      | .fault => (.fault, h) := by
  unfold userPasswordH userPassword
  rw [bind_apply, readS_apply]
  simp only []
  rw [bind_apply, readS_apply]
  simp only []
  by_cases h1 : (h.read a).length < 16 ∨ (h.read a).length > 128 ∨ (h.read a).length % 16 ≠ 0
  · rw [if_pos h1, if_pos h1]; rfl
  rw [if_neg h1, if_neg h1]
  by_cases h2 : (h.read secret).length = 0
  · rw [if_pos h2, if_pos h2]; rfl
  rw [if_neg h2, if_neg h2]
  by_cases h3 : ra.length ≠ 16
  · rw [if_pos h3, if_pos h3]; rfl
  rw [if_neg h3, if_neg h3, bind_apply, copyNew_apply]
  simp only []
  have hmod : (h.read a).length % 16 = 0 := by omega
  have this : upBlocksH H (h.read secret) ⟨h.length, 0, ([] : Bytes).length⟩ 0 ra (Rfc2865.blocks (h.read a))
      (h ++ [[]]) = (⟨h.length, 0, (h.read a).length⟩, h ++ [upDecLoop H (h.read secret) ra (h.read a)]) := by
    have := upBlocksH_last H hH (h.read secret) h (h.read a) [] ra hmod
    simpa using this
  rw [bind_apply, this]
  simp only []
  rw [bind_apply, readS_apply]
  simp only [pure_apply]
  rw [read_last, List.drop_zero, List.take_of_length_le (by rw [upDecLoop_length H hH]; exact Nat.le_refl _)]
  rfl

theorem userPasswordH_view (H : Hash) (hH : ∀ x, (H x).length = 16) (a secret : Slice) (ra : Bytes) (h : Heap) :
    viewRes (userPasswordH H a secret ra h).2 (userPasswordH H a secret ra h).1 =
      userPassword H (h.read a) (h.read secret) ra := by
  rw [userPasswordH_apply H hH]
  cases hu : userPassword H (h.read a) (h.read secret) ra with
  | ok v =>
    simp only [viewRes]
    rw [read_last, List.drop_zero]
    have hv : v = cutAtNul (upDecLoop H (h.read secret) ra (h.read a)) := by
      unfold userPassword at hu
      split at hu
      · cases hu
      · split at hu
        · cases hu
        · split at hu
          · cases hu
          · cases hu; rfl
    rw [hv]
    unfold cutAtNul
    rw [takeWhile_eq_take_length]
  | err => rfl
  | fault => rfl

/-! ### TunnelPassword -/

theorem take_length_take {α} (l : List α) (n : Nat) : l.take (l.take n).length = l.take n := by
  rw [List.length_take]
  by_cases hn : n ≤ l.length
  · rw [Nat.min_eq_left hn]
  · rw [Nat.min_eq_right (by omega), List.take_length, List.take_of_length_le (by omega)]

/-- the password the model returns is a prefix-of-the-tail of the decrypted plaintext -/
theorem tunnelPassword_pw (H : Hash) (a s ra pw salt : Bytes) (h : tunnelPassword H a s ra = .ok (pw, salt)) :
    ∃ n, pw = ((tpDecLoop H s (ra ++ a.take 2) (a.drop 2)).drop 1).take n := by
  unfold tunnelPassword at h
  split at h
  · cases h
  · split at h
    · cases h
    · split at h
      · cases h
      · split at h
        · cases h
        · simp only [] at h
          split at h
          · cases h
          · cases h; exact ⟨_, rfl⟩

/-- `radius.TunnelPassword` in the heap: two new buffers (the salt copy, the plaintext), the
    password is a slice of the second; nothing older is touched -/
theorem tunnelPasswordH_apply (H : Hash) (hH : ∀ x, (H x).length = 16) (a secret : Slice) (ra : Bytes) (h : Heap) :
    tunnelPasswordH H a secret ra h =
      match tunnelPassword H (h.read a) (h.read secret) ra with
      | .ok (pw, _) =>
        (.ok (⟨h.length + 1, 1, pw.length⟩, ⟨h.length, 0, ((h.read a).take 2).length⟩),
          h ++ [(h.read a).take 2] ++
            [tpDecLoop H (h.read secret) (ra ++ (h.read a).take 2) ((h.read a).drop 2)])
      | .err => (.err, h)
      | .fault => (.fault, h) := by
  unfold tunnelPasswordH
  rw [bind_apply, readS_apply]
  simp only []
  rw [bind_apply, readS_apply]
  simp only []
  cases htp : tunnelPassword H (h.read a) (h.read secret) ra with
  | ok r =>
    obtain ⟨pw, sl⟩ := r
    simp only []
    rw [bind_apply, copyNew_apply]
    simp only []
    rw [bind_apply, copyNew_apply]
    simp only []
    rw [bind_apply]
    have hdl : (tpDecLoop H (h.read secret) (ra ++ (h.read a).take 2) ((h.read a).drop 2)).length =
        (h.read a).length - 2 := by
      rw [tpDecLoop_length H hH, List.length_drop]
    rw [writeRange_last (h ++ [(h.read a).take 2]) _ _ _ 0
      (by rw [hdl, zeros_length]; omega) (by rw [hdl, zeros_length]; omega)]
    have hbuf : (zeros ((h.read a).length - 2)).take 0 ++
        tpDecLoop H (h.read secret) (ra ++ (h.read a).take 2) ((h.read a).drop 2) ++
        (zeros ((h.read a).length - 2)).drop
          (0 + (tpDecLoop H (h.read secret) (ra ++ (h.read a).take 2) ((h.read a).drop 2)).length) =
        tpDecLoop H (h.read secret) (ra ++ (h.read a).take 2) ((h.read a).drop 2) := by
      rw [List.take_zero, List.nil_append, Nat.zero_add,
        List.drop_of_length_le (l := zeros ((h.read a).length - 2)) (by rw [hdl, zeros_length]; exact Nat.le_refl _),
        List.append_nil]
    rw [hbuf]
    simp only [pure_apply]
    congr 1
    simp [Slice.sub]
  | err => rfl
  | fault => rfl

theorem tpPlainH_apply (H : Hash) (hH : ∀ x, (H x).length = 16) (a secret : Slice) (ra : Bytes) (h : Heap) :
    tpPlainH H a secret ra h =
      match tpPlain H (h.read a) (h.read secret) ra with
      | .ok pw =>
        (.ok ⟨h.length + 1, 1, pw.length⟩,
          h ++ [(h.read a).take 2] ++
            [tpDecLoop H (h.read secret) (ra ++ (h.read a).take 2) ((h.read a).drop 2)])
      | .err => (.err, h)
      | .fault => (.fault, h) := by
  unfold tpPlainH tpPlain
  rw [bind_apply, tunnelPasswordH_apply H hH]
  cases tunnelPassword H (h.read a) (h.read secret) ra with
  | ok r => obtain ⟨pw, sl⟩ := r; rfl
  | err => rfl
  | fault => rfl

/-- reading the returned password slice in the final heap gives the model's password -/
theorem tpPlainH_read (H : Hash) (a s ra pw : Bytes) (g : Heap) (hp : tpPlain H a s ra = .ok pw) :
    (g ++ [a.take 2] ++ [tpDecLoop H s (ra ++ a.take 2) (a.drop 2)]).read ⟨g.length + 1, 1, pw.length⟩ = pw := by
  have hk : g.length + 1 = (g ++ [a.take 2]).length := by simp
  rw [hk, read_last]
  unfold tpPlain at hp
  cases ht : tunnelPassword H a s ra with
  | ok r =>
    obtain ⟨pw', sl⟩ := r
    rw [ht] at hp
    simp only [Res.ok.injEq] at hp
    subst hp
    obtain ⟨n, hn⟩ := tunnelPassword_pw H a s ra pw' sl ht
    rw [hn, take_length_take]
  | err => rw [ht] at hp; cases hp
  | fault => rw [ht] at hp; cases hp

theorem tpPlainH_view (H : Hash) (hH : ∀ x, (H x).length = 16) (a secret : Slice) (ra : Bytes) (h : Heap) :
    viewRes (tpPlainH H a secret ra h).2 (tpPlainH H a secret ra h).1 =
      tpPlain H (h.read a) (h.read secret) ra := by
  rw [tpPlainH_apply H hH]
  cases hp : tpPlain H (h.read a) (h.read secret) ra with
  | ok pw => simp only [viewRes]; rw [tpPlainH_read H _ _ _ pw h hp]
  | err => rfl
  | fault => rfl

/-! ### the body of the generated getters, every `encrypt=` -/

/-- the `octets[n]` check after the decoding statement -/
theorem sizeTail_view (d : Desc) (t : UInt8) (m : M (Res Slice)) (h : Heap)
    (hl : ∀ s, (m h).1 = .ok s → s.len = ((m h).2.read s).length) :
    viewDec
      ((m >>= fun r => (match r with
          | .ok s => if d.size.isSome ∧ d.size ≠ some s.len then pure .err else pure (.ok (t, GValH.bytes s))
          | .err => pure .err
          | .fault => pure .fault : M (Res (UInt8 × GValH)))) h).2
      ((m >>= fun r => (match r with
          | .ok s => if d.size.isSome ∧ d.size ≠ some s.len then pure .err else pure (.ok (t, GValH.bytes s))
          | .err => pure .err
          | .fault => pure .fault : M (Res (UInt8 × GValH)))) h).1 =
      (match viewRes (m h).2 (m h).1 with
       | .ok v => if d.size.isSome ∧ d.size ≠ some v.length then .err else .ok (t, GVal.bytes v)
       | .err => .err
       | .fault => .fault) := by
  rw [bind_apply]
  cases hm : (m h).1 with
  | ok s =>
    simp only [viewRes]
    rw [hm] at hl
    rw [hl s rfl]
    by_cases hs : d.size.isSome ∧ d.size ≠ some ((m h).2.read s).length
    · rw [ite_app, if_pos hs, if_pos hs]; rfl
    · rw [ite_app, if_neg hs, if_neg hs]; rfl
  | err => rfl
  | fault => rfl

/-- the decoding statement of a text getter, by `encrypt=` -/
theorem encBranch_view (H : Hash) (hH : ∀ x, (H x).length = 16) (d : Desc) (s secret : Slice) (auth : Bytes) (h : Heap) :
    viewRes
      ((match d.encrypt with
        | 1 => userPasswordH H s secret auth
        | 2 => tpPlainH H s secret auth
        | _ => (do let x ← bytesH s; pure (.ok x) : M (Res Slice))) h).2
      ((match d.encrypt with
        | 1 => userPasswordH H s secret auth
        | 2 => tpPlainH H s secret auth
        | _ => (do let x ← bytesH s; pure (.ok x) : M (Res Slice))) h).1 =
      textPlain H d (h.read s) (h.read secret) auth ∧
    ∀ x, ((match d.encrypt with
        | 1 => userPasswordH H s secret auth
        | 2 => tpPlainH H s secret auth
        | _ => (do let x ← bytesH s; pure (.ok x) : M (Res Slice))) h).1 = .ok x →
      x.len = (((match d.encrypt with
        | 1 => userPasswordH H s secret auth
        | 2 => tpPlainH H s secret auth
        | _ => (do let x ← bytesH s; pure (.ok x) : M (Res Slice))) h).2.read x).length := by
  unfold textPlain
  by_cases h1 : d.encrypt = 1
  · simp only [h1, if_true]
    refine ⟨userPasswordH_view H hH s secret auth h, fun x hx => ?_⟩
    rw [userPasswordH_apply H hH] at hx ⊢
    cases hu : userPassword H (h.read s) (h.read secret) auth with
    | ok v =>
      rw [hu] at hx
      simp only [Res.ok.injEq] at hx
      subst hx
      have := userPasswordH_view H hH s secret auth h
      rw [userPasswordH_apply H hH, hu] at this
      simp only [viewRes, Res.ok.injEq] at this
      simp only []
      rw [this]
    | err => rw [hu] at hx; cases hx
    | fault => rw [hu] at hx; cases hx
  · by_cases h2 : d.encrypt = 2
    · simp only [h2, if_true]
      rw [if_neg (by omega)]
      refine ⟨tpPlainH_view H hH s secret auth h, fun x hx => ?_⟩
      rw [tpPlainH_apply H hH] at hx ⊢
      cases hp : tpPlain H (h.read s) (h.read secret) auth with
      | ok pw =>
        rw [hp] at hx
        simp only [Res.ok.injEq] at hx
        subst hx
        simp only []
        rw [tpPlainH_read H _ _ _ pw h hp]
      | err => rw [hp] at hx; cases hx
      | fault => rw [hp] at hx; cases hx
    · rw [if_neg h1, if_neg h2]
      have hb : (match d.encrypt with
          | 1 => userPasswordH H s secret auth
          | 2 => tpPlainH H s secret auth
          | _ => (do let x ← bytesH s; pure (.ok x) : M (Res Slice))) =
          (do let x ← bytesH s; pure (.ok x) : M (Res Slice)) := by
        split
        · exact absurd ‹d.encrypt = 1› h1
        · exact absurd ‹d.encrypt = 2› h2
        · rfl
      rw [hb]
      refine ⟨?_, fun x hx => ?_⟩
      · simp [bytesH, viewRes]
      · simp only [bind_apply, bytesH_apply, pure_apply, Res.ok.injEq] at hx ⊢
        subst hx
        simp

theorem decodeValueH_text_all (H : Hash) (hH : ∀ x, (H x).length = 16) (d : Desc)
    (hk : d.kind = .string ∨ d.kind = .octets ∨ d.kind = .concat) (a secret : Slice) (auth : Bytes) (h : Heap) :
    viewDec (decodeValueH H d a secret auth h).2 (decodeValueH H d a secret auth h).1 =
      decodeValue H d (h.read a) (h.read secret) auth := by
  rw [decodeValue_text H d hk]
  have key : ∀ ta : UInt8 × Slice,
      viewDec (((match d.encrypt with
             | 1 => userPasswordH H ta.2 secret auth
             | 2 => tpPlainH H ta.2 secret auth
             | _ => (do let s ← bytesH ta.2; pure (.ok s) : M (Res Slice))) >>= fun r => (match r with
          | .ok s => if d.size.isSome ∧ d.size ≠ some s.len then pure .err else pure (.ok (ta.1, GValH.bytes s))
          | .err => pure .err
          | .fault => pure .fault : M (Res (UInt8 × GValH)))) h).2
        (((match d.encrypt with
             | 1 => userPasswordH H ta.2 secret auth
             | 2 => tpPlainH H ta.2 secret auth
             | _ => (do let s ← bytesH ta.2; pure (.ok s) : M (Res Slice))) >>= fun r => (match r with
          | .ok s => if d.size.isSome ∧ d.size ≠ some s.len then pure .err else pure (.ok (ta.1, GValH.bytes s))
          | .err => pure .err
          | .fault => pure .fault : M (Res (UInt8 × GValH)))) h).1 =
      (match textPlain H d (h.read ta.2) (h.read secret) auth with
       | .ok v => if d.size.isSome ∧ d.size ≠ some v.length then .err else .ok (ta.1, GVal.bytes v)
       | .err => .err
       | .fault => .fault) := by
    intro ta
    obtain ⟨hv, hl⟩ := encBranch_view H hH d ta.2 secret auth h
    exact (sizeTail_view d ta.1 _ h hl).trans (by first | (rw [hv]; rfl) | rw [hv])
  have hu := tagIfH d a h
  rw [Prod.ext_iff] at hu
  simp only [] at hu
  have hun : untag d (h.read a) = ((if d.hasTag = true then tagStripH (h.read a) a else (0, a)).1,
      h.read (if d.hasTag = true then tagStripH (h.read a) a else (0, a)).2) := by
    unfold untag; rw [Prod.ext_iff]; exact ⟨hu.1.symm, hu.2.symm⟩
  rw [hun]
  rcases hk with hk | hk | hk <;> simp only [decodeValueH, hk] <;>
    exact key (if d.hasTag = true then tagStripH (h.read a) a else (0, a))

/-- the optional salt decryption in front of a non-text decoder -/
theorem saltFirst_view (H : Hash) (hH : ∀ x, (H x).length = 16) (d : Desc) (a secret : Slice) (auth : Bytes) (h : Heap)
    (k : Slice → M (Res (UInt8 × GValH))) (km : Bytes → Res (UInt8 × GVal))
    (hk : ∀ s g, viewDec (k s g).2 (k s g).1 = km (g.read s)) :
    viewDec
      (((if d.usesSalt = true then tpPlainH H a secret auth else (pure (.ok a) : M (Res Slice))) >>= fun r =>
        (match r with
         | .ok a => k a
         | .err => pure .err
         | .fault => pure .fault : M (Res (UInt8 × GValH)))) h).2
      (((if d.usesSalt = true then tpPlainH H a secret auth else (pure (.ok a) : M (Res Slice))) >>= fun r =>
        (match r with
         | .ok a => k a
         | .err => pure .err
         | .fault => pure .fault : M (Res (UInt8 × GValH)))) h).1 =
      (match (if d.usesSalt = true then tpPlain H (h.read a) (h.read secret) auth else (.ok (h.read a) : Res Bytes)) with
       | .ok v => km v
       | .err => .err
       | .fault => .fault) := by
  rw [bind_apply]
  by_cases hs : d.usesSalt = true
  · rw [if_pos hs, if_pos hs, tpPlainH_apply H hH]
    cases hp : tpPlain H (h.read a) (h.read secret) auth with
    | ok pw =>
      simp only []
      rw [hk, tpPlainH_read H _ _ _ pw h hp]
    | err => rfl
    | fault => rfl
  · rw [if_neg hs, if_neg hs, pure_apply]
    simp only []
    rw [hk]

theorem intCase_view_all (H : Hash) (hH : ∀ x, (H x).length = 16) (d : Desc) (w : Nat) (a secret : Slice) (auth : Bytes) (h : Heap) :
    viewDec
      ((if d.hasTag = true then (do
          let ta ← tagStripIntH a
          let av ← readS ta.2
          if av.length ≠ w then pure .err else pure (.ok (ta.1, GValH.nat (beNat av))) : M (Res (UInt8 × GValH)))
        else do
          let r ← (if d.usesSalt = true then tpPlainH H a secret auth else (pure (.ok a) : M (Res Slice)))
          match r with
          | .ok a => do
            let av ← readS a
            if av.length ≠ w then pure .err else pure (.ok (0, GValH.nat (beNat av)))
          | .err => pure .err
          | .fault => pure .fault) h).2
      ((if d.hasTag = true then (do
          let ta ← tagStripIntH a
          let av ← readS ta.2
          if av.length ≠ w then pure .err else pure (.ok (ta.1, GValH.nat (beNat av))) : M (Res (UInt8 × GValH)))
        else do
          let r ← (if d.usesSalt = true then tpPlainH H a secret auth else (pure (.ok a) : M (Res Slice)))
          match r with
          | .ok a => do
            let av ← readS a
            if av.length ≠ w then pure .err else pure (.ok (0, GValH.nat (beNat av)))
          | .err => pure .err
          | .fault => pure .fault) h).1 =
    (if d.hasTag = true then
        let ta := if (h.read a).length ≥ 1 ∧ ((h.read a).getD 0 0).toNat ≤ 0x1F then
          ((h.read a).getD 0 0, (0 : UInt8) :: (h.read a).drop 1) else (0, h.read a)
        if ta.2.length ≠ w then .err else .ok (ta.1, GVal.nat (beNat ta.2))
      else
        match (if d.usesSalt = true then tpPlain H (h.read a) (h.read secret) auth else (.ok (h.read a) : Res Bytes)) with
        | .ok a => if a.length ≠ w then .err else .ok (0, GVal.nat (beNat a))
        | .err => .err
        | .fault => .fault) := by
  by_cases ht : d.hasTag = true
  · rw [if_pos ht, if_pos ht, bind_apply, tagStripIntH_apply]
    split
    · rw [intTailG_apply, viewDec_int, read_new1]
    · rw [intTailG_apply, viewDec_int]
  · rw [if_neg ht, if_neg ht]
    exact saltFirst_view H hH d a secret auth h
      (fun a => (do
            let av ← readS a
            if av.length ≠ w then pure .err else pure (.ok (0, GValH.nat (beNat av))) : M (Res (UInt8 × GValH))))
      (fun v => if v.length ≠ w then .err else .ok (0, GVal.nat (beNat v)))
      (fun s g => by rw [intTailG_apply, viewDec_int])

theorem decodeValueH_view_all (H : Hash) (hH : ∀ x, (H x).length = 16) (d : Desc) (a secret : Slice) (auth : Bytes) (h : Heap) :
    viewDec (decodeValueH H d a secret auth h).2 (decodeValueH H d a secret auth h).1 =
      decodeValue H d (h.read a) (h.read secret) auth := by
  by_cases hk : d.kind = .string ∨ d.kind = .octets ∨ d.kind = .concat
  · exact decodeValueH_text_all H hH d hk a secret auth h
  unfold decodeValueH decodeValue
  cases hkk : d.kind <;> simp only [hkk] at hk ⊢
  case string | octets | concat => simp at hk
  case ipaddr =>
    simp only [if_true]
    exact saltFirst_view H hH d a secret auth h
      (fun a => (copyDecH ipAddr a >>= fun ip => (pure (okBytes 0 ip) : M (Res (UInt8 × GValH)))))
      (fun v => match ipAddr v with | .ok ip => .ok (0, GVal.bytes ip) | .err => .err | .fault => .fault)
      (fun s g => ipCase_view ipAddr s g)
  case ipv6addr =>
    simp only [reduceCtorEq, if_false]
    exact saltFirst_view H hH d a secret auth h
      (fun a => (copyDecH ipv6Addr a >>= fun ip => (pure (okBytes 0 ip) : M (Res (UInt8 × GValH)))))
      (fun v => match ipv6Addr v with | .ok ip => .ok (0, GVal.bytes ip) | .err => .err | .fault => .fault)
      (fun s g => ipCase_view ipv6Addr s g)
  case ifid => exact ipCase_view ifid a h
  case ipv6prefix =>
    rw [bind_apply, ipv6PrefixH_apply]
    cases ipv6Prefix (h.read a) with
    | ok r =>
      obtain ⟨ip, mask⟩ := r
      have e1 := read_new h ip [mask]
      have e2 := read_new (h ++ [ip]) mask []
      simp only [List.append_assoc, List.cons_append, List.nil_append] at e2
      simp only [viewDec, GValH.view, pure_apply, List.append_assoc, List.cons_append, List.nil_append, e1, e2]
    | err => rfl
    | fault => rfl
  case date =>
    have e : dateH a h = (date (h.read a), h) := rfl
    rw [bind_apply, e]
    cases date (h.read a) <;> rfl
  case byte =>
    rw [bind_apply, readS_apply]
    by_cases hc : (h.read a).length ≠ 1
    · rw [if_pos hc, if_pos hc]; rfl
    · rw [if_neg hc, if_neg hc]; rfl
  case integer => simp only [Kind.intBytes]; exact intCase_view_all H hH d 4 a secret auth h
  case integer64 => simp only [Kind.intBytes]; exact intCase_view_all H hH d 8 a secret auth h
  case short => simp only [Kind.intBytes]; exact intCase_view_all H hH d 2 a secret auth h

/-! ### vendor attributes -/

theorem vsaHead_some {vsa : Bytes} {t : UInt8} {sub rest : Bytes} (h : vsaHead vsa = some (t, sub, rest)) :
    sub = vsa.take sub.length ∧ rest = vsa.drop sub.length ∧ 2 ≤ sub.length ∧ sub.length ≤ vsa.length := by
  unfold vsaHead at h
  split at h
  · next t' l tl =>
    split at h
    · cases h
    · next hc =>
      simp only [Option.some.injEq, Prod.mk.injEq] at h
      obtain ⟨_, h2, h3⟩ := h
      have hl : sub.length = l.toNat := by rw [← h2, List.length_take]; omega
      rw [hl]
      exact ⟨h2.symm, h3.symm, by omega, by omega⟩
  · cases h

theorem vsaGetsH_read (typ : UInt8) (g : Heap) (vsa : Slice) (bytes : Bytes) :
    g.read vsa = bytes → vsa.len = bytes.length → (vsaGetsH typ vsa bytes).map g.read = vsaGets typ bytes := by
  fun_induction vsaGetsH typ vsa bytes with
  | case1 vsa bytes hh =>
    intro _ _
    rw [vsaGets]; split <;> simp_all
  | case2 vsa bytes sub rest hh ih =>
    intro hr hl
    obtain ⟨h1, h2, h3, h4⟩ := vsaHead_some hh
    have hsub : g.read (vsa.sub 2 sub.length) = sub.drop 2 := by
      rw [read_sub g vsa 2 sub.length (by omega), hr]
      conv => rhs; rw [h1]
      rw [List.drop_take]
    have hrest : g.read (vsa.sub sub.length vsa.len) = rest := by
      rw [read_sub_from, hr, ← h2]
    have hlen : (vsa.sub sub.length vsa.len).len = rest.length := by
      show vsa.len - sub.length = rest.length
      rw [h2, List.length_drop, hl]
    rw [List.map_cons, hsub, ih hrest hlen]
    conv => rhs; rw [vsaGets]
    split
    · next heq => rw [hh] at heq; cases heq
    · next t' sub' rest' heq =>
      rw [hh] at heq
      simp only [Option.some.injEq, Prod.mk.injEq] at heq
      obtain ⟨rfl, rfl, rfl⟩ := heq
      simp
  | case3 vsa bytes t sub rest hh ht ih =>
    intro hr hl
    obtain ⟨h1, h2, h3, h4⟩ := vsaHead_some hh
    have hrest : g.read (vsa.sub sub.length vsa.len) = rest := by
      rw [read_sub_from, hr, ← h2]
    have hlen : (vsa.sub sub.length vsa.len).len = rest.length := by
      show vsa.len - sub.length = rest.length
      rw [h2, List.length_drop, hl]
    rw [ih hrest hlen]
    conv => rhs; rw [vsaGets]
    split
    · next heq => rw [hh] at heq; cases heq
    · next t' sub' rest' heq =>
      rw [hh] at heq
      simp only [Option.some.injEq, Prod.mk.injEq] at heq
      obtain ⟨rfl, rfl, rfl⟩ := heq
      simp [ht]

theorem vendorSpecificH_apply (a : Slice) (h : Heap) :
    vendorSpecificH a h =
      match vendorSpecific (h.read a) with
      | .ok (id, v) => (.ok (id, ⟨h.length, 0, v.length⟩), h ++ [v])
      | .err => (.err, h)
      | .fault => (.fault, h) := by
  simp only [vendorSpecificH, bind_apply, readS_apply]
  cases vendorSpecific (h.read a) with
  | ok r => obtain ⟨id, v⟩ := r; rfl
  | err => rfl
  | fault => rfl

theorem getsVendor_cons (vid : Nat) (typ : UInt8) (a : AVP) (as : Attrs) :
    getsVendor vid typ (a :: as) =
      (match vendorPayload vid a with | some payload => vsaGets typ payload | none => []) ++ getsVendor vid typ as := by
  unfold getsVendor; rw [List.flatMap_cons]; rfl

/-- `_GetsVendor` in the heap: the heap only grows; the returned slices, read in the final heap, are
    the model's values; all of them lie in buffers of the final heap -/
theorem getsVendorH_view (vid : Nat) (typ : UInt8) (attrs : List (Int × Slice)) :
    ∀ (h : Heap), (∀ ts ∈ attrs, ts.2.buf < h.length) →
    ∃ ext, (getsVendorH vid typ attrs h).2 = h ++ ext ∧
      (getsVendorH vid typ attrs h).1.map (h ++ ext).read = getsVendor vid typ (viewAttrs h attrs) ∧
      ∀ s ∈ (getsVendorH vid typ attrs h).1, s.buf < (h ++ ext).length := by
  induction attrs with
  | nil =>
    intro h _
    exact ⟨[], by simp [getsVendorH], by simp [getsVendorH, viewAttrs, getsVendor], by simp [getsVendorH]⟩
  | cons ts rest ih =>
    intro h hb
    have hbr : ∀ ts' ∈ rest, ts'.2.buf < h.length := fun ts' ht => hb ts' (List.mem_cons_of_mem _ ht)
    have hva : viewAttrs h (ts :: rest) = ⟨ts.1, h.read ts.2⟩ :: viewAttrs h rest := rfl
    rw [hva, getsVendor_cons]
    unfold getsVendorH
    by_cases ht : ts.1 ≠ vsaType
    · rw [if_pos ht]
      have : vendorPayload vid ⟨ts.1, h.read ts.2⟩ = none := by unfold vendorPayload; rw [if_pos ht]
      rw [this]
      exact ih h hbr
    · rw [if_neg ht, bind_apply, vendorSpecificH_apply]
      have ht' : ¬ ((⟨ts.1, h.read ts.2⟩ : AVP).typ ≠ vsaType) := ht
      cases hvs : vendorSpecific (h.read ts.2) with
      | ok r =>
        obtain ⟨id, v⟩ := r
        simp only []
        have hbr1 : ∀ ts' ∈ rest, ts'.2.buf < (h ++ [v]).length := by
          intro ts' ht'; have := hbr ts' ht'; simp; omega
        have hv1 : viewAttrs (h ++ [v]) rest = viewAttrs h rest := viewAttrs_append_heap h [v] rest hbr
        obtain ⟨ext, he, hm, hbuf⟩ := ih (h ++ [v]) hbr1
        by_cases hid : id ≠ vid
        · rw [if_pos hid]
          have : vendorPayload vid ⟨ts.1, h.read ts.2⟩ = none := by
            unfold vendorPayload; rw [if_neg ht']; simp only [hvs]; rw [if_neg hid]
          rw [this]
          refine ⟨[v] ++ ext, by rw [he, List.append_assoc], ?_, ?_⟩
          · rw [← List.append_assoc, hm, hv1]; rfl
          · rw [← List.append_assoc]; exact hbuf
        · rw [if_neg hid]
          have hid' : id = vid := Classical.not_not.1 hid
          have hp : vendorPayload vid ⟨ts.1, h.read ts.2⟩ = some v := by
            unfold vendorPayload; rw [if_neg ht']; simp only [hvs]; rw [if_pos hid']
          rw [hp]
          simp only [bind_apply, readS_apply, pure_apply]
          refine ⟨[v] ++ ext, by rw [he, List.append_assoc], ?_, ?_⟩
          · rw [List.map_append, ← List.append_assoc, hm, hv1]
            congr 1
            have hrd : (h ++ [v]).read ⟨h.length, 0, v.length⟩ = v := read_new1 h v
            rw [hrd]
            have : ∀ s ∈ vsaGetsH typ ⟨h.length, 0, v.length⟩ v, (h ++ [v] ++ ext).read s = (h ++ [v]).read s := by
              intro s hs
              have := vsaGetsH_buf typ _ _ s hs
              exact read_append (h ++ [v]) ext s (by rw [this]; simp)
            rw [List.map_congr_left this]
            exact vsaGetsH_read typ (h ++ [v]) ⟨h.length, 0, v.length⟩ v hrd rfl
          · intro s hs
            rw [← List.append_assoc]
            rcases List.mem_append.1 hs with hs | hs
            · have hrd : (h ++ [v]).read ⟨h.length, 0, v.length⟩ = v := read_new1 h v
              rw [hrd] at hs
              have := vsaGetsH_buf typ _ _ s hs
              rw [this]; simp
            · exact hbuf s hs
      | err =>
        simp only []
        have : vendorPayload vid ⟨ts.1, h.read ts.2⟩ = none := by
          unfold vendorPayload; rw [if_neg ht']; simp only [hvs]
        rw [this]
        exact ih h hbr
      | fault =>
        simp only []
        have : vendorPayload vid ⟨ts.1, h.read ts.2⟩ = none := by
          unfold vendorPayload; rw [if_neg ht']; simp only [hvs]
        rw [this]
        exact ih h hbr

/-! ### stored slices of an attribute, concat loop, X_Lookup for every descriptor -/

theorem filter_map_read (h : Heap) (k : Int) (l : List (Int × Slice)) :
    ((l.filter (fun ts => ts.1 = k)).map (·.2)).map h.read =
      ((viewAttrs h l).filter (fun a => a.typ = k)).map (·.val) := by
  induction l with
  | nil => rfl
  | cons ts rest ih =>
    have hva : viewAttrs h (ts :: rest) = ⟨ts.1, h.read ts.2⟩ :: viewAttrs h rest := rfl
    rw [hva, List.filter_cons, List.filter_cons]
    by_cases hk : ts.1 = k
    · simp only [hk, decide_true, if_true, List.map_cons, ih]
    · simp only [hk, decide_false, Bool.false_eq_true, if_false, ih]

theorem view_attrs_eq (p : HPacket) (h : Heap) : (p.view h).attrs = viewAttrs h p.attrs := rfl

theorem rawSlicesH_view (d : Desc) (p : HPacket) (h : Heap) (hp : p.below h.length) :
    ∃ ext, (rawSlicesH d p h).2 = h ++ ext ∧
      (rawSlicesH d p h).1.map (h ++ ext).read = rawValues d (p.view h).attrs ∧
      ∀ s ∈ (rawSlicesH d p h).1, s.buf < (h ++ ext).length := by
  unfold rawSlicesH rawValues
  by_cases hv : d.vendorID = 0
  · rw [if_pos hv, if_pos hv]
    refine ⟨[], by simp, ?_, ?_⟩
    · rw [List.append_nil, pure_apply, view_attrs_eq]; exact filter_map_read h d.typ p.attrs
    · intro s hs
      rw [List.append_nil]
      simp only [pure_apply, List.mem_map, List.mem_filter] at hs
      obtain ⟨ts, ⟨hts, _⟩, rfl⟩ := hs
      exact hp.2 ts hts
  · rw [if_neg hv, if_neg hv, view_attrs_eq]
    exact getsVendorH_view d.vendorID d.vendorType p.attrs h hp.2

theorem buffer_mid (g e : Heap) (B : Bytes) : (g ++ [B] ++ e).buffer g.length = B := by
  simp [Heap.buffer, List.getD_eq_getElem?_getD]

theorem set_mid (g e : Heap) (B X : Bytes) : (g ++ [B] ++ e).set g.length X = g ++ [X] ++ e := by
  simp

/-- the loop of a concat `X_Lookup`: `value`'s own buffer (at index `g.length`) ends up holding the
    concatenation; every other change is an allocation after it -/
theorem concatLoopH_apply (g : Heap) (raws : List Slice) (hr : ∀ s ∈ raws, s.buf < g.length) :
    ∀ (B : Bytes) (e : Heap),
    ∃ e', concatLoopH raws ⟨g.length, 0, B.length⟩ (g ++ [B] ++ e) =
      (⟨g.length, 0, (B ++ (raws.map g.read).flatten).length⟩, g ++ [B ++ (raws.map g.read).flatten] ++ e') := by
  induction raws with
  | nil => intro B e; exact ⟨e, by simp [concatLoopH]⟩
  | cons a rest ih =>
    intro B e
    have ha : a.buf < g.length := hr a List.mem_cons_self
    have hra : (g ++ [B] ++ e).read a = g.read a := by
      rw [List.append_assoc]; exact read_append g _ a ha
    unfold concatLoopH
    rw [bind_apply, bytesH_apply, hra]
    simp only []
    rw [bind_apply, readS_apply]
    simp only []
    rw [read_new1, bind_apply]
    have hap : appendS ⟨g.length, 0, B.length⟩ (g.read a) (g ++ [B] ++ e ++ [g.read a]) =
        (⟨g.length, 0, (B ++ g.read a).length⟩, g ++ [B ++ g.read a] ++ (e ++ [g.read a])) := by
      unfold appendS
      have e1 : g ++ [B] ++ e ++ [g.read a] = g ++ [B] ++ (e ++ [g.read a]) := by simp
      rw [e1, buffer_mid, set_mid, Nat.zero_add, List.take_length, List.length_append]
    rw [hap]
    simp only []
    obtain ⟨e', he'⟩ := ih (fun s hs => hr s (List.mem_cons_of_mem _ hs)) (B ++ g.read a) (e ++ [g.read a])
    refine ⟨e', ?_⟩
    rw [he']
    simp [List.append_assoc]

theorem hLookupH_view_all (H : Hash) (hH : ∀ x, (H x).length = 16) (d : Desc) (p : HPacket) (auth : Bytes)
    (h : Heap) (hp : p.below h.length) :
    (hLookupH H d p auth h).1.view (hLookupH H d p auth h).2 =
      hLookup H d (p.view h).attrs (h.read p.secret) auth := by
  obtain ⟨ext, he, hm, hb⟩ := rawSlicesH_view d p h hp
  unfold hLookupH hLookup
  rw [bind_apply, he, ← hm]
  generalize (rawSlicesH d p h).1 = raws at hm hb ⊢
  by_cases hc : d.kind = .concat
  · rw [if_pos hc, if_pos hc]
    cases raws with
    | nil => rfl
    | cons a rest =>
      simp only [List.map_cons]
      rw [bind_apply, copyNew_apply]
      simp only []
      obtain ⟨e', he'⟩ := concatLoopH_apply (h ++ ext) (a :: rest) hb [] []
      rw [List.append_nil] at he'
      rw [bind_apply, he']
      simp only [pure_apply, LookupResH.view, GValH.view, List.nil_append]
      have : (h ++ ext ++ [((a :: rest).map (h ++ ext).read).flatten] ++ e').read
          ⟨(h ++ ext).length, 0, (((a :: rest).map (h ++ ext).read).flatten).length⟩ =
          ((a :: rest).map (h ++ ext).read).flatten := by
        rw [List.append_assoc (h ++ ext)]
        exact read_new (h ++ ext) _ e'
      rw [this]
      rfl
  · rw [if_neg hc, if_neg hc]
    cases raws with
    | nil => rfl
    | cons a rest =>
      simp only [List.map_cons, List.head?_cons]
      rw [bind_apply]
      have hd := decodeValueH_view_all H hH d a p.secret auth (h ++ ext)
      rw [read_append h ext p.secret hp.1] at hd
      cases hres : (decodeValueH H d a p.secret auth (h ++ ext)).1 with
      | ok tv =>
        obtain ⟨t, v⟩ := tv
        rw [hres] at hd
        simp only [viewDec] at hd
        rw [← hd]; rfl
      | err =>
        rw [hres] at hd
        simp only [viewDec] at hd
        rw [← hd]; rfl
      | fault =>
        rw [hres] at hd
        simp only [viewDec] at hd
        rw [← hd]; rfl

theorem below_mono (p : HPacket) {n m : Nat} (hp : p.below n) (h : n ≤ m) : p.below m :=
  ⟨Nat.lt_of_lt_of_le hp.1 h, fun ts hts => Nat.lt_of_lt_of_le (hp.2 ts hts) h⟩

/-- two `X_Lookup` calls in a row show the caller the same value — every descriptor -/
theorem hLookupH_repeat_all (H : Hash) (hH : ∀ x, (H x).length = 16) (d : Desc) (p : HPacket) (auth : Bytes)
    (h : Heap) (hp : p.below h.length) :
    let r₁ := hLookupH H d p auth h
    let r₂ := hLookupH H d p auth r₁.2
    r₂.1.view r₂.2 = r₁.1.view r₁.2 := by
  intro r₁ r₂
  have hpure : Ext h.length h r₁.2 := (tr_hLookupH h.length H d p auth h (Nat.le_refl _)).1
  show (hLookupH H d p auth r₁.2).1.view (hLookupH H d p auth r₁.2).2 = (hLookupH H d p auth h).1.view (hLookupH H d p auth h).2
  rw [hLookupH_view_all H hH d p auth r₁.2 (below_mono p hp hpure.1), hLookupH_view_all H hH d p auth h hp,
    hpure.view p hp, hpure.read _ hp.1]

end Prov
end RV
