/- Helper lemmas about RV.Model.Password used by RV.Props.C04 and RV.Props.C11. -/
import RV.Model.Password
namespace RV
end RV
