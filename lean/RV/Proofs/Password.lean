/- Helper lemmas about RV.Model.Password used by RV.Props.C04 and RV.Props.C11. -/
import RV.Model.Password
namespace RV

/-! ### xorBytes algebra -/

theorem xorBytes_comm (a b : Bytes) : xorBytes a b = xorBytes b a := by
  induction a generalizing b with
  | nil => simp
  | cons x xs ih =>
    cases b with
    | nil => simp
    | cons y ys => simp [ih, UInt8.xor_comm]

theorem xorBytes_cancel (a b : Bytes) (h : a.length ≤ b.length) :
    xorBytes (xorBytes a b) b = a := by
  induction a generalizing b with
  | nil => simp
  | cons x xs ih =>
    cases b with
    | nil => simp at h
    | cons y ys =>
      simp at h
      simp [ih ys h, UInt8.xor_assoc]

theorem xorBytes_cancel' (a b : Bytes) (h : a.length ≤ b.length) :
    xorBytes b (xorBytes a b) = a := by
  rw [xorBytes_comm, xorBytes_cancel a b h]

theorem xorBytes_zeros_left (h : Bytes) (n : Nat) (hn : h.length ≤ n) :
    xorBytes (zeros n) h = h := by
  induction h generalizing n with
  | nil => simp
  | cons y ys ih =>
    cases n with
    | zero => simp at hn
    | succ n =>
      simp at hn
      have := ih n hn
      simp [zeros, List.replicate_succ] at this ⊢
      exact this

theorem zeros_length (n : Nat) : (zeros n).length = n := by simp [zeros]

theorem xorInto_eq (h p : Bytes) (hp : p.length ≤ h.length) :
    xorInto h p = xorBytes (p ++ zeros (h.length - p.length)) h := by
  induction p generalizing h with
  | nil => simp [xorInto, xorBytes_zeros_left]
  | cons x xs ih =>
    cases h with
    | nil => simp at hp
    | cons y ys =>
      simp at hp
      have := ih ys hp
      simp [xorInto] at this ⊢
      simp [this, UInt8.xor_comm]

theorem xorInto_length (h p : Bytes) (hp : p.length ≤ h.length) :
    (xorInto h p).length = h.length := by
  rw [xorInto_eq h p hp, xorBytes_length]
  simp [zeros_length]
  omega

/-! ### unfolding lemmas -/

theorem upEncLoop_nil (H : Hash) (s prev : Bytes) : upEncLoop H s prev [] = [] := by
  rw [upEncLoop]; simp

theorem upEncLoop_ne (H : Hash) (s prev rest : Bytes) (h : rest ≠ []) :
    upEncLoop H s prev rest =
      xorInto (H (s ++ prev)) (rest.take 16) ++
        upEncLoop H s (xorInto (H (s ++ prev)) (rest.take 16)) (rest.drop 16) := by
  rw [upEncLoop]; simp [h]

theorem upDecLoop_nil (H : Hash) (s prev : Bytes) : upDecLoop H s prev [] = [] := by
  rw [upDecLoop]; simp

theorem upDecLoop_ne (H : Hash) (s prev rest : Bytes) (h : rest ≠ []) :
    upDecLoop H s prev rest =
      xorBytes (H (s ++ prev)) (rest.take 16) ++ upDecLoop H s (rest.take 16) (rest.drop 16) := by
  rw [upDecLoop]; simp [h]

theorem tpEncLoop_nil (H : Hash) (s iv : Bytes) : tpEncLoop H s iv [] = [] := by
  rw [tpEncLoop]; simp

theorem tpEncLoop_ne (H : Hash) (s iv rest : Bytes) (h : rest ≠ []) :
    tpEncLoop H s iv rest =
      xorBytes (rest.take 16) (H (s ++ iv)) ++
        tpEncLoop H s (xorBytes (rest.take 16) (H (s ++ iv))) (rest.drop 16) := by
  rw [tpEncLoop]; simp [h]

theorem tpDecLoop_nil (H : Hash) (s iv : Bytes) : tpDecLoop H s iv [] = [] := by
  rw [tpDecLoop]; simp

theorem tpDecLoop_ne (H : Hash) (s iv rest : Bytes) (h : rest ≠ []) :
    tpDecLoop H s iv rest =
      xorBytes (rest.take 16) (H (s ++ iv)) ++ tpDecLoop H s (rest.take 16) (rest.drop 16) := by
  rw [tpDecLoop]; simp [h]

theorem blocks_nil : Rfc2865.blocks [] = [] := by
  rw [Rfc2865.blocks]; simp

theorem blocks_ne (b : Bytes) (h : b ≠ []) :
    Rfc2865.blocks b = b.take 16 :: Rfc2865.blocks (b.drop 16) := by
  rw [Rfc2865.blocks]; simp [h]

/-! ### blocks -/

theorem blocks_flatten (b : Bytes) : (Rfc2865.blocks b).flatten = b := by
  induction b using Rfc2865.blocks.induct with
  | case1 => simp [blocks_nil]
  | case2 b h ih => rw [blocks_ne b h]; simp [ih]

theorem blocks_all16 (b : Bytes) (hb : b.length % 16 = 0) :
    ∀ p ∈ Rfc2865.blocks b, p.length = 16 := by
  induction b using Rfc2865.blocks.induct with
  | case1 => simp [blocks_nil]
  | case2 b h ih =>
    rw [blocks_ne b h]
    have hl : 16 ≤ b.length := by
      cases b with
      | nil => exact absurd rfl h
      | cons x xs => simp at hb ⊢; omega
    intro p hp
    simp at hp
    rcases hp with hp | hp
    · subst hp; simp; omega
    · exact ih (by simp; omega) p hp

/-- padding length used by the RFC -/
abbrev padLen (n : Nat) : Nat := (16 - n % 16) % 16

theorem pad_take (rest : Bytes) (h : rest ≠ []) :
    (rest ++ zeros (padLen rest.length)).take 16 =
      rest.take 16 ++ zeros (16 - (rest.take 16).length) := by
  have hl : 0 < rest.length := List.length_pos_iff.mpr h
  rw [List.take_append]
  congr 1
  simp only [zeros, List.take_replicate, List.length_take, padLen]
  congr 1
  omega

theorem pad_drop (rest : Bytes) (h : rest ≠ []) :
    (rest ++ zeros (padLen rest.length)).drop 16 =
      rest.drop 16 ++ zeros (padLen (rest.drop 16).length) := by
  have hl : 0 < rest.length := List.length_pos_iff.mpr h
  rw [List.drop_append]
  congr 1
  simp only [zeros, List.drop_replicate, List.length_drop, padLen]
  congr 1
  omega

/-! ### User-Password -/

theorem upEncLoop_eq_hide (H : Hash) (hH : ∀ x, (H x).length = 16) (s prev rest : Bytes) :
    upEncLoop H s prev rest =
      (Rfc2865.hide H s prev (Rfc2865.blocks (rest ++ zeros (padLen rest.length)))).flatten := by
  induction prev, rest using upEncLoop.induct H s with
  | case1 prev => simp [upEncLoop_nil, zeros, blocks_nil, Rfc2865.hide]
  | case2 prev rest h c ih =>
    rw [upEncLoop_ne H s prev rest h, blocks_ne _ (by simp [h]), pad_take rest h, pad_drop rest h]
    simp only [Rfc2865.hide, List.flatten_cons]
    have hc : c = xorBytes (rest.take 16 ++ zeros (16 - (rest.take 16).length)) (H (s ++ prev)) := by
      show xorInto _ _ = _
      rw [xorInto_eq _ _ (by simp [hH]; omega), hH]
    rw [← hc, ← ih]

theorem pad16_length_mod (p : Bytes) : (Rfc2865.pad16 p).length % 16 = 0 := by
  unfold Rfc2865.pad16
  split
  · simp [zeros]
  · simp [zeros]; omega

theorem pad16_length (p : Bytes) :
    (Rfc2865.pad16 p).length = 16 * max 1 ((p.length + 15) / 16) := by
  unfold Rfc2865.pad16
  split
  · next h => subst h; simp [zeros]
  · next h =>
    have hl : 0 < p.length := List.length_pos_iff.mpr h
    simp [zeros]; omega

/-- the whole encryption (first block included) when the plaintext is non-empty is just the loop -/
theorem newUserPassword_body (H : Hash) (hH : ∀ x, (H x).length = 16) (plain s ra : Bytes) :
    xorInto (H (s ++ ra)) (plain.take 16) ++
        upEncLoop H s (xorInto (H (s ++ ra)) (plain.take 16)) (plain.drop 16) =
      Rfc2865.userPasswordCipher H plain s ra := by
  unfold Rfc2865.userPasswordCipher Rfc2865.pad16
  split
  · next h =>
    subst h
    have hz : zeros 16 ≠ [] := by simp [zeros]
    have e := xorInto_eq (H (s ++ ra)) [] (by simp)
    rw [hH] at e
    simp only [List.take_nil, List.drop_nil, upEncLoop_nil, List.append_nil, List.length_nil,
      Nat.sub_zero, List.nil_append] at e ⊢
    rw [blocks_ne _ hz]
    have : (zeros 16).drop 16 = [] := by simp [zeros]
    rw [this, blocks_nil]
    have : (zeros 16).take 16 = zeros 16 := by simp [zeros]
    rw [this]
    simp [Rfc2865.hide, e]
  · next h =>
    rw [← upEncLoop_ne H s ra plain h]
    exact upEncLoop_eq_hide H hH s ra plain

theorem newUserPassword_ok (H : Hash) (plain s ra c : Bytes)
    (h : newUserPassword H plain s ra = .ok c) :
    plain.length ≤ 128 ∧ s ≠ [] ∧ ra.length = 16 ∧
      c = xorInto (H (s ++ ra)) (plain.take 16) ++
        upEncLoop H s (xorInto (H (s ++ ra)) (plain.take 16)) (plain.drop 16) := by
  unfold newUserPassword at h
  split at h
  · cases h
  · split at h
    · cases h
    · split at h
      · cases h
      · next h1 h2 h3 =>
        simp only [Res.ok.injEq] at h
        refine ⟨by omega, ?_, by omega, h.symm⟩
        intro e; subst e; simp at h2

theorem newUserPassword_ok_iff (H : Hash) (plain s ra : Bytes) :
    (∃ c, newUserPassword H plain s ra = .ok c) ↔
      plain.length ≤ 128 ∧ s ≠ [] ∧ ra.length = 16 := by
  constructor
  · rintro ⟨c, h⟩
    have := newUserPassword_ok H plain s ra c h
    exact ⟨this.1, this.2.1, this.2.2.1⟩
  · rintro ⟨h1, h2, h3⟩
    have : s.length ≠ 0 := by
      intro e; exact h2 (List.length_eq_zero_iff.mp e)
    unfold newUserPassword
    simp [show ¬ plain.length > 128 by omega, this, h3]

theorem newUserPassword_ne_fault (H : Hash) (plain s ra : Bytes) :
    newUserPassword H plain s ra ≠ .fault := by
  unfold newUserPassword
  repeat' split
  all_goals simp

theorem newUserPassword_eq_rfc (H : Hash) (hH : ∀ x, (H x).length = 16) (plain s ra c : Bytes)
    (h : newUserPassword H plain s ra = .ok c) :
    c = Rfc2865.userPasswordCipher H plain s ra := by
  rw [(newUserPassword_ok H plain s ra c h).2.2.2]
  exact newUserPassword_body H hH plain s ra

theorem hide_flatten_length (H : Hash) (hH : ∀ x, (H x).length = 16) (s prev : Bytes)
    (ps : List Bytes) (hp : ∀ p ∈ ps, p.length = 16) :
    (Rfc2865.hide H s prev ps).flatten.length = ps.flatten.length := by
  induction ps generalizing prev with
  | nil => simp [Rfc2865.hide]
  | cons p ps ih =>
    simp only [Rfc2865.hide, List.flatten_cons, List.length_append, xorBytes_length, hH]
    rw [ih _ (fun q hq => hp q (List.mem_cons_of_mem _ hq))]
    have := hp p (List.mem_cons_self)
    omega

theorem userPasswordCipher_length (H : Hash) (hH : ∀ x, (H x).length = 16) (plain s ra : Bytes) :
    (Rfc2865.userPasswordCipher H plain s ra).length = 16 * max 1 ((plain.length + 15) / 16) := by
  unfold Rfc2865.userPasswordCipher
  rw [hide_flatten_length H hH _ _ _ (blocks_all16 _ (pad16_length_mod plain)), blocks_flatten,
    pad16_length]

/-- decryption inverts the RFC chain on full blocks -/
theorem upDecLoop_hide (H : Hash) (hH : ∀ x, (H x).length = 16) (s prev : Bytes)
    (ps : List Bytes) (hp : ∀ p ∈ ps, p.length = 16) :
    upDecLoop H s prev (Rfc2865.hide H s prev ps).flatten = ps.flatten := by
  induction ps generalizing prev with
  | nil => simp [Rfc2865.hide, upDecLoop_nil]
  | cons p ps ih =>
    have hpl := hp p (List.mem_cons_self)
    simp only [Rfc2865.hide, List.flatten_cons]
    have hcl : (xorBytes p (H (s ++ prev))).length = 16 := by
      simp [xorBytes_length, hH, hpl]
    have hne : xorBytes p (H (s ++ prev)) ++
        (Rfc2865.hide H s (xorBytes p (H (s ++ prev))) ps).flatten ≠ [] := by
      intro e
      have := congrArg List.length e
      simp [hcl] at this
    rw [upDecLoop_ne _ _ _ _ hne]
    rw [List.take_left' hcl, List.drop_left' hcl]
    rw [ih _ (fun q hq => hp q (List.mem_cons_of_mem _ hq))]
    rw [xorBytes_cancel' p _ (by rw [hH]; omega)]

theorem upDecLoop_cipher (H : Hash) (hH : ∀ x, (H x).length = 16) (plain s ra : Bytes) :
    upDecLoop H s ra (Rfc2865.userPasswordCipher H plain s ra) = Rfc2865.pad16 plain := by
  unfold Rfc2865.userPasswordCipher
  rw [upDecLoop_hide H hH _ _ _ (blocks_all16 _ (pad16_length_mod plain)), blocks_flatten]

theorem takeWhile_append_zeros (l : Bytes) (k : Nat) :
    (l ++ zeros k).takeWhile (· ≠ 0) = l.takeWhile (· ≠ 0) := by
  induction l with
  | nil => cases k <;> simp [zeros, List.replicate_succ, List.takeWhile]
  | cons x xs ih =>
    simp only [List.cons_append, List.takeWhile_cons]
    split
    · rw [ih]
    · rfl

theorem cutAtNul_pad16 (p : Bytes) : cutAtNul (Rfc2865.pad16 p) = p.takeWhile (· ≠ 0) := by
  unfold cutAtNul Rfc2865.pad16
  split
  · next h => subst h; simp [zeros, List.replicate_succ, List.takeWhile]
  · exact takeWhile_append_zeros p _

theorem takeWhile_nulfree (p : Bytes) (hn : ∀ x ∈ p, x ≠ 0) : p.takeWhile (· ≠ 0) = p := by
  induction p with
  | nil => simp
  | cons x xs ih =>
    have hx := hn x (List.mem_cons_self)
    rw [List.takeWhile_cons, ih (fun y hy => hn y (List.mem_cons_of_mem _ hy))]
    simp [hx]

theorem userPassword_ok_iff (H : Hash) (a s ra : Bytes) :
    (∃ p, userPassword H a s ra = .ok p) ↔
      16 ≤ a.length ∧ a.length ≤ 128 ∧ a.length % 16 = 0 ∧ s ≠ [] ∧ ra.length = 16 := by
  have hs : s.length = 0 ↔ s = [] := List.length_eq_zero_iff
  unfold userPassword
  constructor
  · rintro ⟨p, h⟩
    split at h
    · cases h
    · split at h
      · cases h
      · split at h
        · cases h
        · next h1 h2 h3 =>
          refine ⟨by omega, by omega, by omega, fun e => h2 (hs.mpr e), by omega⟩
  · rintro ⟨h1, h2, h3, h4, h5⟩
    have : ¬ (a.length < 16 ∨ a.length > 128 ∨ a.length % 16 ≠ 0) := by omega
    have h4' : s.length ≠ 0 := fun e => h4 (hs.mp e)
    simp [this, h4', h5]

theorem userPassword_ne_fault (H : Hash) (a s ra : Bytes) : userPassword H a s ra ≠ .fault := by
  unfold userPassword
  repeat' split
  all_goals simp

theorem userPassword_roundtrip (H : Hash) (hH : ∀ x, (H x).length = 16) (plain s ra c : Bytes)
    (h : newUserPassword H plain s ra = .ok c) :
    userPassword H c s ra = .ok (plain.takeWhile (· ≠ 0)) := by
  have hok := newUserPassword_ok H plain s ra c h
  have hc := newUserPassword_eq_rfc H hH plain s ra c h
  have hl := userPasswordCipher_length H hH plain s ra
  rw [← hc] at hl
  have hs : s.length ≠ 0 := fun e => hok.2.1 (List.length_eq_zero_iff.mp e)
  have hg : ¬ (c.length < 16 ∨ c.length > 128 ∨ c.length % 16 ≠ 0) := by
    have := hok.1
    omega
  unfold userPassword
  simp only [hg, hs, hok.2.2.1, if_false, ne_eq, not_true_eq_false]
  rw [hc, upDecLoop_cipher H hH, cutAtNul_pad16]

/-! ### Tunnel-Password -/

theorem bv8_hi : ∀ x : BitVec 8, (x &&& 0x80#8 ≠ 0x80#8) ↔ x.toNat < 128 := by decide

theorem u8_hi (x : UInt8) : (x &&& 0x80 ≠ 0x80) ↔ x.toNat < 128 := by
  have := bv8_hi x.toBitVec
  rw [← UInt8.toNat_toBitVec, ← this, ne_eq, ne_eq, ← UInt8.toBitVec_inj]
  rfl

theorem tpEncLoop_eq_encrypt (H : Hash) (s iv rest : Bytes) :
    tpEncLoop H s iv rest = (Rfc2868.encrypt H s iv (Rfc2865.blocks rest)).flatten := by
  induction iv, rest using tpEncLoop.induct H s with
  | case1 iv => simp [tpEncLoop_nil, blocks_nil, Rfc2868.encrypt]
  | case2 iv rest h c ih =>
    rw [tpEncLoop_ne H s iv rest h, blocks_ne _ h]
    simp only [Rfc2868.encrypt, List.flatten_cons]
    rw [← ih]

theorem tpEncLoop_length (H : Hash) (hH : ∀ x, (H x).length = 16) (s iv rest : Bytes) :
    (tpEncLoop H s iv rest).length = rest.length := by
  induction iv, rest using tpEncLoop.induct H s with
  | case1 iv => simp [tpEncLoop_nil]
  | case2 iv rest h c ih =>
    rw [tpEncLoop_ne H s iv rest h, List.length_append, ih, xorBytes_length, hH]
    simp only [List.length_take, List.length_drop]
    omega

theorem tpDecLoop_length (H : Hash) (hH : ∀ x, (H x).length = 16) (s iv rest : Bytes) :
    (tpDecLoop H s iv rest).length = rest.length := by
  induction iv, rest using tpDecLoop.induct with
  | case1 iv => simp [tpDecLoop_nil]
  | case2 iv rest h ih =>
    rw [tpDecLoop_ne H s iv rest h, List.length_append, ih, xorBytes_length, hH]
    simp only [List.length_take, List.length_drop]
    omega

theorem tpDec_tpEnc (H : Hash) (hH : ∀ x, (H x).length = 16) (s iv rest : Bytes)
    (hr : rest.length % 16 = 0) :
    tpDecLoop H s iv (tpEncLoop H s iv rest) = rest := by
  induction iv, rest using tpEncLoop.induct H s with
  | case1 iv => simp [tpEncLoop_nil, tpDecLoop_nil]
  | case2 iv rest h c ih =>
    have hl : 16 ≤ rest.length := by
      have : 0 < rest.length := List.length_pos_iff.mpr h
      omega
    have htl : (rest.take 16).length = 16 := by simp; omega
    have hcl : c.length = 16 := by
      show (xorBytes _ _).length = 16
      rw [xorBytes_length, hH, htl]; rfl
    rw [tpEncLoop_ne H s iv rest h]
    show tpDecLoop H s iv (c ++ tpEncLoop H s c (rest.drop 16)) = rest
    have hne : c ++ tpEncLoop H s c (rest.drop 16) ≠ [] := by
      intro e
      have := congrArg List.length e
      simp [hcl] at this
    rw [tpDecLoop_ne _ _ _ _ hne]
    rw [List.take_left' hcl, List.drop_left' hcl]
    rw [ih (by simp; omega)]
    show xorBytes (xorBytes _ _) _ ++ _ = _
    rw [xorBytes_cancel _ _ (by rw [hH, htl]; omega), List.take_append_drop]

theorem tpPlain_eq (pw : Bytes) :
    UInt8.ofNat pw.length :: pw ++ zeros ((1 + pw.length + 15) / 16 * 16 - 1 - pw.length) =
      Rfc2868.plaintext pw := by
  unfold Rfc2868.plaintext
  simp only [List.length_cons]
  congr 2
  omega

theorem plaintext_length (pw : Bytes) :
    (Rfc2868.plaintext pw).length = 16 * ((1 + pw.length + 15) / 16) := by
  unfold Rfc2868.plaintext
  simp [zeros]
  omega

theorem plaintext_head (pw : Bytes) :
    (Rfc2868.plaintext pw).getD 0 0 = UInt8.ofNat pw.length := by
  unfold Rfc2868.plaintext
  simp

theorem plaintext_body (pw : Bytes) :
    ((Rfc2868.plaintext pw).drop 1).take pw.length = pw := by
  unfold Rfc2868.plaintext
  simp

theorem newTunnelPassword_ok (H : Hash) (pw salt s ra a : Bytes)
    (h : newTunnelPassword H pw salt s ra = .ok a) :
    pw.length ≤ 239 ∧ salt.length = 2 ∧ 128 ≤ (salt.getD 0 0).toNat ∧ s ≠ [] ∧ ra.length = 16 ∧
      a = salt ++ tpEncLoop H s (ra ++ salt) (Rfc2868.plaintext pw) := by
  unfold newTunnelPassword at h
  split at h
  · cases h
  · split at h
    · cases h
    · split at h
      · cases h
      · split at h
        · cases h
        · split at h
          · cases h
          · next h1 h2 h3 h4 h5 =>
            simp only [Res.ok.injEq, tpPlain_eq] at h
            rw [u8_hi] at h3
            refine ⟨by simp [tunnelPasswordMax] at h1; omega, by omega, by omega, ?_, by omega, h.symm⟩
            intro e; subst e; simp at h4

theorem newTunnelPassword_ok_iff (H : Hash) (pw salt s ra : Bytes) :
    (∃ a, newTunnelPassword H pw salt s ra = .ok a) ↔
      pw.length ≤ 239 ∧ salt.length = 2 ∧ 128 ≤ (salt.getD 0 0).toNat ∧ s ≠ [] ∧ ra.length = 16 := by
  constructor
  · rintro ⟨a, h⟩
    have := newTunnelPassword_ok H pw salt s ra a h
    exact ⟨this.1, this.2.1, this.2.2.1, this.2.2.2.1, this.2.2.2.2.1⟩
  · rintro ⟨h1, h2, h3, h4, h5⟩
    have hs : s.length ≠ 0 := fun e => h4 (List.length_eq_zero_iff.mp e)
    have hb : ¬ ((salt.getD 0 0) &&& 0x80 ≠ 0x80) := by rw [u8_hi]; omega
    unfold newTunnelPassword
    simp only [show ¬ pw.length > tunnelPasswordMax by simp [tunnelPasswordMax]; omega, h2, hb, hs, h5,
      if_false, ne_eq, not_true_eq_false]
    exact ⟨_, rfl⟩

theorem newTunnelPassword_ne_fault (H : Hash) (pw salt s ra : Bytes) :
    newTunnelPassword H pw salt s ra ≠ .fault := by
  unfold newTunnelPassword
  repeat' split
  all_goals simp

theorem newTunnelPassword_eq_rfc (H : Hash) (pw salt s ra a : Bytes)
    (h : newTunnelPassword H pw salt s ra = .ok a) :
    a = Rfc2868.tunnelPasswordCipher H pw salt s ra := by
  rw [(newTunnelPassword_ok H pw salt s ra a h).2.2.2.2.2, tpEncLoop_eq_encrypt]
  rfl

theorem newTunnelPassword_length (H : Hash) (hH : ∀ x, (H x).length = 16) (pw salt s ra a : Bytes)
    (h : newTunnelPassword H pw salt s ra = .ok a) :
    a.length = 2 + 16 * ((1 + pw.length + 15) / 16) := by
  have hok := newTunnelPassword_ok H pw salt s ra a h
  rw [hok.2.2.2.2.2, List.length_append, tpEncLoop_length H hH, plaintext_length, hok.2.1]

theorem tunnelPassword_ne_fault (H : Hash) (a s ra : Bytes) : tunnelPassword H a s ra ≠ .fault := by
  unfold tunnelPassword
  repeat' split
  all_goals try (dsimp only; split)
  all_goals simp

theorem tunnelPassword_roundtrip (H : Hash) (hH : ∀ x, (H x).length = 16) (pw salt s ra a : Bytes)
    (h : newTunnelPassword H pw salt s ra = .ok a) :
    tunnelPassword H a s ra = .ok (pw, salt) := by
  have hok := newTunnelPassword_ok H pw salt s ra a h
  obtain ⟨h1, h2, h3, h4, h5, ha⟩ := hok
  have hlen := newTunnelPassword_length H hH pw salt s ra a h
  have hs : s.length ≠ 0 := fun e => h4 (List.length_eq_zero_iff.mp e)
  have hg : ¬ (a.length > 252 ∨ a.length < 18 ∨ (a.length - 2) % 16 ≠ 0) := by omega
  have htake : a.take 2 = salt := by
    rw [ha, List.take_append_of_le_length (by omega), ← h2, List.take_length]
  have hdrop : a.drop 2 = tpEncLoop H s (ra ++ salt) (Rfc2868.plaintext pw) := by
    rw [ha, List.drop_append_of_le_length (by omega), ← h2, List.drop_length, List.nil_append]
  have hhd : a.getD 0 0 = salt.getD 0 0 := by
    rw [ha]
    cases salt with
    | nil => simp at h2
    | cons x xs => simp
  have hb : ¬ ((a.getD 0 0) &&& 0x80 ≠ 0x80) := by rw [hhd, u8_hi]; omega
  have hpl : (Rfc2868.plaintext pw).length % 16 = 0 := by rw [plaintext_length]; omega
  have hn : (UInt8.ofNat pw.length).toNat = pw.length := by
    simp [UInt8.toNat_ofNat']
    omega
  unfold tunnelPassword
  simp only [hg, hs, h5, hb, if_false, ne_eq, not_true_eq_false]
  rw [htake, hdrop, tpDec_tpEnc H hH _ _ _ hpl, plaintext_head, hn, plaintext_body,
    plaintext_length]
  rw [if_neg (by omega)]

theorem tunnelPassword_ok_iff (H : Hash) (hH : ∀ x, (H x).length = 16) (a s ra : Bytes) :
    (∃ r, tunnelPassword H a s ra = .ok r) ↔
      18 ≤ a.length ∧ a.length ≤ 252 ∧ (a.length - 2) % 16 = 0 ∧ s ≠ [] ∧ ra.length = 16 ∧
      128 ≤ (a.getD 0 0).toNat ∧
      ((tpDecLoop H s (ra ++ a.take 2) (a.drop 2)).getD 0 0).toNat ≤ a.length - 2 - 1 := by
  have hsl : s.length = 0 ↔ s = [] := List.length_eq_zero_iff
  have hdl : (tpDecLoop H s (ra ++ a.take 2) (a.drop 2)).length = a.length - 2 := by
    rw [tpDecLoop_length H hH]; simp
  unfold tunnelPassword
  constructor
  · rintro ⟨r, h⟩
    split at h
    · cases h
    · split at h
      · cases h
      · split at h
        · cases h
        · split at h
          · cases h
          · next h1 h2 h3 h4 =>
            simp only at h
            split at h
            · cases h
            · next h5 =>
              rw [u8_hi] at h4
              rw [hdl] at h5
              exact ⟨by omega, by omega, by omega, fun e => h2 (hsl.mpr e), by omega, by omega,
                by omega⟩
  · rintro ⟨h1, h2, h3, h4, h5, h6, h7⟩
    have hg : ¬ (a.length > 252 ∨ a.length < 18 ∨ (a.length - 2) % 16 ≠ 0) := by omega
    have hs : s.length ≠ 0 := fun e => h4 (hsl.mp e)
    have hb : ¬ ((a.getD 0 0) &&& 0x80 ≠ 0x80) := by rw [u8_hi]; omega
    simp only [hg, hs, h5, hb, if_false, ne_eq, not_true_eq_false]
    rw [hdl, if_neg (by omega)]
    exact ⟨_, rfl⟩

end RV
