/-
  C17 helper lemmas (audit round, third part): the per-kind statements of the API shape over `declsOf`.
-/
import RV.Proofs.GenAudit2
set_option linter.unusedSimpArgs false
namespace RV.Gen
open RV.Dict RV.Gen.Spec

theorem stringy_of {t : AttrType} (h : t = .string ∨ t = .octets) : stringy t = true := by
  rcases h with h | h <;> simp [stringy, h]

/-- what the validity rules say about `concat` -/
theorem concat_of_valid {cfg : Cfg} {vendor : Bool} {a : Attribute} (hv : invalidAttr cfg vendor a = false)
    (hc : concatenated a = true) : vendor = false := by
  simp only [invalidAttr, Bool.or_eq_false_iff] at hv
  have := hv.1.1.2
  cases vendor
  · rfl
  · simp [hc] at this

theorem template_of_valid {cfg : Cfg} {vendor : Bool} {a : Attribute} (hv : invalidAttr cfg vendor a = false)
    (ht : hasTemplate a.typ = false) : vendor = false ∧ a.typ = .vsa := by
  simp only [invalidAttr, Bool.or_eq_false_iff] at hv
  have := hv.2
  simp [ht] at this
  exact this

variable {d : Dictionary} {o : Options} {out : Output} {vendor : Bool} {a : Attribute} {vs : List Value}

theorem helpers_text' (hacc : generate Cfg.repaired d o = .ok out) (hin : AttrIn d vendor a vs) (hi : a.name ∉ o.ignore)
    (hk : a.typ = .string ∨ a.typ = .octets) (hc : concatenated a = false) :
    (declsOf out vendor a).map (·.role) =
      (if vendor then [] else [Role.typeConst])
      ++ [.add, .addString, .get, .getString, .gets, .getStrings, .lookup, .lookupString, .set, .setString, .del] := by
  obtain ⟨vals, he, _⟩ := declsOf_eq hacc hin hi
  rw [he, List.map_append, attrDecls_text vendor a vals (stringy_of hk) (by simp [hc])]
  cases vendor <;> rfl

theorem helpers_concat' (hacc : generate Cfg.repaired d o = .ok out) (hin : AttrIn d vendor a vs) (hi : a.name ∉ o.ignore)
    (hk : a.typ = .string ∨ a.typ = .octets) (hc : concatenated a = true) :
    vendor = false ∧
    (declsOf out vendor a).map (·.role) =
      [.typeConst, .get, .getString, .lookup, .lookupString, .set, .setString, .del] := by
  obtain ⟨vals, he, _, hv, _⟩ := declsOf_eq hacc hin hi
  have hvn := concat_of_valid hv hc
  subst hvn
  refine ⟨rfl, ?_⟩
  rw [he, List.map_append, attrDecls_concat a vals (stringy_of hk) hc]
  rfl

theorem helpers_simple' (hacc : generate Cfg.repaired d o = .ok out) (hin : AttrIn d vendor a vs) (hi : a.name ∉ o.ignore)
    (hk : a.typ = .ipaddr ∨ a.typ = .ipv6addr ∨ a.typ = .ipv6prefix ∨ a.typ = .ifid ∨ a.typ = .date ∨ a.typ = .byte) :
    (declsOf out vendor a).map (·.role) =
      (if vendor then [] else [Role.typeConst]) ++ [.add, .get, .gets, .lookup, .set, .del] := by
  obtain ⟨vals, he, _⟩ := declsOf_eq hacc hin hi
  have h3 : hasTemplate a.typ = true ∧ stringy a.typ = false ∧ isIntKind a.typ = false := by
    rcases hk with h | h | h | h | h | h <;> simp [h, hasTemplate, stringy, isIntKind, intBits, isIPKind]
  rw [he, List.map_append, attrDecls_simple vendor a vals h3.1 h3.2.1 h3.2.2]
  cases vendor <;> rfl

theorem helpers_none' (hacc : generate Cfg.repaired d o = .ok out) (hin : AttrIn d vendor a vs) (hi : a.name ∉ o.ignore)
    (hk : hasTemplate a.typ = false) :
    vendor = false ∧ a.typ = .vsa ∧ declsOf out vendor a = [typeConstDecl a] := by
  obtain ⟨vals, he, _, hv, _⟩ := declsOf_eq hacc hin hi
  obtain ⟨hvn, ht⟩ := template_of_valid hv hk
  subst hvn
  refine ⟨rfl, ht, ?_⟩
  rw [he, attrDecls_none false a vals hk]
  rfl

theorem helpers_integer' (hacc : generate Cfg.repaired d o = .ok out) (hin : AttrIn d vendor a vs) (hi : a.name ∉ o.ignore)
    (n : Nat) (hk : intBits a.typ = some n) :
    (declsOf out vendor a).map (fun dc => (dc.role, dc.name, dc.results)) =
      (if vendor then [] else [(Role.typeConst, identifier a.name ++ bs "_Type", [Ty.radiusType])])
      ++ [(Role.valueType, identifier a.name, [if n = 64 then Ty.u64 else if n = 16 then Ty.u16 else Ty.u32])]
      ++ (attrValues a.name (sortValues vs)).map (fun v =>
            (Role.valueConst, identifier a.name ++ bs "_Value_" ++ identifier v.name, [Ty.named (identifier a.name)]))
      ++ [(Role.strings, identifier a.name ++ bs "_Strings", [Ty.mapStr (identifier a.name)]),
          (Role.stringer, identifier a.name ++ bs ".String", [Ty.str]),
          (Role.add, identifier a.name ++ bs "_Add", [Ty.error]),
          (Role.get, identifier a.name ++ bs "_Get", tg a .byte ++ [Ty.named (identifier a.name)]),
          (Role.gets, identifier a.name ++ bs "_Gets", tg a .bytes ++ [Ty.slice (Ty.named (identifier a.name)), Ty.error]),
          (Role.lookup, identifier a.name ++ bs "_Lookup", tg a .byte ++ [Ty.named (identifier a.name), Ty.error]),
          (Role.set, identifier a.name ++ bs "_Set", [Ty.error]),
          (Role.del, identifier a.name ++ bs "_Del", [])]
    ∧ ((attrValues a.name (sortValues vs)).map (fun v => identifier v.name)).Nodup
    ∧ (∀ v ∈ attrValues a.name (sortValues vs), v.number < 2 ^ n) := by
  obtain ⟨vals, he, hvals, _, _, hok, hfit⟩ := declsOf_eq hacc hin hi
  have hint : isIntKind a.typ = true := by simp [isIntKind, hk]
  refine ⟨?_, ?_, ?_⟩
  · rw [he, List.map_append, attrDecls_int vendor a vals n hk, hvals]
    cases vendor <;> simp [typeConstDecl]
  · rw [← hvals]; exact hok hint
  · rw [← hvals]; exact hfit n hk

theorem helper_names' (hacc : generate Cfg.repaired d o = .ok out) (hin : AttrIn d vendor a vs) (hi : a.name ∉ o.ignore) :
    ∀ dc ∈ declsOf out vendor a, dc.kind = dc.role.kind ∧
      ((dc.role ≠ .valueConst ∧ dc.name = identifier a.name ++ bs dc.role.suffix) ∨
       (dc.role = .valueConst ∧ ∃ v ∈ attrValues a.name (sortValues vs),
          dc.name = identifier a.name ++ bs "_Value_" ++ identifier v.name)) := by
  obtain ⟨vals, he, hvals, _⟩ := declsOf_eq hacc hin hi
  intro dc hdc
  rw [he] at hdc
  rcases List.mem_append.1 hdc with hdc | hdc
  · cases vendor
    · simp only [Bool.false_eq_true, if_false, List.mem_singleton] at hdc
      subst hdc
      exact ⟨rfl, Or.inl ⟨by simp [typeConstDecl], rfl⟩⟩
    · simp at hdc
  · refine ⟨(attrDecls_kinds vendor a vals dc hdc).1, ?_⟩
    by_cases hvc : dc.role = .valueConst
    · right
      rw [← hvals]
      exact ⟨hvc, attrDecls_names2 vendor a vals dc hdc hvc⟩
    · exact Or.inl ⟨hvc, attrDecls_names1 vendor a vals dc hdc hvc⟩

/-- `declsOf` collects exactly the sections of that origin -/
theorem mem_declsOf {out : Output} {vendor : Bool} {a : Attribute} {dc : Decl} :
    dc ∈ declsOf out vendor a ↔ ∃ s ∈ out.sections, s.1 = .attr vendor a ∧ dc ∈ s.2 := by
  simp only [declsOf, List.mem_flatMap, List.mem_filter, beq_iff_eq]
  constructor
  · rintro ⟨s, ⟨hs, ho⟩, hd⟩; exact ⟨s, hs, ho, hd⟩
  · rintro ⟨s, hs, ho, hd⟩; exact ⟨s, ⟨hs, ho⟩, hd⟩

theorem extInit_is_init' {cfg : Cfg} {d : Dictionary} {o : Options} {out : Output} (h : generate cfg d o = .ok out) :
    ∀ dc ∈ out.decls, dc.role = .extInit → dc = ⟨.func, .extInit, bs "init", [], []⟩ := by
  obtain ⟨seen, evs0, vimps, _, _, _, _, hsec, _⟩ := generate_ok_full h
  intro dc hdc hr
  obtain ⟨s, hs, hdc⟩ := List.mem_flatMap.1 hdc
  rw [hsec] at hs
  rcases mem_gSections hs with ⟨b, hb, rfl⟩ | ⟨v, _, rfl⟩ | ⟨e, he, rfl⟩ | ⟨b, hb, rfl⟩ | ⟨v, _, rfl⟩ | ⟨v, hv, b, hb, rfl⟩
  · rw [List.mem_singleton] at hdc
    subst hdc
    cases hr
  · rw [List.mem_singleton] at hdc
    subst hdc
    cases hr
  · rcases List.mem_cons.1 hdc with rfl | hdc
    · rfl
    · obtain ⟨x, _, rfl⟩ := List.mem_map.1 hdc
      cases hr
  · exact absurd hr (attrDecls_kinds false b _ dc hdc).2.2
  · simp only [vendorHelperDecls, List.mem_cons, List.not_mem_nil, or_false] at hdc
    rcases hdc with rfl | rfl | rfl | rfl | rfl | rfl <;> cases hr
  · exact absurd hr (attrDecls_kinds true b _ dc hdc).2.2

theorem exported_names_partial' {cfg : Cfg} {d : Dictionary} {o : Options} {out : Output} (h : generate cfg d o = .ok out) :
    ∀ s ∈ out.sections, ∀ vendor a, s.1 = .attr vendor a → exportedIdent (identifier a.name) = true →
      ∀ dc ∈ s.2, exportedIdent dc.name = true := by
  obtain ⟨seen, evs0, vimps, _, _, _, _, hsec, _⟩ := generate_ok_full h
  intro s hs vendor a ho he dc hdc
  rw [hsec] at hs
  rcases mem_gSections hs with ⟨b, hb, rfl⟩ | ⟨v, _, rfl⟩ | ⟨e, _, rfl⟩ | ⟨b, hb, rfl⟩ | ⟨v, _, rfl⟩ | ⟨v, hv, b, hb, rfl⟩
  · cases ho
    rw [List.mem_singleton] at hdc
    subst hdc
    exact (typeConst_names_ok _ he).2.1
  · cases ho
  · cases ho
  · cases ho
    exact (attrDecls_names_ok false _ _ he dc hdc).2.1
  · cases ho
  · cases ho
    exact (attrDecls_names_ok true _ _ he dc hdc).2.1

/-! ### of several VALUEs with one number, the last one declared names the constant -/

theorem snoc_induction {α} {C : List α → Prop} (hnil : C []) (hsnoc : ∀ l a, C l → C (l ++ [a])) : ∀ l, C l := by
  intro l
  have : ∀ r : List α, C r.reverse := by
    intro r
    induction r with
    | nil => exact hnil
    | cons a r ih => rw [List.reverse_cons]; exact hsnoc _ _ ih
  simpa using this l.reverse

theorem sortStable_id_of {α} (less : α → α → Bool) : ∀ l : List α, (∀ a ∈ l, ∀ b ∈ l, less a b = false) → sortStable less l = l
  | [], _ => rfl
  | a :: l, h => by
    show insertStable less a (sortStable less l) = a :: l
    rw [sortStable_id_of less l (fun x hx y hy => h x (List.mem_cons_of_mem _ hx) y (List.mem_cons_of_mem _ hy))]
    exact insertStable_all_ge less a l (fun c hc => h c (List.mem_cons_of_mem _ hc) a List.mem_cons_self)

/-- the invariant of the loop of `attributeValues` over a list, sorted by number, of VALUEs of one attribute -/
theorem foldl_avStep_last (n : Bytes) : ∀ P : List Value,
    P.Pairwise (fun x y => x.number ≤ y.number) → (∀ x ∈ P, x.attrName = n) →
    (P.foldl (avStep n) []).Pairwise (fun x y => x.number < y.number)
    ∧ (∀ w ∈ P.foldl (avStep n) [], w ∈ P)
    ∧ (∀ w ∈ P.foldl (avStep n) [], (P.filter (fun v => v.number == w.number)).getLast? = some w)
    ∧ (P.foldl (avStep n) [] = [] → P = []) := by
  intro P
  induction P using snoc_induction with
  | hnil => intro _ _; simp
  | hsnoc P v ih =>
    intro hs hn
    rw [List.pairwise_append] at hs
    obtain ⟨hsP, _, hPv⟩ := hs
    have hle : ∀ x ∈ P, x.number ≤ v.number := fun x hx => hPv x hx v (by simp)
    obtain ⟨j1, j2, j3, j4⟩ := ih hsP (fun x hx => hn x (List.mem_append_left _ hx))
    have hvn : (v.attrName == n) = true := by simpa using hn v (by simp)
    rw [List.foldl_append, List.foldl_cons, List.foldl_nil]
    generalize hr : P.foldl (avStep n) [] = r at j1 j2 j3 j4
    have hfil : ∀ k, (P ++ [v]).filter (fun x => x.number == k) =
        P.filter (fun x => x.number == k) ++ (if v.number = k then [v] else []) := by
      intro k
      rw [List.filter_append]
      congr 1
      by_cases hk : v.number = k <;> simp [hk]
    have hv_last : ((P ++ [v]).filter (fun x => x.number == v.number)).getLast? = some v := by
      rw [hfil, if_pos rfl, List.getLast?_concat]
    have hother : ∀ w ∈ r, w.number ≠ v.number →
        ((P ++ [v]).filter (fun x => x.number == w.number)).getLast? = some w := by
      intro w hw hne
      rw [hfil, if_neg (fun e => hne e.symm), List.append_nil]
      exact j3 w hw
    unfold avStep
    rw [if_pos hvn]
    rcases List.eq_nil_or_concat r with rfl | ⟨ini, lst, rfl⟩
    · have hP := j4 rfl
      subst hP
      simp
    · rw [List.concat_eq_append] at j1 j2 j3 hother ⊢
      rw [List.getLast?_concat]
      simp only [List.dropLast_concat]
      rw [List.pairwise_append] at j1
      obtain ⟨hpi, _, hpl⟩ := j1
      have hlst : lst.number ≤ v.number := hle lst (j2 lst (by simp))
      have hini : ∀ a ∈ ini, a.number < lst.number := fun a ha => hpl a ha lst (by simp)
      by_cases heq : lst.number = v.number
      · have heq' : (lst.number == v.number) = true := by simpa using heq
        rw [if_pos heq']
        refine ⟨?_, ?_, ?_, by simp⟩
        · rw [List.pairwise_append]
          refine ⟨hpi, by simp, ?_⟩
          intro a ha b hb
          rw [List.mem_singleton] at hb
          subst hb
          rw [← heq]
          exact hini a ha
        · intro w hw
          rcases List.mem_append.1 hw with hw | hw
          · exact List.mem_append_left _ (j2 w (List.mem_append_left _ hw))
          · rw [List.mem_singleton] at hw
            subst hw
            simp
        · intro w hw
          rcases List.mem_append.1 hw with hw | hw
          · refine hother w (List.mem_append_left _ hw) ?_
            have := hini w hw
            omega
          · rw [List.mem_singleton] at hw
            subst hw
            exact hv_last
      · have heq' : (lst.number == v.number) = false := by simpa using heq
        rw [heq']
        simp only [Bool.false_eq_true, if_false]
        have hlt : ∀ a ∈ ini ++ [lst], a.number < v.number := by
          intro a ha
          rcases List.mem_append.1 ha with ha | ha
          · have := hini a ha
            omega
          · rw [List.mem_singleton] at ha
            subst ha
            omega
        refine ⟨?_, ?_, ?_, by simp⟩
        · rw [List.pairwise_append]
          refine ⟨?_, by simp, ?_⟩
          · rw [List.pairwise_append]
            exact ⟨hpi, by simp, hpl⟩
          · intro a ha b hb
            rw [List.mem_singleton] at hb
            subst hb
            exact hlt a ha
        · intro w hw
          rcases List.mem_append.1 hw with hw | hw
          · exact List.mem_append_left _ (j2 w hw)
          · rw [List.mem_singleton] at hw
            subst hw
            simp
        · intro w hw
          rcases List.mem_append.1 hw with hw | hw
          · refine hother w hw ?_
            have := hlt w hw
            omega
          · rw [List.mem_singleton] at hw
            subst hw
            exact hv_last

/-- of the VALUE lines of one attribute that carry the same number, the one declared last names the constant -/
theorem attrValues_last' (n : Bytes) (l : List Value) :
    ∀ w ∈ attrValues n (sortValues l),
      (l.filter (fun v => v.attrName == n && v.number == w.number)).getLast? = some w := by
  have hsorted : (sortValues l).Pairwise (fun x y => x.number ≤ y.number) := by
    have := sortStable_pairwise (fun a b : Value => decide (a.number < b.number))
      (by intro a b h; simp only [decide_eq_true_eq, decide_eq_false_iff_not] at h ⊢; omega)
      (by intro a b c h1 h2; simp only [decide_eq_false_iff_not] at h1 h2 ⊢; omega) l
    exact this.imp (fun h => by simpa using h)
  have hT := foldl_avStep_last n ((sortValues l).filter (fun v => v.attrName == n))
    (hsorted.sublist List.filter_sublist) (fun x hx => by simpa using (List.mem_filter.1 hx).2)
  intro w hw
  rw [attrValues_eq_foldl, foldl_avStep_filter] at hw
  have h3 := hT.2.2.1 w hw
  rw [List.filter_filter, ← sortValues_filter] at h3
  have hid : sortValues (l.filter (fun a => a.number == w.number && a.attrName == n))
      = l.filter (fun a => a.number == w.number && a.attrName == n) := by
    apply sortStable_id_of
    intro a ha b hb
    have h1 := (List.mem_filter.1 ha).2
    have h2 := (List.mem_filter.1 hb).2
    simp only [Bool.and_eq_true, beq_iff_eq] at h1 h2
    simp only [decide_eq_false_iff_not]
    omega
  rw [hid] at h3
  rw [← h3]
  congr 1
  apply List.filter_congr
  intro x _
  exact Bool.and_comm _ _

end RV.Gen
