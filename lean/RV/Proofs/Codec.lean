/- Helper lemmas about RV.Model.Codec used by RV.Props.C10. -/
import RV.Model.Codec
namespace RV

/-! ### beNat / beBytes -/

theorem beNat_beBytes_mod (n v : Nat) : beNat (beBytes n v) = v % 256 ^ n := by
  induction n with
  | zero => simp [beBytes, beNat, Nat.mod_one]
  | succ n ih =>
    simp only [beBytes, beNat, beBytes_length, ih, UInt8.toNat_ofNat']
    have h1 : v / 256 ^ n % 256 % 2 ^ 8 = v / 256 ^ n % 256 := by
      rw [show (2:Nat)^8 = 256 from rfl, Nat.mod_mod]
    rw [h1, Nat.pow_succ, Nat.mod_mul, Nat.add_comm, Nat.mul_comm]

theorem beNat_beBytes (n v : Nat) (h : v < 256 ^ n) : beNat (beBytes n v) = v := by
  rw [beNat_beBytes_mod, Nat.mod_eq_of_lt h]

theorem beNat_lt (a : Bytes) : beNat a < 256 ^ a.length := by
  induction a with
  | nil => simp [beNat]
  | cons x xs ih =>
    simp only [beNat, List.length_cons, Nat.pow_succ]
    have hx : x.toNat < 256 := x.toNat_lt
    have : x.toNat * 256 ^ xs.length + 256 ^ xs.length ≤ 256 * 256 ^ xs.length := by
      have := Nat.mul_le_mul_right (256 ^ xs.length) (show x.toNat + 1 ≤ 256 from hx)
      rw [Nat.add_mul, Nat.one_mul] at this
      exact this
    rw [Nat.mul_comm (256 ^ xs.length) 256]
    omega

theorem beBytes_add_mul (n d x r : Nat) : beBytes n (x * 256 ^ (n + d) + r) = beBytes n r := by
  induction n generalizing d with
  | zero => rfl
  | succ n ih =>
    simp only [beBytes]
    congr 1
    · congr 1
      have : x * 256 ^ (n + 1 + d) = 256 ^ n * (x * 256 ^ d * 256) := by
        rw [show n + 1 + d = n + (d + 1) by omega, Nat.pow_add, Nat.pow_succ]
        simp only [Nat.mul_comm, Nat.mul_left_comm]
      rw [this, Nat.mul_add_div (Nat.pow_pos (by decide)), Nat.add_comm, Nat.add_mul_mod_self_right]
    · have := ih (d + 1)
      rw [show n + (d + 1) = n + 1 + d by omega] at this
      exact this

theorem beBytes_beNat (a : Bytes) : beBytes a.length (beNat a) = a := by
  induction a with
  | nil => rfl
  | cons x xs ih =>
    have hlt := beNat_lt xs
    simp only [beNat, List.length_cons, beBytes]
    congr 1
    · rw [Nat.mul_comm, Nat.mul_add_div (Nat.pow_pos (by decide)), Nat.div_eq_of_lt hlt,
        Nat.add_zero, Nat.mod_eq_of_lt x.toNat_lt, UInt8.ofNat_toNat]
    · have := beBytes_add_mul xs.length 0 x.toNat (beNat xs)
      rw [Nat.add_zero] at this
      rw [this]; exact ih

/-! ### integers -/

theorem short_newShort (v : Nat) (h : v < 2 ^ 16) : short (newShort v) = .ok v := by
  simp [short, newShort, beBytes_length, beNat_beBytes 2 v h]

theorem integer_newInteger (v : Nat) (h : v < 2 ^ 32) : integer (newInteger v) = .ok v := by
  simp [integer, newInteger, beBytes_length, beNat_beBytes 4 v h]

theorem integer64_newInteger64 (v : Nat) (h : v < 2 ^ 64) : integer64 (newInteger64 v) = .ok v := by
  simp [integer64, newInteger64, beBytes_length, beNat_beBytes 8 v h]

theorem short_enc_dec' (a : Bytes) (v : Nat) (h : short a = .ok v) : v < 2 ^ 16 ∧ newShort v = a := by
  unfold short at h
  split at h
  · cases h
  · rename_i hl
    have hl : a.length = 2 := by omega
    cases h
    have h1 := beNat_lt a
    have h2 := beBytes_beNat a
    rw [hl] at h1 h2
    exact ⟨h1, h2⟩

theorem integer_enc_dec' (a : Bytes) (v : Nat) (h : integer a = .ok v) : v < 2 ^ 32 ∧ newInteger v = a := by
  unfold integer at h
  split at h
  · cases h
  · rename_i hl
    have hl : a.length = 4 := by omega
    cases h
    have h1 := beNat_lt a
    have h2 := beBytes_beNat a
    rw [hl] at h1 h2
    exact ⟨h1, h2⟩

theorem integer64_enc_dec' (a : Bytes) (v : Nat) (h : integer64 a = .ok v) : v < 2 ^ 64 ∧ newInteger64 v = a := by
  unfold integer64 at h
  split at h
  · cases h
  · rename_i hl
    have hl : a.length = 8 := by omega
    cases h
    have h1 := beNat_lt a
    have h2 := beBytes_beNat a
    rw [hl] at h1 h2
    exact ⟨h1, h2⟩

/-! ### addresses -/

theorem ipaddr_roundtrip' (ip a : Bytes) (h : newIPAddr ip = .ok a) :
    a.length = 4 ∧ ∃ d, ipAddr a = .ok d ∧ ipEqual d ip = true := by
  unfold newIPAddr to4 at h
  split at h
  · rename_i b hb
    cases h
    split at hb
    · rename_i h4
      cases hb
      refine ⟨h4, ip, by simp [ipAddr, h4], ?_⟩
      simp [ipEqual, to16, h4]
    · split at hb
      · rename_i h16
        cases hb
        have hl : (ip.drop 12).length = 4 := by simp [h16.1]
        refine ⟨hl, ip.drop 12, by simp [ipAddr, h16.1], ?_⟩
        have : v4InV6Prefix ++ ip.drop 12 = ip := by
          rw [← h16.2]; exact List.take_append_drop 12 ip
        simp [ipEqual, to16, h16.1, this]
      · cases hb
  · cases h

theorem ipv6addr_roundtrip' (ip a : Bytes) (h : newIPv6Addr ip = .ok a) :
    a.length = 16 ∧ ∃ d, ipv6Addr a = .ok d ∧ ipEqual d ip = true := by
  unfold newIPv6Addr to16 at h
  split at h
  · rename_i b hb
    cases h
    split at hb
    · rename_i h4
      cases hb
      have hl : (v4InV6Prefix ++ ip).length = 16 := by simp [v4InV6Prefix, h4]
      refine ⟨hl, v4InV6Prefix ++ ip, by simp [ipv6Addr, hl], ?_⟩
      simp only [ipEqual, to16, hl, h4]
      simp
    · split at hb
      · rename_i h16
        cases hb
        refine ⟨h16, ip, by simp [ipv6Addr, h16], ?_⟩
        simp [ipEqual, to16, h16]
      · cases hb
  · cases h

/-! ### date -/

theorem date_roundtrip' (u : Int) (a : Bytes) (h : newDate u = .ok a) : a.length = 4 ∧ date a = .ok u := by
  unfold newDate at h
  split at h
  · cases h
  · split at h
    · cases h
    · cases h
      rename_i h1 h2
      have hm : u % 4294967296 = u := Int.emod_eq_of_lt (by omega) (by omega)
      refine ⟨beBytes_length _ _, ?_⟩
      simp only [date, beBytes_length]
      rw [beNat_beBytes 4 _ (by rw [hm]; show u.toNat < 4294967296; omega), hm]
      simp
      omega

/-! ### vendor-specific, TLV -/

theorem vsa_roundtrip' (id : Nat) (v a : Bytes) (hid : id < 2 ^ 32) (h : newVendorSpecific id v = .ok a) :
    a.length ≤ 253 ∧ vendorSpecific a = .ok (id, v) := by
  unfold newVendorSpecific at h
  split at h
  · cases h
  · split at h
    · cases h
    · cases h
      have hl := beBytes_length 4 id
      refine ⟨by simp [hl]; omega, ?_⟩
      unfold vendorSpecific
      rw [if_neg (by simp [hl]; omega)]
      rw [List.take_left' hl, List.drop_left' hl, beNat_beBytes 4 id hid]

theorem tlv_roundtrip' (t : UInt8) (v a : Bytes) (h : newTLV t v = .ok a) :
    a.length ≤ 255 ∧ tlv a = .ok (t, v) := by
  unfold newTLV at h
  split at h
  · cases h
  · cases h
    rename_i hv
    have hb : (UInt8.ofNat (2 + v.length)).toNat = 2 + v.length := by
      rw [UInt8.toNat_ofNat']; show (2 + v.length) % 256 = _; omega
    refine ⟨by simp; omega, ?_⟩
    unfold tlv
    rw [if_neg (by simp; omega)]
    simp

/-! ### IPv6 prefix -/

theorem ext_getD (l₁ l₂ : Bytes) (hl : l₁.length = l₂.length)
    (h : ∀ i, i < l₁.length → l₁.getD i 0 = l₂.getD i 0) : l₁ = l₂ := by
  apply List.ext_getElem hl
  intro i h1 h2
  rw [List.getElem_eq_getD (0 : UInt8), List.getElem_eq_getD (0 : UInt8)]
  exact h i h1

/-- byte `i` of the `n`-bit ones-then-zeros mask -/
def maskByte (n i : Nat) : UInt8 :=
  if (i + 1) * 8 ≤ n then 0xff
  else if i * 8 ≥ n then 0
  else UInt8.ofNat (256 - 2 ^ (8 - (n - i * 8)))

theorem maskByte_shift (n i : Nat) : maskByte (n + 8) (i + 1) = maskByte n i := by
  unfold maskByte
  have e : n + 8 - (i + 1) * 8 = n - i * 8 := by omega
  rw [e]
  by_cases h1 : (i + 1) * 8 ≤ n
  · rw [if_pos h1, if_pos (by omega)]
  · rw [if_neg h1, if_neg (by omega)]
    by_cases h2 : i * 8 ≥ n
    · rw [if_pos h2, if_pos (by omega)]
    · rw [if_neg h2, if_neg (by omega)]

theorem byteOnes_spec (b : UInt8) (k : Nat) (h : byteOnes b = some k) :
    k ≤ 8 ∧ b = maskByte k 0 := by
  unfold byteOnes at h
  have hb : b = UInt8.ofNat b.toNat := UInt8.ofNat_toNat.symm
  split at h <;> rename_i e <;> first
    | (cases h; rw [e] at hb; exact ⟨by decide, hb⟩)
    | cases h

theorem cidrMask_length (n : Nat) : (cidrMask n).length = 16 := by
  simp [cidrMask]

theorem cidrMask_getD (n i : Nat) (hi : i < 16) : (cidrMask n).getD i 0 = maskByte n i := by
  unfold cidrMask maskByte
  rw [List.getD_eq_getElem?_getD, List.getElem?_map, List.getElem?_range hi]
  rfl

theorem all_zero_getD (l : Bytes) (h : l.all (· == 0) = true) (i : Nat) : l.getD i 0 = 0 := by
  rw [List.getD_eq_getElem?_getD]
  cases hi : l[i]? with
  | none => rfl
  | some x =>
    have hm := List.mem_of_getElem? hi
    have := List.all_eq_true.mp h x hm
    simpa using this

theorem maskOnes_spec (mask : Bytes) : ∀ n, maskOnes mask = some n →
    n ≤ mask.length * 8 ∧ ∀ i, i < mask.length → mask.getD i 0 = maskByte n i := by
  induction mask with
  | nil => intro n h; simp [maskOnes] at h; subst h; simp
  | cons b rest ih =>
    intro n h
    unfold maskOnes at h
    split at h
    · rename_i hb
      cases hr : maskOnes rest with
      | none => rw [hr] at h; cases h
      | some n' =>
        rw [hr] at h
        simp only [Option.map_some, Option.some.injEq] at h
        subst h
        obtain ⟨h1, h2⟩ := ih n' hr
        refine ⟨by simp only [List.length_cons]; omega, ?_⟩
        intro i hi
        cases i with
        | zero =>
          simp only [List.getD_cons_zero, hb]
          unfold maskByte
          rw [if_pos (by omega)]
        | succ j =>
          simp only [List.getD_cons_succ]
          rw [maskByte_shift]
          exact h2 j (by simp only [List.length_cons] at hi; omega)
    · split at h
      · rename_i k hk
        split at h
        · rename_i hz
          cases h
          obtain ⟨h1, h2⟩ := byteOnes_spec b n hk
          refine ⟨by simp only [List.length_cons]; omega, ?_⟩
          intro i hi
          cases i with
          | zero => simpa using h2
          | succ j =>
            simp only [List.getD_cons_succ]
            rw [all_zero_getD rest hz]
            unfold maskByte
            rw [if_neg (by omega), if_pos (by omega)]
        · cases h
      · cases h

theorem maskOnes_eq_cidrMask (mask : Bytes) (n : Nat) (hl : mask.length = 16)
    (h : maskOnes mask = some n) : n ≤ 128 ∧ mask = cidrMask n := by
  obtain ⟨h1, h2⟩ := maskOnes_spec mask n h
  refine ⟨by omega, ?_⟩
  apply ext_getD
  · rw [hl, cidrMask_length]
  · intro i hi
    rw [h2 i hi, cidrMask_getD n i (by omega)]

/-- copy of `RV.C10.maskIP` (which lives in the Props file) -/
def maskIP' (ip : Bytes) (n : Nat) : Bytes :=
  (List.range ip.length).map fun i =>
    if (i + 1) * 8 ≤ n then ip.getD i 0
    else if i * 8 ≥ n then 0
    else clearFrom (ip.getD i 0) (n - i * 8)

theorem maskIP'_length (ip : Bytes) (n : Nat) : (maskIP' ip n).length = ip.length := by
  simp [maskIP']

theorem maskIP'_getD (ip : Bytes) (n i : Nat) (hi : i < ip.length) :
    (maskIP' ip n).getD i 0 =
      if (i + 1) * 8 ≤ n then ip.getD i 0
      else if i * 8 ≥ n then 0
      else clearFrom (ip.getD i 0) (n - i * 8) := by
  unfold maskIP'
  rw [List.getD_eq_getElem?_getD, List.getElem?_map, List.getElem?_range hi]
  rfl

theorem clearFrom_idem (b : UInt8) (k : Nat) : clearFrom (clearFrom b k) k = clearFrom b k := by
  simp [clearFrom, UInt8.and_assoc]

theorem hostBitsZero_maskIP' (ip : Bytes) (n : Nat) : hostBitsZero (maskIP' ip n) n = true := by
  unfold hostBitsZero
  rw [List.all_eq_true]
  intro i hi
  rw [List.mem_range] at hi
  rw [maskIP'_length] at hi
  simp only [maskIP'_getD ip n i hi]
  by_cases h1 : (i + 1) * 8 ≤ n
  · simp [h1]
  · by_cases h2 : i * 8 ≥ n
    · simp [h1, h2]
    · simp [h1, h2, clearFrom_idem]

/-- the body emitted by `newIPv6Prefix` -/
def encBody (ip : Bytes) (ones : Nat) : Bytes :=
  if ones % 8 ≠ 0 then
    (ip.take ((ones + 7) / 8)).take ((ones + 7) / 8 - 1) ++
      [clearFrom ((ip.take ((ones + 7) / 8)).getD ((ones + 7) / 8 - 1) 0) (ones % 8)]
  else ip.take ((ones + 7) / 8)

theorem newIPv6Prefix_ok (ip mask : Bytes) (n : Nat) (hip : ip.length = 16) (hm : mask.length = 16)
    (hn : maskOnes mask = some n) :
    newIPv6Prefix (some (ip, mask)) = .ok (0 :: UInt8.ofNat n :: encBody ip n) := by
  simp [newIPv6Prefix, maskSize, hn, hip, hm, encBody]

theorem encBody_length (ip : Bytes) (n : Nat) (hip : ip.length = 16) (hn : n ≤ 128) :
    (encBody ip n).length = (n + 7) / 8 := by
  unfold encBody
  split
  · simp [hip]; omega
  · simp [hip]; omega

theorem encBody_pad_getD (ip : Bytes) (n i : Nat) (hip : ip.length = 16) (hn : n ≤ 128) (hi : i < 16) :
    (encBody ip n ++ zeros (16 - (n + 7) / 8)).getD i 0 = (maskIP' ip n).getD i 0 := by
  rw [maskIP'_getD ip n i (by omega)]
  rw [List.getD_eq_getElem?_getD, List.getElem?_append, encBody_length ip n hip hn]
  unfold encBody zeros
  by_cases h8 : n % 8 = 0
  · simp only [h8, ne_eq, not_true_eq_false, if_false, List.getElem?_take, List.getElem?_replicate]
    by_cases h1 : (i + 1) * 8 ≤ n
    · rw [if_pos (by omega), if_pos (by omega), if_pos h1, List.getD_eq_getElem?_getD]
    · rw [if_neg (by omega), if_neg h1, if_pos (by omega), if_pos (by omega)]; rfl
  · simp only [h8, ne_eq, not_false_eq_true, if_true, List.getElem?_take, List.getElem?_replicate,
      List.getElem?_append, List.length_take, hip]
    by_cases h1 : (i + 1) * 8 ≤ n
    · rw [if_pos (by omega), if_pos (by omega), if_pos (by omega), if_pos (by omega), if_pos h1,
        List.getD_eq_getElem?_getD]
    · rw [if_neg h1]
      by_cases h2 : i * 8 ≥ n
      · rw [if_neg (by omega), if_pos (by omega), if_pos h2]; rfl
      · rw [if_pos (by omega), if_neg (by omega), if_neg h2]
        have e1 : i - min ((n + 7) / 8 - 1) (min ((n + 7) / 8) 16) = 0 := by omega
        have e2 : (n + 7) / 8 - 1 = i := by omega
        have e3 : n % 8 = n - i * 8 := by omega
        rw [e1, e2, e3]
        simp only [List.getElem?_cons_zero, Option.getD_some, List.getD_eq_getElem?_getD,
          List.getElem?_take]
        rw [if_pos (by omega)]

theorem encBody_pad_eq (ip : Bytes) (n : Nat) (hip : ip.length = 16) (hn : n ≤ 128) :
    encBody ip n ++ zeros (16 - (n + 7) / 8) = maskIP' ip n := by
  apply ext_getD
  · rw [maskIP'_length, List.length_append, encBody_length ip n hip hn, hip]
    simp [zeros]; omega
  · intro i hi
    rw [List.length_append, encBody_length ip n hip hn] at hi
    simp only [zeros, List.length_replicate] at hi
    exact encBody_pad_getD ip n i hip hn (by omega)

theorem prefix_roundtrip' (ip mask a : Bytes) (n : Nat) (hn : maskOnes mask = some n)
    (h : newIPv6Prefix (some (ip, mask)) = .ok a) :
    a.length ≤ 18 ∧ ipv6Prefix a = .ok (maskIP' ip n, mask) := by
  have hip : ip.length = 16 := by
    unfold newIPv6Prefix at h
    simp only at h
    split at h
    · cases h
    · rename_i hh; simpa using hh
  have hm : mask.length = 16 := by
    unfold newIPv6Prefix at h
    simp only [maskSize, hn, hip] at h
    split at h
    · cases h
    · split at h
      · cases h
      · rename_i hh; omega
  obtain ⟨hn128, hmask⟩ := maskOnes_eq_cidrMask mask n hm hn
  rw [newIPv6Prefix_ok ip mask n hip hm hn] at h
  cases h
  have hl := encBody_length ip n hip hn128
  have hpl : (UInt8.ofNat n).toNat = n := by
    rw [UInt8.toNat_ofNat']; show n % 256 = n; omega
  refine ⟨by simp only [List.length_cons, hl]; omega, ?_⟩
  unfold ipv6Prefix
  rw [if_neg (by simp only [List.length_cons, hl]; omega)]
  simp only [List.getD_cons_succ, List.getD_cons_zero, hpl, List.drop_succ_cons, List.drop_zero,
    List.length_cons, hl]
  rw [if_neg (by omega)]
  have e : (n + 7) / 8 + 1 + 1 - 2 = (n + 7) / 8 := by omega
  rw [e, encBody_pad_eq ip n hip hn128, hostBitsZero_maskIP', ← hmask]
  rfl

theorem prefix_enc_ok_iff' (ip mask : Bytes) :
    (∃ a, newIPv6Prefix (some (ip, mask)) = .ok a) ↔
      (ip.length = 16 ∧ mask.length = 16 ∧ (maskOnes mask).isSome = true) := by
  constructor
  · rintro ⟨a, h⟩
    unfold newIPv6Prefix at h
    simp only at h
    split at h
    · cases h
    · rename_i hip
      cases hm : maskOnes mask with
      | none => simp [maskSize, hm] at h
      | some n =>
        simp only [maskSize, hm] at h
        split at h
        · cases h
        · rename_i hh
          exact ⟨by omega, by omega, rfl⟩
  · rintro ⟨hip, hm, hs⟩
    cases hn : maskOnes mask with
    | none => rw [hn] at hs; cases hs
    | some n => exact ⟨_, newIPv6Prefix_ok ip mask n hip hm hn⟩

theorem prefix_dec_ok_iff' (a : Bytes) :
    (∃ r, ipv6Prefix a = .ok r) ↔
      (2 ≤ a.length ∧ a.length ≤ 18 ∧ (a.getD 1 0).toNat ≤ 128 ∧
       hostBitsZero (a.drop 2 ++ zeros (16 - (a.length - 2))) (a.getD 1 0).toNat = true) := by
  unfold ipv6Prefix
  simp only
  by_cases h1 : a.length < 2 ∨ a.length > 18
  · rw [if_pos h1]
    constructor
    · rintro ⟨r, h⟩; cases h
    · intro h; omega
  · rw [if_neg h1]
    by_cases h2 : (a.getD 1 0).toNat > 128
    · rw [if_pos h2]
      constructor
      · rintro ⟨r, h⟩; cases h
      · intro h; omega
    · rw [if_neg h2]
      cases h3 : hostBitsZero (a.drop 2 ++ zeros (16 - (a.length - 2))) (a.getD 1 0).toNat with
      | false => simp
      | true =>
        simp only [Bool.not_true, Bool.false_eq_true, if_false]
        exact ⟨fun _ => ⟨by omega, by omega, by omega, trivial⟩, fun _ => ⟨_, rfl⟩⟩

theorem never_faults' (a : Bytes) :
    short a ≠ .fault ∧ integer a ≠ .fault ∧ integer64 a ≠ .fault ∧ ipAddr a ≠ .fault ∧ ipv6Addr a ≠ .fault ∧
    ifid a ≠ .fault ∧ date a ≠ .fault ∧ vendorSpecific a ≠ .fault ∧ tlv a ≠ .fault ∧ ipv6Prefix a ≠ .fault := by
  refine ⟨?_, ?_, ?_, ?_, ?_, ?_, ?_, ?_, ?_, ?_⟩
  · unfold short; split <;> simp
  · unfold integer; split <;> simp
  · unfold integer64; split <;> simp
  · unfold ipAddr; split <;> simp
  · unfold ipv6Addr; split <;> simp
  · unfold ifid; split <;> simp
  · unfold date; split <;> simp
  · unfold vendorSpecific; split <;> simp
  · unfold tlv; split <;> simp
  · unfold ipv6Prefix
    simp only
    repeat' split
    all_goals simp

end RV
