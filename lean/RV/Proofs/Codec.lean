/- Helper lemmas about RV.Model.Codec used by RV.Props.C10. -/
import RV.Model.Codec
namespace RV
end RV
